/-
  murmur3 (32 bit, seed 0) exactly as github.com/spaolacci/murmur3 `Sum32`, on UInt32.
  Tied to the real library by the C15 correspondence run only (trusted base: the library).
-/
namespace Z.Murmur3

def c1 : UInt32 := 0xcc9e2d51
def c2 : UInt32 := 0x1b873593

@[inline] def rotl (x : UInt32) (r : UInt32) : UInt32 := (x <<< r) ||| (x >>> (32 - r))

def mixK (k : UInt32) : UInt32 := (rotl (k * c1) 15) * c2

def le32 (a b c d : UInt8) : UInt32 :=
  a.toUInt32 ||| (b.toUInt32 <<< 8) ||| (c.toUInt32 <<< 16) ||| (d.toUInt32 <<< 24)

/-- body + tail; structural on the byte list -/
def body : UInt32 → List UInt8 → UInt32
  | h, a :: b :: c :: d :: rest =>
      let h1 := h ^^^ mixK (le32 a b c d)
      body ((rotl h1 13) * 5 + 0xe6546b64) rest
  | h, [a, b, c] => h ^^^ mixK (le32 a b c 0)
  | h, [a, b] => h ^^^ mixK (le32 a b 0 0)
  | h, [a] => h ^^^ mixK (le32 a 0 0 0)
  | h, [] => h

def fmix (h : UInt32) : UInt32 :=
  let h := h ^^^ (h >>> 16)
  let h := h * 0x85ebca6b
  let h := h ^^^ (h >>> 13)
  let h := h * 0xc2b2ae35
  h ^^^ (h >>> 16)

def sum32 (bs : List UInt8) : UInt32 :=
  fmix (body 0 bs ^^^ UInt32.ofNat bs.length)

end Z.Murmur3
