/-
  C20 reference contract of an engine (core only): a sorted duplicate-free association list with
  atomic write batches (put / delete / delete-range / uint64 little-endian counter merge), plus the
  iterator wrapper of engine/iterator.go (`Z.IterP.iterate` / `iterateRev`) on the view the engine
  bounds by [Min, Max) / [Min, Max].
-/
import ZanVerif.Engine.Ref
import ZanVerif.Engine.IterP

namespace Z.Store
open Z.Ref

inductive Op
  | put (k v : Bytes)
  | del (k : Bytes)
  | delRange (a b : Bytes)      -- [a, b)
  | merge (k : Bytes) (n : Nat) -- counter += n (mod 2^64)
  deriving Repr

def le64 (n : Nat) : Bytes := (List.range 8).map (fun i => UInt8.ofNat (n / 256 ^ i % 256))
def ofLE64 (b : Bytes) : Nat := (b.take 8).foldr (fun x acc => x.toNat + 256 * acc) 0

def delRange (m : List KV) (a b : Bytes) : List KV :=
  m.filter (fun p => !(decide (a ≤ p.1) && decide (p.1 < b)))

/-- `GetRocksdbUint64`: an absent / empty value counts as 0 (values shorter than 8 bytes are an error in
    the real code; the generator never produces them) -/
def counterOf (m : List KV) (k : Bytes) : Nat :=
  match get m k with
  | none => 0
  | some v => if v.length < 8 then 0 else ofLE64 v

def applyOp (m : List KV) : Op → List KV
  | .put k v => put m k v
  | .del k => del m k
  | .delRange a b => delRange m a b
  | .merge k n => put m k (le64 ((counterOf m k + n) % 18446744073709551616))

/-- committing a batch = left fold of its operations, in order -/
def commit (m : List KV) (batch : List Op) : List KV := batch.foldl applyOp m

structure St where
  store : List KV := []
  batch : List Op := []     -- oldest first
  deriving Inhabited

/-- reads during an open batch see the committed store only -/
def St.get (s : St) (k : Bytes) : Option Bytes := Z.Ref.get s.store k
def St.add (s : St) (o : Op) : St := { s with batch := s.batch ++ [o] }
def St.commit (s : St) : St := { store := Z.Store.commit s.store s.batch, batch := [] }
def St.clear (s : St) : St := { s with batch := [] }

/-- the view an engine exposes for an option record: lower bound inclusive, upper bound exclusive,
    closed right end = Max itself included -/
def inBounds (mn mx : Option Bytes) (ropen : Bool) (k : Bytes) : Bool :=
  (match mn with | none => true | some a => decide (a ≤ k)) &&
  (match mx with | none => true | some b => if ropen then decide (k < b) else decide (k ≤ b))

/-- `NewDBRangeLimitIteratorWithOpts` + the consumer loop `for ; it.Valid(); it.Next()`.
    A negative offset makes the iterator invalid from the start. -/
def iter (m : List KV) (mn mx : Option Bytes) (lopen ropen : Bool) (offset : Int) (count : Int) (rev : Bool) : List KV :=
  if offset < 0 then [] else
  let o : Z.IterP.Opts Bytes := { min := mn, max := mx, lopen := lopen, ropen := ropen,
                                  offset := offset.toNat, count := if count < 0 then none else some count.toNat }
  let view := (m.map (·.1)).filter (inBounds mn mx ropen)
  let ks := if rev then Z.IterP.iterateRev o view.reverse else Z.IterP.iterate o view
  ks.filterMap (fun k => (get m k).map (fun v => (k, v)))

end Z.Store
