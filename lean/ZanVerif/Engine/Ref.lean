/-
Scratch prototype: sorted association list as the reference ordered KV store.
-/
namespace Z.Ref

abbrev Bytes := List UInt8
abbrev KV := Bytes × Bytes

/-- strictly sorted by key -/
def Sorted : List KV → Prop
  | [] => True
  | [_] => True
  | a :: b :: t => a.1 < b.1 ∧ Sorted (b :: t)

def get : List KV → Bytes → Option Bytes
  | [], _ => none
  | (k', v) :: t, k => if k' = k then some v else get t k

def put : List KV → Bytes → Bytes → List KV
  | [], k, v => [(k, v)]
  | (k', v') :: t, k, v =>
    if k < k' then (k, v) :: (k', v') :: t
    else if k = k' then (k, v) :: t
    else (k', v') :: put t k v

def del : List KV → Bytes → List KV
  | [], _ => []
  | (k', v') :: t, k => if k' = k then t else (k', v') :: del t k

/-- keys in the half-open range [lo, hi) in order -/
def scan (m : List KV) (lo hi : Bytes) : List KV := m.filter (fun p => decide (lo ≤ p.1) && decide (p.1 < hi))

theorem Sorted.tail {a : KV} {t : List KV} (h : Sorted (a :: t)) : Sorted t := by
  cases t with
  | nil => trivial
  | cons b t => exact h.2

/-- every key in the tail of a sorted list is greater than the head key -/
theorem Sorted.head_lt {a : KV} {t : List KV} (h : Sorted (a :: t)) : ∀ p ∈ t, a.1 < p.1 := by
  induction t generalizing a with
  | nil => intro p hp; cases hp
  | cons b t ih =>
    intro p hp
    rcases List.mem_cons.mp hp with rfl | hp
    · exact h.1
    · exact List.lt_trans h.1 (ih h.2 p hp)

theorem sorted_cons {a : KV} {t : List KV} (ht : Sorted t) (hlt : ∀ p ∈ t, a.1 < p.1) : Sorted (a :: t) := by
  cases t with
  | nil => trivial
  | cons b t => exact ⟨hlt b List.mem_cons_self, ht⟩

theorem get_none_of_lt {m : List KV} {k : Bytes} (h : ∀ p ∈ m, k < p.1) : get m k = none := by
  induction m with
  | nil => rfl
  | cons a t ih =>
    have ha := h a List.mem_cons_self
    have : a.1 ≠ k := fun e => List.lt_irrefl k (e ▸ ha)
    simp [get, this, ih (fun p hp => h p (List.mem_cons_of_mem _ hp))]

theorem mem_put {m : List KV} {k v : Bytes} {p : KV} :
    p ∈ put m k v → p = (k, v) ∨ p ∈ m := by
  induction m with
  | nil => intro h; simp [put] at h; exact Or.inl h
  | cons a t ih =>
    intro h
    unfold put at h
    split at h
    · rcases List.mem_cons.mp h with h | h
      · exact Or.inl h
      · exact Or.inr h
    · split at h
      · rcases List.mem_cons.mp h with h | h
        · exact Or.inl h
        · exact Or.inr (List.mem_cons_of_mem _ h)
      · rcases List.mem_cons.mp h with h | h
        · exact Or.inr (h ▸ List.mem_cons_self)
        · rcases ih h with h | h
          · exact Or.inl h
          · exact Or.inr (List.mem_cons_of_mem _ h)

theorem put_sorted {m : List KV} (hm : Sorted m) (k v : Bytes) : Sorted (put m k v) := by
  induction m with
  | nil => trivial
  | cons a t ih =>
    unfold put
    split
    · rename_i hlt
      exact ⟨hlt, hm⟩
    · split
      · rename_i _ heq
        apply sorted_cons hm.tail
        intro p hp
        have := hm.head_lt p hp
        simpa [heq] using this
      · rename_i hnlt hne
        apply sorted_cons (ih hm.tail)
        intro p hp
        rcases mem_put hp with rfl | hp
        · -- a.1 < k since ¬ k < a.1 and k ≠ a.1
          have hle : a.1 ≤ k := List.not_lt.mp hnlt
          rcases List.le_iff_lt_or_eq.mp hle with h | h
          · exact h
          · exact absurd h.symm hne
        · exact hm.head_lt p hp

theorem get_put (m : List KV) (hm : Sorted m) (k v k' : Bytes) :
    get (put m k v) k' = if k' = k then some v else get m k' := by
  induction m with
  | nil => simp [put, get, eq_comm]
  | cons a t ih =>
    unfold put
    split
    · simp [get, eq_comm]
    · split
      · rename_i _ heq
        by_cases h : k' = k
        · simp [get, h]
        · have : a.1 ≠ k' := fun e => h (by rw [← e, heq])
          simp [get, h, this, Ne.symm h]
      · rename_i hnlt hne
        by_cases h : k' = k
        · subst h
          have : a.1 ≠ k' := fun e => hne e.symm
          simp [get, this, ih hm.tail]
        · by_cases h2 : a.1 = k'
          · simp [get, h2, h]
          · simp [get, h2, h, ih hm.tail]

theorem get_del (m : List KV) (hm : Sorted m) (k k' : Bytes) :
    get (del m k) k' = if k' = k then none else get m k' := by
  induction m with
  | nil => simp [del, get]
  | cons a t ih =>
    unfold del
    split
    · rename_i heq
      by_cases h : k' = k
      · subst h
        simp only [↓reduceIte]
        apply get_none_of_lt
        intro p hp; have := hm.head_lt p hp; rwa [heq] at this
      · have : a.1 ≠ k' := fun e => h (by rw [← e, heq])
        simp [get, h, this]
    · rename_i hne
      by_cases h : k' = k
      · subst h; simp [get, hne, ih hm.tail]
      · by_cases h2 : a.1 = k'
        · simp [get, h2, h]
        · simp [get, h2, h, ih hm.tail]


theorem mem_del {m : List KV} {k : Bytes} {p : KV} : p ∈ del m k → p ∈ m := by
  induction m with
  | nil => intro h; cases h
  | cons a t ih =>
    intro h; unfold del at h
    split at h
    · exact List.mem_cons_of_mem _ h
    · rcases List.mem_cons.mp h with h | h
      · exact h ▸ List.mem_cons_self
      · exact List.mem_cons_of_mem _ (ih h)

theorem del_sorted {m : List KV} (hm : Sorted m) (k : Bytes) : Sorted (del m k) := by
  induction m with
  | nil => trivial
  | cons a t ih =>
    unfold del
    split
    · exact hm.tail
    · exact sorted_cons (ih hm.tail) (fun p hp => hm.head_lt p (mem_del hp))

def inR (lo hi k : Bytes) : Bool := decide (lo ≤ k) && decide (k < hi)

theorem scan_cons (a : KV) (t : List KV) (lo hi : Bytes) :
    scan (a :: t) lo hi = if inR lo hi a.1 then a :: scan t lo hi else scan t lo hi := by
  simp [scan, inR, List.filter_cons]

/-- the count of a range grows by one exactly when a new key inside the range is inserted -/
theorem length_scan_put (m : List KV) (hm : Sorted m) (k v lo hi : Bytes) :
    (scan (put m k v) lo hi).length =
      (scan m lo hi).length + (if inR lo hi k && (get m k).isNone then 1 else 0) := by
  induction m with
  | nil => simp only [put, get, Option.isNone_none, Bool.and_true, scan_cons]; simp [scan]; split <;> simp
  | cons a t ih =>
    unfold put
    split
    · rename_i hlt
      have hne : a.1 ≠ k := fun e => List.lt_irrefl k (e ▸ hlt)
      have hnone : get (a :: t) k = none := by
        apply get_none_of_lt
        intro p hp
        rcases List.mem_cons.mp hp with rfl | hp
        · exact hlt
        · exact List.lt_trans hlt (hm.head_lt p hp)
      rw [scan_cons (k, v)]
      simp only [hnone, Option.isNone_none, Bool.and_true]
      split <;> simp
    · split
      · rename_i _ heq
        subst heq
        rw [scan_cons, scan_cons]
        simp [get]
        split <;> simp
      · rename_i hnlt hne
        have hne' : a.1 ≠ k := fun e => hne e.symm
        rw [scan_cons, scan_cons a]
        simp only [get, hne', ↓reduceIte]
        split <;> simp [ih hm.tail] <;> omega

theorem length_scan_del (m : List KV) (hm : Sorted m) (k lo hi : Bytes) :
    (scan (del m k) lo hi).length + (if inR lo hi k && (get m k).isSome then 1 else 0) =
      (scan m lo hi).length := by
  induction m with
  | nil => simp [del, scan, get]
  | cons a t ih =>
    unfold del
    split
    · rename_i heq
      subst heq
      rw [scan_cons]
      simp [get]
      split <;> simp
    · rename_i hne
      rw [scan_cons, scan_cons a]
      simp only [get, hne, ↓reduceIte]
      split <;> simp [← ih hm.tail] <;> omega

theorem mem_scan {m : List KV} {lo hi : Bytes} {p : KV} :
    p ∈ scan m lo hi ↔ p ∈ m ∧ lo ≤ p.1 ∧ p.1 < hi := by
  simp [scan, List.mem_filter]

#print axioms length_scan_put
end Z.Ref
