/-
Scratch prototype: engine/iterator.go rangeLimitIterator, forward direction, over an abstract
cursor = "remaining keys" suffix of a strictly sorted key list.
-/
namespace Z.Iter
abbrev Bytes := List UInt8

structure Opts where
  min : Option Bytes
  max : Option Bytes
  lopen : Bool
  ropen : Bool
  offset : Nat          -- negative offset = invalid iterator, handled by caller
  count : Option Nat    -- none = unlimited (Count < 0)

def Sorted : List Bytes → Prop
  | [] => True
  | [_] => True
  | a :: b :: t => a < b ∧ Sorted (b :: t)

/-- engine cursor primitive: Seek k = drop all keys < k -/
def seek (ks : List Bytes) (k : Bytes) : List Bytes := ks.dropWhile (fun x => decide (x < k))

/-- wrapper's Valid() apart from the count limit: cursor valid and max bound respected -/
def maxOk (o : Opts) (k : Bytes) : Bool :=
  match o.max with
  | none => true
  | some m => if o.ropen then decide (k < m) else decide (k ≤ m)

def minOk (o : Opts) (k : Bytes) : Bool :=
  match o.min with
  | none => true
  | some m => if o.lopen then decide (m < k) else decide (m ≤ k)

def validW (o : Opts) : List Bytes → Bool
  | [] => false
  | k :: _ => maxOk o k

/-- positioning done by rangeLimitIterator (forward) before the offset loop -/
def start (o : Opts) (ks : List Bytes) : List Bytes :=
  match o.min with
  | none => ks
  | some m =>
    let r := seek ks m
    if o.lopen then
      match r with
      | k :: t => if k ≤ m then t else r
      | [] => r
    else r

/-- the offset loop: `for i < Offset { if !Valid() break; Next() }` (count = 0 makes Valid false) -/
def skip (o : Opts) : Nat → List Bytes → List Bytes
  | 0, r => r
  | n + 1, r => if o.count = some 0 then r else if validW o r then skip o n r.tail else r

/-- the consumer loop: `for ; it.Valid(); it.Next()` collecting keys; `left` = count - step -/
def collect (o : Opts) : Option Nat → List Bytes → List Bytes
  | _, [] => []
  | some 0, _ => []
  | left, k :: t => if maxOk o k then k :: collect o (left.map (· - 1)) t else []

def iterate (o : Opts) (ks : List Bytes) : List Bytes :=
  collect o o.count (skip o o.offset (start o ks))

/-- specification -/
def inRange (o : Opts) (k : Bytes) : Bool := minOk o k && maxOk o k

def takeOpt : Option Nat → List Bytes → List Bytes
  | none, l => l
  | some n, l => l.take n

def spec (o : Opts) (ks : List Bytes) : List Bytes :=
  takeOpt o.count ((ks.filter (inRange o)).drop o.offset)


/-! ### parts that need no sortedness -/

theorem collect_eq (o : Opts) : ∀ (c : Option Nat) (r : List Bytes),
    collect o c r = takeOpt c (r.takeWhile (maxOk o)) := by
  intro c r
  induction r generalizing c with
  | nil => cases c <;> simp [collect, takeOpt]
  | cons k t ih =>
    cases c with
    | none =>
      simp only [collect, Option.map_none, List.takeWhile_cons]
      split <;> simp [takeOpt, ih none]
    | some n =>
      cases n with
      | zero => simp [collect, takeOpt]
      | succ n =>
        simp only [collect, Option.map_some, Nat.add_sub_cancel, List.takeWhile_cons]
        split
        · simp [takeOpt, ih (some n)]
        · simp [takeOpt]

theorem skip_takeWhile (o : Opts) (hc : o.count ≠ some 0) : ∀ (n : Nat) (r : List Bytes),
    (skip o n r).takeWhile (maxOk o) = (r.takeWhile (maxOk o)).drop n := by
  intro n
  induction n with
  | zero => intro r; simp [skip]
  | succ n ih =>
    intro r
    simp only [skip, hc, ↓reduceIte]
    cases r with
    | nil => simp [validW]
    | cons k t =>
      simp only [validW, List.tail_cons, List.takeWhile_cons]
      by_cases hk : maxOk o k = true
      · simp only [hk, ↓reduceIte]; rw [ih t]; simp
      · simp [hk]

/-! ### the part that needs the keys to be sorted -/

theorem Sorted.tail {a : Bytes} {t : List Bytes} (h : Sorted (a :: t)) : Sorted t := by
  cases t with
  | nil => trivial
  | cons b t => exact h.2

theorem Sorted.head_lt {a : Bytes} {t : List Bytes} (h : Sorted (a :: t)) : ∀ x ∈ t, a < x := by
  induction t generalizing a with
  | nil => intro x hx; cases hx
  | cons b t ih =>
    intro x hx
    rcases List.mem_cons.mp hx with rfl | hx
    · exact h.1
    · exact List.lt_trans h.1 (ih h.2 x hx)

/-- on a sorted list, a predicate that is downward closed selects a prefix -/
theorem filter_eq_takeWhile {p : Bytes → Bool} (hp : ∀ a b, a < b → p b = true → p a = true) :
    ∀ (l : List Bytes), Sorted l → l.filter p = l.takeWhile p := by
  intro l
  induction l with
  | nil => intro _; rfl
  | cons a t ih =>
    intro hs
    simp only [List.filter_cons, List.takeWhile_cons]
    split
    · rw [ih hs.tail]
    · rename_i ha
      apply List.filter_eq_nil_iff.mpr
      intro x hx hpx
      exact ha (hp a x (hs.head_lt x hx) hpx)

/-- on a sorted list, a predicate that is upward closed is false exactly on a prefix -/
theorem filter_eq_dropWhile_not {p : Bytes → Bool} (hp : ∀ a b, a < b → p a = true → p b = true) :
    ∀ (l : List Bytes), Sorted l → l.filter p = l.dropWhile (fun x => !p x) := by
  intro l
  induction l with
  | nil => intro _; rfl
  | cons a t ih =>
    intro hs
    simp only [List.filter_cons, List.dropWhile_cons]
    by_cases ha : p a = true
    · simp only [ha, ↓reduceIte, Bool.not_true, Bool.false_eq_true]
      congr 1
      apply List.filter_eq_self.mpr
      intro x hx
      exact hp a x (hs.head_lt x hx) ha
    · simp only [ha, Bool.false_eq_true, ↓reduceIte, Bool.not_eq_true] at *
      simp [ha, ih hs.tail]

theorem maxOk_down (o : Opts) : ∀ a b, a < b → maxOk o b = true → maxOk o a = true := by
  intro a b hab
  unfold maxOk
  cases o.max with
  | none => simp
  | some m =>
    simp only
    split
    · simp only [decide_eq_true_eq]; exact fun h => List.lt_trans hab h
    · simp only [decide_eq_true_eq]
      intro h
      exact List.le_trans (List.le_of_lt hab) h

theorem minOk_up (o : Opts) : ∀ a b, a < b → minOk o a = true → minOk o b = true := by
  intro a b hab
  unfold minOk
  cases o.min with
  | none => simp
  | some m =>
    simp only
    split
    · simp only [decide_eq_true_eq]; exact fun h => List.lt_trans h hab
    · simp only [decide_eq_true_eq]
      intro h
      exact List.le_trans h (List.le_of_lt hab)


theorem sorted_dropWhile (p : Bytes → Bool) : ∀ (l : List Bytes), Sorted l → Sorted (l.dropWhile p) := by
  intro l
  induction l with
  | nil => intro _; trivial
  | cons a t ih =>
    intro hs
    simp only [List.dropWhile_cons]
    split
    · exact ih hs.tail
    · exact hs

/-- the positioning code computes "drop everything below the lower bound" -/
theorem start_eq (o : Opts) : ∀ (ks : List Bytes), Sorted ks →
    start o ks = ks.dropWhile (fun x => !minOk o x) := by
  intro ks hs
  unfold start minOk
  cases hmin : o.min with
  | none =>
    simp only [Bool.not_true]
    induction ks with
    | nil => rfl
    | cons a t _ => simp [List.dropWhile_cons]
  | some m =>
    simp only
    cases hlo : o.lopen with
    | false =>
      simp only [Bool.false_eq_true, ↓reduceIte, seek]
      congr 1
      funext x
      show decide (x < m) = !decide (m ≤ x)
      by_cases h : x < m
      · have : ¬ m ≤ x := fun h' => h' h
        simp [h, this]
      · have : m ≤ x := h
        simp [h, this]
    | true =>
      simp only [↓reduceIte, seek]
      induction ks with
      | nil => simp
      | cons a t ih =>
        simp only [List.dropWhile_cons]
        by_cases ham : a < m
        · have : ¬ m < a := List.lt_asymm ham
          simp only [ham, decide_true, ↓reduceIte, this, decide_false, Bool.not_false]
          exact ih hs.tail
        · simp only [ham, decide_false, Bool.false_eq_true, ↓reduceIte]
          by_cases hle : a ≤ m
          · -- a = m in effect: dropped; the next key is already above m
            have hnlt : ¬ m < a := hle
            simp only [hle, ↓reduceIte, hnlt, decide_false, Bool.not_false]
            cases t with
            | nil => simp
            | cons b t' =>
              have hab : a < b := hs.1
              have hmb : m < b := List.lt_of_le_of_lt (List.not_lt.mp ham) hab
              simp [hmb]
          · have hlt : m < a := by
              rcases List.le_total a m with h | h
              · exact absurd h hle
              · rcases List.le_iff_lt_or_eq.mp h with h' | h'
                · exact h'
                · exact absurd (h' ▸ List.le_refl m) hle
            simp [hle, hlt]

/-- **spec theorem (forward)**: on a sorted key list the wrapper returns exactly
    take count (drop offset (filter inRange keys)) for every option record -/
theorem iterate_eq_spec (o : Opts) (ks : List Bytes) (hs : Sorted ks) : iterate o ks = spec o ks := by
  unfold iterate spec
  have hfil : ks.filter (inRange o) = (start o ks).takeWhile (maxOk o) := by
    have h1 : ks.filter (inRange o) = (ks.filter (minOk o)).filter (maxOk o) := by
      rw [List.filter_filter]; congr 1; funext x; simp [inRange, Bool.and_comm]
    rw [h1, filter_eq_dropWhile_not (minOk_up o) ks hs, ← start_eq o ks hs]
    have hs' : Sorted (start o ks) := by rw [start_eq o ks hs]; exact sorted_dropWhile _ ks hs
    exact filter_eq_takeWhile (maxOk_down o) _ hs'
  rw [collect_eq]
  by_cases hc : o.count = some 0
  · rw [hc]; simp [takeOpt]
  · rw [skip_takeWhile o hc, hfil]

#print axioms iterate_eq_spec
end Z.Iter
