/-
Scratch prototype for C13/C20: engine/iterator.go rangeLimitIterator over an abstract cursor, now
PARAMETRIC in the strict total order, so that the reverse direction is the same theorem for the
flipped order (Seek <-> SeekForPrev, Min <-> Max, LOpen <-> ROpen mirror each other in the Go code).
-/
namespace Z.IterP

class SOrd (α : Type) extends LT α where
  decLt : DecidableRel (α := α) (· < ·)
  irrefl : ∀ a : α, ¬ a < a
  trans : ∀ a b c : α, a < b → b < c → a < c
  tri : ∀ a b : α, a < b ∨ a = b ∨ b < a

instance {α} [SOrd α] : LE α := ⟨fun a b => ¬ b < a⟩
instance {α} [SOrd α] : DecidableRel (α := α) (· < ·) := SOrd.decLt
instance {α} [SOrd α] : DecidableRel (α := α) (· ≤ ·) := fun a b => inferInstanceAs (Decidable (¬ b < a))

namespace SOrd
variable {α : Type} [SOrd α]
theorem lt_trans {a b c : α} (h1 : a < b) (h2 : b < c) : a < c := SOrd.trans a b c h1 h2
theorem lt_irrefl (a : α) : ¬ a < a := SOrd.irrefl a
theorem lt_asymm {a b : α} (h : a < b) : ¬ b < a := fun h' => SOrd.irrefl a (SOrd.trans a b a h h')
theorem le_of_lt {a b : α} (h : a < b) : a ≤ b := lt_asymm h
theorem le_refl (a : α) : a ≤ a := SOrd.irrefl a
theorem not_lt {a b : α} : ¬ a < b ↔ b ≤ a := Iff.rfl
theorem le_total (a b : α) : a ≤ b ∨ b ≤ a := by
  rcases SOrd.tri a b with h | h | h
  · exact Or.inl (le_of_lt h)
  · subst h; exact Or.inl (le_refl a)
  · exact Or.inr (le_of_lt h)
theorem le_iff_lt_or_eq {a b : α} : a ≤ b ↔ a < b ∨ a = b := by
  constructor
  · intro h
    rcases SOrd.tri a b with h' | h' | h'
    · exact Or.inl h'
    · exact Or.inr h'
    · exact absurd h' h
  · rintro (h | h)
    · exact le_of_lt h
    · subst h; exact le_refl a
theorem lt_of_le_of_lt {a b c : α} (h1 : a ≤ b) (h2 : b < c) : a < c := by
  rcases le_iff_lt_or_eq.mp h1 with h | h
  · exact lt_trans h h2
  · subst h; exact h2
theorem lt_of_lt_of_le {a b c : α} (h1 : a < b) (h2 : b ≤ c) : a < c := by
  rcases le_iff_lt_or_eq.mp h2 with h | h
  · exact lt_trans h1 h
  · subst h; exact h1
theorem le_trans {a b c : α} (h1 : a ≤ b) (h2 : b ≤ c) : a ≤ c := by
  intro h
  exact h2 (lt_of_lt_of_le h h1)
end SOrd

variable {α : Type} [SOrd α]
structure Opts (α : Type) where
  min : Option α
  max : Option α
  lopen : Bool
  ropen : Bool
  offset : Nat          -- negative offset = invalid iterator, handled by caller
  count : Option Nat    -- none = unlimited (Count < 0)

def Sorted : List α → Prop
  | [] => True
  | [_] => True
  | a :: b :: t => a < b ∧ Sorted (b :: t)

/-- engine cursor primitive: Seek k = drop all keys < k -/
def seek (ks : List α) (k : α) : List α := ks.dropWhile (fun x => decide (x < k))

/-- wrapper's Valid() apart from the count limit: cursor valid and max bound respected -/
def maxOk (o : Opts α) (k : α) : Bool :=
  match o.max with
  | none => true
  | some m => if o.ropen then decide (k < m) else decide (k ≤ m)

def minOk (o : Opts α) (k : α) : Bool :=
  match o.min with
  | none => true
  | some m => if o.lopen then decide (m < k) else decide (m ≤ k)

def validW (o : Opts α) : List α → Bool
  | [] => false
  | k :: _ => maxOk o k

/-- positioning done by rangeLimitIterator (forward) before the offset loop -/
def start (o : Opts α) (ks : List α) : List α :=
  match o.min with
  | none => ks
  | some m =>
    let r := seek ks m
    if o.lopen then
      match r with
      | k :: t => if k ≤ m then t else r
      | [] => r
    else r

/-- the offset loop: `for i < Offset { if !Valid() break; Next() }` (count = 0 makes Valid false) -/
def skip (o : Opts α) : Nat → List α → List α
  | 0, r => r
  | n + 1, r => if o.count = some 0 then r else if validW o r then skip o n r.tail else r

/-- the consumer loop: `for ; it.Valid(); it.Next()` collecting keys; `left` = count - step -/
def collect (o : Opts α) : Option Nat → List α → List α
  | _, [] => []
  | some 0, _ => []
  | left, k :: t => if maxOk o k then k :: collect o (left.map (· - 1)) t else []

def iterate (o : Opts α) (ks : List α) : List α :=
  collect o o.count (skip o o.offset (start o ks))

/-- specification -/
def inRange (o : Opts α) (k : α) : Bool := minOk o k && maxOk o k

def takeOpt : Option Nat → List α → List α
  | none, l => l
  | some n, l => l.take n

def spec (o : Opts α) (ks : List α) : List α :=
  takeOpt o.count ((ks.filter (inRange o)).drop o.offset)


/-! ### parts that need no sortedness -/

theorem collect_eq (o : Opts α) : ∀ (c : Option Nat) (r : List α),
    collect o c r = takeOpt c (r.takeWhile (maxOk o)) := by
  intro c r
  induction r generalizing c with
  | nil => cases c <;> simp [collect, takeOpt]
  | cons k t ih =>
    cases c with
    | none =>
      simp only [collect, Option.map_none, List.takeWhile_cons]
      split <;> simp [takeOpt, ih none]
    | some n =>
      cases n with
      | zero => simp [collect, takeOpt]
      | succ n =>
        simp only [collect, Option.map_some, Nat.add_sub_cancel, List.takeWhile_cons]
        split
        · simp [takeOpt, ih (some n)]
        · simp [takeOpt]

theorem skip_takeWhile (o : Opts α) (hc : o.count ≠ some 0) : ∀ (n : Nat) (r : List α),
    (skip o n r).takeWhile (maxOk o) = (r.takeWhile (maxOk o)).drop n := by
  intro n
  induction n with
  | zero => intro r; simp [skip]
  | succ n ih =>
    intro r
    simp only [skip, hc, ↓reduceIte]
    cases r with
    | nil => simp [validW]
    | cons k t =>
      simp only [validW, List.tail_cons, List.takeWhile_cons]
      by_cases hk : maxOk o k = true
      · simp only [hk, ↓reduceIte]; rw [ih t]; simp
      · simp [hk]

/-! ### the part that needs the keys to be sorted -/

theorem Sorted.tail {a : α} {t : List α} (h : Sorted (a :: t)) : Sorted t := by
  cases t with
  | nil => trivial
  | cons b t => exact h.2

theorem Sorted.head_lt {a : α} {t : List α} (h : Sorted (a :: t)) : ∀ x ∈ t, a < x := by
  induction t generalizing a with
  | nil => intro x hx; cases hx
  | cons b t ih =>
    intro x hx
    rcases List.mem_cons.mp hx with rfl | hx
    · exact h.1
    · exact SOrd.lt_trans h.1 (ih h.2 x hx)

/-- on a sorted list, a predicate that is downward closed selects a prefix -/
theorem filter_eq_takeWhile {p : α → Bool} (hp : ∀ a b, a < b → p b = true → p a = true) :
    ∀ (l : List α), Sorted l → l.filter p = l.takeWhile p := by
  intro l
  induction l with
  | nil => intro _; rfl
  | cons a t ih =>
    intro hs
    simp only [List.filter_cons, List.takeWhile_cons]
    split
    · rw [ih hs.tail]
    · rename_i ha
      apply List.filter_eq_nil_iff.mpr
      intro x hx hpx
      exact ha (hp a x (hs.head_lt x hx) hpx)

/-- on a sorted list, a predicate that is upward closed is false exactly on a prefix -/
theorem filter_eq_dropWhile_not {p : α → Bool} (hp : ∀ a b, a < b → p a = true → p b = true) :
    ∀ (l : List α), Sorted l → l.filter p = l.dropWhile (fun x => !p x) := by
  intro l
  induction l with
  | nil => intro _; rfl
  | cons a t ih =>
    intro hs
    simp only [List.filter_cons, List.dropWhile_cons]
    by_cases ha : p a = true
    · simp only [ha, ↓reduceIte, Bool.not_true, Bool.false_eq_true]
      congr 1
      apply List.filter_eq_self.mpr
      intro x hx
      exact hp a x (hs.head_lt x hx) ha
    · simp only [ha, Bool.false_eq_true, ↓reduceIte, Bool.not_eq_true] at *
      simp [ha, ih hs.tail]

theorem maxOk_down (o : Opts α) : ∀ a b, a < b → maxOk o b = true → maxOk o a = true := by
  intro a b hab
  unfold maxOk
  cases o.max with
  | none => simp
  | some m =>
    simp only
    split
    · simp only [decide_eq_true_eq]; exact fun h => SOrd.lt_trans hab h
    · simp only [decide_eq_true_eq]
      intro h
      exact SOrd.le_trans (SOrd.le_of_lt hab) h

theorem minOk_up (o : Opts α) : ∀ a b, a < b → minOk o a = true → minOk o b = true := by
  intro a b hab
  unfold minOk
  cases o.min with
  | none => simp
  | some m =>
    simp only
    split
    · simp only [decide_eq_true_eq]; exact fun h => SOrd.lt_trans h hab
    · simp only [decide_eq_true_eq]
      intro h
      exact SOrd.le_trans h (SOrd.le_of_lt hab)


theorem sorted_dropWhile (p : α → Bool) : ∀ (l : List α), Sorted l → Sorted (l.dropWhile p) := by
  intro l
  induction l with
  | nil => intro _; trivial
  | cons a t ih =>
    intro hs
    simp only [List.dropWhile_cons]
    split
    · exact ih hs.tail
    · exact hs

/-- the positioning code computes "drop everything below the lower bound" -/
theorem start_eq (o : Opts α) : ∀ (ks : List α), Sorted ks →
    start o ks = ks.dropWhile (fun x => !minOk o x) := by
  intro ks hs
  unfold start minOk
  cases hmin : o.min with
  | none =>
    simp only [Bool.not_true]
    induction ks with
    | nil => rfl
    | cons a t _ => simp [List.dropWhile_cons]
  | some m =>
    simp only
    cases hlo : o.lopen with
    | false =>
      simp only [Bool.false_eq_true, ↓reduceIte, seek]
      congr 1
      funext x
      show decide (x < m) = !decide (m ≤ x)
      by_cases h : x < m
      · have : ¬ m ≤ x := fun h' => h' h
        simp [h, this]
      · have : m ≤ x := h
        simp [h, this]
    | true =>
      simp only [↓reduceIte, seek]
      induction ks with
      | nil => simp
      | cons a t ih =>
        simp only [List.dropWhile_cons]
        by_cases ham : a < m
        · have : ¬ m < a := SOrd.lt_asymm ham
          simp only [ham, decide_true, ↓reduceIte, this, decide_false, Bool.not_false]
          exact ih hs.tail
        · simp only [ham, decide_false, Bool.false_eq_true, ↓reduceIte]
          by_cases hle : a ≤ m
          · -- a = m in effect: dropped; the next key is already above m
            have hnlt : ¬ m < a := hle
            simp only [hle, ↓reduceIte, hnlt, decide_false, Bool.not_false]
            cases t with
            | nil => simp
            | cons b t' =>
              have hab : a < b := hs.1
              have hmb : m < b := SOrd.lt_of_le_of_lt (SOrd.not_lt.mp ham) hab
              simp [hmb]
          · have hlt : m < a := by
              rcases SOrd.le_total a m with h | h
              · exact absurd h hle
              · rcases SOrd.le_iff_lt_or_eq.mp h with h' | h'
                · exact h'
                · exact absurd (h' ▸ SOrd.le_refl m) hle
            simp [hle, hlt]

/-- **spec theorem (forward)**: on a sorted key list the wrapper returns exactly
    take count (drop offset (filter inRange keys)) for every option record -/
theorem iterate_eq_spec (o : Opts α) (ks : List α) (hs : Sorted ks) : iterate o ks = spec o ks := by
  unfold iterate spec
  have hfil : ks.filter (inRange o) = (start o ks).takeWhile (maxOk o) := by
    have h1 : ks.filter (inRange o) = (ks.filter (minOk o)).filter (maxOk o) := by
      rw [List.filter_filter]; congr 1; funext x; simp [inRange, Bool.and_comm]
    rw [h1, filter_eq_dropWhile_not (minOk_up o) ks hs, ← start_eq o ks hs]
    have hs' : Sorted (start o ks) := by rw [start_eq o ks hs]; exact sorted_dropWhile _ ks hs
    exact filter_eq_takeWhile (maxOk_down o) _ hs'
  rw [collect_eq]
  by_cases hc : o.count = some 0
  · rw [hc]; simp [takeOpt]
  · rw [skip_takeWhile o hc, hfil]

#print axioms iterate_eq_spec

/-! ### the reverse direction is the forward theorem for the flipped order -/

def Flip (α : Type) := α

instance flipOrd : SOrd (Flip α) where
  lt a b := @LT.lt α _ b a
  decLt a b := SOrd.decLt (α := α) b a
  irrefl a := SOrd.irrefl (α := α) a
  trans a b c h1 h2 := SOrd.trans (α := α) c b a h2 h1
  tri a b := by
    rcases SOrd.tri (α := α) a b with h | h | h
    · exact Or.inr (Or.inr h)
    · exact Or.inr (Or.inl h)
    · exact Or.inl h

/-- the Go code's reverse branch is its forward branch with Min/Max, LOpen/ROpen, Seek/SeekForPrev,
    Next/Prev and the comparisons exchanged -/
def mirror (o : Opts α) : Opts (Flip α) :=
  { min := o.max, max := o.min, lopen := o.ropen, ropen := o.lopen, offset := o.offset, count := o.count }

/-- reverse iteration over the engine's descending view `ds` -/
def iterateRev (o : Opts α) (ds : List α) : List α := iterate (α := Flip α) (mirror o) ds

theorem inRange_mirror (o : Opts α) (k : α) : inRange (α := Flip α) (mirror o) k = inRange o k := by
  unfold inRange minOk maxOk mirror
  simp only
  rw [Bool.and_comm]
  cases o.min <;> cases o.max <;> rfl

/-- **spec theorem (reverse)**: on a descending key view the wrapper returns exactly
    take count (drop offset (filter inRange view)) -/
theorem iterateRev_eq_spec (o : Opts α) (ds : List α) (h : Sorted (α := Flip α) ds) :
    iterateRev o ds = takeOpt o.count ((ds.filter (inRange o)).drop o.offset) := by
  unfold iterateRev
  rw [iterate_eq_spec (α := Flip α) (mirror o) ds h]
  unfold spec
  have : (fun k => inRange (α := Flip α) (mirror o) k) = inRange o := funext (inRange_mirror o)
  show takeOpt o.count ((List.filter (fun k => inRange (α := Flip α) (mirror o) k) ds).drop o.offset) = _
  rw [this]
  rfl

/-- the one asymmetry of the Go code: if SeekForPrev(Max) finds nothing it falls back to SeekToFirst.
    On a view that the engine has already bounded by Max (no key above Max; `k < m` in the flipped
    order reads "k is above m") this changes nothing: the view is empty. -/
theorem fallback_noop (m : Flip α) (ds : List (Flip α)) (hb : ∀ k ∈ ds, ¬ k < m)
    (hseek : seek ds m = []) : ds = [] := by
  cases ds with
  | nil => rfl
  | cons k t =>
    exfalso
    have hk := hb k List.mem_cons_self
    unfold seek at hseek
    rw [List.dropWhile_cons] at hseek
    simp only [hk, decide_false, Bool.false_eq_true, ↓reduceIte] at hseek
    cases hseek

/-- bytes are an instance -/
instance : SOrd (List UInt8) where
  decLt := inferInstance
  irrefl := List.lt_irrefl
  trans _ _ _ := List.lt_trans
  tri a b := by
    rcases List.le_total a b with h | h
    · rcases List.le_iff_lt_or_eq.mp h with h | h
      · exact Or.inl h
      · exact Or.inr (Or.inl h)
    · rcases List.le_iff_lt_or_eq.mp h with h | h
      · exact Or.inr (Or.inr h)
      · exact Or.inr (Or.inl h.symm)

#print axioms iterateRev_eq_spec
end Z.IterP
