/- Lemmas for the C20 reference store: sortedness via `List.Pairwise`, counter encoding. -/
import ZanVerif.Engine.Store

namespace Z.Store
open Z.Ref

theorem iterSorted_iff_pairwise {α : Type} [Z.IterP.SOrd α] (l : List α) :
    Z.IterP.Sorted l ↔ l.Pairwise (· < ·) := by
  induction l with
  | nil => simp [Z.IterP.Sorted]
  | cons a t ih =>
    cases t with
    | nil => simp [Z.IterP.Sorted]
    | cons b t' =>
      simp only [Z.IterP.Sorted, ih, List.pairwise_cons]
      constructor
      · rintro ⟨hab, hb, ht⟩
        refine ⟨?_, hb, ht⟩
        intro x hx
        rcases List.mem_cons.mp hx with rfl | hx
        · exact hab
        · exact Z.IterP.SOrd.lt_trans hab (hb x hx)
      · rintro ⟨ha, hb, ht⟩
        exact ⟨ha b List.mem_cons_self, hb, ht⟩

theorem refSorted_iff_pairwise (m : List KV) : Z.Ref.Sorted m ↔ m.Pairwise (fun p q => p.1 < q.1) := by
  induction m with
  | nil => simp [Z.Ref.Sorted]
  | cons a t ih =>
    cases t with
    | nil => simp [Z.Ref.Sorted]
    | cons b t' =>
      simp only [Z.Ref.Sorted, ih, List.pairwise_cons]
      constructor
      · rintro ⟨hab, hb, ht⟩
        refine ⟨?_, hb, ht⟩
        intro x hx
        rcases List.mem_cons.mp hx with rfl | hx
        · exact hab
        · exact List.lt_trans hab (hb x hx)
      · rintro ⟨ha, hb, ht⟩
        exact ⟨ha b List.mem_cons_self, hb, ht⟩

theorem delRange_sorted {m : List KV} (hm : Z.Ref.Sorted m) (a b : Bytes) : Z.Ref.Sorted (delRange m a b) := by
  rw [refSorted_iff_pairwise] at *
  exact hm.filter _

theorem applyOp_sorted {m : List KV} (hm : Z.Ref.Sorted m) (o : Op) : Z.Ref.Sorted (applyOp m o) := by
  cases o with
  | put k v => exact put_sorted hm k v
  | del k => exact del_sorted hm k
  | delRange a b => exact delRange_sorted hm a b
  | merge k n => exact put_sorted hm k _

theorem commit_sorted {m : List KV} (hm : Z.Ref.Sorted m) (batch : List Op) : Z.Ref.Sorted (commit m batch) := by
  unfold commit
  induction batch generalizing m with
  | nil => exact hm
  | cons o t ih => exact ih (applyOp_sorted hm o)

theorem keys_sorted {m : List KV} (hm : Z.Ref.Sorted m) : Z.IterP.Sorted (m.map (·.1)) := by
  rw [iterSorted_iff_pairwise]
  rw [refSorted_iff_pairwise] at hm
  exact List.pairwise_map.mpr hm

theorem view_sorted {m : List KV} (hm : Z.Ref.Sorted m) (p : Bytes → Bool) :
    Z.IterP.Sorted ((m.map (·.1)).filter p) := by
  have := keys_sorted hm
  rw [iterSorted_iff_pairwise] at *
  exact this.filter _

theorem view_rev_sorted {m : List KV} (hm : Z.Ref.Sorted m) (p : Bytes → Bool) :
    Z.IterP.Sorted (α := Z.IterP.Flip Bytes) ((m.map (·.1)).filter p).reverse := by
  have := view_sorted hm p
  rw [iterSorted_iff_pairwise] at this
  refine (iterSorted_iff_pairwise (α := Z.IterP.Flip Bytes) _).mpr ?_
  exact List.pairwise_reverse.mpr this

/-- little-endian counter encoding round-trips below 2^64 -/
theorem ofLE64_le64 (n : Nat) (h : n < 18446744073709551616) : ofLE64 (le64 n) = n := by
  unfold ofLE64 le64
  simp only [List.range, List.range.loop, List.map, List.take, List.foldr, UInt8.toNat_ofNat']
  omega

theorem le64_length (n : Nat) : (le64 n).length = 8 := by simp [le64]

end Z.Store
