/-
engine/iterator.go after fix 855ff6c, over a cursor the ENGINE DOES NOT BOUND (the in-memory engine stores the
bounds of an iterator without applying them): the start position with the fallback "the seek found nothing ⇒ go to
the first key of the engine", and `Valid` checking the bound of the start side too.  Stated for the forward reading of
the parametric model (`IterP`); the Go code has the fallback in its reverse branch, which is this model for the
flipped order (`IterP.mirror`): `seek` = SeekForPrev(Max), "first key of the engine" = the LAST element of the
descending view, `minOkW` = "key ≤ Max".
-/
import ZanVerif.Engine.IterP

namespace Z.IterP
variable {α : Type} [SOrd α]

/-- the added check of `RangeLimitedIterator.Valid`: `bytes.Compare(key, Max) > 0 ⇒ false` (non-strict, whatever the
    open flag says: the open side is handled by the start position) -/
def minOkW (o : Opts α) (k : α) : Bool :=
  match o.min with
  | none => true
  | some m => decide (m ≤ k)

def validF (o : Opts α) : List α → Bool
  | [] => false
  | k :: _ => maxOk o k && minOkW o k

/-- start position with the fallback: when the seek finds nothing the cursor is put on the first key of the ENGINE
    (`SeekToFirst` of the underlying order = the last element of this view), bounded or not -/
def startF (o : Opts α) (ks : List α) : List α :=
  match o.min with
  | none => ks
  | some m =>
    let r := seek ks m
    let r := if r.isEmpty then (match ks.getLast? with | some k => [k] | none => []) else r
    if o.lopen then
      match r with
      | k :: t => if k ≤ m then t else r
      | [] => r
    else r

def skipF (o : Opts α) : Nat → List α → List α
  | 0, r => r
  | n + 1, r => if o.count = some 0 then r else if validF o r then skipF o n r.tail else r

def collectF (o : Opts α) : Option Nat → List α → List α
  | _, [] => []
  | some 0, _ => []
  | left, k :: t => if maxOk o k && minOkW o k then k :: collectF o (left.map (· - 1)) t else []

def iterateF (o : Opts α) (ks : List α) : List α :=
  collectF o o.count (skipF o o.offset (startF o ks))

/-- the wrapper BEFORE the fix over the same unbounded cursor: fallback, but `Valid` without the added check -/
def iterateOld (o : Opts α) (ks : List α) : List α :=
  collect o o.count (skip o o.offset (startF o ks))

/-! ### where the added check is true the two wrappers coincide -/

theorem skipF_eq (o : Opts α) : ∀ (n : Nat) (r : List α), (∀ k ∈ r, minOkW o k = true) → skipF o n r = skip o n r := by
  intro n
  induction n with
  | zero => intro r _; rfl
  | succ n ih =>
    intro r h
    cases r with
    | nil => simp [skipF, skip, validF, validW]
    | cons k t =>
      have hk : minOkW o k = true := h k List.mem_cons_self
      have ht : ∀ x ∈ t, minOkW o x = true := fun x hx => h x (List.mem_cons_of_mem _ hx)
      by_cases hc : o.count = some 0 <;> by_cases hm : maxOk o k = true <;>
        simp [skipF, skip, validF, validW, hk, hc, hm, ih t ht]

theorem skip_sub (o : Opts α) : ∀ (n : Nat) (r : List α), ∀ k ∈ skip o n r, k ∈ r := by
  intro n
  induction n with
  | zero => intro r k hk; exact hk
  | succ n ih =>
    intro r k hk
    simp only [skip] at hk
    split at hk
    · exact hk
    · split at hk
      · exact List.mem_of_mem_tail (ih _ k hk)
      · exact hk

theorem collectF_eq (o : Opts α) : ∀ (r : List α) (c : Option Nat), (∀ k ∈ r, minOkW o k = true) →
    collectF o c r = collect o c r := by
  intro r
  induction r with
  | nil => intro c _; cases c <;> simp [collectF, collect]
  | cons k t ih =>
    intro c h
    have hk : minOkW o k = true := h k List.mem_cons_self
    have ht : ∀ x ∈ t, minOkW o x = true := fun x hx => h x (List.mem_cons_of_mem _ hx)
    cases c with
    | none => simp only [collectF, collect, hk, Bool.and_true, Option.map_none]; rw [ih none ht]
    | some n =>
      cases n with
      | zero => simp [collectF, collect]
      | succ n => simp only [collectF, collect, hk, Bool.and_true, Option.map_some]; rw [ih _ ht]

/-! ### what the seek leaves -/

theorem seek_nil_all_lt (m : α) : ∀ (ks : List α), seek ks m = [] → ∀ k ∈ ks, k < m := by
  intro ks
  induction ks with
  | nil => intro _ k hk; cases hk
  | cons a t ih =>
    intro h k hk
    unfold seek at h
    rw [List.dropWhile_cons] at h
    by_cases ha : a < m
    · simp only [ha, decide_true, ↓reduceIte] at h
      rcases List.mem_cons.mp hk with rfl | hk
      · exact ha
      · exact ih h k hk
    · simp [ha] at h

theorem seek_all_ge (m : α) : ∀ (ks : List α), Sorted ks → ∀ k ∈ seek ks m, m ≤ k := by
  intro ks
  induction ks with
  | nil => intro _ k hk; simp [seek] at hk
  | cons a t ih =>
    intro hs k hk
    unfold seek at hk
    rw [List.dropWhile_cons] at hk
    by_cases ha : a < m
    · simp only [ha, decide_true, ↓reduceIte] at hk
      exact ih hs.tail k hk
    · simp only [ha, decide_false, Bool.false_eq_true, ↓reduceIte] at hk
      rcases List.mem_cons.mp hk with rfl | hk
      · exact ha
      · exact SOrd.le_of_lt (SOrd.lt_of_le_of_lt (SOrd.not_lt.mp ha) (hs.head_lt k hk))

omit [SOrd α] in
theorem getLast?_mem : ∀ (ks : List α) (k : α), ks.getLast? = some k → k ∈ ks := by
  intro ks k h
  exact List.mem_of_getLast? h

/-- the elements the start position leaves are elements of the seek result -/
theorem start_sub_seek (o : Opts α) (m : α) (hm : o.min = some m) (ks : List α) : ∀ k ∈ start o ks, k ∈ seek ks m := by
  intro k hk
  unfold start at hk
  rw [hm] at hk
  simp only at hk
  cases hlo : o.lopen with
  | false => simpa [hlo] using hk
  | true =>
    simp only [hlo, ↓reduceIte] at hk
    cases hr : seek ks m with
    | nil => rw [hr] at hk; simp at hk
    | cons a t =>
      rw [hr] at hk
      simp only at hk
      by_cases ham : a ≤ m
      · simp only [ham, ↓reduceIte] at hk; exact List.mem_cons_of_mem _ hk
      · simp only [ham, ↓reduceIte] at hk; exact hk

/-- **the repaired wrapper over an engine that does not bound its cursor = the wrapper over a bounded one**, hence the
    specification: for every sorted view and every option record -/
theorem iterateF_eq_iterate (o : Opts α) (ks : List α) (hs : Sorted ks) : iterateF o ks = iterate o ks := by
  unfold iterateF iterate
  cases hmin : o.min with
  | none =>
    have hall : ∀ (r : List α), ∀ k ∈ r, minOkW o k = true := by intro r k _; simp [minOkW, hmin]
    have hst : startF o ks = start o ks := by simp [startF, start, hmin]
    rw [hst, skipF_eq o _ _ (hall _), collectF_eq o _ _ (hall _)]
  | some m =>
    by_cases hsk : seek ks m = []
    · -- the fallback: every key is below the bound, so is the one the cursor is put on
      have hlt := seek_nil_all_lt m ks hsk
      have hstart : start o ks = [] := by
        unfold start; rw [hmin]; simp only [hsk]; split <;> rfl
      rw [hstart]
      have hr : collect o o.count (skip o o.offset ([] : List α)) = [] := by
        have : skip o o.offset ([] : List α) = [] := by
          cases o.offset with
          | zero => rfl
          | succ n => simp [skip, validW]
        rw [this]; cases o.count <;> simp [collect]
      rw [hr]
      cases hl : ks.getLast? with
      | none =>
        have : startF o ks = [] := by
          unfold startF; rw [hmin]; simp only [hsk, List.isEmpty_nil, ↓reduceIte, hl]; split <;> rfl
        rw [this]
        have : skipF o o.offset ([] : List α) = [] := by
          cases o.offset with
          | zero => rfl
          | succ n => simp [skipF, validF]
        rw [this]; cases o.count <;> simp [collectF]
      | some k =>
        have hk : k < m := hlt k (getLast?_mem ks k hl)
        have hnle : ¬ m ≤ k := fun h => h hk
        cases hlo : o.lopen with
        | true =>
          have hkm : k ≤ m := SOrd.le_of_lt hk
          have : startF o ks = [] := by
            unfold startF; rw [hmin]; simp only [hsk, List.isEmpty_nil, ↓reduceIte, hl, hlo, hkm]
          rw [this]
          have : skipF o o.offset ([] : List α) = [] := by
            cases o.offset with
            | zero => rfl
            | succ n => simp [skipF, validF]
          rw [this]; cases o.count <;> simp [collectF]
        | false =>
          have hst : startF o ks = [k] := by
            unfold startF; rw [hmin]; simp [hsk, hl, hlo]
          rw [hst]
          have hv : minOkW o k = false := by simp [minOkW, hmin, hnle]
          have : skipF o o.offset [k] = [k] := by
            cases o.offset with
            | zero => rfl
            | succ n => simp [skipF, validF, hv]
          rw [this]
          cases hc : o.count with
          | none => simp [collectF, hv]
          | some n => cases n <;> simp [collectF, hv]
    · -- the seek found a key: no fallback, and every key from there on satisfies the added check
      have hst : startF o ks = start o ks := by
        unfold startF start; rw [hmin]
        have : (seek ks m).isEmpty = false := by
          cases h : seek ks m with
          | nil => exact absurd h hsk
          | cons _ _ => rfl
        simp only [this, Bool.false_eq_true, ↓reduceIte]
        rfl
      rw [hst]
      have hge : ∀ k ∈ start o ks, minOkW o k = true := by
        intro k hk
        have := seek_all_ge m ks hs k (start_sub_seek o m hmin ks k hk)
        simp [minOkW, hmin, this]
      have hge' : ∀ k ∈ skip o o.offset (start o ks), minOkW o k = true :=
        fun k hk => hge k (skip_sub o _ _ k hk)
      rw [skipF_eq o _ _ hge, collectF_eq o _ _ hge']

theorem iterateF_eq_spec (o : Opts α) (ks : List α) (hs : Sorted ks) : iterateF o ks = spec o ks := by
  rw [iterateF_eq_iterate o ks hs, iterate_eq_spec o ks hs]

/-- reverse iteration of the repaired wrapper over the UNBOUNDED descending view of an engine -/
def iterateRevF (o : Opts α) (ds : List α) : List α := iterateF (α := Flip α) (mirror o) ds

/-- the wrapper before the fix, reverse, over the unbounded descending view -/
def iterateRevOld (o : Opts α) (ds : List α) : List α := iterateOld (α := Flip α) (mirror o) ds

theorem iterateRevF_eq_spec (o : Opts α) (ds : List α) (h : Sorted (α := Flip α) ds) :
    iterateRevF o ds = takeOpt o.count ((ds.filter (inRange o)).drop o.offset) := by
  unfold iterateRevF
  rw [iterateF_eq_iterate (α := Flip α) (mirror o) ds h]
  exact iterateRev_eq_spec o ds h

end Z.IterP
