/-
Scratch prototype for C16: the stateful msgappv2 stream codec at frame level (byte framing is the
WalTrunc pattern).  Encoder and decoder each keep (term, index, ToGroup, FromGroup); a MsgApp that
continues the previous one is sent as bare entries + commit and rebuilt from the decoder's state.
-/
namespace Z.AppV2

structure Grp where
  nodeId : Nat
  groupId : Nat
  replicaId : Nat
  deriving DecidableEq

structure Ent where
  term : Nat
  index : Nat
  data : Nat
  deriving DecidableEq

/-- `other` stands for every field a MsgApp does not carry (Reject, RejectHint, Snapshot, Context) -/
structure Msg where
  isHb : Bool
  typ : Nat
  src : Nat
  dst : Nat
  term : Nat
  logTerm : Nat
  index : Nat
  commit : Nat
  toG : Grp
  fromG : Grp
  ents : List Ent
  other : Nat
  deriving DecidableEq

def msgApp : Nat := 3
def zeroG : Grp := ⟨0, 0, 0⟩
def hbMsg : Msg := ⟨true, 8, 0, 0, 0, 0, 0, 0, zeroG, zeroG, [], 0⟩

inductive Frame
  | hb
  | ents (es : List Ent) (commit : Nat)
  | full (m : Msg)

structure CState where
  term : Nat
  index : Nat
  toG : Grp
  fromG : Grp
  deriving DecidableEq

def isContinue (st : CState) (m : Msg) : Bool :=
  st.index == m.index && st.term == m.logTerm && m.logTerm == m.term &&
    decide (st.toG = m.toG) && decide (st.fromG = m.fromG)

def afterFull (m : Msg) : CState :=
  { term := m.term, index := (match m.ents.getLast? with | some e => e.index | none => m.index),
    toG := m.toG, fromG := m.fromG }

def enc (st : CState) (m : Msg) : CState × Frame :=
  if m.isHb then (st, .hb)
  else if isContinue st m then ({ st with index := st.index + m.ents.length }, .ents m.ents m.commit)
  else (afterFull m, .full m)

def dec (loc rem : Nat) (st : CState) : Frame → CState × Option Msg
  | .hb => (st, some hbMsg)
  | .ents es c =>
    if rem ≠ st.fromG.nodeId ∨ loc ≠ st.toG.nodeId then (st, none)
    else ({ st with index := st.index + es.length },
      some { isHb := false, typ := msgApp, src := st.fromG.replicaId, dst := st.toG.replicaId,
             term := st.term, logTerm := st.term, index := st.index, commit := c,
             toG := st.toG, fromG := st.fromG, ents := es, other := 0 })
  | .full m => (afterFull m, some m)

/-- what the stream picker and `sendAppend` guarantee for messages on this stream -/
def Wf (loc rem : Nat) (m : Msg) : Prop :=
  (m.isHb = true → m = hbMsg) ∧
  (m.isHb = false → m.typ = msgApp ∧ m.src = m.fromG.replicaId ∧ m.dst = m.toG.replicaId ∧
     m.other = 0 ∧ m.fromG.nodeId = rem ∧ m.toG.nodeId = loc)

def encAll (st : CState) : List Msg → List Frame
  | [] => []
  | m :: ms => (enc st m).2 :: encAll (enc st m).1 ms

def decAll (loc rem : Nat) (st : CState) : List Frame → List (Option Msg)
  | [] => []
  | f :: fs => (dec loc rem st f).2 :: decAll loc rem (dec loc rem st f).1 fs

theorem dec_enc (loc rem : Nat) (st : CState) (m : Msg) (h : Wf loc rem m) :
    dec loc rem st (enc st m).2 = ((enc st m).1, some m) := by
  unfold enc
  by_cases hb : m.isHb = true
  · simp only [hb, ↓reduceIte, dec]; rw [h.1 hb]
  · have hb' : m.isHb = false := by simpa using hb
    obtain ⟨h1, h2, h3, h4, h5, h6⟩ := h.2 hb'
    simp only [hb', Bool.false_eq_true, ↓reduceIte]
    by_cases hc : isContinue st m = true
    · simp only [hc, ↓reduceIte, dec]
      simp only [isContinue, Bool.and_eq_true, beq_iff_eq, decide_eq_true_eq] at hc
      obtain ⟨⟨⟨⟨c1, c2⟩, c3⟩, c4⟩, c5⟩ := hc
      have g1 : ¬ (rem ≠ st.fromG.nodeId ∨ loc ≠ st.toG.nodeId) := by
        rw [c4, c5, h5, h6]; simp
      simp only [g1, ↓reduceIte]
      congr 2
      cases m
      simp_all
    · simp only [hc, Bool.false_eq_true, ↓reduceIte, dec]

/-- **round trip with state tracking**: for every well-formed message sequence the decoder returns
    exactly what was sent (both codec states evolve identically, so one state variable suffices) -/
theorem roundtrip (loc rem : Nat) : ∀ (ms : List Msg) (st : CState), (∀ m ∈ ms, Wf loc rem m) →
    decAll loc rem st (encAll st ms) = ms.map some := by
  intro ms
  induction ms with
  | nil => intro _ _; rfl
  | cons m ms ih =>
    intro st h
    simp only [encAll, decAll, List.map_cons]
    rw [dec_enc loc rem st m (h m List.mem_cons_self)]
    simp only
    rw [ih _ (fun m' hm' => h m' (List.mem_cons_of_mem _ hm'))]

#print axioms roundtrip

-- the hypothesis matters: a continuing message whose From differs from the group's replica id is
-- rebuilt with the wrong sender
def g1 : Grp := ⟨7, 1, 70⟩
def g2 : Grp := ⟨9, 1, 90⟩
def bad : Msg := ⟨false, msgApp, 71, 90, 2, 2, 5, 4, g2, g1, [], 0⟩
example : (dec 9 7 ⟨2, 5, g2, g1⟩ (enc ⟨2, 5, g2, g1⟩ bad).2).2 ≠ some bad := by decide

end Z.AppV2
