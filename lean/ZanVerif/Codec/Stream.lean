/-
  C16 byte-level framing of the two raft stream codecs (transport/rafthttp/msgappv2_codec.go,
  msg_codec.go), over opaque protobuf payloads (core only; executable — the driver uses exactly these).
  Frame types and buffer limits come from the regenerated `Gen.Stream`.
-/
import ZanVerif.Gen.Stream
import ZanVerif.Data.Codec

namespace Z.Stream
abbrev Bytes := List UInt8
open Z.Codec (be64 fromBE)

/-- a msgappv2 frame with its protobuf payloads already marshalled -/
inductive FrameB
  | hb
  | ents (payloads : List Bytes) (commit : Nat)
  | full (payload : Bytes)
  deriving Repr, DecidableEq

def encEnts : List Bytes → Bytes
  | [] => []
  | p :: ps => be64 p.length ++ p ++ encEnts ps

def encodeB : FrameB → Bytes
  | .hb => [Gen.msgTypeLinkHeartbeat]
  | .ents ps c => Gen.msgTypeAppEntries :: (be64 ps.length ++ encEnts ps ++ be64 c)
  | .full p => Gen.msgTypeApp :: (be64 p.length ++ p)

/-- outcome of one `decode()` call on the remaining bytes of the stream -/
inductive Res (α : Type)
  | ok (a : α) (rest : Bytes)
  | eof                      -- io.EOF: the stream ended exactly at a frame boundary
  | unexpectedEOF            -- io.ErrUnexpectedEOF / short read inside a frame
  | badType (t : UInt8)
  | tooLarge                 -- rejected by a size limit
  deriving Repr, DecidableEq

/-- `io.ReadFull(r, buf[:n])`: `none` when fewer than n bytes are left -/
def readN (n : Nat) (b : Bytes) : Option (Bytes × Bytes) :=
  if b.length < n then none else some (b.take n, b.drop n)

def readU64 (b : Bytes) : Option (Nat × Bytes) :=
  (readN 8 b).map (fun p => (fromBE p.1, p.2))

/-- the error of a short read: `io.ReadFull` / `binary.Read` answer io.EOF when NOTHING could be read
    (also in the middle of a frame) and io.ErrUnexpectedEOF when only part of the field was there -/
def short {α : Type} (b : Bytes) : Res α := if b.isEmpty then .eof else .unexpectedEOF

/-- entries of an AppEntries frame; on a short read the bytes that were left at the failing read -/
def decEnts : Nat → Bytes → Sum Bytes (List Bytes × Bytes)
  | 0, b => .inr ([], b)
  | k + 1, b =>
    match readU64 b with
    | none => .inl b
    | some (sz, r) =>
      match readN sz r with
      | none => .inl r
      | some (p, r2) =>
        match decEnts k r2 with
        | .inl e => .inl e
        | .inr (ps, r3) => .inr (p :: ps, r3)

/-- `msgAppV2Decoder.decode` at the framing level -/
def decodeB (b : Bytes) : Res FrameB :=
  match b with
  | [] => .eof
  | t :: r =>
    if t = Gen.msgTypeLinkHeartbeat then .ok .hb r
    else if t = Gen.msgTypeAppEntries then
      match readU64 r with
      | none => short r
      | some (l, r1) =>
        match decEnts l r1 with
        | .inl e => short e
        | .inr (ps, r2) =>
          match readU64 r2 with
          | none => short r2
          | some (c, r3) => .ok (.ents ps c) r3
    else if t = Gen.msgTypeApp then
      match readU64 r with
      | none => short r
      | some (sz, r1) =>
        match readN sz r1 with
        | none => short r1
        | some (p, r2) => .ok (.full p) r2
    else .badType t

/-- the generic message stream (`messageEncoder` / `messageDecoder`): 8-byte length + payload, 512 MB limit -/
def encodeM (p : Bytes) : Bytes := be64 p.length ++ p

def decodeM (b : Bytes) : Res Bytes :=
  match readU64 b with
  | none => short b
  | some (l, r) =>
    if l > Gen.readBytesLimit then .tooLarge else
    match readN l r with
    | none => short r
    | some (p, r2) => .ok p r2

end Z.Stream

namespace Z.Stream

/-- a reader loop: decode frames until the stream ends or an error occurs -/
def decodeAllB : Nat → Bytes → List FrameB × Res Unit
  | 0, _ => ([], .unexpectedEOF)
  | fuel + 1, b =>
    match decodeB b with
    | .ok f rest => let r := decodeAllB fuel rest; (f :: r.1, r.2)
    | .eof => ([], .eof)
    | .unexpectedEOF => ([], .unexpectedEOF)
    | .badType t => ([], .badType t)
    | .tooLarge => ([], .tooLarge)

def encodeAllB (fs : List FrameB) : Bytes := (fs.map encodeB).flatten

end Z.Stream
