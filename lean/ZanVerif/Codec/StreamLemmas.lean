/- Byte-level lemmas for the stream framing: round trip and truncation. -/
import ZanVerif.Codec.Stream
import ZanVerif.Data.CodecLemmas

namespace Z.Stream
open Z.Codec

theorem foldl_be (b : Bytes) : ∀ (s : Nat),
    b.foldl (fun acc (x : UInt8) => acc * 256 + x.toNat) s = s * 256 ^ b.length + b.foldl (fun acc (x : UInt8) => acc * 256 + x.toNat) 0 := by
  induction b with
  | nil => intro s; simp
  | cons x xs ih =>
    intro s
    simp only [List.foldl_cons, List.length_cons]
    rw [ih (s * 256 + x.toNat), ih (0 * 256 + x.toNat), Nat.pow_succ]
    have : ∀ (p q r : Nat), (p * 256 + q) * r = p * (r * 256) + q * r := by
      intro p q r; rw [Nat.add_mul, Nat.mul_assoc, Nat.mul_comm 256 r]
    rw [this, Nat.zero_mul, Nat.zero_add, Nat.add_assoc]

theorem fromBE_append (a b : Bytes) : fromBE (a ++ b) = fromBE a * 256 ^ b.length + fromBE b := by
  unfold fromBE
  rw [List.foldl_append, foldl_be]

theorem fromBE_beN : ∀ (k n : Nat), n < 256 ^ k → fromBE (beN k n) = n
  | 0, n, h => by simp at h; subst h; rfl
  | k + 1, n, h => by
    have hn' : n / 256 < 256 ^ k := by
      rw [Nat.pow_succ] at h; exact Nat.div_lt_of_lt_mul (by rw [Nat.mul_comm]; exact h)
    simp only [beN]
    rw [fromBE_append, fromBE_beN k _ hn']
    simp [fromBE, UInt8.toNat_ofNat']
    omega

theorem readN_append (a r : Bytes) : readN a.length (a ++ r) = some (a, r) := by
  unfold readN; simp

theorem readU64_be64 (n : Nat) (h : n < 18446744073709551616) (r : Bytes) : readU64 (be64 n ++ r) = some (n, r) := by
  unfold readU64
  have := readN_append (be64 n) r
  rw [be64_length] at this
  rw [this]
  simp only [Option.map_some]
  rw [show be64 n = beN 8 n from rfl, fromBE_beN 8 n (by simpa using h)]

def Small (p : Bytes) : Prop := p.length < 18446744073709551616

theorem decEnts_encEnts : ∀ (ps : List Bytes) (r : Bytes), (∀ p ∈ ps, Small p) →
    decEnts ps.length (encEnts ps ++ r) = .inr (ps, r)
  | [], r, _ => rfl
  | p :: ps, r, h => by
    simp only [List.length_cons, decEnts, encEnts, List.append_assoc]
    rw [readU64_be64 _ (h p List.mem_cons_self)]
    simp only
    rw [readN_append]
    simp only
    rw [decEnts_encEnts ps r (fun q hq => h q (List.mem_cons_of_mem _ hq))]

/-- frames whose sizes fit the 8-byte length words (always true of real buffers) -/
def FrameOk : FrameB → Prop
  | .hb => True
  | .ents ps c => ps.length < 18446744073709551616 ∧ (∀ p ∈ ps, Small p) ∧ c < 18446744073709551616
  | .full p => Small p

theorem types_distinct : Gen.msgTypeLinkHeartbeat ≠ Gen.msgTypeAppEntries ∧ Gen.msgTypeLinkHeartbeat ≠ Gen.msgTypeApp ∧
    Gen.msgTypeAppEntries ≠ Gen.msgTypeApp := by decide

/-- **byte-level round trip**: a frame followed by anything decodes to that frame and leaves the rest -/
theorem decodeB_encodeB (f : FrameB) (hf : FrameOk f) (rest : Bytes) :
    decodeB (encodeB f ++ rest) = .ok f rest := by
  obtain ⟨d1, d2, d3⟩ := types_distinct
  cases f with
  | hb => simp [encodeB, decodeB]
  | ents ps c =>
    obtain ⟨h1, h2, h3⟩ := hf
    simp only [encodeB, List.cons_append, decodeB, d1.symm, if_false, if_true, List.append_assoc]
    rw [readU64_be64 _ h1]
    simp only
    rw [decEnts_encEnts ps _ h2]
    simp only
    rw [readU64_be64 _ h3]
  | full p =>
    simp only [encodeB, List.cons_append, decodeB, d2.symm, d3.symm, if_false, if_true, List.append_assoc]
    rw [readU64_be64 _ hf]
    simp only
    rw [readN_append]

theorem decodeM_encodeM (p : Bytes) (hp : p.length ≤ Gen.readBytesLimit) (rest : Bytes) :
    decodeM (encodeM p ++ rest) = .ok p rest := by
  have hs : p.length < 18446744073709551616 := by
    have : Gen.readBytesLimit < 18446744073709551616 := by decide
    omega
  unfold decodeM encodeM
  simp only [List.append_assoc]
  rw [readU64_be64 _ hs]
  simp only
  rw [if_neg (by omega), readN_append]

/-! ### truncation -/

theorem readN_take_none {n k : Nat} (b : Bytes) (h : k < n) : readN n (b.take k) = none := by
  unfold readN
  have : (b.take k).length ≤ k := by simp [List.length_take]; omega
  rw [if_pos (by omega)]

/-- reading a length-prefixed field from a strict prefix of `be64 |p| ++ p ++ tail` that ends inside the
    field fails -/
theorem readU64_take (n : Nat) (hn : n < 18446744073709551616) (r : Bytes) (k : Nat) :
    readU64 ((be64 n ++ r).take k) = if k < 8 then none else some (n, r.take (k - 8)) := by
  by_cases hk : k < 8
  · rw [if_pos hk]
    unfold readU64
    rw [readN_take_none _ hk]; rfl
  · rw [if_neg hk]
    have : (be64 n ++ r).take k = be64 n ++ r.take (k - 8) := by
      rw [List.take_append, be64_length]
      have : (be64 n).take k = be64 n := List.take_of_length_le (by rw [be64_length]; omega)
      rw [this]
    rw [this, readU64_be64 n hn]

theorem readN_take (a r : Bytes) (k : Nat) :
    readN a.length ((a ++ r).take k) = if k < a.length then none else some (a, r.take (k - a.length)) := by
  by_cases hk : k < a.length
  · rw [if_pos hk, readN_take_none _ hk]
  · rw [if_neg hk]
    have : (a ++ r).take k = a ++ r.take (k - a.length) := by
      rw [List.take_append]
      have : a.take k = a := List.take_of_length_le (by omega)
      rw [this]
    rw [this, readN_append]

theorem encEnts_length_le (ps : List Bytes) : 8 * ps.length ≤ (encEnts ps).length := by
  induction ps with
  | nil => simp [encEnts]
  | cons p ps ih => simp [encEnts, be64_length]; omega

/-- a result that is a short-read error (io.EOF or io.ErrUnexpectedEOF), i.e. not a frame -/
def IsCut {α : Type} (r : Res α) : Prop := r = .eof ∨ r = .unexpectedEOF

theorem short_isCut {α : Type} (b : Bytes) : IsCut (short (α := α) b) := by
  unfold short IsCut; split <;> simp

/-- entries cut short: decoding `|ps|` entries from a prefix that does not contain all of them fails;
    otherwise it returns them and the (cut) remainder -/
theorem decEnts_take : ∀ (ps : List Bytes) (tail : Bytes) (k : Nat), (∀ p ∈ ps, Small p) →
    if k < (encEnts ps).length then ∃ e, decEnts ps.length ((encEnts ps ++ tail).take k) = .inl e
    else decEnts ps.length ((encEnts ps ++ tail).take k) = .inr (ps, tail.take (k - (encEnts ps).length))
  | [], tail, k, _ => by simp [decEnts, encEnts]
  | p :: ps, tail, k, h => by
    have hp := h p List.mem_cons_self
    have ih := decEnts_take ps tail
    simp only [List.length_cons, decEnts, encEnts, List.append_assoc, List.length_append, be64_length]
    rw [readU64_take _ hp]
    by_cases h8 : k < 8
    · simp only [h8, if_true]; rw [if_pos (by omega)]; exact ⟨_, rfl⟩
    · simp only [h8, if_false]
      rw [readN_take]
      by_cases hpk : k - 8 < p.length
      · simp only [hpk, if_true]; rw [if_pos (by omega)]; exact ⟨_, rfl⟩
      · simp only [hpk, if_false]
        have ih' := ih (k - 8 - p.length) (fun q hq => h q (List.mem_cons_of_mem _ hq))
        by_cases hr : k - 8 - p.length < (encEnts ps).length
        · rw [if_pos hr] at ih'
          obtain ⟨e, he⟩ := ih'
          rw [if_pos (by omega), he]; exact ⟨_, rfl⟩
        · rw [if_neg hr] at ih'
          rw [if_neg (by omega), ih']
          simp only
          congr 3; omega

/-- **truncation**: every strict prefix of an encoded frame decodes to a short-read error
    (io.EOF / io.ErrUnexpectedEOF) — never to a frame -/
theorem decodeB_truncated (f : FrameB) (hf : FrameOk f) (k : Nat) (hk : k < (encodeB f).length) :
    IsCut (decodeB ((encodeB f).take k)) := by
  obtain ⟨d1, d2, d3⟩ := types_distinct
  by_cases h0 : k = 0
  · subst h0; left; simp [decodeB]
  · obtain ⟨j, rfl⟩ : ∃ j, k = j + 1 := ⟨k - 1, by omega⟩
    cases f with
    | hb => simp [encodeB] at hk
    | ents ps c =>
      obtain ⟨h1, h2, h3⟩ := hf
      simp only [encodeB, List.length_cons, List.length_append, be64_length] at hk
      simp only [encodeB, List.take_succ_cons, decodeB, d1.symm, if_false, if_true, List.append_assoc]
      rw [readU64_take _ h1]
      by_cases h8 : j < 8
      · simp only [h8, if_true]; exact short_isCut _
      · simp only [h8, if_false]
        have hd := decEnts_take ps (be64 c) (j - 8) h2
        by_cases he : j - 8 < (encEnts ps).length
        · rw [if_pos he] at hd
          obtain ⟨e, hd⟩ := hd
          rw [hd]; exact short_isCut _
        · rw [if_neg he] at hd
          rw [hd]
          simp only
          have : (be64 c).take (j - 8 - (encEnts ps).length) = (be64 c ++ []).take (j - 8 - (encEnts ps).length) := by simp
          rw [this, readU64_take _ h3]
          rw [if_pos (by omega)]
          exact short_isCut _
    | full p =>
      simp only [encodeB, List.length_cons, List.length_append, be64_length] at hk
      simp only [encodeB, List.take_succ_cons, decodeB, d2.symm, d3.symm, if_false, if_true]
      rw [readU64_take _ hf]
      by_cases h8 : j < 8
      · simp only [h8, if_true]; exact short_isCut _
      · simp only [h8, if_false]
        have : p.take (j - 8) = (p ++ []).take (j - 8) := by simp
        rw [this, readN_take]
        rw [if_pos (by omega)]
        exact short_isCut _

end Z.Stream

namespace Z.Stream

theorem encodeB_length_pos (f : FrameB) : 0 < (encodeB f).length := by
  cases f <;> simp [encodeB]

/-- **stream-level truncation**: cutting an encoded frame sequence at ANY byte offset k yields exactly a
    prefix of the frames followed by end-of-stream or an unexpected-EOF error — never a different frame -/
theorem stream_truncated : ∀ (fs : List FrameB) (k fuel : Nat), (∀ f ∈ fs, FrameOk f) → fs.length < fuel →
    ∃ j, j ≤ fs.length ∧
      ((decodeAllB fuel ((encodeAllB fs).take k)) = (fs.take j, .eof) ∨
       (decodeAllB fuel ((encodeAllB fs).take k)) = (fs.take j, .unexpectedEOF))
  | [], k, fuel, _, hfuel => by
    obtain ⟨n, rfl⟩ : ∃ n, fuel = n + 1 := ⟨fuel - 1, by simp at hfuel; omega⟩
    exact ⟨0, Nat.le_refl _, Or.inl (by simp [encodeAllB, decodeAllB, decodeB])⟩
  | f :: fs, k, fuel, h, hfuel => by
    obtain ⟨n, rfl⟩ : ∃ n, fuel = n + 1 := ⟨fuel - 1, by simp at hfuel; omega⟩
    have hf := h f List.mem_cons_self
    have hrest : ∀ g ∈ fs, FrameOk g := fun g hg => h g (List.mem_cons_of_mem _ hg)
    have henc : encodeAllB (f :: fs) = encodeB f ++ encodeAllB fs := by simp [encodeAllB]
    by_cases hk : k < (encodeB f).length
    · refine ⟨0, Nat.zero_le _, ?_⟩
      have : (encodeAllB (f :: fs)).take k = (encodeB f).take k := by
        rw [henc, List.take_append_of_le_length (by omega)]
      rw [this]
      rcases decodeB_truncated f hf k hk with hc | hc
      · left; simp only [decodeAllB, hc, List.take_zero]
      · right; simp only [decodeAllB, hc, List.take_zero]
    · have : (encodeAllB (f :: fs)).take k = encodeB f ++ (encodeAllB fs).take (k - (encodeB f).length) := by
        rw [henc, List.take_append]
        rw [List.take_of_length_le (by omega)]
      rw [this]
      obtain ⟨j, hj, hres⟩ := stream_truncated fs (k - (encodeB f).length) n hrest (by simp at hfuel; omega)
      refine ⟨j + 1, by simp; omega, ?_⟩
      simp only [decodeAllB, decodeB_encodeB f hf, List.take_succ_cons]
      rcases hres with hres | hres
      · left; rw [hres]
      · right; rw [hres]

/-- the uncut stream decodes to exactly the frames that were written -/
theorem stream_roundtrip (fs : List FrameB) (h : ∀ f ∈ fs, FrameOk f) :
    decodeAllB (fs.length + 1) (encodeAllB fs) = (fs, .eof) := by
  induction fs with
  | nil => simp [encodeAllB, decodeAllB, decodeB]
  | cons f fs ih =>
    have henc : encodeAllB (f :: fs) = encodeB f ++ encodeAllB fs := by simp [encodeAllB]
    rw [henc]
    have ih' := ih (fun g hg => h g (List.mem_cons_of_mem _ hg))
    simp only [List.length_cons, decodeAllB, decodeB_encodeB f (h f List.mem_cons_self), ih']

end Z.Stream
