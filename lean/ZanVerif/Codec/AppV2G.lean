/-
C16 message level (derived from the design prototype AppV2.lean; `isContinue` / `isSameGroup` are the
REGENERATED expressions of transport/rafthttp/msgappv2_codec.go, groups carry their name): the stateful msgappv2 stream codec at frame level (byte framing is the
WalTrunc pattern).  Encoder and decoder each keep (term, index, ToGroup, FromGroup); a MsgApp that
continues the previous one is sent as bare entries + commit and rebuilt from the decoder's state.
-/
import ZanVerif.Gen.Stream
namespace Z.AppV2G

structure Grp where
  nodeId : Nat
  groupId : Nat
  replicaId : Nat
  name : Nat := 0          -- the group's name string; NOT compared by `isSameGroup`
  deriving DecidableEq

structure Ent where
  term : Nat
  index : Nat
  data : Nat
  deriving DecidableEq

/-- `other` stands for every field a MsgApp does not carry (Reject, RejectHint, Snapshot, Context) -/
structure Msg where
  isHb : Bool
  typ : Nat
  src : Nat
  dst : Nat
  term : Nat
  logTerm : Nat
  index : Nat
  commit : Nat
  toG : Grp
  fromG : Grp
  ents : List Ent
  other : Nat
  deriving DecidableEq

def msgApp : Nat := 3
def zeroG : Grp := ⟨0, 0, 0, 0⟩
def hbMsg : Msg := ⟨true, 8, 0, 0, 0, 0, 0, 0, zeroG, zeroG, [], 0⟩

inductive Frame
  | hb
  | ents (es : List Ent) (commit : Nat)
  | full (m : Msg)

structure CState where
  term : Nat
  index : Nat
  toG : Grp
  fromG : Grp
  deriving DecidableEq

def sameGroup (l r : Grp) : Bool :=
  Gen.isSameGroup l.nodeId l.groupId l.replicaId r.nodeId r.groupId r.replicaId

def isContinue (st : CState) (m : Msg) : Bool :=
  Gen.isContinue st.index st.term m.index m.logTerm m.term (sameGroup st.toG m.toG) (sameGroup st.fromG m.fromG)

/-- the group name is not part of `isSameGroup`: the sender must not change it while the ids stay the
    same (names are namespace names, a function of the ids) -/
def NameOk (st : CState) (m : Msg) : Prop :=
  (sameGroup st.toG m.toG = true → st.toG.name = m.toG.name) ∧
  (sameGroup st.fromG m.fromG = true → st.fromG.name = m.fromG.name)

def afterFull (m : Msg) : CState :=
  { term := m.term, index := (match m.ents.getLast? with | some e => e.index | none => m.index),
    toG := m.toG, fromG := m.fromG }

def enc (st : CState) (m : Msg) : CState × Frame :=
  if m.isHb then (st, .hb)
  else if isContinue st m then ({ st with index := st.index + m.ents.length }, .ents m.ents m.commit)
  else (afterFull m, .full m)

def dec (loc rem : Nat) (st : CState) : Frame → CState × Option Msg
  | .hb => (st, some hbMsg)
  | .ents es c =>
    if rem ≠ st.fromG.nodeId ∨ loc ≠ st.toG.nodeId then (st, none)
    else ({ st with index := st.index + es.length },
      some { isHb := false, typ := msgApp, src := st.fromG.replicaId, dst := st.toG.replicaId,
             term := st.term, logTerm := st.term, index := st.index, commit := c,
             toG := st.toG, fromG := st.fromG, ents := es, other := 0 })
  | .full m => (afterFull m, some m)

/-- what the stream picker and `sendAppend` guarantee for messages on this stream -/
def Wf (loc rem : Nat) (m : Msg) : Prop :=
  (m.isHb = true → m = hbMsg) ∧
  (m.isHb = false → m.typ = msgApp ∧ m.src = m.fromG.replicaId ∧ m.dst = m.toG.replicaId ∧
     m.other = 0 ∧ m.fromG.nodeId = rem ∧ m.toG.nodeId = loc)

def encAll (st : CState) : List Msg → List Frame
  | [] => []
  | m :: ms => (enc st m).2 :: encAll (enc st m).1 ms

def decAll (loc rem : Nat) (st : CState) : List Frame → List (Option Msg)
  | [] => []
  | f :: fs => (dec loc rem st f).2 :: decAll loc rem (dec loc rem st f).1 fs

theorem sameGroup_iff (l r : Grp) :
    sameGroup l r = true ↔ l.nodeId = r.nodeId ∧ l.groupId = r.groupId ∧ l.replicaId = r.replicaId := by
  unfold sameGroup Gen.isSameGroup
  simp only [Bool.and_eq_true, beq_iff_eq, Int.natCast_inj]
  constructor
  · rintro ⟨⟨a, b⟩, c⟩; exact ⟨a, b, c⟩
  · rintro ⟨a, b, c⟩; exact ⟨⟨a, b⟩, c⟩

theorem grp_eq_of_same {l r : Grp} (h : sameGroup l r = true) (hn : l.name = r.name) : l = r := by
  obtain ⟨a, b, c⟩ := (sameGroup_iff l r).mp h
  cases l; cases r; simp_all

theorem dec_enc (loc rem : Nat) (st : CState) (m : Msg) (h : Wf loc rem m) (hn : NameOk st m) :
    dec loc rem st (enc st m).2 = ((enc st m).1, some m) := by
  unfold enc
  by_cases hb : m.isHb = true
  · simp only [hb, ↓reduceIte, dec]; rw [h.1 hb]
  · have hb' : m.isHb = false := by simpa using hb
    obtain ⟨h1, h2, h3, h4, h5, h6⟩ := h.2 hb'
    simp only [hb', Bool.false_eq_true, ↓reduceIte]
    by_cases hc : isContinue st m = true
    · simp only [hc, ↓reduceIte, dec]
      simp only [isContinue, Gen.isContinue, Bool.and_eq_true, beq_iff_eq, Int.natCast_inj] at hc
      obtain ⟨⟨⟨⟨c1, c2⟩, c3⟩, c4⟩, c5⟩ := hc
      have e4 : st.toG = m.toG := grp_eq_of_same c4 (hn.1 c4)
      have e5 : st.fromG = m.fromG := grp_eq_of_same c5 (hn.2 c5)
      have g1 : ¬ (rem ≠ st.fromG.nodeId ∨ loc ≠ st.toG.nodeId) := by
        rw [e4, e5, h5, h6]; simp
      simp only [g1, ↓reduceIte]
      congr 2
      cases m
      simp_all
    · simp only [hc, Bool.false_eq_true, ↓reduceIte, dec]

/-- a run is well-formed when every message is and no message renames a group it continues -/
def WfRun (loc rem : Nat) : CState → List Msg → Prop
  | _, [] => True
  | st, m :: ms => Wf loc rem m ∧ NameOk st m ∧ WfRun loc rem (enc st m).1 ms

/-- **round trip with state tracking**: for every well-formed message sequence — any interleaving of
    raft groups and link heartbeats — the decoder returns exactly what was sent (both codec states
    evolve identically, so one state variable suffices) -/
theorem roundtrip (loc rem : Nat) : ∀ (ms : List Msg) (st : CState), WfRun loc rem st ms →
    decAll loc rem st (encAll st ms) = ms.map some := by
  intro ms
  induction ms with
  | nil => intro _ _; rfl
  | cons m ms ih =>
    intro st h
    simp only [encAll, decAll, List.map_cons]
    rw [dec_enc loc rem st m h.1 h.2.1]
    simp only
    rw [ih _ h.2.2]

-- the hypothesis matters: a continuing message whose From differs from the group's replica id is
-- rebuilt with the wrong sender (`isContinue` checks neither m.Type nor m.From)
def g1 : Grp := ⟨7, 1, 70, 0⟩
def g2 : Grp := ⟨9, 1, 90, 0⟩
def bad : Msg := ⟨false, msgApp, 71, 90, 2, 2, 5, 4, g2, g1, [], 0⟩
example : (dec 9 7 ⟨2, 5, g2, g1⟩ (enc ⟨2, 5, g2, g1⟩ bad).2).2 ≠ some bad := by decide
-- … and so does NameOk: same ids, other name
def g1' : Grp := ⟨7, 1, 70, 5⟩
def renamed : Msg := ⟨false, msgApp, 70, 90, 2, 2, 5, 4, g2, g1', [], 0⟩
example : (dec 9 7 ⟨2, 5, g2, g1⟩ (enc ⟨2, 5, g2, g1⟩ renamed).2).2 ≠ some renamed := by decide

end Z.AppV2G
