/-
  C17 — `fillPartitionMapV2` answers (no `nil.(loadItem)` panic, no index panic) for EVERY old layout with
  no more partitions than requested, whenever there are at least `replica ≥ 1` live names: old lists of
  any length, with any number of dead names, with or without repeated names. The fill loop works on the
  first `replica` names of an old list only (the repair of §9-F5: before it, the whole old list was
  excluded and an old list longer than the replication factor that covered every live node left no
  candidate), so at position j the excluded names are the j names already listed plus at most
  `replica - j - 1` old names still to come: fewer than `replica` ≤ number of live names.
-/
import ZanVerif.Place.ModelV2

namespace Z.Place
open Z.PlaceV2 (replaceFirst swapLeader)
open List

set_option linter.unusedSectionVars false
variable {α : Type} [DecidableEq α]

/-- every pid stored in the maps is a partition index -/
def Bndi (parts : Nat) (it : Item α) : Prop := (∀ p ∈ it.lp, p < parts) ∧ (∀ p ∈ it.rp, p < parts)
def Bnd (parts : Nat) (items : List (Item α)) : Prop := ∀ it ∈ items, Bndi parts it

theorem bnd_updItem {parts : Nat} {items : List (Item α)} (h : Bnd parts items) (nm : α) (f : Item α → Item α)
    (hf : ∀ it, Bndi parts it → Bndi parts (f it)) : Bnd parts (updItem items nm f) := by
  intro it' hit'
  obtain ⟨it, hit, rfl⟩ := mem_map.mp hit'
  split
  · exact hf it (h it hit)
  · exact h it hit

theorem bndi_snoc {parts pid : Nat} {l : List Nat} (h : ∀ p ∈ l, p < parts) (hp : pid < parts) :
    ∀ p ∈ l ++ [pid], p < parts := by
  intro p hpm
  rcases mem_append.mp hpm with h1 | h1
  · exact h p h1
  · simp only [mem_singleton] at h1; rw [h1]; exact hp

theorem bndi_removePid {parts pid : Nat} {l : List Nat} (h : ∀ p ∈ l, p < parts) :
    ∀ p ∈ removePid pid l, p < parts := by
  intro p hp
  exact h p (mem_filter.mp hp).1

theorem mkItems_bnd (parts sel n : Nat) : ∀ (i : Nat) (l : List α), Bnd parts (mkItems sel n i l) := by
  intro i l
  induction l generalizing i with
  | nil => intro it h; cases h
  | cons a t ih =>
    intro it h
    simp only [mkItems, mem_cons] at h
    rcases h with h | h
    · rw [h]; exact ⟨(fun p hp => by cases hp), (fun p hp => by cases hp)⟩
    · exact ih (i + 1) it h

theorem addOldList_bnd {parts pid : Nat} (hp : pid < parts) : ∀ (l : List α) (items : List (Item α)) (i : Nat),
    Bnd parts items → Bnd parts (addOldList pid items i l) := by
  intro l
  induction l with
  | nil => intro items i h; exact h
  | cons a t ih =>
    intro items i h
    simp only [addOldList]
    apply ih
    apply bnd_updItem h
    intro it hb
    refine ⟨?_, bndi_snoc hb.2 hp⟩
    simp only
    split
    · exact bndi_snoc hb.1 hp
    · exact hb.1

theorem addOld_bnd {parts : Nat} : ∀ (olds : List (List α)) (items : List (Item α)) (p0 : Nat),
    p0 + olds.length ≤ parts → Bnd parts items → Bnd parts (addOld items p0 olds) := by
  intro olds
  induction olds with
  | nil => intro items p0 _ h; exact h
  | cons ol t ih =>
    intro items p0 hl h
    simp only [addOld]
    simp only [length_cons] at hl
    exact ih _ (p0 + 1) (by omega) (addOldList_bnd (by omega) ol items 0 h)

/-! ### one partition -/

theorem reuseOld_none {oldlist : List α} {j : Nat} {items : List (Item α)}
    (h : reuseOld oldlist j items = none) : ∀ o, oldlist[j]? = some o → o ∉ items.map (·.name) := by
  intro o ho hm
  unfold reuseOld at h
  rw [ho] at h
  simp only at h
  rw [(hasName_iff _ _).mpr hm] at h
  simp at h

theorem minBy_none {β : Type} {lt : β → β → Bool} {l : List β} (h : minBy lt l = none) : l = [] := by
  cases l with
  | nil => rfl
  | cons a t => simp [minBy] at h

theorem pickCand_none {j : Nat} {items : List (Item α)} {excl : List α} (h : pickCand j items excl = none) :
    ∀ it ∈ items, it.name ∈ excl := by
  unfold pickCand at h
  have hnil : items.filter (fun it => !excl.contains it.name) = [] := by
    split at h
    · exact minBy_none h
    · exact minBy_none h
  intro it hit
  have := filter_eq_nil_iff.mp hnil it hit
  simpa using this

structure TInv (nm : List α) (replica : Nat) (oldlist : List α) (r j : Nat) (items : List (Item α))
    (acc excl : List α) : Prop where
  names : items.map (·.name) = nm
  rem : j + r = replica
  len : acc.length = j
  exclSub : ∀ x ∈ excl, x ∈ oldlist ∨ x ∈ acc
  reused : ∀ i o, i < j → oldlist[i]? = some o → o ∈ nm → o ∈ acc

theorem bump_bnd {parts pid : Nat} (hp : pid < parts) {items : List (Item α)} (h : Bnd parts items)
    {m : Item α} (hm : m ∈ items) (j : Nat) : Bnd parts (bump pid j m items) := by
  unfold bump
  apply bnd_updItem h
  intro it hb
  have hbm := h m hm
  refine ⟨?_, bndi_snoc hbm.2 hp⟩
  simp only
  split
  · exact bndi_snoc hbm.1 hp
  · exact hb.1

theorem bump_names (pid j : Nat) (m : Item α) (items : List (Item α)) :
    (bump pid j m items).map (·.name) = items.map (·.name) :=
  names_updItem _ _ _ (fun _ => rfl)

/-- the candidate set is never empty while the old list the loop works on is no longer than `replica`
    (`fillAll` passes `oldlist.take replica`) -/
theorem fillRow_total (nm : List α) (hnm : nm.Nodup) (replica parts pid : Nat) (hpid : pid < parts)
    (hrn : replica ≤ nm.length) (oldlist : List α) (holdlen : oldlist.length ≤ replica) :
    ∀ (r j : Nat) (items : List (Item α)) (acc excl : List α),
      TInv nm replica oldlist r j items acc excl → Bnd parts items →
      ∃ items' row, fillRow pid oldlist r j items acc excl = .ok (items', row) ∧
        Bnd parts items' ∧ items'.map (·.name) = nm := by
  intro r
  induction r with
  | zero => intro j items acc excl inv hb; exact ⟨items, acc, rfl, hb, inv.names⟩
  | succ r ih =>
    intro j items acc excl inv hb
    simp only [fillRow]
    cases hr : reuseOld oldlist j items with
    | some o =>
      simp only
      obtain ⟨ho, _⟩ := reuseOld_some hr
      apply ih (j + 1) items (acc ++ [o]) excl _ hb
      refine ⟨inv.names, by have := inv.rem; omega, by simp [inv.len], ?_, ?_⟩
      · intro x hx
        rcases inv.exclSub x hx with h | h
        · exact Or.inl h
        · exact Or.inr (mem_append_left _ h)
      · intro i o' hi hio hon
        by_cases hij : i < j
        · exact mem_append_left _ (inv.reused i o' hij hio hon)
        · have : i = j := by omega
          subst this
          rw [ho] at hio; injection hio with hio; subst hio
          exact mem_append_right _ (mem_singleton.mpr rfl)
    | none =>
      simp only
      have hdead := reuseOld_none hr
      cases hp : pickCand j items excl with
      | none =>
        -- impossible: every live name would be in acc or behind position j of the old list
        exfalso
        have hall := pickCand_none hp
        have hsub : nm ⊆ acc ++ oldlist.drop (j + 1) := by
          intro x hx
          rw [← inv.names] at hx
          obtain ⟨it, hit, rfl⟩ := mem_map.mp hx
          rcases inv.exclSub _ (hall it hit) with h | h
          · obtain ⟨i, hi, hio⟩ := getElem_of_mem h
            have hio' : oldlist[i]? = some it.name := by rw [getElem?_eq_getElem hi, hio]
            have hnm : it.name ∈ nm := by rw [← inv.names]; exact hx
            rcases Nat.lt_trichotomy i j with hlt | heq | hgt
            · exact mem_append_left _ (inv.reused i _ hlt hio' hnm)
            · subst heq; exact absurd hx (hdead _ hio')
            · apply mem_append_right
              have : (oldlist.drop (j + 1))[i - (j + 1)]? = some it.name := by
                rw [getElem?_drop]
                have : j + 1 + (i - (j + 1)) = i := by omega
                rw [this]; exact hio'
              exact mem_of_getElem? this
          · exact mem_append_left _ h
        have hle := hnm.length_le_of_subset hsub
        rw [length_append, length_drop, inv.len] at hle
        have := inv.rem
        omega
      | some m =>
        simp only
        obtain ⟨hmi, _⟩ := pickCand_some hp
        apply ih (j + 1) _ (acc ++ [m.name]) (excl ++ [m.name]) _ (bump_bnd hpid hb hmi j)
        refine ⟨(bump_names _ _ _ _).trans inv.names, by have := inv.rem; omega, by simp [inv.len], ?_, ?_⟩
        · intro x hx
          rcases mem_append.mp hx with h | h
          · rcases inv.exclSub x h with h | h
            · exact Or.inl h
            · exact Or.inr (mem_append_left _ h)
          · exact Or.inr (mem_append_right _ h)
        · intro i o' hi hio hon
          by_cases hij : i < j
          · exact mem_append_left _ (inv.reused i o' hij hio hon)
          · have : i = j := by omega
            subst this
            rw [← inv.names] at hon
            exact absurd hon (hdead _ hio)

theorem fillAll_total (nm : List α) (hnm : nm.Nodup) (replica parts : Nat) (hrn : replica ≤ nm.length)
    (old : List (List α)) :
    ∀ (k pid : Nat) (items : List (Item α)) (rows : List (List α)),
      pid + k ≤ parts → items.map (·.name) = nm → Bnd parts items →
      ∃ st, fillAll replica old k pid items rows = .ok st ∧ Bnd parts st.items ∧
        st.items.map (·.name) = nm ∧ st.rows.length = rows.length + k := by
  intro k
  induction k with
  | zero => intro pid items rows _ hn hb; exact ⟨⟨items, rows⟩, rfl, hb, hn, rfl⟩
  | succ k ih =>
    intro pid items rows hpk hn hb
    simp only [fillAll]
    obtain ⟨items', row, hrow, hb', hn'⟩ :=
      fillRow_total nm hnm replica parts pid (by omega) hrn ((old.getD pid []).take replica)
        (length_take_le _ _) replica 0 items [] ((old.getD pid []).take replica)
        ⟨hn, by omega, rfl, (fun x hx => Or.inl hx), (fun i o hi => absurd hi (Nat.not_lt_zero _))⟩ hb
    rw [hrow]
    simp only
    obtain ⟨st, h1, h2, h3, h4⟩ := ih (pid + 1) items' (rows ++ [row]) (by omega) hn' hb'
    exact ⟨st, h1, h2, h3, by rw [h4]; simp; omega⟩

/-! ### the balancing loop -/

theorem apply_bnd {parts : Nat} {items : List (Item α)} (h : Bnd parts items)
    {mn mx : Item α} (hmn : mn ∈ items) (hmx : mx ∈ items) (f1 f2 : Item α → Item α)
    (h1 : Bndi parts mn → ∀ it, Bndi parts it → Bndi parts (f1 it))
    (h2 : Bndi parts mx → ∀ it, Bndi parts it → Bndi parts (f2 it)) :
    Bnd parts (updItem (updItem items mn.name f1) mx.name f2) :=
  bnd_updItem (bnd_updItem h _ _ (h1 (h mn hmn))) _ _ (h2 (h mx hmx))

theorem apply_names (items : List (Item α)) (a b : α) (f1 f2 : Item α → Item α)
    (h1 : ∀ it, (f1 it).name = it.name) (h2 : ∀ it, (f2 it).name = it.name) :
    (updItem (updItem items a f1) b f2).map (·.name) = items.map (·.name) :=
  (names_updItem _ _ _ h2).trans (names_updItem _ _ _ h1)

theorem moveIfUnbalanced_total (nm : List α) (hn0 : nm ≠ []) (parts : Nat) (s : V2St α)
    (hn : s.items.map (·.name) = nm) (hb : Bnd parts s.items) (hl : s.rows.length = parts) :
    ∃ s' b, moveIfUnbalanced s = .ok (s', b) ∧ s'.items.map (·.name) = nm ∧ Bnd parts s'.items ∧
      s'.rows.length = parts := by
  have hne : s.items ≠ [] := by
    intro e; rw [e] at hn; exact hn0 hn.symm
  obtain ⟨mn, hmin⟩ := minBy_isSome (lt := leaderLt) hne
  obtain ⟨mx, hmax⟩ := maxBy_isSome (lt := leaderLt) hne
  obtain ⟨mn2, hmin2⟩ := minBy_isSome (lt := replicaLt) hne
  obtain ⟨mx2, hmax2⟩ := maxBy_isSome (lt := replicaLt) hne
  have hmn := minBy_mem hmin
  have hmx := maxBy_mem hmax
  have hmn2 := minBy_mem hmin2
  have hmx2 := maxBy_mem hmax2
  unfold moveIfUnbalanced
  rw [hmin, hmax]
  simp only
  split
  · -- leader move
    unfold leaderMove
    cases hf : mx.lp.find? (fun pid => !mn.lp.contains pid) with
    | none => exact ⟨s, false, rfl, hn, hb, hl⟩
    | some pid =>
      simp only
      have hpm : pid ∈ mx.lp := mem_of_find?_eq_some hf
      have hp : pid < parts := (hb mx hmx).1 pid hpm
      have hlt : pid < s.rows.length := by omega
      rw [getElem?_eq_getElem hlt]
      simp only
      split
      · refine ⟨_, false, rfl, ?_, ?_, by simp [applyExchange, hl]⟩
        · refine Eq.trans (apply_names _ _ _ _ _ ?_ ?_) hn <;> intro _ <;> rfl
        · apply apply_bnd hb hmn hmx
          · intro bm it bi; exact ⟨bndi_snoc bm.1 hp, bi.2⟩
          · intro bm it bi; exact ⟨bndi_removePid bm.1, bi.2⟩
      · refine ⟨_, false, rfl, ?_, ?_, by simp [applyLeaderMove, hl]⟩
        · refine Eq.trans (apply_names _ _ _ _ _ ?_ ?_) hn <;> intro _ <;> rfl
        · apply apply_bnd hb hmn hmx
          · intro bm it bi; exact ⟨bndi_snoc bm.1 hp, bndi_snoc bm.2 hp⟩
          · intro bm it bi; exact ⟨bndi_removePid bm.1, bndi_removePid bm.2⟩
  · rw [hmin2, hmax2]
    simp only
    split
    · unfold replicaMove
      cases hf : mx2.rp.find? (fun pid => !mn2.rp.contains pid && !mx2.lp.contains pid) with
      | none => exact ⟨s, false, rfl, hn, hb, hl⟩
      | some pid =>
        simp only
        have hpm : pid ∈ mx2.rp := mem_of_find?_eq_some hf
        have hp : pid < parts := (hb mx2 hmx2).2 pid hpm
        have hlt : pid < s.rows.length := by omega
        rw [getElem?_eq_getElem hlt]
        simp only
        refine ⟨_, false, rfl, ?_, ?_, by simp [applyReplicaMove, hl]⟩
        · refine Eq.trans (apply_names _ _ _ _ _ ?_ ?_) hn <;> intro _ <;> rfl
        · apply apply_bnd hb hmn2 hmx2
          · intro bm it bi; exact ⟨bi.1, bndi_snoc bm.2 hp⟩
          · intro bm it bi; exact ⟨bi.1, bndi_removePid bm.2⟩
    · exact ⟨s, true, rfl, hn, hb, hl⟩

theorem moveLoop_total (nm : List α) (hn0 : nm ≠ []) (parts : Nat) : ∀ (k : Nat) (s : V2St α),
    s.items.map (·.name) = nm → Bnd parts s.items → s.rows.length = parts →
    ∃ s', moveLoop k s = .ok s' := by
  intro k
  induction k with
  | zero => intro s _ _ _; exact ⟨s, rfl⟩
  | succ k ih =>
    intro s hn hb hl
    obtain ⟨s1, b, h1, h2, h3, h4⟩ := moveIfUnbalanced_total nm hn0 parts s hn hb hl
    simp only [moveLoop, h1]
    cases b with
    | true => exact ⟨s1, rfl⟩
    | false => exact ih s1 h2 h3 h4

/-- **fillPartitionMapV2 answers** (none of the two panics) for every old layout with at most `parts`
    partitions — no bound on the length of the old lists, no assumption on their contents -/
theorem fillV2_total (sel parts replica : Nat) (old : List (List α)) (sorted : List α) (hnd : sorted.Nodup)
    (hr0 : 0 < replica) (hrn : replica ≤ sorted.length)
    (hparts : old.length ≤ parts) : ∃ rows, fillV2 sel parts replica old sorted = .ok rows := by
  unfold fillV2
  simp only
  have hn0 : (mkItems sel sorted.length 0 sorted).map (·.name) = sorted := mkItems_names _ _ _ _
  obtain ⟨g1, _⟩ := addOld_spec old (mkItems sel sorted.length 0 sorted) 0
  have hb1 : Bnd parts (addOld (mkItems sel sorted.length 0 sorted) 0 old) :=
    addOld_bnd old _ 0 (by omega) (mkItems_bnd parts sel sorted.length 0 sorted)
  obtain ⟨st, h1, h2, h3, h4⟩ := fillAll_total sorted hnd replica parts hrn old parts 0 _ []
    (by omega) (g1.1.trans hn0) hb1
  rw [h1]
  simp only
  have hne : sorted ≠ [] := by
    intro e; rw [e] at hrn; simp at hrn; omega
  obtain ⟨s', h5⟩ := moveLoop_total sorted hne parts (moveCalls replica parts) st h3 h2 (by rw [h4]; simp)
  rw [h5]
  exact ⟨_, rfl⟩

/-! ### the empty-candidates panic is unreachable, whatever the old layout -/

theorem moveIfUnbalanced_names {s s' : V2St α} {b : Bool} (h : moveIfUnbalanced s = .ok (s', b)) :
    s'.items.map (·.name) = s.items.map (·.name) := by
  have hx : ∀ (a c : α) (f1 f2 : Item α → Item α), (∀ it, (f1 it).name = it.name) → (∀ it, (f2 it).name = it.name) →
      (updItem (updItem s.items a f1) c f2).map (·.name) = s.items.map (·.name) :=
    fun a c f1 f2 h1 h2 => apply_names s.items a c f1 f2 h1 h2
  unfold moveIfUnbalanced at h
  split at h
  · split at h
    · unfold leaderMove at h
      split at h
      · simp only [Outcome.ok.injEq, Prod.mk.injEq] at h; rw [← h.1]
      · split at h
        · cases h
        · split at h
          · simp only [Outcome.ok.injEq, Prod.mk.injEq] at h; rw [← h.1]
            exact hx _ _ _ _ (fun _ => rfl) (fun _ => rfl)
          · simp only [Outcome.ok.injEq, Prod.mk.injEq] at h; rw [← h.1]
            exact hx _ _ _ _ (fun _ => rfl) (fun _ => rfl)
    · split at h
      · split at h
        · unfold replicaMove at h
          split at h
          · simp only [Outcome.ok.injEq, Prod.mk.injEq] at h; rw [← h.1]
          · split at h
            · cases h
            · simp only [Outcome.ok.injEq, Prod.mk.injEq] at h; rw [← h.1]
              exact hx _ _ _ _ (fun _ => rfl) (fun _ => rfl)
        · simp only [Outcome.ok.injEq, Prod.mk.injEq] at h; rw [← h.1]
      · cases h
  · cases h

theorem moveIfUnbalanced_ne_panicEmpty (s : V2St α) (hne : s.items ≠ []) : moveIfUnbalanced s ≠ .panicEmpty := by
  obtain ⟨mn, hmin⟩ := minBy_isSome (lt := leaderLt) hne
  obtain ⟨mx, hmax⟩ := maxBy_isSome (lt := leaderLt) hne
  obtain ⟨mn2, hmin2⟩ := minBy_isSome (lt := replicaLt) hne
  obtain ⟨mx2, hmax2⟩ := maxBy_isSome (lt := replicaLt) hne
  unfold moveIfUnbalanced
  rw [hmin, hmax]
  simp only
  split
  · unfold leaderMove
    repeat' split
    all_goals simp
  · rw [hmin2, hmax2]
    simp only
    split
    · unfold replicaMove
      repeat' split
      all_goals simp
    · simp

theorem moveLoop_ne_panicEmpty : ∀ (k : Nat) (s : V2St α), s.items ≠ [] → moveLoop k s ≠ .panicEmpty := by
  intro k
  induction k with
  | zero => intro s _; simp [moveLoop]
  | succ k ih =>
    intro s hne
    simp only [moveLoop]
    cases hm : moveIfUnbalanced s with
    | refused => simp
    | panicEmpty => exact absurd hm (moveIfUnbalanced_ne_panicEmpty s hne)
    | panicIndex => simp
    | ok v =>
      obtain ⟨s1, b⟩ := v
      cases b with
      | true => simp
      | false =>
        simp only
        apply ih
        intro e
        have hn := moveIfUnbalanced_names hm
        rw [e] at hn
        exact hne (map_eq_nil_iff.mp hn.symm)

/-- **no `nil.(loadItem)` panic, unconditionally**: with `replica ≥ 1` and at least `replica` live names
    `fillPartitionMapV2` never meets an empty candidate set — for every old layout whatsoever (lists of any
    length and content, any number of old partitions). What is left besides an answer is the index panic
    of an old layout with MORE partitions than requested (`fillV2_total` excludes it by `hparts`). -/
theorem fillV2_ne_panicEmpty (sel parts replica : Nat) (old : List (List α)) (sorted : List α) (hnd : sorted.Nodup)
    (hr0 : 0 < replica) (hrn : replica ≤ sorted.length) : fillV2 sel parts replica old sorted ≠ .panicEmpty := by
  unfold fillV2
  simp only
  have hn0 : (mkItems sel sorted.length 0 sorted).map (·.name) = sorted := mkItems_names _ _ _ _
  obtain ⟨g1, _⟩ := addOld_spec old (mkItems sel sorted.length 0 sorted) 0
  -- the stored pids are bounded by the larger of the two partition counts
  have hb1 : Bnd (max parts old.length) (addOld (mkItems sel sorted.length 0 sorted) 0 old) :=
    addOld_bnd old _ 0 (by omega) (mkItems_bnd _ sel sorted.length 0 sorted)
  obtain ⟨st, h1, _, h3, _⟩ := fillAll_total sorted hnd replica (max parts old.length) hrn old parts 0 _ []
    (by omega) (g1.1.trans hn0) hb1
  rw [h1]
  simp only
  have hne : st.items ≠ [] := by
    intro e
    rw [e] at h3
    rw [← h3] at hrn
    simp at hrn
    omega
  cases hm : moveLoop (moveCalls replica parts) st with
  | refused => simp
  | panicEmpty => exact absurd hm (moveLoop_ne_panicEmpty _ st hne)
  | panicIndex => simp
  | ok v => simp

end Z.Place
