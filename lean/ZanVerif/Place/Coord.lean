/-
  C18 — executable model of the placement driver's decisions on ONE partition's replica info
  (cluster/pdnode_coord/pd_coordinator.go handleNamespaceMigrate, addNamespaceToNode,
  removeNamespaceFromNode, removeNamespaceFromRemovings; place_driver.go rebalanceNamespace +
  addNodeToNamespaceAndWaitReady for a one-partition namespace), as total functions
  "result class + the info handed to UpdateNamespacePartReplicaInfo, or none".
  Every guard is a `Gen.*` definition regenerated from the Go source (ZanVerif.Gen.Coord).
  Core only (linked into the driver). Grown out of the design prototype (notes/prototypes/Coord.lean.txt).

  Environment of one decision (`Env`): the coordinator's view of the live data nodes, the answers of the
  data nodes to /cluster/israftsynced and /cluster/members, whether the removal grace time has passed,
  whether the register's compare-and-swap succeeds, and the answer of the layout function
  (`expect`: the replica list getRebalancedNamespacePartitions wants for this partition — ANY outcome
  for the theorems; the driver computes it with the C17 model).
-/
import ZanVerif.Gen.Coord
import ZanVerif.Place.Model

namespace Z.Coord
open Z.Place (Outcome)

structure Info where
  nodes : List Nat                 -- RaftNodes
  ids : List (Nat × Nat)           -- RaftIDs: node -> replica id
  removing : List Nat              -- keys of Removings
  zeroTime : List Nat              -- keys of Removings whose RemoveTime is 0
  maxId : Nat                      -- MaxRaftID
  replica : Nat                    -- configured replication factor (NamespaceMetaInfo.Replica)
  issued : List Nat                -- ghost: every replica id ever handed out
deriving Repr, DecidableEq

/-- GetISR -/
def isr (i : Info) : List Nat := i.nodes.filter (fun n => !i.removing.contains n)
/-- IsISRQuorum (regenerated) -/
def isrQuorum (i : Info) : Bool := Gen.isISRQuorum (isr i).length i.replica

structure Env where
  alive : Nat → Bool               -- in the coordinator's data-node map AND answering HTTP
  synced : Nat → Bool              -- /cluster/israftsynced answers 200
  ready : Nat → Bool               -- /cluster/members lists every ISR member with its replica id
  joined : Nat → Bool              -- a removing node is still listed as raft member by the others
  elapsed : Bool                   -- waitRemoveRemovingNodeInterval has passed since the mark
  casOk : Bool                     -- UpdateNamespacePartReplicaInfo succeeds
  clusterSize : Nat                -- len(currentNodes)
  expect : List Nat → Outcome (List Nat)   -- layout function: ISR ↦ wanted replica list of this partition

/-- IsRaftNodeSynced -/
def nodeSynced (e : Env) (n : Nat) : Bool := e.alive n && e.synced n
/-- IsAllISRFullReady: every ISR member answers, lists all ISR members, and is synced -/
def allReady (e : Env) (i : Info) : Bool := (isr i).all fun x => e.alive x && e.ready x && e.synced x

inductive Res where
  | ok
  | err (cls : String)
  | bal (moved balanced : Bool)
  | panic (cls : String)
deriving Repr, DecidableEq

/-- a decision: what the method returns and what it hands to the register (an attempted write) -/
structure Dec where
  res : Res
  write : Option Info
deriving Repr

/-- `m[n] = id` on the RaftIDs map -/
def setId (ids : List (Nat × Nat)) (n id : Nat) : List (Nat × Nat) := (n, id) :: ids.filter (fun x => x.1 != n)

/-- MaxRaftID += step; RaftIDs[n] = MaxRaftID; RaftNodes = append(RaftNodes, n) -/
def addNew (i : Info) (n : Nat) (step : Int) : Info :=
  let m := ((i.maxId : Int) + step).toNat
  { i with maxId := m, ids := setId i.ids n m, nodes := i.nodes ++ [n], issued := m :: i.issued }

/-! ### handleNamespaceMigrate -/

/-- the marking loop over RaftNodes: a live replica that is not synced aborts the call; the first dead
    replica is marked if `canMark` -/
def markLoop (e : Env) (i : Info) : List Nat → Option Info
  | [] => some i
  | r :: rs =>
    if e.alive r then
      if Gen.unsyncedAborts (nodeSynced e r) then none else markLoop e i rs
    else if !i.removing.contains r && Gen.canMark i.removing.length (isr i).length i.replica then
      markLoop e { i with removing := r :: i.removing } rs
    else markLoop e i rs

/-- allocNodeForNamespace: the first name of the wanted list that is not a raft node yet -/
def alloc (e : Env) (i : Info) : Outcome (Option Nat) :=
  match e.expect (isr i) with
  | .ok row => .ok (row.find? fun n => !i.nodes.contains n)
  | .refused => .ok none
  | .panicEmpty => .panicEmpty
  | .panicIndex => .panicIndex

def commit (e : Env) (okRes : Res) (failCls : String) (i : Info) : Dec :=
  ⟨if e.casOk then okRes else .err failCls, some i⟩

/-- the tail of handleNamespaceMigrate: write iff something changed and the ISR still is a quorum -/
def migrateFinish (e : Env) (i2 : Info) (changed : Bool) : Dec :=
  if Gen.migrateWrites changed (isrQuorum i2) then
    if Gen.twoRemovings i2.removing.length then ⟨.err "conf-invalid", none⟩
    else commit e .ok "register-unstable" i2
  else ⟨.err "migrate-waiting", none⟩

/-- the add block: one replacement, only when nothing is being removed, every ISR member is ready and
    fewer than `Replica` replicas are alive -/
def migrateAdd (e : Env) (i i1 : Info) (aliveCnt : Nat) : Dec :=
  let marked := decide (i1.removing ≠ i.removing)
  if Gen.addGate i1.removing.length (allReady e i1) && Gen.needAdd aliveCnt i.replica then
    match alloc e i1 with
    | .ok (some n) => migrateFinish e (addNew i1 n Gen.raftIdStepMigrate) true
    | .ok none => migrateFinish e i1 marked
    | .refused => migrateFinish e i1 marked
    | .panicEmpty => ⟨.panic "v2-empty-candidates", none⟩
    | .panicIndex => ⟨.panic "index-out-of-range", none⟩
  else migrateFinish e i1 marked

def migrate (e : Env) (i : Info) : Dec :=
  if Gen.migrateBusy i.removing.length then ⟨.err "migrate-waiting", none⟩ else
  match markLoop e i i.nodes with
  | none => ⟨.err "migrate-waiting", none⟩
  | some i1 =>
    let aliveCnt := (i.nodes.filter e.alive).length
    if Gen.aliveTooFew i1.removing.length aliveCnt i.replica then ⟨.err "migrate-waiting", none⟩
    else if Gen.clusterTooSmall e.clusterSize i.replica i1.removing.length then ⟨.err "node-unavailable", none⟩
    else migrateAdd e i i1 aliveCnt

/-! ### addNamespaceToNode -/

def addNode (e : Env) (i : Info) (n : Nat) : Dec :=
  if Gen.addBusy i.removing.length then ⟨.err "waiting-sync", none⟩
  else if i.nodes.contains n then ⟨.err "node-conflict", none⟩       -- checkNamespaceNodeConflict
  else commit e .ok "register-err" (addNew i n Gen.raftIdStepAdd)

/-! ### removeNamespaceFromNode -/

def removeNode (e : Env) (i : Info) (n : Nat) : Dec :=
  if i.removing.contains n then ⟨.ok, none⟩
  else if !(i.ids.map (·.1)).contains n then ⟨.err "raftid-not-found", none⟩
  else if Gen.removePre (isrQuorum i) then ⟨.err "replica-not-enough", none⟩
  else if Gen.removeBusy i.removing.length then ⟨.err "migrate-waiting", none⟩
  else
    let i1 := { i with removing := n :: i.removing }
    if Gen.removePost (isrQuorum i1) i1.removing.length then ⟨.err "replica-not-enough", none⟩
    else commit e .ok "register-err" i1

/-! ### removeNamespaceFromRemovings -/

/-- IsRaftNodeJoined(nid) answers (false, nil): every other ISR member answered and none lists nid -/
def notJoined (e : Env) (i : Info) (n : Nat) : Bool :=
  let others := (isr i).filter (· != n)
  !Gen.finishStillJoined (others.any fun x => e.alive x && e.joined n) (others.any fun x => !e.alive x)

/-- one entry of Removings -/
def finishOne (e : Env) (i : Info) (n : Nat) : Option Info :=
  if i.zeroTime.contains n then none
  else if !e.elapsed then none
  else if !notJoined e i n then none
  else
    let nodes := i.nodes.filter (· != n)
    if Gen.finishTooFew nodes.length then none
    else some { i with nodes := nodes, ids := i.ids.filter (·.1 != n), removing := i.removing.filter (· != n),
                       zeroTime := i.zeroTime.filter (· != n) }

/-- the loop over Removings (a Go map; at most one entry in every state the coordinator writes) -/
def finishLoop (e : Env) : Info → List Nat → Info × Bool
  | i, [] => (i, false)
  | i, n :: rest =>
    match finishOne e i n with
    | some i' => let (j, _) := finishLoop e i' rest; (j, true)
    | none => finishLoop e i rest

def finishRemoving (e : Env) (i : Info) : Dec :=
  let (i1, changed) := finishLoop e i i.removing
  -- the method returns nothing: a failed compare-and-swap is only logged
  if Gen.finishWrites changed (isrQuorum i1) then ⟨.ok, some i1⟩ else ⟨.ok, none⟩

/-! ### rebalanceNamespace (one-partition namespace; one register write per call, see the harness) -/

def swapHead (l : List Nat) (x : Nat) : List Nat :=
  match l with
  | [] => []
  | h :: t => if x ∈ t then x :: t.map (fun y => if y = x then h else y) else h :: t

def balance (e : Env) (i : Info) : Dec :=
  if !i.removing.isEmpty then ⟨.bal false true, none⟩
  else if !(Gen.balanceReadyGate && allReady e i) then ⟨.bal false true, none⟩
  else match e.expect (isr i) with
  | .refused => ⟨.bal false false, none⟩
  | .panicEmpty => ⟨.panic "v2-empty-candidates", none⟩
  | .panicIndex => ⟨.panic "index-out-of-range", none⟩
  | .ok exp =>
    match (isr i).filter (fun n => !exp.contains n) with
    | nid :: _ =>
      if Gen.balanceAddFirst (isr i).length i.replica then
        -- addNodeToNamespaceAndWaitReady: first wanted name that is not a raft node, gated on readiness again
        match exp.find? (fun n => !i.nodes.contains n) with
        | none => ⟨.bal false false, none⟩
        | some c =>
          if allReady e i then ⟨.bal false false, (addNode e i c).write⟩ else ⟨.bal false false, none⟩
      else
        ⟨.bal true false, (removeNode e i nid).write⟩
    | [] =>
      match exp.head?, i.nodes.head? with
      | some want, some cur =>
        if decide ((isr i).length ≥ i.replica) && decide (cur ≠ want) && i.nodes.contains want then
          ⟨.bal true false, some { i with nodes := swapHead i.nodes want }⟩
        else ⟨.bal false true, none⟩
      | _, _ => ⟨.bal false true, none⟩

/-! ### sequences of decisions -/

inductive Act
  | migrate | add (n : Nat) | remove (n : Nat) | finish | balance
deriving Repr, DecidableEq

def act (e : Env) (i : Info) : Act → Dec
  | .migrate => migrate e i
  | .add n => addNode e i n
  | .remove n => removeNode e i n
  | .finish => finishRemoving e i
  | .balance => balance e i

/-- the register after a decision: an attempted write is stored iff the compare-and-swap succeeds -/
def after (e : Env) (i : Info) (d : Dec) : Info :=
  match d.write with
  | some i' => if e.casOk then i' else i
  | none => i

/-- run a sequence of (environment, decision) pairs; returns every attempted write and the final register -/
def run : Info → List (Env × Act) → List Info × Info
  | i, [] => ([], i)
  | i, (e, a) :: rest =>
    let d := act e i a
    let (ws, j) := run (after e i d) rest
    (match d.write with | some w => w :: ws | none => ws, j)

end Z.Coord
