/-
Scratch prototype for C18: the placement driver's decisions on one partition's replica info, as total
functions returning the info to write (or none = no write), and the invariant every written info
keeps, for every sequence of decisions and environment answers.
-/
namespace Z.Coord

structure Info where
  nodes : List Nat                 -- RaftNodes
  ids : List (Nat × Nat)           -- RaftIDs: node -> replica id
  removing : List Nat              -- Removings (keys)
  maxId : Nat                      -- MaxRaftID
  replica : Nat                    -- configured replication factor
  issued : List Nat                -- ghost: every replica id ever handed out

def isr (i : Info) : List Nat := i.nodes.filter (fun n => !i.removing.contains n)
def isrQuorum (i : Info) : Bool := decide ((isr i).length > i.replica / 2)

/-- environment answers for one `handleNamespaceMigrate` call -/
structure Env where
  alive : Nat → Bool
  synced : Nat → Bool
  allReady : Bool
  clusterSize : Nat
  alloc : Option Nat               -- allocNodeForNamespace: a live node outside RaftNodes, or none

/-- the marking loop: first dead replica is marked if no removal is pending and ISR-1 > replica/2;
    any live replica that is not synced aborts the whole call -/
def markLoop (e : Env) (i : Info) : List Nat → Option Info
  | [] => some i
  | r :: rs =>
    if e.alive r then
      if e.synced r then markLoop e i rs else none
    else if i.removing.isEmpty && decide ((isr i).length - 1 > i.replica / 2) && !i.removing.contains r then
      markLoop e { i with removing := r :: i.removing } rs
    else markLoop e i rs

def addNew (i : Info) (n : Nat) : Info :=
  { i with maxId := i.maxId + 1, ids := (n, i.maxId + 1) :: i.ids, nodes := i.nodes ++ [n],
           issued := (i.maxId + 1) :: i.issued }

/-- add one replacement when nothing is being removed, everybody reports ready and a replica is missing -/
def chooseAdd (e : Env) (i1 : Info) (aliveCnt : Nat) : Info :=
  if i1.removing.isEmpty && e.allReady && decide (aliveCnt < i1.replica) then
    match e.alloc with
    | some n => if i1.nodes.contains n then i1 else addNew i1 n
    | none => i1
  else i1

def migrate (e : Env) (i : Info) : Option Info :=
  if !i.removing.isEmpty then none else
  match markLoop e i i.nodes with
  | none => none
  | some i1 =>
    let aliveCnt := (i.nodes.filter e.alive).length
    if !i1.removing.isEmpty && decide (aliveCnt ≤ i.replica / 2) then none
    else if decide (e.clusterSize < i.replica) && !i1.removing.isEmpty then none
    else
      let i2 := chooseAdd e i1 aliveCnt
      let changed := decide (i2.removing ≠ i.removing) || decide (i2.nodes ≠ i.nodes)
      if changed && isrQuorum i2 then some i2 else none

def addNode (i : Info) (n : Nat) : Option Info :=
  if !i.removing.isEmpty then none
  else if i.nodes.contains n then none          -- checkNamespaceNodeConflict
  else some (addNew i n)

def removeNode (i : Info) (n : Nat) : Option Info :=
  if i.removing.contains n then none
  else if !(i.ids.map (·.1)).contains n then none
  else if !isrQuorum i then none
  else if !i.removing.isEmpty then none
  else
    let i1 := { i with removing := n :: i.removing }
    if !isrQuorum i1 || decide (i1.removing.length > 1) then none else some i1

def finishRemoving (i : Info) (n : Nat) : Option Info :=
  if !i.removing.contains n then none else
  let nodes := i.nodes.filter (· != n)
  if nodes.length < 1 then none else
  let i1 := { i with nodes := nodes, ids := i.ids.filter (·.1 != n), removing := i.removing.filter (· != n) }
  if isrQuorum i1 then some i1 else none

/-- what every written info keeps -/
structure Inv (i : Info) : Prop where
  oneRemoving : i.removing.length ≤ 1
  quorum : (isr i).length > i.replica / 2
  idsBound : ∀ x ∈ i.ids, x.2 ≤ i.maxId
  issuedBound : ∀ x ∈ i.issued, x ≤ i.maxId
  idsIssued : ∀ x ∈ i.ids, x.2 ∈ i.issued
  issuedNodup : i.issued.Nodup

/-! ### the marking loop adds at most one removal, only from an empty set -/

theorem markLoop_props (e : Env) : ∀ (rs : List Nat) (i i' : Info), markLoop e i rs = some i' →
    i'.nodes = i.nodes ∧ i'.ids = i.ids ∧ i'.maxId = i.maxId ∧ i'.replica = i.replica ∧ i'.issued = i.issued ∧
    (i'.removing = i.removing ∨ (i.removing = [] ∧ ∃ r, i'.removing = [r])) := by
  intro rs
  induction rs with
  | nil => intro i i' h; simp only [markLoop] at h; injection h with h; subst h; simp
  | cons r rs ih =>
    intro i i' h
    simp only [markLoop] at h
    split at h
    · split at h
      · exact ih i i' h
      · cases h
    · split at h
      · rename_i hc
        simp only [Bool.and_eq_true, List.isEmpty_iff] at hc
        obtain ⟨h1, h2, h3, h4, h5, h6⟩ := ih _ i' h
        refine ⟨h1, h2, h3, h4, h5, ?_⟩
        right
        refine ⟨hc.1.1, ?_⟩
        rcases h6 with h6 | ⟨h6, _⟩
        · exact ⟨r, by rw [h6, hc.1.1]⟩
        · simp at h6
      · exact ih i i' h

theorem isr_nil {i : Info} (h : i.removing = []) : isr i = i.nodes := by
  simp [isr, h]

theorem inv_addNew {i : Info} (inv : Inv i) (n : Nat) (hrem : i.removing = []) : Inv (addNew i n) := by
  refine ⟨?_, ?_, ?_, ?_, ?_, ?_⟩
  · simp [addNew, hrem]
  · have := inv.quorum
    rw [isr_nil hrem] at this
    rw [isr_nil (i := addNew i n) (by simp [addNew, hrem])]
    simp only [addNew, List.length_append, List.length_cons, List.length_nil]; omega
  · intro x hx
    simp only [addNew, List.mem_cons] at hx ⊢
    rcases hx with rfl | hx
    · simp
    · have := inv.idsBound x hx; omega
  · intro x hx
    simp only [addNew, List.mem_cons] at hx ⊢
    rcases hx with rfl | hx
    · simp
    · have := inv.issuedBound x hx; omega
  · intro x hx
    simp only [addNew, List.mem_cons] at hx ⊢
    rcases hx with rfl | hx
    · exact Or.inl rfl
    · exact Or.inr (inv.idsIssued x hx)
  · simp only [addNew, List.nodup_cons]
    refine ⟨fun h => ?_, inv.issuedNodup⟩
    have := inv.issuedBound _ h; omega

/-- a fresh replica id was never issued before: ids are never reused -/
theorem addNew_fresh {i : Info} (inv : Inv i) (n : Nat) : (i.maxId + 1) ∉ i.issued := by
  intro h; have := inv.issuedBound _ h; omega

theorem inv_addNode {i i' : Info} (inv : Inv i) (n : Nat) (h : addNode i n = some i') : Inv i' := by
  simp only [addNode] at h
  split at h
  · cases h
  · rename_i hr
    split at h
    · cases h
    · injection h with h; subst h
      exact inv_addNew inv n (by simpa using hr)

theorem inv_removeNode {i i' : Info} (inv : Inv i) (n : Nat) (h : removeNode i n = some i') : Inv i' := by
  simp only [removeNode] at h
  repeat (split at h; · cases h)
  rename_i hq
  injection h with h; subst h
  simp only [Bool.or_eq_true, Bool.not_eq_true', decide_eq_true_eq, not_or, Bool.not_eq_false,
    Nat.not_lt] at hq
  refine ⟨hq.2, ?_, inv.idsBound, inv.issuedBound, inv.idsIssued, inv.issuedNodup⟩
  have := hq.1
  simp only [isrQuorum, decide_eq_true_eq] at this
  exact this

theorem inv_finish {i i' : Info} (inv : Inv i) (n : Nat) (h : finishRemoving i n = some i') : Inv i' := by
  simp only [finishRemoving] at h
  repeat (split at h; · cases h)
  split at h
  · rename_i hq
    injection h with h; subst h
    refine ⟨?_, ?_, ?_, inv.issuedBound, ?_, inv.issuedNodup⟩
    · exact Nat.le_trans (List.length_filter_le _ _) inv.oneRemoving
    · simpa [isrQuorum] using hq
    · intro x hx; exact inv.idsBound x (List.mem_filter.mp hx).1
    · intro x hx; exact inv.idsIssued x (List.mem_filter.mp hx).1
  · cases h

/-- anything that differs from a valid info only by ≤ 1 removal and still has an ISR quorum is valid -/
theorem inv_base {i j : Info} (inv : Inv i) (e1 : j.ids = i.ids) (e2 : j.maxId = i.maxId)
    (e3 : j.issued = i.issued) (e4 : j.removing.length ≤ 1) (e5 : isrQuorum j = true) : Inv j := by
  refine ⟨e4, by simpa [isrQuorum] using e5, ?_, ?_, ?_, ?_⟩
  · rw [e1, e2]; exact inv.idsBound
  · rw [e3, e2]; exact inv.issuedBound
  · rw [e1, e3]; exact inv.idsIssued
  · rw [e3]; exact inv.issuedNodup

theorem inv_chooseAdd {e : Env} {i1 : Info} (inv1 : Inv i1) (a : Nat) : Inv (chooseAdd e i1 a) := by
  unfold chooseAdd
  split
  · rename_i hadd
    simp only [Bool.and_eq_true, List.isEmpty_iff] at hadd
    split
    · split
      · exact inv1
      · exact inv_addNew inv1 _ hadd.1.1
    · exact inv1
  · exact inv1

theorem inv_migrate {e : Env} {i i' : Info} (inv : Inv i) (h : migrate e i = some i') : Inv i' := by
  simp only [migrate] at h
  split at h
  · cases h
  · rename_i hr0
    have hrem0 : i.removing = [] := by simpa using hr0
    split at h
    · cases h
    · rename_i i1 hml
      obtain ⟨h1, h2, h3, h4, h5, h6⟩ := markLoop_props e i.nodes i i1 hml
      have hlen1 : i1.removing.length ≤ 1 := by
        rcases h6 with h6 | ⟨_, r, h6⟩
        · rw [h6, hrem0]; simp
        · rw [h6]; simp
      split at h
      · cases h
      · split at h
        · cases h
        · split at h
          · rename_i hw
            injection h with h
            subst h
            simp only [Bool.and_eq_true] at hw
            -- the written info has an ISR quorum by the final guard; everything else is inherited
            generalize hj : chooseAdd e i1 (List.filter e.alive i.nodes).length = j at hw
            have hq : isrQuorum j = true := hw.2
            -- j is i1 or addNew i1 n (only when i1.removing = [])
            unfold chooseAdd at hj
            split at hj
            · rename_i hadd
              simp only [Bool.and_eq_true, List.isEmpty_iff] at hadd
              split at hj
              · split at hj
                · subst hj; exact inv_base inv h2 h3 h5 hlen1 hq
                · subst hj
                  have inv1 : Inv i1 := by
                    refine inv_base inv h2 h3 h5 hlen1 ?_
                    have := inv.quorum
                    rw [isr_nil hrem0] at this
                    simp only [isrQuorum, isr_nil hadd.1.1, h1, h4, decide_eq_true_eq]; exact this
                  exact inv_addNew inv1 _ hadd.1.1
              · subst hj; exact inv_base inv h2 h3 h5 hlen1 hq
            · subst hj; exact inv_base inv h2 h3 h5 hlen1 hq
          · cases h

/-- never marks a removal while half or more of the replicas are unreachable -/
theorem migrate_marks_only_with_majority_alive {e : Env} {i i' : Info} (h : migrate e i = some i')
    (hm : i'.removing ≠ []) : (i.nodes.filter e.alive).length > i.replica / 2 := by
  simp only [migrate] at h
  split at h
  · cases h
  · split at h
    · cases h
    · rename_i i1 hml
      split at h
      · cases h
      · rename_i hguard
        split at h
        · cases h
        · split at h
          · injection h with h
            subst h
            -- chooseAdd never touches `removing`
            have hrem : (chooseAdd e i1 (List.filter e.alive i.nodes).length).removing = i1.removing := by
              unfold chooseAdd
              split
              · split
                · split <;> rfl
                · rfl
              · rfl
            rw [hrem] at hm
            simp only [Bool.and_eq_true, Bool.not_eq_true', List.isEmpty_eq_false_iff, decide_eq_true_eq,
              not_and, Nat.not_le] at hguard
            exact hguard hm
          · cases h

inductive Act
  | migrate (e : Env) | add (n : Nat) | remove (n : Nat) | finish (n : Nat)

def act (i : Info) : Act → Option Info
  | .migrate e => migrate e i
  | .add n => addNode i n
  | .remove n => removeNode i n
  | .finish n => finishRemoving i n

/-- the register after a sequence of decisions: a decision that writes nothing leaves it unchanged -/
def runActs (i : Info) : List Act → Info
  | [] => i
  | a :: as => runActs ((act i a).getD i) as

/-- **C18 invariant for every decision sequence and every environment** -/
theorem inv_run : ∀ (as : List Act) (i : Info), Inv i → Inv (runActs i as) := by
  intro as
  induction as with
  | nil => intro i h; exact h
  | cons a as ih =>
    intro i h
    apply ih
    cases hact : act i a with
    | none => exact h
    | some i' =>
      simp only [Option.getD_some]
      cases a with
      | migrate e => exact inv_migrate h hact
      | add n => exact inv_addNode h n hact
      | remove n => exact inv_removeNode h n hact
      | finish n => exact inv_finish h n hact

-- non-vacuity: replica 3 on nodes 1,2,3; node 3 dies -> marked; removal finishes; a replacement is added
def i0 : Info := ⟨[1, 2, 3], [(1, 1), (2, 2), (3, 3)], [], 3, 3, [1, 2, 3]⟩
example : Inv i0 := by
  refine ⟨by decide, by decide, by decide, by decide, by decide, by decide⟩
def envDead3 : Env := ⟨fun n => n != 3, fun _ => true, true, 4, some 4⟩
def envAll : Env := ⟨fun _ => true, fun _ => true, true, 4, some 4⟩
example : ((migrate envDead3 i0).map (·.removing)) = some [3] := by decide
example : (runActs i0 [.migrate envDead3, .finish 3, .migrate envAll]).nodes = [1, 2, 4] := by decide
example : (runActs i0 [.migrate envDead3, .finish 3, .migrate envAll]).ids = [(4, 4), (1, 1), (2, 2)] := by decide

#print axioms inv_run
end Z.Coord
