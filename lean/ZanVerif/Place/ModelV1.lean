/-
  C17 — lemmas about the executable model (`Place.Model`): node name list, interleave, ring fill (v1).
-/
import ZanVerif.Place.Model

namespace Z.Place
open Z.PlaceV1 (interleave)
open List

/-! ### string order laws (core: `String.le_trans`, `le_total`, `le_antisymm`) -/

theorem sle_trans (a b c : String) : sle a b = true → sle b c = true → sle a c = true := by
  simp only [sle, decide_eq_true_eq]; exact String.le_trans

theorem sle_total (a b : String) : (sle a b || sle b a) = true := by
  simp only [sle, Bool.or_eq_true, decide_eq_true_eq]; exact String.le_total a b

theorem sle_antisymm (a b : String) : sle a b = true → sle b a = true → a = b := by
  simp only [sle, decide_eq_true_eq]; exact String.le_antisymm

/-- sorting is canonical: permutations sort to the same list -/
theorem sort_eq_of_perm {l₁ l₂ : List String} (h : l₁ ~ l₂) : l₁.mergeSort sle = l₂.mergeSort sle := by
  apply Perm.eq_of_pairwise (le := fun a b => sle a b = true)
  · intro a b _ _ h1 h2; exact sle_antisymm a b h1 h2
  · exact pairwise_mergeSort sle_trans sle_total l₁
  · exact pairwise_mergeSort sle_trans sle_total l₂
  · exact (mergeSort_perm l₁ sle).trans (h.trans (mergeSort_perm l₂ sle).symm)

theorem sort_idem (l : List String) : (l.mergeSort sle).mergeSort sle = l.mergeSort sle :=
  mergeSort_of_pairwise (pairwise_mergeSort sle_trans sle_total l)

/-! ### dedup -/

section
variable {β : Type} [DecidableEq β]

theorem mem_dedup {a : β} : ∀ {l : List β}, a ∈ dedup l ↔ a ∈ l := by
  intro l
  induction l with
  | nil => simp [dedup]
  | cons b t ih =>
    simp only [dedup]
    split
    · rename_i hb
      rw [ih, mem_cons]
      constructor
      · exact Or.inr
      · rintro (h | h)
        · exact h ▸ hb
        · exact h
    · simp [ih]

theorem nodup_dedup : ∀ (l : List β), (dedup l).Nodup := by
  intro l
  induction l with
  | nil => simp [dedup]
  | cons b t ih =>
    simp only [dedup]
    split
    · exact ih
    · rename_i hb
      exact nodup_cons.mpr ⟨fun h => hb (mem_dedup.mp h), ih⟩

theorem dedup_length_le {β : Type} [DecidableEq β] : ∀ l : List β, (dedup l).length ≤ l.length := by
  intro l
  induction l with
  | nil => simp [dedup]
  | cons a t ih =>
    simp only [dedup]
    split
    · simp only [length_cons]; omega
    · simp only [length_cons]; omega

theorem dedup_perm_of_mem_iff {l₁ l₂ : List β} (h : ∀ a, a ∈ l₁ ↔ a ∈ l₂) : dedup l₁ ~ dedup l₂ :=
  (perm_ext_iff_of_nodup (nodup_dedup l₁) (nodup_dedup l₂)).mpr (fun a => by rw [mem_dedup, mem_dedup, h a])
end

/-! ### getNodeNameList -/

/-- the sorted list of DC tags -/
def dcList (nodes : List (String × String)) : List String := (dedup (nodes.map (·.2))).mergeSort sle

def dcGroup (nodes : List (String × String)) (dc : String) : List String :=
  ((nodes.filter (fun x => x.2 == dc)).map (·.1)).mergeSort sle

theorem getNodeNameList_eq (nodes : List (String × String)) :
    getNodeNameList nodes = (dcList nodes).map (dcGroup nodes) := rfl

theorem dcList_nodup (nodes : List (String × String)) : (dcList nodes).Nodup :=
  (mergeSort_perm _ sle).nodup_iff.mpr (nodup_dedup _)

theorem mem_dcList {nodes : List (String × String)} {dc : String} :
    dc ∈ dcList nodes ↔ ∃ x ∈ nodes, x.2 = dc := by
  simp [dcList, mem_mergeSort, mem_dedup]

theorem mem_dcGroup {nodes : List (String × String)} {dc nm : String} :
    nm ∈ dcGroup nodes dc ↔ (nm, dc) ∈ nodes := by
  simp only [dcGroup, mem_mergeSort, mem_map, mem_filter, beq_iff_eq]
  constructor
  · rintro ⟨⟨a, b⟩, ⟨h1, h2⟩, h3⟩
    simp only at h2 h3; subst h2; subst h3; exact h1
  · intro h; exact ⟨(nm, dc), ⟨h, rfl⟩, rfl⟩

/-- **order independence** (Go map iteration order): the name list depends only on the SET of nodes -/
theorem getNodeNameList_perm {n₁ n₂ : List (String × String)} (h : n₁ ~ n₂) :
    getNodeNameList n₁ = getNodeNameList n₂ := by
  have hd : dcList n₁ = dcList n₂ := by
    apply sort_eq_of_perm
    apply dedup_perm_of_mem_iff
    intro a; exact (h.map (·.2)).mem_iff
  rw [getNodeNameList_eq, getNodeNameList_eq, hd]
  apply map_congr_left
  intro dc _
  exact sort_eq_of_perm ((h.filter _).map _)

/-! ### flattening the groups gives back the nodes -/

theorem filter_or_perm {β : Type} (p q : β → Bool) (hpq : ∀ x, p x = true → q x = true → False) :
    ∀ l : List β, l.filter p ++ l.filter q ~ l.filter (fun x => p x || q x) := by
  intro l
  induction l with
  | nil => simp
  | cons a t ih =>
    cases hp : p a <;> cases hq : q a
    · simpa [filter_cons, hp, hq] using ih
    · simp only [filter_cons, hp, hq, Bool.false_eq_true, ↓reduceIte, Bool.or_true]
      exact perm_middle.trans (ih.cons a)
    · simp only [filter_cons, hp, hq, ↓reduceIte, Bool.false_eq_true, Bool.or_false, cons_append]
      exact ih.cons a
    · exact (hpq a hp hq).elim

theorem groups_flatten_perm (nodes : List (String × String)) :
    ∀ ds : List String, ds.Nodup →
      (ds.map fun dc => nodes.filter (fun x => x.2 == dc)).flatten ~ nodes.filter (fun x => ds.contains x.2) := by
  intro ds
  induction ds with
  | nil => intro _; simp
  | cons d ds ih =>
    intro hnd
    have hd : d ∉ ds := (nodup_cons.mp hnd).1
    simp only [map_cons, flatten_cons]
    refine ((ih (nodup_cons.mp hnd).2).append_left _).trans ?_
    refine (filter_or_perm _ _ ?_ nodes).trans ?_
    · intro x h1 h2
      simp only [beq_iff_eq] at h1
      simp only [contains_iff_mem] at h2
      exact hd (h1 ▸ h2)
    · apply Perm.of_eq
      apply filter_congr
      intro x _
      simp only [contains_cons]

theorem flatten_map_perm {β : Type} {f g : String → List β} (h : ∀ a, f a ~ g a) :
    ∀ l : List String, (l.map f).flatten ~ (l.map g).flatten := by
  intro l
  induction l with
  | nil => simp
  | cons a t ih => simp only [map_cons, flatten_cons]; exact (h a).append ih

/-- the groups partition the node set -/
theorem getNodeNameList_flatten_perm (nodes : List (String × String)) :
    (getNodeNameList nodes).flatten ~ nodes.map (·.1) := by
  rw [getNodeNameList_eq]
  have h1 : ((dcList nodes).map (dcGroup nodes)).flatten ~
      ((dcList nodes).map fun dc => (nodes.filter (fun x => x.2 == dc)).map (·.1)).flatten :=
    flatten_map_perm (fun dc => mergeSort_perm _ sle) _
  refine h1.trans ?_
  have h2 : ((dcList nodes).map fun dc => (nodes.filter (fun x => x.2 == dc)).map (·.1)).flatten
      = (((dcList nodes).map fun dc => nodes.filter (fun x => x.2 == dc)).flatten).map (·.1) := by
    rw [map_flatten, map_map]; rfl
  rw [h2]
  refine ((groups_flatten_perm nodes _ (dcList_nodup nodes)).map _).trans ?_
  apply Perm.of_eq
  congr 1
  apply filter_eq_self.mpr
  intro x hx
  simp only [contains_iff_mem]
  exact mem_dcList.mpr ⟨x, hx, rfl⟩

/-! ### the round-robin interleave is a permutation of all names -/

section
variable {β : Type}

theorem flatten_heads_tails : ∀ ls : List (List β),
    ls.flatten ~ ls.filterMap head? ++ (ls.map tail).flatten := by
  intro ls
  induction ls with
  | nil => simp
  | cons l ls ih =>
    cases l with
    | nil => simpa [filterMap_cons] using ih
    | cons a t =>
      simp only [flatten_cons, filterMap_cons, head?_cons, map_cons, tail_cons, cons_append]
      refine Perm.cons a ?_
      refine (ih.append_left t).trans ?_
      rw [← append_assoc, ← append_assoc]
      exact perm_append_comm.append_right _

theorem maxLen_cons (l : List β) (ls : List (List β)) : maxLen (l :: ls) = max l.length (maxLen ls) := rfl

theorem flatten_nil_of_maxLen_zero : ∀ {ls : List (List β)}, maxLen ls = 0 → ls.flatten = [] := by
  intro ls
  induction ls with
  | nil => intro _; rfl
  | cons l ls ih =>
    intro h
    rw [maxLen_cons] at h
    have h1 : l.length = 0 := by omega
    have h2 : maxLen ls = 0 := by omega
    simp [length_eq_zero_iff.mp h1, ih h2]

theorem maxLen_map_tail : ∀ ls : List (List β), maxLen (ls.map tail) = maxLen ls - 1 := by
  intro ls
  induction ls with
  | nil => rfl
  | cons l ls ih => simp only [map_cons, maxLen_cons, ih, length_tail]; omega

theorem interleave_perm : ∀ (f : Nat) (ls : List (List β)), maxLen ls ≤ f → interleave f ls ~ ls.flatten := by
  intro f
  induction f with
  | zero =>
    intro ls h
    rw [flatten_nil_of_maxLen_zero (by omega)]; simp [interleave]
  | succ f ih =>
    intro ls h
    simp only [interleave]
    refine Perm.trans ?_ (flatten_heads_tails ls).symm
    refine Perm.append_left _ (ih _ ?_)
    rw [maxLen_map_tail]; omega

theorem combine_perm (ls : List (List β)) : combine ls ~ ls.flatten :=
  interleave_perm _ ls (Nat.le_refl _)

theorem totalCnt_eq (ls : List (List β)) : totalCnt ls = ls.flatten.length := by
  induction ls with
  | nil => rfl
  | cons l ls ih => simp only [totalCnt, foldr_cons, flatten_cons, length_append]; rw [← ih]; rfl
end

/-- the list `getRebalancedPartitionsFromNameList` sorts again is already sorted -/
theorem nameList_sorted_again (nodes : List (String × String)) :
    (getNodeNameList nodes).map (·.mergeSort sle) = getNodeNameList nodes := by
  rw [getNodeNameList_eq, map_map]
  apply map_congr_left
  intro dc _
  exact sort_idem _

/-- the ring of node names both algorithms work on -/
def ring (nodes : List (String × String)) : List String := combine (getNodeNameList nodes)

theorem ring_perm (nodes : List (String × String)) : ring nodes ~ nodes.map (·.1) :=
  (combine_perm _).trans (getNodeNameList_flatten_perm nodes)

theorem ring_length (nodes : List (String × String)) : (ring nodes).length = nodes.length := by
  rw [(ring_perm nodes).length_eq, length_map]

theorem mem_ring {nodes : List (String × String)} {x : String} : x ∈ ring nodes ↔ x ∈ nodes.map (·.1) :=
  (ring_perm nodes).mem_iff

theorem ring_nodup {nodes : List (String × String)} (h : (nodes.map (·.1)).Nodup) : (ring nodes).Nodup :=
  (ring_perm nodes).nodup_iff.mpr h

/-- **order independence** of everything downstream of the node map -/
theorem ring_of_perm {n₁ n₂ : List (String × String)} (h : n₁ ~ n₂) : ring n₁ = ring n₂ := by
  unfold ring; rw [getNodeNameList_perm h]

/-! ### the regenerated guards, on naturals -/

theorem refuseNodes_iff (n r : Nat) : Gen.refuseNodes (n : Int) (r : Int) = true ↔ n < r := by
  simp [Gen.refuseNodes]

theorem refuseTotal_iff (n r : Nat) : Gen.refuseTotal (n : Int) (r : Int) = true ↔ n < r := by
  simp [Gen.refuseTotal]

theorem ringSlot_eq (s j n : Nat) : ringSlot s j n = (s + j) % n := by
  unfold ringSlot Gen.ringSlot
  rw [← Int.natCast_add, ← Int.ofNat_tmod, Int.toNat_natCast]

theorem ringStartOf_eq (sel p : Nat) : ringStartOf sel p = sel + p := by
  unfold ringStartOf Gen.ringStep
  omega

/-- what `place` computes once the guards are passed -/
theorem place_eq_of_enough (alg : Alg) (ns : String) (parts replica : Nat) (old : List (List String))
    (nodes : List (String × String)) (h : replica ≤ nodes.length) :
    place alg ns parts replica old nodes = fillAlg alg (selectIndex ns) parts replica old (ring nodes) := by
  unfold place placeFromNameList
  have h1 : Gen.refuseNodes (nodes.length : Nat) (replica : Nat) = false := by
    rw [Bool.eq_false_iff]; intro hc; have := (refuseNodes_iff _ _).mp hc; omega
  rw [h1, nameList_sorted_again]
  have h2 : Gen.refuseTotal (totalCnt (getNodeNameList nodes) : Nat) (replica : Nat) = false := by
    rw [Bool.eq_false_iff]; intro hc
    have := (refuseTotal_iff _ _).mp hc
    rw [totalCnt_eq, ← (combine_perm _).length_eq] at this
    have h3 := ring_length nodes
    unfold ring at h3
    omega
  simp only [h2, Bool.false_eq_true, ↓reduceIte]
  rfl

theorem place_refused_of_few (alg : Alg) (ns : String) (parts replica : Nat) (old : List (List String))
    (nodes : List (String × String)) (h : nodes.length < replica) :
    place alg ns parts replica old nodes = .refused := by
  unfold place
  rw [(refuseNodes_iff _ _).mpr h]; rfl

/-- the second guard (`totalCnt < replica` in `getRebalancedPartitionsFromNameList`) refuses on its own -/
theorem placeFromNameList_refused_of_few (alg : Alg) (ns : String) (parts replica : Nat)
    (old : List (List String)) (nameList : List (List String)) (h : nameList.flatten.length < replica) :
    placeFromNameList alg ns parts replica old nameList = .refused := by
  unfold placeFromNameList
  have : totalCnt (nameList.map (·.mergeSort sle)) < replica := by
    rw [totalCnt_eq]
    have : (nameList.map (·.mergeSort sle)).flatten.length = nameList.flatten.length := by
      simp only [length_flatten, map_map]
      congr 1
      apply map_congr_left
      intro l _; simp
    omega
  simp only [(refuseTotal_iff _ _).mpr this, ↓reduceIte]

/-! ### fillPartitionMapV1 -/

section V1
variable {α : Type}
open Z.PlaceV1 (slot_inj dc_spread interleave_get)

theorem fillV1_eq (sel parts replica : Nat) (sorted : List α) :
    fillV1 sel parts replica sorted =
      (List.range parts).map fun p =>
        (List.range replica).filterMap fun j => sorted[(sel + p + j) % sorted.length]? := by
  unfold fillV1
  simp only [ringSlot_eq, ringStartOf_eq]

theorem filterMap_length_of_isSome {γ β : Type} (g : γ → Option β) :
    ∀ l : List γ, (∀ x ∈ l, (g x).isSome) → (l.filterMap g).length = l.length := by
  intro l
  induction l with
  | nil => intro _; rfl
  | cons x t ih =>
    intro h
    obtain ⟨b, hb⟩ := Option.isSome_iff_exists.mp (h x mem_cons_self)
    rw [filterMap_cons_some hb, length_cons, length_cons, ih (fun y hy => h y (mem_cons_of_mem _ hy))]

theorem filterMap_nodup_of_inj {γ β : Type} (g : γ → Option β) :
    ∀ l : List γ, l.Nodup → (∀ x ∈ l, ∀ y ∈ l, ∀ b, g x = some b → g y = some b → x = y) →
      (l.filterMap g).Nodup := by
  intro l
  induction l with
  | nil => intro _ _; simp
  | cons x t ih =>
    intro hnd hinj
    have hxt : x ∉ t := (nodup_cons.mp hnd).1
    have iht := ih (nodup_cons.mp hnd).2
      (fun a ha b hb c h1 h2 => hinj a (mem_cons_of_mem _ ha) b (mem_cons_of_mem _ hb) c h1 h2)
    cases hg : g x with
    | none => rw [filterMap_cons_none hg]; exact iht
    | some b =>
      rw [filterMap_cons_some hg]
      refine nodup_cons.mpr ⟨?_, iht⟩
      intro hb
      obtain ⟨y, hy, hgy⟩ := mem_filterMap.mp hb
      have := hinj x mem_cons_self y (mem_cons_of_mem _ hy) b hg hgy
      exact hxt (this ▸ hy)

theorem fillV1_length (sel parts replica : Nat) (sorted : List α) :
    (fillV1 sel parts replica sorted).length = parts := by
  simp [fillV1]

/-- every partition gets exactly `replica` names, all from the ring -/
theorem fillV1_row_shape (sel parts replica : Nat) (sorted : List α) (hn : 0 < sorted.length) :
    ∀ row ∈ fillV1 sel parts replica sorted, row.length = replica ∧ ∀ x ∈ row, x ∈ sorted := by
  intro row hrow
  rw [fillV1_eq] at hrow
  obtain ⟨p, _, rfl⟩ := mem_map.mp hrow
  constructor
  · rw [filterMap_length_of_isSome, length_range]
    intro j _
    have : (sel + p + j) % sorted.length < sorted.length := Nat.mod_lt _ hn
    simp [this]
  · intro x hx
    obtain ⟨j, _, hj⟩ := mem_filterMap.mp hx
    exact mem_of_getElem? hj

/-- consecutive ring slots: pairwise different names as long as `replica ≤ |ring|` -/
theorem fillV1_row_nodup (sel parts replica : Nat) (sorted : List α) (hnd : sorted.Nodup)
    (hr : replica ≤ sorted.length) : ∀ row ∈ fillV1 sel parts replica sorted, row.Nodup := by
  intro row hrow
  rw [fillV1_eq] at hrow
  obtain ⟨p, _, rfl⟩ := mem_map.mp hrow
  apply filterMap_nodup_of_inj _ _ nodup_range
  intro j hj j' hj' b h1 h2
  have hj := mem_range.mp hj
  have hj' := mem_range.mp hj'
  have hn : 0 < sorted.length := by omega
  have hlt : (sel + p + j) % sorted.length < sorted.length := Nat.mod_lt _ hn
  have := (getElem?_inj hlt hnd).mp (h1.trans h2.symm)
  exact slot_inj (by omega) (by omega) this

/-- DC spread, generic form: if ring position i lies in DC `dcs[i mod d]` (d DCs, pairwise different,
    d divides the ring length) and `replica ≤ d`, the replicas of every partition lie in pairwise
    different DCs — including the partitions whose slots wrap around the end of the ring -/
theorem fillV1_dc_spread {δ : Type} (dcOf : α → δ) (sel parts replica : Nat) (sorted : List α)
    (d m : Nat) (dcs : List δ) (hdcs : dcs.Nodup) (hd : dcs.length = d) (hlen : sorted.length = d * m)
    (hpos : ∀ i x, sorted[i]? = some x → dcs[i % d]? = some (dcOf x)) (hr : replica ≤ d) :
    ∀ row ∈ fillV1 sel parts replica sorted, (row.map dcOf).Nodup := by
  intro row hrow
  rw [fillV1_eq] at hrow
  obtain ⟨p, _, rfl⟩ := mem_map.mp hrow
  rw [map_filterMap]
  apply filterMap_nodup_of_inj _ _ nodup_range
  intro j hj j' hj' b h1 h2
  have hj := mem_range.mp hj
  have hj' := mem_range.mp hj'
  have hd0 : 0 < d := by omega
  obtain ⟨x, hx, hxb⟩ := Option.map_eq_some_iff.mp h1
  obtain ⟨y, hy, hyb⟩ := Option.map_eq_some_iff.mp h2
  have e1 := hpos _ _ hx
  have e2 := hpos _ _ hy
  rw [hxb] at e1
  rw [hyb] at e2
  have hlt : ((sel + p + j) % sorted.length) % d < dcs.length := by rw [hd]; exact Nat.mod_lt _ hd0
  have := (getElem?_inj hlt hdcs).mp (e1.trans e2.symm)
  rw [hlen] at this
  exact dc_spread (by omega) (by omega) this

/-! #### leader balance: each residue appears once in every window of n consecutive slots -/

theorem exists_slot (n : Nat) (hn : 0 < n) : ∀ s i, i < n → ∃ q, q < n ∧ (s + q) % n = i := by
  intro s
  induction s with
  | zero => intro i hi; exact ⟨i, hi, by simp [Nat.mod_eq_of_lt hi]⟩
  | succ s ih =>
    intro i hi
    obtain ⟨q, hq, h⟩ := ih i hi
    cases q with
    | zero =>
      refine ⟨n - 1, by omega, ?_⟩
      have : s + 1 + (n - 1) = s + n := by omega
      rw [this, Nat.add_mod_right]; simpa using h
    | succ q =>
      refine ⟨q, by omega, ?_⟩
      have : s + 1 + q = s + (q + 1) := by omega
      rw [this]; exact h

theorem countP_eq_range (n q0 : Nat) : (List.range n).countP (fun q => q == q0) = if q0 < n then 1 else 0 := by
  induction n with
  | zero => simp
  | succ n ih =>
    rw [range_succ, countP_append, ih]
    by_cases h1 : q0 < n
    · have : ¬ n = q0 := by omega
      simp [h1, this]; omega
    · by_cases h2 : q0 = n
      · subst h2; simp
      · have h3 : ¬ q0 < n + 1 := by omega
        have : ¬ n = q0 := by omega
        simp [h1, h3, this]

theorem window_count (n : Nat) (hn : 0 < n) (s i : Nat) (hi : i < n) :
    (List.range n).countP (fun q => (s + q) % n == i) = 1 := by
  obtain ⟨q0, hq0, h0⟩ := exists_slot n hn s i hi
  have : (List.range n).countP (fun q => (s + q) % n == i) = (List.range n).countP (fun q => q == q0) := by
    apply countP_congr
    intro q hq
    have hq := mem_range.mp hq
    simp only [beq_iff_eq]
    constructor
    · intro h; exact slot_inj hq hq0 (h.trans h0.symm)
    · intro h; rw [h]; exact h0
  rw [this, countP_eq_range]; simp [hq0]

theorem ring_count (n : Nat) (hn : 0 < n) (s i : Nat) (hi : i < n) :
    ∀ k, (List.range (k * n)).countP (fun p => (s + p) % n == i) = k := by
  intro k
  induction k with
  | zero => simp
  | succ k ih =>
    rw [Nat.succ_mul, range_add, countP_append, ih, countP_map]
    have : (List.range n).countP ((fun p => (s + p) % n == i) ∘ fun x => k * n + x) =
        (List.range n).countP (fun q => ((s + k * n) + q) % n == i) := by
      apply countP_congr
      intro q _
      simp only [Function.comp, beq_iff_eq]
      rw [Nat.add_assoc]
    rw [this, window_count n hn _ i hi]

/-- every name of the ring leads exactly `k` partitions when there are `k·|ring|` partitions -/
theorem fillV1_leader_balance [DecidableEq α] (sel replica k : Nat) (sorted : List α) (hnd : sorted.Nodup)
    (hr : 0 < replica) (hn : 0 < sorted.length) :
    ∀ x ∈ sorted, (fillV1 sel (k * sorted.length) replica sorted).countP (fun row => row.head? == some x) = k := by
  intro x hx
  obtain ⟨i, hi, hxi⟩ := getElem_of_mem hx
  rw [fillV1_eq, countP_map]
  refine Eq.trans ?_ (ring_count sorted.length hn sel i hi k)
  apply countP_congr
  intro p _
  simp only [Function.comp, beq_iff_eq]
  obtain ⟨r, rfl⟩ : ∃ r, replica = r + 1 := ⟨replica - 1, by omega⟩
  have hlt : (sel + p) % sorted.length < sorted.length := Nat.mod_lt _ hn
  have hhead : ((List.range (r + 1)).filterMap fun j => sorted[(sel + p + j) % sorted.length]?).head?
      = sorted[(sel + p) % sorted.length]? := by
    rw [range_succ_eq_map, filterMap_cons_some (b := sorted[(sel + p) % sorted.length]) (by simp [hlt])]
    simp [hlt]
  rw [hhead]
  constructor
  · intro h
    have hxi' : sorted[i]? = some x := by rw [getElem?_eq_getElem hi, hxi]
    exact (getElem?_inj hlt hnd).mp (h.trans hxi'.symm)
  · intro h
    rw [h, getElem?_eq_getElem hi, hxi]

theorem maxLen_of_all_eq {β : Type} {m : Nat} : ∀ {ls : List (List β)}, ls ≠ [] → (∀ l ∈ ls, l.length = m) →
    maxLen ls = m := by
  intro ls
  induction ls with
  | nil => intro h; exact absurd rfl h
  | cons l ls ih =>
    intro _ h
    rw [maxLen_cons, h l mem_cons_self]
    cases ls with
    | nil => simp [maxLen]
    | cons l' ls' => rw [ih (by simp) (fun x hx => h x (mem_cons_of_mem _ hx))]; simp

end V1

/-! ### DC of a ring position when every DC has the same number of nodes -/

theorem lookup_of_mem : ∀ {nodes : List (String × String)} {x dc : String},
    (nodes.map (·.1)).Nodup → (x, dc) ∈ nodes → nodes.lookup x = some dc := by
  intro nodes
  induction nodes with
  | nil => intro x dc _ h; cases h
  | cons a t ih =>
    intro x dc hnd h
    obtain ⟨k, v⟩ := a
    simp only [map_cons, nodup_cons] at hnd
    rcases mem_cons.mp h with h | h
    · injection h with h1 h2; subst h1; subst h2; simp [lookup]
    · have hne : x ≠ k := by
        intro e
        apply hnd.1
        rw [← e]
        exact mem_map.mpr ⟨(x, dc), h, rfl⟩
      have hb : (x == k) = false := by simpa using hne
      simp only [lookup, hb]
      exact ih hnd.2 h

/-- evenly filled DCs: ring position i holds a node of DC `dcList[i mod d]` -/
theorem ring_dc_of_pos (nodes : List (String × String)) (hnd : (nodes.map (·.1)).Nodup) (m : Nat)
    (heven : ∀ g ∈ getNodeNameList nodes, g.length = m) :
    ∀ i x, (ring nodes)[i]? = some x →
      (dcList nodes)[i % (dcList nodes).length]? = some ((nodes.lookup x).getD "") := by
  intro i x hx
  have hlen : (getNodeNameList nodes).length = (dcList nodes).length := by
    rw [getNodeNameList_eq, length_map]
  by_cases hne : getNodeNameList nodes = []
  · unfold ring combine at hx
    rw [hne] at hx
    simp [interleave, maxLen] at hx
  · have hml := maxLen_of_all_eq hne heven
    have hi : i < (ring nodes).length := by
      rcases Nat.lt_or_ge i (ring nodes).length with h | h
      · exact h
      · rw [getElem?_eq_none h] at hx; cases hx
    have hrl : (ring nodes).length = (dcList nodes).length * m := by
      show (combine (getNodeNameList nodes)).length = _
      rw [(combine_perm _).length_eq, length_flatten]
      have : (getNodeNameList nodes).map length = replicate (dcList nodes).length m := by
        apply eq_replicate_iff.mpr
        refine ⟨by simp [hlen], ?_⟩
        intro b hb
        obtain ⟨g, hg, rfl⟩ := mem_map.mp hb
        exact heven g hg
      rw [this, sum_replicate_nat]
    unfold ring combine at hx
    rw [hml, Z.PlaceV1.interleave_get (dcList nodes).length m _ hlen heven i (by rw [← hrl]; exact hi)] at hx
    have hd0 : 0 < (dcList nodes).length := by
      rcases Nat.eq_zero_or_pos (dcList nodes).length with h | h
      · rw [h, Nat.zero_mul] at hrl; omega
      · exact h
    have hk : i % (dcList nodes).length < (dcList nodes).length := Nat.mod_lt _ hd0
    rw [getElem?_eq_getElem (by rw [hlen]; exact hk)] at hx
    simp only [Option.bind_some] at hx
    have hmem : x ∈ (getNodeNameList nodes)[i % (dcList nodes).length]'(by rw [hlen]; exact hk) :=
      mem_of_getElem? hx
    simp only [getNodeNameList_eq, getElem_map] at hmem
    have := lookup_of_mem hnd (mem_dcGroup.mp hmem)
    rw [getElem?_eq_getElem hk, this]; rfl

end Z.Place
