/-
  C18 — the invariant of every info the placement driver hands to the register, for the executable
  model `Z.Coord` (Place/Coord.lean), and the per-decision clauses (growth only when ready, no removal
  mark without a live majority). All guards are read through bridging lemmas over the regenerated
  `Gen.*` definitions, so a changed guard expression breaks the proof that used it.
-/
import ZanVerif.Place.Coord

namespace Z.Coord
open List

/-! ### the regenerated guards on naturals -/

theorem quorum_iff (n r : Nat) : Gen.isISRQuorum (n : Int) (r : Int) = true ↔ n > r / 2 := by
  simp only [Gen.isISRQuorum, Int.natCast_tdiv_eq_ediv, decide_eq_true_eq]; omega

theorem canMark_iff (k n r : Nat) : Gen.canMark (k : Int) (n : Int) (r : Int) = true ↔ k = 0 ∧ n - 1 > r / 2 := by
  simp only [Gen.canMark, Int.natCast_tdiv_eq_ediv, Bool.and_eq_true, beq_iff_eq, decide_eq_true_eq]
  constructor
  · intro ⟨h1, h2⟩; constructor <;> omega
  · intro ⟨h1, h2⟩; constructor <;> omega

theorem aliveTooFew_iff (k a r : Nat) : Gen.aliveTooFew (k : Int) (a : Int) (r : Int) = true ↔ k > 0 ∧ a ≤ r / 2 := by
  simp only [Gen.aliveTooFew, Int.natCast_tdiv_eq_ediv, Bool.and_eq_true, decide_eq_true_eq]; omega

theorem busy_iff (k : Nat) : (Gen.migrateBusy (k : Int) = true ↔ k > 0) ∧ (Gen.addBusy (k : Int) = true ↔ k > 0)
    ∧ (Gen.removeBusy (k : Int) = true ↔ k > 0) ∧ (Gen.twoRemovings (k : Int) = true ↔ k > 1) := by
  simp only [Gen.migrateBusy, Gen.addBusy, Gen.removeBusy, Gen.twoRemovings, decide_eq_true_eq]; omega

theorem addGate_iff (k : Nat) (b : Bool) : Gen.addGate (k : Int) b = true ↔ k = 0 ∧ b = true := by
  simp only [Gen.addGate, Bool.and_eq_true, beq_iff_eq]
  constructor <;> intro ⟨h1, h2⟩ <;> exact ⟨by omega, h2⟩

theorem removePost_iff (q : Bool) (k : Nat) : Gen.removePost q (k : Int) = false ↔ q = true ∧ k ≤ 1 := by
  cases q <;> simp [Gen.removePost] <;> omega

theorem step_migrate : Gen.raftIdStepMigrate = 1 := rfl
theorem step_add : Gen.raftIdStepAdd = 1 := rfl

theorem isrQuorum_iff (i : Info) : isrQuorum i = true ↔ (isr i).length > i.replica / 2 := by
  unfold isrQuorum; exact quorum_iff _ _

/-! ### what every written info keeps -/

structure Inv (i : Info) : Prop where
  oneRemoving : i.removing.length ≤ 1
  quorum : (isr i).length > i.replica / 2
  nodesNodup : i.nodes.Nodup
  idsBound : ∀ x ∈ i.ids, x.2 ≤ i.maxId
  issuedBound : ∀ x ∈ i.issued, x ≤ i.maxId
  idsIssued : ∀ x ∈ i.ids, x.2 ∈ i.issued
  issuedNodup : i.issued.Nodup

theorem isr_nil {i : Info} (h : i.removing = []) : isr i = i.nodes := by
  simp [isr, h]

theorem isr_nodup {i : Info} (h : i.nodes.Nodup) : (isr i).Nodup := h.sublist (filter_sublist)

theorem addNew_fields (i : Info) (n : Nat) (step : Int) (hs : step = 1) :
    (addNew i n step).maxId = i.maxId + 1 ∧ (addNew i n step).nodes = i.nodes ++ [n] ∧
    (addNew i n step).removing = i.removing ∧ (addNew i n step).replica = i.replica ∧
    (addNew i n step).ids = setId i.ids n (i.maxId + 1) ∧ (addNew i n step).issued = (i.maxId + 1) :: i.issued := by
  subst hs
  have : ((i.maxId : Int) + 1).toNat = i.maxId + 1 := by omega
  simp [addNew, this]

theorem inv_addNew {i : Info} (inv : Inv i) (n : Nat) (step : Int) (hs : step = 1) (hrem : i.removing = [])
    (hn : n ∉ i.nodes) : Inv (addNew i n step) := by
  obtain ⟨f1, f2, f3, f4, f5, f6⟩ := addNew_fields i n step hs
  have hrem' : (addNew i n step).removing = [] := by rw [f3, hrem]
  refine ⟨by rw [f3]; exact inv.oneRemoving, ?_, ?_, ?_, ?_, ?_, ?_⟩
  · have := inv.quorum
    rw [isr_nil hrem] at this
    rw [isr_nil hrem', f2, f4, length_append]; simp; omega
  · rw [f2]
    refine nodup_append.mpr ⟨inv.nodesNodup, by simp, ?_⟩
    intro a ha b hb hab
    simp only [mem_singleton] at hb
    subst hb; subst hab; exact hn ha
  · intro x hx
    rw [f5, setId] at hx
    rw [f1]
    rcases mem_cons.mp hx with rfl | hx
    · simp
    · have := inv.idsBound x (mem_filter.mp hx).1; omega
  · intro x hx
    rw [f6] at hx
    rw [f1]
    rcases mem_cons.mp hx with rfl | hx
    · simp
    · have := inv.issuedBound x hx; omega
  · intro x hx
    rw [f5, setId] at hx
    rw [f6]
    rcases mem_cons.mp hx with rfl | hx
    · exact mem_cons_self
    · exact mem_cons_of_mem _ (inv.idsIssued x (mem_filter.mp hx).1)
  · rw [f6]
    refine nodup_cons.mpr ⟨fun h => ?_, inv.issuedNodup⟩
    have := inv.issuedBound _ h; omega

/-- a fresh replica id was never issued before: ids are never reused -/
theorem addNew_fresh {i : Info} (inv : Inv i) : (i.maxId + 1) ∉ i.issued := by
  intro h; have := inv.issuedBound _ h; omega

/-- anything that differs from a valid info only in `removing` (≤ 1) and still has an ISR quorum is valid -/
theorem inv_base {i j : Info} (inv : Inv i) (e0 : j.nodes = i.nodes) (e1 : j.ids = i.ids) (e2 : j.maxId = i.maxId)
    (e3 : j.issued = i.issued) (e4 : j.removing.length ≤ 1) (e5 : isrQuorum j = true) : Inv j := by
  refine ⟨e4, (isrQuorum_iff j).mp e5, by rw [e0]; exact inv.nodesNodup, ?_, ?_, ?_, ?_⟩
  · rw [e1, e2]; exact inv.idsBound
  · rw [e3, e2]; exact inv.issuedBound
  · rw [e1, e3]; exact inv.idsIssued
  · rw [e3]; exact inv.issuedNodup

/-! ### handleNamespaceMigrate -/

theorem markLoop_props (e : Env) : ∀ (rs : List Nat) (i i' : Info), markLoop e i rs = some i' →
    i'.nodes = i.nodes ∧ i'.ids = i.ids ∧ i'.maxId = i.maxId ∧ i'.replica = i.replica ∧ i'.issued = i.issued ∧
    i'.zeroTime = i.zeroTime ∧
    (i'.removing = i.removing ∨ (i.removing = [] ∧ ∃ r, i'.removing = [r])) := by
  intro rs
  induction rs with
  | nil => intro i i' h; simp only [markLoop] at h; injection h with h; subst h; simp
  | cons r rs ih =>
    intro i i' h
    simp only [markLoop] at h
    split at h
    · split at h
      · cases h
      · exact ih i i' h
    · split at h
      · rename_i hc
        simp only [Bool.and_eq_true] at hc
        have hk := ((canMark_iff _ _ _).mp hc.2).1
        have hnil : i.removing = [] := length_eq_zero_iff.mp hk
        obtain ⟨h1, h2, h3, h4, h5, h6, h7⟩ := ih _ i' h
        refine ⟨h1, h2, h3, h4, h5, h6, ?_⟩
        right
        refine ⟨hnil, ?_⟩
        rcases h7 with h7 | ⟨h7, _⟩
        · exact ⟨r, by rw [h7, hnil]⟩
        · simp at h7
      · exact ih i i' h

theorem migrateFinish_write {e : Env} {i2 w : Info} {c : Bool} (h : (migrateFinish e i2 c).write = some w) :
    w = i2 ∧ c = true ∧ isrQuorum i2 = true ∧ i2.removing.length ≤ 1 := by
  unfold migrateFinish at h
  split at h
  · rename_i hw
    simp only [Gen.migrateWrites, Bool.and_eq_true] at hw
    split at h
    · cases h
    · rename_i h2
      simp only [commit, Option.some.injEq] at h
      have := (busy_iff i2.removing.length).2.2.2
      refine ⟨h.symm, hw.1, hw.2, ?_⟩
      rcases Nat.lt_or_ge 1 i2.removing.length with hlt | hge
      · exact absurd (this.mpr hlt) h2
      · exact hge
  · cases h

theorem alloc_some {e : Env} {i : Info} {n : Nat} (h : alloc e i = .ok (some n)) : n ∉ i.nodes := by
  unfold alloc at h
  split at h
  · rename_i row _
    simp only [Z.Place.Outcome.ok.injEq] at h
    have := find?_some h
    simpa using this
  · simp at h
  · cases h
  · cases h

/-- what a write of `migrate` looks like: either only a mark (≤ 1, from none), or one added node with
    nothing marked, all ISR members ready and fewer than `Replica` replicas alive -/
theorem migrate_write {e : Env} {i w : Info} (h : (migrate e i).write = some w) :
    i.removing = [] ∧ isrQuorum w = true ∧ w.removing.length ≤ 1 ∧ w.replica = i.replica ∧
    ((w.nodes = i.nodes ∧ w.ids = i.ids ∧ w.maxId = i.maxId ∧ w.issued = i.issued ∧ w.removing ≠ []) ∨
     (∃ n, n ∉ i.nodes ∧ w = addNew i n Gen.raftIdStepMigrate ∧ allReady e i = true ∧
        (i.nodes.filter e.alive).length < i.replica)) ∧
    (w.removing ≠ [] → (i.nodes.filter e.alive).length > i.replica / 2) := by
  unfold migrate at h
  split at h
  · cases h
  · rename_i hbusy
    have hrem0 : i.removing = [] := by
      have := (busy_iff i.removing.length).1
      rcases Nat.eq_zero_or_pos i.removing.length with h0 | h0
      · exact length_eq_zero_iff.mp h0
      · exact absurd (this.mpr h0) hbusy
    split at h
    · cases h
    · rename_i i1 hml
      obtain ⟨h1, h2, h3, h4, h5, _, h7⟩ := markLoop_props e i.nodes i i1 hml
      simp only at h
      split at h
      · cases h
      · rename_i hfew
        split at h
        · cases h
        · -- the add block
          have halive : i1.removing ≠ [] → (i.nodes.filter e.alive).length > i.replica / 2 := by
            intro hne
            have := (aliveTooFew_iff i1.removing.length (i.nodes.filter e.alive).length i.replica)
            rcases Nat.lt_or_ge (i.replica / 2) (i.nodes.filter e.alive).length with hlt | hge
            · exact hlt
            · exfalso; apply hfew; apply this.mpr
              refine ⟨?_, hge⟩
              rcases Nat.eq_zero_or_pos i1.removing.length with h0 | h0
              · exact absurd (length_eq_zero_iff.mp h0) hne
              · exact h0
          have onlyMark : ∀ c, (migrateFinish e i1 c).write = some w → c = decide (i1.removing ≠ i.removing) →
              isrQuorum w = true ∧ w.removing.length ≤ 1 ∧ w.replica = i.replica ∧
              (w.nodes = i.nodes ∧ w.ids = i.ids ∧ w.maxId = i.maxId ∧ w.issued = i.issued ∧ w.removing ≠ []) ∧
              (w.removing ≠ [] → (i.nodes.filter e.alive).length > i.replica / 2) := by
            intro c hc hcd
            obtain ⟨a1, a2, a3, a4⟩ := migrateFinish_write hc
            subst a1
            refine ⟨a3, a4, h4, ⟨h1, h2, h3, h5, ?_⟩, halive⟩
            rw [hcd] at a2
            simp only [decide_eq_true_eq] at a2
            intro hnil; apply a2; rw [hnil, hrem0]
          unfold migrateAdd at h
          simp only at h
          split at h
          · rename_i hgate
            simp only [Bool.and_eq_true] at hgate
            obtain ⟨hg1, hg2⟩ := (addGate_iff _ _).mp hgate.1
            have hrem1 : i1.removing = [] := length_eq_zero_iff.mp hg1
            have hi1 : i1 = i := by
              cases i; cases i1; simp_all
            split at h
            · rename_i n hal
              obtain ⟨a1, _, a3, a4⟩ := migrateFinish_write h
              subst hi1
              have hn := alloc_some hal
              obtain ⟨f1, f2, f3, f4, _, _⟩ := addNew_fields i1 n Gen.raftIdStepMigrate step_migrate
              refine ⟨hrem0, by rw [a1]; exact a3, by rw [a1]; exact a4, by rw [a1, f4], Or.inr ⟨n, hn, a1, hg2, ?_⟩, ?_⟩
              · simpa [Gen.needAdd] using hgate.2
              · intro hne; rw [a1, f3, hrem0] at hne; exact absurd rfl hne
            · obtain ⟨b1, b2, b3, b4, b5⟩ := onlyMark _ h rfl
              exact ⟨hrem0, b1, b2, b3, Or.inl b4, b5⟩
            · obtain ⟨b1, b2, b3, b4, b5⟩ := onlyMark _ h rfl
              exact ⟨hrem0, b1, b2, b3, Or.inl b4, b5⟩
            · cases h
            · cases h
          · obtain ⟨b1, b2, b3, b4, b5⟩ := onlyMark _ h rfl
            exact ⟨hrem0, b1, b2, b3, Or.inl b4, b5⟩

theorem inv_migrate {e : Env} {i w : Info} (inv : Inv i) (h : (migrate e i).write = some w) : Inv w := by
  obtain ⟨h0, hq, hl, _, hcase, _⟩ := migrate_write h
  rcases hcase with ⟨a1, a2, a3, a4, _⟩ | ⟨n, hn, rfl, _, _⟩
  · exact inv_base inv a1 a2 a3 a4 hl hq
  · exact inv_addNew inv n _ step_migrate h0 hn

/-! ### addNamespaceToNode, removeNamespaceFromNode -/

theorem addNode_write {e : Env} {i w : Info} {n : Nat} (h : (addNode e i n).write = some w) :
    i.removing = [] ∧ n ∉ i.nodes ∧ w = addNew i n Gen.raftIdStepAdd := by
  unfold addNode at h
  split at h
  · cases h
  · rename_i hbusy
    split at h
    · cases h
    · rename_i hc
      simp only [commit, Option.some.injEq] at h
      refine ⟨?_, by simpa using hc, h.symm⟩
      have := (busy_iff i.removing.length).2.1
      rcases Nat.eq_zero_or_pos i.removing.length with h0 | h0
      · exact length_eq_zero_iff.mp h0
      · exact absurd (this.mpr h0) hbusy

theorem inv_addNode {e : Env} {i w : Info} {n : Nat} (inv : Inv i) (h : (addNode e i n).write = some w) : Inv w := by
  obtain ⟨h0, hn, rfl⟩ := addNode_write h
  exact inv_addNew inv n _ step_add h0 hn

theorem removeNode_write {e : Env} {i w : Info} {n : Nat} (h : (removeNode e i n).write = some w) :
    i.removing = [] ∧ w = { i with removing := [n] } ∧ isrQuorum w = true := by
  unfold removeNode at h
  split at h
  · cases h
  · split at h
    · cases h
    · split at h
      · cases h
      · split at h
        · cases h
        · rename_i hbusy
          simp only at h
          have hrem0 : i.removing = [] := by
            have := (busy_iff i.removing.length).2.2.1
            rcases Nat.eq_zero_or_pos i.removing.length with h0 | h0
            · exact length_eq_zero_iff.mp h0
            · exact absurd (this.mpr h0) hbusy
          split at h
          · cases h
          · rename_i hpost
            simp only [commit, Option.some.injEq] at h
            subst h
            refine ⟨hrem0, by rw [hrem0], ?_⟩
            cases hq : isrQuorum { i with removing := n :: i.removing } with
            | true => rfl
            | false => simp [Gen.removePost, hq] at hpost

theorem inv_removeNode {e : Env} {i w : Info} {n : Nat} (inv : Inv i) (h : (removeNode e i n).write = some w) : Inv w := by
  obtain ⟨_, rfl, hq⟩ := removeNode_write h
  exact inv_base inv rfl rfl rfl rfl (by simp) hq

/-! ### removeNamespaceFromRemovings -/

/-- what the loop keeps: everything only shrinks -/
structure Shrunk (i j : Info) : Prop where
  nodes : j.nodes <+ i.nodes
  ids : ∀ x ∈ j.ids, x ∈ i.ids
  removing : j.removing.length ≤ i.removing.length
  maxId : j.maxId = i.maxId
  issued : j.issued = i.issued
  replica : j.replica = i.replica

theorem Shrunk.refl (i : Info) : Shrunk i i := ⟨Sublist.refl _, fun _ h => h, Nat.le_refl _, rfl, rfl, rfl⟩

theorem Shrunk.trans {a b c : Info} (h1 : Shrunk a b) (h2 : Shrunk b c) : Shrunk a c :=
  ⟨h2.nodes.trans h1.nodes, fun x hx => h1.ids x (h2.ids x hx), Nat.le_trans h2.removing h1.removing,
    h2.maxId.trans h1.maxId, h2.issued.trans h1.issued, h2.replica.trans h1.replica⟩

theorem finishOne_shrunk {e : Env} {i j : Info} {n : Nat} (h : finishOne e i n = some j) : Shrunk i j := by
  unfold finishOne at h
  repeat (split at h; · cases h)
  simp only at h
  split at h
  · cases h
  · injection h with h; subst h
    exact ⟨filter_sublist, fun x hx => (mem_filter.mp hx).1, length_filter_le _ _, rfl, rfl, rfl⟩

theorem finishLoop_shrunk (e : Env) : ∀ (l : List Nat) (i : Info), Shrunk i (finishLoop e i l).1 := by
  intro l
  induction l with
  | nil => intro i; exact Shrunk.refl i
  | cons n rest ih =>
    intro i
    simp only [finishLoop]
    split
    · rename_i i' hf
      exact (finishOne_shrunk hf).trans (ih i')
    · exact ih i

theorem inv_shrunk {i j : Info} (inv : Inv i) (s : Shrunk i j) (hq : isrQuorum j = true) : Inv j := by
  refine ⟨Nat.le_trans s.removing inv.oneRemoving, (isrQuorum_iff j).mp hq, inv.nodesNodup.sublist s.nodes, ?_, ?_, ?_, ?_⟩
  · intro x hx; rw [s.maxId]; exact inv.idsBound x (s.ids x hx)
  · rw [s.issued, s.maxId]; exact inv.issuedBound
  · intro x hx; rw [s.issued]; exact inv.idsIssued x (s.ids x hx)
  · rw [s.issued]; exact inv.issuedNodup

theorem finish_write {e : Env} {i w : Info} (h : (finishRemoving e i).write = some w) :
    Shrunk i w ∧ isrQuorum w = true := by
  unfold finishRemoving at h
  simp only at h
  split at h
  · rename_i hw
    simp only [Option.some.injEq] at h
    subst h
    simp only [Gen.finishWrites, Bool.and_eq_true] at hw
    exact ⟨finishLoop_shrunk e _ i, hw.2⟩
  · cases h

theorem inv_finish {e : Env} {i w : Info} (inv : Inv i) (h : (finishRemoving e i).write = some w) : Inv w := by
  obtain ⟨s, hq⟩ := finish_write h
  exact inv_shrunk inv s hq

/-! ### rebalanceNamespace -/

theorem swapHead_perm : ∀ (l : List Nat) (x : Nat), l.Nodup → swapHead l x ~ l := by
  intro l x hnd
  cases l with
  | nil => exact Perm.refl _
  | cons h t =>
    simp only [swapHead]
    have hht : h ∉ t := (nodup_cons.mp hnd).1
    have htn : t.Nodup := (nodup_cons.mp hnd).2
    split
    · rename_i hx
      -- x :: t[x := h]  ~  h :: t
      have key : ∀ (t : List Nat), t.Nodup → x ∈ t → h ∉ t → x :: t.map (fun y => if y = x then h else y) ~ h :: t := by
        intro t
        induction t with
        | nil => intro _ hx; cases hx
        | cons a t ih =>
          intro hnd hx hh
          have hat : a ∉ t := (nodup_cons.mp hnd).1
          by_cases hax : a = x
          · subst hax
            have : t.map (fun y => if y = a then h else y) = t := by
              rw [map_congr_left (g := id)]
              · simp
              · intro y hy
                have : y ≠ a := fun e => hat (e ▸ hy)
                simp [this]
            simp only [map_cons, ↓reduceIte, this]
            exact Perm.swap _ _ _
          · have hxt : x ∈ t := by
              rcases mem_cons.mp hx with h1 | h1
              · exact absurd h1.symm hax
              · exact h1
            simp only [map_cons, hax, ↓reduceIte]
            have := ih (nodup_cons.mp hnd).2 hxt (fun h1 => hh (mem_cons_of_mem _ h1))
            exact (Perm.swap _ _ _).trans ((this.cons a).trans (Perm.swap _ _ _))
      exact key t htn hx hht
    · exact Perm.refl _

/-- the three kinds of write of one balance call -/
theorem balance_write {e : Env} {i w : Info} (h : (balance e i).write = some w) :
    i.removing = [] ∧ allReady e i = true ∧
    ((∃ c, (addNode e i c).write = some w) ∨ (∃ n, (removeNode e i n).write = some w) ∨
     (∃ x, w = { i with nodes := swapHead i.nodes x })) := by
  unfold balance at h
  split at h
  · cases h
  · rename_i hr
    have hrem : i.removing = [] := by simpa using hr
    split at h
    · cases h
    · rename_i hg
      have hready : allReady e i = true := by
        simp only [Gen.balanceReadyGate, Bool.true_and, Bool.not_eq_true] at hg
        simpa using hg
      refine ⟨hrem, hready, ?_⟩
      split at h
      · cases h
      · cases h
      · cases h
      · split at h
        · split at h
          · split at h
            · cases h
            · rename_i c _
              first
                | exact Or.inl ⟨c, h⟩
                | (split at h
                   · exact Or.inl ⟨c, h⟩
                   · cases h)
          · rename_i nid _ _ _
            exact Or.inr (Or.inl ⟨nid, h⟩)
        · split at h
          · rename_i want cur _ _
            split at h
            · simp only [Option.some.injEq] at h
              exact Or.inr (Or.inr ⟨want, h.symm⟩)
            · cases h
          · cases h

theorem inv_swap {i : Info} (inv : Inv i) (hrem : i.removing = []) (x : Nat) :
    Inv { i with nodes := swapHead i.nodes x } := by
  have hp := swapHead_perm i.nodes x inv.nodesNodup
  refine ⟨inv.oneRemoving, ?_, hp.nodup_iff.mpr inv.nodesNodup, inv.idsBound, inv.issuedBound, inv.idsIssued, inv.issuedNodup⟩
  have := inv.quorum
  rw [isr_nil hrem] at this
  rw [isr_nil (i := { i with nodes := swapHead i.nodes x }) hrem]
  simp only
  rw [hp.length_eq]; exact this

theorem inv_balance {e : Env} {i w : Info} (inv : Inv i) (h : (balance e i).write = some w) : Inv w := by
  obtain ⟨hrem, _, hc | hc | hc⟩ := balance_write h
  · obtain ⟨c, hc⟩ := hc; exact inv_addNode inv hc
  · obtain ⟨n, hn⟩ := hc; exact inv_removeNode inv hn
  · obtain ⟨x, rfl⟩ := hc; exact inv_swap inv hrem x

/-! ### every decision, every sequence -/

theorem inv_act {e : Env} {i w : Info} (a : Act) (inv : Inv i) (h : (act e i a).write = some w) : Inv w := by
  cases a with
  | migrate => exact inv_migrate inv h
  | add n => exact inv_addNode inv h
  | remove n => exact inv_removeNode inv h
  | finish => exact inv_finish inv h
  | balance => exact inv_balance inv h

theorem inv_after {e : Env} {i : Info} (a : Act) (inv : Inv i) : Inv (after e i (act e i a)) := by
  unfold after
  split
  · rename_i w hw
    split
    · exact inv_act a inv hw
    · exact inv
  · exact inv

/-- **the invariant for every sequence of environments and decisions**: every info handed to the register
    (committed or not) and the register itself stay valid -/
theorem inv_run : ∀ (steps : List (Env × Act)) (i : Info), Inv i →
    (∀ w ∈ (run i steps).1, Inv w) ∧ Inv (run i steps).2 := by
  intro steps
  induction steps with
  | nil => intro i inv; exact ⟨(fun w h => by cases h), inv⟩
  | cons s rest ih =>
    intro i inv
    obtain ⟨e, a⟩ := s
    simp only [run]
    obtain ⟨ih1, ih2⟩ := ih _ (inv_after (e := e) a inv)
    refine ⟨?_, ih2⟩
    intro w hw
    cases hd : (act e i a).write with
    | none => rw [hd] at hw; exact ih1 w hw
    | some w0 =>
      rw [hd] at hw
      rcases mem_cons.mp hw with rfl | hw
      · exact inv_act a inv hd
      · exact ih1 w hw

end Z.Coord
