/-
  C17 — lemmas about the executable model of `fillPartitionMapV2` (`Place.Model`): every answer has
  exactly `replica` pairwise different live names per partition, for every old layout whose lists are
  duplicate-free (any length). Invariant: every listed name has the pid in its replica list
  (`newNodesReplicaMap`) — the one-sided form of the prototype's `sync`, which also holds for old lists
  longer than `replica` (their extra members are counted by `addOld` but are neither reused nor
  excluded: the fill loop works on `oldlist.take replica`, so an extra member that is picked as a
  replacement has the pid twice in its replica list — `Has` does not care). The least-loaded picks are
  used only through "the pick is one of the candidates", so nothing here depends on the comparators.
-/
import ZanVerif.Place.Model

namespace Z.Place
open Z.PlaceV2 (replaceFirst swapLeader length_replaceFirst mem_replaceFirst nodup_replaceFirst swapLeader_props)
open List

set_option linter.unusedSectionVars false
variable {α : Type} [DecidableEq α]

/-! ### min / max pick one of the candidates -/

theorem foldl_sel_mem {β : Type} (c : β → β → Bool) : ∀ (t : List β) (a : β),
    t.foldl (fun m x => if c x m then x else m) a ∈ a :: t := by
  intro t
  induction t with
  | nil => intro a; simp
  | cons b t ih =>
    intro a
    simp only [foldl_cons]
    have := ih (if c b a then b else a)
    rcases mem_cons.mp this with h | h
    · rw [h]; split
      · exact mem_cons_of_mem _ mem_cons_self
      · exact mem_cons_self
    · exact mem_cons_of_mem _ (mem_cons_of_mem _ h)

theorem minBy_mem {β : Type} {lt : β → β → Bool} {l : List β} {m : β} (h : minBy lt l = some m) : m ∈ l := by
  cases l with
  | nil => cases h
  | cons a t =>
    simp only [minBy, Option.some.injEq] at h
    rw [← h]; exact foldl_sel_mem _ t a

theorem maxBy_mem {β : Type} {lt : β → β → Bool} {l : List β} {m : β} (h : maxBy lt l = some m) : m ∈ l := by
  cases l with
  | nil => cases h
  | cons a t =>
    simp only [maxBy, Option.some.injEq] at h
    rw [← h]; exact foldl_sel_mem (fun x m => lt m x) t a

theorem minBy_isSome {β : Type} {lt : β → β → Bool} {l : List β} (h : l ≠ []) : ∃ m, minBy lt l = some m := by
  cases l with
  | nil => exact absurd rfl h
  | cons a t => exact ⟨_, rfl⟩

theorem maxBy_isSome {β : Type} {lt : β → β → Bool} {l : List β} (h : l ≠ []) : ∃ m, maxBy lt l = some m := by
  cases l with
  | nil => exact absurd rfl h
  | cons a t => exact ⟨_, rfl⟩

/-! ### the fused maps -/

/-- `pid ∈ newNodesReplicaMap[x]` -/
def Has (items : List (Item α)) (x : α) (pid : Nat) : Prop := ∃ it ∈ items, it.name = x ∧ pid ∈ it.rp

/-- same keys, replica lists only grow -/
def Grows (items items' : List (Item α)) : Prop :=
  items'.map (·.name) = items.map (·.name) ∧
  ∀ it ∈ items, ∃ it' ∈ items', it'.name = it.name ∧ ∀ p ∈ it.rp, p ∈ it'.rp

theorem Grows.refl (items : List (Item α)) : Grows items items :=
  ⟨rfl, fun it h => ⟨it, h, rfl, fun _ hp => hp⟩⟩

theorem Grows.trans {a b c : List (Item α)} (h1 : Grows a b) (h2 : Grows b c) : Grows a c := by
  refine ⟨h2.1.trans h1.1, ?_⟩
  intro it hit
  obtain ⟨it', hit', hn', hp'⟩ := h1.2 it hit
  obtain ⟨it'', hit'', hn'', hp''⟩ := h2.2 it' hit'
  exact ⟨it'', hit'', hn''.trans hn', fun p hp => hp'' p (hp' p hp)⟩

theorem Has.mono {items items' : List (Item α)} {x : α} {pid : Nat} (g : Grows items items')
    (h : Has items x pid) : Has items' x pid := by
  obtain ⟨it, hit, hn, hp⟩ := h
  obtain ⟨it', hit', hn', hp'⟩ := g.2 it hit
  exact ⟨it', hit', hn'.trans hn, hp' _ hp⟩

theorem names_updItem (items : List (Item α)) (nm : α) (f : Item α → Item α)
    (hf : ∀ it, (f it).name = it.name) : (updItem items nm f).map (·.name) = items.map (·.name) := by
  unfold updItem
  rw [map_map]
  apply map_congr_left
  intro it _
  simp only [Function.comp]
  split
  · exact hf it
  · rfl

theorem mem_updItem_of_mem {items : List (Item α)} {it : Item α} (nm : α) (f : Item α → Item α)
    (h : it ∈ items) : (if it.name = nm then f it else it) ∈ updItem items nm f :=
  mem_map.mpr ⟨it, h, rfl⟩

/-- with pairwise different keys an entry is determined by its key -/
theorem item_unique : ∀ {items : List (Item α)}, (items.map (·.name)).Nodup →
    ∀ {a b : Item α}, a ∈ items → b ∈ items → a.name = b.name → a = b := by
  intro items
  induction items with
  | nil => intro _ a b h; cases h
  | cons c t ih =>
    intro hnd a b ha hb hab
    simp only [map_cons, nodup_cons] at hnd
    rcases mem_cons.mp ha with ha | ha <;> rcases mem_cons.mp hb with hb | hb
    · rw [ha, hb]
    · exfalso; apply hnd.1; rw [← ha, hab]; exact mem_map.mpr ⟨b, hb, rfl⟩
    · exfalso; apply hnd.1; rw [← hb, ← hab]; exact mem_map.mpr ⟨a, ha, rfl⟩
    · exact ih hnd.2 ha hb hab

theorem hasName_iff (items : List (Item α)) (x : α) : hasName items x = true ↔ x ∈ items.map (·.name) := by
  simp only [hasName, any_eq_true, decide_eq_true_eq, mem_map]

/-- an update that appends to the replica list of one entry (given as a snapshot `m` of that entry) -/
theorem grows_updItem_snapshot {items : List (Item α)} (hnd : (items.map (·.name)).Nodup) {m : Item α}
    (hm : m ∈ items) (f : Item α → Item α) (hname : ∀ it, (f it).name = it.name)
    (hrp : ∀ p ∈ m.rp, p ∈ (f m).rp) : Grows items (updItem items m.name f) := by
  refine ⟨names_updItem _ _ _ hname, ?_⟩
  intro it hit
  refine ⟨_, mem_updItem_of_mem m.name f hit, ?_, ?_⟩
  · split
    · exact hname it
    · rfl
  · intro p hp
    split
    · rename_i e
      have := item_unique hnd hit hm e
      subst this
      exact hrp p hp
    · exact hp

theorem mkItems_names (sel n : Nat) : ∀ (i : Nat) (l : List α), (mkItems sel n i l).map (·.name) = l := by
  intro i l
  induction l generalizing i with
  | nil => rfl
  | cons a t ih => simp [mkItems, ih]

/-! ### the initial load count -/

theorem addOldList_spec (pid : Nat) : ∀ (l : List α) (items : List (Item α)) (i : Nat),
    Grows items (addOldList pid items i l) ∧
    ∀ x ∈ l, x ∈ items.map (·.name) → Has (addOldList pid items i l) x pid := by
  intro l
  induction l with
  | nil => intro items i; exact ⟨Grows.refl _, fun x h => by cases h⟩
  | cons a t ih =>
    intro items i
    simp only [addOldList]
    let f : Item α → Item α := fun it => { it with lp := if i = 0 then it.lp ++ [pid] else it.lp, rp := it.rp ++ [pid] }
    have hg : Grows items (updItem items a f) := by
      refine ⟨names_updItem _ _ _ (fun _ => rfl), ?_⟩
      intro it hit
      refine ⟨_, mem_updItem_of_mem a f hit, ?_, ?_⟩
      · split <;> rfl
      · intro p hp
        split
        · exact mem_append_left _ hp
        · exact hp
    obtain ⟨g2, h2⟩ := ih (updItem items a f) (i + 1)
    refine ⟨hg.trans g2, ?_⟩
    intro x hx hxn
    rcases mem_cons.mp hx with rfl | hx
    · apply Has.mono g2
      obtain ⟨it, hit, hn⟩ := mem_map.mp hxn
      refine ⟨_, mem_updItem_of_mem x f hit, ?_, ?_⟩
      · rw [if_pos hn]; exact hn
      · rw [if_pos hn]; exact mem_append_right _ (mem_singleton.mpr rfl)
    · exact h2 x hx (by rw [hg.1]; exact hxn)

theorem addOld_spec : ∀ (olds : List (List α)) (items : List (Item α)) (p0 : Nat),
    Grows items (addOld items p0 olds) ∧
    ∀ q ol, olds[q]? = some ol → ∀ x ∈ ol, x ∈ items.map (·.name) → Has (addOld items p0 olds) x (p0 + q) := by
  intro olds
  induction olds with
  | nil => intro items p0; exact ⟨Grows.refl _, fun q ol h => by simp at h⟩
  | cons ol t ih =>
    intro items p0
    simp only [addOld]
    obtain ⟨g1, h1⟩ := addOldList_spec p0 ol items 0
    obtain ⟨g2, h2⟩ := ih (addOldList p0 items 0 ol) (p0 + 1)
    refine ⟨g1.trans g2, ?_⟩
    intro q ol' hq x hx hxn
    cases q with
    | zero =>
      simp only [getElem?_cons_zero, Option.some.injEq] at hq
      subst hq
      exact Has.mono g2 (h1 x hx hxn)
    | succ q =>
      simp only [getElem?_cons_succ] at hq
      have := h2 q ol' hq x hx (by rw [g1.1]; exact hxn)
      have e : p0 + 1 + q = p0 + (q + 1) := by omega
      rw [e] at this; exact this

/-! ### one partition of the fill loop -/

theorem reuseOld_some {oldlist : List α} {j : Nat} {items : List (Item α)} {o : α}
    (h : reuseOld oldlist j items = some o) : oldlist[j]? = some o ∧ o ∈ items.map (·.name) := by
  unfold reuseOld at h
  split at h
  · rename_i o' ho
    split at h
    · rename_i hn
      injection h with h; subst h
      exact ⟨ho, (hasName_iff _ _).mp hn⟩
    · cases h
  · cases h

theorem pickCand_some {j : Nat} {items : List (Item α)} {excl : List α} {m : Item α}
    (h : pickCand j items excl = some m) : m ∈ items ∧ m.name ∉ excl := by
  unfold pickCand at h
  have hm : m ∈ items.filter (fun it => !excl.contains it.name) := by
    split at h
    · exact minBy_mem h
    · exact minBy_mem h
  rw [mem_filter] at hm
  exact ⟨hm.1, by simpa using hm.2⟩

theorem bump_grows {items : List (Item α)} (hnd : (items.map (·.name)).Nodup) {m : Item α} (hm : m ∈ items)
    (pid j : Nat) : Grows items (bump pid j m items) ∧ Has (bump pid j m items) m.name pid := by
  unfold bump
  constructor
  · exact grows_updItem_snapshot hnd hm
      (fun it => { it with lp := if j = 0 then m.lp ++ [pid] else it.lp, rp := m.rp ++ [pid] })
      (fun _ => rfl) (fun p hp => mem_append_left _ hp)
  · refine ⟨_, mem_updItem_of_mem m.name _ hm, ?_, ?_⟩
    · rw [if_pos rfl]
    · rw [if_pos rfl]; exact mem_append_right _ (mem_singleton.mpr rfl)

structure RInv (nm : List α) (pid : Nat) (oldlist : List α) (j : Nat) (items : List (Item α))
    (acc excl : List α) : Prop where
  names : items.map (·.name) = nm
  nodup : acc.Nodup
  live : ∀ x ∈ acc, x ∈ nm
  accExcl : ∀ x ∈ acc, x ∈ excl
  oldExcl : ∀ x ∈ oldlist, x ∈ excl
  accOld : ∀ x ∈ acc, x ∈ oldlist → x ∈ oldlist.take j
  len : acc.length = j
  accHas : ∀ x ∈ acc, Has items x pid
  oldHas : ∀ x ∈ oldlist, x ∈ nm → Has items x pid

theorem nodup_snoc {l : List α} {a : α} (h : l.Nodup) (ha : a ∉ l) : (l ++ [a]).Nodup := by
  refine nodup_append.mpr ⟨h, by simp, ?_⟩
  intro x hx y hy hxy
  simp only [mem_singleton] at hy
  subst hy; subst hxy; exact ha hx

/-- whenever the loop for one partition answers: `replica` names, pairwise different, all live, each with
    the pid in its replica list; the maps only grew -/
theorem fillRow_spec (nm : List α) (hnm : nm.Nodup) (pid : Nat) (oldlist : List α) (hold : oldlist.Nodup) :
    ∀ (r j : Nat) (items : List (Item α)) (acc excl : List α) (items' : List (Item α)) (row : List α),
      RInv nm pid oldlist j items acc excl →
      fillRow pid oldlist r j items acc excl = .ok (items', row) →
      row.Nodup ∧ row.length = j + r ∧ (∀ x ∈ row, x ∈ nm) ∧ (∀ x ∈ row, Has items' x pid) ∧ Grows items items' := by
  intro r
  induction r with
  | zero =>
    intro j items acc excl items' row inv h
    simp only [fillRow, Outcome.ok.injEq, Prod.mk.injEq] at h
    obtain ⟨h1, h2⟩ := h
    subst h1; subst h2
    exact ⟨inv.nodup, by rw [inv.len]; rfl, inv.live, inv.accHas, Grows.refl _⟩
  | succ r ih =>
    intro j items acc excl items' row inv h
    simp only [fillRow] at h
    cases hr : reuseOld oldlist j items with
    | some o =>
      rw [hr] at h
      simp only at h
      obtain ⟨ho, hon⟩ := reuseOld_some hr
      have hmo : o ∈ oldlist := mem_of_getElem? ho
      have hoa : o ∉ acc := fun hm => Z.PlaceV2.getElem_not_mem_take hold ho (inv.accOld o hm hmo)
      have inv' : RInv nm pid oldlist (j + 1) items (acc ++ [o]) excl := by
        refine ⟨inv.names, nodup_snoc inv.nodup hoa, ?_, ?_, inv.oldExcl, ?_, by simp [inv.len], ?_, inv.oldHas⟩
        · intro x hx; rcases mem_append.mp hx with hx | hx
          · exact inv.live x hx
          · simp only [mem_singleton] at hx; subst hx; rw [← inv.names]; exact hon
        · intro x hx; rcases mem_append.mp hx with hx | hx
          · exact inv.accExcl x hx
          · simp only [mem_singleton] at hx; subst hx; exact inv.oldExcl x hmo
        · intro x hx hxo; rcases mem_append.mp hx with hx | hx
          · rw [take_add_one]; exact mem_append_left _ (inv.accOld x hx hxo)
          · simp only [mem_singleton] at hx; subst hx
            rw [take_add_one, ho]; simp
        · intro x hx; rcases mem_append.mp hx with hx | hx
          · exact inv.accHas x hx
          · simp only [mem_singleton] at hx; subst hx
            exact inv.oldHas x hmo (by rw [← inv.names]; exact hon)
      obtain ⟨a, b, c, d, e⟩ := ih (j + 1) items (acc ++ [o]) excl items' row inv' h
      exact ⟨a, by rw [b]; omega, c, d, e⟩
    | none =>
      rw [hr] at h
      simp only at h
      cases hp : pickCand j items excl with
      | none => rw [hp] at h; cases h
      | some m =>
        rw [hp] at h
        simp only at h
        obtain ⟨hmi, hme⟩ := pickCand_some hp
        have hndi : (items.map (·.name)).Nodup := by rw [inv.names]; exact hnm
        obtain ⟨hg, hhas⟩ := bump_grows hndi hmi pid j
        have hma : m.name ∉ acc := fun hm => hme (inv.accExcl _ hm)
        have hmo : m.name ∉ oldlist := fun hm => hme (inv.oldExcl _ hm)
        have inv' : RInv nm pid oldlist (j + 1) (bump pid j m items) (acc ++ [m.name]) (excl ++ [m.name]) := by
          refine ⟨hg.1.trans inv.names, nodup_snoc inv.nodup hma, ?_, ?_, ?_, ?_, by simp [inv.len], ?_, ?_⟩
          · intro x hx; rcases mem_append.mp hx with hx | hx
            · exact inv.live x hx
            · simp only [mem_singleton] at hx; subst hx; rw [← inv.names]; exact mem_map.mpr ⟨m, hmi, rfl⟩
          · intro x hx; rcases mem_append.mp hx with hx | hx
            · exact mem_append_left _ (inv.accExcl x hx)
            · exact mem_append_right _ hx
          · intro x hx; exact mem_append_left _ (inv.oldExcl x hx)
          · intro x hx hxo; rcases mem_append.mp hx with hx | hx
            · rw [take_add_one]; exact mem_append_left _ (inv.accOld x hx hxo)
            · simp only [mem_singleton] at hx; subst hx; exact absurd hxo hmo
          · intro x hx; rcases mem_append.mp hx with hx | hx
            · exact Has.mono hg (inv.accHas x hx)
            · simp only [mem_singleton] at hx; subst hx; exact hhas
          · intro x hx hxn; exact Has.mono hg (inv.oldHas x hx hxn)
        obtain ⟨a, b, c, d, e⟩ := ih (j + 1) _ _ _ items' row inv' h
        exact ⟨a, by rw [b]; omega, c, d, hg.trans e⟩

/-! ### all partitions -/

/-- the invariant of the layout under construction / under balancing -/
structure J (nm : List α) (replica : Nat) (s : V2St α) : Prop where
  names : s.items.map (·.name) = nm
  rowsNodup : ∀ row ∈ s.rows, row.Nodup
  rowsLen : ∀ row ∈ s.rows, row.length = replica
  rowsLive : ∀ row ∈ s.rows, ∀ x ∈ row, x ∈ nm
  sync : ∀ pid row, s.rows[pid]? = some row → ∀ x ∈ row, Has s.items x pid

theorem getD_nodup {old : List (List α)} (hold : ∀ ol ∈ old, ol.Nodup) (pid : Nat) : (old.getD pid []).Nodup := by
  rw [getD_eq_getElem?_getD]
  cases h : old[pid]? with
  | none => simp
  | some ol => exact hold ol (mem_of_getElem? h)

theorem fillAll_spec (nm : List α) (hnm : nm.Nodup) (replica : Nat) (old : List (List α))
    (hold : ∀ ol ∈ old, ol.Nodup) :
    ∀ (k pid : Nat) (items : List (Item α)) (rows : List (List α)) (st : V2St α),
      J nm replica ⟨items, rows⟩ → rows.length = pid →
      (∀ p, pid ≤ p → ∀ x ∈ old.getD p [], x ∈ nm → Has items x p) →
      fillAll replica old k pid items rows = .ok st →
      J nm replica st ∧ st.rows.length = pid + k := by
  intro k
  induction k with
  | zero =>
    intro pid items rows st inv hl _ h
    simp only [fillAll, Outcome.ok.injEq] at h
    subst h
    exact ⟨inv, hl⟩
  | succ k ih =>
    intro pid items rows st inv hl hfut h
    simp only [fillAll] at h
    cases hrow : fillRow pid ((old.getD pid []).take replica) replica 0 items [] ((old.getD pid []).take replica) with
    | refused => rw [hrow] at h; cases h
    | panicEmpty => rw [hrow] at h; cases h
    | panicIndex => rw [hrow] at h; cases h
    | ok v =>
      obtain ⟨items', row⟩ := v
      rw [hrow] at h
      simp only at h
      -- the loop sees (reuses, excludes) only the first `replica` names of the old list
      have rinv : RInv nm pid ((old.getD pid []).take replica) 0 items [] ((old.getD pid []).take replica) :=
        ⟨inv.names, nodup_nil, (fun _ hx => by cases hx), (fun _ hx => by cases hx), (fun _ hx => hx),
          (fun _ hx => by cases hx), rfl, (fun _ hx => by cases hx),
          (fun x hx hxn => hfut pid (Nat.le_refl _) x (mem_of_mem_take hx) hxn)⟩
      obtain ⟨r1, r2, r3, r4, r5⟩ :=
        fillRow_spec nm hnm pid _ ((getD_nodup hold pid).sublist (take_sublist _ _)) replica 0 items [] _ items' row
          rinv hrow
      have inv' : J nm replica ⟨items', rows ++ [row]⟩ := by
        refine ⟨r5.1.trans inv.names, ?_, ?_, ?_, ?_⟩
        · intro x hx; rcases mem_append.mp hx with hx | hx
          · exact inv.rowsNodup x hx
          · simp only [mem_singleton] at hx; subst hx; exact r1
        · intro x hx; rcases mem_append.mp hx with hx | hx
          · exact inv.rowsLen x hx
          · simp only [mem_singleton] at hx; subst hx; rw [r2]; omega
        · intro x hx; rcases mem_append.mp hx with hx | hx
          · exact inv.rowsLive x hx
          · simp only [mem_singleton] at hx; subst hx; exact r3
        · intro p rw' hp x hx
          simp only at hp
          by_cases hlt : p < rows.length
          · rw [getElem?_append_left hlt] at hp
            exact Has.mono r5 (inv.sync p rw' hp x hx)
          · rw [getElem?_append_right (by omega)] at hp
            have hp0 : p - rows.length = 0 := by
              rcases Nat.eq_zero_or_pos (p - rows.length) with h0 | h0
              · exact h0
              · rw [getElem?_eq_none (by simp; omega)] at hp; cases hp
            rw [hp0] at hp
            simp only [getElem?_cons_zero, Option.some.injEq] at hp
            subst hp
            have : p = pid := by omega
            subst this
            exact r4 x hx
      obtain ⟨a, b⟩ := ih (pid + 1) items' (rows ++ [row]) st inv' (by simp [hl])
        (fun p hp x hx hxn => Has.mono r5 (hfut p (by omega) x hx hxn)) h
      exact ⟨a, by rw [b]; omega⟩

/-! ### the balancing moves -/

theorem mem_replaceFirst_nodup {o n x : α} : ∀ {l : List α}, l.Nodup → x ∈ replaceFirst o n l →
    x = n ∨ (x ∈ l ∧ x ≠ o) := by
  intro l
  induction l with
  | nil => intro _ h; cases h
  | cons y t ih =>
    intro hnd h
    have hyt : y ∉ t := (nodup_cons.mp hnd).1
    simp only [replaceFirst] at h
    split at h
    · rename_i hy
      rcases mem_cons.mp h with h | h
      · exact Or.inl h
      · refine Or.inr ⟨mem_cons_of_mem _ h, ?_⟩
        intro e; subst e; subst hy; exact hyt h
    · rename_i hy
      rcases mem_cons.mp h with h | h
      · exact Or.inr ⟨h ▸ mem_cons_self, h ▸ hy⟩
      · rcases ih (nodup_cons.mp hnd).2 h with h | ⟨h1, h2⟩
        · exact Or.inl h
        · exact Or.inr ⟨mem_cons_of_mem _ h1, h2⟩

/-- replacing one partition's list and the maps, given what the caller shows about the new list -/
theorem J_set {nm : List α} {replica : Nat} {s : V2St α} (inv : J nm replica s) (pid : Nat) (row' : List α)
    (items' : List (Item α)) (hnames : items'.map (·.name) = s.items.map (·.name))
    (hkeep : ∀ x p, p ≠ pid → Has s.items x p → Has items' x p)
    (hnd : row'.Nodup) (hlen : row'.length = replica) (hlive : ∀ x ∈ row', x ∈ nm)
    (hsync : ∀ x ∈ row', Has items' x pid) : J nm replica ⟨items', s.rows.set pid row'⟩ := by
  refine ⟨hnames.trans inv.names, ?_, ?_, ?_, ?_⟩
  · intro r hr
    rcases mem_or_eq_of_mem_set hr with h | h
    · exact inv.rowsNodup r h
    · rw [h]; exact hnd
  · intro r hr
    rcases mem_or_eq_of_mem_set hr with h | h
    · exact inv.rowsLen r h
    · rw [h]; exact hlen
  · intro r hr
    rcases mem_or_eq_of_mem_set hr with h | h
    · exact inv.rowsLive r h
    · rw [h]; exact hlive
  · intro p r hp x hx
    simp only [getElem?_set] at hp
    by_cases hpp : pid = p
    · subst hpp
      rw [if_pos rfl] at hp
      split at hp
      · injection hp with hp; subst hp; exact hsync x hx
      · cases hp
    · rw [if_neg hpp] at hp
      exact hkeep x p (fun e => hpp e.symm) (inv.sync p r hp x hx)

/-- the entry of `it` after the two map updates of a move -/
def moved (mn mx : Item α) (f1 f2 : Item α → Item α) (it : Item α) : Item α :=
  if (if it.name = mn.name then f1 it else it).name = mx.name then f2 (if it.name = mn.name then f1 it else it)
  else (if it.name = mn.name then f1 it else it)

theorem moved_mem {items : List (Item α)} (mn mx : Item α) (f1 f2 : Item α → Item α) {it : Item α}
    (h : it ∈ items) : moved mn mx f1 f2 it ∈ updItem (updItem items mn.name f1) mx.name f2 :=
  mem_updItem_of_mem mx.name f2 (mem_updItem_of_mem mn.name f1 h)

theorem moved_name (mn mx : Item α) (f1 f2 : Item α → Item α) (h1 : ∀ it, (f1 it).name = it.name)
    (h2 : ∀ it, (f2 it).name = it.name) (it : Item α) : (moved mn mx f1 f2 it).name = it.name := by
  unfold moved
  by_cases c1 : it.name = mn.name
  · rw [if_pos c1]
    by_cases c2 : (f1 it).name = mx.name
    · rw [if_pos c2, h2, h1]
    · rw [if_neg c2, h1]
  · rw [if_neg c1]
    by_cases c2 : it.name = mx.name
    · rw [if_pos c2, h2]
    · rw [if_neg c2]

theorem moved_rp_same (mn mx : Item α) (f1 f2 : Item α → Item α) (h1 : ∀ it, (f1 it).rp = it.rp)
    (h2 : ∀ it, (f2 it).rp = it.rp) (it : Item α) : (moved mn mx f1 f2 it).rp = it.rp := by
  unfold moved
  by_cases c1 : it.name = mn.name
  · rw [if_pos c1]
    by_cases c2 : (f1 it).name = mx.name
    · rw [if_pos c2, h2, h1]
    · rw [if_neg c2, h1]
  · rw [if_neg c1]
    by_cases c2 : it.name = mx.name
    · rw [if_pos c2, h2]
    · rw [if_neg c2]

theorem moved_names (items : List (Item α)) (mn mx : Item α) (f1 f2 : Item α → Item α)
    (h1 : ∀ it, (f1 it).name = it.name) (h2 : ∀ it, (f2 it).name = it.name) :
    (updItem (updItem items mn.name f1) mx.name f2).map (·.name) = items.map (·.name) :=
  (names_updItem _ _ _ h2).trans (names_updItem _ _ _ h1)

theorem removePid_mem {pid p : Nat} {l : List Nat} (h : p ∈ l) (hne : p ≠ pid) : p ∈ removePid pid l := by
  simp only [removePid, mem_filter, bne_iff_ne, ne_eq]
  exact ⟨h, hne⟩

/-- exchange: only the leader lists change, the partition's list is permuted -/
theorem J_exchange {nm : List α} {replica : Nat} {s : V2St α} (inv : J nm replica s) (mn mx : Item α)
    (pid : Nat) (row : List α) (hrow : s.rows[pid]? = some row) :
    J nm replica (applyExchange s mn mx pid row) := by
  have hr : row ∈ s.rows := mem_of_getElem? hrow
  have hp := swapLeader_props mn.name row (inv.rowsNodup row hr)
  let f1 : Item α → Item α := fun it => { it with lp := mn.lp ++ [pid] }
  let f2 : Item α → Item α := fun it => { it with lp := removePid pid mx.lp }
  have n1 : ∀ it, (f1 it).name = it.name := fun _ => rfl
  have n2 : ∀ it, (f2 it).name = it.name := fun _ => rfl
  have r1 : ∀ it, (f1 it).rp = it.rp := fun _ => rfl
  have r2 : ∀ it, (f2 it).rp = it.rp := fun _ => rfl
  show J nm replica ⟨updItem (updItem s.items mn.name f1) mx.name f2, s.rows.set pid (swapLeader mn.name row)⟩
  have hkeep : ∀ x p, Has s.items x p → Has (updItem (updItem s.items mn.name f1) mx.name f2) x p := by
    intro x p ⟨it, hit, hn, hp⟩
    refine ⟨moved mn mx f1 f2 it, moved_mem mn mx f1 f2 hit, (moved_name mn mx f1 f2 n1 n2 it).trans hn, ?_⟩
    rw [moved_rp_same mn mx f1 f2 r1 r2]; exact hp
  refine J_set inv pid _ _ (moved_names s.items mn mx f1 f2 n1 n2) (fun x p _ h => hkeep x p h) hp.1 ?_ ?_ ?_
  · rw [hp.2.1]; exact inv.rowsLen row hr
  · intro x hx; exact inv.rowsLive row hr x ((hp.2.2 x).mp hx)
  · intro x hx; exact hkeep x pid (inv.sync pid row hrow x ((hp.2.2 x).mp hx))

/-- a replica of `pid` goes from `mx` to `mn` (which does not hold one): shared by the leader move and
    the replica move; `g1`, `g2` are what the two updates do to the leader lists (irrelevant here) -/
theorem J_replace {nm : List α} (hnm : nm.Nodup) {replica : Nat} {s : V2St α} (inv : J nm replica s)
    (mn mx : Item α) (hmn : mn ∈ s.items) (hmx : mx ∈ s.items) (hne : mn.name ≠ mx.name)
    (pid : Nat) (row : List α) (hrow : s.rows[pid]? = some row) (hnot : pid ∉ mn.rp)
    (g1 g2 : Item α → List Nat) :
    J nm replica
      ⟨updItem (updItem s.items mn.name fun it => { it with rp := mn.rp ++ [pid], lp := g1 it }) mx.name
          fun it => { it with rp := removePid pid mx.rp, lp := g2 it },
        s.rows.set pid (replaceFirst mx.name mn.name row)⟩ := by
  have hr : row ∈ s.rows := mem_of_getElem? hrow
  have hndi : (s.items.map (·.name)).Nodup := by rw [inv.names]; exact hnm
  have hmnrow : mn.name ∉ row := by
    intro hm
    obtain ⟨it, hit, hn, hp⟩ := inv.sync pid row hrow _ hm
    have e := item_unique hndi hit hmn hn
    rw [e] at hp
    exact hnot hp
  let f1 : Item α → Item α := fun it => { it with rp := mn.rp ++ [pid], lp := g1 it }
  let f2 : Item α → Item α := fun it => { it with rp := removePid pid mx.rp, lp := g2 it }
  have n1 : ∀ it, (f1 it).name = it.name := fun _ => rfl
  have n2 : ∀ it, (f2 it).name = it.name := fun _ => rfl
  show J nm replica ⟨updItem (updItem s.items mn.name f1) mx.name f2, s.rows.set pid (replaceFirst mx.name mn.name row)⟩
  -- the new entry of the old entry of mn holds pid and everything mn held
  have kmn : (moved mn mx f1 f2 mn).rp = mn.rp ++ [pid] := by
    unfold moved
    rw [if_pos rfl]
    have : ¬ (f1 mn).name = mx.name := hne
    rw [if_neg this]
  -- the new entry of the old entry of mx keeps everything but pid
  have kmx : (moved mn mx f1 f2 mx).rp = removePid pid mx.rp := by
    unfold moved
    have c1 : ¬ mx.name = mn.name := fun e => hne e.symm
    rw [if_neg c1, if_pos rfl]
  have kother : ∀ it : Item α, it.name ≠ mn.name → it.name ≠ mx.name → (moved mn mx f1 f2 it).rp = it.rp := by
    intro it c1 c2
    unfold moved
    rw [if_neg c1, if_neg c2]
  have key : ∀ it ∈ s.items, ∀ p ∈ it.rp, (p ≠ pid ∨ it.name ≠ mx.name) → p ∈ (moved mn mx f1 f2 it).rp := by
    intro it hit p hp hcond
    by_cases h1 : it.name = mn.name
    · have e := item_unique hndi hit hmn h1
      rw [e, kmn]; rw [e] at hp
      exact mem_append_left _ hp
    · by_cases h2 : it.name = mx.name
      · have e := item_unique hndi hit hmx h2
        rw [e, kmx]; rw [e] at hp
        rcases hcond with hc | hc
        · exact removePid_mem hp hc
        · exact absurd h2 hc
      · rw [kother it h1 h2]; exact hp
  refine J_set inv pid _ _ (moved_names s.items mn mx f1 f2 n1 n2) ?_ ?_ ?_ ?_ ?_
  · intro x p hpp ⟨it, hit, hn, hp⟩
    exact ⟨moved mn mx f1 f2 it, moved_mem mn mx f1 f2 hit, (moved_name mn mx f1 f2 n1 n2 it).trans hn,
      key it hit p hp (Or.inl hpp)⟩
  · exact nodup_replaceFirst (inv.rowsNodup row hr) hmnrow
  · rw [length_replaceFirst]; exact inv.rowsLen row hr
  · intro x hx
    rcases mem_replaceFirst hx with h | h
    · rw [h, ← inv.names]; exact mem_map.mpr ⟨mn, hmn, rfl⟩
    · exact inv.rowsLive row hr x h
  · intro x hx
    rcases mem_replaceFirst_nodup (inv.rowsNodup row hr) hx with h | ⟨h1, h2⟩
    · refine ⟨moved mn mx f1 f2 mn, moved_mem mn mx f1 f2 hmn, (moved_name mn mx f1 f2 n1 n2 mn).trans h.symm, ?_⟩
      rw [kmn]; exact mem_append_right _ (mem_singleton.mpr rfl)
    · obtain ⟨it, hit, hn, hp⟩ := inv.sync pid row hrow x h1
      exact ⟨moved mn mx f1 f2 it, moved_mem mn mx f1 f2 hit, (moved_name mn mx f1 f2 n1 n2 it).trans hn,
        key it hit pid hp (Or.inr (by rw [hn]; exact h2))⟩

theorem leaderBalanced_self (a : Nat) : Gen.leaderBalanced (a : Int) (a : Int) = true := by
  simp [Gen.leaderBalanced]

theorem replicaBalanced_self (a : Nat) : Gen.replicaBalanced (a : Int) (a : Int) = true := by
  simp [Gen.replicaBalanced]

theorem length_set_rows (rows : List (List α)) (pid : Nat) (r : List α) : (rows.set pid r).length = rows.length := by
  simp

theorem leaderMove_J {nm : List α} (hnm : nm.Nodup) {replica : Nat} {s s' : V2St α} {b : Bool}
    (inv : J nm replica s) (mn mx : Item α) (hmn : mn ∈ s.items) (hmx : mx ∈ s.items)
    (hne : mn.name ≠ mx.name) (h : leaderMove s mn mx = .ok (s', b)) :
    J nm replica s' ∧ s'.rows.length = s.rows.length := by
  unfold leaderMove at h
  split at h
  · simp only [Outcome.ok.injEq, Prod.mk.injEq] at h; rw [← h.1]; exact ⟨inv, rfl⟩
  · rename_i pid _
    split at h
    · cases h
    · rename_i row hrow
      split at h
      · simp only [Outcome.ok.injEq, Prod.mk.injEq] at h
        rw [← h.1]
        exact ⟨J_exchange inv mn mx pid row hrow, by simp [applyExchange]⟩
      · rename_i hc
        simp only [Outcome.ok.injEq, Prod.mk.injEq] at h
        rw [← h.1]
        have hnot : pid ∉ mn.rp := by simpa using hc
        exact ⟨J_replace hnm inv mn mx hmn hmx hne pid row hrow hnot _ _, by simp [applyLeaderMove]⟩

theorem replicaMove_J {nm : List α} (hnm : nm.Nodup) {replica : Nat} {s s' : V2St α} {b : Bool}
    (inv : J nm replica s) (mn mx : Item α) (hmn : mn ∈ s.items) (hmx : mx ∈ s.items)
    (hne : mn.name ≠ mx.name) (h : replicaMove s mn mx = .ok (s', b)) :
    J nm replica s' ∧ s'.rows.length = s.rows.length := by
  unfold replicaMove at h
  split at h
  · simp only [Outcome.ok.injEq, Prod.mk.injEq] at h; rw [← h.1]; exact ⟨inv, rfl⟩
  · rename_i pid hfind
    split at h
    · cases h
    · rename_i row hrow
      simp only [Outcome.ok.injEq, Prod.mk.injEq] at h
      rw [← h.1]
      have hpred := find?_some hfind
      have hnot : pid ∉ mn.rp := by
        intro hc
        simp [hc] at hpred
      have := J_replace hnm inv mn mx hmn hmx hne pid row hrow hnot (fun it => it.lp) (fun it => it.lp)
      exact ⟨this, by simp [applyReplicaMove]⟩

/-- **every step of `moveIfUnbalanced` keeps the layout valid** -/
theorem moveIfUnbalanced_J {nm : List α} (hnm : nm.Nodup) {replica : Nat} {s s' : V2St α} {b : Bool}
    (inv : J nm replica s) (h : moveIfUnbalanced s = .ok (s', b)) :
    J nm replica s' ∧ s'.rows.length = s.rows.length := by
  have hndi : (s.items.map (·.name)).Nodup := by rw [inv.names]; exact hnm
  unfold moveIfUnbalanced at h
  split at h
  · rename_i mn mx hmin hmax
    have hmn := minBy_mem hmin
    have hmx := maxBy_mem hmax
    split at h
    · rename_i hub
      refine leaderMove_J hnm inv mn mx hmn hmx ?_ h
      intro e
      have := item_unique hndi hmn hmx e
      subst this
      rw [leaderBalanced_self] at hub
      simp at hub
    · split at h
      · rename_i mn2 mx2 hmin2 hmax2
        have hmn2 := minBy_mem hmin2
        have hmx2 := maxBy_mem hmax2
        split at h
        · rename_i hub
          refine replicaMove_J hnm inv mn2 mx2 hmn2 hmx2 ?_ h
          intro e
          have := item_unique hndi hmn2 hmx2 e
          subst this
          rw [replicaBalanced_self] at hub
          simp at hub
        · simp only [Outcome.ok.injEq, Prod.mk.injEq] at h; rw [← h.1]; exact ⟨inv, rfl⟩
      · cases h
  · cases h

theorem moveLoop_J {nm : List α} (hnm : nm.Nodup) {replica : Nat} : ∀ (k : Nat) {s s' : V2St α},
    J nm replica s → moveLoop k s = .ok s' → J nm replica s' ∧ s'.rows.length = s.rows.length := by
  intro k
  induction k with
  | zero => intro s s' inv h; simp only [moveLoop, Outcome.ok.injEq] at h; subst h; exact ⟨inv, rfl⟩
  | succ k ih =>
    intro s s' inv h
    simp only [moveLoop] at h
    cases hm : moveIfUnbalanced s with
    | refused => rw [hm] at h; cases h
    | panicEmpty => rw [hm] at h; cases h
    | panicIndex => rw [hm] at h; cases h
    | ok v =>
      obtain ⟨s1, b⟩ := v
      rw [hm] at h
      obtain ⟨j1, l1⟩ := moveIfUnbalanced_J hnm inv hm
      cases b with
      | true => simp only [Outcome.ok.injEq] at h; subst h; exact ⟨j1, l1⟩
      | false =>
        simp only at h
        obtain ⟨j2, l2⟩ := ih j1 h
        exact ⟨j2, l2.trans l1⟩

/-- **fillPartitionMapV2, safety**: every answer has `parts` lists of exactly `replica` pairwise different
    names of the ring — for every ring without repeated names and every old layout whose lists are
    duplicate-free (of any length, with any number of dead names) -/
theorem fillV2_safe (sel parts replica : Nat) (old : List (List α)) (sorted : List α) (hnd : sorted.Nodup)
    (hold : ∀ ol ∈ old, ol.Nodup) (rows : List (List α))
    (h : fillV2 sel parts replica old sorted = .ok rows) :
    rows.length = parts ∧ ∀ row ∈ rows, row.length = replica ∧ row.Nodup ∧ ∀ x ∈ row, x ∈ sorted := by
  unfold fillV2 at h
  simp only at h
  have hn0 : (mkItems sel sorted.length 0 sorted).map (·.name) = sorted := mkItems_names _ _ _ _
  obtain ⟨g1, h1⟩ := addOld_spec old (mkItems sel sorted.length 0 sorted) 0
  cases hf : fillAll replica old parts 0 (addOld (mkItems sel sorted.length 0 sorted) 0 old) [] with
  | refused => rw [hf] at h; cases h
  | panicEmpty => rw [hf] at h; cases h
  | panicIndex => rw [hf] at h; cases h
  | ok st =>
    rw [hf] at h
    simp only at h
    have inv0 : J sorted replica ⟨addOld (mkItems sel sorted.length 0 sorted) 0 old, []⟩ :=
      ⟨g1.1.trans hn0, (fun _ hx => by cases hx), (fun _ hx => by cases hx), (fun _ hx => by cases hx),
        (fun p r hp => by simp at hp)⟩
    have hfut : ∀ p, 0 ≤ p → ∀ x ∈ old.getD p [], x ∈ sorted →
        Has (addOld (mkItems sel sorted.length 0 sorted) 0 old) x p := by
      intro p _ x hx hxs
      rw [getD_eq_getElem?_getD] at hx
      cases hop : old[p]? with
      | none => rw [hop] at hx; cases hx
      | some ol =>
        rw [hop] at hx
        have := h1 p ol hop x hx (by rw [hn0]; exact hxs)
        simpa using this
    obtain ⟨j1, l1⟩ := fillAll_spec sorted hnd replica old hold parts 0 _ [] st inv0 rfl hfut hf
    cases hm : moveLoop (moveCalls replica parts) st with
    | refused => rw [hm] at h; cases h
    | panicEmpty => rw [hm] at h; cases h
    | panicIndex => rw [hm] at h; cases h
    | ok st' =>
      rw [hm] at h
      simp only [Outcome.ok.injEq] at h
      subst h
      obtain ⟨j2, l2⟩ := moveLoop_J hnd _ j1 hm
      refine ⟨by rw [l2, l1]; omega, ?_⟩
      intro row hrow
      exact ⟨j2.rowsLen row hrow, j2.rowsNodup row hrow, j2.rowsLive row hrow⟩

end Z.Place
