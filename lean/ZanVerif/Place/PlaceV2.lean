/-
Scratch prototype for C17 (incremental algorithm v2), safety part: the balancing moves of
`moveIfUnbalanced` keep every partition's replica list duplicate-free, of the same length, inside
the live node set, and in step with the per-node replica map - whatever loads, tie-breaks and
min/max choices drive them (those are abstracted: ANY sequence of the three kinds of move).
-/
namespace Z.PlaceV2

/-! Node names are any type with decidable equality (`Nat` in the design prototype; the executable
    model `Place.Model` instantiates the list lemmas at `String`). -/
variable {α : Type} [DecidableEq α]

structure St (α : Type) where
  lists : Nat → List α            -- partition id -> replica names (position 0 = leader)
  rmap : α → List Nat             -- node -> partition ids it holds (newNodesReplicaMap)

/-- replaceReplicaWith: the first occurrence of `o` becomes `n` -/
def replaceFirst (o n : α) : List α → List α
  | [] => []
  | x :: t => if x = o then n :: t else x :: replaceFirst o n t

/-- exchange the leader with the replica `m` (the loop over nlist in the Go code) -/
def swapLeader (m : α) : List α → List α
  | [] => []
  | l :: t => if m ∈ t then m :: replaceFirst m l t else l :: t

def upd {κ ν : Type} [DecidableEq κ] (f : κ → ν) (i : κ) (v : ν) : κ → ν := fun j => if j = i then v else f j

inductive Move (live : List α) : St α → St α → Prop
  /-- min already holds pid as a non-leader replica: just exchange positions -/
  | exchange (s : St α) (pid : Nat) (mn : α) (h : pid ∈ s.rmap mn) :
      Move live s { s with lists := upd s.lists pid (swapLeader mn (s.lists pid)) }
  /-- move one replica (leader or not) of pid from max to min, which does not hold pid -/
  | replace (s : St α) (pid : Nat) (mx mn : α) (hmx : pid ∈ s.rmap mx) (hmn : pid ∉ s.rmap mn) (hne : mx ≠ mn)
      (hlv : mn ∈ live) :
      Move live s ⟨upd s.lists pid (replaceFirst mx mn (s.lists pid)),
        upd (upd s.rmap mn (s.rmap mn ++ [pid])) mx ((s.rmap mx).filter (fun x => x != pid))⟩

structure Inv (live : List α) (replica : Nat) (s : St α) : Prop where
  nodup : ∀ pid, (s.lists pid).Nodup
  len : ∀ pid, (s.lists pid).length = replica ∨ s.lists pid = []
  sub : ∀ pid, ∀ n ∈ s.lists pid, n ∈ live
  sync : ∀ pid n, pid ∈ s.rmap n ↔ n ∈ s.lists pid

/-! ### list facts -/

theorem length_replaceFirst (o n : α) : ∀ l, (replaceFirst o n l).length = l.length := by
  intro l; induction l with
  | nil => rfl
  | cons x t ih => simp only [replaceFirst]; split <;> simp [ih]

theorem mem_replaceFirst {o n x : α} : ∀ {l : List α}, x ∈ replaceFirst o n l → x = n ∨ x ∈ l := by
  intro l; induction l with
  | nil => intro h; cases h
  | cons y t ih =>
    intro h
    simp only [replaceFirst] at h
    split at h
    · rcases List.mem_cons.mp h with h | h
      · exact Or.inl h
      · exact Or.inr (List.mem_cons_of_mem _ h)
    · rcases List.mem_cons.mp h with h | h
      · exact Or.inr (h ▸ List.mem_cons_self)
      · rcases ih h with h | h
        · exact Or.inl h
        · exact Or.inr (List.mem_cons_of_mem _ h)

/-- membership after replacing o (present, list duplicate-free) by n (absent) -/
theorem mem_replaceFirst_iff {o n : α} : ∀ {l : List α}, l.Nodup → o ∈ l → n ∉ l →
    ∀ x, x ∈ replaceFirst o n l ↔ (x = n ∨ (x ∈ l ∧ x ≠ o)) := by
  intro l; induction l with
  | nil => intro _ ho; cases ho
  | cons y t ih =>
    intro hnd ho hn x
    have hyt : y ∉ t := (List.nodup_cons.mp hnd).1
    have hndt : t.Nodup := (List.nodup_cons.mp hnd).2
    simp only [replaceFirst]
    by_cases hy : y = o
    · subst hy
      simp only [↓reduceIte, List.mem_cons]
      constructor
      · rintro (h | h)
        · exact Or.inl h
        · exact Or.inr ⟨Or.inr h, fun e => hyt (e ▸ h)⟩
      · rintro (h | ⟨h1 | h1, h2⟩)
        · exact Or.inl h
        · exact absurd h1 h2
        · exact Or.inr h1
    · have hot : o ∈ t := by
        rcases List.mem_cons.mp ho with h | h
        · exact absurd h.symm hy
        · exact h
      have hnt : n ∉ t := fun h => hn (List.mem_cons_of_mem _ h)
      simp only [hy, ↓reduceIte, List.mem_cons]
      rw [ih hndt hot hnt x]
      constructor
      · rintro (h | h | ⟨h1, h2⟩)
        · exact Or.inr ⟨Or.inl h, fun e => hy (h ▸ e)⟩
        · exact Or.inl h
        · exact Or.inr ⟨Or.inr h1, h2⟩
      · rintro (h | ⟨h1 | h1, h2⟩)
        · exact Or.inr (Or.inl h)
        · exact Or.inl h1
        · exact Or.inr (Or.inr ⟨h1, h2⟩)

theorem nodup_replaceFirst {o n : α} : ∀ {l : List α}, l.Nodup → n ∉ l → (replaceFirst o n l).Nodup := by
  intro l; induction l with
  | nil => intro _ _; exact List.nodup_nil
  | cons y t ih =>
    intro hnd hn
    have hyt : y ∉ t := (List.nodup_cons.mp hnd).1
    have hndt : t.Nodup := (List.nodup_cons.mp hnd).2
    have hnt : n ∉ t := fun h => hn (List.mem_cons_of_mem _ h)
    simp only [replaceFirst]
    split
    · exact List.nodup_cons.mpr ⟨hnt, hndt⟩
    · refine List.nodup_cons.mpr ⟨?_, ih hndt hnt⟩
      intro h
      rcases mem_replaceFirst h with h | h
      · exact hn (h ▸ List.mem_cons_self)
      · exact hyt h

/-- swapping the leader with a replica is a permutation of the names -/
theorem swapLeader_props (m : α) : ∀ (l : List α), l.Nodup →
    (swapLeader m l).Nodup ∧ (swapLeader m l).length = l.length ∧ ∀ x, x ∈ swapLeader m l ↔ x ∈ l := by
  intro l hnd
  cases l with
  | nil => exact ⟨List.nodup_nil, rfl, fun _ => Iff.rfl⟩
  | cons ld t =>
    have hlt : ld ∉ t := (List.nodup_cons.mp hnd).1
    have hndt : t.Nodup := (List.nodup_cons.mp hnd).2
    simp only [swapLeader]
    by_cases hm : m ∈ t
    · rw [if_pos hm]
      have hiff := mem_replaceFirst_iff (o := m) (n := ld) hndt hm hlt
      refine ⟨?_, by simp [length_replaceFirst], ?_⟩
      · refine List.nodup_cons.mpr ⟨?_, nodup_replaceFirst hndt hlt⟩
        intro h
        rcases (hiff m).mp h with h | ⟨_, h⟩
        · exact hlt (h ▸ hm)
        · exact h rfl
      · intro x
        simp only [List.mem_cons]
        rw [hiff x]
        constructor
        · rintro (h | h | ⟨h, _⟩)
          · exact Or.inr (h ▸ hm)
          · exact Or.inl h
          · exact Or.inr h
        · rintro (h | h)
          · exact Or.inr (Or.inl h)
          · by_cases hx : x = m
            · exact Or.inl hx
            · exact Or.inr (Or.inr ⟨h, hx⟩)
    · rw [if_neg hm]; exact ⟨hnd, rfl, fun _ => Iff.rfl⟩

/-! ### every move keeps the invariant -/

theorem move_inv {live : List α} {replica : Nat} {s s' : St α} (inv : Inv live replica s)
    (mv : Move live s s') : Inv live replica s' := by
  cases mv with
  | exchange pid mn h =>
    have hp := swapLeader_props mn (s.lists pid) (inv.nodup pid)
    refine ⟨?_, ?_, ?_, ?_⟩
    · intro p; simp only [upd]; split
      · rename_i e; subst e; exact hp.1
      · exact inv.nodup p
    · intro p; simp only [upd]; split
      · rename_i e; subst e
        rcases inv.len p with h1 | h1
        · exact Or.inl (by rw [hp.2.1]; exact h1)
        · exact Or.inr (by rw [h1]; rfl)
      · exact inv.len p
    · intro p n hn; simp only [upd] at hn; split at hn
      · rename_i e; subst e; exact inv.sub p n ((hp.2.2 n).mp hn)
      · exact inv.sub p n hn
    · intro p n; simp only [upd]; split
      · rename_i e; subst e; rw [hp.2.2 n]; exact inv.sync p n
      · exact inv.sync p n
  | replace pid mx mn hmx hmn hne hlv =>
    have hmxl : mx ∈ s.lists pid := (inv.sync pid mx).mp hmx
    have hmnl : mn ∉ s.lists pid := fun h => hmn ((inv.sync pid mn).mpr h)
    have hiff := mem_replaceFirst_iff (inv.nodup pid) hmxl hmnl
    have hmnLive : mn ∈ live := hlv
    refine ⟨?_, ?_, ?_, ?_⟩
    · intro p; simp only [upd]; split
      · rename_i e; subst e; exact nodup_replaceFirst (inv.nodup p) hmnl
      · exact inv.nodup p
    · intro p; simp only [upd]; split
      · rename_i e; subst e
        rcases inv.len p with h1 | h1
        · exact Or.inl (by rw [length_replaceFirst]; exact h1)
        · rw [h1] at hmxl; cases hmxl
      · exact inv.len p
    · intro p n hn; simp only [upd] at hn; split at hn
      · rename_i e; subst e
        rcases (hiff n).mp hn with h | ⟨h, _⟩
        · rw [h]; exact hmnLive
        · exact inv.sub p n h
      · exact inv.sub p n hn
    · intro p n
      simp only [upd]
      by_cases hp : p = pid
      · subst hp
        simp only [↓reduceIte]
        rw [hiff n]
        by_cases hnmx : n = mx
        · subst hnmx
          simp only [↓reduceIte, List.mem_filter, bne_self_eq_false, Bool.false_eq_true, and_false, false_iff]
          rintro (h | ⟨_, h⟩)
          · exact hne h
          · exact h rfl
        · simp only [hnmx, ↓reduceIte]
          by_cases hnmn : n = mn
          · subst hnmn; simp
          · simp only [hnmn, ↓reduceIte, false_or]
            rw [inv.sync p n]
            exact ⟨fun h => ⟨h, hnmx⟩, fun h => h.1⟩
      · simp only [hp, ↓reduceIte]
        by_cases hnmx : n = mx
        · subst hnmx
          simp only [↓reduceIte, List.mem_filter]
          rw [← inv.sync p n]
          constructor
          · exact fun h => h.1
          · exact fun h => ⟨h, by simpa using hp⟩
        · simp only [hnmx, ↓reduceIte]
          by_cases hnmn : n = mn
          · subst hnmn
            simp only [↓reduceIte, List.mem_append, List.mem_singleton]
            rw [← inv.sync p n]
            exact ⟨fun h => h.elim id (fun e => absurd e hp), Or.inl⟩
          · simp only [hnmn, ↓reduceIte]; exact inv.sync p n

/-- any number of balancing moves -/
inductive Moves (live : List α) : St α → St α → Prop
  | refl (s : St α) : Moves live s s
  | tail {s s' s'' : St α} : Moves live s s' → Move live s' s'' → Moves live s s''

theorem moves_inv {live : List α} {replica : Nat} {s s' : St α} (inv : Inv live replica s)
    (h : Moves live s s') : Inv live replica s' := by
  induction h with
  | refl => exact inv
  | tail _ mv ih => exact move_inv ih mv

#print axioms moves_inv
/-! ### the fill loop for one partition: reuse live old replicas in place, pick the rest -/

/-- `pick` stands for getMinMaxLoadForLeader / ...ForReplica: SOME element of the candidate list (the
    least loaded one by the comparators - irrelevant here), none if there is no candidate (the Go code
    then panics on `nil.(loadItem)`: F5) -/
def fill (live old : List α) (pick : List α → Option α) : Nat → Nat → List α → List α → Option (List α)
  | 0, _, acc, _ => some acc
  | r + 1, j, acc, excl =>
    let pickNew : Option (List α) :=
      match pick (live.filter (fun n => !excl.contains n)) with
      | some n => fill live old pick r (j + 1) (acc ++ [n]) (excl ++ [n])
      | none => none
    match old[j]? with
    | some o => if o ∈ live then fill live old pick r (j + 1) (acc ++ [o]) excl else pickNew
    | none => pickNew

omit [DecidableEq α] in
theorem getElem_not_mem_take : ∀ {l : List α}, l.Nodup → ∀ {j : Nat} {o : α}, l[j]? = some o → o ∉ l.take j := by
  intro l
  induction l with
  | nil => intro _ j o ho; simp at ho
  | cons a t ih =>
    intro h j o ho
    have hat : a ∉ t := (List.nodup_cons.mp h).1
    have ht : t.Nodup := (List.nodup_cons.mp h).2
    cases j with
    | zero => simp
    | succ j =>
      simp only [List.getElem?_cons_succ] at ho
      simp only [List.take_succ_cons, List.mem_cons, not_or]
      refine ⟨?_, ih ht ho⟩
      intro e
      exact hat (e ▸ List.mem_of_getElem? ho)

structure FInv (live old : List α) (j : Nat) (acc excl : List α) : Prop where
  nodup : acc.Nodup
  inLive : ∀ n ∈ acc, n ∈ live
  accExcl : ∀ n ∈ acc, n ∈ excl
  oldExcl : ∀ n ∈ old, n ∈ excl
  accOld : ∀ n ∈ acc, n ∈ old → n ∈ old.take j
  len : acc.length = j

/-- **fill, safety**: whenever it returns a list, the list has exactly `replica` names, all live,
    pairwise different - for every old list without duplicates and every `pick` that returns one of
    its candidates -/
theorem fill_safe (live old : List α) (hold : old.Nodup) (pick : List α → Option α)
    (hpick : ∀ c n, pick c = some n → n ∈ c) :
    ∀ (r j : Nat) (acc excl l : List α), FInv live old j acc excl →
      fill live old pick r j acc excl = some l → l.Nodup ∧ l.length = j + r ∧ ∀ n ∈ l, n ∈ live := by
  intro r
  induction r with
  | zero =>
    intro j acc excl l inv h
    simp only [fill] at h; injection h with h; subst h
    exact ⟨inv.nodup, by rw [inv.len]; rfl, inv.inLive⟩
  | succ r ih =>
    intro j acc excl l inv h
    -- the two ways to extend acc
    have hpickCase : ∀ n, pick (live.filter (fun n => !excl.contains n)) = some n →
        FInv live old (j + 1) (acc ++ [n]) (excl ++ [n]) := by
      intro n hn
      have hmem := hpick _ _ hn
      rw [List.mem_filter] at hmem
      have hnl : n ∈ live := hmem.1
      have hne : n ∉ excl := by simpa using hmem.2
      have hna : n ∉ acc := fun h => hne (inv.accExcl n h)
      have hno : n ∉ old := fun h => hne (inv.oldExcl n h)
      refine ⟨?_, ?_, ?_, ?_, ?_, by simp [inv.len]⟩
      · exact List.nodup_append.mpr ⟨inv.nodup, (by simp),
          fun a ha b hb hab => hna (by simp at hb; subst hb; exact hab ▸ ha)⟩
      · intro x hx; rcases List.mem_append.mp hx with hx | hx
        · exact inv.inLive x hx
        · simp at hx; subst hx; exact hnl
      · intro x hx; rcases List.mem_append.mp hx with hx | hx
        · exact List.mem_append_left _ (inv.accExcl x hx)
        · exact List.mem_append_right _ hx
      · intro x hx; exact List.mem_append_left _ (inv.oldExcl x hx)
      · intro x hx hxo; rcases List.mem_append.mp hx with hx | hx
        · have := inv.accOld x hx hxo
          rw [List.take_add_one]; exact List.mem_append_left _ this
        · simp at hx; subst hx; exact absurd hxo hno
    have hfin : ∀ acc' excl', FInv live old (j + 1) acc' excl' →
        fill live old pick r (j + 1) acc' excl' = some l → l.Nodup ∧ l.length = j + (r + 1) ∧ ∀ n ∈ l, n ∈ live := by
      intro acc' excl' inv' h'
      have := ih (j + 1) acc' excl' l inv' h'
      exact ⟨this.1, by rw [this.2.1]; omega, this.2.2⟩
    simp only [fill] at h
    cases ho : old[j]? with
    | some o =>
      rw [ho] at h
      simp only at h
      by_cases hol : o ∈ live
      · rw [if_pos hol] at h
        -- reuse the old replica in place
        have hoa : o ∉ acc := fun hm =>
          getElem_not_mem_take hold ho (inv.accOld o hm (List.mem_of_getElem? ho))
        have inv' : FInv live old (j + 1) (acc ++ [o]) excl := by
          refine ⟨?_, ?_, ?_, inv.oldExcl, ?_, by simp [inv.len]⟩
          · exact List.nodup_append.mpr ⟨inv.nodup, (by simp),
              fun a ha b hb hab => hoa (by simp at hb; subst hb; exact hab ▸ ha)⟩
          · intro x hx; rcases List.mem_append.mp hx with hx | hx
            · exact inv.inLive x hx
            · simp at hx; subst hx; exact hol
          · intro x hx; rcases List.mem_append.mp hx with hx | hx
            · exact inv.accExcl x hx
            · simp at hx; subst hx; exact inv.oldExcl x (List.mem_of_getElem? ho)
          · intro x hx hxo; rcases List.mem_append.mp hx with hx | hx
            · rw [List.take_add_one]; exact List.mem_append_left _ (inv.accOld x hx hxo)
            · simp at hx; subst hx
              rw [List.take_add_one, ho]; simp
        exact hfin _ _ inv' h
      · rw [if_neg hol] at h
        cases hp : pick (live.filter (fun n => !excl.contains n)) with
        | none => rw [hp] at h; cases h
        | some n => rw [hp] at h; exact hfin _ _ (hpickCase n hp) h
    | none =>
      rw [ho] at h
      simp only at h
      cases hp : pick (live.filter (fun n => !excl.contains n)) with
      | none => rw [hp] at h; cases h
      | some n => rw [hp] at h; exact hfin _ _ (hpickCase n hp) h

/-- the layout of one partition as `fillPartitionMapV2` computes it -/
theorem fill_partition (live old : List α) (hold : old.Nodup) (pick : List α → Option α)
    (hpick : ∀ c n, pick c = some n → n ∈ c) (replica : Nat) (l : List α)
    (h : fill live old pick replica 0 [] old = some l) : l.Nodup ∧ l.length = replica ∧ ∀ n ∈ l, n ∈ live := by
  have := fill_safe live old hold pick hpick replica 0 [] old l
    ⟨List.nodup_nil, fun _ h => (by cases h), fun _ h => (by cases h), fun _ h => h, fun _ h => (by cases h), rfl⟩ h
  exact ⟨this.1, by rw [this.2.1]; omega, this.2.2⟩

-- F5: an old list LONGER than `replica` (ISR during a migration) whose leader died: every live node
-- is excluded because it is in the old list, the candidate set is empty, `fill` has no answer - the
-- Go code type-asserts a nil interface there and panics
example : fill [1, 2, 3] [9, 1, 2, 3] List.head? 3 0 [] [9, 1, 2, 3] = none := by decide
-- with an old list of the right length the same death is repaired by a fresh node
example : fill [1, 2, 3, 4] [9, 1, 2] List.head? 3 0 [] [9, 1, 2] = some [3, 1, 2] := by decide

#print axioms fill_partition
end Z.PlaceV2
