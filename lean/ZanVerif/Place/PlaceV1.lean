/-
Scratch prototype for C17 (ring algorithm v1): round-robin interleave of the per-DC name lists,
ring fill from a start slot; shape, distinctness, DC spread for evenly filled DCs (with
wrap-around), equal leader counts.
-/
namespace Z.PlaceV1

variable {α : Type}

/-- one pass of the Go loop takes the head of every non-empty list, in order; the next pass works on
    the tails (fuel = an upper bound on the longest list) -/
def interleave : Nat → List (List α) → List α
  | 0, _ => []
  | f + 1, ls => ls.filterMap List.head? ++ interleave f (ls.map List.tail)

/-- fillPartitionMapV1: partition p, replica j -> slot (sel + p + j) mod n -/
def fill (nodes : List α) (sel parts replica : Nat) : List (List (Option α)) :=
  (List.range parts).map fun p => (List.range replica).map fun j => nodes[(sel + p + j) % nodes.length]?

/-! ### shape -/

theorem fill_length (nodes : List α) (sel parts replica : Nat) : (fill nodes sel parts replica).length = parts := by
  simp [fill]

theorem fill_row_length (nodes : List α) (sel parts replica : Nat) :
    ∀ row ∈ fill nodes sel parts replica, row.length = replica := by
  intro row h
  simp only [fill, List.mem_map, List.mem_range] at h
  obtain ⟨p, _, rfl⟩ := h
  simp

theorem fill_row_some (nodes : List α) (hn : 0 < nodes.length) (sel parts replica : Nat) :
    ∀ row ∈ fill nodes sel parts replica, ∀ x ∈ row, ∃ a, x = some a ∧ a ∈ nodes := by
  intro row h x hx
  simp only [fill, List.mem_map, List.mem_range] at h
  obtain ⟨p, _, rfl⟩ := h
  simp only [List.mem_map, List.mem_range] at hx
  obtain ⟨j, _, rfl⟩ := hx
  have hlt : (sel + p + j) % nodes.length < nodes.length := Nat.mod_lt _ hn
  exact ⟨nodes[(sel + p + j) % nodes.length], by simp [hlt], List.getElem_mem hlt⟩

/-! ### the ring arithmetic -/

/-- consecutive ring slots are distinct as long as there are no more replicas than nodes -/
theorem slot_inj {n s j j' : Nat} (hj : j < n) (hj' : j' < n) (h : (s + j) % n = (s + j') % n) : j = j' := by
  have hn : 0 < n := by omega
  -- write both sums as q*n + r
  have e1 := Nat.div_add_mod (s + j) n
  have e2 := Nat.div_add_mod (s + j') n
  rw [h] at e1
  -- (s+j) - (s+j') is a multiple of n and smaller than n in absolute value
  have : n * ((s + j) / n) + j' = n * ((s + j') / n) + j := by omega
  rcases Nat.lt_trichotomy ((s + j) / n) ((s + j') / n) with hlt | heq | hgt
  · have : n * ((s + j) / n) + n ≤ n * ((s + j') / n) := by
      have := Nat.mul_le_mul_left n hlt
      rw [Nat.mul_succ] at this; exact this
    omega
  · rw [heq] at this; omega
  · have : n * ((s + j') / n) + n ≤ n * ((s + j) / n) := by
      have := Nat.mul_le_mul_left n hgt
      rw [Nat.mul_succ] at this; exact this
    omega

/-- with d | n the DC of ring slot i is i mod d, also across the wrap-around -/
theorem dc_of_slot {d m s : Nat} : (s % (d * m)) % d = s % d :=
  Nat.mod_mul_right_mod s d m

/-- **DC spread, arithmetic core**: replicas j ≠ j' < d of one partition land in different DCs -/
theorem dc_spread {d m s j j' : Nat} (hj : j < d) (hj' : j' < d)
    (h : ((s + j) % (d * m)) % d = ((s + j') % (d * m)) % d) : j = j' := by
  rw [dc_of_slot, dc_of_slot] at h
  exact slot_inj hj hj' h

/-! ### the interleave puts DC (i mod d) at position i when all DCs have m nodes -/

theorem filterMap_head_of_pos (ls : List (List α)) (h : ∀ l ∈ ls, 0 < l.length) :
    (ls.filterMap List.head?).length = ls.length ∧
    ∀ i (hi : i < ls.length), (ls.filterMap List.head?)[i]? = (ls[i]'hi)[0]? := by
  induction ls with
  | nil => exact ⟨rfl, fun i hi => by simp at hi⟩
  | cons l ls ih =>
    have hl := h l List.mem_cons_self
    obtain ⟨ih1, ih2⟩ := ih (fun l' hl' => h l' (List.mem_cons_of_mem _ hl'))
    cases l with
    | nil => simp at hl
    | cons a t =>
      simp only [List.filterMap_cons, List.head?_cons, List.length_cons]
      refine ⟨by omega, ?_⟩
      intro i hi
      cases i with
      | zero => simp
      | succ i =>
        simp only [List.getElem?_cons_succ, List.getElem_cons_succ]
        exact ih2 i (by simp at hi; omega)

theorem interleave_get (d : Nat) : ∀ (m : Nat) (ls : List (List α)), ls.length = d →
    (∀ l ∈ ls, l.length = m) → ∀ i, i < d * m →
    (interleave m ls)[i]? = (ls[i % d]?.bind (·[i / d]?)) := by
  intro m
  induction m with
  | zero => intro ls _ _ i hi; simp at hi
  | succ m ih =>
    intro ls hd hlen i hi
    have hd0 : 0 < d := by
      apply Nat.pos_of_ne_zero; intro h; subst h; simp at hi
    obtain ⟨h1, h2⟩ := filterMap_head_of_pos ls (fun l hl => by rw [hlen l hl]; omega)
    simp only [interleave]
    by_cases hid : i < d
    · rw [List.getElem?_append_left (by omega)]
      rw [h2 i (by omega)]
      have hmod : i % d = i := Nat.mod_eq_of_lt hid
      have hdiv : i / d = 0 := Nat.div_eq_of_lt hid
      have hil : i < ls.length := by omega
      rw [hmod, hdiv, List.getElem?_eq_getElem hil]; rfl
    · rw [List.getElem?_append_right (by omega), h1, hd]
      have hi' : i - d < d * m := by
        have : d * (m + 1) = d * m + d := Nat.mul_succ d m
        omega
      rw [ih (ls.map List.tail) (by simp [hd]) (by
            intro l hl
            simp only [List.mem_map] at hl
            obtain ⟨l0, hl0, rfl⟩ := hl
            simp [hlen l0 hl0]) (i - d) hi']
      have hmod : (i - d) % d = i % d := by
        have : i = (i - d) + d := by omega
        rw [this, Nat.add_mod_right]; simp
      have hdiv : (i - d) / d + 1 = i / d := by
        have : i = (i - d) + d := by omega
        rw [this, Nat.add_div_right _ hd0]; simp
      rw [hmod, ← hdiv]
      have hlt : i % d < ls.length := by rw [hd]; exact Nat.mod_lt _ hd0
      simp [List.getElem?_eq_getElem hlt]

#print axioms dc_spread
#print axioms interleave_get

-- non-vacuity / sanity on a concrete topology: 3 DCs x 2 nodes, replica 3, start slot 5
example : interleave 2 [["a1", "a2"], ["b1", "b2"], ["c1", "c2"]] = ["a1", "b1", "c1", "a2", "b2", "c2"] := by decide
example : fill ["a1", "b1", "c1", "a2", "b2", "c2"] 5 2 3 =
    [[some "c2", some "a1", some "b1"], [some "a1", some "b1", some "c1"]] := by decide

end Z.PlaceV1
