/-
  C17 — executable model of the layout functions of cluster/pdnode_coord/place_driver.go:
  `getNodeNameList`, `getRebalancedNamespacePartitions`, `getRebalancedPartitionsFromNameList`,
  `fillPartitionMapV1`, `fillPartitionMapV2` (+ `getMinMaxLoadForLeader/Replica`, `moveIfUnbalanced`).
  Mirrors the Go code branch by branch; the decision expressions (refusal guards, ring slot, name
  index, the two comparators, balance thresholds, move budget) come from the regenerated
  `ZanVerif.Gen.Place`. Core only (linked into the driver).

  Representation choices (validated by the differential run, see Driver/Place.lean):
  * a Go `map[string]NodeInfo` is a list of (id, dc tag) pairs with pairwise different ids, in ANY order;
  * `newNodesLeaderMap` / `newNodesReplicaMap` / `nameIndexMap` have the same key set (the live names)
    for the whole run of `fillPartitionMapV2`, so they are fused into one list of `Item`s;
  * `treemap.Min/Max` = least / greatest element by the comparator (`minBy` / `maxBy`); the comparators
    break ties by `nameIndex`, which is injective on the live names, so the treemap never holds two
    equal keys and the Go map iteration order that fills it does not matter;
  * a Go panic is an explicit outcome.
-/
import ZanVerif.Base.Murmur3
import ZanVerif.Gen.Place
import ZanVerif.Place.PlaceV1
import ZanVerif.Place.PlaceV2

namespace Z.Place
open Z.PlaceV1 (interleave)
open Z.PlaceV2 (replaceFirst swapLeader)

/-- what a call of the layout function does -/
inductive Outcome (β : Type) where
  | ok (v : β)
  | refused          -- `return nil, ErrNodeUnavailable`
  | panicEmpty       -- `nil.(loadItem)`: treemap.Min() on an empty candidate set (§9-F5; proved unreachable: `fillV2_ne_panicEmpty`)
  | panicIndex       -- `partitionNodes[pid]` with pid ≥ partitionNum (old layout with more partitions)
deriving Repr, DecidableEq

/-! ### getNodeNameList -/

/-- Go `s[l] < s[r]` on strings is bytewise; on valid UTF-8 that is the code point order of Lean's `String` -/
def sle (a b : String) : Bool := decide (a ≤ b)

/-- the key set of `nodeNameMap` (one entry per DC tag) -/
def dedup {β : Type} [DecidableEq β] : List β → List β
  | [] => []
  | a :: t => if a ∈ t then dedup t else a :: dedup t

/-- nodes = (id, dc tag) pairs. Group by DC tag, sort the tags, sort the ids of each group. -/
def getNodeNameList (nodes : List (String × String)) : List (List String) :=
  let dcs := (dedup (nodes.map (·.2))).mergeSort sle
  dcs.map fun dc => ((nodes.filter (fun x => x.2 == dc)).map (·.1)).mergeSort sle

/-! ### getRebalancedPartitionsFromNameList: sort every list again, round-robin over the lists -/

def maxLen {β : Type} (ls : List (List β)) : Nat := ls.foldr (fun l m => max l.length m) 0

def totalCnt {β : Type} (ls : List (List β)) : Nat := ls.foldr (fun l m => l.length + m) 0

/-- the `for len(combined) < totalCnt` loop: one round takes the head of every non-empty list -/
def combine {β : Type} (ls : List (List β)) : List β := interleave (maxLen ls) ls

/-- `int(murmur3.Sum32([]byte(ns)))` (non-negative on a 64-bit platform) -/
def selectIndex (ns : String) : Nat := (Z.Murmur3.sum32 ns.toUTF8.toList).toNat

/-! ### fillPartitionMapV1 -/

variable {α : Type} [DecidableEq α]

/-- `(selectIndex+j) % len(sortedNodes)` as regenerated, on naturals -/
def ringSlot (sel j n : Nat) : Nat := (Gen.ringSlot (sel : Int) (j : Int) (n : Int)).toNat

/-- partition p starts at `selectIndex + p·ringStep` -/
def ringStartOf (sel p : Nat) : Nat := (((sel : Int) + (p : Int) * Gen.ringStep)).toNat

def fillV1 (sel parts replica : Nat) (sorted : List α) : List (List α) :=
  (List.range parts).map fun p =>
    (List.range replica).filterMap fun j => sorted[ringSlot (ringStartOf sel p) j sorted.length]?

/-! ### fillPartitionMapV2 -/

/-- `loadItem` + the entry of the three maps for one live name -/
structure Item (α : Type) where
  name : α
  idx : Nat              -- nameIndexMap[name]
  lp : List Nat          -- newNodesLeaderMap[name]
  rp : List Nat          -- newNodesReplicaMap[name]
deriving Repr

def leaderLt (a b : Item α) : Bool :=
  decide (Gen.loadItemLeaderCmp a.lp.length a.rp.length a.idx b.lp.length b.rp.length b.idx < 0)

def replicaLt (a b : Item α) : Bool :=
  decide (Gen.loadItemReplicaCmp a.rp.length a.idx b.rp.length b.idx < 0)

/-- treemap.Min by a comparator -/
def minBy {β : Type} (lt : β → β → Bool) : List β → Option β
  | [] => none
  | a :: t => some (t.foldl (fun m x => if lt x m then x else m) a)

/-- treemap.Max by a comparator -/
def maxBy {β : Type} (lt : β → β → Bool) : List β → Option β
  | [] => none
  | a :: t => some (t.foldl (fun m x => if lt m x then x else m) a)

/-- `m[name] = f(m[name])` for a name that is a key; no effect otherwise (`if ok { … }`) -/
def updItem (items : List (Item α)) (nm : α) (f : Item α → Item α) : List (Item α) :=
  items.map fun it => if it.name = nm then f it else it

/-- `_, ok := newNodesReplicaMap[name]` -/
def hasName (items : List (Item α)) (nm : α) : Bool := items.any (fun it => it.name = nm)

def mkItems (sel n : Nat) : Nat → List α → List (Item α)
  | _, [] => []
  | i, nm :: t => ⟨nm, (Gen.nameIndex (i : Int) (sel : Int) (n : Int)).toNat, [], []⟩ :: mkItems sel n (i + 1) t

/-- `for i, name := range olist` of the initial load count -/
def addOldList (pid : Nat) : List (Item α) → Nat → List α → List (Item α)
  | items, _, [] => items
  | items, i, nm :: t =>
    addOldList pid (updItem items nm fun it =>
      { it with lp := if i = 0 then it.lp ++ [pid] else it.lp, rp := it.rp ++ [pid] }) (i + 1) t

/-- `for pid, olist := range oldPartitionNodes` -/
def addOld : List (Item α) → Nat → List (List α) → List (Item α)
  | items, _, [] => items
  | items, pid, ol :: t => addOld (addOldList pid items 0 ol) (pid + 1) t

/-- `if len(oldlist) > j { old = oldlist[j] }; _, ok := newNodes…Map[old]`: the old replica at position j,
    if it is still a live node -/
def reuseOld (oldlist : List α) (j : Nat) (items : List (Item α)) : Option α :=
  match oldlist[j]? with
  | some o => if hasName items o then some o else none
  | none => none

/-- `getMinMaxLoadForLeader` (j = 0) / `getMinMaxLoadForReplica` (j > 0) over the names outside `exclude`;
    `none` = empty treemap = the Go code panics on `nil.(loadItem)` -/
def pickCand (j : Nat) (items : List (Item α)) (excl : List α) : Option (Item α) :=
  let cands := items.filter (fun it => !excl.contains it.name)
  if j = 0 then minBy leaderLt cands else minBy replicaLt cands

/-- the picked node gets the pid appended (leader list too for position 0) -/
def bump (pid j : Nat) (m : Item α) (items : List (Item α)) : List (Item α) :=
  updItem items m.name fun it =>
    { it with lp := if j = 0 then m.lp ++ [pid] else it.lp, rp := m.rp ++ [pid] }

/-- the `for j := 0; j < replica; j++` loop for one partition: `r` iterations left, position `j` -/
def fillRow (pid : Nat) (oldlist : List α) :
    Nat → Nat → List (Item α) → List α → List α → Outcome (List (Item α) × List α)
  | 0, _, items, acc, _ => .ok (items, acc)
  | r + 1, j, items, acc, excl =>
    match reuseOld oldlist j items with
    | some o => fillRow pid oldlist r (j + 1) items (acc ++ [o]) excl
    | none =>
      match pickCand j items excl with
      | none => .panicEmpty
      | some m => fillRow pid oldlist r (j + 1) (bump pid j m items) (acc ++ [m.name]) (excl ++ [m.name])

structure V2St (α : Type) where
  items : List (Item α)
  rows : List (List α)

/-- `for pid := 0; pid < partitionNum; pid++`: `k` partitions left.
    `if len(oldlist) > replica { oldlist = oldlist[:replica] }`: only the first `replica` old names can be
    reused, and only they are excluded as replacements; old extra members (an ISR longer than the
    replication factor, mid-migration) stay candidates — the repair of §9-F5 -/
def fillAll (replica : Nat) (old : List (List α)) : Nat → Nat → List (Item α) → List (List α) → Outcome (V2St α)
  | 0, _, items, rows => .ok ⟨items, rows⟩
  | k + 1, pid, items, rows =>
    let ol := (old.getD pid []).take replica
    match fillRow pid ol replica 0 items [] ol with
    | .ok (items', row) => fillAll replica old k (pid + 1) items' (rows ++ [row])
    | .refused => .refused
    | .panicEmpty => .panicEmpty
    | .panicIndex => .panicIndex

def removePid (pid : Nat) (l : List Nat) : List Nat := l.filter (· != pid)

/-- leader move, `mn` already holds a replica of `pid`: exchange positions inside the list, move the
    leader count -/
def applyExchange (s : V2St α) (mn mx : Item α) (pid : Nat) (row : List α) : V2St α :=
  let items1 := updItem s.items mn.name fun it => { it with lp := mn.lp ++ [pid] }
  let items2 := updItem items1 mx.name fun it => { it with lp := removePid pid mx.lp }
  ⟨items2, s.rows.set pid (swapLeader mn.name row)⟩

/-- leader move, `mn` holds no replica of `pid`: `replaceReplicaWith(partitionNodes[pid], max, min)`,
    replica and leader counts follow -/
def applyLeaderMove (s : V2St α) (mn mx : Item α) (pid : Nat) (row : List α) : V2St α :=
  let items1 := updItem s.items mn.name fun it => { it with rp := mn.rp ++ [pid], lp := mn.lp ++ [pid] }
  let items2 := updItem items1 mx.name fun it => { it with rp := removePid pid mx.rp, lp := removePid pid mx.lp }
  ⟨items2, s.rows.set pid (replaceFirst mx.name mn.name row)⟩

/-- replica move: a non-leader replica of `pid` goes from `mx` to `mn` -/
def applyReplicaMove (s : V2St α) (mn mx : Item α) (pid : Nat) (row : List α) : V2St α :=
  let items1 := updItem s.items mn.name fun it => { it with rp := mn.rp ++ [pid] }
  let items2 := updItem items1 mx.name fun it => { it with rp := removePid pid mx.rp }
  ⟨items2, s.rows.set pid (replaceFirst mx.name mn.name row)⟩

/-- the leader half of `moveIfUnbalanced` once min and max are known and unbalanced -/
def leaderMove (s : V2St α) (mn mx : Item α) : Outcome (V2St α × Bool) :=
  -- the first leader pid of mx that mn does not lead
  match mx.lp.find? (fun pid => !mn.lp.contains pid) with
  | none => .ok (s, false)
  | some pid =>
    match s.rows[pid]? with
    | none => .panicIndex
    | some row =>
      if mn.rp.contains pid then .ok (applyExchange s mn mx pid row, false)
      else .ok (applyLeaderMove s mn mx pid row, false)

/-- the replica half -/
def replicaMove (s : V2St α) (mn mx : Item α) : Outcome (V2St α × Bool) :=
  match mx.rp.find? (fun pid => !mn.rp.contains pid && !mx.lp.contains pid) with
  | none => .ok (s, false)
  | some pid =>
    match s.rows[pid]? with
    | none => .panicIndex
    | some row => .ok (applyReplicaMove s mn mx pid row, false)

/-- `moveIfUnbalanced`: at most one move; the Bool is `balanced` -/
def moveIfUnbalanced (s : V2St α) : Outcome (V2St α × Bool) :=
  match minBy leaderLt s.items, maxBy leaderLt s.items with
  | some mn, some mx =>
    if !Gen.leaderBalanced mx.lp.length mn.lp.length then leaderMove s mn mx
    else
      match minBy replicaLt s.items, maxBy replicaLt s.items with
      | some mn, some mx =>
        if !Gen.replicaBalanced mx.rp.length mn.rp.length then replicaMove s mn mx
        else .ok (s, true)
      | _, _ => .panicEmpty
  | _, _ => .panicEmpty

/-- `for !balanced { …; maxMoved--; if maxMoved < 0 { break } }`: at most `calls` calls -/
def moveLoop : Nat → V2St α → Outcome (V2St α)
  | 0, s => .ok s
  | k + 1, s =>
    match moveIfUnbalanced s with
    | .ok (s', true) => .ok s'
    | .ok (s', false) => moveLoop k s'
    | .refused => .refused
    | .panicEmpty => .panicEmpty
    | .panicIndex => .panicIndex

/-- `maxMoved := replica * partitionNum`; the loop body runs until the counter is negative: budget + 1 calls -/
def moveCalls (replica parts : Nat) : Nat := (Gen.moveBudget (replica : Int) (parts : Int)).toNat + 1

def fillV2 (sel parts replica : Nat) (old : List (List α)) (sorted : List α) : Outcome (List (List α)) :=
  let items0 := mkItems sel sorted.length 0 sorted
  let items1 := addOld items0 0 old
  match fillAll replica old parts 0 items1 [] with
  | .ok st =>
    match moveLoop (moveCalls replica parts) st with
    | .ok st' => .ok st'.rows
    | .refused => .refused
    | .panicEmpty => .panicEmpty
    | .panicIndex => .panicIndex
  | .refused => .refused
  | .panicEmpty => .panicEmpty
  | .panicIndex => .panicIndex

/-! ### entry points -/

inductive Alg | v1 | v2
deriving Repr, DecidableEq

/-- after the refusal guard and the interleave: `fillPartitionMapV2` if `balanceVer == "v2"`, else V1 -/
def fillAlg (alg : Alg) (sel parts replica : Nat) (old : List (List α)) (sorted : List α) : Outcome (List (List α)) :=
  match alg with
  | .v2 => fillV2 sel parts replica old sorted
  | .v1 => .ok (fillV1 sel parts replica sorted)

/-- `getRebalancedPartitionsFromNameList` -/
def placeFromNameList (alg : Alg) (ns : String) (parts replica : Nat) (old : List (List String))
    (nameList : List (List String)) : Outcome (List (List String)) :=
  let ls := nameList.map (·.mergeSort sle)
  if Gen.refuseTotal (totalCnt ls : Nat) (replica : Nat) then .refused
  else fillAlg alg (selectIndex ns) parts replica old (combine ls)

/-- `getRebalancedNamespacePartitions`; `nodes` lists the map `currentNodes` in any order -/
def place (alg : Alg) (ns : String) (parts replica : Nat) (old : List (List String))
    (nodes : List (String × String)) : Outcome (List (List String)) :=
  if Gen.refuseNodes (nodes.length : Nat) (replica : Nat) then .refused
  else placeFromNameList alg ns parts replica old (getNodeNameList nodes)

end Z.Place
