namespace Z

def encodeFrameSize (n : Nat) : Nat × Nat :=
  let pad := (8 - n % 8) % 8
  if pad != 0 then (n ||| ((0x80 ||| pad) <<< 56), pad) else (n, pad)

def decodeFrameSize (w : Nat) : Nat × Nat :=
  (w % 2^56, if w ≥ 2^63 then (w >>> 56) &&& 7 else 0)

theorem lor_high (a c k : Nat) (h : a < 2^k) : a ||| (c <<< k) = c * 2^k + a := by
  rw [Nat.or_comm, ← Nat.shiftLeft_add_eq_or_of_lt h, Nat.shiftLeft_eq]

theorem and7 (x : Nat) : x &&& 7 = x % 8 := Nat.and_two_pow_sub_one_eq_mod x 3

theorem frame_roundtrip (n : Nat) (h : n < 2^56) :
    decodeFrameSize (encodeFrameSize n).1 = (n, (8 - n % 8) % 8) := by
  unfold encodeFrameSize decodeFrameSize
  have hpad : (8 - n % 8) % 8 < 8 := Nat.mod_lt _ (by decide)
  generalize (8 - n % 8) % 8 = p at *
  by_cases hp : p = 0
  · subst hp; simp; omega
  · have e1 : (0x80 ||| p) = 128 + p := by
      have := lor_high p 1 7 (by omega); simpa [Nat.or_comm] using this
    have e2 : n ||| ((0x80 ||| p) <<< 56) = (128 + p) * 2^56 + n := by
      rw [e1]; exact lor_high n _ 56 h
    simp only [bne_iff_ne, ne_eq, hp, not_false_eq_true, ↓reduceIte, e2, and7, Nat.shiftRight_eq_div_pow]
    have h63 : (128 + p) * 2^56 + n ≥ 2^63 := by omega
    simp only [h63, ↓reduceIte]
    refine Prod.ext ?_ ?_ <;> simp only <;> omega

#print axioms frame_roundtrip
end Z
