/-
  C05 lemmas, part 5: torn-write detection (`isTornEntry`) and truncation with zero fill.
-/
import ZanVerif.Wal.StreamLemmas
namespace Z.Wal

theorem sector_spec : Gen.wal_minSectorSize = 512 := by decide

theorem tornChunk_eq (fileOff : Nat) : (Gen.wal_tornChunk (fileOff : Int)).toNat = 512 - fileOff % 512 := by
  unfold Gen.wal_tornChunk
  rw [sector_spec, Int.tmod_eq_emod_of_nonneg (Int.natCast_nonneg _)]
  omega

theorem all_zero_zeros (n : Nat) : (zeros n).all (· == 0) = true := by
  simp [zeros]

/-- a data area whose tail from a sector boundary on is all zeros is recognised as torn -/
theorem tornChunks_zero_suffix : ∀ (fuel : Nat) (a : Bytes) (z fileOff : Nat), 0 < z → (fileOff + a.length) % 512 = 0 →
    a.length < fuel → tornChunks fuel fileOff (a ++ zeros z) = true := by
  intro fuel
  induction fuel with
  | zero => intro a z fileOff _ _ h; omega
  | succ fuel ih =>
    intro a z fileOff hz hal hf
    have hne : a ++ zeros z ≠ [] := by
      intro h; have := congrArg List.length h; simp [zeros] at this; omega
    cases hd : a ++ zeros z with
    | nil => exact absurd hd hne
    | cons x xs =>
      rw [← hd]
      unfold tornChunks
      rw [hd]; simp only []; rw [← hd]; simp only [Int.ofNat_eq_natCast, tornChunk_eq]
      by_cases ha : a.length = 0
      · have ha' : a = [] := List.eq_nil_of_length_eq_zero ha
        subst ha'
        simp only [List.nil_append]
        have : List.take (min (512 - fileOff % 512) (zeros z).length) (zeros z) = zeros (min (512 - fileOff % 512) (zeros z).length) := by
          simp [zeros, List.take_replicate]
        rw [this, all_zero_zeros]; simp
      · have hc : 512 - fileOff % 512 ≤ a.length := by omega
        have hmin : min (512 - fileOff % 512) (a ++ zeros z).length = 512 - fileOff % 512 := by
          simp [zeros]; omega
        rw [hmin]
        split
        · rfl
        · rw [List.drop_append_of_le_length hc]
          apply ih
          · exact hz
          · rw [List.length_drop]; omega
          · rw [List.length_drop]; omega


theorem isTornEntry_last (off : Nat) (a : Bytes) (z : Nat) (hz : 0 < z) (hal : (off + 8 + a.length) % 512 = 0) :
    isTornEntry 1 off (a ++ zeros z) = true := by
  unfold isTornEntry
  have h1 : Gen.wal_tornNotLast (Int.ofNat 1) = false := by decide
  rw [h1]
  have h2 : (Gen.wal_tornStart (Int.ofNat off)).toNat = off + 8 := by
    unfold Gen.wal_tornStart; rw [frameSizeBytes_spec]; simp only [Int.ofNat_eq_natCast]; omega
  simp only [Bool.false_eq_true, if_false, h2]
  exact tornChunks_zero_suffix _ a z (off + 8) hz hal (by simp [zeros]; omega)

/-- outcome of decoding a damaged frame: either it is reported as the end of the log (EOF / unexpected EOF, nothing
    consumed: `lastValidOff` stays) or the decoder accepted a record from the damaged bytes -/
inductive CutOutcome (off : Nat) : Res → Prop
  | eof (d : Dec) : d.off = off → CutOutcome off (.stop .eof d)
  | ueof (d : Dec) : d.off = off → CutOutcome off (.stop .ueof d)
  | accepted (r' : Rec) (d : Dec) : CutOutcome off (.got r' d)

/-- **a frame whose bytes from a sector boundary on read as zeros** (preallocated file, last segment): reported as
    unexpected EOF — through the short read or through `isTornEntry` — unless the damaged bytes still unmarshal and
    pass the crc test -/
theorem decodeRecord_cut_zeros (crcf : UInt32 → Bytes → UInt32) (r : Rec) (m k off : Nat) (c : UInt32) (hwf : r.wf)
    (hm : m < (frame r).length) (hm8 : 8 ≤ m) (hal : (off + m) % 512 = 0) :
    CutOutcome off (decodeRecord crcf [(frame r).take m ++ zeros k] off c) := by
  have h56 := hwf.len56
  have hn4 := marshalRec_length_ge r
  generalize hn : (marshalRec r).length = n at *
  have hp : padOf n < 8 := Nat.mod_lt _ (by decide)
  have hfl := frame_length r (by omega)
  rw [hn] at hfl
  have hfe := frame_eq r (by omega)
  rw [hn] at hfe
  have htk : (frame r).take m = le64 (lenWord n) ++ (marshalRec r ++ zeros (padOf n)).take (m - 8) := by
    rw [hfe, List.take_append]; simp [le64_length]
    have : List.take m (le64 (lenWord n)) = le64 (lenWord n) := List.take_of_length_le (by simp [le64_length]; omega)
    rw [this]
  generalize hbody : marshalRec r ++ zeros (padOf n) = body at *
  have hbl : body.length = n + padOf n := by rw [← hbody]; simp [zeros, hn]
  have hb : (frame r).take m ++ zeros k = le64 (lenWord n) ++ (body.take (m - 8) ++ zeros k) := by
    rw [htk]; simp
  have hal' : (body.take (m - 8)).length = m - 8 := by rw [List.length_take]; omega
  rw [hb]
  simp only [decodeRecord]
  have hne : le64 (lenWord n) ++ (body.take (m - 8) ++ zeros k) ≠ [] := by simp [le64]
  have hrd : readLE64 (le64 (lenWord n) ++ (body.take (m - 8) ++ zeros k)) = lenWord n :=
    readLE64_le64 _ (lenWord_lt n h56) _
  have hl8 : hasLen (le64 (lenWord n) ++ (body.take (m - 8) ++ zeros k)) 8 = true := by
    rw [hasLen_iff]; simp [le64_length]
  have hc1 : ¬ (le64 (lenWord n) ++ (body.take (m - 8) ++ zeros k) = [] ∨
      (hasLen (le64 (lenWord n) ++ (body.take (m - 8) ++ zeros k)) 8 = true ∧
       readLE64 (le64 (lenWord n) ++ (body.take (m - 8) ++ zeros k)) = 0)) := by
    intro h
    rcases h with h | ⟨_, h⟩
    · exact hne h
    · rw [hrd] at h; exact lenWord_pos n (by omega) h
  rw [if_neg hc1, if_neg (by simp [hl8])]
  unfold decodeBody
  rw [hrd, decodeFrameSize_lenWord n h56]
  unfold decodeSized
  have hlim : Gen.wal_decSizeLimit (n : Int) ((padOf n : Nat) : Int) = false := by
    unfold Gen.wal_decSizeLimit
    rw [sizeLimit_spec.1]
    have := hwf.2
    simp; omega
  have hneed : ((n : Int) + ((padOf n : Nat) : Int)).toNat = n + padOf n := by omega
  have hdrop : (le64 (lenWord n) ++ (body.take (m - 8) ++ zeros k)).drop 8 = body.take (m - 8) ++ zeros k := by
    simp [le64]
  rw [hlim, hneed, hdrop]
  simp only [Bool.false_eq_true, if_false]
  by_cases hshort : hasLen (body.take (m - 8) ++ zeros k) (n + padOf n) = true
  · rw [if_neg (by simp [hshort])]
    have hk : n + padOf n ≤ (m - 8) + k := by
      rw [hasLen_iff] at hshort; simp [zeros, hal'] at hshort; omega
    -- the data the decoder gets: the intact part, then zeros up to the end of the frame
    have hdata : (body.take (m - 8) ++ zeros k).take (n + padOf n) = body.take (m - 8) ++ zeros (n + padOf n - (m - 8)) := by
      rw [List.take_append, hal']
      have : List.take (n + padOf n) (body.take (m - 8)) = body.take (m - 8) :=
        List.take_of_length_le (by rw [hal']; omega)
      rw [this]
      simp [zeros, List.take_replicate]; omega
    rw [hdata]
    have hal2 : (off + 8 + (body.take (m - 8)).length) % 512 = 0 := by
      rw [hal']
      have : off + 8 + (m - 8) = off + m := by omega
      rw [this]; exact hal
    have htorn : isTornEntry 1 off (body.take (m - 8) ++ zeros (n + padOf n - (m - 8))) = true :=
      isTornEntry_last off _ _ (by omega) hal2
    unfold decodeData
    simp only [List.length_singleton, htorn, if_true]
    split
    · exact CutOutcome.ueof _ rfl
    · split
      · split
        · exact CutOutcome.accepted _ _
        · exact CutOutcome.ueof _ rfl
      · exact CutOutcome.accepted _ _
  · rw [if_pos (by simp [hshort])]
    exact CutOutcome.ueof _ rfl


theorem frame_length_mod8 (r : Rec) (hwf : r.wf) : (frame r).length % 8 = 0 := by
  rw [frame_length r hwf.len56]
  unfold padOf; omega

/-- **truncation with zero fill** (preallocated tail segment whose bytes from `n` on read as zeros), for every `n` that is
    a frame boundary or a sector boundary of the file: decoding returns exactly the records whose frames are complete
    and stops with EOF / unexpected EOF at the end of the last complete frame — or the decoder accepted the damaged
    frame (its bytes still unmarshal and pass the crc test: the lost bytes were zeros anyway, or a crc collision) -/
theorem stream_take_zeros (crcf : UInt32 → Bytes → UInt32) (hnil : ∀ c, crcf c [] = c) :
    ∀ (rs : List Rec) (c : UInt32) (off n k fuel : Nat), Sealed crcf c rs → rs.length < fuel → off % 8 = 0 →
      ((wholeRem rs n).2 = 0 ∨ (off + n) % 512 = 0) →
      ((stream crcf fuel ⟨[(framesOf rs).take n ++ zeros k], off, c⟩).1 = rs.take (wholeRem rs n).1 ∧
       ((stream crcf fuel ⟨[(framesOf rs).take n ++ zeros k], off, c⟩).2.1 = .eof ∨
        (stream crcf fuel ⟨[(framesOf rs).take n ++ zeros k], off, c⟩).2.1 = .ueof) ∧
       (stream crcf fuel ⟨[(framesOf rs).take n ++ zeros k], off, c⟩).2.2.off = off + (framesOf (rs.take (wholeRem rs n).1)).length)
      ∨ (∃ r rs' r' d, rs.drop (wholeRem rs n).1 = r :: rs' ∧
          decodeRecord crcf [(frame r).take (wholeRem rs n).2 ++ zeros k]
            (off + (framesOf (rs.take (wholeRem rs n).1)).length) (crcAfter c (rs.take (wholeRem rs n).1)) = .got r' d) := by
  intro rs
  induction rs with
  | nil =>
    intro c off n k fuel _ hf _ _
    cases fuel with
    | zero => omega
    | succ f =>
      left
      simp only [framesOf, List.take_nil, List.nil_append, wholeRem]
      rw [stream_zeros]
      split <;> simp
  | cons r rs ih =>
    intro c off n k fuel hs hf hoff hal
    obtain ⟨h1, h2, h3, h4⟩ := hs
    have hl8 := frame_length_mod8 r h2
    cases fuel with
    | zero => omega
    | succ f =>
      by_cases hfit : (frame r).length ≤ n
      · have ht : (framesOf (r :: rs)).take n ++ zeros k = frame r ++ ((framesOf rs).take (n - (frame r).length) ++ zeros k) := by
          simp only [framesOf]
          rw [List.take_append, List.take_of_length_le hfit]
          simp
        have hw : wholeRem (r :: rs) n = ((wholeRem rs (n - (frame r).length)).1 + 1, (wholeRem rs (n - (frame r).length)).2) := by
          simp only [wholeRem, if_pos hfit]
        rw [ht, hw, stream_frame crcf hnil r _ [] off f c h1 h2 h3]
        have hal' : (wholeRem rs (n - (frame r).length)).2 = 0 ∨ (off + (frame r).length + (n - (frame r).length)) % 512 = 0 := by
          rw [hw] at hal
          rcases hal with h | h
          · exact Or.inl h
          · right
            have : off + (frame r).length + (n - (frame r).length) = off + n := by omega
            rw [this]; exact h
        have := ih r.crc (off + (frame r).length) (n - (frame r).length) k f h4 (by simp at hf; omega) (by omega) hal'
        rcases this with ⟨e1, e2, e3⟩ | ⟨r0, rs0, r', d, e1, e2⟩
        · left
          simp only [List.take_succ_cons, framesOf, List.length_append]
          refine ⟨by rw [e1], e2, ?_⟩
          rw [e3]; omega
        · right
          refine ⟨r0, rs0, r', d, ?_, ?_⟩
          · simpa using e1
          · simp only [List.take_succ_cons, framesOf, List.length_append, crcAfter]
            rw [← Nat.add_assoc]; exact e2
      · have hlt : n < (frame r).length := by omega
        have ht : (framesOf (r :: rs)).take n = (frame r).take n := by
          simp only [framesOf]
          rw [List.take_append]
          have : n - (frame r).length = 0 := by omega
          simp [this]
        have hw : wholeRem (r :: rs) n = (0, n) := by simp only [wholeRem, if_neg hfit]
        rw [ht, hw]
        by_cases h0 : n = 0
        · left
          subst h0
          simp only [List.take_zero, List.nil_append, framesOf, List.length_nil, Nat.add_zero]
          rw [stream_zeros]
          split <;> simp
        · have hal0 : (off + n) % 512 = 0 := by
            rw [hw] at hal
            rcases hal with h | h
            · exact absurd h h0
            · exact h
          have hn8 : 8 ≤ n := by omega
          have hc := decodeRecord_cut_zeros crcf r n k off c h2 hlt hn8 hal0
          generalize hres : decodeRecord crcf [(frame r).take n ++ zeros k] off c = res at hc
          cases hc with
          | eof d hd =>
            left
            rw [stream_stop crcf f _ _ _ hres]
            simp [framesOf, hd]
          | ueof d hd =>
            left
            rw [stream_stop crcf f _ _ _ hres]
            simp [framesOf, hd]
          | accepted r' d =>
            right
            exact ⟨r, rs, r', d, by simp, by simpa [framesOf, crcAfter] using hres⟩

end Z.Wal
