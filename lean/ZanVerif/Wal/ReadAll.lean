/-
  C05 model, part 3: `WAL.ReadAll` (write mode), `ValidSnapshotEntries`, `Repair` and the restart sequence
  of node/raft.go (`startRaft` → `ValidSnapshotEntries`, newest valid snapshot, `openWAL`: Open + ReadAll,
  one `Repair` on error, Open + ReadAll again).  Core only.

  The read loops of the real code interleave decoding and record handling; decoding does not depend on the
  handlers, so `ReadAll` is: decode up to the first stop (`stream`), fold the handler over the decoded
  records (a handler error comes first in time), then look at the stop.
-/
import ZanVerif.Wal.Record

namespace Z.Wal

/-- how a restart ends when it does not return a log -/
inductive Fail
  | ueof | crc | unmarshal | maxSize | metadataConflict | snapMismatch | snapNotFound | indexGap | blockType
  | fileNotFound | panicUnmarshal | fuel
  deriving DecidableEq, Repr

def Fail.name : Fail → String
  | .ueof => "unexpected-eof" | .crc => "crc" | .unmarshal => "unmarshal" | .maxSize => "max-size"
  | .metadataConflict => "metadata-conflict" | .snapMismatch => "snap-mismatch" | .snapNotFound => "snap-not-found"
  | .indexGap => "index-gap" | .blockType => "block-type" | .fileNotFound => "file-not-found"
  | .panicUnmarshal => "panic-unmarshal" | .fuel => "model-fuel"

def Stop.toFail : Stop → Fail
  | .eof => .fuel        -- not a failure; callers test for eof first
  | .ueof => .ueof | .crc => .crc | .unmarshal => .unmarshal | .maxSize => .maxSize | .chain => .crc | .fuel => .fuel

/-! ### the effect of a record list: what `ReadAll` accumulates -/

structure Acc where
  mdata : Option Bytes := none
  state : HardState := HardState.empty
  ents : List Entry := []
  matched : Bool := false
  enti : Nat := 0
  deriving Repr

/-- `ents = append(ents[:up], e)` guarded as in `ReadAll` (regenerated expressions) -/
def addEntry (start : Snap) (ents : List Entry) (e : Entry) : Except Fail (List Entry) :=
  if Gen.wal_readKeep (Int.ofNat e.index) (Int.ofNat start.index) then
    let up := (Gen.wal_readUp (Int.ofNat e.index) (Int.ofNat start.index)).toNat
    if Gen.wal_readGap (Int.ofNat up) (Int.ofNat ents.length) then .error .indexGap
    else .ok (ents.take up ++ [e])
  else .ok ents

/-- one iteration of the `switch rec.Type` of `ReadAll` (crcType is handled by `stream`) -/
def handle (start : Snap) (a : Acc) (r : Rec) : Except Fail Acc :=
  if r.type = entryType then
    match unmarshalEntry (r.data.getD []) with
    | .error _ => .error .panicUnmarshal
    | .ok e =>
      match addEntry start a.ents e with
      | .error f => .error f
      | .ok es => .ok { a with ents := es, enti := e.index }
  else if r.type = stateType then
    match unmarshalState (r.data.getD []) with
    | .error _ => .error .panicUnmarshal
    | .ok s => .ok { a with state := s }
  else if r.type = metadataType then
    match a.mdata with
    | some m => if m ≠ r.data.getD [] then .error .metadataConflict else .ok { a with mdata := r.data }
    | none => .ok { a with mdata := r.data }
  else if r.type = crcType then .ok a
  else if r.type = snapshotType then
    match unmarshalSnap (r.data.getD []) with
    | .error _ => .error .panicUnmarshal
    | .ok s =>
      if s.index = start.index then
        if s.term ≠ start.term then .error .snapMismatch else .ok { a with matched := true }
      else .ok a
  else .error .blockType

def effectFrom (start : Snap) : Acc → List Rec → Except Fail Acc
  | a, [] => .ok a
  | a, r :: rs => match handle start a r with
    | .error f => .error f
    | .ok a' => effectFrom start a' rs

/-- **the effect of a record list** read from snapshot `start` -/
def effect (start : Snap) (rs : List Rec) : Except Fail Acc := effectFrom start {} rs

/-! ### ReadAll in write mode -/

/-- result of `ReadAll`: metadata, hard state, entries — and the decoder's last valid offset of the tail, which
    is where the file is cut (`ZeroToEnd`) and appended to -/
def readAll (crcf : UInt32 → Bytes → UInt32) (start : Snap) (segs : List Bytes) : Except Fail (Acc × Nat) :=
  let (rs, stop, d) := streamAll crcf segs
  match effect start rs with
  | .error f => .error f
  | .ok a =>
    if stop = .eof then
      -- `err = ErrSnapshotNotFound` when no marker matched is overwritten by `w.encoder, err = newFileEncoder(…)`
      -- in write mode, so the missing marker is not reported (modelled as the code behaves)
      .ok (a, d.off)
    else .error stop.toFail

/-! ### ValidSnapshotEntries -/

def vseFold : HardState × List Snap → List Rec → Except Fail (HardState × List Snap)
  | a, [] => .ok a
  | (st, sn), r :: rs =>
    if r.type = snapshotType then
      match unmarshalSnap (r.data.getD []) with
      | .error _ => .error .panicUnmarshal
      | .ok s => vseFold (st, sn ++ [s]) rs
    else if r.type = stateType then
      match unmarshalState (r.data.getD []) with
      | .error _ => .error .panicUnmarshal
      | .ok s => vseFold (s, sn) rs
    else vseFold (st, sn) rs

def validSnapshotEntries (crcf : UInt32 → Bytes → UInt32) (segs : List Bytes) : Except Fail (List Snap) :=
  let (rs, stop, _) := streamAll crcf segs
  match vseFold (HardState.empty, []) rs with
  | .error f => .error f
  | .ok (st, sn) =>
    if stop = .eof ∨ stop = .ueof ∨ stop = .maxSize then
      .ok (sn.filter (fun s => Gen.wal_snapValid (Int.ofNat s.index) (Int.ofNat st.commit)))
    else .error stop.toFail

/-! ### Repair (last segment only) -/

/-- `none`: cannot repair (returns false); `some b`: the tail afterwards -/
def repair (crcf : UInt32 → Bytes → UInt32) (tail : Bytes) : Option Bytes :=
  let (_, stop, d) := streamAll crcf [tail]
  match stop with
  | .eof => some tail
  | .ueof => some (tail.take d.off)
  | .maxSize => some (tail.take d.off)
  | _ => none

/-! ### Open: which segment files are read -/

/-- `searchIndex`: the last segment whose first index is ≤ the snapshot index (`names` = first indexes) -/
def searchIndex (firsts : List Nat) (index : Nat) : Option Nat :=
  let rec go : List Nat → Nat → Option Nat → Option Nat
    | [], _, best => best
    | f :: fs, i, best => go fs (i + 1) (if index ≥ f then some i else best)
  go firsts 0 none

structure Seg where
  seq : Nat
  first : Nat
  bytes : Bytes
  deriving Repr

def openAt (segs : List Seg) (start : Snap) : Except Fail (List Bytes) :=
  match searchIndex (segs.map (·.first)) start.index with
  | none => .error .fileNotFound
  | some i => .ok ((segs.drop i).map (·.bytes))       -- isValidSeq: the writer numbers segments consecutively

/-! ### newest snapshot: the harness simulates that every marker has its snapshot file; files sort by
    (term, index); `pick` skips that many -/

def snapNewer (a b : Snap) : Bool := a.term > b.term || (a.term == b.term && a.index > b.index)

/-- stable insertion sort, newest first -/
def insertSnap (s : Snap) : List Snap → List Snap
  | [] => [s]
  | x :: xs => if snapNewer s x then s :: x :: xs else x :: insertSnap s xs

def sortSnaps (l : List Snap) : List Snap := l.foldl (fun acc s => insertSnap s acc) []

def pickSnap (valid : List Snap) (pick : Nat) : Snap :=
  let s := sortSnaps valid
  if s.length = 0 then ⟨0, 0⟩ else s.getD (pick % s.length) ⟨0, 0⟩

/-! ### the restart sequence -/

/-- `openWAL` of node/raft.go on the selected segment files: ReadAll; on any error one `Repair` of the last segment and
    ReadAll again.  The flag says whether `Repair` ran successfully. -/
def readAllRepair (crcf : UInt32 → Bytes → UInt32) (start : Snap) (files : List Bytes) : Except (Fail × Bool) (Acc × Bool) :=
  match readAll crcf start files with
  | .ok (a, _) => .ok (a, false)
  | .error f =>
    match files.getLast? with
    | none => .error (f, false)
    | some l =>
      match repair crcf l with
      | none => .error (f, false)
      | some t =>
        match readAll crcf start (files.dropLast ++ [t]) with
        | .ok (a, _) => .ok (a, true)
        | .error f' => .error (f', true)

structure Restart where
  repaired : Bool
  start : Snap
  acc : Acc
  snaps : List Snap
  deriving Repr

/-- the restart sequence: `ValidSnapshotEntries` over all segments, newest valid snapshot, the segments from the one
    that covers the snapshot index on (`Repair` works on the last segment, which is always among them) -/
def restart (crcf : UInt32 → Bytes → UInt32) (segs : List Seg) (pick : Nat) (atSnap : Option Snap := none) :
    Except (Fail × Bool) Restart :=
  match validSnapshotEntries crcf (segs.map (·.bytes)) with
  | .error f => .error (f, false)
  | .ok snaps =>
    -- `atSnap`: a snapshot file chosen by hand, whose marker may be missing from the WAL
    let start := atSnap.getD (pickSnap snaps pick)
    match openAt segs start with
    | .error f => .error (f, false)
    | .ok bs =>
      match readAllRepair crcf start bs with
      | .ok (a, rep) => .ok ⟨rep, start, a, snaps⟩
      | .error e => .error e

end Z.Wal
