/-
  C05 lemmas, part 12: `Repair` of a tail segment that ends at an arbitrary byte, and `ReadAll` + `Repair` + `ReadAll`
  (the sequence of node/raft.go's openWAL) on it.
-/
import ZanVerif.Wal.MainLemmas

namespace Z.Wal

/-- a complete `crcType` record at the head of a reader is accepted by a decoder whose crc is 0 (a new decoder: `Repair`,
    or `Open` at a later segment) exactly as by one that carries the chained crc -/
theorem stream_head_crc (crcf : UInt32 → Bytes → UInt32) (hnil : ∀ c, crcf c [] = c) (r : Rec) (t : Bytes) (rest : List Bytes)
    (off f : Nat) (c : UInt32) (hs : r.crc = crcf c (r.data.getD [])) (hwf : r.wf) (h0 : r.type = crcType)
    (hct : r.data.getD [] = []) :
    stream crcf (f + 1) ⟨(frame r ++ t) :: rest, off, 0⟩ =
      (r :: (stream crcf f ⟨t :: rest, off + (frame r).length, r.crc⟩).1,
       (stream crcf f ⟨t :: rest, off + (frame r).length, r.crc⟩).2) := by
  rw [stream]
  simp only []
  rw [decodeRecord_frame crcf r t rest off 0 hwf (fun h => absurd h0 h)]
  have hb : Gen.wal_chainBad (Int.ofNat (0 : UInt32).toNat) (!Gen.wal_validateOk (Int.ofNat r.crc.toNat) (Int.ofNat (0 : UInt32).toNat)) = false := by
    unfold Gen.wal_chainBad; simp
  simp only [h0, if_true]
  rw [hb]
  simp

/-- a new decoder (crc 0: `Open` at a later segment, `Repair`, `ValidSnapshotEntries` never — it starts at the first
    segment) reads files that begin with a complete sealed crc record exactly like a decoder carrying the chain value -/
theorem streamAll_start (crcf : UInt32 → Bytes → UInt32) (hnil : ∀ c, crcf c [] = c) (c0 : UInt32) (r0 : Rec) (rs : List Rec)
    (t : Bytes) (rest : List Bytes) (hs : Sealed crcf c0 (r0 :: rs)) (h0 : r0.type = crcType) :
    streamAll crcf ((framesOf (r0 :: rs) ++ t) :: rest) = streamFrom crcf c0 ((framesOf (r0 :: rs) ++ t) :: rest) := by
  obtain ⟨h1, h2, h3, _⟩ := hs
  unfold streamAll streamFrom
  generalize totalLen ((framesOf (r0 :: rs) ++ t) :: rest) / 8 = N
  have e : framesOf (r0 :: rs) ++ t = frame r0 ++ (framesOf rs ++ t) := by simp [framesOf]
  rw [e, show N + 2 = (N + 1) + 1 from rfl, stream_head_crc crcf hnil r0 _ rest 0 (N + 1) c0 h1 h2 h0 (h3 h0),
    stream_frame crcf hnil r0 _ rest 0 (N + 1) c0 h1 h2 h3]

/-- where a restart may start reading: at the first segment of the WAL (chain value 0) or at a later closed segment,
    which begins with the crc record that carries the chain value -/
def StartOk (c0 : UInt32) (pre : List (List Rec)) : Prop :=
  c0 = 0 ∨ ∃ r0 rs more, pre = (r0 :: rs) :: more ∧ r0.type = crcType

theorem wholeRem_exact : ∀ (rs : List Rec) (j : Nat), (∀ r ∈ rs, 0 < (frame r).length) → j ≤ rs.length →
    wholeRem rs (framesOf (rs.take j)).length = (j, 0) := by
  intro rs
  induction rs with
  | nil => intro j _ hj; simp at hj; subst hj; simp [wholeRem, framesOf]
  | cons r rs ih =>
    intro j hpos hj
    cases j with
    | zero =>
      have := hpos r (by simp)
      simp only [List.take_zero, framesOf, List.length_nil, wholeRem]
      rw [if_neg (by omega)]
    | succ j =>
      simp only [List.take_succ_cons, framesOf, List.length_append, wholeRem]
      rw [if_pos (by omega)]
      have := ih j (fun r' hr' => hpos r' (by simp [hr'])) (by simp at hj; omega)
      simp only [Nat.add_sub_cancel_left, this]

theorem sealed_frame_pos (crcf : UInt32 → Bytes → UInt32) : ∀ (rs : List Rec) (c : UInt32), Sealed crcf c rs →
    ∀ r ∈ rs, 0 < (frame r).length := by
  intro rs
  induction rs with
  | nil => intro c _ r hr; simp at hr
  | cons r0 rs ih =>
    intro c hs r hr
    obtain ⟨_, h2, _, h4⟩ := hs
    simp only [List.mem_cons] at hr
    rcases hr with rfl | hr
    · rw [frame_length r h2.len56]; omega
    · exact ih _ h4 r hr

theorem wholeRem_le : ∀ (rs : List Rec) (n : Nat), (wholeRem rs n).1 ≤ rs.length := by
  intro rs
  induction rs with
  | nil => intro n; simp [wholeRem]
  | cons r rs ih =>
    intro n
    simp only [wholeRem]
    split
    · have := ih (n - (frame r).length); simp; omega
    · simp

theorem streamAll_start_segs (crcf : UInt32 → Bytes → UInt32) (hnil : ∀ c, crcf c [] = c) (c0 : UInt32) (pre : List (List Rec))
    (tail : List Rec) (tb : Bytes) (hs : SealedSegs crcf c0 (pre ++ [tail])) (hst : StartOk c0 pre) :
    streamAll crcf (pre.map framesOf ++ [tb]) = streamFrom crcf c0 (pre.map framesOf ++ [tb]) := by
  rcases hst with h | ⟨r0, rs, more, hp, h0⟩
  · subst h; rfl
  · subst hp
    simp only [List.cons_append, SealedSegs] at hs
    have := streamAll_start crcf hnil c0 r0 rs [] (more.map framesOf ++ [tb]) hs.1 h0
    simpa using this

/-- decoding a cut tail segment with a fresh decoder (crc 0): same records, same stop, same last valid offset -/
theorem stream_take0 (crcf : UInt32 → Bytes → UInt32) (hnil : ∀ c, crcf c [] = c) (r0 : Rec) (rs : List Rec) (c : UInt32)
    (n fuel : Nat) (hs : Sealed crcf c (r0 :: rs)) (h0 : r0.type = crcType) (hf : (r0 :: rs).length < fuel) :
    (stream crcf fuel ⟨[(framesOf (r0 :: rs)).take n], 0, 0⟩).1 = (r0 :: rs).take (wholeRem (r0 :: rs) n).1 ∧
    (stream crcf fuel ⟨[(framesOf (r0 :: rs)).take n], 0, 0⟩).2.1 = (if (wholeRem (r0 :: rs) n).2 = 0 then Stop.eof else Stop.ueof) ∧
    (stream crcf fuel ⟨[(framesOf (r0 :: rs)).take n], 0, 0⟩).2.2.off = (framesOf ((r0 :: rs).take (wholeRem (r0 :: rs) n).1)).length := by
  obtain ⟨h1, h2, h3, h4⟩ := hs
  cases fuel with
  | zero => omega
  | succ f =>
    by_cases hfit : (frame r0).length ≤ n
    · have ht : (framesOf (r0 :: rs)).take n = frame r0 ++ (framesOf rs).take (n - (frame r0).length) := by
        simp only [framesOf]
        rw [List.take_append, List.take_of_length_le hfit]
      have hw : wholeRem (r0 :: rs) n = ((wholeRem rs (n - (frame r0).length)).1 + 1, (wholeRem rs (n - (frame r0).length)).2) := by
        simp only [wholeRem, if_pos hfit]
      rw [ht, hw, stream_head_crc crcf hnil r0 _ [] 0 f c h1 h2 h0 (h3 h0)]
      have := stream_take crcf hnil rs r0.crc (0 + (frame r0).length) (n - (frame r0).length) f h4 (by simp at hf; omega)
      simp only [List.take_succ_cons, framesOf, List.length_append]
      refine ⟨by rw [this.1], this.2.1, ?_⟩
      rw [this.2.2.1]; omega
    · -- cut inside the first frame: the decoder's crc plays no role
      have hw : wholeRem (r0 :: rs) n = (0, n) := by simp only [wholeRem, if_neg hfit]
      have ht : (framesOf (r0 :: rs)).take n = (frame r0).take n := by
        simp only [framesOf]
        rw [List.take_append]
        have : n - (frame r0).length = 0 := by omega
        simp [this]
      have hd := decodeRecord_cut crcf r0 n 0 0 h2 (by omega)
      rw [ht, hw]
      by_cases hn0 : n = 0
      · rw [if_pos hn0] at hd
        rw [stream_stop crcf f _ _ _ hd]; simp [hn0, framesOf]
      · rw [if_neg hn0] at hd
        rw [stream_stop crcf f _ _ _ hd]; simp [hn0, framesOf]

theorem take_framesOf_le (rs : List Rec) (j n : Nat) (h : (framesOf (rs.take j)).length ≤ n) :
    ((framesOf rs).take n).take (framesOf (rs.take j)).length = framesOf (rs.take j) := by
  rw [List.take_take, Nat.min_eq_left h, framesOf_take_drop rs j, List.take_append_of_le_length (Nat.le_refl _)]
  exact List.take_of_length_le (Nat.le_refl _)

/-- **`Repair` of a tail segment that ends at byte `n`**: always succeeds and leaves exactly the complete frames -/
theorem repair_cut (crcf : UInt32 → Bytes → UInt32) (hnil : ∀ c, crcf c [] = c) (r0 : Rec) (rs : List Rec) (c : UInt32) (n : Nat)
    (hs : Sealed crcf c (r0 :: rs)) (h0 : r0.type = crcType) :
    repair crcf ((framesOf (r0 :: rs)).take n) = some (framesOf ((r0 :: rs).take (wholeRem (r0 :: rs) n).1)) := by
  unfold repair
  rw [streamAll_eq crcf _ (r0 :: rs).length]
  have := stream_take0 crcf hnil r0 rs c n (totalLen [(framesOf (r0 :: rs)).take n] / 8 + 2 + (r0 :: rs).length) hs h0 (by omega)
  generalize stream crcf _ _ = res at this
  obtain ⟨recs, stop, d⟩ := res
  simp only [] at this
  obtain ⟨_, hstop, hoff⟩ := this
  have hsp := wholeRem_spec (r0 :: rs) n
  by_cases hrem : (wholeRem (r0 :: rs) n).2 = 0
  · rw [if_pos hrem] at hstop
    subst hstop
    simp only []
    rw [hsp.2 hrem]
  · rw [if_neg hrem] at hstop
    subst hstop
    simp only []
    rw [hoff, take_framesOf_le (r0 :: rs) _ n hsp.1]

theorem sealedSegs_replace_tail (crcf : UInt32 → Bytes → UInt32) : ∀ (pre : List (List Rec)) (tail tail' : List Rec) (c : UInt32),
    SealedSegs crcf c (pre ++ [tail]) → Sealed crcf (crcAfterSegs c pre) tail' → SealedSegs crcf c (pre ++ [tail']) := by
  intro pre
  induction pre with
  | nil => intro tail tail' c _ h; simpa [SealedSegs, crcAfterSegs] using h
  | cons s ss ih =>
    intro tail tail' c hs h
    simp only [List.cons_append, SealedSegs, crcAfterSegs] at hs h ⊢
    exact ⟨hs.1, ih tail tail' _ hs.2 h⟩

theorem readAll_of_parts (crcf : UInt32 → Bytes → UInt32) (start : Snap) (files : List Bytes) (recs : List Rec) (stop : Stop) (off : Nat)
    (h1 : (streamAll crcf files).1 = recs) (h2 : (streamAll crcf files).2.1 = stop) (h3 : (streamAll crcf files).2.2.off = off) :
    readAll crcf start files =
      (match effect start recs with
       | .error f => .error f
       | .ok a => if stop = .eof then .ok (a, off) else .error stop.toFail) := by
  unfold readAll
  generalize streamAll crcf files = res at h1 h2 h3
  obtain ⟨r, s, d⟩ := res
  simp only [] at h1 h2 h3
  subst h1; subst h2; subst h3
  simp only []
  cases effect start r <;> rfl

theorem readAll_of_stream (crcf : UInt32 → Bytes → UInt32) (start : Snap) (files : List Bytes) (recs : List Rec) (stop : Stop) (d : Dec)
    (h : streamAll crcf files = (recs, stop, d)) :
    readAll crcf start files =
      (match effect start recs with
       | .error f => .error f
       | .ok a => if stop = .eof then .ok (a, d.off) else .error stop.toFail) := by
  unfold readAll
  rw [h]
  simp only []
  cases effect start recs <;> rfl

/-- **`ReadAll`, and after a failure `Repair` and `ReadAll` again, on a WAL whose tail segment ends at byte `n`**, read
    from its first segment (`c0 = 0`) or from a later closed segment on -/
theorem readAllRepair_cut (crcf : UInt32 → Bytes → UInt32) (hnil : ∀ c, crcf c [] = c) (start : Snap) (c0 : UInt32)
    (pre : List (List Rec)) (r0 : Rec) (rs : List Rec) (n : Nat) (hs : SealedSegs crcf c0 (pre ++ [r0 :: rs]))
    (hst : StartOk c0 pre) (h0 : r0.type = crcType) :
    readAllRepair crcf start (pre.map framesOf ++ [(framesOf (r0 :: rs)).take n]) =
      (match effect start (pre.flatten ++ (r0 :: rs).take (wholeRem (r0 :: rs) n).1) with
       | .ok a => .ok (a, decide ((wholeRem (r0 :: rs) n).2 ≠ 0))
       | .error f => .error (f, true)) := by
  obtain ⟨_, hsl, _, _⟩ := sealedSegs_split crcf pre (r0 :: rs) c0 hs
  -- the first ReadAll
  have hcut := streamFrom_cut crcf hnil c0 pre (r0 :: rs) n hs
  rw [← streamAll_start_segs crcf hnil c0 pre (r0 :: rs) _ hs hst] at hcut
  generalize hres : streamAll crcf (pre.map framesOf ++ [(framesOf (r0 :: rs)).take n]) = res at hcut
  obtain ⟨recs, stop, d⟩ := res
  simp only [] at hcut
  obtain ⟨hrecs, hstop, hoff, _⟩ := hcut
  have hra := readAll_of_stream crcf start _ recs stop d hres
  rw [hrecs] at hra
  -- Repair and the second ReadAll
  have hrep := repair_cut crcf hnil r0 rs (crcAfterSegs c0 pre) n hsl h0
  have hs' : SealedSegs crcf c0 (pre ++ [(r0 :: rs).take (wholeRem (r0 :: rs) n).1]) :=
    sealedSegs_replace_tail crcf pre _ _ c0 hs (sealed_take crcf _ _ _ hsl)
  have hrt := streamFrom_roundtrip crcf hnil c0 pre ((r0 :: rs).take (wholeRem (r0 :: rs) n).1) 0 hs' (Or.inl rfl)
  rw [← streamAll_start_segs crcf hnil c0 pre _ _ hs' hst] at hrt
  simp only [zeros, List.replicate_zero, List.append_nil] at hrt
  have hra2 := readAll_of_stream crcf start _ _ _ _ hrt
  have hlast : (pre.map framesOf ++ [(framesOf (r0 :: rs)).take n]).getLast? = some ((framesOf (r0 :: rs)).take n) := by simp
  have hdl : (pre.map framesOf ++ [(framesOf (r0 :: rs)).take n]).dropLast = pre.map framesOf := by simp
  unfold readAllRepair
  rw [hra]
  cases heff : effect start (pre.flatten ++ (r0 :: rs).take (wholeRem (r0 :: rs) n).1) with
  | error f =>
    rw [heff] at hra2
    simp only [hlast, hrep, hdl, hra2]
  | ok a =>
    rw [heff] at hra2
    simp only []
    by_cases hrem : (wholeRem (r0 :: rs) n).2 = 0
    · rw [if_pos hrem] at hstop
      simp [hstop, hrem]
    · rw [if_neg hrem] at hstop
      simp only [hstop, hlast, hrep, hdl, hra2]
      simp [hrem]

/-- the same when the restart reads the tail segment only (`Open` at a snapshot whose index lies in the tail): the new
    decoder takes the chain value from the tail's crc record -/
theorem readAllRepair_cut_tail (crcf : UInt32 → Bytes → UInt32) (hnil : ∀ c, crcf c [] = c) (start : Snap) (c0 : UInt32)
    (r0 : Rec) (rs : List Rec) (n : Nat) (hs : Sealed crcf c0 (r0 :: rs)) (h0 : r0.type = crcType) :
    readAllRepair crcf start [(framesOf (r0 :: rs)).take n] =
      (match effect start ((r0 :: rs).take (wholeRem (r0 :: rs) n).1) with
       | .ok a => .ok (a, decide ((wholeRem (r0 :: rs) n).2 ≠ 0))
       | .error f => .error (f, true)) := by
  -- the first ReadAll
  have h1 := stream_take0 crcf hnil r0 rs c0 n (totalLen [(framesOf (r0 :: rs)).take n] / 8 + 2 + (r0 :: rs).length) hs h0 (by omega)
  rw [← streamAll_eq] at h1
  have hra := readAll_of_parts crcf start _ _ _ _ h1.1 h1.2.1 h1.2.2
  -- Repair, then the second ReadAll on exactly the complete frames
  have hrep := repair_cut crcf hnil r0 rs c0 n hs h0
  have hjl := wholeRem_le (r0 :: rs) n
  have hex := wholeRem_exact (r0 :: rs) (wholeRem (r0 :: rs) n).1 (sealed_frame_pos crcf _ c0 hs) hjl
  have h2 := stream_take0 crcf hnil r0 rs c0 (framesOf ((r0 :: rs).take (wholeRem (r0 :: rs) n).1)).length
    (totalLen [(framesOf (r0 :: rs)).take (framesOf ((r0 :: rs).take (wholeRem (r0 :: rs) n).1)).length] / 8 + 2 + (r0 :: rs).length) hs h0 (by omega)
  rw [← streamAll_eq, hex] at h2
  have htk : (framesOf (r0 :: rs)).take (framesOf ((r0 :: rs).take (wholeRem (r0 :: rs) n).1)).length =
      framesOf ((r0 :: rs).take (wholeRem (r0 :: rs) n).1) := by
    have e := framesOf_take_drop (r0 :: rs) (wholeRem (r0 :: rs) n).1
    generalize framesOf ((r0 :: rs).take (wholeRem (r0 :: rs) n).1) = A at e ⊢
    rw [e, List.take_append_of_le_length (Nat.le_refl _)]
    exact List.take_of_length_le (Nat.le_refl _)
  rw [htk] at h2
  have hra2 := readAll_of_parts crcf start _ _ _ _ h2.1 h2.2.1 h2.2.2
  simp only [if_true] at hra2
  unfold readAllRepair
  rw [hra]
  cases heff : effect start ((r0 :: rs).take (wholeRem (r0 :: rs) n).1) with
  | error f =>
    rw [heff] at hra2
    simp only [List.getLast?_singleton, hrep, List.dropLast_singleton, List.nil_append, hra2]
  | ok a =>
    rw [heff] at hra2
    simp only []
    by_cases hrem : (wholeRem (r0 :: rs) n).2 = 0
    · simp [hrem]
    · simp only [if_neg hrem, List.getLast?_singleton, hrep, List.dropLast_singleton, List.nil_append, hra2]
      simp [hrem]

end Z.Wal
