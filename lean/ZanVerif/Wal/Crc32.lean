/-
  C05 model: the concrete rolling checksum, `crc32.Update(c, castagnoliTable, p)` = `^update(^c, p)`, over the
  table-driven CRC-32C of `ZanVerif/Wal/Crc.lean` (core only).  The executable version looks the table up in a
  precomputed array; `crc32c_spec` proves it equal to the definition the detection theorem is about.
-/
import ZanVerif.Wal.Crc
import ZanVerif.Wal.Proto

namespace Z.Wal

/-- the 256 table entries, computed once from the bitwise definition -/
def crcTab : Array Nat := (Array.range 256).map Z.Crc.tab

def updFast (c : Nat) (b : UInt8) : Nat := crcTab[(c ^^^ b.toNat) % 256]! ^^^ (c >>> 8)

def crc32c (c : UInt32) (bs : Bytes) : UInt32 :=
  UInt32.ofNat (bs.foldl updFast (c.toNat ^^^ 0xFFFFFFFF) ^^^ 0xFFFFFFFF)

theorem crcTab_get (i : Nat) (h : i < 256) : crcTab[i]! = Z.Crc.tab i := by
  unfold crcTab
  have hs : i < ((Array.range 256).map Z.Crc.tab).size := by simp [h]
  rw [getElem!_pos _ i hs]
  simp

theorem updFast_eq (c : Nat) (b : UInt8) : updFast c b = Z.Crc.upd c b.toNat := by
  unfold updFast Z.Crc.upd
  rw [crcTab_get _ (Nat.mod_lt _ (by decide))]

theorem foldl_updFast (bs : Bytes) (c : Nat) : bs.foldl updFast c = Z.Crc.crc c (bs.map (·.toNat)) := by
  induction bs generalizing c with
  | nil => rfl
  | cons b bs ih => simp only [List.foldl_cons, List.map_cons, Z.Crc.crc, updFast_eq]; exact ih _

/-- the executable checksum is `^crc(^c, bytes)` of the reference definition -/
theorem crc32c_spec (c : UInt32) (bs : Bytes) :
    crc32c c bs = UInt32.ofNat (Z.Crc.crc (c.toNat ^^^ 0xFFFFFFFF) (bs.map (·.toNat)) ^^^ 0xFFFFFFFF) := by
  unfold crc32c; rw [foldl_updFast]

end Z.Wal
