/-
  64-bit integer helpers used by the regenerated `Gen/WalFrame.lean` (core only).

  The translator renders Go expressions over `Int`.  `uint64(x)` is `u64 x` (the value mod 2^64),
  `int64(x)` / `int(x)` is `i64 x` (the signed reading of the low 64 bits).  The bit operators are
  rendered as `or64 / and64 / shl64 / shr64 / not64`; they are the Go operators **on unsigned 64-bit
  operands** (0 ≤ a, b < 2^64), which is what the translator is told to assume at the sites it renders
  (`"#bits": "u64"`).  `shl64` truncates to 64 bits as Go does.
-/
namespace Z.Bits

def two64 : Int := 18446744073709551616
def two63 : Int := 9223372036854775808

def u64 (x : Int) : Int := x % two64
def i64 (x : Int) : Int := if u64 x < two63 then u64 x else u64 x - two64

def or64 (a b : Int) : Int := Int.ofNat (a.toNat ||| b.toNat)
def and64 (a b : Int) : Int := Int.ofNat (a.toNat &&& b.toNat)
def shl64 (a n : Int) : Int := Int.ofNat ((a.toNat <<< n.toNat) % 18446744073709551616)
def shr64 (a n : Int) : Int := Int.ofNat (a.toNat >>> n.toNat)
def not64 (a : Int) : Int := 18446744073709551615 - u64 a

theorem u64_ofNat (n : Nat) (h : n < 2 ^ 64) : u64 (Int.ofNat n) = Int.ofNat n := by
  unfold u64 two64
  have h1 : (0 : Int) ≤ Int.ofNat n := Int.natCast_nonneg n
  have h2 : Int.ofNat n < 18446744073709551616 := by
    have : (n : Int) < ((2 ^ 64 : Nat) : Int) := Int.ofNat_lt.mpr h
    simpa using this
  exact Int.emod_eq_of_lt h1 h2

theorem u64_nonneg (x : Int) : 0 ≤ u64 x := by
  unfold u64 two64; exact Int.emod_nonneg _ (by decide)

theorem u64_lt (x : Int) : u64 x < 18446744073709551616 := by
  unfold u64 two64; exact Int.emod_lt_of_pos _ (by decide)

end Z.Bits
