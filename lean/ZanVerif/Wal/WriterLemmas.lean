/-
  C05 lemmas, part 11: the writer model produces sealed segments (so the round-trip and truncation theorems apply to
  `encodeHistory`), and what `Save` / `SaveSnapshot` / `Sync` make durable.
-/
import ZanVerif.Wal.SegLemmas
import ZanVerif.Wal.Writer

namespace Z.Wal

theorem sizeLimit_ge : 128 ≤ sizeLimit := by decide
theorem types_small : metadataType < 2 ^ 63 ∧ entryType < 2 ^ 63 ∧ stateType < 2 ^ 63 ∧ crcType < 2 ^ 63 ∧ snapshotType < 2 ^ 63 := by
  decide
theorem types_ne_crc : metadataType ≠ crcType ∧ entryType ≠ crcType ∧ stateType ≠ crcType ∧ snapshotType ≠ crcType := by decide

/-- a payload the decoder will accept back -/
def PayOk (type : Nat) (data : Option Bytes) : Prop :=
  type < 2 ^ 63 ∧ (data.getD []).length + 48 < sizeLimit ∧ (type = crcType → data.getD [] = [])

theorem sealRec_wf (crcf : UInt32 → Bytes → UInt32) (c : UInt32) (type : Nat) (data : Option Bytes) (h : PayOk type data) :
    (sealRec crcf c type data).wf := by
  refine ⟨h.1, ?_⟩
  have := marshalRec_length_le (sealRec crcf c type data)
  have h2 := h.2.1
  simp only [sealRec] at this ⊢
  generalize sizeLimit = L at *
  omega

theorem sealed_snoc (crcf : UInt32 → Bytes → UInt32) : ∀ (rs : List Rec) (c : UInt32) (type : Nat) (data : Option Bytes),
    Sealed crcf c rs → PayOk type data →
    Sealed crcf c (rs ++ [sealRec crcf (crcAfter c rs) type data]) ∧
    crcAfter c (rs ++ [sealRec crcf (crcAfter c rs) type data]) = (sealRec crcf (crcAfter c rs) type data).crc := by
  intro rs
  induction rs with
  | nil =>
    intro c type data _ hp
    exact ⟨⟨rfl, sealRec_wf crcf c type data hp, hp.2.2, trivial⟩, rfl⟩
  | cons r rs ih =>
    intro c type data hs hp
    obtain ⟨h1, h2, h3, h4⟩ := hs
    have := ih r.crc type data h4 hp
    simp only [List.cons_append, Sealed, crcAfter]
    exact ⟨⟨h1, h2, h3, this.1⟩, this.2⟩

theorem sealedSegs_snoc (crcf : UInt32 → Bytes → UInt32) : ∀ (pre : List (List Rec)) (tail : List Rec) (c : UInt32) (type : Nat)
    (data : Option Bytes), SealedSegs crcf c (pre ++ [tail]) → PayOk type data →
    SealedSegs crcf c (pre ++ [tail ++ [sealRec crcf (crcAfterSegs c (pre ++ [tail])) type data]]) ∧
    crcAfterSegs c (pre ++ [tail ++ [sealRec crcf (crcAfterSegs c (pre ++ [tail])) type data]]) =
      (sealRec crcf (crcAfterSegs c (pre ++ [tail])) type data).crc := by
  intro pre
  induction pre with
  | nil =>
    intro tail c type data hs hp
    simp only [List.nil_append, SealedSegs, crcAfterSegs, and_true] at hs ⊢
    exact sealed_snoc crcf tail c type data hs hp
  | cons s ss ih =>
    intro tail c type data hs hp
    simp only [List.cons_append, SealedSegs, crcAfterSegs] at hs ⊢
    have := ih tail (crcAfter c s) type data hs.2 hp
    exact ⟨⟨hs.1, this.1⟩, this.2⟩

theorem sealedSegs_newseg (crcf : UInt32 → Bytes → UInt32) : ∀ (ss : List (List Rec)) (c : UInt32), SealedSegs crcf c ss →
    SealedSegs crcf c (ss ++ [[]]) ∧ crcAfterSegs c (ss ++ [[]]) = crcAfterSegs c ss := by
  intro ss
  induction ss with
  | nil => intro c _; simp [SealedSegs, Sealed, crcAfterSegs, crcAfter]
  | cons s ss ih =>
    intro c hs
    simp only [List.cons_append, SealedSegs, crcAfterSegs] at hs ⊢
    have := ih (crcAfter c s) hs.2
    exact ⟨⟨hs.1, this.1⟩, this.2⟩

/-- the writer's invariant -/
structure Inv (crcf : UInt32 → Bytes → UInt32) (w : WState) : Prop where
  sealed : SealedSegs crcf 0 (w.closedRecs ++ [w.recs])
  tail : w.tail = framesOf w.recs
  closed : w.closed.map (·.bytes) = w.closedRecs.map framesOf
  crc : w.crc = crcAfterSegs 0 (w.closedRecs ++ [w.recs])
  md : w.mdata.length + 48 < sizeLimit

theorem inv_appendRec (crcf : UInt32 → Bytes → UInt32) (w : WState) (type : Nat) (data : Option Bytes) (h : Inv crcf w)
    (hp : PayOk type data) : Inv crcf (appendRec crcf w type data) := by
  have := sealedSegs_snoc crcf w.closedRecs w.recs 0 type data h.sealed hp
  rw [← h.crc] at this
  unfold appendRec
  exact ⟨this.1, by simp [h.tail, framesOf_append, framesOf], h.closed, this.2.symm, h.md⟩

theorem inv_wsync (crcf : UInt32 → Bytes → UInt32) (w : WState) (b : Bool) (h : Inv crcf w) : Inv crcf (wsync w b) := by
  unfold wsync
  split <;> exact ⟨h.sealed, h.tail, h.closed, h.crc, h.md⟩

theorem marshalState_length (s : HardState) : (marshalState s).length ≤ 33 := by
  unfold marshalState
  have := uvarintEnc_length s.term; have := uvarintEnc_length s.vote; have := uvarintEnc_length s.commit
  simp; omega

theorem marshalSnap_length (s : Snap) : (marshalSnap s).length ≤ 22 := by
  unfold marshalSnap
  have := uvarintEnc_length s.index; have := uvarintEnc_length s.term
  simp; omega

theorem payOk_state (s : HardState) : PayOk stateType (some (marshalState s)) := by
  refine ⟨types_small.2.2.1, ?_, fun h => absurd h types_ne_crc.2.2.1⟩
  have := marshalState_length s; have := sizeLimit_ge
  simp only [Option.getD_some]; generalize sizeLimit = L at *; omega

theorem payOk_snap (s : Snap) : PayOk snapshotType (some (marshalSnap s)) := by
  refine ⟨types_small.2.2.2.2, ?_, fun h => absurd h types_ne_crc.2.2.2⟩
  have := marshalSnap_length s; have := sizeLimit_ge
  simp only [Option.getD_some]; generalize sizeLimit = L at *; omega

theorem payOk_crc : PayOk crcType none := by
  refine ⟨types_small.2.2.2.1, ?_, fun _ => rfl⟩
  have := sizeLimit_ge
  simp only [Option.getD_none, List.length_nil]; generalize sizeLimit = L at *; omega

theorem payOk_md (md : Bytes) (h : md.length + 48 < sizeLimit) : PayOk metadataType (some md) :=
  ⟨types_small.1, by simpa using h, fun h => absurd h types_ne_crc.1⟩

theorem inv_saveState (crcf : UInt32 → Bytes → UInt32) (w : WState) (st : HardState) (h : Inv crcf w) :
    Inv crcf (saveState crcf w st) := by
  unfold saveState
  split
  · exact h
  · exact inv_appendRec crcf _ _ _ ⟨h.sealed, h.tail, h.closed, h.crc, h.md⟩ (payOk_state st)

theorem inv_rotate (crcf : UInt32 → Bytes → UInt32) (w : WState) (h : Inv crcf w) : Inv crcf (rotate w) := by
  have hn := sealedSegs_newseg crcf _ 0 h.sealed
  unfold rotate
  exact ⟨hn.1, rfl, by simp [h.closed, h.tail], by rw [h.crc]; exact hn.2.symm, h.md⟩

theorem appendRec_mdata (crcf : UInt32 → Bytes → UInt32) (w : WState) (type : Nat) (data : Option Bytes) :
    (appendRec crcf w type data).mdata = w.mdata := rfl

theorem inv_cut (crcf : UInt32 → Bytes → UInt32) (w : WState) (h : Inv crcf w) : Inv crcf (cut crcf w) := by
  unfold cut
  have h1 := inv_rotate crcf _ (inv_wsync crcf w (Gen.wal_markerFsync w.opt) h)
  have h2 := inv_appendRec crcf _ crcType none h1 payOk_crc
  have h3 := inv_appendRec crcf _ metadataType (some (appendRec crcf (rotate (wsync w (Gen.wal_markerFsync w.opt))) crcType none).mdata) h2
    (payOk_md _ (by rw [appendRec_mdata]; exact h1.md))
  exact inv_wsync crcf _ _ (inv_saveState crcf _ _ h3)

theorem inv_saveSnapshot (crcf : UInt32 → Bytes → UInt32) (w : WState) (s : Snap) (h : Inv crcf w) :
    Inv crcf (saveSnapshot crcf w s) := by
  unfold saveSnapshot
  apply inv_wsync
  have h1 := inv_appendRec crcf w snapshotType (some (marshalSnap s)) h (payOk_snap s)
  split
  · exact ⟨h1.sealed, h1.tail, h1.closed, h1.crc, h1.md⟩
  · exact h1

/-- a save history the decoder can read back: metadata and entries below the decoder's record size limit -/
def HistOk (md : Bytes) (h : List Op) : Prop :=
  md.length + 48 < sizeLimit ∧
  ∀ op ∈ h, match op with
    | .save _ ents => ∀ e ∈ ents, (marshalEntry e).length + 48 < sizeLimit
    | _ => True

theorem inv_entries (crcf : UInt32 → Bytes → UInt32) : ∀ (ents : List Entry) (w : WState), Inv crcf w →
    (∀ e ∈ ents, (marshalEntry e).length + 48 < sizeLimit) →
    Inv crcf (ents.foldl (fun w e => { appendRec crcf w entryType (some (marshalEntry e)) with enti := e.index }) w) := by
  intro ents
  induction ents with
  | nil => intro w h _; exact h
  | cons e es ih =>
    intro w h hok
    simp only [List.foldl_cons]
    apply ih
    · have := inv_appendRec crcf w entryType (some (marshalEntry e)) h
        ⟨types_small.2.1, by simpa using hok e (by simp), fun h => absurd h types_ne_crc.2.1⟩
      exact ⟨this.sealed, this.tail, this.closed, this.crc, this.md⟩
    · intro e' he'; exact hok e' (by simp [he'])

theorem inv_save (crcf : UInt32 → Bytes → UInt32) (w : WState) (st : HardState) (ents : List Entry) (h : Inv crcf w)
    (hok : ∀ e ∈ ents, (marshalEntry e).length + 48 < sizeLimit) : Inv crcf (save crcf w st ents) := by
  unfold save
  split
  · exact h
  · simp only []
    have h1 := inv_saveState crcf _ st (inv_entries crcf ents w h hok)
    split
    · split
      · exact inv_wsync crcf _ _ h1
      · exact h1
    · exact inv_cut crcf _ h1

theorem inv_create (crcf : UInt32 → Bytes → UInt32) (seg : Nat) (opt : Bool) (md : Bytes) (hmd : md.length + 48 < sizeLimit) :
    Inv crcf (create crcf seg opt md) := by
  unfold create
  apply inv_saveSnapshot
  have h0 : Inv crcf ({ seg := seg, opt := opt, mdata := md } : WState) :=
    ⟨by simp [SealedSegs, Sealed], rfl, rfl, rfl, hmd⟩
  exact inv_appendRec crcf _ metadataType (some md) (inv_appendRec crcf _ crcType none h0 payOk_crc) (payOk_md md hmd)

/-- **the writer model writes sealed segments** -/
theorem writer_sealed (crcf : UInt32 → Bytes → UInt32) (_hnil : ∀ c, crcf c [] = c) (seg : Nat) (opt : Bool) (md : Bytes)
    (h : List Op) (hok : HistOk md h) :
    SealedSegs crcf 0 ((runHistory crcf seg opt md h).closedRecs ++ [(runHistory crcf seg opt md h).recs]) ∧
    (runHistory crcf seg opt md h).tail = framesOf (runHistory crcf seg opt md h).recs ∧
    (runHistory crcf seg opt md h).closed.map (·.bytes) = (runHistory crcf seg opt md h).closedRecs.map framesOf ∧
    (runHistory crcf seg opt md h).crc =
      crcAfterSegs 0 ((runHistory crcf seg opt md h).closedRecs ++ [(runHistory crcf seg opt md h).recs]) := by
  have key : ∀ (h : List Op) (w : WState), Inv crcf w → (∀ op ∈ h, match op with
      | .save _ ents => ∀ e ∈ ents, (marshalEntry e).length + 48 < sizeLimit
      | _ => True) → Inv crcf (h.foldl (apply crcf) w) := by
    intro h
    induction h with
    | nil => intro w hw _; exact hw
    | cons op ops ih =>
      intro w hw hops
      simp only [List.foldl_cons]
      apply ih
      · cases op with
        | save st ents => exact inv_save crcf w st ents hw (hops (.save st ents) (by simp))
        | snap s => exact inv_saveSnapshot crcf w s hw
        | sync => exact inv_wsync crcf w true hw
      · intro op' hop'; exact hops op' (by simp [hop'])
  have := key h _ (inv_create crcf seg opt md hok.1) hok.2
  unfold runHistory
  exact ⟨this.sealed, this.tail, this.closed, this.crc⟩

/-! ### sync policy -/

theorem wsync_true (w : WState) : (wsync w true).synced = (wsync w true).tail.length ∧ (wsync w true).flushed = (wsync w true).tail.length := by
  simp [wsync]

theorem appendRec_opt (crcf : UInt32 → Bytes → UInt32) (w : WState) (type : Nat) (data : Option Bytes) :
    (appendRec crcf w type data).opt = w.opt := rfl
theorem wsync_opt (w : WState) (b : Bool) : (wsync w b).opt = w.opt := by unfold wsync; split <;> rfl
theorem rotate_opt (w : WState) : (rotate w).opt = w.opt := rfl
theorem saveState_opt (crcf : UInt32 → Bytes → UInt32) (w : WState) (st : HardState) : (saveState crcf w st).opt = w.opt := by
  unfold saveState; split
  · rfl
  · rfl

theorem cut_eq (crcf : UInt32 → Bytes → UInt32) (w : WState) :
    ∃ w4 : WState, w4.opt = w.opt ∧ cut crcf w = wsync w4 (Gen.wal_markerFsync w4.opt) := by
  refine ⟨saveState crcf (appendRec crcf (appendRec crcf (rotate (wsync w (Gen.wal_markerFsync w.opt))) crcType none) metadataType
      (some (appendRec crcf (rotate (wsync w (Gen.wal_markerFsync w.opt))) crcType none).mdata))
      (appendRec crcf (appendRec crcf (rotate (wsync w (Gen.wal_markerFsync w.opt))) crcType none) metadataType
      (some (appendRec crcf (rotate (wsync w (Gen.wal_markerFsync w.opt))) crcType none).mdata)).state, ?_, rfl⟩
  rw [saveState_opt, appendRec_opt, appendRec_opt, rotate_opt, wsync_opt]

theorem cut_synced (crcf : UInt32 → Bytes → UInt32) (w : WState) (hopt : w.opt = false) :
    (cut crcf w).synced = (cut crcf w).tail.length ∧ (cut crcf w).flushed = (cut crcf w).tail.length := by
  obtain ⟨w4, ho, he⟩ := cut_eq crcf w
  rw [he, ho, hopt]
  have : Gen.wal_markerFsync false = true := by decide
  rw [this]
  exact wsync_true w4

theorem entries_opt (crcf : UInt32 → Bytes → UInt32) : ∀ (ents : List Entry) (w : WState),
    (ents.foldl (fun w e => { appendRec crcf w entryType (some (marshalEntry e)) with enti := e.index }) w).opt = w.opt := by
  intro ents
  induction ents with
  | nil => intro w; rfl
  | cons e es ih => intro w; simp only [List.foldl_cons]; rw [ih]; rfl

/-- **what `Save` makes durable** -/
theorem save_syncs (crcf : UInt32 → Bytes → UInt32) (w : WState) (st : HardState) (ents : List Entry)
    (hopt : w.opt = false) (hcall : ¬ (st.isEmpty = true ∧ ents = []))
    (hmust : ents ≠ [] ∨ st.vote ≠ w.state.vote ∨ st.term ≠ w.state.term) :
    (save crcf w st ents).synced = (save crcf w st ents).tail.length ∧
    (save crcf w st ents).flushed = (save crcf w st ents).tail.length := by
  unfold save
  have hne : ¬ (st.isEmpty && ents.isEmpty) = true := by
    intro h
    simp only [Bool.and_eq_true, List.isEmpty_iff] at h
    exact hcall h
  rw [if_neg hne]
  have hms : Gen.wal_mustSync (Int.ofNat ents.length) (Int.ofNat st.vote) (Int.ofNat w.state.vote)
      (Int.ofNat st.term) (Int.ofNat w.state.term) = true := by
    unfold Gen.wal_mustSync
    simp only [Int.ofNat_eq_natCast, Bool.or_eq_true, bne_iff_ne, ne_eq]
    rcases hmust with h | h | h
    · left; left
      intro h0
      have : ents.length = 0 := by omega
      exact h (List.eq_nil_of_length_eq_zero this)
    · left; right; omega
    · right; omega
  have hfs : (if Gen.wal_saveForceFsync w.opt = true then true
      else Gen.wal_saveFsync st.isEmpty (Int.ofNat st.vote) (Int.ofNat w.state.vote) (Int.ofNat st.term) (Int.ofNat w.state.term)) = true := by
    rw [hopt]
    have : Gen.wal_saveForceFsync false = true := by decide
    rw [this]; rfl
  simp only [hms, hfs, if_true]
  split
  · exact wsync_true _
  · apply cut_synced
    rw [saveState_opt, entries_opt, hopt]

theorem marker_syncs (crcf : UInt32 → Bytes → UInt32) (w : WState) (s : Snap) (hopt : w.opt = false) :
    (saveSnapshot crcf w s).synced = (saveSnapshot crcf w s).tail.length ∧ (wsync w true).synced = (wsync w true).tail.length := by
  refine ⟨?_, (wsync_true w).1⟩
  unfold saveSnapshot
  simp only []
  have ho : (if (appendRec crcf w snapshotType (some (marshalSnap s))).enti < s.index then
      { appendRec crcf w snapshotType (some (marshalSnap s)) with enti := s.index }
      else appendRec crcf w snapshotType (some (marshalSnap s))).opt = false := by
    split <;> exact hopt
  rw [ho]
  have : Gen.wal_markerFsync false = true := by decide
  rw [this]
  exact (wsync_true _).1

end Z.Wal
