/-
Scratch prototype: WAL record stream, truncation at every byte offset yields a record prefix.
The frame header and the record validation (unmarshal + rolling CRC) are parameters with their
round-trip laws as hypotheses; the concrete versions are separate lemmas (see Frame.lean).
-/
namespace Z.WalTrunc
abbrev Bytes := List UInt8

structure Codec (Rec St : Type) where
  hdr : Nat → Bytes                      -- 8-byte length word for a payload of n bytes
  pad : Nat → Nat                        -- padding after the payload
  parse : Bytes → Nat × Nat              -- length word → (payload length, padding)
  marshal : St → Rec → Bytes             -- payload bytes (includes the CRC computed from St)
  next : St → Rec → St                   -- rolling CRC state after the record
  check : St → Bytes → Option Rec        -- unmarshal + CRC validation
  hdr_len : ∀ n, (hdr n).length = 8
  hdr_nz : ∀ n, 0 < n → hdr n ≠ List.replicate 8 0
  parse_hdr : ∀ n, parse (hdr n) = (n, pad n)
  marshal_pos : ∀ s r, 0 < (marshal s r).length
  check_marshal : ∀ s r, check s (marshal s r) = some r

inductive Outcome | eof | unexpectedEOF | corrupt
  deriving DecidableEq, Repr

variable {Rec St : Type} (c : Codec Rec St)

def frame (s : St) (r : Rec) : Bytes :=
  let p := c.marshal s r
  c.hdr p.length ++ p ++ List.replicate (c.pad p.length) 0

def encodeAll : St → List Rec → Bytes
  | _, [] => []
  | s, r :: rs => frame c s r ++ encodeAll (c.next s r) rs

/-- decoder.go decodeRecord loop for one segment; `fuel` bounds the number of records -/
def decodeAll : Nat → St → Bytes → List Rec × Outcome
  | 0, _, _ => ([], .corrupt)
  | fuel + 1, s, b =>
    if b.length < 8 then (if b.length = 0 then ([], .eof) else ([], .unexpectedEOF))
    else
      let w := b.take 8
      if w = List.replicate 8 0 then ([], .eof)
      else
        let (n, p) := c.parse w
        let body := b.drop 8
        if body.length < n + p then ([], .unexpectedEOF)
        else match c.check s (body.take n) with
          | none => ([], .corrupt)
          | some r =>
            let (rs, o) := decodeAll fuel (c.next s r) (body.drop (n + p))
            (r :: rs, o)

theorem frame_len (s : St) (r : Rec) :
    (frame c s r).length = 8 + (c.marshal s r).length + c.pad (c.marshal s r).length := by
  simp [frame, c.hdr_len]; omega

/-- decoding a complete frame followed by anything: the record comes out, decoding continues -/
theorem decode_frame (fuel : Nat) (s : St) (r : Rec) (rest : Bytes) :
    decodeAll c (fuel + 1) s (frame c s r ++ rest) =
      ((r :: (decodeAll c fuel (c.next s r) rest).1), (decodeAll c fuel (c.next s r) rest).2) := by
  have hl := c.hdr_len (c.marshal s r).length
  have hpos := c.marshal_pos s r
  conv => lhs; unfold decodeAll
  have hlen : ¬ (frame c s r ++ rest).length < 8 := by simp [frame_len]; omega
  simp only [hlen, ↓reduceIte]
  have htake : (frame c s r ++ rest).take 8 = c.hdr (c.marshal s r).length := by
    simp [frame, List.take_append, hl]
  have hdrop : (frame c s r ++ rest).drop 8 =
      c.marshal s r ++ List.replicate (c.pad (c.marshal s r).length) 0 ++ rest := by
    simp [frame, List.drop_append, hl]
  rw [htake, hdrop]
  simp only [c.hdr_nz _ hpos, ↓reduceIte, c.parse_hdr]
  have h2 : ¬ (c.marshal s r ++ List.replicate (c.pad (c.marshal s r).length) 0 ++ rest).length <
      (c.marshal s r).length + c.pad (c.marshal s r).length := by simp
  simp only [h2, ↓reduceIte]
  have h3 : (c.marshal s r ++ List.replicate (c.pad (c.marshal s r).length) 0 ++ rest).take (c.marshal s r).length
      = c.marshal s r := by simp [List.take_append]
  have h4 : (c.marshal s r ++ List.replicate (c.pad (c.marshal s r).length) 0 ++ rest).drop
      ((c.marshal s r).length + c.pad (c.marshal s r).length) = rest := by
    simp [List.drop_append]
  rw [h3, h4, c.check_marshal]

/-- decoding a strict prefix of one frame: nothing comes out, the outcome is EOF (empty) or
    unexpected EOF -/
theorem decode_partial (fuel : Nat) (s : St) (r : Rec) (n : Nat) (hn : n < (frame c s r).length) :
    decodeAll c (fuel + 1) s ((frame c s r).take n) = ([], if n = 0 then .eof else .unexpectedEOF) := by
  have hl := c.hdr_len (c.marshal s r).length
  have hpos := c.marshal_pos s r
  have hfl := frame_len c s r
  unfold decodeAll
  have hlen : ((frame c s r).take n).length = n := by simp [List.length_take]; omega
  by_cases h8 : n < 8
  · simp only [hlen, h8, ↓reduceIte]
    by_cases h0 : n = 0 <;> simp [h0]
  · simp only [hlen, h8, ↓reduceIte]
    have hn0 : n ≠ 0 := by omega
    have htake : ((frame c s r).take n).take 8 = c.hdr (c.marshal s r).length := by
      rw [List.take_take]
      have : min 8 n = 8 := by omega
      rw [this]; simp [frame, List.take_append, hl]
    rw [htake]
    simp only [c.hdr_nz _ hpos, ↓reduceIte, c.parse_hdr]
    have hshort : (((frame c s r).take n).drop 8).length <
        (c.marshal s r).length + c.pad (c.marshal s r).length := by
      simp [List.length_drop, hlen]; omega
    rw [if_pos hshort, if_neg hn0]


/-- number of whole frames of `encodeAll s rs` that fit into the first n bytes -/
def whole : St → List Rec → Nat → Nat
  | _, [], _ => 0
  | s, r :: rs, n =>
    if (frame c s r).length ≤ n then 1 + whole (c.next s r) rs (n - (frame c s r).length) else 0

/-- **truncation theorem**: for every record list, every rolling-CRC start state and EVERY byte
    offset n, decoding the first n bytes of the stream returns exactly the records whose frames
    are complete, and ends with EOF or unexpected-EOF - never with a different record. -/
theorem truncation_prefix : ∀ (rs : List Rec) (s : St) (n : Nat) (fuel : Nat), rs.length < fuel →
    (decodeAll c fuel s ((encodeAll c s rs).take n)).1 = rs.take (whole c s rs n) ∧
    ((decodeAll c fuel s ((encodeAll c s rs).take n)).2 = .eof ∨
     (decodeAll c fuel s ((encodeAll c s rs).take n)).2 = .unexpectedEOF) := by
  intro rs
  induction rs with
  | nil =>
    intro s n fuel hf
    cases fuel with
    | zero => omega
    | succ fuel => simp [encodeAll, decodeAll, whole]
  | cons r rs ih =>
    intro s n fuel hf
    cases fuel with
    | zero => omega
    | succ fuel =>
      simp only [encodeAll, whole]
      by_cases hfit : (frame c s r).length ≤ n
      · -- the first frame is complete
        have ht : (frame c s r ++ encodeAll c (c.next s r) rs).take n =
            frame c s r ++ (encodeAll c (c.next s r) rs).take (n - (frame c s r).length) := by
          rw [List.take_append]
          congr 1
          exact List.take_of_length_le hfit
        rw [ht, decode_frame]
        have := ih (c.next s r) (n - (frame c s r).length) fuel (by simp at hf; omega)
        simp only [hfit, ↓reduceIte]
        refine ⟨?_, this.2⟩
        rw [this.1, Nat.add_comm 1, List.take_succ_cons]
      · -- cut inside the first frame
        have hlt : n < (frame c s r).length := by omega
        have ht : (frame c s r ++ encodeAll c (c.next s r) rs).take n = (frame c s r).take n := by
          rw [List.take_append]
          have : n - (frame c s r).length = 0 := by omega
          simp [this]
        rw [ht, decode_partial c fuel s r n hlt]
        simp only [hfit, ↓reduceIte, List.take_zero, true_and]
        by_cases h0 : n = 0 <;> simp [h0]

#print axioms truncation_prefix

/-- corollary: the untruncated stream decodes to all records -/
theorem roundtrip (rs : List Rec) (s : St) :
    (decodeAll c (rs.length + 1) s (encodeAll c s rs)).1 = rs := by
  have h := (truncation_prefix c rs s (encodeAll c s rs).length (rs.length + 1) (by omega)).1
  rw [List.take_length] at h
  rw [h]
  suffices hw : ∀ (rs : List Rec) (s : St), whole c s rs (encodeAll c s rs).length = rs.length by
    rw [hw]; simp
  intro rs
  induction rs with
  | nil => intro s; simp [whole]
  | cons r rs ih =>
    intro s
    simp only [whole, encodeAll, List.length_append]
    have : (frame c s r).length ≤ (frame c s r).length + (encodeAll c (c.next s r) rs).length := by omega
    simp only [this, ↓reduceIte, Nat.add_sub_cancel_left, ih, List.length_cons]; omega

end Z.WalTrunc
