/-
  C05 lemmas, part 9: fuel is never exhausted; more fuel changes nothing.
-/
import ZanVerif.Wal.SegLemmas
namespace Z.Wal

theorem totalLen_cons (b : Bytes) (rest : List Bytes) : totalLen (b :: rest) = b.length + totalLen rest := by
  simp [totalLen]

theorem decodeData_consumes (crcf : UInt32 → Bytes → UInt32) (b : Bytes) (rest : List Bytes) (off : Nat) (c : UInt32)
    (rb pb : Int) (data after : Bytes) (r : Rec) (d : Dec)
    (h : decodeData crcf b rest off c rb pb data after = .got r d) : d.brs = after :: rest := by
  unfold decodeData at h
  split at h
  · split at h <;> simp at h
  · split at h
    · split at h
      · simp only [Res.got.injEq] at h; rw [← h.2]
      · split at h <;> simp at h
    · simp only [Res.got.injEq] at h; rw [← h.2]

/-- every decoded record consumes at least the 8 bytes of its length word -/
theorem decodeRecord_consumes (crcf : UInt32 → Bytes → UInt32) : ∀ (brs : List Bytes) (off : Nat) (c : UInt32) (r : Rec) (d : Dec),
    decodeRecord crcf brs off c = .got r d → totalLen d.brs + 8 ≤ totalLen brs := by
  intro brs
  induction brs with
  | nil => intro off c r d h; simp [decodeRecord] at h
  | cons b rest ih =>
    intro off c r d h
    simp only [decodeRecord] at h
    split at h
    · cases rest with
      | nil => simp at h
      | cons b' rest' =>
        simp only [] at h
        have := ih 0 c r d h
        rw [totalLen_cons]; omega
    · rename_i hc
      split at h
      · simp at h
      · rename_i hl
        have hl8 : 8 ≤ b.length := by
          have : hasLen b 8 = true := by simpa using hl
          exact (hasLen_iff b 8).mp this
        unfold decodeBody decodeSized at h
        split at h
        · simp at h
        · split at h
          · simp at h
          · have := decodeData_consumes crcf _ _ _ _ _ _ _ _ _ _ h
            rw [this, totalLen_cons, totalLen_cons, List.length_drop, List.length_drop]
            omega

theorem decodeData_nofuel (crcf : UInt32 → Bytes → UInt32) (b : Bytes) (rest : List Bytes) (off : Nat) (c : UInt32)
    (rb pb : Int) (data after : Bytes) (d : Dec) : decodeData crcf b rest off c rb pb data after ≠ .stop .fuel d := by
  unfold decodeData
  split
  · rename_i e _
    split
    · simp
    · cases e <;> simp
  · split
    · split
      · simp
      · split <;> simp
    · simp

theorem decodeSized_nofuel (crcf : UInt32 → Bytes → UInt32) (b : Bytes) (rest : List Bytes) (off : Nat) (c : UInt32)
    (rb pb : Int) (d : Dec) : decodeSized crcf b rest off c rb pb ≠ .stop .fuel d := by
  unfold decodeSized
  split
  · simp
  · split
    · simp
    · exact decodeData_nofuel crcf _ _ _ _ _ _ _ _ _

theorem decodeRecord_nofuel (crcf : UInt32 → Bytes → UInt32) : ∀ (brs : List Bytes) (off : Nat) (c : UInt32) (d : Dec),
    decodeRecord crcf brs off c ≠ .stop .fuel d := by
  intro brs
  induction brs with
  | nil => intro off c d; simp [decodeRecord]
  | cons b rest ih =>
    intro off c d
    simp only [decodeRecord]
    split
    · cases rest with
      | nil => simp
      | cons b' rest' => exact ih 0 c d
    · split
      · simp
      · exact decodeSized_nofuel crcf _ _ _ _ _ _ _

/-- with at least one unit of fuel per 8 input bytes (plus one) the model artefact `Stop.fuel` is never reached -/
theorem stream_enough (crcf : UInt32 → Bytes → UInt32) : ∀ (f : Nat) (d : Dec), totalLen d.brs / 8 + 1 ≤ f →
    (stream crcf f d).2.1 ≠ .fuel := by
  intro f
  induction f with
  | zero => intro d h; omega
  | succ f ih =>
    intro d hf
    rw [stream]
    simp only []
    cases hdr : decodeRecord crcf d.brs d.off d.crc with
    | stop s d' =>
      simp only []
      intro hs
      subst hs
      exact decodeRecord_nofuel crcf _ _ _ _ hdr
    | got r d' =>
      have hcons := decodeRecord_consumes crcf _ _ _ _ _ hdr
      simp only []
      split
      · split
        · simp
        · exact ih _ (by simp only []; omega)
      · exact ih _ (by omega)

/-- more fuel does not change a result that did not run out of fuel -/
theorem stream_mono (crcf : UInt32 → Bytes → UInt32) : ∀ (f k : Nat) (d : Dec),
    (stream crcf f d).2.1 ≠ .fuel → stream crcf (f + k) d = stream crcf f d := by
  intro f
  induction f with
  | zero => intro k d h; simp [stream] at h
  | succ f ih =>
    intro k d h
    have e : f + 1 + k = (f + k) + 1 := by omega
    rw [e, stream, stream]
    rw [stream] at h
    simp only [] at h ⊢
    cases hdr : decodeRecord crcf d.brs d.off d.crc with
    | stop s d' => rfl
    | got r d' =>
      rw [hdr] at h
      simp only [] at h ⊢
      split
      · split
        · rfl
        · rename_i h1 h2
          rw [if_pos h1, if_neg h2] at h
          rw [ih k _ h]
      · rename_i h1
        rw [if_neg h1] at h
        rw [ih k _ h]

end Z.Wal
