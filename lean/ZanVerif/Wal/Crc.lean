/-
Scratch prototype for C05 (bit flips in data): CRC-32C (Castagnoli, reflected, as hash/crc32 computes
it), bytewise table-driven update on Nat.  Two table facts are checked by kernel evaluation
(`decide`): the 256 entries are pairwise different, and so are their top bytes.  From them: the
update is injective in the byte and injective in the state; hence two byte strings of the same
length that differ in exactly one position have different CRCs from any start state.
-/
namespace Z.Crc

def poly : Nat := 0x82F63B78

def tabStep (c : Nat) : Nat := if c % 2 = 1 then (c >>> 1) ^^^ poly else c >>> 1
def tab (i : Nat) : Nat := tabStep (tabStep (tabStep (tabStep (tabStep (tabStep (tabStep (tabStep i)))))))

/-- one byte: crc' = tab[(crc xor b) and 0xff] xor (crc >> 8) -/
def upd (c b : Nat) : Nat := tab ((c ^^^ b) % 256) ^^^ (c >>> 8)

def crc (c : Nat) (bs : List Nat) : Nat := bs.foldl upd c

-- sanity: CRC-32C("123456789") = 0xE3069283 with the usual pre/post inversion
example : (crc 0xFFFFFFFF [0x31,0x32,0x33,0x34,0x35,0x36,0x37,0x38,0x39]) ^^^ 0xFFFFFFFF = 0xE3069283 := by decide +kernel

theorem tab_top_nodup : ((List.range 256).map (fun i => tab i >>> 24)).Nodup := by decide +kernel
theorem tab_lt : ∀ i ∈ List.range 256, tab i < 2 ^ 32 := by decide +kernel

theorem tab_top_inj : ∀ i ∈ List.range 256, ∀ j ∈ List.range 256, tab i >>> 24 = tab j >>> 24 → i = j := by
  decide +kernel

theorem xorR {a b x : Nat} (h : a ^^^ x = b ^^^ x) : a = b := by
  have := congrArg (· ^^^ x) h
  simp only [Nat.xor_assoc, Nat.xor_self, Nat.xor_zero] at this
  exact this

theorem xorL {a b x : Nat} (h : x ^^^ a = x ^^^ b) : a = b := by
  rw [Nat.xor_comm x a, Nat.xor_comm x b] at h; exact xorR h

theorem idx_lt (c b : Nat) : (c ^^^ b) % 256 < 256 := Nat.mod_lt _ (by decide)

theorem tab_inj {i j : Nat} (hi : i < 256) (hj : j < 256) (h : tab i = tab j) : i = j :=
  tab_top_inj i (List.mem_range.mpr hi) j (List.mem_range.mpr hj) (by rw [h])

theorem upd_lt {c b : Nat} (hc : c < 2 ^ 32) : upd c b < 2 ^ 32 := by
  unfold upd
  apply Nat.xor_lt_two_pow
  · exact tab_lt _ (List.mem_range.mpr (idx_lt c b))
  · rw [Nat.shiftRight_eq_div_pow]
    exact Nat.lt_of_le_of_lt (Nat.div_le_self _ _) hc

theorem idx_eq (c b : Nat) (hb : b < 256) : (c ^^^ b) % 256 = (c % 256) ^^^ b := by
  have := @Nat.xor_mod_two_pow c b 8
  simp only [show (2 : Nat) ^ 8 = 256 by decide] at this
  rw [this, Nat.mod_eq_of_lt hb]

/-- the update is injective in the byte -/
theorem upd_inj_byte {c b b' : Nat} (hb : b < 256) (hb' : b' < 256) (h : upd c b = upd c b') : b = b' := by
  unfold upd at h
  have h1 := tab_inj (idx_lt c b) (idx_lt c b') (xorR h)
  rw [idx_eq c b hb, idx_eq c b' hb'] at h1
  exact xorL h1

/-- the update is injective in the state (32-bit states) -/
theorem upd_inj_state {c c' b : Nat} (hc : c < 2 ^ 32) (hc' : c' < 2 ^ 32) (hb : b < 256)
    (h : upd c b = upd c' b) : c = c' := by
  unfold upd at h
  -- the top byte of the result is the top byte of the table entry
  have top : ∀ x, x < 2 ^ 32 → (tab ((x ^^^ b) % 256) ^^^ (x >>> 8)) >>> 24 = tab ((x ^^^ b) % 256) >>> 24 := by
    intro x hx
    rw [Nat.shiftRight_xor_distrib]
    have : x >>> 8 >>> 24 = 0 := by
      rw [← Nat.shiftRight_add, Nat.shiftRight_eq_div_pow]
      exact Nat.div_eq_of_lt hx
    rw [this, Nat.xor_zero]
  have h24 := congrArg (· >>> 24) h
  simp only [top c hc, top c' hc'] at h24
  have hi := tab_top_inj _ (List.mem_range.mpr (idx_lt c b)) _ (List.mem_range.mpr (idx_lt c' b)) h24
  rw [hi] at h
  have hhi : c >>> 8 = c' >>> 8 := xorL h
  rw [idx_eq c b hb, idx_eq c' b hb] at hi
  have hlo : c % 256 = c' % 256 := xorR hi
  rw [Nat.shiftRight_eq_div_pow, Nat.shiftRight_eq_div_pow] at hhi
  have e1 := Nat.div_add_mod c 256
  have e2 := Nat.div_add_mod c' 256
  simp only [show (2 : Nat) ^ 8 = 256 by decide] at hhi
  omega

theorem crc_lt : ∀ (bs : List Nat) {c : Nat}, c < 2 ^ 32 → crc c bs < 2 ^ 32 := by
  intro bs
  induction bs with
  | nil => intro c h; exact h
  | cons b bs ih => intro c h; exact ih (upd_lt h)

/-- different 32-bit states stay different under the same bytes -/
theorem crc_ne_of_state_ne : ∀ (bs : List Nat) {c c' : Nat}, (∀ b ∈ bs, b < 256) → c < 2 ^ 32 → c' < 2 ^ 32 →
    c ≠ c' → crc c bs ≠ crc c' bs := by
  intro bs
  induction bs with
  | nil => intro c c' _ _ _ h; exact h
  | cons b bs ih =>
    intro c c' hb hc hc' hne
    apply ih (fun x hx => hb x (List.mem_cons_of_mem _ hx)) (upd_lt hc) (upd_lt hc')
    intro h
    exact hne (upd_inj_state hc hc' (hb b List.mem_cons_self) h)

/-- **one changed byte (in particular one flipped bit) always changes the CRC**, whatever precedes
    and follows it, from any 32-bit start state (the chained `crc` of the WAL) -/
theorem crc_detects_one_byte (pre suf : List Nat) (b b' c : Nat) (hc : c < 2 ^ 32)
    (hb : b < 256) (hb' : b' < 256) (hne : b ≠ b') (hsuf : ∀ x ∈ suf, x < 256) :
    crc c (pre ++ b :: suf) ≠ crc c (pre ++ b' :: suf) := by
  unfold crc
  rw [List.foldl_append, List.foldl_append, List.foldl_cons, List.foldl_cons]
  have h1 : crc c pre < 2 ^ 32 := crc_lt pre hc
  unfold crc at h1
  apply crc_ne_of_state_ne suf hsuf (upd_lt h1) (upd_lt h1)
  intro h
  exact hne (upd_inj_byte hb hb' h)

#print axioms crc_detects_one_byte
end Z.Crc
