/-
  C05 lemmas, part 4: the record stream over runs of sealed frames, segment switches, cut frames, zero tails.
-/
import ZanVerif.Wal.DecodeLemmas
namespace Z.Wal

/-- `rs` is what an encoder with rolling crc `c` writes: every record carries the crc rolled over its data
    (a `crcType` record has no data and therefore repeats the crc), sizes are below the decoder's limit -/
def Sealed (crcf : UInt32 → Bytes → UInt32) : UInt32 → List Rec → Prop
  | _, [] => True
  | c, r :: rs => r.crc = crcf c (r.data.getD []) ∧ r.wf ∧ (r.type = crcType → r.data.getD [] = []) ∧ Sealed crcf r.crc rs

def framesOf : List Rec → Bytes
  | [] => []
  | r :: rs => frame r ++ framesOf rs

def crcAfter (c : UInt32) : List Rec → UInt32
  | [] => c
  | r :: rs => crcAfter r.crc rs

theorem framesOf_append (a b : List Rec) : framesOf (a ++ b) = framesOf a ++ framesOf b := by
  induction a with
  | nil => rfl
  | cons r a ih => simp [framesOf, ih]

/-- one sealed record at the head of the current reader -/
theorem stream_frame (crcf : UInt32 → Bytes → UInt32) (hnil : ∀ c, crcf c [] = c) (r : Rec) (t : Bytes) (rest : List Bytes)
    (off f : Nat) (c : UInt32) (hs : r.crc = crcf c (r.data.getD [])) (hwf : r.wf) (hct : r.type = crcType → r.data.getD [] = []) :
    stream crcf (f + 1) ⟨(frame r ++ t) :: rest, off, c⟩ =
      (r :: (stream crcf f ⟨t :: rest, off + (frame r).length, r.crc⟩).1,
       (stream crcf f ⟨t :: rest, off + (frame r).length, r.crc⟩).2) := by
  rw [stream]
  simp only []
  rw [decodeRecord_frame crcf r t rest off c hwf (fun _ => hs)]
  by_cases h : r.type = crcType
  · have hc : r.crc = c := by rw [hs, hct h, hnil]
    have hv : Gen.wal_validateOk (Int.ofNat r.crc.toNat) (Int.ofNat c.toNat) = true := by
      unfold Gen.wal_validateOk; rw [hc]; simp
    have hb : Gen.wal_chainBad (Int.ofNat c.toNat) (!Gen.wal_validateOk (Int.ofNat r.crc.toNat) (Int.ofNat c.toNat)) = false := by
      unfold Gen.wal_chainBad; rw [hv]; simp
    simp only [h, if_true, hc]
    rw [hc] at hb
    rw [hb]
    simp
  · simp only [h, if_false]

/-- **decoding a run of sealed frames**, followed by anything (`t`, further readers): the records come out and the
    decoder continues behind them -/
theorem stream_frames (crcf : UInt32 → Bytes → UInt32) (hnil : ∀ c, crcf c [] = c) :
    ∀ (rs : List Rec) (c : UInt32) (off f : Nat) (t : Bytes) (rest : List Bytes), Sealed crcf c rs →
    stream crcf (rs.length + f) ⟨(framesOf rs ++ t) :: rest, off, c⟩ =
      (rs ++ (stream crcf f ⟨t :: rest, off + (framesOf rs).length, crcAfter c rs⟩).1,
       (stream crcf f ⟨t :: rest, off + (framesOf rs).length, crcAfter c rs⟩).2) := by
  intro rs
  induction rs with
  | nil => intro c off f t rest _; simp [framesOf, crcAfter]
  | cons r rs ih =>
    intro c off f t rest hs
    obtain ⟨h1, h2, h3, h4⟩ := hs
    have e1 : (r :: rs).length + f = (rs.length + f) + 1 := by simp; omega
    have e2 : framesOf (r :: rs) ++ t = frame r ++ (framesOf rs ++ t) := by simp [framesOf]
    rw [e1, e2, stream_frame crcf hnil r _ rest off _ c h1 h2 h3, ih r.crc _ f t rest h4]
    simp [framesOf, crcAfter, Nat.add_assoc]


theorem stream_stop (crcf : UInt32 → Bytes → UInt32) (f : Nat) (d d' : Dec) (s : Stop)
    (h : decodeRecord crcf d.brs d.off d.crc = .stop s d') : stream crcf (f + 1) d = ([], s, d') := by
  rw [stream]; simp only []; rw [h]

/-- the zero tail of the last segment -/
theorem stream_zeros (crcf : UInt32 → Bytes → UInt32) (f k off : Nat) (c : UInt32) :
    stream crcf (f + 1) ⟨[zeros k], off, c⟩ =
      if k = 0 ∨ 8 ≤ k then ([], .eof, ⟨[], off, c⟩) else ([], .ueof, ⟨[zeros k], off, c⟩) := by
  by_cases h : k = 0 ∨ 8 ≤ k
  · rw [if_pos h]; apply stream_stop; simp only []; rw [decodeRecord_zeros, if_pos h]
  · rw [if_neg h]; apply stream_stop; simp only []; rw [decodeRecord_zeros, if_neg h]

/-- an exhausted reader that is not the last one: the decoder moves to the next segment, offset 0 -/
theorem stream_next (crcf : UInt32 → Bytes → UInt32) (f off : Nat) (c : UInt32) (b : Bytes) (rest : List Bytes) :
    stream crcf (f + 1) ⟨[] :: b :: rest, off, c⟩ = stream crcf (f + 1) ⟨b :: rest, 0, c⟩ := by
  rw [stream, stream]
  simp only []
  have : decodeRecord crcf ([] :: b :: rest) off c = decodeRecord crcf (b :: rest) 0 c := by
    simp [decodeRecord]
  rw [this]

/-- number of whole frames within the first `n` bytes of the frames of `rs`, and how many bytes of the next frame are there -/
def wholeRem : List Rec → Nat → Nat × Nat
  | [], _ => (0, 0)
  | r :: rs, n =>
    if (frame r).length ≤ n then ((wholeRem rs (n - (frame r).length)).1 + 1, (wholeRem rs (n - (frame r).length)).2)
    else (0, n)

/-- **truncation at every byte offset** (tail segment, any decoder state in front of it): decoding the first `n` bytes
    of the frames of `rs` returns exactly the records whose frames are complete and stops with EOF (the cut is on a
    frame boundary) or unexpected EOF (inside a frame); the last valid offset is the end of the last complete frame -/
theorem stream_take (crcf : UInt32 → Bytes → UInt32) (hnil : ∀ c, crcf c [] = c) :
    ∀ (rs : List Rec) (c : UInt32) (off n fuel : Nat), Sealed crcf c rs → rs.length < fuel →
      (stream crcf fuel ⟨[(framesOf rs).take n], off, c⟩).1 = rs.take (wholeRem rs n).1 ∧
      (stream crcf fuel ⟨[(framesOf rs).take n], off, c⟩).2.1 = (if (wholeRem rs n).2 = 0 then Stop.eof else Stop.ueof) ∧
      (stream crcf fuel ⟨[(framesOf rs).take n], off, c⟩).2.2.off = off + (framesOf (rs.take (wholeRem rs n).1)).length ∧
      (stream crcf fuel ⟨[(framesOf rs).take n], off, c⟩).2.2.crc = crcAfter c (rs.take (wholeRem rs n).1) := by
  intro rs
  induction rs with
  | nil =>
    intro c off n fuel _ hf
    cases fuel with
    | zero => omega
    | succ f =>
      have : stream crcf (f + 1) ⟨[(framesOf []).take n], off, c⟩ = ([], .eof, ⟨[], off, c⟩) := by
        apply stream_stop; simp [framesOf, decodeRecord]
      rw [this]; simp [wholeRem, framesOf, crcAfter]
  | cons r rs ih =>
    intro c off n fuel hs hf
    obtain ⟨h1, h2, h3, h4⟩ := hs
    cases fuel with
    | zero => omega
    | succ f =>
      by_cases hfit : (frame r).length ≤ n
      · have ht : (framesOf (r :: rs)).take n = frame r ++ (framesOf rs).take (n - (frame r).length) := by
          simp only [framesOf]
          rw [List.take_append]
          congr 1
          exact List.take_of_length_le hfit
        rw [ht, stream_frame crcf hnil r _ [] off f c h1 h2 h3]
        have := ih r.crc (off + (frame r).length) (n - (frame r).length) f h4 (by simp at hf; omega)
        simp only [wholeRem, hfit, if_true, List.take_succ_cons, framesOf, crcAfter, List.length_append]
        refine ⟨by rw [this.1], this.2.1, ?_, this.2.2.2⟩
        rw [this.2.2.1]; omega
      · have hlt : n < (frame r).length := by omega
        have ht : (framesOf (r :: rs)).take n = (frame r).take n := by
          simp only [framesOf]
          rw [List.take_append]
          have : n - (frame r).length = 0 := by omega
          simp [this]
        have hd := decodeRecord_cut crcf r n off c h2 hlt
        have hw : wholeRem (r :: rs) n = (0, n) := by simp only [wholeRem, if_neg hfit]
        rw [ht, hw]
        by_cases h0 : n = 0
        · rw [if_pos h0] at hd
          rw [stream_stop crcf f _ _ _ hd]
          simp [h0, framesOf, crcAfter]
        · rw [if_neg h0] at hd
          rw [stream_stop crcf f _ _ _ hd]
          simp [h0, framesOf, crcAfter]

end Z.Wal
