/-
  C05 lemmas, part 2: little-endian length word, varints and the generated (un)marshallers:
  `Unmarshal (Marshal x) = x` for walpb.Record, walpb.Snapshot, raftpb.HardState, raftpb.Entry.
-/
import ZanVerif.Wal.FrameLemmas
namespace Z.Wal

theorem readLE64_le64 (w : Nat) (h : w < 2 ^ 64) (rest : Bytes) : readLE64 (le64 w ++ rest) = w := by
  simp [readLE64, le64]
  omega

theorem le64_length (w : Nat) : (le64 w).length = 8 := rfl

/-! varint -/
theorem u8_toNat_ofNat (v : Nat) (h : v < 256) : (UInt8.ofNat v).toNat = v := by
  simp [UInt8.toNat_ofNat, Nat.mod_eq_of_lt h]

theorem uvarint_enc_aux (k : Nat) : ∀ (v : Nat) (rest : Bytes), v < 128 ^ (k + 1) →
    uvarintAux (k + 1) (uvarintEncAux k v ++ rest) = .ok (v, rest) := by
  induction k with
  | zero =>
    intro v rest hv
    have hv' : v < 128 := by simpa using hv
    have hb : (UInt8.ofNat v).toNat = v := u8_toNat_ofNat v (by omega)
    have hlt : UInt8.ofNat v < 128 := by rw [UInt8.lt_iff_toNat_lt, hb]; exact hv'
    simp [uvarintEncAux, uvarintAux, hlt, hb]
  | succ k ih =>
    intro v rest hv
    unfold uvarintEncAux
    by_cases h128 : v < 128
    · have hb : (UInt8.ofNat v).toNat = v := u8_toNat_ofNat v (by omega)
      have hlt : UInt8.ofNat v < 128 := by rw [UInt8.lt_iff_toNat_lt, hb]; exact h128
      simp [h128, uvarintAux, hlt, hb]
    · have hb : (UInt8.ofNat (v % 128 + 128)).toNat = v % 128 + 128 := u8_toNat_ofNat _ (by omega)
      have hge : ¬ UInt8.ofNat (v % 128 + 128) < 128 := by
        rw [UInt8.lt_iff_toNat_lt, hb]; simp
      have hdiv : v / 128 < 128 ^ (k + 1) := by
        rw [Nat.div_lt_iff_lt_mul (by decide)]
        rw [Nat.pow_succ] at hv; exact hv
      simp only [h128, if_false, List.cons_append, uvarintAux, hge, ih (v / 128) rest hdiv, hb]
      congr 2
      omega

theorem uvarint_enc (v : Nat) (h : v < 2 ^ 64) (rest : Bytes) : uvarint (uvarintEnc v ++ rest) = .ok (v, rest) := by
  unfold uvarint uvarintEnc
  exact uvarint_enc_aux 9 v rest (by
    have : (2:Nat) ^ 64 ≤ 128 ^ (9 + 1) := by decide
    omega)

theorem uvarintEncAux_length (k v : Nat) : 1 ≤ (uvarintEncAux k v).length ∧ (uvarintEncAux k v).length ≤ k + 1 := by
  induction k generalizing v with
  | zero => simp [uvarintEncAux]
  | succ k ih =>
    unfold uvarintEncAux
    by_cases h : v < 128
    · simp [h]
    · simp only [h, if_false, List.length_cons]
      have := ih (v / 128)
      omega

theorem uvarintEnc_length (v : Nat) : 1 ≤ (uvarintEnc v).length ∧ (uvarintEnc v).length ≤ 10 :=
  uvarintEncAux_length 9 v

end Z.Wal

namespace Z.Wal

theorem uvarint_tag (t : UInt8) (xs : Bytes) (ht : t < 128) : uvarint (t :: xs) = .ok (t.toNat, xs) := by
  simp [uvarint, uvarintAux, ht]

theorem scan_nil (spec : Nat → Option Kind) (l f : Nat) (acc : List (Nat × FVal)) :
    scan spec l (f + 1) [] acc = .ok acc.reverse := by
  simp [scan]

theorem scan_varint (spec : Nat → Option Kind) (l f : Nat) (t : UInt8) (fnum v : Nat) (rest : Bytes)
    (acc : List (Nat × FVal)) (ht : t < 128) (hwt : t.toNat % 8 = 0) (hf : t.toNat / 8 = fnum) (hf0 : fnum ≠ 0)
    (hs : spec fnum = some .varint) (hv : v < 2 ^ 64) :
    scan spec l (f + 1) (t :: (uvarintEnc v ++ rest)) acc = scan spec l f rest ((fnum, .v v) :: acc) := by
  have ht' : t.toNat < 128 := by rw [UInt8.lt_iff_toNat_lt] at ht; exact ht
  rw [scan]
  · simp only [uvarint_tag t _ ht]
    have h1 : t.toNat % two64 = t.toNat := Nat.mod_eq_of_lt (by unfold two64; omega)
    have h2 : t.toNat / 8 % two32 = fnum := by rw [hf]; apply Nat.mod_eq_of_lt; unfold two32; omega
    simp only [h1, h2, hwt]
    have h3 : ¬ (fnum = 0 ∨ fnum ≥ two31) := by unfold two31; omega
    simp only [h3, if_false, hs, uvarint_enc v hv rest]
    have h4 : v % two64 = v := Nat.mod_eq_of_lt (by unfold two64; omega)
    simp [h4]
  · simp

theorem scan_bytes (spec : Nat → Option Kind) (l f : Nat) (t : UInt8) (fnum : Nat) (d rest : Bytes)
    (acc : List (Nat × FVal)) (ht : t < 128) (hwt : t.toNat % 8 = 2) (hf : t.toNat / 8 = fnum) (hf0 : fnum ≠ 0)
    (hs : spec fnum = some .bytes) (hd : l + d.length < 2 ^ 63) :
    scan spec l (f + 1) (t :: (uvarintEnc d.length ++ (d ++ rest))) acc = scan spec l f rest ((fnum, .b d) :: acc) := by
  have ht' : t.toNat < 128 := by rw [UInt8.lt_iff_toNat_lt] at ht; exact ht
  rw [scan]
  · simp only [uvarint_tag t _ ht]
    have h1 : t.toNat % two64 = t.toNat := Nat.mod_eq_of_lt (by unfold two64; omega)
    have h2 : t.toNat / 8 % two32 = fnum := by rw [hf]; apply Nat.mod_eq_of_lt; unfold two32; omega
    simp only [h1, h2, hwt]
    have h3 : ¬ (fnum = 0 ∨ fnum ≥ two31) := by unfold two31; omega
    have hv : d.length < 2 ^ 64 := by omega
    simp only [h3, if_false, hs, uvarint_enc d.length hv (d ++ rest)]
    have h4 : d.length % two64 = d.length := Nat.mod_eq_of_lt (by unfold two64; omega)
    have h5 : ¬ d.length ≥ two63 := by unfold two63; omega
    have h6 : ¬ (two63 ≤ l - (d.length + rest.length) + d.length) := by unfold two63; omega
    have h7 : ¬ d.length + rest.length < d.length := by omega
    simp [h4, h5, h6, h7]
  · simp

end Z.Wal

namespace Z.Wal

theorem marshalRec_length_le (r : Rec) : (marshalRec r).length ≤ 33 + (r.data.getD []).length := by
  unfold marshalRec
  have h1 := uvarintEnc_length r.type
  have h2 := uvarintEnc_length r.crc.toNat
  cases hd : r.data with
  | none => simp; omega
  | some d =>
    have h3 := uvarintEnc_length d.length
    simp; omega

theorem marshalRec_length_ge (r : Rec) : 4 ≤ (marshalRec r).length := by
  unfold marshalRec
  have h1 := uvarintEnc_length r.type
  have h2 := uvarintEnc_length r.crc.toNat
  cases hd : r.data with
  | none => simp; omega
  | some d => simp; omega

theorem data_le_marshalRec (r : Rec) : (r.data.getD []).length ≤ (marshalRec r).length := by
  unfold marshalRec
  cases hd : r.data with
  | none => simp
  | some d => simp; omega

theorem marshalRec_shape (r : Rec) :
    marshalRec r = 0x08 :: (uvarintEnc r.type ++ (0x10 :: (uvarintEnc r.crc.toNat ++
      (match r.data with
       | none => []
       | some d => 0x1a :: (uvarintEnc d.length ++ (d ++ [])))))) := by
  unfold marshalRec
  cases r.data <;> simp

theorem scan_marshalRec (r : Rec) (l f : Nat) (ht : r.type < 2 ^ 64) (hl : l + (r.data.getD []).length < 2 ^ 63) :
    scan recSpec l (f + 4) (marshalRec r) [] =
      .ok ([(1, FVal.v r.type), (2, FVal.v r.crc.toNat)] ++ (match r.data with | none => [] | some d => [(3, FVal.b d)])) := by
  have hc : r.crc.toNat < 2 ^ 64 := by have := r.crc.toNat_lt; omega
  rw [marshalRec_shape]
  rw [show f + 4 = (f + 3) + 1 from rfl,
    scan_varint recSpec l _ 0x08 1 r.type _ _ (by decide) (by decide) (by decide) (by decide) (by simp [recSpec]) ht]
  rw [show f + 3 = (f + 2) + 1 from rfl,
    scan_varint recSpec l _ 0x10 2 r.crc.toNat _ _ (by decide) (by decide) (by decide) (by decide) (by simp [recSpec]) hc]
  cases hd : r.data with
  | none => simp only []; rw [show f + 2 = (f + 1) + 1 from rfl, scan_nil]; rfl
  | some d =>
    simp only []
    have hdl : l + d.length < 2 ^ 63 := by simpa [hd] using hl
    rw [show f + 2 = (f + 1) + 1 from rfl,
      scan_bytes recSpec l _ 0x1a 3 d [] _ (by decide) (by decide) (by decide) (by decide) (by simp [recSpec]) hdl]
    rw [scan_nil]; rfl

/-- **Record round trip**: `Unmarshal(Marshal(r)) = r` -/
theorem unmarshal_marshalRec (r : Rec) (ht : r.type < 2 ^ 64) (hl : (marshalRec r).length < 2 ^ 62) :
    unmarshalRec (marshalRec r) = .ok r := by
  unfold unmarshalRec scanAll
  have hge := marshalRec_length_ge r
  have hdl := data_le_marshalRec r
  have hf : (marshalRec r).length + 1 = ((marshalRec r).length - 3) + 4 := by omega
  rw [hf, scan_marshalRec r _ _ ht (by omega)]
  have hc : r.crc.toNat % two32 = r.crc.toNat := Nat.mod_eq_of_lt (by have := r.crc.toNat_lt; unfold two32; omega)
  cases hd : r.data with
  | none =>
    simp [lastV, lastB, hc]
    cases r; simp_all
  | some d =>
    simp [lastV, lastB, hc]
    cases r; simp_all

end Z.Wal

namespace Z.Wal

theorem unmarshal_marshalSnap (s : Snap) (hi : s.index < 2 ^ 64) (ht : s.term < 2 ^ 64) :
    unmarshalSnap (marshalSnap s) = .ok s := by
  unfold unmarshalSnap scanAll marshalSnap
  have h1 := uvarintEnc_length s.index
  have h2 := uvarintEnc_length s.term
  have hshape : [0x08] ++ uvarintEnc s.index ++ [0x10] ++ uvarintEnc s.term =
      0x08 :: (uvarintEnc s.index ++ (0x10 :: (uvarintEnc s.term ++ []))) := by simp
  rw [hshape]
  generalize hL : (0x08 :: (uvarintEnc s.index ++ (0x10 :: (uvarintEnc s.term ++ [])))).length = L
  have hL4 : L + 1 = (L - 2) + 3 := by simp at hL; omega
  rw [hL4, show L - 2 + 3 = (L - 2 + 2) + 1 from rfl,
    scan_varint snapSpec L _ 0x08 1 s.index _ _ (by decide) (by decide) (by decide) (by decide) (by simp [snapSpec]) hi,
    show L - 2 + 2 = (L - 2 + 1) + 1 from rfl,
    scan_varint snapSpec L _ 0x10 2 s.term _ _ (by decide) (by decide) (by decide) (by decide) (by simp [snapSpec]) ht,
    scan_nil]
  simp [lastV]

theorem unmarshal_marshalState (s : HardState) (h1 : s.term < 2 ^ 64) (h2 : s.vote < 2 ^ 64) (h3 : s.commit < 2 ^ 64) :
    unmarshalState (marshalState s) = .ok s := by
  unfold unmarshalState scanAll marshalState
  have l1 := uvarintEnc_length s.term
  have hshape : [0x08] ++ uvarintEnc s.term ++ [0x10] ++ uvarintEnc s.vote ++ [0x18] ++ uvarintEnc s.commit =
      0x08 :: (uvarintEnc s.term ++ (0x10 :: (uvarintEnc s.vote ++ (0x18 :: (uvarintEnc s.commit ++ []))))) := by simp
  rw [hshape]
  generalize hL : (0x08 :: (uvarintEnc s.term ++ (0x10 :: (uvarintEnc s.vote ++ (0x18 :: (uvarintEnc s.commit ++ [])))))).length = L
  have hL4 : L + 1 = (L - 3) + 4 := by simp at hL; omega
  rw [hL4, show L - 3 + 4 = (L - 3 + 3) + 1 from rfl,
    scan_varint stateSpec L _ 0x08 1 s.term _ _ (by decide) (by decide) (by decide) (by decide) (by simp [stateSpec]) h1,
    show L - 3 + 3 = (L - 3 + 2) + 1 from rfl,
    scan_varint stateSpec L _ 0x10 2 s.vote _ _ (by decide) (by decide) (by decide) (by decide) (by simp [stateSpec]) h2,
    show L - 3 + 2 = (L - 3 + 1) + 1 from rfl,
    scan_varint stateSpec L _ 0x18 3 s.commit _ _ (by decide) (by decide) (by decide) (by decide) (by simp [stateSpec]) h3,
    scan_nil]
  simp [lastV]

theorem sext32_small (v : Nat) (h : v < 2 ^ 31) : sext32 v = v := by
  unfold sext32 two32 two31
  have : v % 4294967296 = v := Nat.mod_eq_of_lt (by omega)
  simp [this]; omega

/-- entries as raft writes them: 64-bit fields, the two int32 fields non-negative -/
def Entry.ok (e : Entry) : Prop :=
  e.type < 2 ^ 31 ∧ e.term < 2 ^ 64 ∧ e.index < 2 ^ 64 ∧ e.id < 2 ^ 64 ∧ e.dataType < 2 ^ 31 ∧ e.timestamp < 2 ^ 64 ∧
  (e.data.getD []).length < 2 ^ 60

theorem unmarshal_marshalEntry (e : Entry) (h : e.ok) : unmarshalEntry (marshalEntry e) = .ok e := by
  obtain ⟨h1, h2, h3, h5, h6, h7, hd⟩ := h
  unfold unmarshalEntry scanAll
  have hshape : marshalEntry e = 0x08 :: (uvarintEnc e.type ++ (0x10 :: (uvarintEnc e.term ++ (0x18 :: (uvarintEnc e.index ++
      ((match e.data with | none => [] | some d => 0x22 :: (uvarintEnc d.length ++ (d ++ []))) ++
       (0x28 :: (uvarintEnc e.id ++ (0x30 :: (uvarintEnc e.dataType ++ (0x38 :: (uvarintEnc e.timestamp ++ [])))))))))))) := by
    unfold marshalEntry
    cases e.data <;> simp
  have l1 := uvarintEnc_length e.type
  have l2 := uvarintEnc_length e.term
  have l3 := uvarintEnc_length e.index
  have l5 := uvarintEnc_length e.id
  have l6 := uvarintEnc_length e.dataType
  have l7 := uvarintEnc_length e.timestamp
  generalize hL : (marshalEntry e).length = L
  have hLb : L ≤ 80 + (e.data.getD []).length := by
    rw [← hL, hshape]
    cases hd' : e.data with
    | none => simp; omega
    | some d => have := uvarintEnc_length d.length; simp; omega
  have hL7 : 7 ≤ L := by rw [← hL, hshape]; simp; omega
  rw [hshape]
  have hf : L + 1 = (L - 7) + 8 := by omega
  rw [hf, show L - 7 + 8 = (L - 7 + 7) + 1 from rfl,
    scan_varint entrySpec L _ 0x08 1 e.type _ _ (by decide) (by decide) (by decide) (by decide) (by simp [entrySpec]) (by omega),
    show L - 7 + 7 = (L - 7 + 6) + 1 from rfl,
    scan_varint entrySpec L _ 0x10 2 e.term _ _ (by decide) (by decide) (by decide) (by decide) (by simp [entrySpec]) h2,
    show L - 7 + 6 = (L - 7 + 5) + 1 from rfl,
    scan_varint entrySpec L _ 0x18 3 e.index _ _ (by decide) (by decide) (by decide) (by decide) (by simp [entrySpec]) h3]
  have tailScan : ∀ (f : Nat) (acc : List (Nat × FVal)),
      scan entrySpec L (f + 4) (0x28 :: (uvarintEnc e.id ++ (0x30 :: (uvarintEnc e.dataType ++ (0x38 :: (uvarintEnc e.timestamp ++ [])))))) acc
        = .ok (((7, FVal.v e.timestamp) :: (6, FVal.v e.dataType) :: (5, FVal.v e.id) :: acc).reverse) := by
    intro f acc
    rw [show f + 4 = (f + 3) + 1 from rfl,
      scan_varint entrySpec L _ 0x28 5 e.id _ _ (by decide) (by decide) (by decide) (by decide) (by simp [entrySpec]) h5,
      show f + 3 = (f + 2) + 1 from rfl,
      scan_varint entrySpec L _ 0x30 6 e.dataType _ _ (by decide) (by decide) (by decide) (by decide) (by simp [entrySpec]) (by omega),
      show f + 2 = (f + 1) + 1 from rfl,
      scan_varint entrySpec L _ 0x38 7 e.timestamp _ _ (by decide) (by decide) (by decide) (by decide) (by simp [entrySpec]) h7,
      scan_nil]
  cases hd' : e.data with
  | none =>
    simp only [List.nil_append]
    rw [show L - 7 + 5 = (L - 7 + 1) + 4 from rfl, tailScan]
    simp [lastV, lastB, sext32_small _ h1, sext32_small _ h6]
    cases e; simp_all
  | some d =>
    have hdl : L + d.length < 2 ^ 63 := by simp [hd'] at hd hLb; omega
    simp only [List.cons_append, List.append_assoc, List.nil_append]
    rw [show L - 7 + 5 = (L - 7 + 4) + 1 from rfl,
      scan_bytes entrySpec L _ 0x22 4 d _ _ (by decide) (by decide) (by decide) (by decide) (by simp [entrySpec]) hdl]
    rw [tailScan]
    simp [lastV, lastB, sext32_small _ h1, sext32_small _ h6]
    cases e; simp_all

end Z.Wal
