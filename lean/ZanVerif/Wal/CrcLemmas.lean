/-
  C05 lemmas: the concrete rolling CRC-32C detects every one-byte change (lifted from ZanVerif/Wal/Crc.lean).
-/
import ZanVerif.Wal.Crc32
namespace Z.Wal

theorem crc32c_nil (c : UInt32) : crc32c c [] = c := by
  unfold crc32c
  simp only [List.foldl_nil]
  rw [Nat.xor_assoc, Nat.xor_self, Nat.xor_zero]
  simp

/-- **one changed byte always changes the rolling CRC-32C**, from any chained start state, whatever precedes and follows -/
theorem crc32c_detects (c : UInt32) (pre suf : Bytes) (b b' : UInt8) (h : b ≠ b') :
    crc32c c (pre ++ b :: suf) ≠ crc32c c (pre ++ b' :: suf) := by
  rw [crc32c_spec, crc32c_spec]
  have hc : c.toNat ^^^ 0xFFFFFFFF < 2 ^ 32 := Nat.xor_lt_two_pow c.toNat_lt (by decide)
  have hb : b.toNat < 256 := b.toNat_lt
  have hb' : b'.toNat < 256 := b'.toNat_lt
  have hne : b.toNat ≠ b'.toNat := fun e => h (UInt8.toNat_inj.mp e)
  have hsuf : ∀ x ∈ suf.map (·.toNat), x < 256 := by
    intro x hx
    rw [List.mem_map] at hx
    obtain ⟨y, _, rfl⟩ := hx
    exact y.toNat_lt
  have hd := Z.Crc.crc_detects_one_byte (pre.map (·.toNat)) (suf.map (·.toNat)) b.toNat b'.toNat _ hc hb hb' hne hsuf
  simp only [List.map_append, List.map_cons]
  intro heq
  apply hd
  have h1 : Z.Crc.crc (c.toNat ^^^ 0xFFFFFFFF) (pre.map (·.toNat) ++ b.toNat :: suf.map (·.toNat)) < 2 ^ 32 := Z.Crc.crc_lt _ hc
  have h2 : Z.Crc.crc (c.toNat ^^^ 0xFFFFFFFF) (pre.map (·.toNat) ++ b'.toNat :: suf.map (·.toNat)) < 2 ^ 32 := Z.Crc.crc_lt _ hc
  have h1' := Nat.xor_lt_two_pow h1 (show 0xFFFFFFFF < 2 ^ 32 by decide)
  have h2' := Nat.xor_lt_two_pow h2 (show 0xFFFFFFFF < 2 ^ 32 by decide)
  have := congrArg UInt32.toNat heq
  simp only [UInt32.toNat_ofNat'] at this
  rw [Nat.mod_eq_of_lt h1', Nat.mod_eq_of_lt h2'] at this
  exact Z.Crc.xorR this

end Z.Wal
