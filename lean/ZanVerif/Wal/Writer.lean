/-
  C05 model, part 4: the writer — `wal.Create`, `WAL.Save`, `WAL.SaveSnapshot`, `WAL.Sync`, `cut` — as a
  producer of segment bytes **and** of the offsets up to which the tail is written (handed to the OS by the
  PageWriter) and fdatasync'ed.  Core only; every decision expression is the regenerated one.
-/
import ZanVerif.Wal.ReadAll

namespace Z.Wal

/-- save history -/
inductive Op
  | save (st : HardState) (ents : List Entry)
  | snap (s : Snap)
  | sync
  deriving Repr

structure WState where
  seg : Nat                      -- wal.SegmentSizeBytes
  opt : Bool                     -- optimizedFsync
  mdata : Bytes
  closed : List Seg := []        -- finished segment files
  closedRecs : List (List Rec) := []   -- ghost: the records of the finished segments
  seq : Nat := 0
  first : Nat := 0               -- the tail is <seq>-<first>.wal
  tail : Bytes := []             -- every byte encoded into the tail so far (written or still buffered)
  recs : List Rec := []          -- ghost: the records whose frames make up `tail`
  crc0 : UInt32 := 0             -- ghost: rolling crc at the start of the tail
  flushed : Nat := 0             -- bytes of the tail handed to the OS
  synced : Nat := 0              -- bytes of the tail fdatasync'ed
  crc : UInt32 := 0              -- rolling crc of the encoder
  enti : Nat := 0
  state : HardState := HardState.empty
  deriving Repr

/-- `PageWriter.Write` of `n` bytes when `total` bytes have been accepted and `flushed` of them written:
    returns the new (flushed, total) -/
def pwWrite (flushed total n : Nat) : Nat × Nat :=
  let buffered := total - flushed
  let watermark := Gen.wal_defaultBufferBytes
  let pageBytes := Gen.wal_walPageBytes
  if Gen.wal_pwFits (Int.ofNat n) (Int.ofNat buffered) watermark then (flushed, total + n)
  else
    -- the page offset of the buffer base is congruent to `flushed` modulo the page size
    let slack := (Gen.wal_pwSlack pageBytes (Int.ofNat flushed) (Int.ofNat buffered)).toNat
    if slack ≠ pageBytes.toNat ∧ slack > n then (flushed, total + n)        -- partial slack page, no flush
    else
      let s := if slack ≠ pageBytes.toNat then slack else 0
      let total := total + s
      let n := n - s
      -- Flush
      let flushed := total
      if Gen.wal_pwDirect (Int.ofNat n) pageBytes then
        let pages := (Gen.wal_pwPages (Int.ofNat n) pageBytes).toNat
        let direct := pages * pageBytes.toNat
        (total + direct, total + direct + (n - direct))    -- whole pages written directly, the rest buffered
      else (flushed, total + n)

/-- `encoder.encode`: two writes into the PageWriter (length word; data with padding) -/
def appendRec (crcf : UInt32 → Bytes → UInt32) (w : WState) (type : Nat) (data : Option Bytes) : WState :=
  let r := sealRec crcf w.crc type data
  let f := frame r
  let (fl1, t1) := pwWrite w.flushed w.tail.length 8
  let (fl2, _) := pwWrite fl1 t1 (f.length - 8)
  { w with tail := w.tail ++ f, recs := w.recs ++ [r], crc := r.crc, flushed := fl2 }

/-- `WAL.sync(fsync)`: flush the PageWriter, then fdatasync if asked -/
def wsync (w : WState) (fsync : Bool) : WState :=
  let w := { w with flushed := w.tail.length }
  if fsync then { w with synced := w.flushed } else w

def saveState (crcf : UInt32 → Bytes → UInt32) (w : WState) (st : HardState) : WState :=
  if st.isEmpty then w
  else appendRec crcf { w with state := st } stateType (some (marshalState st))

/-- the tail becomes a closed segment file, the next (empty) segment becomes the tail -/
def rotate (w : WState) : WState :=
  { w with closed := w.closed ++ [⟨w.seq, w.first, w.tail⟩], closedRecs := w.closedRecs ++ [w.recs], seq := w.seq + 1,
           first := w.enti + 1, tail := [], recs := [], crc0 := w.crc, flushed := 0, synced := 0 }

/-- `WAL.cut`: truncate the old tail at the written offset and flush the rest (`sync`), new file with crc record,
    metadata and the current hard state, `sync` -/
def cut (crcf : UInt32 → Bytes → UInt32) (w : WState) : WState :=
  let w1 := rotate (wsync w (Gen.wal_markerFsync w.opt))
  let w2 := appendRec crcf w1 crcType none
  let w3 := appendRec crcf w2 metadataType (some w2.mdata)
  let w4 := saveState crcf w3 w3.state
  wsync w4 (Gen.wal_markerFsync w4.opt)

def saveSnapshot (crcf : UInt32 → Bytes → UInt32) (w : WState) (s : Snap) : WState :=
  let w := appendRec crcf w snapshotType (some (marshalSnap s))
  let w := if w.enti < s.index then { w with enti := s.index } else w
  wsync w (Gen.wal_markerFsync w.opt)

/-- `wal.Create` -/
def create (crcf : UInt32 → Bytes → UInt32) (seg : Nat) (opt : Bool) (md : Bytes) : WState :=
  let w : WState := { seg := seg, opt := opt, mdata := md }
  let w := appendRec crcf w crcType none
  let w := appendRec crcf w metadataType (some md)
  saveSnapshot crcf w ⟨0, 0⟩

/-- `WAL.Save` -/
def save (crcf : UInt32 → Bytes → UInt32) (w : WState) (st : HardState) (ents : List Entry) : WState :=
  if st.isEmpty && ents.isEmpty then w
  else
    let mustSync := Gen.wal_mustSync (Int.ofNat ents.length) (Int.ofNat st.vote) (Int.ofNat w.state.vote)
                      (Int.ofNat st.term) (Int.ofNat w.state.term)
    let fsync := Gen.wal_saveFsync st.isEmpty (Int.ofNat st.vote) (Int.ofNat w.state.vote) (Int.ofNat st.term) (Int.ofNat w.state.term)
    let fsync := if Gen.wal_saveForceFsync w.opt then true else fsync
    let w := ents.foldl (fun w e => { appendRec crcf w entryType (some (marshalEntry e)) with enti := e.index }) w
    let w := saveState crcf w st
    if Gen.wal_saveNoCut (Int.ofNat w.flushed) (Int.ofNat w.seg) then
      if mustSync then wsync w fsync else w
    else cut crcf w

def apply (crcf : UInt32 → Bytes → UInt32) (w : WState) : Op → WState
  | .save st ents => save crcf w st ents
  | .snap s => saveSnapshot crcf w s
  | .sync => wsync w true

/-- the tail file as it is on disk: the written bytes, then the rest of the preallocated space as zeros -/
def tailFile (w : WState) : Bytes :=
  let written := w.tail.take w.flushed
  written ++ zeros (w.seg - written.length)

/-- **encodeHistory**: the segment files after `create` and a save history -/
def files (w : WState) : List Seg := w.closed ++ [⟨w.seq, w.first, tailFile w⟩]

/-- `wal.Create`, then the history -/
def runHistory (crcf : UInt32 → Bytes → UInt32) (seg : Nat) (opt : Bool) (md : Bytes) (h : List Op) : WState :=
  h.foldl (apply crcf) (create crcf seg opt md)

def encodeHistory (crcf : UInt32 → Bytes → UInt32) (seg : Nat) (opt : Bool) (md : Bytes) (h : List Op) : List Seg :=
  files (runHistory crcf seg opt md h)

end Z.Wal
