/-
  C05 model, part 2: frames, the record encoder and `decoder.decodeRecord` with its outcomes
  (core only).  All arithmetic and all decision expressions are the regenerated ones of
  `Gen/WalFrame.lean`; the rolling CRC is a parameter `crcf : UInt32 → Bytes → UInt32`
  (`crc32.Update` with the Castagnoli table in the real code, `Z.Wal.crc32c` in the driver).
-/
import ZanVerif.Gen.WalFrame
import ZanVerif.Wal.Proto

namespace Z.Wal

def zeros (n : Nat) : Bytes := List.replicate n 0

/-! ### constants (regenerated) -/
def sector : Nat := Gen.wal_minSectorSize.toNat
def frameSizeBytes : Nat := Gen.wal_frameSizeBytes.toNat
def metadataType : Nat := Gen.wal_metadataType.toNat
def entryType : Nat := Gen.wal_entryType.toNat
def stateType : Nat := Gen.wal_stateType.toNat
def crcType : Nat := Gen.wal_crcType.toNat
def snapshotType : Nat := Gen.wal_snapshotType.toNat

/-! ### the 8-byte little-endian length word -/

def le64 (w : Nat) : Bytes :=
  [UInt8.ofNat w, UInt8.ofNat (w / 2^8), UInt8.ofNat (w / 2^16), UInt8.ofNat (w / 2^24),
   UInt8.ofNat (w / 2^32), UInt8.ofNat (w / 2^40), UInt8.ofNat (w / 2^48), UInt8.ofNat (w / 2^56)]

/-- `binary.LittleEndian.Uint64` of (the first 8 bytes of) a byte string -/
def readLE64 (b : Bytes) : Nat :=
  (b.take 8).foldr (fun x acc => x.toNat + 256 * acc) 0

/-- the unsigned 64-bit pattern read as Go's `int64` -/
def asI64 (w : Nat) : Int := Z.Bits.i64 (Int.ofNat w)

/-! ### frame size arithmetic: `encodeFrameSize` / `decodeFrameSize` over the regenerated expressions -/

/-- (length word, padding) for a record of `n` marshalled bytes -/
def encodeFrameSize (n : Nat) : Nat × Nat :=
  let pad := Gen.wal_encPad (Int.ofNat n)
  let l0 := Gen.wal_encLen0 (Int.ofNat n)
  ((if Gen.wal_encPadCond pad then Gen.wal_encLenPadded l0 pad else l0).toNat, pad.toNat)

/-- (record bytes, padding) of a length word (given as Go's int64) -/
def decodeFrameSize (l : Int) : Int × Int :=
  (Gen.wal_decRec l, if Gen.wal_decPadCond l then Gen.wal_decPad l else 0)

/-! ### encoder: `encoder.encode` -/

def frameOf (p : Bytes) : Bytes :=
  let (lw, pad) := encodeFrameSize p.length
  le64 lw ++ p ++ zeros pad

/-- `e.crc.Write(rec.Data); rec.Crc = e.crc.Sum32()`: the record as written and the new rolling crc -/
def sealRec (crcf : UInt32 → Bytes → UInt32) (c : UInt32) (type : Nat) (data : Option Bytes) : Rec :=
  ⟨type, crcf c (data.getD []), data⟩

def frame (r : Rec) : Bytes := frameOf (marshalRec r)

/-- payload of a record to be written: type and data -/
structure Payload where
  type : Nat
  data : Option Bytes
  deriving DecidableEq, Repr

/-- the frames of a list of payloads written one after the other from rolling crc `c`, with the sealed records
    and the final crc -/
def encodeRecs (crcf : UInt32 → Bytes → UInt32) : UInt32 → List Payload → Bytes × List Rec × UInt32
  | c, [] => ([], [], c)
  | c, p :: ps =>
    let r := sealRec crcf c p.type p.data
    let (bs, rs, c') := encodeRecs crcf r.crc ps
    (frame r ++ bs, r :: rs, c')

/-! ### decoder -/

inductive Stop
  | eof | ueof | crc | unmarshal | maxSize
  | chain            -- a crcType record that does not continue the chain (`wal.ErrCRCMismatch` in the read loops)
  | fuel             -- model artefact, never reached with the fuel the callers give (proved)
  deriving DecidableEq, Repr

/-- decoder state: remaining input of the remaining segments (head = current), `lastValidOff`, rolling crc -/
structure Dec where
  brs : List Bytes
  off : Nat
  crc : UInt32
  deriving Repr

inductive Res
  | got (r : Rec) (d : Dec)
  | stop (s : Stop) (d : Dec)
  deriving Repr

/-- `isTornEntry`'s loop: split on sector boundaries (file offsets), torn iff some chunk is all zero -/
def tornChunks : Nat → Nat → Bytes → Bool
  | 0, _, _ => false
  | _ + 1, _, [] => false
  | fuel + 1, fileOff, data =>
    let c := min (Gen.wal_tornChunk (Int.ofNat fileOff)).toNat data.length
    if (data.take c).all (· == 0) then true else tornChunks fuel (fileOff + c) (data.drop c)

def isTornEntry (readers : Nat) (lastValidOff : Nat) (data : Bytes) : Bool :=
  if Gen.wal_tornNotLast (Int.ofNat readers) then false
  else tornChunks (data.length + 1) (Gen.wal_tornStart (Int.ofNat lastValidOff)).toNat data

/-- `n ≤ b.length`, without walking the whole list -/
def hasLen : Bytes → Nat → Bool
  | _, 0 => true
  | [], _ + 1 => false
  | _ :: t, n + 1 => hasLen t n

theorem hasLen_iff (b : Bytes) (n : Nat) : hasLen b n = true ↔ n ≤ b.length := by
  induction b generalizing n with
  | nil => cases n <;> simp [hasLen]
  | cons x t ih => cases n <;> simp [hasLen, ih]

/-- `decoder.decodeRecord` after `io.ReadFull` delivered `data` (record bytes and padding; `after` is what follows in
    the reader): unmarshal, torn-write test on failure, crc test -/
def decodeData (crcf : UInt32 → Bytes → UInt32) (b : Bytes) (rest : List Bytes) (off : Nat) (c : UInt32)
    (recBytes padBytes : Int) (data after : Bytes) : Res :=
  match unmarshalRec (data.take recBytes.toNat) with
  | .error e =>
    if isTornEntry (b :: rest).length off data then .stop .ueof ⟨b :: rest, off, c⟩
    else .stop (match e with | .ueof => .ueof | .other => .unmarshal) ⟨b :: rest, off, c⟩
  | .ok r =>
    if Gen.wal_decCrcChecked (asI64 r.type) then
      if Gen.wal_validateOk (Int.ofNat r.crc.toNat) (Int.ofNat (crcf c (r.data.getD [])).toNat) then
        .got r ⟨after :: rest, off + (Gen.wal_decAdvance recBytes padBytes).toNat, crcf c (r.data.getD [])⟩
      else if isTornEntry (b :: rest).length off data then .stop .ueof ⟨b :: rest, off, crcf c (r.data.getD [])⟩
      else .stop .crc ⟨b :: rest, off, crcf c (r.data.getD [])⟩
    else .got r ⟨after :: rest, off + (Gen.wal_decAdvance recBytes padBytes).toNat, c⟩

/-- … once the frame size is known: size limit, `io.ReadFull` of record bytes and padding -/
def decodeSized (crcf : UInt32 → Bytes → UInt32) (b : Bytes) (rest : List Bytes) (off : Nat) (c : UInt32)
    (recBytes padBytes : Int) : Res :=
  if Gen.wal_decSizeLimit recBytes padBytes then .stop .maxSize ⟨b :: rest, off, c⟩
  else if ¬ hasLen (b.drop 8) (recBytes + padBytes).toNat then .stop .ueof ⟨b :: rest, off, c⟩      -- io.ReadFull
  else decodeData crcf b rest off c recBytes padBytes ((b.drop 8).take (recBytes + padBytes).toNat)
         ((b.drop 8).drop (recBytes + padBytes).toNat)

/-- … once the length word `l ≠ 0` of the current reader `b` has been read -/
def decodeBody (crcf : UInt32 → Bytes → UInt32) (b : Bytes) (rest : List Bytes) (off : Nat) (c : UInt32) : Res :=
  decodeSized crcf b rest off c (decodeFrameSize (asI64 (readLE64 b))).1 (decodeFrameSize (asI64 (readLE64 b))).2

/-- `decoder.decodeRecord`: by recursion over the segment readers -/
def decodeRecord (crcf : UInt32 → Bytes → UInt32) : List Bytes → Nat → UInt32 → Res
  | [], off, c => .stop .eof ⟨[], off, c⟩
  | b :: rest, off, c =>
    -- readInt64: io.EOF on an empty reader, io.ErrUnexpectedEOF on 1..7 bytes
    if b = [] ∨ (hasLen b 8 ∧ readLE64 b = 0) then
      -- end of file or preallocated space: next reader
      match rest with
      | [] => .stop .eof ⟨[], off, c⟩
      | _ :: _ => decodeRecord crcf rest 0 c
    else if ¬ hasLen b 8 then .stop .ueof ⟨b :: rest, off, c⟩
    else decodeBody crcf b rest off c

/-- the loop shared by `ReadAll`, `ValidSnapshotEntries`, `Verify` and `Repair`: decode until an error;
    a `crcType` record must continue the chain (unless the decoder's crc is 0) and then sets the crc.
    Returns the records decoded before the stop. -/
def stream (crcf : UInt32 → Bytes → UInt32) : Nat → Dec → List Rec × Stop × Dec
  | 0, d => ([], .fuel, d)
  | fuel + 1, d =>
    match decodeRecord crcf d.brs d.off d.crc with
    | .stop s d' => ([], s, d')
    | .got r d' =>
      if r.type = crcType then
        if Gen.wal_chainBad (Int.ofNat d'.crc.toNat) (!(Gen.wal_validateOk (Int.ofNat r.crc.toNat) (Int.ofNat d'.crc.toNat))) then
          ([], .chain, d')
        else
          let (rs, s, d'') := stream crcf fuel { d' with crc := r.crc }
          (r :: rs, s, d'')
      else
        let (rs, s, d'') := stream crcf fuel d'
        (r :: rs, s, d'')

def totalLen (segs : List Bytes) : Nat := (segs.map List.length).sum

/-- enough fuel for any input: every record consumes at least 8 bytes -/
def streamAll (crcf : UInt32 → Bytes → UInt32) (segs : List Bytes) : List Rec × Stop × Dec :=
  stream crcf (totalLen segs / 8 + 2) ⟨segs, 0, 0⟩

end Z.Wal
