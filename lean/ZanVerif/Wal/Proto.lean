/-
  C05 model, part 1: the protobuf wire format as the gogo-generated code of this tree reads and
  writes it (core only).

  * `uvarintEnc` = `encodeVarintRecord` / `encodeVarintRaft`
  * `uvarint`    = the inlined varint loops of the generated `Unmarshal` functions
                   (at most 10 bytes, `ErrIntOverflow` after that, `io.ErrUnexpectedEOF` at the end of input)
  * `skipField`  = `skipRecord` / `skipRaft` (identical texts; checked by the translator's source hash only)
  * `scan`       = the common loop of every generated `Unmarshal`: tag, wire type / field number checks,
                   known fields (varint or bytes), unknown fields skipped
  * walpb.Record, walpb.Snapshot, raftpb.HardState, raftpb.Entry: marshal exactly as `MarshalTo`
    (non-nullable scalars are always written, `Data` only when non-nil), unmarshal through `scan`.

  Error classes: only `ueof` (the generated code returns the *sentinel* `io.ErrUnexpectedEOF`, which the
  WAL decoder and `Repair` cannot tell from a short read of the file) and `other` matter to the WAL.
-/
namespace Z.Wal

abbrev Bytes := List UInt8

inductive PErr | ueof | other
  deriving DecidableEq, Repr

def two64 : Nat := 18446744073709551616
def two63 : Nat := 9223372036854775808
def two32 : Nat := 4294967296
def two31 : Nat := 2147483648

/-! ### varints -/

/-- `encodeVarint…`: 7 bits per byte, least significant first; `fuel` = 9 suffices for 64 bits -/
def uvarintEncAux : Nat → Nat → Bytes
  | 0, v => [UInt8.ofNat v]
  | k + 1, v => if v < 128 then [UInt8.ofNat v] else UInt8.ofNat (v % 128 + 128) :: uvarintEncAux k (v / 128)

def uvarintEnc (v : Nat) : Bytes := uvarintEncAux 9 v

/-- the varint loop of the generated code: `k` bytes may still be read (10 at the start: the test
    `shift >= 64` fails before the 11th byte).  Returns the untruncated value and the rest. -/
def uvarintAux : Nat → Bytes → Except PErr (Nat × Bytes)
  | 0, _ => .error .other                      -- ErrIntOverflow (tested before the end-of-input test)
  | _ + 1, [] => .error .ueof
  | k + 1, b :: bs =>
    if b < 128 then .ok (b.toNat, bs)
    else match uvarintAux k bs with
      | .ok (w, r) => .ok (b.toNat % 128 + 128 * w, r)
      | .error e => .error e

def uvarint (b : Bytes) : Except PErr (Nat × Bytes) := uvarintAux 10 b

/-- skipping a varint (wire type 0 in `skip…`): same loop, value ignored -/
def skipVarintAux : Nat → Bytes → Except PErr Nat
  | 0, _ => .error .other
  | _ + 1, [] => .error .ueof
  | k + 1, b :: bs => if b < 128 then .ok 1 else match skipVarintAux k bs with
      | .ok n => .ok (n + 1)
      | .error e => .error e

/-! ### `skipRecord` / `skipRaft`: the number of bytes a field occupies (may point behind the input:
    the fixed-width cases do not check, the caller does).  Fuel: a nested group start costs two units
    (`skipField` → `skipGroup`) and one byte, a further field of a group one unit and at least one byte, so
    `2 * length + 4` never runs out (with `length + 1` the input `7b 1b` — two nested group starts at the end
    of a record — ran out and answered `other` where the code answers `io.ErrUnexpectedEOF`). -/

mutual
def skipField : Nat → Bytes → Except PErr Nat
  | 0, _ => .error .other
  | fuel + 1, b =>
    match uvarint b with
    | .error e => .error e
    | .ok (wire, rest) =>
      let c := b.length - rest.length
      match wire % two64 % 8 with
      | 0 => match skipVarintAux 10 rest with
             | .ok n => .ok (c + n)
             | .error e => .error e
      | 1 => .ok (c + 8)
      | 2 => match uvarint rest with
             | .error e => .error e
             | .ok (len, rest2) =>
               let len := len % two64
               if len ≥ two63 then .error .other          -- negative length
               else
                 let n := (b.length - rest2.length) + len
                 if n ≥ two63 then .error .other else .ok n
      | 3 => skipGroup fuel b c
      | 4 => .ok c
      | 5 => .ok (c + 4)
      | _ => .error .other                                 -- illegal wireType 6, 7

/-- the `for` loop of wire type 3: skip nested fields until an end-group tag; `p` is the index into `b` -/
def skipGroup : Nat → Bytes → Nat → Except PErr Nat
  | 0, _, _ => .error .other
  | fuel + 1, b, p =>
    match uvarint (b.drop p) with
    | .error e => .error e
    | .ok (inner, rest) =>
      if inner % two64 % 8 = 4 then .ok (b.length - rest.length)
      else match skipField fuel (b.drop p) with
        | .error e => .error e
        | .ok next =>
          let q := p + next
          if q ≥ two63 then .error .other else skipGroup fuel b q
end

/-! ### the common `Unmarshal` loop -/

inductive Kind | varint | bytes
  deriving DecidableEq, Repr

inductive FVal | v (n : Nat) | b (d : Bytes)
  deriving Repr

/-- one iteration per field.  `spec f` is the kind of known field `f`.  The assignments to known fields are
    returned in input order (later ones overwrite earlier ones in the generated code).  `l` is the length of
    the whole input (Go's index arithmetic is on absolute indexes and is checked for int overflow). -/
def scan (spec : Nat → Option Kind) (l : Nat) : Nat → Bytes → List (Nat × FVal) → Except PErr (List (Nat × FVal))
  | 0, _, _ => .error .other
  | _ + 1, [], acc => .ok acc.reverse
  | fuel + 1, b, acc =>
    match uvarint b with
    | .error e => .error e
    | .ok (wire, rest) =>
      let wire := wire % two64
      let wt := wire % 8
      let fnum := (wire / 8) % two32                      -- int32(wire >> 3)
      if wt = 4 then .error .other                        -- end group for non-group
      else if fnum = 0 ∨ fnum ≥ two31 then .error .other  -- fieldNum <= 0: illegal tag
      else match spec fnum with
        | some .varint =>
          if wt ≠ 0 then .error .other
          else match uvarint rest with
            | .error e => .error e
            | .ok (v, rest2) => scan spec l fuel rest2 ((fnum, .v (v % two64)) :: acc)
        | some .bytes =>
          if wt ≠ 2 then .error .other
          else match uvarint rest with
            | .error e => .error e
            | .ok (len, rest2) =>
              let len := len % two64
              if len ≥ two63 then .error .other                              -- byteLen < 0
              else if (l - rest2.length) + len ≥ two63 then .error .other    -- postIndex < 0
              else if len > rest2.length then .error .ueof                   -- postIndex > l
              else scan spec l fuel (rest2.drop len) ((fnum, .b (rest2.take len)) :: acc)
        | none =>
          match skipField (2 * b.length + 4) b with        -- fuel: ≤ 2 per byte (nested group starts), see the note at `skipField`
          | .error e => .error e
          | .ok skippy =>
            if (l - b.length) + skippy ≥ two63 then .error .other
            else if skippy > b.length then .error .ueof
            else scan spec l fuel (b.drop skippy) acc

def scanAll (spec : Nat → Option Kind) (b : Bytes) : Except PErr (List (Nat × FVal)) :=
  scan spec b.length (b.length + 1) b []

def lastV (fs : List (Nat × FVal)) (f : Nat) : Nat :=
  fs.foldl (fun a (x : Nat × FVal) => if x.1 = f then (match x.2 with | .v n => n | .b _ => a) else a) 0

def lastB (fs : List (Nat × FVal)) (f : Nat) : Option Bytes :=
  fs.foldl (fun a (x : Nat × FVal) => if x.1 = f then (match x.2 with | .b d => some d | .v _ => a) else a) none

/-! ### walpb.Record {type int64 = 1, crc uint32 = 2, data bytes = 3} -/

structure Rec where
  type : Nat              -- the int64 field as its unsigned 64-bit pattern
  crc : UInt32
  data : Option Bytes     -- `nil` vs present
  deriving DecidableEq, Repr

def marshalRec (r : Rec) : Bytes :=
  [0x08] ++ uvarintEnc r.type ++ [0x10] ++ uvarintEnc r.crc.toNat ++
    (match r.data with
     | none => []
     | some d => [0x1a] ++ uvarintEnc d.length ++ d)

def recSpec (f : Nat) : Option Kind :=
  if f = 1 then some .varint else if f = 2 then some .varint else if f = 3 then some .bytes else none

def unmarshalRec (b : Bytes) : Except PErr Rec :=
  match scanAll recSpec b with
  | .error e => .error e
  | .ok fs => .ok ⟨lastV fs 1, UInt32.ofNat (lastV fs 2 % two32), lastB fs 3⟩

/-! ### walpb.Snapshot {index uint64 = 1, term uint64 = 2} -/

structure Snap where
  index : Nat
  term : Nat
  deriving DecidableEq, Repr

def marshalSnap (s : Snap) : Bytes := [0x08] ++ uvarintEnc s.index ++ [0x10] ++ uvarintEnc s.term

def snapSpec (f : Nat) : Option Kind := if f = 1 then some .varint else if f = 2 then some .varint else none

def unmarshalSnap (b : Bytes) : Except PErr Snap :=
  match scanAll snapSpec b with
  | .error e => .error e
  | .ok fs => .ok ⟨lastV fs 1, lastV fs 2⟩

/-! ### raftpb.HardState {term = 1, vote = 2, commit = 3} -/

structure HardState where
  term : Nat
  vote : Nat
  commit : Nat
  deriving DecidableEq, Repr

def HardState.empty : HardState := ⟨0, 0, 0⟩
def HardState.isEmpty (s : HardState) : Bool := s.term == 0 && s.vote == 0 && s.commit == 0

def marshalState (s : HardState) : Bytes :=
  [0x08] ++ uvarintEnc s.term ++ [0x10] ++ uvarintEnc s.vote ++ [0x18] ++ uvarintEnc s.commit

def stateSpec (f : Nat) : Option Kind := if f = 1 ∨ f = 2 ∨ f = 3 then some .varint else none

def unmarshalState (b : Bytes) : Except PErr HardState :=
  match scanAll stateSpec b with
  | .error e => .error e
  | .ok fs => .ok ⟨lastV fs 1, lastV fs 2, lastV fs 3⟩

/-! ### raftpb.Entry {Type int32 enum = 1, Term = 2, Index = 3, Data bytes = 4, ID = 5, data_type int32 = 6,
    timestamp int64 = 7}; the 64-bit patterns of the signed fields are kept (int32 fields sign-extended,
    as `uint64(m.Type)` does when the entry is marshalled again) -/

structure Entry where
  type : Nat
  term : Nat
  index : Nat
  data : Option Bytes
  id : Nat
  dataType : Nat
  timestamp : Nat
  deriving DecidableEq, Repr

/-- int32 field read from a varint, then widened to uint64 -/
def sext32 (v : Nat) : Nat :=
  let w := v % two32
  if w < two31 then w else w + (two64 - two32)

def marshalEntry (e : Entry) : Bytes :=
  [0x08] ++ uvarintEnc e.type ++ [0x10] ++ uvarintEnc e.term ++ [0x18] ++ uvarintEnc e.index ++
    (match e.data with
     | none => []
     | some d => [0x22] ++ uvarintEnc d.length ++ d) ++
    [0x28] ++ uvarintEnc e.id ++ [0x30] ++ uvarintEnc e.dataType ++ [0x38] ++ uvarintEnc e.timestamp

def entrySpec (f : Nat) : Option Kind :=
  if f = 4 then some .bytes else if 1 ≤ f ∧ f ≤ 7 then some .varint else none

def unmarshalEntry (b : Bytes) : Except PErr Entry :=
  match scanAll entrySpec b with
  | .error e => .error e
  | .ok fs => .ok ⟨sext32 (lastV fs 1), lastV fs 2, lastV fs 3, lastB fs 4, lastV fs 5, sext32 (lastV fs 6), lastV fs 7⟩

end Z.Wal
