/-
  C05 lemmas, part 6: what an accepted record is (crc-collision-explicit form); a record whose crc does not match.
-/
import ZanVerif.Wal.TornLemmas
namespace Z.Wal

/-- what the decoder accepts carries, for every checked record type, the rolling crc over its data -/
def AcceptedSpec (crcf : UInt32 → Bytes → UInt32) (c : UInt32) (r' : Rec) : Prop :=
  ∃ data : Bytes, unmarshalRec data = .ok r' ∧
    (Gen.wal_decCrcChecked (asI64 r'.type) = true → r'.crc = crcf c (r'.data.getD []))

theorem decodeData_got (crcf : UInt32 → Bytes → UInt32) (b : Bytes) (rest : List Bytes) (off : Nat) (c : UInt32)
    (rb pb : Int) (data after : Bytes) (r' : Rec) (d : Dec)
    (h : decodeData crcf b rest off c rb pb data after = .got r' d) : AcceptedSpec crcf c r' := by
  unfold decodeData at h
  split at h
  · split at h <;> simp at h
  · rename_i r hr
    split at h
    · split at h
      · rename_i hv
        simp only [Res.got.injEq] at h
        rw [h.1] at hr hv
        refine ⟨_, hr, ?_⟩
        intro _
        unfold Gen.wal_validateOk at hv
        simp only [Int.ofNat_eq_natCast, beq_iff_eq] at hv
        have : r'.crc.toNat = (crcf c (r'.data.getD [])).toNat := by omega
        exact UInt32.toNat_inj.mp this
      · split at h <;> simp at h
    · rename_i hchk
      simp only [Res.got.injEq] at h
      rw [h.1] at hr hchk
      exact ⟨_, hr, fun hc => absurd hc hchk⟩

theorem decodeSized_got (crcf : UInt32 → Bytes → UInt32) (b : Bytes) (rest : List Bytes) (off : Nat) (c : UInt32)
    (rb pb : Int) (r' : Rec) (d : Dec)
    (h : decodeSized crcf b rest off c rb pb = .got r' d) : AcceptedSpec crcf c r' := by
  unfold decodeSized at h
  split at h
  · simp at h
  · split at h
    · simp at h
    · exact decodeData_got crcf _ _ _ _ _ _ _ _ _ _ h

/-- an accepted record (from whatever bytes) is the unmarshalling of bytes of the reader and, for every checked record
    type, carries the rolling crc over its data: an accepted *damaged* frame is therefore the identical record or an
    explicit crc collision -/
theorem got_spec (crcf : UInt32 → Bytes → UInt32) (b : Bytes) (off : Nat) (c : UInt32) (r' : Rec) (d : Dec)
    (h : decodeRecord crcf [b] off c = .got r' d) : AcceptedSpec crcf c r' := by
  simp only [decodeRecord] at h
  split at h
  · simp at h
  · split at h
    · simp at h
    · exact decodeSized_got crcf _ _ _ _ _ _ _ _ h


/-- a complete, well-formed frame of a checked record type whose crc field is **not** the rolling crc over its data:
    the decoder stops with a crc mismatch — or with unexpected EOF when `isTornEntry` takes it for a torn write
    (last segment, some sector-aligned chunk of the frame all zero) -/
theorem decodeRecord_frame_badcrc (crcf : UInt32 → Bytes → UInt32) (r : Rec) (t : Bytes) (rest : List Bytes) (off : Nat)
    (c : UInt32) (hwf : r.wf) (hty : r.type ≠ crcType) (hbad : r.crc ≠ crcf c (r.data.getD [])) :
    decodeRecord crcf ((frame r ++ t) :: rest) off c =
      (if isTornEntry (rest.length + 1) off (marshalRec r ++ zeros (padOf (marshalRec r).length)) = true
       then .stop .ueof ⟨(frame r ++ t) :: rest, off, crcf c (r.data.getD [])⟩
       else .stop .crc ⟨(frame r ++ t) :: rest, off, crcf c (r.data.getD [])⟩) := by
  have h56 := hwf.len56
  have hn4 := marshalRec_length_ge r
  -- the data step
  have hdd : decodeData crcf (frame r ++ t) rest off c ((marshalRec r).length : Int) ((padOf (marshalRec r).length : Nat) : Int)
      (marshalRec r ++ zeros (padOf (marshalRec r).length)) t =
      (if isTornEntry (rest.length + 1) off (marshalRec r ++ zeros (padOf (marshalRec r).length)) = true
       then .stop .ueof ⟨(frame r ++ t) :: rest, off, crcf c (r.data.getD [])⟩
       else .stop .crc ⟨(frame r ++ t) :: rest, off, crcf c (r.data.getD [])⟩) := by
    unfold decodeData
    have htake2 : (marshalRec r ++ zeros (padOf (marshalRec r).length)).take (((marshalRec r).length : Int)).toNat = marshalRec r := by
      simp only [Int.toNat_natCast]
      rw [List.take_append_of_le_length (Nat.le_refl _)]
      exact List.take_of_length_le (Nat.le_refl _)
    have hum : unmarshalRec (marshalRec r) = .ok r :=
      unmarshal_marshalRec r (by have := hwf.1; omega) (by omega)
    rw [htake2, hum]
    have hty' : asI64 r.type = (r.type : Int) := by
      unfold asI64; exact i64_small r.type hwf.1
    have hcc : Gen.wal_decCrcChecked (r.type : Int) = true := by
      unfold Gen.wal_decCrcChecked; rw [crcType_spec]; simp; omega
    have hv : Gen.wal_validateOk (Int.ofNat r.crc.toNat) (Int.ofNat (crcf c (r.data.getD [])).toNat) = false := by
      unfold Gen.wal_validateOk
      simp only [Int.ofNat_eq_natCast, beq_eq_false_iff_ne, ne_eq]
      intro h
      have : r.crc.toNat = (crcf c (r.data.getD [])).toNat := by omega
      exact hbad (UInt32.toNat_inj.mp this)
    simp only [hty', hcc, if_true, hv, Bool.false_eq_true, if_false, List.length_cons]
  generalize hn : (marshalRec r).length = n at *
  have hp : padOf n < 8 := Nat.mod_lt _ (by decide)
  have hfl := frame_length r (by omega)
  rw [hn] at hfl
  have hfe := frame_eq r (by omega)
  rw [hn] at hfe
  have hb : frame r ++ t = le64 (lenWord n) ++ (marshalRec r ++ zeros (padOf n) ++ t) := by
    rw [hfe]; simp
  simp only [decodeRecord]
  have hne : frame r ++ t ≠ [] := by
    intro h
    have h2 : (frame r ++ t).length = 0 := by rw [h]; rfl
    rw [List.length_append, hfl] at h2; omega
  have hrd : readLE64 (frame r ++ t) = lenWord n := by
    rw [hb]; exact readLE64_le64 _ (lenWord_lt n h56) _
  have hl8 : hasLen (frame r ++ t) 8 = true := by rw [hasLen_iff]; simp; omega
  have hc1 : ¬ (frame r ++ t = [] ∨ (hasLen (frame r ++ t) 8 = true ∧ readLE64 (frame r ++ t) = 0)) := by
    intro h
    rcases h with h | ⟨_, h⟩
    · exact hne h
    · rw [hrd] at h; exact lenWord_pos n (by omega) h
  rw [if_neg hc1, if_neg (by simp [hl8])]
  unfold decodeBody
  rw [hrd, decodeFrameSize_lenWord n h56]
  unfold decodeSized
  have hlim : Gen.wal_decSizeLimit (n : Int) ((padOf n : Nat) : Int) = false := by
    unfold Gen.wal_decSizeLimit
    rw [sizeLimit_spec.1]
    have := hwf.2
    simp; omega
  have hdrop : (frame r ++ t).drop 8 = marshalRec r ++ zeros (padOf n) ++ t := by
    rw [hb]; simp [le64]
  have hneed : ((n : Int) + ((padOf n : Nat) : Int)).toNat = n + padOf n := by omega
  have hl2 : hasLen (marshalRec r ++ zeros (padOf n) ++ t) (n + padOf n) = true := by
    rw [hasLen_iff]; simp [zeros, hn]
  have htake : (marshalRec r ++ zeros (padOf n) ++ t).take (n + padOf n) = marshalRec r ++ zeros (padOf n) := by
    rw [List.take_append_of_le_length (by simp [zeros, hn])]
    apply List.take_of_length_le; simp [zeros, hn]
  have hdrop2 : (marshalRec r ++ zeros (padOf n) ++ t).drop (n + padOf n) = t := by
    rw [List.drop_append_of_le_length (by simp [zeros, hn])]
    have : (marshalRec r ++ zeros (padOf n)).drop (n + padOf n) = [] := by
      apply List.drop_of_length_le; simp [zeros, hn]
    rw [this]; simp
  rw [hlim, hdrop, hneed]
  simp only [Bool.false_eq_true, if_false, hl2, not_true_eq_false, htake, hdrop2]
  rw [hdd]

end Z.Wal
