/-
  C05 lemmas, part 1: the regenerated frame-size arithmetic equals the plain arithmetic
  `padOf n = (8 - n % 8) % 8`, `lenWord n = n` or `(0x80 + pad) * 2^56 + n`, and `decodeFrameSize` inverts it.
-/
import ZanVerif.Wal.Record
namespace Z.Wal

theorem or64_ofNat (a b : Nat) : Z.Bits.or64 (a : Int) (b : Int) = ((a ||| b : Nat) : Int) := by simp [Z.Bits.or64]
theorem and64_ofNat (a b : Nat) : Z.Bits.and64 (a : Int) (b : Int) = ((a &&& b : Nat) : Int) := by simp [Z.Bits.and64]
theorem shl64_ofNat (a n : Nat) : Z.Bits.shl64 (a : Int) (n : Int) = (((a <<< n) % 2^64 : Nat) : Int) := by simp [Z.Bits.shl64]
theorem shr64_ofNat (a n : Nat) : Z.Bits.shr64 (a : Int) (n : Int) = ((a >>> n : Nat) : Int) := by simp [Z.Bits.shr64]
theorem u64_nat (n : Nat) (h : n < 2 ^ 64) : Z.Bits.u64 (n : Int) = (n : Int) := by
  unfold Z.Bits.u64 Z.Bits.two64; omega

theorem i64_small (n : Nat) (h : n < 2 ^ 63) : Z.Bits.i64 (n : Int) = (n : Int) := by
  unfold Z.Bits.i64
  rw [u64_nat n (by omega)]
  have : (n : Int) < Z.Bits.two63 := by unfold Z.Bits.two63; omega
  simp [this]

theorem i64_big (n : Nat) (h1 : 2 ^ 63 ≤ n) (h2 : n < 2 ^ 64) :
    Z.Bits.i64 (n : Int) = (n : Int) - 18446744073709551616 := by
  unfold Z.Bits.i64
  rw [u64_nat n h2]
  have : ¬ (n : Int) < Z.Bits.two63 := by unfold Z.Bits.two63; omega
  simp [this, Z.Bits.two64]

theorem u64_neg (n : Nat) (h1 : 2 ^ 63 ≤ n) (h2 : n < 2 ^ 64) :
    Z.Bits.u64 ((n : Int) - 18446744073709551616) = (n : Int) := by
  unfold Z.Bits.u64 Z.Bits.two64
  omega

/-- clean arithmetic of encodeFrameSize -/
def padOf (n : Nat) : Nat := (8 - n % 8) % 8
def lenWord (n : Nat) : Nat := if padOf n = 0 then n else (128 + padOf n) * 2 ^ 56 + n

theorem lor_high (a c k : Nat) (h : a < 2^k) : a ||| (c <<< k) = c * 2^k + a := by
  rw [Nat.or_comm, ← Nat.shiftLeft_add_eq_or_of_lt h, Nat.shiftLeft_eq]

theorem or128 (p : Nat) (h : p < 8) : 128 ||| p = 128 + p := by
  have : ∀ p, p < 8 → 128 ||| p = 128 + p := by decide
  exact this p h

theorem encPad_eq (n : Nat) : Gen.wal_encPad (n : Int) = ((padOf n : Nat) : Int) := by
  unfold Gen.wal_encPad padOf
  have h1 : Int.tmod (n : Int) 8 = ((n % 8 : Nat) : Int) := by
    rw [Int.tmod_eq_emod_of_nonneg (Int.natCast_nonneg n)]; rfl
  rw [h1]
  have h2 : (0 : Int) ≤ 8 - ((n % 8 : Nat) : Int) := by omega
  rw [Int.tmod_eq_emod_of_nonneg h2]
  omega

theorem encodeFrameSize_eq (n : Nat) (h : n < 2 ^ 56) : encodeFrameSize n = (lenWord n, padOf n) := by
  unfold encodeFrameSize
  simp only [Int.ofNat_eq_natCast, encPad_eq]
  have hp : padOf n < 8 := Nat.mod_lt _ (by decide)
  have hl0 : Gen.wal_encLen0 (n : Int) = (n : Int) := by
    unfold Gen.wal_encLen0; exact u64_nat n (by omega)
  rw [hl0]
  unfold lenWord
  by_cases h0 : padOf n = 0
  · simp [h0, Gen.wal_encPadCond]
  · have hc : Gen.wal_encPadCond ((padOf n : Nat) : Int) = true := by
      simp [Gen.wal_encPadCond]; omega
    simp only [hc, if_true, h0, if_false]
    unfold Gen.wal_encLenPadded
    have e1 : Z.Bits.or64 (128 : Int) ((padOf n : Nat) : Int) = ((128 + padOf n : Nat) : Int) := by
      have := or64_ofNat 128 (padOf n)
      rw [or128 _ hp] at this
      simpa using this
    rw [e1, u64_nat _ (by omega)]
    have e2 : Z.Bits.shl64 ((128 + padOf n : Nat) : Int) (56 : Int) = (((128 + padOf n) * 2 ^ 56 : Nat) : Int) := by
      have := shl64_ofNat (128 + padOf n) 56
      rw [Nat.shiftLeft_eq, Nat.mod_eq_of_lt (by omega)] at this
      simpa using this
    rw [e2]
    have e3 := or64_ofNat n ((128 + padOf n) * 2 ^ 56)
    have e4 : n ||| (128 + padOf n) * 2 ^ 56 = (128 + padOf n) * 2 ^ 56 + n := by
      have := lor_high n (128 + padOf n) 56 h
      rw [Nat.shiftLeft_eq] at this
      exact this
    rw [e4] at e3
    rw [e3]
    simp only [Int.toNat_natCast]

theorem decodeFrameSize_lenWord (n : Nat) (h : n < 2 ^ 56) :
    decodeFrameSize (asI64 (lenWord n)) = ((n : Int), ((padOf n : Nat) : Int)) := by
  have hp : padOf n < 8 := Nat.mod_lt _ (by decide)
  unfold decodeFrameSize asI64 lenWord
  simp only [Int.ofNat_eq_natCast]
  have hmask : Z.Bits.not64 (Z.Bits.shl64 (Z.Bits.u64 (255 : Int)) (56 : Int)) = ((2 ^ 56 - 1 : Nat) : Int) := by
    have a1 : Z.Bits.u64 (255 : Int) = ((255 : Nat) : Int) := u64_nat 255 (by decide)
    have a2 := shl64_ofNat 255 56
    rw [a1]
    have a3 : Z.Bits.shl64 ((255 : Nat) : Int) (56 : Int) = ((255 * 2 ^ 56 : Nat) : Int) := by
      rw [Nat.shiftLeft_eq, Nat.mod_eq_of_lt (by decide)] at a2; simpa using a2
    rw [a3]
    unfold Z.Bits.not64
    rw [u64_nat _ (by decide)]
    decide
  by_cases h0 : padOf n = 0
  · simp only [h0, if_true]
    rw [i64_small n (by omega)]
    have hc : Gen.wal_decPadCond (n : Int) = false := by simp [Gen.wal_decPadCond]
    simp only [hc]
    have hr : Gen.wal_decRec (n : Int) = (n : Int) := by
      unfold Gen.wal_decRec
      rw [hmask, u64_nat n (by omega), and64_ofNat, Nat.and_two_pow_sub_one_eq_mod, Nat.mod_eq_of_lt h]
      exact i64_small n (by omega)
    rw [hr]
    simp
  · simp only [h0, if_false]
    have hlo : 2 ^ 63 ≤ (128 + padOf n) * 2 ^ 56 + n := by omega
    have hhi : (128 + padOf n) * 2 ^ 56 + n < 2 ^ 64 := by omega
    rw [i64_big _ hlo hhi]
    have hc : Gen.wal_decPadCond ((((128 + padOf n) * 2 ^ 56 + n : Nat) : Int) - 18446744073709551616) = true := by
      simp [Gen.wal_decPadCond]; omega
    simp only [hc, if_true]
    unfold Gen.wal_decRec Gen.wal_decPad
    rw [hmask, u64_neg _ hlo hhi, and64_ofNat, Nat.and_two_pow_sub_one_eq_mod]
    have e1 : ((128 + padOf n) * 2 ^ 56 + n) % 2 ^ 56 = n := by omega
    rw [e1, i64_small n (by omega)]
    have e2 := shr64_ofNat ((128 + padOf n) * 2 ^ 56 + n) 56
    have e2' : Z.Bits.shr64 ((((128 + padOf n) * 2 ^ 56 + n : Nat) : Int)) (56 : Int) = ((128 + padOf n : Nat) : Int) := by
      rw [Nat.shiftRight_eq_div_pow] at e2
      have : ((128 + padOf n) * 2 ^ 56 + n) / 2 ^ 56 = 128 + padOf n := by omega
      rw [this] at e2; simpa using e2
    rw [e2']
    have e3 := and64_ofNat (128 + padOf n) 7
    have e3' : Z.Bits.and64 ((128 + padOf n : Nat) : Int) (7 : Int) = ((padOf n : Nat) : Int) := by
      have : (128 + padOf n) &&& 7 = padOf n := by
        have := Nat.and_two_pow_sub_one_eq_mod (128 + padOf n) 3
        simp only [show (2:Nat)^3 - 1 = 7 by decide, show (2:Nat)^3 = 8 by decide] at this
        rw [this]; omega
      rw [this] at e3; simpa using e3
    rw [e3', i64_small _ (by omega)]
end Z.Wal
