/-
  C05 lemmas, part 8: closed segments followed by the tail segment.
-/
import ZanVerif.Wal.AcceptLemmas
namespace Z.Wal

/-- consecutive segments written by one encoder chain: the rolling crc continues from segment to segment -/
def SealedSegs (crcf : UInt32 → Bytes → UInt32) : UInt32 → List (List Rec) → Prop
  | _, [] => True
  | c, s :: ss => Sealed crcf c s ∧ SealedSegs crcf (crcAfter c s) ss

def crcAfterSegs (c : UInt32) : List (List Rec) → UInt32
  | [] => c
  | s :: ss => crcAfterSegs (crcAfter c s) ss

def recCount (ss : List (List Rec)) : Nat := (ss.map List.length).sum

/-- **decoding closed segments followed by the tail segment**: all records of the closed segments (files end exactly
    behind their last frame), then the records of the tail, then whatever follows the tail's frames (`t`) -/
theorem stream_segs (crcf : UInt32 → Bytes → UInt32) (hnil : ∀ c, crcf c [] = c) :
    ∀ (pre : List (List Rec)) (tail : List Rec) (c : UInt32) (off f : Nat) (t : Bytes),
      SealedSegs crcf c (pre ++ [tail]) →
      stream crcf (recCount pre + tail.length + (f + 1)) ⟨pre.map framesOf ++ [framesOf tail ++ t], off, c⟩ =
        (pre.flatten ++ tail ++
          (stream crcf (f + 1) ⟨[t], (if pre = [] then off else 0) + (framesOf tail).length, crcAfterSegs c (pre ++ [tail])⟩).1,
         (stream crcf (f + 1) ⟨[t], (if pre = [] then off else 0) + (framesOf tail).length, crcAfterSegs c (pre ++ [tail])⟩).2) := by
  intro pre
  induction pre with
  | nil =>
    intro tail c off f t hs
    simp only [List.nil_append, SealedSegs] at hs
    simp only [recCount, List.map_nil, List.sum_nil, Nat.zero_add, List.nil_append, List.flatten_nil, if_true, crcAfterSegs]
    exact stream_frames crcf hnil tail c off (f + 1) t [] hs.1
  | cons s ss ih =>
    intro tail c off f t hs
    simp only [List.cons_append, SealedSegs] at hs
    obtain ⟨h1, h2⟩ := hs
    have e1 : recCount (s :: ss) + tail.length + (f + 1) = s.length + (recCount ss + tail.length + (f + 1)) := by
      simp [recCount]; omega
    have e2 : (s :: ss).map framesOf ++ [framesOf tail ++ t] = (framesOf s ++ []) :: (ss.map framesOf ++ [framesOf tail ++ t]) := by
      simp
    rw [e1, e2, stream_frames crcf hnil s c off _ [] _ h1]
    -- the exhausted reader is dropped, the offset restarts at 0
    have hnext : stream crcf (recCount ss + tail.length + (f + 1))
        ⟨[] :: (ss.map framesOf ++ [framesOf tail ++ t]), off + (framesOf s).length, crcAfter c s⟩ =
        stream crcf (recCount ss + tail.length + (f + 1)) ⟨ss.map framesOf ++ [framesOf tail ++ t], 0, crcAfter c s⟩ := by
      have e3 : recCount ss + tail.length + (f + 1) = (recCount ss + tail.length + f) + 1 := by omega
      rw [e3]
      cases hss : ss.map framesOf ++ [framesOf tail ++ t] with
      | nil => simp at hss
      | cons b rest => exact stream_next crcf _ _ _ b rest
    rw [hnext, ih tail (crcAfter c s) 0 f t h2]
    simp only [List.flatten_cons, List.append_assoc, crcAfterSegs, List.cons_append]
    cases ss <;> simp

end Z.Wal
