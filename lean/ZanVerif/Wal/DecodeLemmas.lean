/-
  C05 lemmas, part 3: `decodeRecord` on a complete frame, on a cut frame and on the zero tail.
-/
import ZanVerif.Wal.ProtoLemmas
namespace Z.Wal


def sizeLimit : Nat := Gen.wal_maxWALEntrySizeLimit.toNat

/-- a record the decoder can accept: non-negative int64 type, marshalled size (with padding) below the size limit -/
def Rec.wf (r : Rec) : Prop := r.type < 2 ^ 63 ∧ (marshalRec r).length + 7 < sizeLimit

theorem sizeLimit_spec : Gen.wal_maxWALEntrySizeLimit = (sizeLimit : Int) ∧ sizeLimit ≤ 2 ^ 55 := by decide
theorem frameSizeBytes_spec : Gen.wal_frameSizeBytes = 8 := by decide
theorem crcType_spec : Gen.wal_crcType = (crcType : Int) := by decide

theorem frame_eq (r : Rec) (h : (marshalRec r).length < 2 ^ 56) :
    frame r = le64 (lenWord (marshalRec r).length) ++ (marshalRec r ++ zeros (padOf (marshalRec r).length)) := by
  unfold frame frameOf
  rw [encodeFrameSize_eq _ h]
  simp

theorem frame_length (r : Rec) (h : (marshalRec r).length < 2 ^ 56) :
    (frame r).length = 8 + (marshalRec r).length + padOf (marshalRec r).length := by
  rw [frame_eq r h]; simp [le64_length, zeros]; omega

theorem lenWord_pos (n : Nat) (h : 0 < n) : lenWord n ≠ 0 := by
  unfold lenWord; split <;> omega

theorem lenWord_lt (n : Nat) (h : n < 2 ^ 56) : lenWord n < 2 ^ 64 := by
  have hp : padOf n < 8 := Nat.mod_lt _ (by decide)
  unfold lenWord; split <;> omega

theorem hasLen_append_left (a b : Bytes) (n : Nat) (h : n ≤ a.length) : hasLen (a ++ b) n = true := by
  rw [hasLen_iff]; simp; omega


theorem Rec.wf.len56 {r : Rec} (h : r.wf) : (marshalRec r).length < 2 ^ 56 := by
  have h1 := sizeLimit_spec.2; have h2 := h.2
  generalize sizeLimit = L at h1 h2
  omega

/-- the data step on the bytes of a sealed record -/
theorem decodeData_ok (crcf : UInt32 → Bytes → UInt32) (r : Rec) (b : Bytes) (rest : List Bytes) (off : Nat) (c : UInt32)
    (pad : Nat) (after : Bytes) (hwf : r.wf) (hcrc : r.type ≠ crcType → r.crc = crcf c (r.data.getD [])) :
    decodeData crcf b rest off c ((marshalRec r).length : Int) (pad : Int) (marshalRec r ++ zeros pad) after =
      .got r ⟨after :: rest, off + (8 + (marshalRec r).length + pad), if r.type = crcType then c else r.crc⟩ := by
  have h56 := hwf.len56
  unfold decodeData
  have htake2 : (marshalRec r ++ zeros pad).take (((marshalRec r).length : Int)).toNat = marshalRec r := by
    simp only [Int.toNat_natCast]
    rw [List.take_append_of_le_length (Nat.le_refl _)]
    exact List.take_of_length_le (Nat.le_refl _)
  have hum : unmarshalRec (marshalRec r) = .ok r :=
    unmarshal_marshalRec r (by have := hwf.1; omega) (by omega)
  rw [htake2, hum]
  have hadv : (Gen.wal_decAdvance ((marshalRec r).length : Int) (pad : Int)).toNat = 8 + (marshalRec r).length + pad := by
    unfold Gen.wal_decAdvance; rw [frameSizeBytes_spec]; omega
  have hty : asI64 r.type = (r.type : Int) := by
    unfold asI64; exact i64_small r.type hwf.1
  simp only [hadv, hty]
  by_cases hct : r.type = crcType
  · have hcc : Gen.wal_decCrcChecked (r.type : Int) = false := by
      unfold Gen.wal_decCrcChecked; rw [crcType_spec, hct]; simp
    rw [hcc]; simp [hct]
  · have hcc : Gen.wal_decCrcChecked (r.type : Int) = true := by
      unfold Gen.wal_decCrcChecked; rw [crcType_spec]; simp; omega
    have hv : Gen.wal_validateOk (Int.ofNat r.crc.toNat) (Int.ofNat (crcf c (r.data.getD [])).toNat) = true := by
      unfold Gen.wal_validateOk; rw [← hcrc hct]; simp
    rw [hcc]; simp only [if_true, hv]; simp [hct, ← hcrc hct]

/-- **decoding one complete frame** (followed by anything): the record comes out, the decoder advances -/
theorem decodeRecord_frame (crcf : UInt32 → Bytes → UInt32) (r : Rec) (t : Bytes) (rest : List Bytes) (off : Nat) (c : UInt32)
    (hwf : r.wf) (hcrc : r.type ≠ crcType → r.crc = crcf c (r.data.getD [])) :
    decodeRecord crcf ((frame r ++ t) :: rest) off c =
      .got r ⟨t :: rest, off + (frame r).length, if r.type = crcType then c else r.crc⟩ := by
  have h56 := hwf.len56
  have hn4 := marshalRec_length_ge r
  have hdd := decodeData_ok crcf r (frame r ++ t) rest off c (padOf (marshalRec r).length) t hwf hcrc
  generalize hn : (marshalRec r).length = n at *
  have hp : padOf n < 8 := Nat.mod_lt _ (by decide)
  have hfl := frame_length r (by omega)
  rw [hn] at hfl
  have hfe := frame_eq r (by omega)
  rw [hn] at hfe
  have hb : frame r ++ t = le64 (lenWord n) ++ (marshalRec r ++ zeros (padOf n) ++ t) := by
    rw [hfe]; simp
  simp only [decodeRecord]
  have hne : frame r ++ t ≠ [] := by
    intro h
    have h2 : (frame r ++ t).length = 0 := by rw [h]; rfl
    rw [List.length_append, hfl] at h2; omega
  have hrd : readLE64 (frame r ++ t) = lenWord n := by
    rw [hb]; exact readLE64_le64 _ (lenWord_lt n h56) _
  have hl8 : hasLen (frame r ++ t) 8 = true := by rw [hasLen_iff]; simp; omega
  have hc1 : ¬ (frame r ++ t = [] ∨ (hasLen (frame r ++ t) 8 = true ∧ readLE64 (frame r ++ t) = 0)) := by
    intro h
    rcases h with h | ⟨_, h⟩
    · exact hne h
    · rw [hrd] at h; exact lenWord_pos n (by omega) h
  rw [if_neg hc1, if_neg (by simp [hl8])]
  unfold decodeBody
  rw [hrd, decodeFrameSize_lenWord n h56]
  unfold decodeSized
  have hlim : Gen.wal_decSizeLimit (n : Int) ((padOf n : Nat) : Int) = false := by
    unfold Gen.wal_decSizeLimit
    rw [sizeLimit_spec.1]
    have := hwf.2
    simp; omega
  have hdrop : (frame r ++ t).drop 8 = marshalRec r ++ zeros (padOf n) ++ t := by
    rw [hb]; simp [le64]
  have hneed : ((n : Int) + ((padOf n : Nat) : Int)).toNat = n + padOf n := by omega
  have hl2 : hasLen (marshalRec r ++ zeros (padOf n) ++ t) (n + padOf n) = true := by
    rw [hasLen_iff]; simp [zeros, hn]
  have htake : (marshalRec r ++ zeros (padOf n) ++ t).take (n + padOf n) = marshalRec r ++ zeros (padOf n) := by
    rw [List.take_append_of_le_length (by simp [zeros, hn])]
    apply List.take_of_length_le; simp [zeros, hn]
  have hdrop2 : (marshalRec r ++ zeros (padOf n) ++ t).drop (n + padOf n) = t := by
    rw [List.drop_append_of_le_length (by simp [zeros, hn])]
    have : (marshalRec r ++ zeros (padOf n)).drop (n + padOf n) = [] := by
      apply List.drop_of_length_le; simp [zeros, hn]
    rw [this]; simp
  rw [hlim, hdrop, hneed]
  simp only [Bool.false_eq_true, if_false, hl2, not_true_eq_false, htake, hdrop2]
  rw [hdd, hfl]


theorem readLE64_zeros (k : Nat) : readLE64 (zeros k) = 0 := by
  unfold readLE64 zeros
  rw [List.take_replicate]
  generalize min 8 k = m
  induction m with
  | zero => rfl
  | succ m ih => simp [List.replicate_succ, ih]

/-- the zero tail of a preallocated segment (last reader): EOF, or unexpected EOF when 1..7 bytes are left -/
theorem decodeRecord_zeros (crcf : UInt32 → Bytes → UInt32) (k off : Nat) (c : UInt32) :
    decodeRecord crcf [zeros k] off c =
      if k = 0 ∨ 8 ≤ k then .stop .eof ⟨[], off, c⟩ else .stop .ueof ⟨[zeros k], off, c⟩ := by
  simp only [decodeRecord]
  have hl : hasLen (zeros k) 8 = true ↔ 8 ≤ k := by rw [hasLen_iff]; simp [zeros]
  have hz : zeros k = [] ↔ k = 0 := by
    unfold zeros; cases k <;> simp [List.replicate_succ]
  by_cases h : k = 0 ∨ 8 ≤ k
  · have : zeros k = [] ∨ (hasLen (zeros k) 8 = true ∧ readLE64 (zeros k) = 0) := by
      rcases h with h | h
      · exact Or.inl (hz.mpr h)
      · exact Or.inr ⟨hl.mpr h, readLE64_zeros k⟩
    rw [if_pos this, if_pos h]
  · have h1 : ¬ (zeros k = [] ∨ (hasLen (zeros k) 8 = true ∧ readLE64 (zeros k) = 0)) := by
      intro h'
      rcases h' with h' | ⟨h', _⟩
      · exact h (Or.inl (hz.mp h'))
      · exact h (Or.inr (hl.mp h'))
    have h2 : ¬ hasLen (zeros k) 8 = true := by
      intro h'; exact h (Or.inr (hl.mp h'))
    rw [if_neg h1, if_pos h2, if_neg h]

/-- **a frame cut at byte m** (last reader, nothing behind it): nothing comes out; EOF when m = 0, else unexpected EOF -/
theorem decodeRecord_cut (crcf : UInt32 → Bytes → UInt32) (r : Rec) (m off : Nat) (c : UInt32) (hwf : r.wf)
    (hm : m < (frame r).length) :
    decodeRecord crcf [(frame r).take m] off c =
      if m = 0 then .stop .eof ⟨[], off, c⟩ else .stop .ueof ⟨[(frame r).take m], off, c⟩ := by
  have h56 := hwf.len56
  have hn4 := marshalRec_length_ge r
  generalize hn : (marshalRec r).length = n at *
  have hp : padOf n < 8 := Nat.mod_lt _ (by decide)
  have hfl := frame_length r (by omega)
  rw [hn] at hfl
  have hfe := frame_eq r (by omega)
  rw [hn] at hfe
  have hlen : ((frame r).take m).length = m := by rw [List.length_take]; omega
  simp only [decodeRecord]
  by_cases h0 : m = 0
  · subst h0; simp
  · have hne : (frame r).take m ≠ [] := by
      intro h; rw [h] at hlen; simp at hlen; omega
    by_cases h8 : m < 8
    · have hl : ¬ hasLen ((frame r).take m) 8 = true := by rw [hasLen_iff, hlen]; omega
      have h1 : ¬ ((frame r).take m = [] ∨ (hasLen ((frame r).take m) 8 = true ∧ readLE64 ((frame r).take m) = 0)) := by
        intro h; rcases h with h | ⟨h, _⟩
        · exact hne h
        · exact hl h
      rw [if_neg h1, if_pos hl, if_neg h0]
    · have hl : hasLen ((frame r).take m) 8 = true := by rw [hasLen_iff, hlen]; omega
      have htk : (frame r).take m = le64 (lenWord n) ++ (marshalRec r ++ zeros (padOf n)).take (m - 8) := by
        rw [hfe, List.take_append]; simp [le64_length]
        have : List.take m (le64 (lenWord n)) = le64 (lenWord n) := List.take_of_length_le (by simp [le64_length]; omega)
        rw [this]
      have hrd : readLE64 ((frame r).take m) = lenWord n := by
        rw [htk]; exact readLE64_le64 _ (lenWord_lt n h56) _
      have h1 : ¬ ((frame r).take m = [] ∨ (hasLen ((frame r).take m) 8 = true ∧ readLE64 ((frame r).take m) = 0)) := by
        intro h; rcases h with h | ⟨_, h⟩
        · exact hne h
        · rw [hrd] at h; exact lenWord_pos n (by omega) h
      rw [if_neg h1, if_neg (by simp [hl]), if_neg h0]
      unfold decodeBody
      rw [hrd, decodeFrameSize_lenWord n h56]
      unfold decodeSized
      have hlim : Gen.wal_decSizeLimit (n : Int) ((padOf n : Nat) : Int) = false := by
        unfold Gen.wal_decSizeLimit
        rw [sizeLimit_spec.1]
        have := hwf.2
        simp; omega
      have hneed : ((n : Int) + ((padOf n : Nat) : Int)).toNat = n + padOf n := by omega
      have hshort : ¬ hasLen (((frame r).take m).drop 8) (n + padOf n) = true := by
        rw [hasLen_iff, List.length_drop, hlen]; omega
      rw [hlim, hneed]
      simp only [Bool.false_eq_true, if_false, hshort, not_false_eq_true, if_true]


end Z.Wal
