/-
  C05 lemmas, part 7: the effect of a record list (`ReadAll`): fold law, entry rule, newest state.
-/
import ZanVerif.Wal.ProtoLemmas
import ZanVerif.Wal.ReadAll
namespace Z.Wal

/-- `ReadAll`'s entry rule in plain arithmetic (the regenerated expressions `e.Index > w.start.Index`,
    `up := e.Index - w.start.Index - 1`, `up > len(ents)`, `append(ents[:up], e)`) -/
theorem addEntry_eq (start : Snap) (ents : List Entry) (e : Entry) :
    addEntry start ents e =
      if e.index > start.index then
        (if e.index - start.index - 1 > ents.length then .error .indexGap
         else .ok (ents.take (e.index - start.index - 1) ++ [e]))
      else .ok ents := by
  unfold addEntry Gen.wal_readKeep Gen.wal_readUp Gen.wal_readGap
  simp only [Int.ofNat_eq_natCast]
  by_cases h : e.index > start.index
  · have h2 : (((e.index : Int) - (start.index : Int)) - 1).toNat = e.index - start.index - 1 := by omega
    simp only [h2, if_pos h]
    have h1 : decide ((e.index : Int) > (start.index : Int)) = true := by simp; omega
    simp only [h1, if_true]
    by_cases hg : e.index - start.index - 1 > ents.length
    · have : decide (((e.index - start.index - 1 : Nat) : Int) > (ents.length : Int)) = true := by simp; omega
      simp only [this, if_true, if_pos hg]
    · have : decide (((e.index - start.index - 1 : Nat) : Int) > (ents.length : Int)) = false := by simp; omega
      simp only [this, Bool.false_eq_true, if_false, if_neg hg]
  · have h1 : decide ((e.index : Int) > (start.index : Int)) = false := by simp; omega
    simp only [h1, Bool.false_eq_true, if_false, if_neg h]

/-- the entries read so far are the contiguous run `start.index+1, start.index+2, …` -/
def Contig (start : Snap) (ents : List Entry) : Prop :=
  ∀ k (h : k < ents.length), (ents[k]).index = start.index + 1 + k

theorem contig_nil (start : Snap) : Contig start [] := by intro k h; simp at h

/-- **entry law**: reading an entry with an index already present replaces that entry and cuts everything behind it;
    the result is again contiguous, ends in the new entry, keeps exactly the older entries with a smaller index -/
theorem addEntry_spec (start : Snap) (ents ents' : List Entry) (e : Entry) (hc : Contig start ents)
    (hk : e.index > start.index) (h : addEntry start ents e = .ok ents') :
    Contig start ents' ∧ ents'.getLast? = some e ∧
    (∀ x, x ∈ ents' → x = e ∨ (x ∈ ents ∧ x.index < e.index)) ∧
    (∀ x, x ∈ ents → x.index < e.index → x ∈ ents') ∧
    (∀ x, x ∈ ents → x.index ≥ e.index → x ∈ ents' → x = e) := by
  rw [addEntry_eq, if_pos hk] at h
  by_cases hg : e.index - start.index - 1 > ents.length
  · rw [if_pos hg] at h; cases h
  · rw [if_neg hg] at h
    have h' : ents' = ents.take (e.index - start.index - 1) ++ [e] := by cases h; rfl
    subst h'
    generalize hup : e.index - start.index - 1 = up at *
    have hlen : (ents.take up).length = up := by rw [List.length_take]; omega
    have hmem : ∀ x, x ∈ ents.take up → x ∈ ents ∧ x.index < e.index := by
      intro x hx
      obtain ⟨k, hk', rfl⟩ := List.getElem_of_mem hx
      rw [hlen] at hk'
      have hk2 : k < ents.length := by omega
      rw [List.getElem_take]
      exact ⟨List.getElem_mem hk2, by rw [hc k hk2]; omega⟩
    refine ⟨?_, by simp, ?_, ?_, ?_⟩
    · intro k hk'
      simp only [List.length_append, List.length_singleton, hlen] at hk'
      by_cases hku : k < up
      · rw [List.getElem_append_left (by rw [hlen]; exact hku), List.getElem_take]
        exact hc k (by omega)
      · have : k = up := by omega
        subst this
        rw [List.getElem_append_right (by rw [hlen]; omega)]
        simp [hlen]; omega
    · intro x hx
      rw [List.mem_append] at hx
      rcases hx with hx | hx
      · exact Or.inr (hmem x hx)
      · left; simpa using hx
    · intro x hx hlt
      obtain ⟨k, hk', rfl⟩ := List.getElem_of_mem hx
      have hki : (ents[k]).index = start.index + 1 + k := hc k hk'
      have hku : k < up := by omega
      rw [List.mem_append]; left
      rw [List.mem_iff_getElem]
      exact ⟨k, by rw [hlen]; exact hku, by rw [List.getElem_take]⟩
    · intro x hx hge hx'
      rw [List.mem_append] at hx'
      rcases hx' with hx' | hx'
      · have := (hmem x hx').2; omega
      · simpa using hx'

end Z.Wal

namespace Z.Wal

theorem types_distinct : entryType ≠ stateType ∧ entryType ≠ metadataType ∧ entryType ≠ crcType ∧ entryType ≠ snapshotType ∧
    stateType ≠ metadataType ∧ stateType ≠ crcType ∧ stateType ≠ snapshotType ∧ metadataType ≠ crcType ∧
    metadataType ≠ snapshotType ∧ crcType ≠ snapshotType := by decide

/-- **`effect` is a left fold over the records**: the effect of a longer prefix is the effect of the shorter one
    followed by the remaining records -/
theorem effectFrom_append (start : Snap) (a : Acc) (rs ss : List Rec) :
    effectFrom start a (rs ++ ss) =
      (match effectFrom start a rs with
       | .error f => .error f
       | .ok a' => effectFrom start a' ss) := by
  induction rs generalizing a with
  | nil => simp [effectFrom]
  | cons r rs ih =>
    simp only [List.cons_append, effectFrom]
    cases handle start a r with
    | error f => rfl
    | ok a' => exact ih a'

/-- **newest hard state wins**: a state record sets the state, whatever it was -/
theorem handle_state (start : Snap) (a : Acc) (r : Rec) (s : HardState) (ht : r.type = stateType)
    (hd : r.data = some (marshalState s)) (h1 : s.term < 2 ^ 64) (h2 : s.vote < 2 ^ 64) (h3 : s.commit < 2 ^ 64) :
    handle start a r = .ok { a with state := s } := by
  have hne := types_distinct
  unfold handle
  rw [if_neg (by rw [ht]; exact fun h => hne.1 h.symm), if_pos ht, hd]
  simp [unmarshal_marshalState s h1 h2 h3]

/-- an entry record is added by the entry rule -/
theorem handle_entry (start : Snap) (a : Acc) (r : Rec) (e : Entry) (ht : r.type = entryType)
    (hd : r.data = some (marshalEntry e)) (he : e.ok) :
    handle start a r =
      (match addEntry start a.ents e with
       | .error f => .error f
       | .ok es => .ok { a with ents := es, enti := e.index }) := by
  unfold handle
  rw [if_pos ht, hd]
  simp only [Option.getD_some, unmarshal_marshalEntry e he]
  cases addEntry start a.ents e <;> rfl

/-- records other than entries and states leave the entries and the state alone -/
theorem handle_other (start : Snap) (a a' : Acc) (r : Rec) (h1 : r.type ≠ entryType) (h2 : r.type ≠ stateType)
    (h : handle start a r = .ok a') : a'.ents = a.ents ∧ a'.state = a.state := by
  unfold handle at h
  rw [if_neg h1, if_neg h2] at h
  split at h
  · split at h
    · split at h
      · cases h
      · cases h; exact ⟨rfl, rfl⟩
    · cases h; exact ⟨rfl, rfl⟩
  · split at h
    · cases h; exact ⟨rfl, rfl⟩
    · split at h
      · split at h
        · cases h
        · split at h
          · split at h
            · cases h
            · cases h; exact ⟨rfl, rfl⟩
          · cases h; exact ⟨rfl, rfl⟩
      · cases h

/-- state records leave the entries alone, entry records leave the state alone -/
theorem handle_frames (start : Snap) (a a' : Acc) (r : Rec) (h : handle start a r = .ok a') :
    (r.type ≠ entryType → a'.ents = a.ents) ∧ (r.type ≠ stateType → a'.state = a.state) := by
  have hne := types_distinct
  constructor
  · intro h1
    by_cases h2 : r.type = stateType
    · unfold handle at h
      rw [if_neg h1, if_pos h2] at h
      split at h
      · cases h
      · cases h; rfl
    · exact (handle_other start a a' r h1 h2 h).1
  · intro h2
    by_cases h1 : r.type = entryType
    · unfold handle at h
      rw [if_pos h1] at h
      split at h
      · cases h
      · split at h
        · cases h
        · cases h; rfl
    · exact (handle_other start a a' r h1 h2 h).2

/-- the entries stay the contiguous run behind the start snapshot through every record -/
theorem handle_contig (start : Snap) (a a' : Acc) (r : Rec) (hc : Contig start a.ents)
    (h : handle start a r = .ok a') : Contig start a'.ents := by
  by_cases h1 : r.type = entryType
  · unfold handle at h
    rw [if_pos h1] at h
    split at h
    · cases h
    · rename_i e _
      split at h
      · cases h
      · rename_i es hes
        cases h
        simp only []
        by_cases hk : e.index > start.index
        · exact (addEntry_spec start a.ents es e hc hk hes).1
        · rw [addEntry_eq, if_neg hk] at hes
          cases hes; exact hc
  · rw [(handle_frames start a a' r h).1 h1]; exact hc

theorem effectFrom_contig (start : Snap) (rs : List Rec) (a a' : Acc) (hc : Contig start a.ents)
    (h : effectFrom start a rs = .ok a') : Contig start a'.ents := by
  induction rs generalizing a with
  | nil => simp [effectFrom] at h; rw [← h]; exact hc
  | cons r rs ih =>
    simp only [effectFrom] at h
    cases hh : handle start a r with
    | error f => rw [hh] at h; cases h
    | ok a1 => rw [hh] at h; exact ih a1 (handle_contig start a a1 r hc hh) h

end Z.Wal

namespace Z.Wal

theorem addEntry_not_snapNotFound (start : Snap) (ents : List Entry) (e : Entry) :
    addEntry start ents e ≠ .error .snapNotFound := by
  rw [addEntry_eq]
  split
  · split <;> simp
  · simp

theorem handle_not_snapNotFound (start : Snap) (a : Acc) (r : Rec) : handle start a r ≠ .error .snapNotFound := by
  unfold handle
  by_cases h1 : r.type = entryType
  · rw [if_pos h1]
    cases unmarshalEntry (r.data.getD []) with
    | error _ => simp
    | ok e =>
      simp only []
      cases h : addEntry start a.ents e with
      | error f =>
        simp only []
        intro hf
        cases hf
        exact addEntry_not_snapNotFound start a.ents e h
      | ok es => simp
  · rw [if_neg h1]
    by_cases h2 : r.type = stateType
    · rw [if_pos h2]
      cases unmarshalState (r.data.getD []) <;> simp
    · rw [if_neg h2]
      by_cases h3 : r.type = metadataType
      · rw [if_pos h3]
        cases a.mdata with
        | none => simp
        | some m => simp only []; split <;> simp
      · rw [if_neg h3]
        by_cases h4 : r.type = crcType
        · rw [if_pos h4]; simp
        · rw [if_neg h4]
          by_cases h5 : r.type = snapshotType
          · rw [if_pos h5]
            cases unmarshalSnap (r.data.getD []) with
            | error _ => simp
            | ok sn =>
              simp only []
              split
              · split <;> simp
              · simp
          · rw [if_neg h5]; simp

theorem effectFrom_not_snapNotFound (start : Snap) (rs : List Rec) (a : Acc) : effectFrom start a rs ≠ .error .snapNotFound := by
  induction rs generalizing a with
  | nil => simp [effectFrom]
  | cons r rs ih =>
    simp only [effectFrom]
    cases h : handle start a r with
    | error f =>
      simp only []
      intro hf
      cases hf
      exact handle_not_snapNotFound start a r h
    | ok a' => exact ih a'

/-- `ReadAll` in write mode never reports `ErrSnapshotNotFound` (the assignment `err = ErrSnapshotNotFound` is overwritten by
    `w.encoder, err = newFileEncoder(…)` before it is returned): finding F-C05-4 -/
theorem readAll_never_snapNotFound (crcf : UInt32 → Bytes → UInt32) (start : Snap) (segs : List Bytes) :
    readAll crcf start segs ≠ .error .snapNotFound := by
  unfold readAll
  generalize streamAll crcf segs = res
  obtain ⟨rs, stop, d⟩ := res
  simp only []
  cases h : effect start rs with
  | error f =>
    simp only []
    intro hf
    cases hf
    exact effectFrom_not_snapNotFound start rs {} h
  | ok a =>
    simp only []
    split
    · simp
    · cases stop <;> simp [Stop.toFail]

end Z.Wal
