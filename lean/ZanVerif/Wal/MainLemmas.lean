/-
  C05 lemmas, part 10: the main theorems at the level of `streamAll` (what `ReadAll`, `ValidSnapshotEntries`
  and `Repair` decode): round trip over segments, truncation at every byte, truncation with zero fill.
-/
import ZanVerif.Wal.FuelLemmas
import ZanVerif.Wal.ReadAll
namespace Z.Wal

/-- the read loops with a decoder that starts with rolling crc `c` (`streamAll` is `streamFrom 0`) -/
def streamFrom (crcf : UInt32 → Bytes → UInt32) (c : UInt32) (segs : List Bytes) : List Rec × Stop × Dec :=
  stream crcf (totalLen segs / 8 + 2) ⟨segs, 0, c⟩

theorem streamAll_from0 (crcf : UInt32 → Bytes → UInt32) (segs : List Bytes) : streamAll crcf segs = streamFrom crcf 0 segs := rfl

/-- `streamFrom` is `stream` with any sufficient fuel -/
theorem streamFrom_eq (crcf : UInt32 → Bytes → UInt32) (c : UInt32) (segs : List Bytes) (k : Nat) :
    streamFrom crcf c segs = stream crcf (totalLen segs / 8 + 2 + k) ⟨segs, 0, c⟩ := by
  unfold streamFrom
  exact (stream_mono crcf _ k _ (stream_enough crcf _ _ (by simp only []; omega))).symm

theorem streamAll_eq (crcf : UInt32 → Bytes → UInt32) (segs : List Bytes) (k : Nat) :
    streamAll crcf segs = stream crcf (totalLen segs / 8 + 2 + k) ⟨segs, 0, 0⟩ := streamFrom_eq crcf 0 segs k

theorem sealedSegs_split (crcf : UInt32 → Bytes → UInt32) : ∀ (pre : List (List Rec)) (tail : List Rec) (c : UInt32),
    SealedSegs crcf c (pre ++ [tail]) →
    SealedSegs crcf c (pre ++ [[]]) ∧ Sealed crcf (crcAfterSegs c pre) tail ∧
    crcAfterSegs c (pre ++ [[]]) = crcAfterSegs c pre ∧
    crcAfterSegs c (pre ++ [tail]) = crcAfter (crcAfterSegs c pre) tail := by
  intro pre
  induction pre with
  | nil => intro tail c h; simp [SealedSegs, Sealed, crcAfterSegs, crcAfter] at h ⊢; exact h
  | cons s ss ih =>
    intro tail c h
    simp only [List.cons_append, SealedSegs] at h ⊢
    have := ih tail (crcAfter c s) h.2
    exact ⟨⟨h.1, this.1⟩, this.2.1, by simp [crcAfterSegs, this.2.2.1], by simp [crcAfterSegs, this.2.2.2]⟩

theorem framesOf_take_drop (rs : List Rec) (j : Nat) : framesOf rs = framesOf (rs.take j) ++ framesOf (rs.drop j) := by
  rw [← framesOf_append, List.take_append_drop]

theorem sealed_take (crcf : UInt32 → Bytes → UInt32) : ∀ (rs : List Rec) (c : UInt32) (j : Nat), Sealed crcf c rs → Sealed crcf c (rs.take j) := by
  intro rs
  induction rs with
  | nil => intro c j h; simp [Sealed]
  | cons r rs ih =>
    intro c j h
    cases j with
    | zero => simp [Sealed]
    | succ j => simp only [List.take_succ_cons, Sealed] at h ⊢; exact ⟨h.1, h.2.1, h.2.2.1, ih _ j h.2.2.2⟩

/-- the first `wholeRem` frames fit into `n` bytes; when nothing of a further frame is there, they are exactly the first
    `min n total` bytes -/
theorem wholeRem_spec : ∀ (rs : List Rec) (n : Nat),
    (framesOf (rs.take (wholeRem rs n).1)).length ≤ n ∧
    ((wholeRem rs n).2 = 0 → (framesOf rs).take n = framesOf (rs.take (wholeRem rs n).1)) := by
  intro rs
  induction rs with
  | nil => intro n; simp [wholeRem, framesOf]
  | cons r rs ih =>
    intro n
    by_cases hfit : (frame r).length ≤ n
    · have hw : wholeRem (r :: rs) n = ((wholeRem rs (n - (frame r).length)).1 + 1, (wholeRem rs (n - (frame r).length)).2) := by
        simp only [wholeRem, if_pos hfit]
      have := ih (n - (frame r).length)
      rw [hw]
      simp only [List.take_succ_cons, framesOf, List.length_append]
      refine ⟨by omega, ?_⟩
      intro h0
      rw [List.take_append, List.take_of_length_le hfit, this.2 h0]
    · have hw : wholeRem (r :: rs) n = (0, n) := by simp only [wholeRem, if_neg hfit]
      rw [hw]
      simp only [List.take_zero, framesOf, List.length_nil, Nat.zero_le, true_and]
      intro h0; subst h0; simp


theorem recCount_flatten (pre : List (List Rec)) : (pre.flatten).length = recCount pre := by
  induction pre with
  | nil => rfl
  | cons s ss ih => simp [recCount] at ih ⊢

/-- **round trip over segments**: the files written for closed segments `pre` and the tail segment (followed by the
    zero rest of the preallocation) decode to exactly the records written, in order, ending in EOF with the decoder's
    crc equal to the encoder's and the last valid offset at the end of the tail's frames -/
theorem streamFrom_roundtrip (crcf : UInt32 → Bytes → UInt32) (hnil : ∀ c, crcf c [] = c) (c0 : UInt32) (pre : List (List Rec))
    (tail : List Rec) (k : Nat) (hs : SealedSegs crcf c0 (pre ++ [tail])) (hk : k = 0 ∨ 8 ≤ k) :
    streamFrom crcf c0 (pre.map framesOf ++ [framesOf tail ++ zeros k]) =
      (pre.flatten ++ tail, .eof, ⟨[], (framesOf tail).length, crcAfterSegs c0 (pre ++ [tail])⟩) := by
  generalize hN : totalLen (pre.map framesOf ++ [framesOf tail ++ zeros k]) / 8 = N
  rw [streamFrom_eq crcf c0 _ (recCount pre + tail.length), hN]
  have e : N + 2 + (recCount pre + tail.length) = recCount pre + tail.length + ((N + 1) + 1) := by omega
  rw [e, stream_segs crcf hnil pre tail c0 0 (N + 1) (zeros k) hs, stream_zeros, if_pos hk]
  simp

/-- **truncation of the tail segment at every byte offset** (the file ends at byte `n`) -/
theorem streamFrom_cut (crcf : UInt32 → Bytes → UInt32) (hnil : ∀ c, crcf c [] = c) (c0 : UInt32) (pre : List (List Rec))
    (tail : List Rec) (n : Nat) (hs : SealedSegs crcf c0 (pre ++ [tail])) :
    (streamFrom crcf c0 (pre.map framesOf ++ [(framesOf tail).take n])).1 = pre.flatten ++ tail.take (wholeRem tail n).1 ∧
    (streamFrom crcf c0 (pre.map framesOf ++ [(framesOf tail).take n])).2.1 = (if (wholeRem tail n).2 = 0 then Stop.eof else Stop.ueof) ∧
    (streamFrom crcf c0 (pre.map framesOf ++ [(framesOf tail).take n])).2.2.off = (framesOf (tail.take (wholeRem tail n).1)).length ∧
    (streamFrom crcf c0 (pre.map framesOf ++ [(framesOf tail).take n])).2.2.crc = crcAfter (crcAfterSegs c0 pre) (tail.take (wholeRem tail n).1) := by
  obtain ⟨h1, h2, h3, _⟩ := sealedSegs_split crcf pre tail c0 hs
  generalize hN : totalLen (pre.map framesOf ++ [(framesOf tail).take n]) / 8 = N
  rw [streamFrom_eq crcf c0 _ (recCount pre + tail.length), hN]
  have e : N + 2 + (recCount pre + tail.length) = recCount pre + ([] : List Rec).length + ((N + 1 + tail.length) + 1) := by
    simp; omega
  have hb : pre.map framesOf ++ [(framesOf tail).take n] = pre.map framesOf ++ [framesOf [] ++ (framesOf tail).take n] := by
    simp [framesOf]
  rw [e, hb, stream_segs crcf hnil pre [] c0 0 (N + 1 + tail.length) _ h1, h3]
  have := stream_take crcf hnil tail (crcAfterSegs c0 pre) ((if pre = [] then 0 else 0) + (framesOf ([] : List Rec)).length) n
    (N + 1 + tail.length + 1) h2 (by omega)
  simp only [framesOf, List.length_nil, Nat.add_zero, ite_self, List.append_nil] at this ⊢
  refine ⟨by rw [this.1], this.2.1, ?_, this.2.2.2⟩
  rw [this.2.2.1]; omega

/-- **truncation with zero fill** of the tail segment at a frame boundary or a sector boundary -/
theorem streamFrom_cut_zeros (crcf : UInt32 → Bytes → UInt32) (hnil : ∀ c, crcf c [] = c) (c0 : UInt32) (pre : List (List Rec))
    (tail : List Rec) (n k : Nat) (hs : SealedSegs crcf c0 (pre ++ [tail])) (hal : (wholeRem tail n).2 = 0 ∨ n % 512 = 0) :
    ((streamFrom crcf c0 (pre.map framesOf ++ [(framesOf tail).take n ++ zeros k])).1 = pre.flatten ++ tail.take (wholeRem tail n).1 ∧
     ((streamFrom crcf c0 (pre.map framesOf ++ [(framesOf tail).take n ++ zeros k])).2.1 = .eof ∨
      (streamFrom crcf c0 (pre.map framesOf ++ [(framesOf tail).take n ++ zeros k])).2.1 = .ueof) ∧
     (streamFrom crcf c0 (pre.map framesOf ++ [(framesOf tail).take n ++ zeros k])).2.2.off = (framesOf (tail.take (wholeRem tail n).1)).length)
    ∨ (∃ r rs' r' d, tail.drop (wholeRem tail n).1 = r :: rs' ∧
        decodeRecord crcf [(frame r).take (wholeRem tail n).2 ++ zeros k] (framesOf (tail.take (wholeRem tail n).1)).length
          (crcAfter (crcAfterSegs c0 pre) (tail.take (wholeRem tail n).1)) = .got r' d) := by
  obtain ⟨h1, h2, h3, _⟩ := sealedSegs_split crcf pre tail c0 hs
  generalize hN : totalLen (pre.map framesOf ++ [(framesOf tail).take n ++ zeros k]) / 8 = N
  rw [streamFrom_eq crcf c0 _ (recCount pre + tail.length), hN]
  have e : N + 2 + (recCount pre + tail.length) = recCount pre + ([] : List Rec).length + ((N + 1 + tail.length) + 1) := by
    simp; omega
  have hb : pre.map framesOf ++ [(framesOf tail).take n ++ zeros k] =
      pre.map framesOf ++ [framesOf [] ++ ((framesOf tail).take n ++ zeros k)] := by
    simp [framesOf]
  rw [e, hb, stream_segs crcf hnil pre [] c0 0 (N + 1 + tail.length) _ h1, h3]
  have := stream_take_zeros crcf hnil tail (crcAfterSegs c0 pre) ((if pre = [] then 0 else 0) + (framesOf ([] : List Rec)).length) n k
    (N + 1 + tail.length + 1) h2 (by omega) (by simp [framesOf]) (by simpa [framesOf] using hal)
  simp only [framesOf, List.length_nil, Nat.add_zero, ite_self, List.append_nil, Nat.zero_add] at this ⊢
  rcases this with ⟨e1, e2, e3⟩ | h
  · left; exact ⟨by rw [e1], e2, e3⟩
  · right; exact h

/-! the versions for a decoder that starts at the first segment of the WAL (crc 0) -/

theorem streamAll_roundtrip (crcf : UInt32 → Bytes → UInt32) (hnil : ∀ c, crcf c [] = c) (pre : List (List Rec))
    (tail : List Rec) (k : Nat) (hs : SealedSegs crcf 0 (pre ++ [tail])) (hk : k = 0 ∨ 8 ≤ k) :
    streamAll crcf (pre.map framesOf ++ [framesOf tail ++ zeros k]) =
      (pre.flatten ++ tail, .eof, ⟨[], (framesOf tail).length, crcAfterSegs 0 (pre ++ [tail])⟩) :=
  streamFrom_roundtrip crcf hnil 0 pre tail k hs hk

end Z.Wal
