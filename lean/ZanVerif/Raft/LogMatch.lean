/-
Scratch prototype for C02: the ghost `tlog t` (log of the leader of term t) and the prefix invariant
  Pfx l := every non-empty prefix of l equals the same-length prefix of tlog (term of its last entry).
Key lemma: an executable `maybeAppend` (findConflict + truncateAndAppend), applied to a log that
satisfies Pfx with a message cut out of `tlog t`, yields a log that satisfies Pfx and agrees with
`tlog t` up to the end of the message.  Log Matching is an immediate corollary of Pfx.
-/
namespace Z.LogMatch

structure Entry where
  term : Nat
  data : Nat
  deriving DecidableEq, Repr

abbrev Log := List Entry

/-- term of the entry at 1-based index i (0 for the dummy index 0 / out of range) -/
def termAt (l : Log) (i : Nat) : Nat :=
  if i = 0 then 0 else match l[i - 1]? with | some e => e.term | none => 0

/-- findConflict: number of leading entries of `ents` that are already in `l` (same index, same term)
    when `ents` starts at 0-based position `pos` -/
def matchLen (l : Log) : Nat → List Entry → Nat
  | _, [] => 0
  | pos, e :: es =>
    match l[pos]? with
    | some x => if x.term = e.term then 1 + matchLen l (pos + 1) es else 0
    | none => 0

/-- raftLog.maybeAppend after the (prev, prevTerm) match succeeded -/
def maybeAppend (l : Log) (prev : Nat) (ents : List Entry) : Log :=
  let b := matchLen l prev ents
  if b = ents.length then l else l.take (prev + b) ++ ents.drop b

variable (tlog : Nat → Log)

/-- the prefix invariant -/
def Pfx (l : Log) : Prop :=
  ∀ k, (hk : 1 ≤ k) → (h : k ≤ l.length) → l.take k = (tlog (l[k - 1]'(by omega)).term).take k

theorem Pfx.take {l : Log} (h : Pfx tlog l) (m : Nat) : Pfx tlog (l.take m) := by
  intro k hk hkl
  have hkl' : k ≤ l.length := by simp [List.length_take] at hkl; omega
  have hkm : k ≤ m := by simp [List.length_take] at hkl; omega
  have := h k hk hkl'
  rw [List.take_take, Nat.min_eq_left hkm]
  simp only [List.getElem_take]
  exact this

/-- Log Matching from Pfx: same term at the same index ⇒ identical prefixes -/
theorem log_matching {l₁ l₂ : Log} (h₁ : Pfx tlog l₁) (h₂ : Pfx tlog l₂) (k : Nat) (hk : 1 ≤ k)
    (hk₁ : k ≤ l₁.length) (hk₂ : k ≤ l₂.length)
    (ht : (l₁[k - 1]'(by omega)).term = (l₂[k - 1]'(by omega)).term) :
    l₁.take k = l₂.take k := by
  rw [h₁ k hk hk₁, h₂ k hk hk₂, ht]


/-! ### facts about findConflict (`matchLen`) -/

theorem matchLen_le (l : Log) : ∀ (pos : Nat) (es : List Entry), matchLen l pos es ≤ es.length := by
  intro pos es
  induction es generalizing pos with
  | nil => simp [matchLen]
  | cons e es ih =>
    simp only [matchLen, List.length_cons]
    split
    · split
      · have := ih (pos + 1); omega
      · omega
    · omega

theorem matchLen_bound (l : Log) : ∀ (pos : Nat) (es : List Entry), pos ≤ l.length →
    pos + matchLen l pos es ≤ l.length := by
  intro pos es
  induction es generalizing pos with
  | nil => intro h; simpa [matchLen] using h
  | cons e es ih =>
    intro h
    simp only [matchLen]
    split
    · rename_i x hx
      have hlt : pos < l.length := by
        rcases List.getElem?_eq_some_iff.mp hx with ⟨h', _⟩; exact h'
      split
      · have := ih (pos + 1) (by omega); omega
      · omega
    · omega

/-- every matched position carries the message's term -/
theorem matchLen_terms (l : Log) : ∀ (pos : Nat) (es : List Entry) (i : Nat) (hi : i < matchLen l pos es),
    ∃ x e, l[pos + i]? = some x ∧ es[i]? = some e ∧ x.term = e.term := by
  intro pos es
  induction es generalizing pos with
  | nil => intro i hi; simp [matchLen] at hi
  | cons e es ih =>
    intro i hi
    simp only [matchLen] at hi
    split at hi
    · rename_i x hx
      split at hi
      · rename_i hterm
        cases i with
        | zero => exact ⟨x, e, by simpa using hx, by simp, hterm⟩
        | succ i =>
          obtain ⟨x', e', h1, h2, h3⟩ := ih (pos + 1) i (by omega)
          refine ⟨x', e', ?_, by simpa using h2, h3⟩
          have : pos + (i + 1) = pos + 1 + i := by omega
          rw [this]; exact h1
      · omega
    · omega


/-! ### the key lemma: accepting an append preserves the prefix invariant -/

theorem termAt_pos {l : Log} {i : Nat} (hi : 1 ≤ i) (hl : i ≤ l.length) :
    termAt l i = (l[i - 1]'(by omega)).term := by
  unfold termAt
  have h0 : i ≠ 0 := by omega
  simp only [h0, ↓reduceIte]
  rw [List.getElem?_eq_getElem (by omega)]

/-- `L` is the leader's log (`tlog t`), the message carries `ents = L[prev+1 .. prev+n]` and the
    follower's log matched at `prev`. Then the follower's new log satisfies Pfx and equals `L` up to
    `prev + n`. -/
theorem accept {l L : Log} (hl : Pfx tlog l) (hL : Pfx tlog L)
    (prev n : Nat) (ents : List Entry)
    (hprev : prev ≤ l.length) (hprevL : prev + n ≤ L.length)
    (hents : ents = (L.drop prev).take n)
    (hmatch : termAt l prev = termAt L prev) :
    Pfx tlog (maybeAppend l prev ents) ∧
    (maybeAppend l prev ents).take (prev + n) = L.take (prev + n) := by
  unfold maybeAppend
  simp only []
  have hlenE : ents.length = n := by
    rw [hents, List.length_take, List.length_drop]; omega
  have hget : ∀ i, i < n → ents[i]? = L[prev + i]? := by
    intro i hi
    rw [hents, List.getElem?_take_of_lt hi, List.getElem?_drop]
  have hb1 := matchLen_le l prev ents
  have hb2 := matchLen_bound l prev ents hprev
  have hterms := matchLen_terms l prev ents
  generalize matchLen l prev ents = b at hb1 hb2 hterms ⊢
  rw [hlenE] at hb1
  -- step 1: the kept part of the follower log is a prefix of L
  have step1 : l.take (prev + b) = L.take (prev + b) := by
    by_cases hk0 : prev + b = 0
    · rw [hk0]; simp
    · have hk1 : 1 ≤ prev + b := by omega
      have hkL : prev + b ≤ L.length := by omega
      apply log_matching tlog hl hL _ hk1 hb2 hkL
      by_cases hb0 : b = 0
      · -- nothing matched: use the (prev, prevTerm) check
        have hp1 : 1 ≤ prev := by omega
        have e1 := termAt_pos (l := l) hp1 hprev
        have e2 := termAt_pos (l := L) hp1 (by omega)
        simp only [hb0, Nat.add_zero]
        rw [← e1, ← e2]; exact hmatch
      · -- the last matched entry
        obtain ⟨x, e, h1, h2, h3⟩ := hterms (b - 1) (by omega)
        have hidx : prev + b - 1 = prev + (b - 1) := by omega
        have hx : l[prev + b - 1]'(by omega) = x := by
          obtain ⟨_, hh⟩ := List.getElem?_eq_some_iff.mp h1
          simp only [hidx]; exact hh
        have he : L[prev + b - 1]'(by omega) = e := by
          rw [hget (b - 1) (by omega)] at h2
          obtain ⟨_, hh⟩ := List.getElem?_eq_some_iff.mp h2
          simp only [hidx]; exact hh
        rw [hx, he]; exact h3
  split
  · rename_i hfull
    refine ⟨hl, ?_⟩
    rw [hlenE] at hfull
    rw [← hfull]; exact step1
  · rename_i hpart
    rw [hlenE] at hpart
    have hnew : l.take (prev + b) ++ ents.drop b = L.take (prev + n) := by
      rw [step1, hents, List.drop_take, List.drop_drop]
      have : prev + n = (prev + b) + (n - b) := by omega
      have e : L.take (prev + b + (n - b)) = L.take (prev + b) ++ (L.drop (prev + b)).take (n - b) :=
        List.take_add
      rw [this, e]
    rw [hnew]
    exact ⟨Pfx.take tlog hL _, by rw [List.take_take]; simp⟩

#print axioms accept

/-! ### leader side: the ghost logs only grow, the invariant survives -/

/-- if every ghost log only grows (old is a prefix of new), Pfx is preserved for every log -/
theorem Pfx.mono {tlog' : Nat → Log} (hext : ∀ t, ∃ x, tlog' t = tlog t ++ x)
    {l : Log} (h : Pfx tlog l) : Pfx tlog' l := by
  intro k hk hkl
  have e := h k hk hkl
  obtain ⟨x, hx⟩ := hext (l[k - 1]'(by omega)).term
  have hlen : k ≤ (tlog (l[k - 1]'(by omega)).term).length := by
    have := congrArg List.length e
    simp only [List.length_take] at this
    omega
  rw [e, hx, List.take_append_of_le_length hlen]

/-- a leader of term t appends an entry of term t to its log = tlog t -/
theorem Pfx.leader_append {L : Log} {t : Nat} (hLt : tlog t = L) (hL : Pfx tlog L) (e : Entry) (he : e.term = t)
    (tlog' : Nat → Log) (h' : ∀ u, tlog' u = if u = t then L ++ [e] else tlog u) :
    Pfx tlog' (L ++ [e]) := by
  have hext : ∀ u, ∃ x, tlog' u = tlog u ++ x := by
    intro u
    by_cases hu : u = t
    · exact ⟨[e], by rw [h' u, hu, hLt]; simp⟩
    · exact ⟨[], by rw [h' u]; simp [hu]⟩
  have hL' : Pfx tlog' L := Pfx.mono tlog hext hL
  intro k hk hkl
  by_cases hlast : k ≤ L.length
  · have := hL' k hk hlast
    have hidx : (L ++ [e])[k - 1]'(by omega) = L[k - 1]'(by omega) := by
      rw [List.getElem_append_left]
    rw [hidx, List.take_append_of_le_length hlast]; exact this
  · have hk' : k = L.length + 1 := by simp at hkl; omega
    have hidx : (L ++ [e])[k - 1]'(by omega) = e := by
      have : k - 1 = L.length := by omega
      simp [this]
    rw [hidx, he, h' t]
    simp

#print axioms Pfx.leader_append
end Z.LogMatch
