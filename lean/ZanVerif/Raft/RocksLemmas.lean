/-
  C03 `rocks_cached_index_inv`: in the model of RocksStorage's index bookkeeping (RocksModel.lean) the
  two caches, whenever they are set (non-zero), hold the index of the first DB entry + 1 and the index of
  the last DB entry — after every operation, for every argument within the stated contract.
-/
import ZanVerif.Raft.RocksModel
import ZanVerif.Raft.LogLemmas
namespace Z.LogModel
namespace RStorage

/-- the DB is sorted by index without duplicates -/
def Sorted (db : List Entry) : Prop := db.Pairwise (fun a b => a.index < b.index)

/-- the cached-index invariant -/
structure RInv (s : RStorage) : Prop where
  sorted : Sorted s.db
  first : s.cFirst > 0 → ∃ e ∈ s.db, s.cFirst = e.index + 1 ∧ ∀ x ∈ s.db, e.index ≤ x.index
  last : s.cLast > 0 → ∃ e ∈ s.db, s.cLast = e.index ∧ ∀ x ∈ s.db, x.index ≤ e.index

theorem Sorted.filter {db : List Entry} (h : Sorted db) (p : Entry → Bool) : Sorted (db.filter p) :=
  List.Pairwise.sublist List.filter_sublist h

theorem seekGE_zero (db : List Entry) : seekGE db 0 = db.head? := by
  unfold seekGE
  cases db with
  | nil => rfl
  | cons x xs => simp [List.find?]

theorem Sorted.head_min {db : List Entry} (h : Sorted db) {e : Entry} (he : db.head? = some e) :
    e ∈ db ∧ ∀ x ∈ db, e.index ≤ x.index := by
  cases db with
  | nil => simp at he
  | cons y ys =>
    simp at he; subst he
    refine ⟨List.mem_cons_self, fun x hx => ?_⟩
    rcases List.mem_cons.mp hx with hx | hx
    · subst hx; exact Nat.le_refl _
    · exact Nat.le_of_lt ((List.pairwise_cons.mp h).1 x hx)

theorem Sorted.last_max {db : List Entry} (h : Sorted db) {e : Entry} (he : db.getLast? = some e) :
    e ∈ db ∧ ∀ x ∈ db, x.index ≤ e.index := by
  induction db with
  | nil => simp at he
  | cons y ys ih =>
    have hp := List.pairwise_cons.mp h
    cases ys with
    | nil =>
      simp at he; subst he
      exact ⟨List.mem_cons_self, fun x hx => by simp at hx; subst hx; exact Nat.le_refl _⟩
    | cons z zs =>
      have he' : (z :: zs).getLast? = some e := by simpa [List.getLast?_cons_cons] using he
      obtain ⟨m1, m2⟩ := ih hp.2 he'
      refine ⟨List.mem_cons_of_mem _ m1, fun x hx => ?_⟩
      rcases List.mem_cons.mp hx with hx | hx
      · subst hx; exact Nat.le_of_lt (hp.1 e m1)
      · exact m2 x hx

/-! `dbPut` -/

theorem mem_dbPut {e x : Entry} : ∀ {db : List Entry}, Sorted db →
    (x ∈ dbPut e db ↔ x = e ∨ (x ∈ db ∧ x.index ≠ e.index)) := by
  intro db
  induction db with
  | nil => intro _; simp [dbPut]
  | cons y ys ih =>
    intro hs
    have hp := List.pairwise_cons.mp hs
    unfold dbPut
    split
    · rename_i hlt
      constructor
      · intro h
        rcases List.mem_cons.mp h with h | h
        · exact Or.inl h
        · refine Or.inr ⟨h, ?_⟩
          rcases List.mem_cons.mp h with h' | h'
          · subst h'; omega
          · have := hp.1 x h'; omega
      · rintro (h | ⟨h, _⟩)
        · subst h; exact List.mem_cons_self
        · exact List.mem_cons_of_mem _ h
    · split
      · rename_i hnl heq
        constructor
        · intro h
          rcases List.mem_cons.mp h with h | h
          · exact Or.inl h
          · exact Or.inr ⟨List.mem_cons_of_mem _ h, by have := hp.1 x h; omega⟩
        · rintro (h | ⟨h, hne⟩)
          · subst h; exact List.mem_cons_self
          · rcases List.mem_cons.mp h with h' | h'
            · subst h'; omega
            · exact List.mem_cons_of_mem _ h'
      · rename_i hnl hne
        constructor
        · intro h
          rcases List.mem_cons.mp h with h | h
          · subst h; exact Or.inr ⟨List.mem_cons_self, by omega⟩
          · rcases (ih hp.2).mp h with h' | ⟨h1, h2⟩
            · exact Or.inl h'
            · exact Or.inr ⟨List.mem_cons_of_mem _ h1, h2⟩
        · rintro (h | ⟨h, hne'⟩)
          · exact List.mem_cons_of_mem _ ((ih hp.2).mpr (Or.inl h))
          · rcases List.mem_cons.mp h with h' | h'
            · subst h'; exact List.mem_cons_self
            · exact List.mem_cons_of_mem _ ((ih hp.2).mpr (Or.inr ⟨h', hne'⟩))

theorem Sorted.dbPut {e : Entry} : ∀ {db : List Entry}, Sorted db → Sorted (dbPut e db) := by
  intro db
  induction db with
  | nil => intro _; simp [RStorage.dbPut, Sorted]
  | cons y ys ih =>
    intro hs
    have hp := List.pairwise_cons.mp hs
    unfold RStorage.dbPut
    split
    · rename_i hlt
      refine List.pairwise_cons.mpr ⟨fun x hx => ?_, hs⟩
      rcases List.mem_cons.mp hx with h | h
      · subst h; exact hlt
      · have := hp.1 x h; omega
    · split
      · rename_i hnl heq
        exact List.pairwise_cons.mpr ⟨fun x hx => by have := hp.1 x hx; omega, hp.2⟩
      · rename_i hnl hne
        refine List.pairwise_cons.mpr ⟨fun x hx => ?_, ih hp.2⟩
        rcases (mem_dbPut hp.2).mp hx with h | ⟨h, _⟩
        · subst h; omega
        · exact hp.1 x h

/-- putting a batch with pairwise distinct indexes -/
theorem dbPutAll_spec : ∀ (es : List Entry) {db : List Entry}, Sorted db →
    es.Pairwise (fun a b => a.index ≠ b.index) →
    Sorted (dbPutAll es db) ∧
    ∀ x, x ∈ dbPutAll es db ↔ (x ∈ es ∨ (x ∈ db ∧ ∀ e ∈ es, x.index ≠ e.index)) := by
  intro es
  induction es with
  | nil => intro db hs _; exact ⟨hs, fun x => by simp [dbPutAll]⟩
  | cons e es ih =>
    intro db hs hd
    have hp := List.pairwise_cons.mp hd
    obtain ⟨i1, i2⟩ := ih (db := RStorage.dbPut e db) hs.dbPut hp.2
    refine ⟨i1, fun x => ?_⟩
    show x ∈ dbPutAll es (RStorage.dbPut e db) ↔ _
    rw [i2 x, mem_dbPut hs]
    constructor
    · rintro (h | ⟨h | ⟨h1, h2⟩, h3⟩)
      · exact Or.inl (List.mem_cons_of_mem _ h)
      · exact Or.inl (by rw [h]; exact List.mem_cons_self)
      · refine Or.inr ⟨h1, fun y hy => ?_⟩
        rcases List.mem_cons.mp hy with hy | hy
        · subst hy; exact h2
        · exact h3 y hy
    · rintro (h | ⟨h1, h2⟩)
      · rcases List.mem_cons.mp h with h | h
        · subst h
          by_cases hx : x ∈ es
          · exact Or.inl hx
          · exact Or.inr ⟨Or.inl rfl, fun y hy => hp.1 y hy⟩
        · exact Or.inl h
      · exact Or.inr ⟨Or.inr ⟨h1, h2 e List.mem_cons_self⟩, fun y hy => h2 y (List.mem_cons_of_mem _ hy)⟩

/-! ### the reads fill the caches correctly -/

theorem firstIndex_spec {s : RStorage} (h : RInv s) :
    RInv s.firstIndex.1 ∧ s.firstIndex.1.db = s.db ∧ s.firstIndex.1.snapIndex = s.snapIndex ∧
    s.firstIndex.1.snapTerm = s.snapTerm ∧ s.firstIndex.1.cLast = s.cLast ∧
    (∀ f, s.firstIndex.2 = .ok f →
      (s.snapIndex ≠ 0 ∧ f = s.snapIndex + 1) ∨
      (s.snapIndex = 0 ∧ ∃ e ∈ s.db, f = e.index + 1 ∧ ∀ x ∈ s.db, e.index ≤ x.index)) := by
  unfold firstIndex
  simp only []
  by_cases hc : s.firstIndexCached > 0
  · rw [if_pos hc]
    refine ⟨h, rfl, rfl, rfl, rfl, fun f hf => ?_⟩
    injection hf with hf
    unfold firstIndexCached at hf hc
    by_cases hs : s.snapIndex ≠ 0
    · rw [if_pos hs] at hf; exact Or.inl ⟨hs, hf.symm⟩
    · rw [if_neg hs] at hf hc
      by_cases hcf : s.cFirst > 0
      · rw [if_pos hcf] at hf
        obtain ⟨e, he, h1, h2⟩ := h.first hcf
        exact Or.inr ⟨by omega, e, he, by omega, h2⟩
      · rw [if_neg hcf] at hc; omega
  · rw [if_neg hc, seekGE_zero]
    have hs0 : s.snapIndex = 0 := by
      unfold firstIndexCached at hc
      by_cases hs : s.snapIndex ≠ 0
      · rw [if_pos hs] at hc; omega
      · omega
    cases hh : s.db.head? with
    | none => exact ⟨h, rfl, rfl, rfl, rfl, fun f hf => by cases hf⟩
    | some e =>
      obtain ⟨m1, m2⟩ := h.sorted.head_min hh
      refine ⟨⟨h.sorted, fun _ => ⟨e, m1, rfl, m2⟩, h.last⟩, rfl, rfl, rfl, rfl, fun f hf => ?_⟩
      injection hf with hf
      exact Or.inr ⟨hs0, e, m1, hf.symm, m2⟩

theorem lastIndex_spec {s : RStorage} (h : RInv s) :
    RInv s.lastIndex.1 ∧ s.lastIndex.1.db = s.db ∧ s.lastIndex.1.snapIndex = s.snapIndex ∧
    s.lastIndex.1.snapTerm = s.snapTerm ∧ s.lastIndex.1.cFirst = s.cFirst ∧
    (∀ l, s.lastIndex.2 = .ok l → (∃ e ∈ s.db, l = e.index ∧ ∀ x ∈ s.db, x.index ≤ e.index) ∧
      (s.lastIndex.1.cLast = l)) := by
  unfold lastIndex
  by_cases hc : s.cLast > 0
  · rw [if_pos hc]
    refine ⟨h, rfl, rfl, rfl, rfl, fun l hl => ?_⟩
    injection hl with hl
    obtain ⟨e, he, h1, h2⟩ := h.last hc
    exact ⟨⟨e, he, by omega, h2⟩, hl⟩
  · rw [if_neg hc]
    unfold seekLast
    cases hh : s.db.getLast? with
    | none => exact ⟨h, rfl, rfl, rfl, rfl, fun l hl => by cases hl⟩
    | some e =>
      obtain ⟨m1, m2⟩ := h.sorted.last_max hh
      refine ⟨⟨h.sorted, h.first, fun _ => ⟨e, m1, rfl, m2⟩⟩, rfl, rfl, rfl, rfl, fun l hl => ?_⟩
      injection hl with hl
      exact ⟨⟨e, m1, hl.symm, m2⟩, hl⟩

theorem get_isSome_of_mem {db : List Entry} {x : Entry} (h : x ∈ db) : (get db x.index).isSome = true := by
  unfold get
  rw [List.find?_isSome]
  exact ⟨x, h, by simp⟩

/-! ### every operation keeps the invariant -/

theorem term_inv {s : RStorage} (h : RInv s) (i : Nat) : RInv (s.term i).1 := by
  obtain ⟨f1, _⟩ := firstIndex_spec h
  unfold term
  generalize s.firstIndex = p at *
  obtain ⟨s1, r⟩ := p
  cases r with
  | err e => exact f1
  | panic p => exact f1
  | ok first =>
    simp only []
    split
    · exact f1
    · split
      · exact f1
      · split <;> exact f1

theorem entries_inv {s : RStorage} (h : RInv s) (lo hi m : Nat) : RInv (s.entries lo hi m).1 := by
  obtain ⟨f1, _⟩ := firstIndex_spec h
  unfold entries
  generalize s.firstIndex = p at *
  obtain ⟨s1, r⟩ := p
  cases r with
  | err e => exact f1
  | panic p => exact f1
  | ok first =>
    simp only []
    split
    · exact f1
    · obtain ⟨l1, _⟩ := lastIndex_spec f1
      generalize s1.lastIndex = q at *
      obtain ⟨s2, r2⟩ := q
      cases r2 with
      | err e => exact l1
      | panic p => exact l1
      | ok last => simp only []; split <;> exact l1

theorem createSnapshot_inv {s : RStorage} (h : RInv s) (i : Nat) : RInv (s.createSnapshot i).1 := by
  obtain ⟨f1, _⟩ := firstIndex_spec h
  unfold createSnapshot
  generalize s.firstIndex = p at *
  obtain ⟨s1, r⟩ := p
  cases r with
  | err e => exact f1
  | panic p => exact f1
  | ok first =>
    simp only []
    split
    · exact f1
    · split
      · exact f1
      · split
        · exact f1
        · exact ⟨f1.sorted, f1.first, f1.last⟩

theorem applySnapshot_inv {s : RStorage} (h : RInv s) (i t : Nat) : RInv (s.applySnapshot i t).1 := by
  unfold applySnapshot
  split
  · exact h
  · exact ⟨((h.sorted.dbPut).filter _).filter _, fun hh => by simp at hh, fun hh => by simp at hh⟩

theorem compact_inv {s : RStorage} (h : RInv s) (ci : Nat) : RInv (s.compact ci).1 := by
  unfold compact
  cases hg : seekGE s.db 0 with
  | none => exact h
  | some f =>
    simp only []
    split
    · exact h
    · obtain ⟨l1, l2, _, _, _, l6⟩ := lastIndex_spec h
      generalize s.lastIndex = q at *
      obtain ⟨s1, r⟩ := q
      cases r with
      | err e => exact l1
      | panic p => exact l1
      | ok li =>
        simp only []
        split
        · exact l1
        · rename_i hle
          obtain ⟨⟨m, hm, hli, hmax⟩, hcl⟩ := l6 li rfl
          have hdb : s1.db = s.db := l2
          refine ⟨l1.sorted.filter _, fun hh => by simp at hh, fun hh => ?_⟩
          have hcl' : s1.cLast = li := hcl
          refine ⟨m, ?_, by show s1.cLast = _; rw [hcl', hli], fun x hx => ?_⟩
          · unfold deleteUntil
            rw [List.mem_filter]
            refine ⟨by rw [hdb]; exact hm, ?_⟩
            simp only [Bool.not_eq_true', decide_eq_false_iff_not]; omega
          · unfold deleteUntil at hx
            rw [List.mem_filter] at hx
            exact hmax x (by rw [← hdb]; exact hx.1)

/-- `Append` of a batch with contiguous index fields that lies above the DB's first entry -/
theorem append_inv {s : RStorage} (h : RInv s) (e0 : Entry) (es : List Entry)
    (hc : Contig e0.index (e0 :: es)) (hlow : ∀ x, s.db.head? = some x → x.index < e0.index) :
    RInv (s.append (e0 :: es)).1 := by
  obtain ⟨f1, f2, _, _, _, _⟩ := firstIndex_spec h
  unfold append
  generalize s.firstIndex = p at *
  obtain ⟨s1, r⟩ := p
  cases r with
  | err e => exact f1
  | panic p => exact f1
  | ok first =>
    simp only []
    split
    · exact f1
    · rename_i hge
      obtain ⟨l1, l2, _, _, l5, l6⟩ := lastIndex_spec f1
      generalize s1.lastIndex = q at *
      obtain ⟨s2, r2⟩ := q
      cases r2 with
      | err e => exact l1
      | panic p => exact l1
      | ok last =>
        simp only []
        obtain ⟨⟨m, hm, hlast, hmax⟩, _⟩ := l6 last rfl
        -- the truncated batch
        have htr : (if first > e0.index then (e0 :: es).drop (first - e0.index) else e0 :: es) =
            (e0 :: es).drop (first - e0.index) := by
          split
          · rfl
          · have : first - e0.index = 0 := by omega
            rw [this]; rfl
        rw [htr]
        have hcd : Contig (e0.index + (first - e0.index)) ((e0 :: es).drop (first - e0.index)) := hc.drop _
        generalize hb : (e0 :: es).drop (first - e0.index) = batch at *
        cases hgl : batch.getLast? with
        | none => exact l1
        | some le =>
          simp only []
          have hdb2 : s2.db = s.db := by
            have e1 : s2.db = s1.db := l2
            have e2 : s1.db = s.db := f2
            rw [e1, e2]
          -- facts about the batch: distinct indexes, all between its first index and laste
          have hdist : batch.Pairwise (fun a b => a.index ≠ b.index) := by
            rw [List.pairwise_iff_getElem]
            intro i j hi hj hij
            have h1 := hcd i _ (List.getElem?_eq_getElem hi)
            have h2 := hcd j _ (List.getElem?_eq_getElem hj)
            omega
          have hlen : 0 < batch.length := by
            cases batch with
            | nil => simp at hgl
            | cons a b => simp
          have hle : le = batch[batch.length - 1]'(by omega) := by
            rw [List.getLast?_eq_getElem?, List.getElem?_eq_getElem (by omega)] at hgl
            injection hgl with hgl; exact hgl.symm
          have hleidx : le.index = e0.index + (first - e0.index) + (batch.length - 1) := by
            rw [hle]; exact hcd _ _ (List.getElem?_eq_getElem (by omega))
          have hlemem : le ∈ batch := by rw [hle]; exact List.getElem_mem _
          have hrange : ∀ x ∈ batch, e0.index + (first - e0.index) ≤ x.index ∧ x.index ≤ le.index := by
            intro x hx
            obtain ⟨i, hi, hxi⟩ := List.getElem_of_mem hx
            have := hcd i _ (List.getElem?_eq_getElem hi)
            rw [hxi] at this
            omega
          obtain ⟨p1, p2⟩ := dbPutAll_spec batch l1.sorted hdist
          -- the new DB
          have hsorted : Sorted (if le.index < last
              then (dbPutAll batch s2.db).filter (fun x => !(decide (le.index + 1 ≤ x.index) && (get s2.db x.index).isSome))
              else dbPutAll batch s2.db) := by
            split
            · exact p1.filter _
            · exact p1
          have hmem : ∀ x, x ∈ (if le.index < last
              then (dbPutAll batch s2.db).filter (fun x => !(decide (le.index + 1 ≤ x.index) && (get s2.db x.index).isSome))
              else dbPutAll batch s2.db) →
              x ∈ dbPutAll batch s2.db ∧ x.index ≤ le.index := by
            intro x hx
            split at hx
            · rw [List.mem_filter] at hx
              refine ⟨hx.1, ?_⟩
              rcases (p2 x).mp hx.1 with hb' | ⟨hold, _⟩
              · exact (hrange x hb').2
              · have hs := get_isSome_of_mem hold
                have := hx.2
                simp only [hs, Bool.and_true, Bool.not_eq_true', decide_eq_false_iff_not] at this
                omega
            · rename_i hnl
              refine ⟨hx, ?_⟩
              rcases (p2 x).mp hx with hb' | ⟨hold, _⟩
              · exact (hrange x hb').2
              · have := hmax x (by rw [← l2]; exact hold)
                omega
          have hkeep : ∀ x, x ∈ dbPutAll batch s2.db → x.index ≤ le.index →
              x ∈ (if le.index < last
                then (dbPutAll batch s2.db).filter (fun x => !(decide (le.index + 1 ≤ x.index) && (get s2.db x.index).isSome))
                else dbPutAll batch s2.db) := by
            intro x hx hxi
            split
            · rw [List.mem_filter]
              refine ⟨hx, ?_⟩
              have : ¬ (le.index + 1 ≤ x.index) := by omega
              simp [this]
            · exact hx
          refine ⟨hsorted, fun hcf => ?_, fun _ => ?_⟩
          · -- the cached first index: the first DB entry is untouched
            have hcf' : s.cFirst > 0 ∨ s1.cFirst > 0 := by
              right; have : s2.cFirst = s1.cFirst := l5; rw [← this]; exact hcf
            obtain ⟨e, he, h1, h2⟩ := l1.first hcf
            have hehead : ∃ hd, s.db.head? = some hd ∧ hd.index = e.index := by
              have hemem : e ∈ s.db := by rw [← hdb2]; exact he
              cases hh : s.db.head? with
              | none => cases hdb' : s.db with
                | nil => rw [hdb'] at hemem; simp at hemem
                | cons a b => rw [hdb'] at hh; simp at hh
              | some hd =>
                obtain ⟨q1, q2⟩ := h.sorted.head_min hh
                have a1 := q2 e hemem
                have a2 := h2 hd (by rw [hdb2]; exact q1)
                exact ⟨hd, rfl, by omega⟩
            obtain ⟨hd, hhd, hhe⟩ := hehead
            have hlt := hlow hd hhd
            refine ⟨e, hkeep e ((p2 e).mpr (Or.inr ⟨he, fun y hy => ?_⟩)) ?_, h1, fun x hx => ?_⟩
            · have := (hrange y hy).1; omega
            · have := (hrange le hlemem).1; omega
            · obtain ⟨hx1, _⟩ := hmem x hx
              rcases (p2 x).mp hx1 with hb' | ⟨hold, _⟩
              · have := (hrange x hb').1; omega
              · exact h2 x hold
          · exact ⟨le, hkeep le ((p2 le).mpr (Or.inl hlemem)) (Nat.le_refl _), rfl, fun x hx => (hmem x hx).2⟩

theorem new_inv : RInv RStorage.new :=
  ⟨by simp [RStorage.new, Sorted], fun h => by simp [RStorage.new] at h, fun h => by simp [RStorage.new] at h⟩

end RStorage
end Z.LogModel
