/-
Scratch prototype for C02 (node driver, fork-specific): what one node hands to its application.
State = (applied, committed, firstIndex, pending unstable snapshot).  Between Ready cycles the raft
core may raise `committed`, restore a snapshot, or the application may compact the log.  One cycle =
`newReady` (snapshot if pending; committed entries from max(applied+1, firstIndex), at least one and
at most `limit` of them, only when the caller said moreEntriesToApply) followed by `Advance`
(`appliedTo(appliedCursor)`, `stableSnapTo`).  For every interleaving: `appliedTo` never panics, and
each cycle hands out exactly the indexes applied+1 .. applied' (a snapshot standing for the prefix up
to its index) - increasing, gap-free, nothing twice - whatever `moreEntriesToApply` and the size
limit are.
-/
namespace Z.Handout

structure St where
  applied : Nat
  committed : Nat
  first : Nat                 -- firstIndex of the log
  snap : Option Nat           -- unstable.snapshot (index), not yet handed out and stabilised
  deriving DecidableEq, Repr

/-- one Ready: the snapshot index (if any) and the committed entries as (first index, how many) -/
structure Ready where
  snapshot : Option Nat
  off : Nat
  n : Nat
  deriving DecidableEq, Repr

/-- nextEnts with a size limit of `limit ≥ 1` entries (slice always returns at least one entry) -/
def newReady (s : St) (more : Bool) (limit : Nat) : Ready :=
  let off := max (s.applied + 1) s.first
  { snapshot := s.snap, off := off,
    n := if more ∧ s.committed + 1 > off then min (s.committed + 1 - off) limit else 0 }

/-- index of the last committed entry of the Ready, else the snapshot index, else 0 -/
def appliedCursor (rd : Ready) : Nat :=
  if rd.n > 0 then rd.off + rd.n - 1
  else match rd.snapshot with
    | some i => i
    | none => 0

/-- Advance: appliedTo(cursor) (none = the panic branch), then stableSnapTo -/
def advance (s : St) (rd : Ready) : Option St :=
  let c := appliedCursor rd
  let snap' := if rd.snapshot.isSome then none else s.snap
  if c = 0 then some { s with snap := snap' }
  else if s.committed < c ∨ c < s.applied then none
  else some { s with applied := c, snap := snap' }

/-- what the raft core and the application may do between two cycles -/
inductive Env : St → St → Prop
  | commit (s : St) (c : Nat) (h : s.committed ≤ c) : Env s { s with committed := c }
  /-- restore(snapshot i): only for i > committed; the log now starts after i -/
  | restore (s : St) (i : Nat) (h : s.committed < i) :
      Env s { s with committed := i, first := i + 1, snap := some i }
  /-- compaction by the application: never beyond what it has applied -/
  | compact (s : St) (f : Nat) (h1 : s.first ≤ f) (h2 : f ≤ s.applied + 1) : Env s { s with first := f }

structure Inv (s : St) : Prop where
  appliedLe : s.applied ≤ s.committed
  /-- the log reaches down to applied+1, unless a pending snapshot covers the gap -/
  firstOk : match s.snap with
    | none => s.first ≤ s.applied + 1
    | some i => s.first = i + 1 ∧ s.applied < i ∧ i ≤ s.committed

theorem env_inv {s s' : St} (inv : Inv s) (e : Env s s') : Inv s' := by
  cases e with
  | commit c h =>
    refine ⟨Nat.le_trans inv.appliedLe h, ?_⟩
    have := inv.firstOk
    show match s.snap with | none => _ | some i => _
    cases hs : s.snap with
    | none => rw [hs] at this; exact this
    | some i => rw [hs] at this; exact ⟨this.1, this.2.1, Nat.le_trans this.2.2 h⟩
  | restore i h =>
    have := inv.appliedLe
    exact ⟨by show s.applied ≤ i; omega, ⟨rfl, by show s.applied < i; omega, Nat.le_refl _⟩⟩
  | compact f h1 h2 =>
    refine ⟨inv.appliedLe, ?_⟩
    have := inv.firstOk
    show match s.snap with | none => _ | some i => _
    cases hs : s.snap with
    | none => exact h2
    | some i => rw [hs] at this; exfalso; omega

/-! ### facts about the Ready -/

def offOf (s : St) : Nat := max (s.applied + 1) s.first
def cntOf (s : St) (more : Bool) (limit : Nat) : Nat :=
  if more ∧ s.committed + 1 > offOf s then min (s.committed + 1 - offOf s) limit else 0

theorem ready_eq (s : St) (more : Bool) (limit : Nat) :
    newReady s more limit = ⟨s.snap, offOf s, cntOf s more limit⟩ := rfl

theorem cnt_bound (s : St) (more : Bool) (limit : Nat) (h : 0 < cntOf s more limit) :
    offOf s + cntOf s more limit - 1 ≤ s.committed ∧ offOf s ≤ offOf s + cntOf s more limit - 1 := by
  unfold cntOf at *
  split at h
  · rename_i hc
    rw [if_pos hc]
    have := hc.2
    omega
  · omega

theorem off_eq {s : St} (inv : Inv s) :
    match s.snap with
    | none => offOf s = s.applied + 1
    | some i => offOf s = i + 1 ∧ s.applied < i ∧ i ≤ s.committed := by
  have h := inv.firstOk
  unfold offOf
  cases hs : s.snap with
  | none => rw [hs] at h; simp only at h ⊢; omega
  | some i => rw [hs] at h; simp only at h ⊢; omega

theorem cursor_eq (s : St) (more : Bool) (limit : Nat) :
    appliedCursor (newReady s more limit) =
      (if 0 < cntOf s more limit then offOf s + cntOf s more limit - 1
       else match s.snap with | some i => i | none => 0) := by
  rw [ready_eq]; rfl

/-- the cursor is 0 (nothing handed out) or lies in [applied, committed] -/
theorem cursor_bounds {s : St} (inv : Inv s) (more : Bool) (limit : Nat) :
    appliedCursor (newReady s more limit) = 0 ∨
      (s.applied ≤ appliedCursor (newReady s more limit) ∧ appliedCursor (newReady s more limit) ≤ s.committed) := by
  have ho := off_eq inv
  have hal := inv.appliedLe
  rw [cursor_eq]
  by_cases hp : 0 < cntOf s more limit
  · rw [if_pos hp]
    have hb := cnt_bound s more limit hp
    right
    cases hs : s.snap with
    | none => rw [hs] at ho; simp only at ho; omega
    | some i => rw [hs] at ho; simp only at ho; omega
  · rw [if_neg hp]
    cases hs : s.snap with
    | none => exact Or.inl rfl
    | some i => rw [hs] at ho; simp only at ho ⊢; right; omega

/-- **Advance never panics**, and what it does to the four fields -/
theorem advance_ok {s : St} (inv : Inv s) (more : Bool) (limit : Nat) :
    ∃ s', advance s (newReady s more limit) = some s' ∧
      s'.applied = (if appliedCursor (newReady s more limit) = 0 then s.applied
                    else appliedCursor (newReady s more limit)) ∧
      s'.committed = s.committed ∧ s'.first = s.first ∧ s'.snap = none := by
  have hb := cursor_bounds inv more limit
  have hsn : (if (newReady s more limit).snapshot.isSome then none else s.snap) = none := by
    rw [ready_eq]; simp only
    cases hs : s.snap <;> simp
  unfold advance
  simp only [hsn]
  by_cases hc : appliedCursor (newReady s more limit) = 0
  · rw [if_pos hc, if_pos hc]
    exact ⟨_, rfl, rfl, rfl, rfl, rfl⟩
  · rw [if_neg hc, if_neg hc]
    rcases hb with h0 | ⟨h1, h2⟩
    · exact absurd h0 hc
    · have : ¬ (s.committed < appliedCursor (newReady s more limit) ∨
          appliedCursor (newReady s more limit) < s.applied) := by omega
      rw [if_neg this]
      exact ⟨_, rfl, rfl, rfl, rfl, rfl⟩

/-- **one cycle, contiguity**: with s' the state after Advance -
    * the invariant holds again and no snapshot is pending;
    * nothing handed out (no entries, no snapshot) ⇒ applied unchanged;
    * entries handed out ⇒ they are off .. applied' with off = applied+1, or off = i+1 right after
      the snapshot i > applied handed out in the same Ready;
    * a snapshot alone ⇒ applied' = its index > applied.
    So over any sequence of cycles the hand-outs tile the index line without gap or overlap. -/
theorem cycle {s : St} (inv : Inv s) (more : Bool) (limit : Nat) :
    ∃ s', advance s (newReady s more limit) = some s' ∧ Inv s' ∧ s.applied ≤ s'.applied ∧
      (cntOf s more limit = 0 ∧ s.snap = none → s'.applied = s.applied) ∧
      (0 < cntOf s more limit → s'.applied = offOf s + cntOf s more limit - 1 ∧
        (match s.snap with
         | none => offOf s = s.applied + 1
         | some i => offOf s = i + 1 ∧ s.applied < i)) ∧
      (cntOf s more limit = 0 → ∀ i, s.snap = some i → s'.applied = i ∧ s.applied < i) := by
  obtain ⟨s', h1, h2, h3, h4, h5⟩ := advance_ok inv more limit
  have hb := cursor_bounds inv more limit
  have ho := off_eq inv
  have hal := inv.appliedLe
  have hcur := cursor_eq s more limit
  refine ⟨s', h1, ?_, ?_, ?_, ?_, ?_⟩
  · -- invariant
    refine ⟨?_, ?_⟩
    · rw [h2, h3]
      by_cases hc : appliedCursor (newReady s more limit) = 0
      · rw [if_pos hc]; exact hal
      · rw [if_neg hc]; rcases hb with h | h
        · exact absurd h hc
        · exact h.2
    · rw [h5]
      show s'.first ≤ s'.applied + 1
      rw [h4, h2]
      by_cases hc : appliedCursor (newReady s more limit) = 0
      · rw [if_pos hc]
        cases hs : s.snap with
        | none => have := inv.firstOk; rw [hs] at this; exact this
        | some i =>
          -- a pending snapshot makes the cursor non-zero
          exfalso
          rw [hs] at ho; simp only at ho
          rw [hcur, hs] at hc
          by_cases hp : 0 < cntOf s more limit
          · rw [if_pos hp] at hc; have := cnt_bound s more limit hp; omega
          · rw [if_neg hp] at hc; simp only at hc; omega
      · rw [if_neg hc, hcur]
        have hf := inv.firstOk
        by_cases hp : 0 < cntOf s more limit
        · rw [if_pos hp]
          have hbd := cnt_bound s more limit hp
          cases hs : s.snap with
          | none => rw [hs] at hf ho; simp only at hf ho; omega
          | some i => rw [hs] at hf ho; simp only at hf ho; omega
        · rw [if_neg hp]
          cases hs : s.snap with
          | none => rw [hcur, if_neg hp, hs] at hc; exact absurd rfl hc
          | some i => rw [hs] at hf; simp only at hf ⊢; omega
  · rw [h2]
    by_cases hc : appliedCursor (newReady s more limit) = 0
    · rw [if_pos hc]; exact Nat.le_refl _
    · rw [if_neg hc]; rcases hb with h | h
      · exact absurd h hc
      · exact h.1
  · intro ⟨hn, hs⟩
    rw [h2, hcur, hs]
    have : ¬ 0 < cntOf s more limit := by omega
    rw [if_neg this]; simp
  · intro hp
    have hbd := cnt_bound s more limit hp
    refine ⟨?_, ?_⟩
    · rw [h2, hcur, if_pos hp]
      have : offOf s + cntOf s more limit - 1 ≠ 0 := by
        have : 1 ≤ offOf s := by unfold offOf; omega
        omega
      rw [if_neg this]
    · cases hs : s.snap with
      | none => rw [hs] at ho; exact ho
      | some i => rw [hs] at ho; exact ⟨ho.1, ho.2.1⟩
  · intro hn i hs
    rw [hs] at ho; simp only at ho
    have : ¬ 0 < cntOf s more limit := by omega
    rw [h2, hcur, if_neg this, hs]
    simp only
    have : i ≠ 0 := by omega
    rw [if_neg this]
    exact ⟨rfl, ho.2.1⟩

#print axioms cycle
#print axioms env_inv
end Z.Handout
