/-
Scratch prototype for C02: ghost vocabulary of layer 3 (prefix records, lacks, witnesses, blocked,
quorum-acked) and the frame lemmas: what survives any step that only extends the ghost state.
-/
import ZanVerif.Raft.RaftInv2
namespace Z.RaftAbs
open Z.LogMatch

def pre (s : St) (t k : Nat) : Log := (s.tlog t).take k
/-- index k of the ghost log of term t carries an entry of term t (the current-term commit rule) -/
def Good (s : St) (t k : Nat) : Prop := 1 ≤ k ∧ k ≤ (s.tlog t).length ∧ termAt (s.tlog t) k = t
def lacks (s : St) (u t k : Nat) : Prop := (s.tlog u).take k ≠ pre s t k
def Wit (s : St) (t k : Nat) : Prop := ∃ u, isElected s u ∧ t < u ∧ lacks s u t k
/-- a witness that q itself has followed: bounded by q's term -/
def WitB (s : St) (q t k : Nat) : Prop := ∃ u, isElected s u ∧ t < u ∧ u ≤ s.term q ∧ lacks s u t k
/-- the same bound, by the durable term -/
def WitBd (s : St) (q t k : Nat) : Prop := ∃ u, isElected s u ∧ t < u ∧ u ≤ s.dterm q ∧ lacks s u t k
def Blocked (vs : List Nat) (s : St) (t k : Nat) : Prop :=
  ∃ Q, IsQuorum vs Q ∧ ∀ q ∈ Q, t < s.dterm q ∧ ¬ acked s q t k
def QAcked (vs : List Nat) (s : St) (t k : Nat) : Prop :=
  ∃ Q, IsQuorum vs Q ∧ ∀ q ∈ Q, sacked s q t k

structure Ext (s s' : St) : Prop where
  tlogExt : ∀ u, ∃ x, s'.tlog u = s.tlog u ++ x ∧ (isElected s u → ∀ e ∈ x, e.term = u)
  elExt : ∀ u, isElected s u → isElected s' u
  dtermMono : ∀ q, s.dterm q ≤ s'.dterm q
  sacksMono : ∀ x, x ∈ s.sacks → x ∈ s'.sacks
  acksNew : ∀ q t k, (q, t, k) ∈ s'.acks → (q, t, k) ∈ s.acks ∨ s.term q ≤ t

theorem termAt_append {L x : Log} {k : Nat} (h : k ≤ L.length) : termAt (L ++ x) k = termAt L k := by
  unfold termAt
  split
  · rfl
  · rw [List.getElem?_append_left (by omega)]

/-- a list that differs from P on its first k entries still does after appending entries whose
    terms are above every term in P -/
theorem take_ne_append {L x P : Log} {k t : Nat} (hne : L.take k ≠ P) (hP : P.length = k)
    (hPt : ∀ e ∈ P, e.term ≤ t) (hx : ∀ e ∈ x, t < e.term) : (L ++ x).take k ≠ P := by
  by_cases hk : k ≤ L.length
  · rw [List.take_append_of_le_length hk]; exact hne
  · intro heq
    cases x with
    | nil => simp at heq; exact hne heq
    | cons e x' =>
      have : e ∈ P := by
        rw [← heq, List.take_append]
        apply List.mem_append_right
        have : k - L.length = (k - L.length - 1) + 1 := by omega
        rw [this, List.take_succ_cons]
        exact List.mem_cons_self
      have h1 := hPt e this
      have h2 := hx e List.mem_cons_self
      omega

theorem sacked.fwd {s s' : St} (E : Ext s s') {q t k : Nat} (h : sacked s q t k) : sacked s' q t k := by
  obtain ⟨k', hk, hm⟩ := h
  exact ⟨k', hk, E.sacksMono _ hm⟩

theorem acked.back {s s' : St} (E : Ext s s') {q t k : Nat} (h : acked s' q t k) (ht : t < s.term q) :
    acked s q t k := by
  obtain ⟨k', hk, hm⟩ := h
  rcases E.acksNew q t k' hm with h | h
  · exact ⟨k', hk, h⟩
  · omega

theorem pre_ext {s s' : St} (E : Ext s s') {t k : Nat} (hk : k ≤ (s.tlog t).length) :
    pre s' t k = pre s t k := by
  obtain ⟨x, hx, _⟩ := E.tlogExt t
  unfold pre; rw [hx, List.take_append_of_le_length hk]

theorem Good.fwd {s s' : St} (E : Ext s s') {t k : Nat} (h : Good s t k) : Good s' t k := by
  obtain ⟨x, hx, _⟩ := E.tlogExt t
  refine ⟨h.1, ?_, ?_⟩
  · rw [hx, List.length_append]; have := h.2.1; omega
  · rw [hx, termAt_append h.2.1]; exact h.2.2

theorem Good.back {s s' : St} (E : Ext s s') {t k : Nat} (h : Good s' t k) (hk : k ≤ (s.tlog t).length) :
    Good s t k := by
  obtain ⟨x, hx, _⟩ := E.tlogExt t
  refine ⟨h.1, hk, ?_⟩
  have := h.2.2
  rw [hx, termAt_append hk] at this; exact this

theorem pre_length {s : St} {t k : Nat} (hk : k ≤ (s.tlog t).length) : (pre s t k).length = k := by
  unfold pre; rw [List.length_take]; omega

theorem lacks.fwd {s s' : St} (E : Ext s s') (i2 : Inv2 s) {u t k : Nat} (hu : isElected s u) (htu : t < u)
    (hk : k ≤ (s.tlog t).length) (h : lacks s u t k) : lacks s' u t k := by
  obtain ⟨x, hx, hxt⟩ := E.tlogExt u
  unfold lacks at *
  rw [pre_ext E hk, hx]
  apply take_ne_append h (pre_length hk) (t := t)
  · intro e he; exact i2.tlogLe t e (List.mem_of_mem_take he)
  · intro e he; rw [hxt hu e he]; exact htu

theorem lacks.back {s s' : St} (E : Ext s s') {u t k : Nat}
    (hk : k ≤ (s.tlog t).length) (h : lacks s' u t k) : lacks s u t k := by
  obtain ⟨x, hx, _⟩ := E.tlogExt u
  unfold lacks at *
  rw [pre_ext E hk, hx] at h
  intro heq
  apply h
  have hlen : k ≤ (s.tlog u).length := by
    have := congrArg List.length heq
    rw [pre_length hk, List.length_take] at this; omega
  rw [List.take_append_of_le_length hlen]; exact heq

theorem Wit.fwd {s s' : St} (E : Ext s s') (i2 : Inv2 s) {t k : Nat}
    (hk : k ≤ (s.tlog t).length) (h : Wit s t k) : Wit s' t k := by
  obtain ⟨u, hu, htu, hl⟩ := h
  exact ⟨u, E.elExt u hu, htu, lacks.fwd E i2 hu htu hk hl⟩

theorem WitB.fwd {s s' : St} (E : Ext s s') (i2 : Inv2 s) {q t k : Nat} (hq : s.term q ≤ s'.term q)
    (hk : k ≤ (s.tlog t).length) (h : WitB s q t k) : WitB s' q t k := by
  obtain ⟨u, hu, htu, hle, hl⟩ := h
  exact ⟨u, E.elExt u hu, htu, Nat.le_trans hle hq, lacks.fwd E i2 hu htu hk hl⟩

theorem WitBd.fwd {s s' : St} (E : Ext s s') (i2 : Inv2 s) {q t k : Nat}
    (hk : k ≤ (s.tlog t).length) (h : WitBd s q t k) : WitBd s' q t k := by
  obtain ⟨u, hu, htu, hle, hl⟩ := h
  exact ⟨u, E.elExt u hu, htu, Nat.le_trans hle (E.dtermMono q), lacks.fwd E i2 hu htu hk hl⟩

theorem WitB.wit {s : St} {q t k : Nat} (h : WitB s q t k) : Wit s t k := by
  obtain ⟨u, hu, htu, _, hl⟩ := h
  exact ⟨u, hu, htu, hl⟩

theorem Blocked.fwd {vs : List Nat} {s s' : St} (E : Ext s s') (hd : ∀ q, s.dterm q ≤ s.term q)
    {t k : Nat} (h : Blocked vs s t k) : Blocked vs s' t k := by
  obtain ⟨Q, hQ, hq⟩ := h
  refine ⟨Q, hQ, fun q hqQ => ?_⟩
  have := hq q hqQ
  exact ⟨Nat.lt_of_lt_of_le this.1 (E.dtermMono q),
    fun ha => this.2 (acked.back E ha (Nat.lt_of_lt_of_le this.1 (hd q)))⟩

theorem QAcked.fwd {vs : List Nat} {s s' : St} (E : Ext s s') {t k : Nat} (h : QAcked vs s t k) :
    QAcked vs s' t k := by
  obtain ⟨Q, hQ, hq⟩ := h
  exact ⟨Q, hQ, fun q hqQ => sacked.fwd E (hq q hqQ)⟩

end Z.RaftAbs
