/-
Scratch prototype for C01-C03 (tie): an EXECUTABLE checker for single actions of the abstract raft
with crashes, proved sound w.r.t. the step relation.  The harness maps every event of a real run to
actions; the Lean driver folds `apply` over them.  If the fold succeeds the observed run is, by
`run_sound`, an execution of the system for which the safety theorems are proved; if it fails, the
first action whose precondition is false names the raft rule the implementation broke.
-/
import ZanVerif.Raft.RaftCrashSafety
namespace Z.RaftAbs
open Z.LogMatch

inductive Action
  | campaign (c t : Nat)
  | grant (q t c : Nat)
  | becomeLeader (c t : Nat) (Q : List Nat)
  | propose (c d : Nat)
  | sendApp (c prev n cm : Nat)
  | recvApp (q : Nat) (m : AppMsg)
  | ackStale (q : Nat) (m : AppMsg)
  | restore (q : Nat) (m : AppMsg)
  | sendHb (c q cm k : Nat)
  | recvHb (q : Nat) (h : Hb)
  | commitLeader (c k : Nat) (Q : List Nat)
  | bump (j t : Nat)
  | restart (j : Nat)
  | flush (j : Nat)
  | crash (j : Nat)

instance (a b : Log) : Decidable (UpToDate a b) := by unfold UpToDate; exact inferInstance
instance (vs Q : List Nat) : Decidable (IsQuorum vs Q) := by unfold IsQuorum; exact inferInstance

/-- decidable form of `sacked` -/
def sackedD (s : St) (q t k : Nat) : Prop := ∃ x ∈ s.sacks, x.1 = q ∧ x.2.1 = t ∧ k ≤ x.2.2
theorem sackedD_sound {s : St} {q t k : Nat} (h : sackedD s q t k) : sacked s q t k := by
  obtain ⟨⟨q', t', k'⟩, hx, h1, h2, h3⟩ := h
  simp only at h1 h2 h3
  subst h1; subst h2
  exact ⟨k', h3, hx⟩
instance (s : St) (q t k : Nat) : Decidable (sackedD s q t k) := by unfold sackedD; exact inferInstance

/-- decidable form of "q has not voted for anybody else in t" -/
def noOtherVote (s : St) (q t c : Nat) : Prop := ∀ x ∈ s.voted, x.1 = q → x.2.1 = t → x.2.2 = c
theorem noOtherVote_sound {s : St} {q t c : Nat} (h : noOtherVote s q t c) :
    ∀ c', (q, t, c') ∈ s.voted → c' = c := fun c' hc' => h (q, t, c') hc' rfl rfl
instance (s : St) (q t c : Nat) : Decidable (noOtherVote s q t c) := by unfold noOtherVote; exact inferInstance

variable (vs : List Nat)

def apply (s : St) : Action → Option St
  | .campaign c t =>
    if s.term c < t then some { s with
        term := upd s.term c t
        role := upd s.role c Role.candidate
        camp := (c, t) :: s.camp
        candLog := updP s.candLog (c, t) (s.log c) } else none
  | .grant q t c =>
    if (c, t) ∈ s.scamp ∧ s.term q ≤ t ∧ q ≠ c ∧ UpToDate (s.candLog (c, t)) (s.log q) ∧
        noOtherVote s q t c ∧ (q, t) ∉ s.camp then some { s with
        term := upd s.term q t
        role := if s.term q < t then upd s.role q Role.follower else s.role
        voted := (q, t, c) :: s.voted } else none
  | .becomeLeader c t Q =>
    if s.role c = Role.candidate ∧ s.term c = t ∧ (c, t) ∈ s.scamp ∧ IsQuorum vs Q ∧
        (∀ q ∈ Q, q = c ∨ (q, t, c) ∈ s.svoted) then some { s with
        role := upd s.role c Role.leader
        log := upd s.log c (s.log c ++ [⟨t, 0⟩])
        tlog := upd s.tlog t (s.log c ++ [⟨t, 0⟩])
        elected := (c, t) :: s.elected
        acks := (c, t, (s.log c).length + 1) :: s.acks } else none
  | .propose c d =>
    if s.role c = Role.leader then some { s with
        log := upd s.log c (s.log c ++ [⟨s.term c, d⟩])
        tlog := upd s.tlog (s.term c) (s.log c ++ [⟨s.term c, d⟩])
        acks := (c, s.term c, (s.log c).length + 1) :: s.acks } else none
  | .sendApp c prev n cm =>
    if s.role c = Role.leader ∧ prev + n ≤ (s.log c).length ∧ cm ≤ s.commit c then some { s with
        msgs := ⟨s.term c, prev, n, ((s.log c).drop prev).take n, cm⟩ :: s.msgs } else none
  | .recvApp q m =>
    if m ∈ s.msgs ∧ s.term q ≤ m.term ∧ (s.role q = Role.leader → s.term q < m.term) ∧
        m.prev ≤ (s.log q).length ∧ termAt (s.log q) m.prev = termAt (s.tlog m.term) m.prev then
      some { s with
        term := upd s.term q m.term
        role := upd s.role q Role.follower
        log := upd s.log q (maybeAppend (s.log q) m.prev m.ents)
        commit := upd s.commit q (max (s.commit q) (min m.commit (m.prev + m.n)))
        acks := (q, m.term, m.prev + m.n) :: s.acks } else none
  | .ackStale q m =>
    if m ∈ s.msgs ∧ s.term q ≤ m.term ∧ (s.role q = Role.leader → s.term q < m.term) ∧
        m.prev < s.commit q then some { s with
        term := upd s.term q m.term
        role := upd s.role q Role.follower
        acks := (q, m.term, s.commit q) :: s.acks } else none
  | .restore q m =>
    if m ∈ s.msgs ∧ s.term q ≤ m.term ∧ (s.role q = Role.leader → s.term q < m.term) ∧
        m.n = 0 ∧ m.commit = m.prev ∧ s.commit q < m.prev ∧
        ¬ (m.prev ≤ (s.log q).length ∧ termAt (s.log q) m.prev = termAt (s.tlog m.term) m.prev) then
      some { s with
        term := upd s.term q m.term
        role := upd s.role q Role.follower
        log := upd s.log q ((s.tlog m.term).take m.prev)
        commit := upd s.commit q m.prev
        acks := (q, m.term, m.prev) :: s.acks } else none
  | .sendHb c q cm k =>
    if s.role c = Role.leader ∧ cm ≤ s.commit c ∧ sackedD s q (s.term c) k ∧ cm ≤ k then
      some { s with hbs := ⟨s.term c, q, cm⟩ :: s.hbs } else none
  | .recvHb q h =>
    if h ∈ s.hbs ∧ h.to = q ∧ s.term q ≤ h.term ∧ (s.role q = Role.leader → s.term q < h.term) then
      some { s with
        term := upd s.term q h.term
        role := upd s.role q Role.follower
        commit := upd s.commit q (max (s.commit q) h.commit) } else none
  | .commitLeader c k Q =>
    if s.role c = Role.leader ∧ 1 ≤ k ∧ k ≤ (s.log c).length ∧ termAt (s.log c) k = s.term c ∧
        IsQuorum vs Q ∧ (∀ q ∈ Q, sackedD s q (s.term c) k) then
      some { s with commit := upd s.commit c (max (s.commit c) k) } else none
  | .bump j t =>
    if s.term j < t then some { s with
        term := upd s.term j t
        role := upd s.role j Role.follower } else none
  | .restart j => some { s with role := upd s.role j Role.follower }
  | .flush j => some { s with
        dterm := upd s.dterm j (s.term j)
        dlog := upd s.dlog j (s.log j)
        dcommit := upd s.dcommit j (s.commit j)
        scamp := s.camp.filter (fun x => x.1 = j) ++ s.scamp
        svoted := s.voted.filter (fun x => x.1 = j) ++ s.svoted
        sacks := s.acks.filter (fun x => x.1 = j) ++ s.sacks }
  | .crash j => some { s with
        term := upd s.term j (s.dterm j)
        role := upd s.role j Role.follower
        log := upd s.log j (s.dlog j)
        commit := upd s.commit j (s.dcommit j)
        camp := s.camp.filter (fun x => decide (x.1 ≠ j) || decide (x ∈ s.scamp))
        voted := s.voted.filter (fun x => decide (x.1 ≠ j) || decide (x ∈ s.svoted))
        acks := s.acks.filter (fun x => decide (x.1 ≠ j) || decide (x ∈ s.sacks)) }

/-- **soundness of the executable step checker** -/
theorem apply_sound {s s' : St} {a : Action} (h : apply vs s a = some s') : Step vs s s' := by
  cases a with
  | campaign c t =>
    simp only [apply] at h; split at h
    · rename_i hc; injection h with h; subst h; exact Step.campaign s c t hc
    · cases h
  | grant q t c =>
    simp only [apply] at h; split at h
    · rename_i hc; injection h with h; subst h
      exact Step.grant s q t c hc.1 hc.2.1 hc.2.2.1 hc.2.2.2.1 (noOtherVote_sound hc.2.2.2.2.1) hc.2.2.2.2.2
    · cases h
  | becomeLeader c t Q =>
    simp only [apply] at h; split at h
    · rename_i hc; injection h with h; subst h
      exact Step.becomeLeader s c t Q hc.1 hc.2.1 hc.2.2.1 hc.2.2.2.1 hc.2.2.2.2
    · cases h
  | propose c d =>
    simp only [apply] at h; split at h
    · rename_i hc; injection h with h; subst h; exact Step.propose s c d hc
    · cases h
  | sendApp c prev n cm =>
    simp only [apply] at h; split at h
    · rename_i hc; injection h with h; subst h; exact Step.sendApp s c prev n cm hc.1 hc.2.1 hc.2.2
    · cases h
  | recvApp q m =>
    simp only [apply] at h; split at h
    · rename_i hc; injection h with h; subst h
      exact Step.recvApp s q m hc.1 hc.2.1 hc.2.2.1 hc.2.2.2.1 hc.2.2.2.2
    · cases h
  | ackStale q m =>
    simp only [apply] at h; split at h
    · rename_i hc; injection h with h; subst h
      exact Step.ackStale s q m hc.1 hc.2.1 hc.2.2.1 hc.2.2.2
    · cases h
  | restore q m =>
    simp only [apply] at h; split at h
    · rename_i hc; injection h with h; subst h
      exact Step.restore s q m hc.1 hc.2.1 hc.2.2.1 hc.2.2.2.1 hc.2.2.2.2.1 hc.2.2.2.2.2.1 hc.2.2.2.2.2.2
    · cases h
  | sendHb c q cm k =>
    simp only [apply] at h; split at h
    · rename_i hc; injection h with h; subst h
      exact Step.sendHb s c q cm k hc.1 hc.2.1 (sackedD_sound hc.2.2.1) hc.2.2.2
    · cases h
  | recvHb q hb =>
    simp only [apply] at h; split at h
    · rename_i hc; injection h with h; subst h
      exact Step.recvHb s q hb hc.1 hc.2.1 hc.2.2.1 hc.2.2.2
    · cases h
  | commitLeader c k Q =>
    simp only [apply] at h; split at h
    · rename_i hc; injection h with h; subst h
      obtain ⟨h1, h2, h3, h4, h5, h6⟩ := hc
      exact Step.commitLeader s c k Q h1 h2 h3 (by rw [← termAt_pos h2 h3]; exact h4) h5
        (fun q hq => sackedD_sound (h6 q hq))
    · cases h
  | bump j t =>
    simp only [apply] at h; split at h
    · rename_i hc; injection h with h; subst h; exact Step.bump s j t hc
    · cases h
  | restart j => simp only [apply] at h; injection h with h; subst h; exact Step.restart s j
  | flush j => simp only [apply] at h; injection h with h; subst h; exact Step.flush s j
  | crash j => simp only [apply] at h; injection h with h; subst h; exact Step.crash s j

def run (s : St) : List Action → Option St
  | [] => some s
  | a :: as => match apply vs s a with
    | some s' => run s' as
    | none => none

/-- a run accepted by the checker is an execution of the proved system -/
theorem run_sound : ∀ (as : List Action) {s s' : St}, Reach vs s → run vs s as = some s' → Reach vs s' := by
  intro as
  induction as with
  | nil => intro s s' r h; simp only [run] at h; injection h with h; subst h; exact r
  | cons a as ih =>
    intro s s' r h
    simp only [run] at h
    split at h
    · rename_i s1 h1; exact ih (Reach.step r (apply_sound vs h1)) h
    · cases h

/-- so every safety theorem applies to every accepted run -/
theorem accepted_run_safe (as : List Action) {s : St} (h : run vs init as = some s) (a b : Nat) :
    (s.log a).take (min (s.commit a) (s.commit b)) = (s.log b).take (min (s.commit a) (s.commit b)) :=
  state_machine_safety vs (run_sound vs as Reach.init h) a b

#print axioms apply_sound
#print axioms accepted_run_safe
end Z.RaftAbs
