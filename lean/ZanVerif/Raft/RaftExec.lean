/-
Scratch prototype for C01-C03 (tie): an EXECUTABLE checker for single actions of the abstract raft
with crashes, proved sound w.r.t. the step relation.  The checker itself (`Action`, `apply`, `run`) lives in the
core-only module ExecCore.lean (it is linked into the native driver); this file proves it sound.
The harness maps every event of a real run to actions; the Lean driver folds `apply` over them.  If the fold succeeds the observed run is, by
`run_sound`, an execution of the system for which the safety theorems are proved; if it fails, the
first action whose precondition is false names the raft rule the implementation broke.
-/
import ZanVerif.Raft.RaftCrashSafety
import ZanVerif.Raft.ExecCore
namespace Z.RaftAbs
open Z.LogMatch

theorem sackedD_sound {s : St} {q t k : Nat} (h : sackedD s q t k) : sacked s q t k := by
  obtain ⟨⟨q', t', k'⟩, hx, h1, h2, h3⟩ := h
  simp only at h1 h2 h3
  subst h1; subst h2
  exact ⟨k', h3, hx⟩
theorem noOtherVote_sound {s : St} {q t c : Nat} (h : noOtherVote s q t c) :
    ∀ c', (q, t, c') ∈ s.voted → c' = c := fun c' hc' => h (q, t, c') hc' rfl rfl
variable (vs : List Nat)

/-- **soundness of the executable step checker** -/
theorem apply_sound {s s' : St} {a : Action} (h : apply vs s a = some s') : Step vs s s' := by
  cases a with
  | campaign c t =>
    simp only [apply] at h; split at h
    · rename_i hc; injection h with h; subst h; exact Step.campaign s c t hc
    · cases h
  | grant q t c =>
    simp only [apply] at h; split at h
    · rename_i hc; injection h with h; subst h
      exact Step.grant s q t c hc.1 hc.2.1 hc.2.2.1 hc.2.2.2.1 (noOtherVote_sound hc.2.2.2.2.1) hc.2.2.2.2.2
    · cases h
  | becomeLeader c t Q =>
    simp only [apply] at h; split at h
    · rename_i hc; injection h with h; subst h
      exact Step.becomeLeader s c t Q hc.1 hc.2.1 hc.2.2.1 hc.2.2.2.1 hc.2.2.2.2
    · cases h
  | propose c d =>
    simp only [apply] at h; split at h
    · rename_i hc; injection h with h; subst h; exact Step.propose s c d hc
    · cases h
  | sendApp c prev n cm =>
    simp only [apply] at h; split at h
    · rename_i hc; injection h with h; subst h; exact Step.sendApp s c prev n cm hc.1 hc.2.1 hc.2.2
    · cases h
  | recvApp q m =>
    simp only [apply] at h; split at h
    · rename_i hc; injection h with h; subst h
      exact Step.recvApp s q m hc.1 hc.2.1 hc.2.2.1 hc.2.2.2.1 hc.2.2.2.2
    · cases h
  | ackStale q m =>
    simp only [apply] at h; split at h
    · rename_i hc; injection h with h; subst h
      exact Step.ackStale s q m hc.1 hc.2.1 hc.2.2.1 hc.2.2.2
    · cases h
  | restore q m =>
    simp only [apply] at h; split at h
    · rename_i hc; injection h with h; subst h
      exact Step.restore s q m hc.1 hc.2.1 hc.2.2.1 hc.2.2.2.1 hc.2.2.2.2.1 hc.2.2.2.2.2.1 hc.2.2.2.2.2.2
    · cases h
  | sendHb c q cm k =>
    simp only [apply] at h; split at h
    · rename_i hc; injection h with h; subst h
      exact Step.sendHb s c q cm k hc.1 hc.2.1 (sackedD_sound hc.2.2.1) hc.2.2.2
    · cases h
  | recvHb q hb =>
    simp only [apply] at h; split at h
    · rename_i hc; injection h with h; subst h
      exact Step.recvHb s q hb hc.1 hc.2.1 hc.2.2.1 hc.2.2.2
    · cases h
  | commitLeader c k Q =>
    simp only [apply] at h; split at h
    · rename_i hc; injection h with h; subst h
      obtain ⟨h1, h2, h3, h4, h5, h6⟩ := hc
      exact Step.commitLeader s c k Q h1 h2 h3 (by rw [← termAt_pos h2 h3]; exact h4) h5
        (fun q hq => sackedD_sound (h6 q hq))
    · cases h
  | bump j t =>
    simp only [apply] at h; split at h
    · rename_i hc; injection h with h; subst h; exact Step.bump s j t hc
    · cases h
  | restart j => simp only [apply] at h; injection h with h; subst h; exact Step.restart s j
  | flush j => simp only [apply] at h; injection h with h; subst h; exact Step.flush s j
  | crash j => simp only [apply] at h; injection h with h; subst h; exact Step.crash s j

/-- a run accepted by the checker is an execution of the proved system -/
theorem run_sound : ∀ (as : List Action) {s s' : St}, Reach vs s → run vs s as = some s' → Reach vs s' := by
  intro as
  induction as with
  | nil => intro s s' r h; simp only [run] at h; injection h with h; subst h; exact r
  | cons a as ih =>
    intro s s' r h
    simp only [run] at h
    split at h
    · rename_i s1 h1; exact ih (Reach.step r (apply_sound vs h1)) h
    · cases h

/-- so every safety theorem applies to every accepted run -/
theorem accepted_run_safe (as : List Action) {s : St} (h : run vs init as = some s) (a b : Nat) :
    (s.log a).take (min (s.commit a) (s.commit b)) = (s.log b).take (min (s.commit a) (s.commit b)) :=
  state_machine_safety vs (run_sound vs as Reach.init h) a b

#print axioms apply_sound
#print axioms accepted_run_safe
end Z.RaftAbs
