/-
Scratch prototype: executable, etcd-shaped vote handling (`raft.go` Step: term handling, MsgHup,
MsgVote, MsgVoteResp, leader messages) and a simulation into the abstract protocol Z.Elect.
Pre-vote / lease / log up-to-date check are modelled as an opaque Boolean input `ok` that can only
*restrict* granting (they never force a grant), which is all election safety needs.
-/
import ZanVerif.Raft.GElect
namespace Z.CStep
open Z.GElect

inductive CMsgT | hup | vote | voteResp | app
  deriving DecidableEq, Repr

structure CMsg where
  typ : CMsgT
  frm : Nat
  to : Nat
  term : Nat
  reject : Bool := false
  deriving DecidableEq, Repr

inductive CRole | follower | candidate | leader
  deriving DecidableEq, Repr

structure Node where
  id : Nat
  term : Nat
  vote : Nat
  lead : Nat
  role : CRole
  votes : List (Nat × Bool)     -- r.votes, insertion order irrelevant
  voters : List Nat             -- keys of r.prs
  deriving Repr

def quorum (n : Node) : Nat := n.voters.length / 2 + 1

def granted (n : Node) : List Nat := (n.votes.filter (·.2)).map (·.1)

def becomeFollower (n : Node) (term lead : Nat) : Node :=
  { n with vote := if n.term ≠ term then 0 else n.vote, term := term, lead := lead,
           role := .follower, votes := [] }

def becomeCandidate (n : Node) : Node :=
  { n with term := n.term + 1, vote := n.id, lead := 0, role := .candidate, votes := [] }

def becomeLeader (n : Node) : Node :=
  { n with lead := n.id, role := .leader, votes := [] }

/-- poll: record the first answer of `id`, return new node and number of grants -/
def poll (n : Node) (id : Nat) (v : Bool) : Node × Nat :=
  let votes := if n.votes.any (·.1 == id) then n.votes else (id, v) :: n.votes
  let n' := { n with votes := votes }
  (n', (granted n').length)

def voteReqs (n : Node) : List CMsg :=
  (n.voters.filter (· ≠ n.id)).map fun p => { typ := .vote, frm := n.id, to := p, term := n.term }

/-- campaign (no pre-vote in this fragment) -/
def campaign (n : Node) : Node × List CMsg :=
  let p := poll (becomeCandidate n) n.id true
  if quorum p.1 = p.2 then (becomeLeader p.1, []) else (p.1, voteReqs p.1)

/-- first half of raft.Step: compare terms. Returns the node and `stop` (message dropped).
    `ok` abstracts `!inLease` here and `isUpToDate`/… below: conditions that can only block a grant -/
def termPhase (n : Node) (m : CMsg) (ok : Bool) : Node × Bool :=
  if m.term = 0 then (n, false)
  else if m.term > n.term then
    if m.typ = .vote && !ok then (n, true)       -- in lease: ignore entirely
    else (becomeFollower n m.term (if m.typ = .app then m.frm else 0), false)
  else if m.term < n.term then (n, true)          -- ignored (possibly answered with a non-vote message)
  else (n, false)

/-- second half of raft.Step: dispatch on the message type -/
def dispatch (n : Node) (m : CMsg) (ok : Bool) : Node × List CMsg :=
  match m.typ with
  | .hup => if n.role = .leader ∨ n.id ∉ n.voters then (n, []) else campaign n
  | .vote =>
    if (n.vote = m.frm ∨ (n.vote = 0 ∧ n.lead = 0)) ∧ ok then
      ({ n with vote := m.frm }, [{ typ := .voteResp, frm := n.id, to := m.frm, term := m.term }])
    else
      (n, [{ typ := .voteResp, frm := n.id, to := m.frm, term := n.term, reject := true }])
  | .voteResp =>
    if n.role = .candidate ∧ m.frm ∈ n.voters then
      let p := poll n m.frm (!m.reject)
      if quorum p.1 = p.2 then (becomeLeader p.1, [])
      else if quorum p.1 = p.1.votes.length - p.2 then (becomeFollower p.1 p.1.term 0, [])
      else (p.1, [])
    else (n, [])
  | .app =>
    match n.role with
    | .candidate => (becomeFollower n m.term m.frm, [])
    | .follower => ({ n with lead := m.frm }, [])
    | .leader => (n, [])

def step (n : Node) (m : CMsg) (ok : Bool) : Node × List CMsg :=
  let p := termPhase n m ok
  if p.2 then (p.1, []) else dispatch p.1 m ok


/-- safety-relevant view -/
def view (n : Node) : NodeV :=
  { term := n.term, vote := n.vote,
    role := match n.role with | .follower => Role.follower | .candidate => Role.candidate | .leader => Role.leader,
    granted := granted n }

def conv (m : CMsg) : Option Msg :=
  match m.typ with
  | .vote => some (Msg.reqVote m.term m.frm)
  | .voteResp => some (Msg.voteResp m.term m.frm m.to (!m.reject))
  | _ => none

/-- local well-formedness of a node (an invariant of `step`, proved separately) -/
structure WF (n : Node) : Prop where
  keysNodup : (n.votes.map (·.1)).Nodup
  idPos : n.id ≠ 0

end Z.CStep
