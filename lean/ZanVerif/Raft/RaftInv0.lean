/-
Scratch prototype for C02/C01: election bookkeeping of the abstract raft.  Gives `fresh_of`: when a
candidate holds a quorum of votes in its term, nobody has been elected in that term yet.
-/
import ZanVerif.Raft.RaftAbs
import Batteries.Data.List.Perm
namespace Z.RaftAbs
open Z.LogMatch

theorem inter_of_card {α} [DecidableEq α] (u s t : List α) (hs : s.Nodup) (ht : t.Nodup)
    (hsu : ∀ x ∈ s, x ∈ u) (htu : ∀ x ∈ t, x ∈ u) (h : u.length < s.length + t.length) :
    ∃ x, x ∈ s ∧ x ∈ t := by
  apply Classical.byContradiction; intro hne
  simp only [not_exists, not_and] at hne
  have hd : (s ++ t).Nodup := by
    rw [List.nodup_append]; exact ⟨hs, ht, fun a ha b hb hab => hne a ha (hab ▸ hb)⟩
  have hsub : (s ++ t).Subperm u := by
    apply List.subperm_of_subset hd
    intro x hx; rcases List.mem_append.mp hx with h | h
    · exact hsu x h
    · exact htu x h
  have := hsub.length_le
  simp at this; omega

theorem quorum_inter {vs Q1 Q2 : List Nat} (h1 : IsQuorum vs Q1) (h2 : IsQuorum vs Q2) :
    ∃ x, x ∈ Q1 ∧ x ∈ Q2 := by
  apply inter_of_card vs Q1 Q2 h1.1 h2.1 h1.2.1 h2.2.1
  have a := h1.2.2; have b := h2.2.2
  unfold quorum at a b; omega

structure Inv0 (vs : List Nat) (s : St) : Prop where
  votedFun : ∀ q t c c', (q, t, c) ∈ s.voted → (q, t, c') ∈ s.voted → c = c'
  selfVote : ∀ q t c, (q, t, c) ∈ s.voted → (q, t) ∉ s.camp
  elScamp : ∀ c t, (c, t) ∈ s.elected → (c, t) ∈ s.scamp
  electedQ : ∀ c t, (c, t) ∈ s.elected → ∃ Q, IsQuorum vs Q ∧ ∀ q ∈ Q, q = c ∨ (q, t, c) ∈ s.svoted
  candNE : ∀ c, s.role c = Role.candidate → (c, s.term c) ∉ s.elected

/-- durable bookkeeping: the durable term is behind the volatile one, everything that left a node
    carries a term ≤ its durable term, and what left is part of what was computed -/
structure InvD1 (s : St) : Prop where
  dtermLe : ∀ q, s.dterm q ≤ s.term q
  scampOk : ∀ c t, (c, t) ∈ s.scamp → t ≤ s.dterm c
  svotedOk : ∀ q t c, (q, t, c) ∈ s.svoted → t ≤ s.dterm q
  sackOk : ∀ q t k, (q, t, k) ∈ s.sacks → t ≤ s.dterm q
  scSub : ∀ x ∈ s.scamp, x ∈ s.camp
  svSub : ∀ x ∈ s.svoted, x ∈ s.voted
  saSub : ∀ x ∈ s.sacks, x ∈ s.acks

/-- **Election Safety** in the form the log layer needs -/
theorem fresh_of {vs : List Nat} {s : St} (i0 : Inv0 vs s) (d1 : InvD1 s) {c t : Nat} {Q : List Nat}
    (hr : s.role c = Role.candidate) (ht : s.term c = t) (hcamp : (c, t) ∈ s.camp)
    (hQ : IsQuorum vs Q) (hv : ∀ q ∈ Q, q = c ∨ (q, t, c) ∈ s.svoted) : ∀ c', (c', t) ∉ s.elected := by
  intro c' hel
  have hne : (c, t) ∉ s.elected := by rw [← ht]; exact i0.candNE c hr
  obtain ⟨Q', hQ', hv'⟩ := i0.electedQ c' t hel
  obtain ⟨x, hx, hx'⟩ := quorum_inter hQ hQ'
  rcases hv x hx with e | h1 <;> rcases hv' x hx' with e' | h2
  · subst e; subst e'; exact hne hel
  · subst e; exact i0.selfVote x t c' (d1.svSub _ h2) hcamp
  · subst e'; exact i0.selfVote x t c (d1.svSub _ h1) (d1.scSub _ (i0.elScamp x t hel))
  · have := i0.votedFun x t c c' (d1.svSub _ h1) (d1.svSub _ h2)
    subst this; exact hne hel

end Z.RaftAbs
