/-
Scratch prototype: election safety for ANY system whose nodes obey a relational local spec.
(1) LocalSpec: constraints on one node transition (pre-view, consumed message, post-view, outputs)
(2) global invariants preserved by any transition whose acting node obeys LocalSpec
The executable raft `step` is then tied in by a purely local lemma (see CSat.lean).
-/
namespace Z.GElect

inductive Role | follower | candidate | leader
  deriving DecidableEq, Repr

inductive Msg
  | reqVote (term cand : Nat)
  | voteResp (term frm to : Nat) (granted : Bool)
  deriving DecidableEq, Repr

/-- safety-relevant view of a node -/
structure NodeV where
  term : Nat
  vote : Nat               -- 0 = none
  role : Role
  granted : List Nat       -- meaningful while candidate
  deriving Repr

def quorum (n : Nat) : Nat := n / 2 + 1

/-- why `q` may be counted as a grant for candidate `i` in the post state -/
def Justified (vs : List Nat) (i : Nat) (n : NodeV) (inp : Option Msg) (n' : NodeV) (q : Nat) : Prop :=
  (q = i ∧ n'.vote = i ∧ i ∈ vs) ∨
  (n'.term = n.term ∧ n.role = Role.candidate ∧ q ∈ n.granted) ∨
  (q ∈ vs ∧ inp = some (Msg.voteResp n'.term q i true))

structure LocalSpec (vs : List Nat) (i : Nat) (n : NodeV) (inp : Option Msg) (n' : NodeV) (outs : List Msg) : Prop where
  termMono   : n.term ≤ n'.term
  voteStable : n'.term = n.term → n.vote ≠ 0 → n'.vote = n.vote
  respOwn    : ∀ t j c g, Msg.voteResp t j c g ∈ outs → j = i
  respGrant  : ∀ t c, Msg.voteResp t i c true ∈ outs → t = n'.term ∧ n'.vote = c ∧ c ≠ 0
  candJust   : n'.role = Role.candidate → ∀ q ∈ n'.granted, Justified vs i n inp n' q
  candNodup  : n'.role = Role.candidate → n'.granted.Nodup
  leaderJust : n'.role = Role.leader → n.role ≠ Role.leader →
      ∃ G : List Nat, G.Nodup ∧ quorum vs.length ≤ G.length ∧ ∀ q ∈ G, Justified vs i n inp n' q

structure Sys where
  node    : Nat → NodeV
  msgs    : List Msg
  voted   : List (Nat × Nat × Nat)    -- ghost (voter, term, candidate)
  elected : List (Nat × Nat)          -- ghost (leader, term)

/-- one transition of the system: node `i` acts, possibly consuming a message of the history
    (any message, any number of times: reordering, duplication; never consumed = loss),
    or restarts / ticks (inp = none). -/
structure TransAt (vs : List Nat) (s s' : Sys) (i : Nat) (inp : Option Msg) (outs : List Msg) : Prop where
  inpIn : ∀ m, inp = some m → m ∈ s.msgs
  frame : ∀ j, j ≠ i → s'.node j = s.node j
  spec : LocalSpec vs i (s.node i) inp (s'.node i) outs
  msgsEq : s'.msgs = outs ++ s.msgs
  votedEq : s'.voted =
    (if (s'.node i).vote ≠ 0 ∧ ((s'.node i).term ≠ (s.node i).term ∨ (s'.node i).vote ≠ (s.node i).vote)
     then [(i, (s'.node i).term, (s'.node i).vote)] else []) ++ s.voted
  electedEq : s'.elected =
    (if (s'.node i).role = Role.leader ∧ (s.node i).role ≠ Role.leader then [(i, (s'.node i).term)] else []) ++ s.elected

def Trans (vs : List Nat) (s s' : Sys) : Prop := ∃ i inp outs, TransAt vs s s' i inp outs

structure Inv (vs : List Nat) (s : Sys) : Prop where
  votedBind : ∀ j t c, (j, t, c) ∈ s.voted → t ≤ (s.node j).term ∧ ((s.node j).term = t → (s.node j).vote = c)
  votedPos  : ∀ j t c, (j, t, c) ∈ s.voted → c ≠ 0
  votedFun  : ∀ j t c c', (j, t, c) ∈ s.voted → (j, t, c') ∈ s.voted → c = c'
  voteRec   : ∀ j, (s.node j).vote ≠ 0 → (j, (s.node j).term, (s.node j).vote) ∈ s.voted
  respVoted : ∀ t j c, Msg.voteResp t j c true ∈ s.msgs → (j, t, c) ∈ s.voted
  grantedOk : ∀ c, (s.node c).role = Role.candidate → ∀ j ∈ (s.node c).granted, j ∈ vs ∧ (j, (s.node c).term, c) ∈ s.voted
  electedQ  : ∀ c t, (c, t) ∈ s.elected →
      ∃ S : List Nat, S.Nodup ∧ (∀ j ∈ S, j ∈ vs ∧ (j, t, c) ∈ s.voted) ∧ quorum vs.length ≤ S.length


theorem voted_mono {vs s s' i inp outs} (tr : TransAt vs s s' i inp outs) {x} (h : x ∈ s.voted) : x ∈ s'.voted := by
  rw [tr.votedEq]; exact List.mem_append_right _ h

/-- a justified grant is backed by a recorded vote in the post state -/
theorem justified_voted {vs s s' i inp outs} (inv : Inv vs s) (tr : TransAt vs s s' i inp outs)
    (vr' : ∀ j, (s'.node j).vote ≠ 0 → (j, (s'.node j).term, (s'.node j).vote) ∈ s'.voted)
    (hi0 : i ≠ 0) {q} (hj : Justified vs i (s.node i) inp (s'.node i) q) :
    q ∈ vs ∧ (q, (s'.node i).term, i) ∈ s'.voted := by
  rcases hj with ⟨rfl, hv, hin⟩ | ⟨ht, hr, hq⟩ | ⟨hq, hinp⟩
  · refine ⟨hin, ?_⟩
    have := vr' q (by rw [hv]; exact hi0)
    rwa [hv] at this
  · have := inv.grantedOk i hr q hq
    exact ⟨this.1, voted_mono tr (ht ▸ this.2)⟩
  · exact ⟨hq, voted_mono tr (inv.respVoted _ _ _ (tr.inpIn _ hinp))⟩

theorem inv_step (vs : List Nat) (h0 : 0 ∉ vs) {s s' : Sys} (inv : Inv vs s) (tr : Trans vs s s') : Inv vs s' := by
  obtain ⟨i, inp, outs, tr⟩ := tr
  have sp := tr.spec
  -- membership in the new ghost list
  have hvoted : ∀ x, x ∈ s'.voted → x ∈ s.voted ∨
      (x = (i, (s'.node i).term, (s'.node i).vote) ∧ (s'.node i).vote ≠ 0 ∧
        ((s'.node i).term ≠ (s.node i).term ∨ (s'.node i).vote ≠ (s.node i).vote)) := by
    intro x hx
    rw [tr.votedEq] at hx
    rcases List.mem_append.mp hx with hx | hx
    · split at hx
      · rename_i hc
        simp only [List.mem_singleton] at hx
        exact Or.inr ⟨hx, hc.1, hc.2⟩
      · cases hx
    · exact Or.inl hx
  -- old records of the acting node keep binding it
  have bindOld : ∀ t c, (i, t, c) ∈ s.voted → t ≤ (s'.node i).term ∧ ((s'.node i).term = t → (s'.node i).vote = c) := by
    intro t c h
    have hb := inv.votedBind i t c h
    have hp := inv.votedPos i t c h
    refine ⟨Nat.le_trans hb.1 sp.termMono, fun e => ?_⟩
    have e1 : (s.node i).term = t := by have := sp.termMono; omega
    have e2 := hb.2 e1
    have := sp.voteStable (by omega) (by rw [e2]; exact hp)
    rw [this, e2]
  have vr' : ∀ j, (s'.node j).vote ≠ 0 → (j, (s'.node j).term, (s'.node j).vote) ∈ s'.voted := by
    intro j hj
    by_cases hji : j = i
    · subst hji
      by_cases hc : (s'.node j).term ≠ (s.node j).term ∨ (s'.node j).vote ≠ (s.node j).vote
      · rw [tr.votedEq]; simp [hj, hc]
      · have hc' : (s'.node j).term = (s.node j).term ∧ (s'.node j).vote = (s.node j).vote := by
          constructor
          · exact Classical.byContradiction fun h => hc (Or.inl h)
          · exact Classical.byContradiction fun h => hc (Or.inr h)
        rw [hc'.1, hc'.2]
        exact voted_mono tr (inv.voteRec j (by rw [← hc'.2]; exact hj))
    · rw [tr.frame j hji] at hj ⊢
      exact voted_mono tr (inv.voteRec j hj)
  constructor
  · -- votedBind
    intro j t c hm
    rcases hvoted _ hm with hm | ⟨he, _, _⟩
    · by_cases hji : j = i
      · subst hji; exact bindOld t c hm
      · rw [tr.frame j hji]; exact inv.votedBind j t c hm
    · simp only [Prod.mk.injEq] at he
      obtain ⟨rfl, rfl, rfl⟩ := he
      exact ⟨Nat.le_refl _, fun _ => rfl⟩
  · -- votedPos
    intro j t c hm
    rcases hvoted _ hm with hm | ⟨he, hne, _⟩
    · exact inv.votedPos j t c hm
    · simp only [Prod.mk.injEq] at he
      obtain ⟨_, _, rfl⟩ := he
      exact hne
  · -- votedFun
    intro j t c c' h1 h2
    rcases hvoted _ h1 with h1 | ⟨he1, _, _⟩ <;> rcases hvoted _ h2 with h2 | ⟨he2, _, _⟩
    · exact inv.votedFun j t c c' h1 h2
    · simp only [Prod.mk.injEq] at he2
      obtain ⟨rfl, rfl, rfl⟩ := he2
      exact ((bindOld _ c h1).2 rfl).symm
    · simp only [Prod.mk.injEq] at he1
      obtain ⟨rfl, rfl, rfl⟩ := he1
      exact (bindOld _ c' h2).2 rfl
    · simp only [Prod.mk.injEq] at he1 he2
      rw [he1.2.2, he2.2.2]
  · exact vr'
  · -- respVoted
    intro t j c hm
    rw [tr.msgsEq] at hm
    rcases List.mem_append.mp hm with hm | hm
    · have hj := sp.respOwn t j c true hm
      subst hj
      obtain ⟨rfl, hv, hc0⟩ := sp.respGrant t c hm
      have := vr' j (by rw [hv]; exact hc0)
      rwa [hv] at this
    · exact voted_mono tr (inv.respVoted t j c hm)
  · -- grantedOk
    intro c hr j hj
    by_cases hci : c = i
    · subst hci
      have hi0 : c ≠ 0 := by
        -- a candidate has at least ... not needed: derive from justification cases
        intro h; subst h
        rcases sp.candJust hr j hj with ⟨_, _, hin⟩ | ⟨ht, hr0, hq⟩ | ⟨_, hinp⟩
        · exact h0 hin
        · have := (inv.grantedOk 0 hr0 j hq).2
          exact inv.votedPos _ _ _ this rfl
        · have := inv.respVoted _ _ _ (tr.inpIn _ hinp)
          exact inv.votedPos _ _ _ this rfl
      exact justified_voted inv tr vr' hi0 (sp.candJust hr j hj)
    · rw [tr.frame c hci] at hr hj ⊢
      have := inv.grantedOk c hr j hj
      exact ⟨this.1, voted_mono tr this.2⟩
  · -- electedQ
    intro c t hm
    rw [tr.electedEq] at hm
    rcases List.mem_append.mp hm with hm | hm
    · split at hm
      · rename_i hc
        simp only [List.mem_singleton, Prod.mk.injEq] at hm
        obtain ⟨rfl, rfl⟩ := hm
        obtain ⟨G, hGn, hGq, hGj⟩ := sp.leaderJust hc.1 hc.2
        have hGne : G ≠ [] := by
          intro h; subst h; simp [quorum] at hGq
        have hi0 : c ≠ 0 := by
          intro h; subst h
          obtain ⟨q, hq⟩ := List.exists_mem_of_ne_nil G hGne
          rcases hGj q hq with ⟨_, _, hin⟩ | ⟨ht, hr0, hq'⟩ | ⟨_, hinp⟩
          · exact h0 hin
          · have := (inv.grantedOk 0 hr0 q hq').2
            exact inv.votedPos _ _ _ this rfl
          · have := inv.respVoted _ _ _ (tr.inpIn _ hinp)
            exact inv.votedPos _ _ _ this rfl
        exact ⟨G, hGn, fun q hq => justified_voted inv tr vr' hi0 (hGj q hq), hGq⟩
      · cases hm
    · obtain ⟨S, hS, hS2, hS3⟩ := inv.electedQ c t hm
      exact ⟨S, hS, fun j hj => ⟨(hS2 j hj).1, voted_mono tr (hS2 j hj).2⟩, hS3⟩

end Z.GElect
