/-
Scratch prototype for C03: every step of the abstract raft with crashes only extends the durable /
externalised ghost state (`Ext`).
-/
import ZanVerif.Raft.RaftGhost
import ZanVerif.Raft.RaftInv0Step
namespace Z.RaftAbs
open Z.LogMatch

theorem Ext.of_same {s s' : St} (h1 : s'.tlog = s.tlog) (h2 : s'.elected = s.elected)
    (h3 : s'.acks = s.acks) (h4 : s'.dterm = s.dterm) (h5 : s'.sacks = s.sacks) : Ext s s' := by
  refine ⟨fun u => ⟨[], by simp [h1], fun _ e he => by cases he⟩, ?_, ?_, ?_, ?_⟩
  · intro u ⟨c, h⟩; exact ⟨c, by rw [h2]; exact h⟩
  · intro q; rw [h4]; exact Nat.le_refl _
  · intro x hx; rw [h5]; exact hx
  · intro q t k h; rw [h3] at h; exact Or.inl h

variable (vs : List Nat)

theorem step_ext {s s' : St} (i0 : Inv0 vs s) (d1 : InvD1 s) (i1 : Inv1 s) (i2 : Inv2 s)
    (st : Step vs s s') : Ext s s' := by
  cases st with
  | campaign c t ht => exact Ext.of_same rfl rfl rfl rfl rfl
  | grant q t c hc ht hq hup hvote hself => exact Ext.of_same rfl rfl rfl rfl rfl
  | becomeLeader c t Q hr ht hsc hQ hv =>
    have fresh := fresh_of i0 d1 hr ht (ht ▸ (i1.candOk c hr).1) hQ hv
    have hne : ¬ isElected s t := fun ⟨c', h⟩ => fresh c' h
    refine ⟨?_, ?_, fun _ => Nat.le_refl _, fun _ h => h, ?_⟩
    · intro u
      dsimp only
      by_cases hu : u = t
      · subst hu
        exact ⟨s.log c ++ [⟨u, 0⟩], by simp [i2.tlogEmpty u hne], fun h => absurd h hne⟩
      · exact ⟨[], by simp [upd_other _ _ _ _ hu], fun _ e he => by cases he⟩
    · intro u ⟨c', h⟩; exact ⟨c', List.mem_cons_of_mem _ h⟩
    · intro q t' k h
      dsimp only at h
      rcases List.mem_cons.mp h with e | h
      · cases e; exact Or.inr (by omega)
      · exact Or.inl h
  | propose c d hr =>
    refine ⟨?_, fun _ h => h, fun _ => Nat.le_refl _, fun _ h => h, ?_⟩
    · intro u
      dsimp only
      by_cases hu : u = s.term c
      · subst hu
        refine ⟨[⟨s.term c, d⟩], by simp [i1.leadLog c hr], ?_⟩
        intro _ e he; simp at he; subst he; rfl
      · exact ⟨[], by simp [upd_other _ _ _ _ hu], fun _ e he => by cases he⟩
    · intro q t' k h
      dsimp only at h
      rcases List.mem_cons.mp h with e | h
      · cases e; exact Or.inr (Nat.le_refl _)
      · exact Or.inl h
  | sendApp c prev n cm hr hb hcm => exact Ext.of_same rfl rfl rfl rfl rfl
  | recvApp q m hm ht hnl hprev hmatch =>
    refine ⟨fun u => ⟨[], by simp, fun _ e he => by cases he⟩, fun _ h => h,
      fun _ => Nat.le_refl _, fun _ h => h, ?_⟩
    intro q' t' k h
    dsimp only at h
    rcases List.mem_cons.mp h with e | h
    · cases e; exact Or.inr ht
    · exact Or.inl h
  | ackStale q m hm ht hnl hlt =>
    refine ⟨fun u => ⟨[], by simp, fun _ e he => by cases he⟩, fun _ h => h,
      fun _ => Nat.le_refl _, fun _ h => h, ?_⟩
    intro q' t' k h
    dsimp only at h
    rcases List.mem_cons.mp h with e | h
    · cases e; exact Or.inr ht
    · exact Or.inl h
  | restore q m hm ht hnl hn hc hgt hno =>
    refine ⟨fun u => ⟨[], by simp, fun _ e he => by cases he⟩, fun _ h => h,
      fun _ => Nat.le_refl _, fun _ h => h, ?_⟩
    intro q' t' k h
    dsimp only at h
    rcases List.mem_cons.mp h with e | h
    · cases e; exact Or.inr ht
    · exact Or.inl h
  | sendHb c q cm k hr hcm hk hcmk => exact Ext.of_same rfl rfl rfl rfl rfl
  | recvHb q h hh hto ht hnl => exact Ext.of_same rfl rfl rfl rfl rfl
  | commitLeader c k Q hr hk1 hk hterm hQ hack => exact Ext.of_same rfl rfl rfl rfl rfl
  | bump j t ht => exact Ext.of_same rfl rfl rfl rfl rfl
  | restart j => exact Ext.of_same rfl rfl rfl rfl rfl
  | flush j =>
    refine ⟨fun u => ⟨[], by simp, fun _ e he => by cases he⟩, fun _ h => h,
      le_upd s.dterm j (s.term j) (d1.dtermLe j), fun _ h => List.mem_append_right _ h,
      fun _ _ _ h => Or.inl h⟩
  | crash j =>
    refine ⟨fun u => ⟨[], by simp, fun _ e he => by cases he⟩, fun _ h => h,
      fun _ => Nat.le_refl _, fun _ h => h, fun _ _ _ h => Or.inl (List.mem_filter.mp h).1⟩

end Z.RaftAbs
