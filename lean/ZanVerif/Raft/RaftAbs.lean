/-
Scratch prototype for C02: abstract raft (fixed voters) with ghost leader logs, acks, vote records.
Explicit actions; any interleaving; messages form a monotone history (delay, reorder, duplicate, lose).
Elections: a node grants at most one vote per term and a candidate votes for itself; a candidate that
holds a quorum of recorded votes becomes leader.  That no other leader exists in that term is proved
(RaftInv0), not assumed.
-/
import ZanVerif.Raft.LogMatch
import ZanVerif.Raft.UpToDate
import ZanVerif.Raft.KeepOrLack
namespace Z.RaftAbs
open Z.LogMatch

inductive Role | follower | candidate | leader
  deriving DecidableEq, Repr

structure AppMsg where
  term : Nat
  prev : Nat
  n : Nat
  ents : List Entry
  commit : Nat
  deriving DecidableEq

/-- heartbeat: carries only a commit index, min(leader commit, what `to` has confirmed) -/
structure Hb where
  term : Nat
  to : Nat
  commit : Nat
  deriving DecidableEq

structure St where
  term    : Nat → Nat
  role    : Nat → Role
  log     : Nat → Log
  commit  : Nat → Nat
  msgs    : List AppMsg
  hbs     : List Hb
  -- ghost
  tlog    : Nat → Log                  -- log of the leader of each term
  elected : List (Nat × Nat)           -- (leader, term)
  camp    : List (Nat × Nat)           -- (candidate, term)
  candLog : Nat × Nat → Log            -- candidate's log when it started campaigning
  voted   : List (Nat × Nat × Nat)     -- (voter, term, candidate)
  acks    : List (Nat × Nat × Nat)     -- (node, term, index): node confirmed prefix(term, index)
  -- durable copies (what the storage object holds) and the externalised part of the ghost sets
  dterm   : Nat → Nat
  dlog    : Nat → Log
  dcommit : Nat → Nat
  scamp   : List (Nat × Nat)           -- campaigns whose vote requests left the node
  svoted  : List (Nat × Nat × Nat)     -- votes whose responses left the node
  sacks   : List (Nat × Nat × Nat)     -- acks whose responses left the node

def upd {α} (f : Nat → α) (i : Nat) (v : α) : Nat → α := fun j => if j = i then v else f j
def updP {α} (f : Nat × Nat → α) (i : Nat × Nat) (v : α) : Nat × Nat → α := fun j => if j = i then v else f j

@[simp] theorem upd_same {α} (f : Nat → α) (i : Nat) (v : α) : upd f i v i = v := by simp [upd]
theorem upd_other {α} (f : Nat → α) (i j : Nat) (v : α) (h : j ≠ i) : upd f i v j = f j := by simp [upd, h]

def quorum (n : Nat) : Nat := n / 2 + 1

def IsQuorum (vs Q : List Nat) : Prop := Q.Nodup ∧ (∀ q ∈ Q, q ∈ vs) ∧ quorum vs.length ≤ Q.length

/-- raft's isUpToDate(candidate log, voter log) -/
def UpToDate (cand q : Log) : Prop :=
  lastTerm q < lastTerm cand ∨ (lastTerm cand = lastTerm q ∧ q.length ≤ cand.length)

def isElected (s : St) (t : Nat) : Prop := ∃ c, (c, t) ∈ s.elected

/-- node q has confirmed prefix(t, k) (downward closed in k) -/
def acked (s : St) (q t k : Nat) : Prop := ∃ k', k ≤ k' ∧ (q, t, k') ∈ s.acks
/-- the same, for acks that have left the node (all the leader can know about) -/
def sacked (s : St) (q t k : Nat) : Prop := ∃ k', k ≤ k' ∧ (q, t, k') ∈ s.sacks

variable (vs : List Nat)

inductive Step : St → St → Prop
  /-- start campaigning in a higher term -/
  | campaign (s : St) (c t : Nat) (ht : s.term c < t) :
      Step s { s with
        term := upd s.term c t
        role := upd s.role c Role.candidate
        camp := (c, t) :: s.camp
        candLog := updP s.candLog (c, t) (s.log c) }
  /-- grant a vote: the request carries the candidate's (fixed) log summary -/
  | grant (s : St) (q t c : Nat) (hc : (c, t) ∈ s.scamp) (ht : s.term q ≤ t) (hq : q ≠ c)
      (hup : UpToDate (s.candLog (c, t)) (s.log q))
      (hvote : ∀ c', (q, t, c') ∈ s.voted → c' = c)      -- at most one vote per term (persisted Vote)
      (hself : (q, t) ∉ s.camp) :                         -- a candidate of term t voted for itself
      Step s { s with
        term := upd s.term q t
        role := if s.term q < t then upd s.role q Role.follower else s.role
        voted := (q, t, c) :: s.voted }
  /-- win: the campaign was flushed and a quorum of *sent* votes exists; append the no-op entry -/
  | becomeLeader (s : St) (c t : Nat) (Q : List Nat) (hr : s.role c = Role.candidate) (ht : s.term c = t)
      (hsc : (c, t) ∈ s.scamp)
      (hQ : IsQuorum vs Q) (hv : ∀ q ∈ Q, q = c ∨ (q, t, c) ∈ s.svoted) :
      Step s { s with
        role := upd s.role c Role.leader
        log := upd s.log c (s.log c ++ [⟨t, 0⟩])
        tlog := upd s.tlog t (s.log c ++ [⟨t, 0⟩])
        elected := (c, t) :: s.elected
        acks := (c, t, (s.log c).length + 1) :: s.acks }
  /-- leader appends a client entry -/
  | propose (s : St) (c d : Nat) (hr : s.role c = Role.leader) :
      Step s { s with
        log := upd s.log c (s.log c ++ [⟨s.term c, d⟩])
        tlog := upd s.tlog (s.term c) (s.log c ++ [⟨s.term c, d⟩])
        acks := (c, s.term c, (s.log c).length + 1) :: s.acks }
  /-- leader sends entries prev+1 .. prev+n and a commit index not above its own (any stale value) -/
  | sendApp (s : St) (c prev n cm : Nat) (hr : s.role c = Role.leader) (hb : prev + n ≤ (s.log c).length)
      (hcm : cm ≤ s.commit c) :
      Step s { s with
        msgs := ⟨s.term c, prev, n, ((s.log c).drop prev).take n, cm⟩ :: s.msgs }
  /-- follower accepts an append that matches at prev (handleAppendEntries + maybeAppend), acks it,
      and advances its commit to min(m.commit, last new index) -/
  | recvApp (s : St) (q : Nat) (m : AppMsg) (hm : m ∈ s.msgs) (ht : s.term q ≤ m.term)
      (hnl : s.role q = Role.leader → s.term q < m.term)
      (hprev : m.prev ≤ (s.log q).length)
      (hmatch : termAt (s.log q) m.prev = termAt (s.tlog m.term) m.prev) :
      Step s { s with
        term := upd s.term q m.term
        role := upd s.role q Role.follower
        log := upd s.log q (maybeAppend (s.log q) m.prev m.ents)
        commit := upd s.commit q (max (s.commit q) (min m.commit (m.prev + m.n)))
        acks := (q, m.term, m.prev + m.n) :: s.acks }
  /-- follower answers an append that lies below its commit index by confirming its commit index
      (handleAppendEntries: `m.Index < committed` -> MsgAppResp{Index: committed}) -/
  | ackStale (s : St) (q : Nat) (m : AppMsg) (hm : m ∈ s.msgs) (ht : s.term q ≤ m.term)
      (hnl : s.role q = Role.leader → s.term q < m.term) (hlt : m.prev < s.commit q) :
      Step s { s with
        term := upd s.term q m.term
        role := upd s.role q Role.follower
        acks := (q, m.term, s.commit q) :: s.acks }
  /-- follower installs a snapshot: a snapshot at index i is sent as the message (prev = i, no
      entries, commit = i) by `sendApp`; when it is at or below the commit index or matches the log
      the existing steps `ackStale` / `recvApp` describe what `restore` does (ignore / fast-forward
      commit); otherwise the log is replaced by the snapshot, i.e. by the leader's prefix -/
  | restore (s : St) (q : Nat) (m : AppMsg) (hm : m ∈ s.msgs) (ht : s.term q ≤ m.term)
      (hnl : s.role q = Role.leader → s.term q < m.term)
      (hn : m.n = 0) (hc : m.commit = m.prev) (hgt : s.commit q < m.prev)
      (hno : ¬ (m.prev ≤ (s.log q).length ∧ termAt (s.log q) m.prev = termAt (s.tlog m.term) m.prev)) :
      Step s { s with
        term := upd s.term q m.term
        role := upd s.role q Role.follower
        log := upd s.log q ((s.tlog m.term).take m.prev)
        commit := upd s.commit q m.prev
        acks := (q, m.term, m.prev) :: s.acks }
  /-- leader sends a heartbeat with commit = min(its commit, what q confirmed in this term) -/
  | sendHb (s : St) (c q cm k : Nat) (hr : s.role c = Role.leader) (hcm : cm ≤ s.commit c)
      (hk : sacked s q (s.term c) k) (hcmk : cm ≤ k) :
      Step s { s with hbs := ⟨s.term c, q, cm⟩ :: s.hbs }
  /-- follower takes the commit index of a heartbeat without looking at its log (handleHeartbeat) -/
  | recvHb (s : St) (q : Nat) (h : Hb) (hh : h ∈ s.hbs) (hto : h.to = q) (ht : s.term q ≤ h.term)
      (hnl : s.role q = Role.leader → s.term q < h.term) :
      Step s { s with
        term := upd s.term q h.term
        role := upd s.role q Role.follower
        commit := upd s.commit q (max (s.commit q) h.commit) }
  /-- leader commits an index of its own term that a quorum has confirmed -/
  | commitLeader (s : St) (c k : Nat) (Q : List Nat) (hr : s.role c = Role.leader)
      (hk1 : 1 ≤ k) (hk : k ≤ (s.log c).length)
      (hterm : ((s.log c)[k - 1]'(by omega)).term = s.term c)
      (hQ : IsQuorum vs Q) (hack : ∀ q ∈ Q, sacked s q (s.term c) k) :
      Step s { s with commit := upd s.commit c (max (s.commit c) k) }
  /-- any message with a higher term -/
  | bump (s : St) (j t : Nat) (ht : s.term j < t) :
      Step s { s with
        term := upd s.term j t
        role := upd s.role j Role.follower }
  | restart (s : St) (j : Nat) :
      Step s { s with role := upd s.role j Role.follower }
  /-- persist, then send: the node's volatile term/log/commit become durable and every response
      and vote request it has computed leaves -/
  | flush (s : St) (j : Nat) :
      Step s { s with
        dterm := upd s.dterm j (s.term j)
        dlog := upd s.dlog j (s.log j)
        dcommit := upd s.dcommit j (s.commit j)
        scamp := s.camp.filter (fun x => x.1 = j) ++ s.scamp
        svoted := s.voted.filter (fun x => x.1 = j) ++ s.svoted
        sacks := s.acks.filter (fun x => x.1 = j) ++ s.sacks }
  /-- crash and restart from storage: volatile state is replaced by the durable copy; what the node
      had computed but not sent is forgotten (by everybody: it never left) -/
  | crash (s : St) (j : Nat) :
      Step s { s with
        term := upd s.term j (s.dterm j)
        role := upd s.role j Role.follower
        log := upd s.log j (s.dlog j)
        commit := upd s.commit j (s.dcommit j)
        camp := s.camp.filter (fun x => decide (x.1 ≠ j) || decide (x ∈ s.scamp))
        voted := s.voted.filter (fun x => decide (x.1 ≠ j) || decide (x ∈ s.svoted))
        acks := s.acks.filter (fun x => decide (x.1 ≠ j) || decide (x ∈ s.sacks)) }

/-- the initial state: everybody a follower in term 0 with an empty log, nothing sent or recorded
    (lives here, in the core-only part, because the executable checker `ExecCore.run` starts from it) -/
def init : St where
  term := fun _ => 0
  role := fun _ => Role.follower
  log := fun _ => []
  commit := fun _ => 0
  msgs := []
  hbs := []
  tlog := fun _ => []
  elected := []
  camp := []
  candLog := fun _ => []
  voted := []
  acks := []
  dterm := fun _ => 0
  dlog := fun _ => []
  dcommit := fun _ => 0
  scamp := []
  svoted := []
  sacks := []

end Z.RaftAbs
