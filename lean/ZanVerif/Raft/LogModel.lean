/-
  Executable model of the raft LOG layer of this fork, function by function:
    raft/storage.go       MemoryStorage  ↦ `Storage`   (snapshot meta + `ents` with the dummy first entry)
    raft/log_unstable.go  unstable       ↦ `Unstable`
    raft/log.go           raftLog        ↦ `RaftLog`
    raft/util.go          limitSize, raftpb Entry.Size ↦ `limitSize`, `Entry.size`
  (raft/node.go's newReady / appliedCursor / StepNode / Advance bookkeeping: LogNode.lean;
   raft/rocksdb_storage.go's index bookkeeping: RocksModel.lean; lemmas: LogLemmas.lean, LogNodeLemmas.lean,
   RocksLemmas.lean; property theorems: ZanVerif/Props/C02Log.lean)
  Every Go panic is an explicit `Res.panic` outcome, every `ErrCompacted / ErrUnavailable /
  ErrSnapOutOfDate` an explicit `Res.err` outcome; nothing is defaulted.  Indexes and terms are `Nat`
  (Go: uint64).  The three places where Go's unsigned subtraction can wrap are modelled explicitly:
    * `raftLog.append`: `after := ents[0].Index - 1` wraps to MaxUint64 for Index = 0 (then `after <
      committed` is false);
    * `raftLog.maybeAppend`: `ents[ci-offset:]` with ci < offset (or > len) is a Go slice-bounds panic;
    * `MemoryStorage.Append`: `offset := entries[0].Index - ms.ents[0].Index` wraps when the (truncated)
      first entry carries an index field below the dummy's (then the `default:` branch panics), and
      `MemoryStorage.CreateSnapshot`: `ms.ents[i-offset]` with i < offset is an index-out-of-range panic;
    * `raftLog.mustCheckOutOfBounds`: `fi + (lastIndex+1-fi)` is `lastIndex+1` modulo 2^64 whatever fi is.
  Tied to the real code by the differential protocol `raftlog` (harness/cmd/zvh/proto_raftlog.go,
  lean/Driver/RaftLog.lean).  Core only.
-/
namespace Z.LogModel

/-- raftpb.Entry as far as the log layer can see it: Index, Term, the payload identity (the harness
    puts it into `Entry.ID`) and the payload length (`len(Entry.Data)`; it only matters for `Size()`) -/
structure Entry where
  index : Nat
  term : Nat
  data : Nat
  dlen : Nat
  deriving DecidableEq, Repr, Inhabited

inductive Err where
  | compacted        -- ErrCompacted
  | unavailable      -- ErrUnavailable
  | snapOutOfDate    -- ErrSnapOutOfDate
  | notFound         -- errNotFound ("Unable to find raft entry"; RocksStorage only)
  | compactOob       -- "compact is out of bound lastindex" (RocksStorage.Compact returns it instead of panicking)
  deriving DecidableEq, Repr

inductive Panic where
  | tocommit      -- commitTo: "tocommit(%d) is out of range [lastIndex(%d)]..."
  | applied       -- appliedTo: "applied(%d) is out of range [prevApplied(%d), committed(%d)]"
  | conflict      -- maybeAppend: "entry %d conflict with committed entry [committed(%d)]"
  | after         -- append: "after(%d) is out of range [committed(%d)]"
  | sliceInv      -- raftLog.mustCheckOutOfBounds: "invalid slice %d > %d"
  | sliceOob      -- raftLog.mustCheckOutOfBounds: "slice[%d,%d) out of bound [%d,%d]"
  | usliceInv     -- unstable.mustCheckOutOfBounds: "invalid unstable.slice %d > %d"
  | usliceOob     -- unstable.mustCheckOutOfBounds: "unstable.slice[%d,%d) out of bound [%d,%d]"
  | unavailable   -- raftLog.slice: "entries[%d:%d) is unavailable from storage"
  | nextEntsErr   -- nextEnts: "unexpected error when getting unapplied entries (%v)"
  | lastTermErr   -- lastTerm: "unexpected error when getting the last term (%v)"
  | zeroTermErr   -- zeroTermOnErrCompacted: "unexpected error (%v)"
  | stHi          -- MemoryStorage.Entries: "entries' hi(%d) is out of bound lastindex(%d)"
  | stSnapOob     -- MemoryStorage.CreateSnapshot: "snapshot %d is out of bound lastindex(%d)"
  | stCompactOob  -- MemoryStorage.Compact: "compact %d is out of bound lastindex(%d)"
  | stMissing     -- MemoryStorage.Append: "missing log entry [last: %d, append at: %d]"
  | otherErr      -- `panic(err)` on an error other than ErrCompacted / ErrUnavailable
  | rtIndex       -- Go runtime error: index out of range
  | rtSlice       -- Go runtime error: slice bounds out of range
  deriving DecidableEq, Repr

/-- outcome of a Go call: a value, a returned error, or a panic -/
inductive Res (α : Type) where
  | ok (a : α)
  | err (e : Err)
  | panic (p : Panic)
  deriving Repr, DecidableEq

namespace Res
@[inline] def bind {α β : Type} : Res α → (α → Res β) → Res β
  | .ok a, f => f a
  | .err e, _ => .err e
  | .panic p, _ => .panic p
instance : Monad Res where
  pure := .ok
  bind := Res.bind
end Res

/-! ### raftpb: Entry.Size and util.go: limitSize -/

/-- `sovRaft`: number of bytes of the varint encoding = number of 7-bit groups of x (1 for x = 0) -/
def sov (x : Nat) : Nat := Nat.log2 x / 7 + 1

/-- `(*Entry).Size()` for an entry with Type = 0, DataType = 0, Timestamp = 0, ID = data and
    `dlen` payload bytes (nil payload when dlen = 0) -/
def Entry.size (e : Entry) : Nat :=
  (1 + sov 0) + (1 + sov e.term) + (1 + sov e.index) +
  (if e.dlen = 0 then 0 else 1 + e.dlen + sov e.dlen) +
  (1 + sov e.data) + (1 + sov 0) + (1 + sov 0)

/-- the loop of `limitSize` after the first entry: keep entries while the running size stays ≤ maxSize -/
def limitAux (maxSize : Nat) : Nat → List Entry → List Entry
  | _, [] => []
  | size, e :: es =>
    if size + e.size > maxSize then [] else e :: limitAux maxSize (size + e.size) es

/-- `limitSize(ents, maxSize)`: always keeps the first entry -/
def limitSize : List Entry → Nat → List Entry
  | [], _ => []
  | e :: es, maxSize => e :: limitAux maxSize e.size es

/-- `noLimit = math.MaxUint64` -/
def noLimit : Nat := 18446744073709551615

/-- Go `s[a:b]` on a list once the bounds were checked -/
def sub (l : List Entry) (a b : Nat) : List Entry := (l.drop a).take (b - a)

/-! ### MemoryStorage (raft/storage.go) -/

/-- `ms.snapshot.Metadata.{Index,Term}` and `ms.ents` = `dummy :: rest` (never empty in the Go code:
    every constructor and every method keeps the dummy entry) -/
structure Storage where
  snapIndex : Nat
  snapTerm : Nat
  dummy : Entry
  rest : List Entry
  deriving DecidableEq, Repr

namespace Storage

/-- `NewRealMemoryStorage`: `ents: make([]pb.Entry, 1)` -/
def new : Storage := ⟨0, 0, ⟨0, 0, 0, 0⟩, []⟩

/-- `ms.ents` -/
def all (s : Storage) : List Entry := s.dummy :: s.rest

def firstIndex (s : Storage) : Nat := s.dummy.index + 1
def lastIndex (s : Storage) : Nat := s.dummy.index + s.all.length - 1

def term (s : Storage) (i : Nat) : Res Nat :=
  let offset := s.dummy.index
  if i < offset then .err .compacted
  else if i - offset ≥ s.all.length then .err .unavailable
  else match s.all[i - offset]? with
    | some e => .ok e.term
    | none => .panic .rtIndex

def entries (s : Storage) (lo hi maxSize : Nat) : Res (List Entry) :=
  let offset := s.dummy.index
  if lo ≤ offset then .err .compacted
  else if hi > s.lastIndex + 1 then .panic .stHi
  else if s.all.length = 1 then .err .unavailable
  else if hi < lo then .panic .rtSlice          -- ms.ents[lo-offset : hi-offset]
  else .ok (limitSize (sub s.all (lo - offset) (hi - offset)) maxSize)

def applySnapshot (s : Storage) (index term : Nat) : Res Storage :=
  if s.snapIndex ≥ index then .err .snapOutOfDate
  else .ok ⟨index, term, ⟨index, term, 0, 0⟩, []⟩

/-- returns the storage and the snapshot's (index, term) -/
def createSnapshot (s : Storage) (i : Nat) : Res (Storage × Nat × Nat) :=
  if i ≤ s.snapIndex then .err .snapOutOfDate
  else
    let offset := s.dummy.index
    if i > s.lastIndex then .panic .stSnapOob
    else if i < offset then .panic .rtIndex        -- ms.ents[i-offset], i-offset wrapped
    else match s.all[i - offset]? with
      | some e => .ok ({ s with snapIndex := i, snapTerm := e.term }, i, e.term)
      | none => .panic .rtIndex

def compact (s : Storage) (compactIndex : Nat) : Res Storage :=
  let offset := s.dummy.index
  if compactIndex ≤ offset then .err .compacted
  else if compactIndex > s.lastIndex then .panic .stCompactOob
  else
    let i := compactIndex - offset
    match s.all[i]? with
    | some e => .ok { s with dummy := ⟨e.index, e.term, 0, 0⟩, rest := s.all.drop (i + 1) }
    | none => .panic .rtIndex

def append (s : Storage) (entries : List Entry) : Res Storage :=
  match entries with
  | [] => .ok s
  | e0 :: _ =>
    let first := s.firstIndex
    let last := e0.index + entries.length - 1
    if last < first then .ok s
    else
      -- truncate compacted entries
      let entries := if first > e0.index then entries.drop (first - e0.index) else entries
      match entries with
      | [] => .panic .rtIndex                       -- entries[0] (cannot happen: last ≥ first)
      | f0 :: _ =>
        if f0.index < s.dummy.index then .panic .stMissing      -- the subtraction wrapped: `default:`
        else
          let offset := f0.index - s.dummy.index
          if s.all.length > offset then
            -- ms.ents = append([]pb.Entry{}, ms.ents[:offset]...); ms.ents = append(ms.ents, entries...)
            match s.all.take offset ++ entries with
            | d :: r => .ok { s with dummy := d, rest := r }
            | [] => .panic .rtIndex                 -- (cannot happen: entries is not empty)
          else if s.all.length = offset then .ok { s with rest := s.rest ++ entries }
          else .panic .stMissing

end Storage

/-! ### unstable (raft/log_unstable.go) -/

structure Unstable where
  /-- `snapshot.Metadata.(Index, Term)` of the incoming unstable snapshot, if any -/
  snapshot : Option (Nat × Nat)
  entries : List Entry
  offset : Nat
  deriving DecidableEq, Repr

namespace Unstable

def maybeFirstIndex (u : Unstable) : Option Nat :=
  match u.snapshot with
  | some (i, _) => some (i + 1)
  | none => none

def maybeLastIndex (u : Unstable) : Option Nat :=
  if u.entries.length ≠ 0 then some (u.offset + u.entries.length - 1)
  else match u.snapshot with
    | some (i, _) => some i
    | none => none

def maybeTerm (u : Unstable) (i : Nat) : Res (Option Nat) :=
  if i < u.offset then
    match u.snapshot with
    | none => .ok none
    | some (si, st) => if si = i then .ok (some st) else .ok none
  else
    match u.maybeLastIndex with
    | none => .ok none
    | some last =>
      if i > last then .ok none
      else match u.entries[i - u.offset]? with
        | some e => .ok (some e.term)
        | none => .panic .rtIndex

def stableTo (u : Unstable) (i t : Nat) : Res Unstable :=
  match u.maybeTerm i with
  | .panic p => .panic p
  | .err e => .err e
  | .ok none => .ok u
  | .ok (some gt) =>
    if gt = t ∧ i ≥ u.offset then
      .ok { u with entries := u.entries.drop (i + 1 - u.offset), offset := i + 1 }
    else .ok u

def stableSnapTo (u : Unstable) (i : Nat) : Unstable :=
  match u.snapshot with
  | some (si, _) => if si = i then { u with snapshot := none } else u
  | none => u

def restore (_u : Unstable) (index term : Nat) : Unstable :=
  { offset := index + 1, entries := [], snapshot := some (index, term) }

def slice (u : Unstable) (lo hi : Nat) : Res (List Entry) :=
  if lo > hi then .panic .usliceInv
  else
    let upper := u.offset + u.entries.length
    if lo < u.offset ∨ hi > upper then .panic .usliceOob
    else .ok (sub u.entries (lo - u.offset) (hi - u.offset))

def truncateAndAppend (u : Unstable) (ents : List Entry) : Res Unstable :=
  match ents with
  | [] => .panic .rtIndex                           -- ents[0]
  | e0 :: _ =>
    let after := e0.index
    if after = u.offset + u.entries.length then
      .ok { u with entries := u.entries ++ ents }
    else if after ≤ u.offset then
      .ok { u with offset := after, entries := ents }
    else
      match u.slice u.offset after with
      | .ok pre => .ok { u with entries := pre ++ ents }
      | .err e => .err e
      | .panic p => .panic p

end Unstable

/-! ### raftLog (raft/log.go) -/

structure RaftLog where
  storage : Storage
  unstable : Unstable
  committed : Nat
  applied : Nat
  maxNextEntsSize : Nat
  deriving DecidableEq, Repr

namespace RaftLog

/-- `newLogWithSize(storage, logger, maxNextEntsSize)` -/
def newLog (storage : Storage) (maxNextEntsSize : Nat) : RaftLog :=
  let firstIndex := storage.firstIndex
  let lastIndex := storage.lastIndex
  { storage := storage, unstable := { snapshot := none, entries := [], offset := lastIndex + 1 },
    committed := firstIndex - 1, applied := firstIndex - 1, maxNextEntsSize := maxNextEntsSize }

def firstIndex (l : RaftLog) : Nat :=
  match l.unstable.maybeFirstIndex with
  | some i => i
  | none => l.storage.firstIndex

def lastIndex (l : RaftLog) : Nat :=
  match l.unstable.maybeLastIndex with
  | some i => i
  | none => l.storage.lastIndex

def term (l : RaftLog) (i : Nat) : Res Nat :=
  -- the valid term range is [index of dummy entry, last index]
  let dummyIndex := l.firstIndex - 1
  if i < dummyIndex ∨ i > l.lastIndex then .ok 0
  else match l.unstable.maybeTerm i with
    | .panic p => .panic p
    | .err e => .err e
    | .ok (some t) => .ok t
    | .ok none => l.storage.term i

def zeroTermOnErrCompacted (r : Res Nat) : Res Nat :=
  match r with
  | .ok t => .ok t
  | .err .compacted => .ok 0
  | .err _ => .panic .zeroTermErr
  | .panic p => .panic p

def lastTerm (l : RaftLog) : Res Nat :=
  match l.term l.lastIndex with
  | .ok t => .ok t
  | .err _ => .panic .lastTermErr
  | .panic p => .panic p

def matchTerm (l : RaftLog) (i term : Nat) : Res Bool :=
  match l.term i with
  | .ok t => .ok (t == term)
  | .err _ => .ok false
  | .panic p => .panic p

/-- the index of the first entry of `ents` that is not in the log with the same term, 0 if none.
    (The `Infof` of the conflict case evaluates `zeroTermOnErrCompacted(l.term(ne.Index))`, which
    panics on ErrUnavailable.) -/
def findConflict (l : RaftLog) : List Entry → Res Nat
  | [] => .ok 0
  | ne :: es =>
    match l.matchTerm ne.index ne.term with
    | .ok true => findConflict l es
    | .ok false =>
      if ne.index ≤ l.lastIndex then
        match zeroTermOnErrCompacted (l.term ne.index) with
        | .ok _ => .ok ne.index
        | .err e => .err e
        | .panic p => .panic p
      else .ok ne.index
    | .err e => .err e
    | .panic p => .panic p

def commitTo (l : RaftLog) (tocommit : Nat) : Res RaftLog :=
  -- never decrease commit
  if l.committed < tocommit then
    if l.lastIndex < tocommit then .panic .tocommit
    else .ok { l with committed := tocommit }
  else .ok l

def appliedTo (l : RaftLog) (i : Nat) : Res RaftLog :=
  if i = 0 then .ok l
  else if l.committed < i ∨ i < l.applied then .panic .applied
  else .ok { l with applied := i }

def stableTo (l : RaftLog) (i t : Nat) : Res RaftLog :=
  match l.unstable.stableTo i t with
  | .ok u => .ok { l with unstable := u }
  | .err e => .err e
  | .panic p => .panic p

def stableSnapTo (l : RaftLog) (i : Nat) : RaftLog :=
  { l with unstable := l.unstable.stableSnapTo i }

/-- returns the log and `l.lastIndex()` -/
def append (l : RaftLog) (ents : List Entry) : Res (RaftLog × Nat) :=
  match ents with
  | [] => .ok (l, l.lastIndex)
  | e0 :: _ =>
    -- `after := ents[0].Index - 1` wraps for Index = 0 and is then not < committed
    if e0.index ≠ 0 ∧ e0.index - 1 < l.committed then .panic .after
    else match l.unstable.truncateAndAppend ents with
      | .ok u => let l' := { l with unstable := u }; .ok (l', l'.lastIndex)
      | .err e => .err e
      | .panic p => .panic p

/-- returns the log and `some lastnewi` (appended / matched) or `none` (rejected) -/
def maybeAppend (l : RaftLog) (index logTerm committed : Nat) (ents : List Entry) : Res (RaftLog × Option Nat) :=
  match l.matchTerm index logTerm with
  | .panic p => .panic p
  | .err e => .err e
  | .ok false => .ok (l, none)
  | .ok true =>
    let lastnewi := index + ents.length
    match l.findConflict ents with
    | .panic p => .panic p
    | .err e => .err e
    | .ok ci =>
      let r : Res RaftLog :=
        if ci = 0 then .ok l
        else if ci ≤ l.committed then .panic .conflict
        else
          let offset := index + 1
          if ci < offset ∨ ci - offset > ents.length then .panic .rtSlice     -- ents[ci-offset:]
          else match l.append (ents.drop (ci - offset)) with
            | .ok (l', _) => .ok l'
            | .err e => .err e
            | .panic p => .panic p
      match r with
      | .panic p => .panic p
      | .err e => .err e
      | .ok l1 =>
        match l1.commitTo (min committed lastnewi) with
        | .ok l2 => .ok (l2, some lastnewi)
        | .err e => .err e
        | .panic p => .panic p

def unstableEntries (l : RaftLog) : List Entry := l.unstable.entries

def mustCheckOutOfBounds (l : RaftLog) (lo hi : Nat) : Res Unit :=
  if lo > hi then .panic .sliceInv
  else
    let fi := l.firstIndex
    if lo < fi then .err .compacted
    -- Go: `length := lastIndex+1-fi; hi > fi+length`, i.e. hi > lastIndex+1 in uint64 arithmetic
    else if hi > l.lastIndex + 1 then .panic .sliceOob
    else .ok ()

/-- the second half of `slice`: the unstable part and the final `limitSize` -/
def sliceTail (l : RaftLog) (ents : List Entry) (lo hi maxSize : Nat) : Res (List Entry) :=
  let offset := l.unstable.offset
  if hi > offset then
    match l.unstable.slice (max lo offset) hi with
    | .ok us => .ok (limitSize (ents ++ us) maxSize)
    | .err e => .err e
    | .panic p => .panic p
  else .ok (limitSize ents maxSize)

def slice (l : RaftLog) (lo hi maxSize : Nat) : Res (List Entry) :=
  match l.mustCheckOutOfBounds lo hi with
  | .panic p => .panic p
  | .err e => .err e
  | .ok () =>
    if lo = hi then .ok []
    else
      let offset := l.unstable.offset
      if lo < offset then
        match l.storage.entries lo (min hi offset) maxSize with
        | .err .compacted => .err .compacted
        | .err .unavailable => .panic .unavailable
        | .err _ => .panic .otherErr                   -- `panic(err) // TODO(bdarnell)`
        | .panic p => .panic p
        | .ok storedEnts =>
          -- check if ents has reached the size limitation
          if storedEnts.length < min hi offset - lo then .ok storedEnts
          else sliceTail l storedEnts lo hi maxSize
      else sliceTail l [] lo hi maxSize

def nextEnts (l : RaftLog) : Res (List Entry) :=
  let off := max (l.applied + 1) l.firstIndex
  if l.committed + 1 > off then
    match l.slice off (l.committed + 1) l.maxNextEntsSize with
    | .ok ents => .ok ents
    | .err _ => .panic .nextEntsErr
    | .panic p => .panic p
  else .ok []

def hasNextEnts (l : RaftLog) : Bool :=
  let off := max (l.applied + 1) l.firstIndex
  l.committed + 1 > off

def hasMoreNextEnts (l : RaftLog) (appliedTo : Nat) : Bool := l.committed > appliedTo

def hasPendingSnapshot (l : RaftLog) : Bool :=
  match l.unstable.snapshot with
  | some (i, _) => i ≠ 0
  | none => false

/-- `(index, term)` of `l.snapshot()` -/
def snapshot (l : RaftLog) : Nat × Nat :=
  match l.unstable.snapshot with
  | some s => s
  | none => (l.storage.snapIndex, l.storage.snapTerm)

def entries (l : RaftLog) (i maxSize : Nat) : Res (List Entry) :=
  if i > l.lastIndex then .ok []
  else l.slice i (l.lastIndex + 1) maxSize

def isUpToDate (l : RaftLog) (lasti term : Nat) : Res Bool :=
  match l.lastTerm with
  | .ok lt => .ok (decide (term > lt) || (term == lt && decide (lasti ≥ l.lastIndex)))
  | .err e => .err e
  | .panic p => .panic p

def maybeCommit (l : RaftLog) (maxIndex term : Nat) : Res (RaftLog × Bool) :=
  if maxIndex > l.committed then
    match zeroTermOnErrCompacted (l.term maxIndex) with
    | .panic p => .panic p
    | .err e => .err e
    | .ok t =>
      if t = term then
        match l.commitTo maxIndex with
        | .ok l' => .ok (l', true)
        | .err e => .err e
        | .panic p => .panic p
      else .ok (l, false)
  else .ok (l, false)

def restore (l : RaftLog) (index term : Nat) : RaftLog :=
  { l with committed := index, unstable := l.unstable.restore index term }

end RaftLog

/-! ### executable well-formedness check (the decidable twin of `WfLog`, ZanVerif/Raft/LogLemmas.lean:
    `wfB_iff`); the driver prints it with every state so that it is compared with the Go harness's own
    `wf()` that gates the implementation-level oracle -/

def contigB (start : Nat) : List Entry → Bool
  | [] => true
  | e :: es => e.index == start && contigB (start + 1) es

def wfB (l : RaftLog) : Bool :=
  contigB l.storage.dummy.index l.storage.all && contigB l.unstable.offset l.unstable.entries &&
  (match l.unstable.snapshot with
   | none => decide (l.storage.firstIndex ≤ l.unstable.offset) && decide (l.unstable.offset ≤ l.storage.lastIndex + 1) &&
       (!l.unstable.entries.isEmpty || l.unstable.offset == l.storage.lastIndex + 1)
   | some (si, _) => decide (si + 1 ≤ l.unstable.offset) &&
       (!decide (si + 1 < l.unstable.offset) ||
          (decide (l.storage.dummy.index ≤ si) && decide (l.unstable.offset ≤ l.storage.lastIndex + 1))) &&
       (!l.unstable.entries.isEmpty || l.unstable.offset == si + 1)) &&
  decide (l.applied ≤ l.committed) && decide (l.committed ≤ l.lastIndex) && decide (l.firstIndex ≤ l.committed + 1)

end Z.LogModel
