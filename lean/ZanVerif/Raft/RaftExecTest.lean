import ZanVerif.Raft.RaftExec
namespace Z.RaftAbs
open Z.LogMatch

def m1 : AppMsg := ⟨1, 0, 1, [⟨1, 0⟩], 0⟩
def good : List Action :=
  [.campaign 1 1, .flush 1, .grant 2 1 1, .flush 2, .becomeLeader 1 1 [1, 2], .flush 1,
   .sendApp 1 0 1 0, .recvApp 2 m1, .crash 2, .recvApp 2 m1, .flush 2, .commitLeader 1 1 [1, 2],
   .sendApp 1 1 0 1, .recvApp 2 ⟨1, 1, 0, [], 1⟩, .crash 1]

-- accepted: the run of the witness, extended by a follower learning the commit and the leader crashing
#eval (run [1, 2, 3] init good).map (fun s => (s.commit 1, s.commit 2, s.log 2, s.dlog 1))

-- rejected at the action that breaks a raft rule:
-- (a) the leader commits although the follower's ack never left the follower (crashed before flush)
def badCommit : List Action :=
  [.campaign 1 1, .flush 1, .grant 2 1 1, .flush 2, .becomeLeader 1 1 [1, 2], .flush 1,
   .sendApp 1 0 1 0, .recvApp 2 m1, .crash 2, .commitLeader 1 1 [1, 2]]
#eval (run [1, 2, 3] init badCommit).isSome
-- (b) a vote for a campaign that was never flushed
#eval (run [1, 2, 3] init [.campaign 1 1, .grant 2 1 1]).isSome
-- (c) a second vote in the same term
#eval (run [1, 2, 3] init [.campaign 1 1, .flush 1, .campaign 3 1, .flush 3, .grant 2 1 1, .grant 2 1 3]).isSome
-- (d) a heartbeat commit beyond what the follower confirmed
#eval (run [1, 2, 3] init (good.take 12 ++ [.sendHb 1 3 1 1])).isSome

example : (run [1, 2, 3] init good).isSome = true := by decide
example : (run [1, 2, 3] init badCommit).isSome = false := by decide
end Z.RaftAbs
