/-
Scratch prototype for C03: over executions that contain crashes at arbitrary points (the step
relation has `crash j`: volatile state := durable state, unsent responses forgotten), what was
committed anywhere stays: later leaders of later terms hold it, and nobody ever commits a different
entry at those indexes.
-/
import ZanVerif.Raft.RaftSafety
namespace Z.RaftAbs
open Z.LogMatch

variable (vs : List Nat)

inductive Steps : St → St → Prop
  | refl (s : St) : Steps s s
  | tail {s s' s'' : St} : Steps s s' → Step vs s' s'' → Steps s s''

theorem reach_steps {s s' : St} (r : Reach vs s) (h : Steps vs s s') : Reach vs s' := by
  induction h with
  | refl => exact r
  | tail _ st ih => exact Reach.step ih st

/-- a commit record, once established, is never invalidated (crashes included) -/
theorem record_stable {s s' : St} (r : Reach vs s) (h : Steps vs s s') {t k : Nat}
    (g : Good s t k) (q : QAcked vs s t k) :
    Good s' t k ∧ QAcked vs s' t k ∧ pre s' t k = pre s t k := by
  induction h with
  | refl => exact ⟨g, q, rfl⟩
  | tail h1 st ih =>
    have r1 := reach_steps vs r h1
    obtain ⟨i0, d1, i1, i2, _, _⟩ := reach_invD vs r1
    have E := step_ext vs i0 d1 i1 i2 st
    obtain ⟨g1, q1, p1⟩ := ih
    exact ⟨Good.fwd E g1, QAcked.fwd E q1, by rw [pre_ext E g1.2.1, p1]⟩

/-- **C03, first clause**: whatever a node has committed is in the log of every leader of a later
    term, in every later state of every execution, crashes of any nodes at any points included. -/
theorem committed_survives {s : St} (r : Reach vs s) (a : Nat) (hpos : 0 < s.commit a) :
    ∃ t, t ≤ s.term a ∧ ∀ s', Steps vs s s' → ∀ c, s'.role c = Role.leader → t < s'.term c →
      (s'.log c).take (s.commit a) = (s.log a).take (s.commit a) := by
  obtain ⟨_, _, i3⟩ := reach_inv vs r
  rcases i3.C a with h | ⟨t, k, g, ht, q, hck, hlog⟩
  · omega
  · refine ⟨t, ht, ?_⟩
    intro s' hs c hr htc
    obtain ⟨g', q', p'⟩ := record_stable vs r hs g q
    have r' := reach_steps vs r hs
    have := leader_completeness vs r' t k (s'.term c) c g' q' htc hr rfl
    rw [hlog, ← p']
    unfold pre
    rw [List.take_take, Nat.min_eq_left hck]
    exact take_of_take this hck

/-- **C02/C03, "never replaced"**: the committed prefix of a node at one time and the committed
    prefix of any node at any later time agree on their common length. -/
theorem state_machine_safety_over_time {s s' : St} (r : Reach vs s) (hs : Steps vs s s') (a b : Nat) :
    (s.log a).take (min (s.commit a) (s'.commit b)) = (s'.log b).take (min (s.commit a) (s'.commit b)) := by
  obtain ⟨_, _, i3⟩ := reach_inv vs r
  have r' := reach_steps vs r hs
  obtain ⟨i1', _, i3'⟩ := reach_inv vs r'
  have d1' := (reach_invD vs r').2.1
  rcases i3.C a with h | ⟨t1, k1, g1, _, q1, hc1, hl1⟩
  · rw [h]; simp
  rcases i3'.C b with h | ⟨t2, k2, g2, _, q2, hc2, hl2⟩
  · rw [h]; simp
  obtain ⟨g1', q1', p1'⟩ := record_stable vs r hs g1 q1
  rw [← p1'] at hl1
  have key : ∀ u, (s.log a).take (s.commit a) = (s'.tlog u).take (s.commit a) →
      (s'.log b).take (s'.commit b) = (s'.tlog u).take (s'.commit b) →
      (s.log a).take (min (s.commit a) (s'.commit b)) = (s'.log b).take (min (s.commit a) (s'.commit b)) := by
    intro u h1 h2
    rw [take_of_take h1 (Nat.min_le_left _ _), take_of_take h2 (Nat.min_le_right _ _)]
  rcases Nat.le_total t1 t2 with hle | hle
  · apply key t2
    · rw [hl1]; exact covered vs d1' i1' i3' hle g1' q1' g2 q2 hc1
    · rw [hl2]; exact covered vs d1' i1' i3' (Nat.le_refl _) g2 q2 g2 q2 hc2
  · apply key t1
    · rw [hl1]; exact covered vs d1' i1' i3' (Nat.le_refl _) g1' q1' g1' q1' hc1
    · rw [hl2]; exact covered vs d1' i1' i3' hle g2 q2 g1' q1' hc2

#print axioms committed_survives
#print axioms state_machine_safety_over_time
end Z.RaftAbs
