/-
Scratch prototype for C02: layer 2 = invariant A (prefix invariant for every log, ghost log and
candidate log; term bounds).  Mono is derived from Pfx + term bounds, not carried.
-/
import ZanVerif.Raft.RaftInv1
namespace Z.RaftAbs
open Z.LogMatch

structure Inv2 (s : St) : Prop where
  pfxLog : ∀ q, Pfx s.tlog (s.log q)
  pfxT : ∀ t, Pfx s.tlog (s.tlog t)
  pfxCand : ∀ c t, (c, t) ∈ s.camp → Pfx s.tlog (s.candLog (c, t))
  termLe : ∀ q, ∀ e ∈ s.log q, e.term ≤ s.term q
  tlogLe : ∀ t, ∀ e ∈ s.tlog t, e.term ≤ t
  candLt : ∀ c t, (c, t) ∈ s.camp → ∀ e ∈ s.candLog (c, t), e.term < t
  tlogEmpty : ∀ t, ¬ isElected s t → s.tlog t = []

theorem mem_maybeAppend {l : Log} {prev : Nat} {ents : List Entry} {e : Entry}
    (h : e ∈ maybeAppend l prev ents) : e ∈ l ∨ e ∈ ents := by
  unfold maybeAppend at h
  simp only [] at h
  split at h
  · exact Or.inl h
  · rcases List.mem_append.mp h with h | h
    · exact Or.inl (List.mem_of_mem_take h)
    · exact Or.inr (List.mem_of_mem_drop h)

theorem Pfx.snoc {tlog : Nat → Log} {L : Log} {t : Nat} {e : Entry} (hL : Pfx tlog L)
    (ht : tlog t = L ++ [e]) (he : e.term = t) : Pfx tlog (L ++ [e]) := by
  intro k hk hkl
  by_cases hlast : k ≤ L.length
  · have := hL k hk hlast
    have hidx : (L ++ [e])[k - 1]'(by omega) = L[k - 1]'(by omega) := by
      rw [List.getElem_append_left]
    rw [hidx, List.take_append_of_le_length hlast]; exact this
  · have hk' : k = L.length + 1 := by simp at hkl; omega
    have hidx : (L ++ [e])[k - 1]'(by omega) = e := by
      have : k - 1 = L.length := by omega
      simp [this]
    rw [hidx, he, ht]

/-- terms are non-decreasing along any log that satisfies Pfx (given the ghost-log term bound) -/
theorem Pfx.monoTerms {tlog : Nat → Log} (hle : ∀ t, ∀ e ∈ tlog t, e.term ≤ t) {l : Log}
    (h : Pfx tlog l) : Mono l := by
  intro i j hij hj
  have e := h (j + 1) (by omega) (by omega)
  simp only [Nat.add_sub_cancel] at e
  have hi : i < (l.take (j + 1)).length := by simp [List.length_take]; omega
  have h1 : (l.take (j + 1))[i]'hi = l[i]'(by omega) := by simp [List.getElem_take]
  have hi' : i < ((tlog (l[j]'hj).term).take (j + 1)).length := by rw [← e]; exact hi
  have h2 : (l.take (j + 1))[i]'hi = ((tlog (l[j]'hj).term).take (j + 1))[i]'hi' := by
    congr 1
  rw [← h1, h2]
  apply hle
  exact List.mem_of_mem_take (List.getElem_mem hi')

variable (vs : List Nat)

theorem ext_upd_nil (tlog : Nat → Log) (t : Nat) (L : Log) (h : tlog t = []) :
    ∀ u, ∃ x, upd tlog t L u = tlog u ++ x := by
  intro u
  by_cases hu : u = t
  · subst hu; exact ⟨L, by simp [h]⟩
  · exact ⟨[], by simp [upd_other _ _ _ _ hu]⟩

theorem ext_upd_app (tlog : Nat → Log) (t : Nat) (x : Log) :
    ∀ u, ∃ y, upd tlog t (tlog t ++ x) u = tlog u ++ y := by
  intro u
  by_cases hu : u = t
  · subst hu; exact ⟨x, by simp⟩
  · exact ⟨[], by simp [upd_other _ _ _ _ hu]⟩

structure InvD2 (s : St) : Prop where
  pfxD : ∀ q, Pfx s.tlog (s.dlog q)
  dlogLe : ∀ q, ∀ e ∈ s.dlog q, e.term ≤ s.dterm q

theorem inv2_step {s s' : St} (i0 : Inv0 vs s) (d1 : InvD1 s) (i1 : Inv1 s) (inv : Inv2 s) (d2 : InvD2 s)
    (st : Step vs s s') : Inv2 s' := by
  cases st with
  | campaign c t ht =>
    refine ⟨inv.pfxLog, inv.pfxT, ?_, ?_, inv.tlogLe, ?_, inv.tlogEmpty⟩
    · intro c' t' h
      dsimp only at h ⊢
      by_cases he : (c', t') = (c, t)
      · simp only [updP, he, ↓reduceIte]; exact inv.pfxLog c
      · simp only [updP, he, ↓reduceIte]
        rcases List.mem_cons.mp h with h | h
        · exact absurd h he
        · exact inv.pfxCand c' t' h
    · intro q e he
      dsimp only at he ⊢
      exact Nat.le_trans (inv.termLe q e he) (le_upd s.term c t (Nat.le_of_lt ht) q)
    · intro c' t' h e he
      dsimp only at h he
      by_cases heq : (c', t') = (c, t)
      · simp only [updP, heq, ↓reduceIte] at he
        have := inv.termLe c e he
        cases heq; omega
      · simp only [updP, heq, ↓reduceIte] at he
        rcases List.mem_cons.mp h with h | h
        · exact absurd h heq
        · exact inv.candLt c' t' h e he
  | grant q t c hc ht hq hup hvote hself =>
    refine ⟨inv.pfxLog, inv.pfxT, inv.pfxCand, ?_, inv.tlogLe, inv.candLt, inv.tlogEmpty⟩
    intro q' e he
    exact Nat.le_trans (inv.termLe q' e he) (le_upd s.term q t ht q')
  | becomeLeader c t Q hr ht hsc hQ hv =>
    have fresh := fresh_of i0 d1 hr ht (ht ▸ (i1.candOk c hr).1) hQ hv
    have hne : ¬ isElected s t := fun ⟨c', h⟩ => fresh c' h
    have hemp := inv.tlogEmpty t hne
    have hext := ext_upd_nil s.tlog t (s.log c ++ [⟨t, 0⟩]) hemp
    have hnew : Pfx (upd s.tlog t (s.log c ++ [⟨t, 0⟩])) (s.log c ++ [⟨t, 0⟩]) :=
      Pfx.snoc (Pfx.mono s.tlog hext (inv.pfxLog c)) (by simp) rfl
    constructor
    · intro q
      dsimp only
      by_cases h : q = c
      · subst h; rw [upd_same]; exact hnew
      · rw [upd_other _ _ _ _ h]; exact Pfx.mono s.tlog hext (inv.pfxLog q)
    · intro t'
      dsimp only
      by_cases h : t' = t
      · subst h; rw [upd_same]; exact hnew
      · rw [upd_other _ _ _ _ h]; exact Pfx.mono s.tlog hext (inv.pfxT t')
    · intro c' t' h; exact Pfx.mono s.tlog hext (inv.pfxCand c' t' h)
    · intro q e he
      dsimp only at he ⊢
      by_cases h : q = c
      · subst h
        rw [upd_same] at he
        rcases List.mem_append.mp he with he | he
        · exact inv.termLe q e he
        · simp at he; subst he; simp [ht]
      · rw [upd_other _ _ _ _ h] at he; exact inv.termLe q e he
    · intro t' e he
      dsimp only at he
      by_cases h : t' = t
      · subst h
        rw [upd_same] at he
        rcases List.mem_append.mp he with he | he
        · have := inv.termLe c e he; omega
        · simp at he; subst he; simp
      · rw [upd_other _ _ _ _ h] at he; exact inv.tlogLe t' e he
    · exact inv.candLt
    · intro t' hnel
      dsimp only
      have h : t' ≠ t := by
        intro e; subst e; exact hnel ⟨c, List.mem_cons_self⟩
      rw [upd_other _ _ _ _ h]
      exact inv.tlogEmpty t' (fun ⟨c', h'⟩ => hnel ⟨c', List.mem_cons_of_mem _ h'⟩)
  | propose c d hr =>
    have hL := i1.leadLog c hr
    have hext : ∀ u, ∃ y, upd s.tlog (s.term c) (s.log c ++ [⟨s.term c, d⟩]) u = s.tlog u ++ y := by
      rw [hL]; exact ext_upd_app s.tlog (s.term c) _
    have hnew : Pfx (upd s.tlog (s.term c) (s.log c ++ [⟨s.term c, d⟩])) (s.log c ++ [⟨s.term c, d⟩]) :=
      Pfx.snoc (Pfx.mono s.tlog hext (inv.pfxLog c)) (by simp) rfl
    constructor
    · intro q
      dsimp only
      by_cases h : q = c
      · subst h; rw [upd_same]; exact hnew
      · rw [upd_other _ _ _ _ h]; exact Pfx.mono s.tlog hext (inv.pfxLog q)
    · intro t'
      dsimp only
      by_cases h : t' = s.term c
      · subst h; rw [upd_same]; exact hnew
      · rw [upd_other _ _ _ _ h]; exact Pfx.mono s.tlog hext (inv.pfxT t')
    · intro c' t' h; exact Pfx.mono s.tlog hext (inv.pfxCand c' t' h)
    · intro q e he
      dsimp only at he ⊢
      by_cases h : q = c
      · subst h
        rw [upd_same] at he
        rcases List.mem_append.mp he with he | he
        · exact inv.termLe q e he
        · simp at he; subst he; simp
      · rw [upd_other _ _ _ _ h] at he; exact inv.termLe q e he
    · intro t' e he
      dsimp only at he
      by_cases h : t' = s.term c
      · subst h
        rw [upd_same] at he
        rcases List.mem_append.mp he with he | he
        · exact inv.termLe c e he
        · simp at he; subst he; simp
      · rw [upd_other _ _ _ _ h] at he; exact inv.tlogLe t' e he
    · exact inv.candLt
    · intro t' hnel
      dsimp only
      have h : t' ≠ s.term c := by
        intro e; subst e; exact hnel ⟨c, i1.leadEl c hr⟩
      rw [upd_other _ _ _ _ h]
      exact inv.tlogEmpty t' hnel
  | sendApp c prev n cm hr hb hcm =>
    exact ⟨inv.pfxLog, inv.pfxT, inv.pfxCand, inv.termLe, inv.tlogLe, inv.candLt, inv.tlogEmpty⟩
  | recvApp q m hm ht hnl hprev hmatch =>
    have hmok := i1.msgOk m hm
    have hacc := accept s.tlog (inv.pfxLog q) (inv.pfxT m.term) m.prev m.n m.ents hprev hmok.2.1 hmok.2.2 hmatch
    refine ⟨?_, inv.pfxT, inv.pfxCand, ?_, inv.tlogLe, inv.candLt, inv.tlogEmpty⟩
    · intro q'
      dsimp only
      by_cases h : q' = q
      · subst h; rw [upd_same]; exact hacc.1
      · rw [upd_other _ _ _ _ h]; exact inv.pfxLog q'
    · intro q' e he
      dsimp only at he ⊢
      by_cases h : q' = q
      · subst h
        rw [upd_same] at he ⊢
        rcases mem_maybeAppend he with he | he
        · exact Nat.le_trans (inv.termLe q' e he) ht
        · rw [hmok.2.2] at he
          exact inv.tlogLe m.term e (List.mem_of_mem_drop (List.mem_of_mem_take he))
      · rw [upd_other _ _ _ _ h] at he ⊢; exact inv.termLe q' e he
  | ackStale q m hm ht hnl hlt =>
    refine ⟨inv.pfxLog, inv.pfxT, inv.pfxCand, ?_, inv.tlogLe, inv.candLt, inv.tlogEmpty⟩
    intro q' e he
    exact Nat.le_trans (inv.termLe q' e he) (le_upd s.term q m.term ht q')
  | restore q m hm ht hnl hn hc hgt hno =>
    refine ⟨?_, inv.pfxT, inv.pfxCand, ?_, inv.tlogLe, inv.candLt, inv.tlogEmpty⟩
    · intro q'
      dsimp only
      by_cases h : q' = q
      · subst h; rw [upd_same]; exact Pfx.take s.tlog (inv.pfxT m.term) _
      · rw [upd_other _ _ _ _ h]; exact inv.pfxLog q'
    · intro q' e he
      dsimp only at he ⊢
      by_cases h : q' = q
      · subst h
        rw [upd_same] at he ⊢
        exact inv.tlogLe m.term e (List.mem_of_mem_take he)
      · rw [upd_other _ _ _ _ h] at he ⊢; exact inv.termLe q' e he
  | sendHb c q cm k hr hcm hk hcmk =>
    exact ⟨inv.pfxLog, inv.pfxT, inv.pfxCand, inv.termLe, inv.tlogLe, inv.candLt, inv.tlogEmpty⟩
  | recvHb q h hh hto ht hnl =>
    refine ⟨inv.pfxLog, inv.pfxT, inv.pfxCand, ?_, inv.tlogLe, inv.candLt, inv.tlogEmpty⟩
    intro q' e he
    exact Nat.le_trans (inv.termLe q' e he) (le_upd s.term q h.term ht q')
  | commitLeader c k Q hr hk1 hk hterm hQ hack =>
    exact ⟨inv.pfxLog, inv.pfxT, inv.pfxCand, inv.termLe, inv.tlogLe, inv.candLt, inv.tlogEmpty⟩
  | bump j t ht =>
    refine ⟨inv.pfxLog, inv.pfxT, inv.pfxCand, ?_, inv.tlogLe, inv.candLt, inv.tlogEmpty⟩
    intro q' e he
    exact Nat.le_trans (inv.termLe q' e he) (le_upd s.term j t (Nat.le_of_lt ht) q')
  | restart j =>
    exact ⟨inv.pfxLog, inv.pfxT, inv.pfxCand, inv.termLe, inv.tlogLe, inv.candLt, inv.tlogEmpty⟩

  | flush j =>
    exact ⟨inv.pfxLog, inv.pfxT, inv.pfxCand, inv.termLe, inv.tlogLe, inv.candLt, inv.tlogEmpty⟩
  | crash j =>
    refine ⟨?_, inv.pfxT, ?_, ?_, inv.tlogLe, ?_, inv.tlogEmpty⟩
    · intro q
      dsimp only
      by_cases h : q = j
      · subst h; rw [upd_same]; exact d2.pfxD q
      · rw [upd_other _ _ _ _ h]; exact inv.pfxLog q
    · intro c t h; exact inv.pfxCand c t (List.mem_filter.mp h).1
    · intro q e he
      dsimp only at he ⊢
      by_cases h : q = j
      · subst h; rw [upd_same] at he ⊢; exact d2.dlogLe q e he
      · rw [upd_other _ _ _ _ h] at he ⊢; exact inv.termLe q e he
    · intro c t h; exact inv.candLt c t (List.mem_filter.mp h).1

theorem invD2_same {s s' : St} (d2 : InvD2 s) (h1 : s'.tlog = s.tlog) (h2 : s'.dlog = s.dlog)
    (h3 : s'.dterm = s.dterm) : InvD2 s' := by
  refine ⟨?_, ?_⟩
  · rw [h1, h2]; exact d2.pfxD
  · rw [h2, h3]; exact d2.dlogLe

theorem invD2_step {s s' : St} (i0 : Inv0 vs s) (d1 : InvD1 s) (i1 : Inv1 s) (inv : Inv2 s) (d2 : InvD2 s)
    (st : Step vs s s') : InvD2 s' := by
  cases st with
  | campaign c t ht => exact invD2_same d2 rfl rfl rfl
  | grant q t c hc ht hq hup hvote hself => exact invD2_same d2 rfl rfl rfl
  | becomeLeader c t Q hr ht hsc hQ hv =>
    have fresh := fresh_of i0 d1 hr ht (ht ▸ (i1.candOk c hr).1) hQ hv
    have hne : ¬ isElected s t := fun ⟨c', h⟩ => fresh c' h
    have hext := ext_upd_nil s.tlog t (s.log c ++ [⟨t, 0⟩]) (inv.tlogEmpty t hne)
    exact ⟨fun q => Pfx.mono s.tlog hext (d2.pfxD q), d2.dlogLe⟩
  | propose c d hr =>
    have hL := i1.leadLog c hr
    have hext : ∀ u, ∃ y, upd s.tlog (s.term c) (s.log c ++ [⟨s.term c, d⟩]) u = s.tlog u ++ y := by
      rw [hL]; exact ext_upd_app s.tlog (s.term c) _
    exact ⟨fun q => Pfx.mono s.tlog hext (d2.pfxD q), d2.dlogLe⟩
  | sendApp c prev n cm hr hb hcm => exact invD2_same d2 rfl rfl rfl
  | recvApp q m hm ht hnl hprev hmatch => exact invD2_same d2 rfl rfl rfl
  | ackStale q m hm ht hnl hlt => exact invD2_same d2 rfl rfl rfl
  | restore q m hm ht hnl hn hc hgt hno => exact invD2_same d2 rfl rfl rfl
  | sendHb c q cm k hr hcm hk hcmk => exact invD2_same d2 rfl rfl rfl
  | recvHb q h hh hto ht hnl => exact invD2_same d2 rfl rfl rfl
  | commitLeader c k Q hr hk1 hk hterm hQ hack => exact invD2_same d2 rfl rfl rfl
  | bump j t ht => exact invD2_same d2 rfl rfl rfl
  | restart j => exact invD2_same d2 rfl rfl rfl
  | flush j =>
    refine ⟨?_, ?_⟩
    · intro q
      dsimp only
      by_cases h : q = j
      · subst h; rw [upd_same]; exact inv.pfxLog q
      · rw [upd_other _ _ _ _ h]; exact d2.pfxD q
    · intro q e he
      dsimp only at he ⊢
      by_cases h : q = j
      · subst h; rw [upd_same] at he ⊢; exact inv.termLe q e he
      · rw [upd_other _ _ _ _ h] at he ⊢; exact d2.dlogLe q e he
  | crash j => exact invD2_same d2 rfl rfl rfl

#print axioms inv2_step
end Z.RaftAbs
