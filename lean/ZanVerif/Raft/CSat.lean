/-
Scratch prototype: the executable vote-handling `step` satisfies the relational LocalSpec.
Purely local: no system state, no network, no ghost variables.
-/
import ZanVerif.Raft.CStep
namespace Z.CStep
open Z.GElect

/-! ### facts about `granted` / `poll` -/

theorem granted_nil (n : Node) (h : n.votes = []) : granted n = [] := by simp [granted, h]

theorem mem_granted {n : Node} {q : Nat} : q ∈ granted n ↔ (q, true) ∈ n.votes := by
  simp [granted]

theorem granted_nodup {n : Node} (h : (n.votes.map (·.1)).Nodup) : (granted n).Nodup := by
  unfold granted
  have : ((n.votes.filter (·.2)).map (·.1)).Sublist (n.votes.map (·.1)) :=
    List.Sublist.map _ List.filter_sublist
  exact List.Nodup.sublist this h

theorem poll_votes (n : Node) (id : Nat) (v : Bool) :
    (poll n id v).1.votes = n.votes ∨ ((poll n id v).1.votes = (id, v) :: n.votes ∧ id ∉ n.votes.map (·.1)) := by
  unfold poll
  simp only []
  split
  · exact Or.inl rfl
  · rename_i h
    refine Or.inr ⟨rfl, ?_⟩
    simp only [List.any_eq_true, beq_iff_eq, not_exists, not_and] at h
    intro hm
    obtain ⟨p, hp, rfl⟩ := List.mem_map.mp hm
    exact h p hp rfl

theorem poll_fields (n : Node) (id : Nat) (v : Bool) :
    (poll n id v).1.term = n.term ∧ (poll n id v).1.vote = n.vote ∧ (poll n id v).1.role = n.role ∧
    (poll n id v).1.id = n.id ∧ (poll n id v).1.voters = n.voters ∧ (poll n id v).2 = (granted (poll n id v).1).length := by
  unfold poll; simp

theorem poll_keys (n : Node) (id : Nat) (v : Bool) (h : (n.votes.map (·.1)).Nodup) :
    ((poll n id v).1.votes.map (·.1)).Nodup := by
  rcases poll_votes n id v with e | ⟨e, hn⟩
  · rw [e]; exact h
  · rw [e]; simp only [List.map_cons, List.nodup_cons]; exact ⟨hn, h⟩

theorem poll_granted (n : Node) (id : Nat) (v : Bool) {q} (hq : q ∈ granted (poll n id v).1) :
    q ∈ granted n ∨ (q = id ∧ v = true) := by
  rw [mem_granted] at hq
  rcases poll_votes n id v with e | ⟨e, _⟩
  · rw [e] at hq; exact Or.inl (mem_granted.mpr hq)
  · rw [e] at hq
    rcases List.mem_cons.mp hq with h | h
    · simp only [Prod.mk.injEq] at h; exact Or.inr ⟨h.1, h.2.symm⟩
    · exact Or.inl (mem_granted.mpr h)

/-! ### phase 1 -/

theorem termPhase_cases (n : Node) (m : CMsg) (ok : Bool) :
    termPhase n m ok = (n, true) ∨
    (termPhase n m ok = (n, false) ∧ (m.term = 0 ∨ m.term = n.term)) ∨
    (∃ l, termPhase n m ok = (becomeFollower n m.term l, false) ∧ n.term < m.term) := by
  unfold termPhase
  split
  · exact Or.inr (Or.inl ⟨rfl, Or.inl ‹_›⟩)
  · split
    · split
      · exact Or.inl rfl
      · exact Or.inr (Or.inr ⟨_, rfl, ‹_›⟩)
    · split
      · exact Or.inl rfl
      · exact Or.inr (Or.inl ⟨rfl, Or.inr (by omega)⟩)

/-! ### the spec for a do-nothing transition -/

theorem spec_refl (vs : List Nat) (n : Node) (wf : WF n) (inp : Option Msg) :
    LocalSpec vs n.id (view n) inp (view n) [] where
  termMono := Nat.le_refl _
  voteStable := fun _ _ => rfl
  respOwn := by intro t j c g h; cases h
  respGrant := by intro t c h; cases h
  candJust := by
    intro hr q hq
    exact Or.inr (Or.inl ⟨rfl, hr, hq⟩)
  candNodup := fun _ => granted_nodup wf.keysNodup
  leaderJust := fun h1 h2 => absurd h1 h2


/-! ### phase 2 -/

theorem conv_voteReqs (c : Node) : ∀ x ∈ (voteReqs c).filterMap conv, ∃ t k, x = Msg.reqVote t k := by
  intro x hx
  simp only [voteReqs, List.mem_filterMap, List.mem_map, List.mem_filter] at hx
  obtain ⟨m, ⟨p, _, rfl⟩, hm⟩ := hx
  simp [conv] at hm
  exact ⟨_, _, hm.symm⟩

theorem dispatch_sat (n : Node) (m : CMsg) (ok : Bool) (wf : WF n)
    (hterm : m.typ = .hup ∨ m.term = n.term) (hto : m.to = n.id) (hfrm : m.typ = .vote → m.frm ≠ 0) :
    LocalSpec n.voters n.id (view n) (conv m) (view (dispatch n m ok).1) ((dispatch n m ok).2.filterMap conv) := by
  unfold dispatch
  split
  · -- hup
    split
    · exact spec_refl _ n wf _
    · rename_i hty hg
      have hnl : n.role ≠ .leader := fun h => hg (Or.inl h)
      have hin : n.id ∈ n.voters := Classical.byContradiction fun h => hg (Or.inr h)
      unfold campaign
      have hp := poll_fields (becomeCandidate n) n.id true
      have hv : (poll (becomeCandidate n) n.id true).1.votes = [(n.id, true)] := by
        simp [poll, becomeCandidate]
      have hg' : granted (poll (becomeCandidate n) n.id true).1 = [n.id] := by
        simp [granted, hv]
      have e_term : (poll (becomeCandidate n) n.id true).1.term = n.term + 1 := by rw [hp.1]; rfl
      have e_vote : (poll (becomeCandidate n) n.id true).1.vote = n.id := by rw [hp.2.1]; rfl
      have e_role : (poll (becomeCandidate n) n.id true).1.role = CRole.candidate := by rw [hp.2.2.1]; rfl
      have e_voters : (poll (becomeCandidate n) n.id true).1.voters = n.voters := by rw [hp.2.2.2.2.1]; rfl
      simp only []
      split
      · -- single node: leader at once
        rename_i hq
        rw [hp.2.2.2.2.2, hg'] at hq
        constructor
        · show n.term ≤ (poll (becomeCandidate n) n.id true).1.term
          rw [e_term]; omega
        · intro h
          have : (poll (becomeCandidate n) n.id true).1.term = n.term := h
          rw [e_term] at this; omega
        · intro t j c g h; simp at h
        · intro t c h; simp at h
        · intro h; simp [view, becomeLeader] at h
        · intro h; simp [view, becomeLeader] at h
        · intro _ _
          refine ⟨[n.id], by simp, ?_, ?_⟩
          · unfold quorum at hq
            rw [e_voters] at hq
            simp only [GElect.quorum, List.length_singleton] at hq ⊢; omega
          · intro q hq'
            simp only [List.mem_singleton] at hq'
            subst hq'
            exact Or.inl ⟨rfl, e_vote, hin⟩
      · -- candidate, requests sent
        constructor
        · show n.term ≤ (poll (becomeCandidate n) n.id true).1.term
          rw [e_term]; omega
        · intro h
          have : (poll (becomeCandidate n) n.id true).1.term = n.term := h
          rw [e_term] at this; omega
        · intro t j c g h
          obtain ⟨t', k, e⟩ := conv_voteReqs _ _ h; cases e
        · intro t c h
          obtain ⟨t', k, e⟩ := conv_voteReqs _ _ h; cases e
        · intro _ q hq'
          have hq'' : q ∈ granted (poll (becomeCandidate n) n.id true).1 := hq'
          rw [hg', List.mem_singleton] at hq''
          subst hq''
          exact Or.inl ⟨rfl, e_vote, hin⟩
        · intro _
          show (granted (poll (becomeCandidate n) n.id true).1).Nodup
          rw [hg']; simp
        · intro h
          have : (match (poll (becomeCandidate n) n.id true).1.role with
            | .follower => Role.follower | .candidate => Role.candidate | .leader => Role.leader) = Role.leader := h
          rw [e_role] at this; cases this
  · -- vote request
    rename_i hty
    have hmt : m.term = n.term := by
      rcases hterm with h | h
      · rw [hty] at h; cases h
      · exact h
    split
    · rename_i hc
      constructor
      · exact Nat.le_refl _
      · intro _ hv
        rcases hc.1 with h | h
        · simpa [view] using h.symm
        · exact absurd h.1 hv
      · intro t j c g h
        simp [conv] at h
        exact h.2.1
      · intro t c h
        simp [conv] at h
        obtain ⟨rfl, rfl, _⟩ := h
        exact ⟨by simp [view, hmt], by simp [view], hfrm hty⟩
      · intro hr q hq
        exact Or.inr (Or.inl ⟨rfl, hr, hq⟩)
      · intro _; exact granted_nodup wf.keysNodup
      · intro h1 h2; exact absurd h1 h2
    · constructor
      · exact Nat.le_refl _
      · intro _ _; rfl
      · intro t j c g h
        simp [conv] at h
        exact h.2.1
      · intro t c h
        simp [conv] at h
      · intro hr q hq
        exact Or.inr (Or.inl ⟨rfl, hr, hq⟩)
      · intro _; exact granted_nodup wf.keysNodup
      · intro h1 h2; exact absurd h1 h2
  · -- vote response
    rename_i hty
    have hmt : m.term = n.term := by
      rcases hterm with h | h
      · rw [hty] at h; cases h
      · exact h
    split
    · rename_i hc
      have hp := poll_fields n m.frm (!m.reject)
      have hk := poll_keys n m.frm (!m.reject) wf.keysNodup
      have hcand : (view n).role = Role.candidate := by simp [view, hc.1]
      have just : ∀ (n' : NodeV), n'.term = n.term → ∀ q ∈ granted (poll n m.frm (!m.reject)).1,
          Justified n.voters n.id (view n) (conv m) n' q := by
        intro n' ht q hq
        rcases poll_granted n m.frm (!m.reject) hq with h | ⟨rfl, hv⟩
        · exact Or.inr (Or.inl ⟨ht, hcand, h⟩)
        · refine Or.inr (Or.inr ⟨hc.2, ?_⟩)
          simp [conv, hty, hmt, ht, hto, hv]
      simp only []
      split
      · -- won
        rename_i hq
        constructor
        · simp [view, becomeLeader, hp.1]
        · intro _ _; simp [view, becomeLeader, hp.2.1]
        · intro t j c g h; simp at h
        · intro t c h; simp at h
        · intro h; simp [view, becomeLeader] at h
        · intro h; simp [view, becomeLeader] at h
        · intro _ _
          refine ⟨granted (poll n m.frm (!m.reject)).1, granted_nodup hk, ?_, ?_⟩
          · rw [hp.2.2.2.2.2] at hq
            simp only [quorum, hp.2.2.2.2.1] at hq
            simp only [GElect.quorum]; omega
          · intro q hq'
            exact just _ (by simp [view, becomeLeader, hp.1]) q hq'
      · split
        · -- lost: back to follower in the same term
          constructor
          · simp [view, becomeFollower, hp.1]
          · intro _ _; simp [view, becomeFollower, hp.2.1]
          · intro t j c g h; simp at h
          · intro t c h; simp at h
          · intro h; simp [view, becomeFollower] at h
          · intro h; simp [view, becomeFollower] at h
          · intro h; simp [view, becomeFollower] at h
        · -- keep waiting
          constructor
          · simp [view, hp.1]
          · intro _ _; simp [view, hp.2.1]
          · intro t j c g h; simp at h
          · intro t c h; simp at h
          · intro _ q hq'
            exact just _ (by simp [view, hp.1]) q hq'
          · intro _; exact granted_nodup hk
          · intro h; simp [view, hp.2.2.1, hc.1] at h
    · exact spec_refl _ n wf _
  · -- message from a leader
    rename_i hty
    have hmt : m.term = n.term := by
      rcases hterm with h | h
      · rw [hty] at h; cases h
      · exact h
    split
    · constructor
      · simp [view, becomeFollower, hmt]
      · intro _ _; simp [view, becomeFollower, hmt]
      · intro t j c g h; simp at h
      · intro t c h; simp at h
      · intro h; simp [view, becomeFollower] at h
      · intro h; simp [view, becomeFollower] at h
      · intro h; simp [view, becomeFollower] at h
    · rename_i hr
      have : view { n with lead := m.frm } = view n := by simp [view, granted]
      rw [this]; exact spec_refl _ n wf _
    · exact spec_refl _ n wf _

end Z.CStep

namespace Z.CStep
open Z.GElect

/-- composition: the whole `step` (term phase, then dispatch) satisfies the local spec -/
theorem step_sat (n : Node) (m : CMsg) (ok : Bool) (wf : WF n)
    (hto : m.to = n.id) (hfrm : m.typ = .vote → m.frm ≠ 0) (hterm : m.typ ≠ .hup → m.term ≠ 0)
    (hhup : m.typ = .hup → m.term = 0) :
    LocalSpec n.voters n.id (view n) (conv m) (view (step n m ok).1) ((step n m ok).2.filterMap conv) := by
  unfold step
  rcases termPhase_cases n m ok with h | ⟨h, ht⟩ | ⟨l, h, hlt⟩
  · rw [h]; simp only [↓reduceIte]; exact spec_refl _ n wf _
  · rw [h]; simp only [Bool.false_eq_true, ↓reduceIte]
    apply dispatch_sat n m ok wf ?_ hto hfrm
    rcases ht with ht | ht
    · by_cases hy : m.typ = .hup
      · exact Or.inl hy
      · exact absurd ht (hterm hy)
    · exact Or.inr ht
  · rw [h]; simp only [Bool.false_eq_true, ↓reduceIte]
    -- the bumped node is a follower with no votes in term m.term
    have wfb : WF (becomeFollower n m.term l) := ⟨by simp [becomeFollower], wf.idPos⟩
    have hnh : m.typ ≠ .hup := fun hy => by have := hhup hy; omega
    have d := dispatch_sat (becomeFollower n m.term l) m ok wfb (Or.inr rfl) hto hfrm
    have hid : (becomeFollower n m.term l).id = n.id := rfl
    have hvs : (becomeFollower n m.term l).voters = n.voters := rfl
    rw [hid, hvs] at d
    have hbt : (view (becomeFollower n m.term l)).term = m.term := rfl
    have hbr : (view (becomeFollower n m.term l)).role = Role.follower := rfl
    have lift : ∀ n' q, Justified n.voters n.id (view (becomeFollower n m.term l)) (conv m) n' q →
        Justified n.voters n.id (view n) (conv m) n' q := by
      intro n' q hj
      rcases hj with h1 | ⟨_, hr, _⟩ | h3
      · exact Or.inl h1
      · rw [hbr] at hr; cases hr
      · exact Or.inr (Or.inr h3)
    constructor
    · have := d.termMono; rw [hbt] at this; exact Nat.le_trans (Nat.le_of_lt hlt) this
    · intro e _
      have := d.termMono; rw [hbt] at this
      have : (view n).term = n.term := rfl
      omega
    · exact d.respOwn
    · exact d.respGrant
    · intro hr q hq; exact lift _ q (d.candJust hr q hq)
    · exact d.candNodup
    · intro hr _
      obtain ⟨G, h1, h2, h3⟩ := d.leaderJust hr (by rw [hbr]; intro h; cases h)
      exact ⟨G, h1, h2, fun q hq => lift _ q (h3 q hq)⟩

#print axioms step_sat
end Z.CStep
