/-
Scratch prototype for C02: layer 3 is inductive, for every step of the abstract raft.
-/
import ZanVerif.Raft.RaftInv3b
namespace Z.RaftAbs
open Z.LogMatch

theorem length_pos_of_lastTerm {l : Log} {t : Nat} (h : t < lastTerm l) : 1 ≤ l.length := by
  cases l with
  | nil => simp [lastTerm, termAt] at h
  | cons a l => simp

theorem termAt_take {l : Log} {i k : Nat} (h : i ≤ k) : termAt (l.take k) i = termAt l i := by
  unfold termAt
  split
  · rfl
  · rw [List.getElem?_take_of_lt (by omega)]

variable (vs : List Nat)

theorem inv3_step {s s' : St} (i0 : Inv0 vs s) (d1 : InvD1 s) (i1 : Inv1 s) (i2 : Inv2 s) (i3 : Inv3 vs s)
    (st : Step vs s s') :
    Inv3 vs s' := by
  have E := step_ext vs i0 d1 i1 i2 st
  cases st with
  | campaign c t ht =>
    have hterm := le_upd s.term c t (Nat.le_of_lt ht)
    apply Inv3.mk'
    · exact K_frame E i1 i2 i3 hterm rfl rfl
    · apply V_frame E i1 i2 i3 rfl
      intro q u c' hv
      have h1 := i1.votedOk q u c' hv
      have hne : (c', u) ≠ (c, t) := by
        intro e; cases e
        have := i1.campTerm c t (d1.scSub _ h1.2); omega
      simp only [updP, hne, ↓reduceIte]
    · exact B_frame E d1 i1 i3 rfl
    · exact Q_frame E i3 rfl
    · exact C_frame E i3 hterm rfl rfl
    · exact M_frame E i3 rfl
    · exact H_frame E i3 rfl
    · exact Kd_frame E d1 i1 i2 i3 rfl rfl
    · exact Cd_frame E i3 rfl rfl
  | grant q t c hc ht hq hup hvote hself =>
    have hterm := le_upd s.term q t ht
    apply Inv3.mk'
    · exact K_frame E i1 i2 i3 hterm rfl rfl
    · intro q' u c' t' k hv htu ha hg
      dsimp only at hv
      rcases List.mem_cons.mp hv with e | hv
      · cases e
        have ha' : acked s q t' k := ha
        have hg' : Good s t' k := hg
        rcases i3.K q t' k ha' with h | h
        · have hterm : ((s.tlog t')[k - 1]'(by have := hg'.1; have := hg'.2.1; omega)).term = t' := by
            rw [← termAt_pos hg'.1 hg'.2.1]; exact hg'.2.2
          rcases uptodate_contains s.tlog (i2.pfxCand c t (d1.scSub _ hc)) (i2.pfxLog q)
              (Pfx.monoTerms i2.tlogLe (i2.pfxLog q)) (i2.tlogLe t') hg'.1 hg'.2.1 hterm h hup with h2 | ⟨hlt, hne⟩
          · exact Or.inl h2
          · right
            exact ⟨lastTerm (s.candLog (c, t)),
              elected_lastTerm i2 (i2.pfxCand c t (d1.scSub _ hc)) (length_pos_of_lastTerm hlt), hlt, hne⟩
        · exact Or.inr h.wit
      · obtain ⟨_, hp, h⟩ := V_old E i1 i2 i3 hv htu ha hg
        rw [hp]; exact h
    · exact B_frame E d1 i1 i3 rfl
    · exact Q_frame E i3 rfl
    · exact C_frame E i3 hterm rfl rfl
    · exact M_frame E i3 rfl
    · exact H_frame E i3 rfl
    · exact Kd_frame E d1 i1 i2 i3 rfl rfl
    · exact Cd_frame E i3 rfl rfl
  | becomeLeader c t Q hr ht hsc hQ hv =>
    have fresh := fresh_of i0 d1 hr ht (ht ▸ (i1.candOk c hr).1) hQ hv
    have hterm : ∀ q, s.term q ≤ s.term q := fun _ => Nat.le_refl _
    apply Inv3.mk'
    · exact K_append E i1 i2 i3 hterm (c := c) (tn := t) (x := [⟨t, 0⟩]) rfl rfl (by simp)
    · exact V_frame E i1 i2 i3 rfl (fun _ _ _ _ => rfl)
    · intro u t' k hu htu hg hl
      obtain ⟨c', hc'⟩ := hu
      dsimp only at hc'
      rcases List.mem_cons.mp hc' with e | hc'
      · cases e
        have htt : t' ≠ t := by omega
        have hg0 : Good s t' k := by
          have : (upd s.tlog t (s.log c ++ [(⟨t, 0⟩ : Entry)])) t' = s.tlog t' := upd_other _ _ _ _ htt
          unfold Good at hg ⊢; dsimp only at hg; rw [this] at hg; exact hg
        have hpre := pre_ext E hg0.2.1
        have hl' : (s.log c ++ [(⟨t, 0⟩ : Entry)]).take k ≠ pre s t' k := by
          unfold lacks at hl; rw [hpre] at hl; dsimp only at hl; rw [upd_same] at hl; exact hl
        have hnot : (s.log c).take k ≠ pre s t' k := by
          intro h
          apply hl'
          have hk : k ≤ (s.log c).length := by
            have := congrArg List.length h
            rw [pre_length hg0.2.1, List.length_take] at this; omega
          rw [List.take_append_of_le_length hk]; exact h
        have useWit : Wit s t' k → ∀ s'', Ext s s'' → Blocked vs s'' t' k := by
          intro ⟨u1, hu1, ht1, hl1⟩ s'' E''
          exact Blocked.fwd E'' d1.dtermLe (i3.B u1 t' k hu1 ht1 hg0 hl1)
        by_cases hex : ∃ q ∈ Q, acked s q t' k
        · obtain ⟨q, hqQ, ha⟩ := hex
          rcases hv q hqQ with e | hvq
          · subst e
            rcases i3.K q t' k ha with h | h
            · exact absurd h hnot
            · exact useWit h.wit _ E
          · rcases i3.V q t c t' k (d1.svSub _ hvq) htu ha hg0 with h | h
            · have hcl := (i1.candOk c hr).2
              rw [ht] at hcl; rw [hcl] at h
              exact absurd h hnot
            · exact useWit h _ E
        · refine ⟨Q, hQ, fun q hqQ => ⟨?_, ?_⟩⟩
          · rcases hv q hqQ with e | hvq
            · subst e; have := d1.scampOk _ _ hsc; show t' < s.dterm q; omega
            · have := d1.svotedOk q t c hvq; show t' < s.dterm q; omega
          · intro ha
            rcases acked_of_cons (s := s) rfl ha with ⟨_, e, _⟩ | ha'
            · exact htt e
            · exact hex ⟨q, hqQ, ha'⟩
      · exact B_old E d1 i1 i3 ⟨c', hc'⟩ htu hg hl
    · intro u ⟨c', hc'⟩
      dsimp only at hc'
      rcases List.mem_cons.mp hc' with e | hc'
      · cases e
        refine ⟨Q, hQ, fun q hqQ => ?_⟩
        rcases hv q hqQ with e | hvq
        · subst e; exact d1.scampOk _ _ hsc
        · exact d1.svotedOk q t c hvq
      · exact elQ_old E i3 ⟨c', hc'⟩
    · exact C_append E i3 hterm (c := c) (x := [⟨t, 0⟩]) rfl rfl
    · exact M_frame E i3 rfl
    · exact H_frame E i3 rfl
    · exact Kd_frame E d1 i1 i2 i3 rfl rfl
    · exact Cd_frame E i3 rfl rfl
  | propose c d hr =>
    have hterm : ∀ q, s.term q ≤ s.term q := fun _ => Nat.le_refl _
    apply Inv3.mk'
    · exact K_append E i1 i2 i3 hterm (c := c) (tn := s.term c) (x := [⟨s.term c, d⟩]) rfl rfl (by simp)
    · exact V_frame E i1 i2 i3 rfl (fun _ _ _ _ => rfl)
    · exact B_frame E d1 i1 i3 rfl
    · exact Q_frame E i3 rfl
    · exact C_append E i3 hterm (c := c) (x := [⟨s.term c, d⟩]) rfl rfl
    · exact M_frame E i3 rfl
    · exact H_frame E i3 rfl
    · exact Kd_frame E d1 i1 i2 i3 rfl rfl
    · exact Cd_frame E i3 rfl rfl
  | sendApp c prev n cm hr hb hcm =>
    have hterm : ∀ q, s.term q ≤ s.term q := fun _ => Nat.le_refl _
    apply Inv3.mk'
    · exact K_frame E i1 i2 i3 hterm rfl rfl
    · exact V_frame E i1 i2 i3 rfl (fun _ _ _ _ => rfl)
    · exact B_frame E d1 i1 i3 rfl
    · exact Q_frame E i3 rfl
    · exact C_frame E i3 hterm rfl rfl
    · intro m hm
      dsimp only at hm
      rcases List.mem_cons.mp hm with e | hm
      · subst e
        rcases i3.C c with h | ⟨t, k, g, ht, hq, hck, hlog⟩
        · left; show cm = 0; omega
        · right
          refine ⟨t, k, g, ht, hq, by show cm ≤ k; omega, ?_⟩
          show (s.tlog (s.term c)).take cm = (pre s t k).take cm
          rw [← i1.leadLog c hr]
          exact take_of_take hlog hcm
      · exact M_old E i3 hm
    · exact H_frame E i3 rfl
    · exact Kd_frame E d1 i1 i2 i3 rfl rfl
    · exact Cd_frame E i3 rfl rfl
  | recvApp q m hm ht hnl hprev hmatch =>
    have hterm := le_upd s.term q m.term ht
    have hmok := i1.msgOk m hm
    have hacc := accept s.tlog (i2.pfxLog q) (i2.pfxT m.term) m.prev m.n m.ents hprev hmok.2.1 hmok.2.2 hmatch
    apply Inv3.mk'
    · intro q' t k ha
      dsimp only
      rcases acked_of_cons (s := s) rfl ha with ⟨e1, e2, hk⟩ | ha'
      · subst e1; subst e2
        left; rw [upd_same]; exact take_of_take hacc.2 hk
      · obtain ⟨hkl, _, h⟩ := K_old E i1 i2 i3 (hterm _) ha'
        rcases h with h | h
        · by_cases hq : q' = q
          · subst hq
            rw [upd_same]
            rcases accept_keeps_or_lacks s.tlog (i2.pfxLog q') (i2.pfxT m.term) m.prev m.n m.ents hprev
                hmok.2.1 hmok.2.2 hmatch (pre s t k) k (pre_length hkl) h with h2 | h2
            · exact Or.inl h2
            · right
              have hle := (acked_len i1 ha').2.1
              have hne : t ≠ m.term := by intro e; subst e; exact h2 rfl
              exact ⟨m.term, hmok.1, by omega,
                by show m.term ≤ upd s.term q' m.term q'; rw [upd_same]; exact Nat.le_refl _, h2⟩
          · rw [upd_other _ _ _ _ hq]; exact Or.inl h
        · exact Or.inr h
    · exact V_frame E i1 i2 i3 rfl (fun _ _ _ _ => rfl)
    · exact B_frame E d1 i1 i3 rfl
    · exact Q_frame E i3 rfl
    · intro a
      by_cases ha : a = q
      · subst ha
        by_cases hnew : min m.commit (m.prev + m.n) ≤ s.commit a
        · have hm' : max (s.commit a) (min m.commit (m.prev + m.n)) = s.commit a := Nat.max_eq_left hnew
          unfold CPa; dsimp only; simp only [upd_same]; rw [hm']
          rcases i3.C a with h | ⟨t, k, g, htle, hqa, hck, hlog⟩
          · exact Or.inl h
          · right
            refine ⟨t, k, g, by omega, QAcked.fwd E hqa, hck, ?_⟩
            show (maybeAppend (s.log a) m.prev m.ents).take (s.commit a) = (pre s t k).take (s.commit a)
            have hhas : (s.tlog m.term).take k = pre s t k := by
              by_cases e : t = m.term
              · subst e; rfl
              · exact has_of_qacked d1 i3 hmok.1 (by omega) g hqa
            have hP : ((s.log a).take (s.commit a)).length = s.commit a := by
              rw [List.length_take]; have := commit_le_len i3 a; omega
            rcases accept_keeps_or_lacks s.tlog (i2.pfxLog a) (i2.pfxT m.term) m.prev m.n m.ents hprev
                hmok.2.1 hmok.2.2 hmatch ((s.log a).take (s.commit a)) (s.commit a) hP rfl with h2 | h2
            · rw [h2]; exact hlog
            · exfalso; apply h2
              rw [hlog, ← hhas, List.take_take, Nat.min_eq_left hck]
        · have hm' : max (s.commit a) (min m.commit (m.prev + m.n)) = min m.commit (m.prev + m.n) := by omega
          unfold CPa; dsimp only; simp only [upd_same]; rw [hm']
          rcases i3.M m hm with h | ⟨t, k, g, htle, hqa, hck, hlog⟩
          · exfalso; omega
          · right
            refine ⟨t, k, g, htle, QAcked.fwd E hqa, by omega, ?_⟩
            show (maybeAppend (s.log a) m.prev m.ents).take (min m.commit (m.prev + m.n)) =
              (pre s t k).take (min m.commit (m.prev + m.n))
            rw [take_of_take hacc.2 (Nat.min_le_right _ _)]
            exact take_of_take hlog (Nat.min_le_left _ _)
      · apply C_old E i3 (hterm _) (by show upd s.commit q _ a = _; rw [upd_other _ _ _ _ ha])
        show (upd s.log q (maybeAppend (s.log q) m.prev m.ents) a).take (s.commit a) = _
        rw [upd_other _ _ _ _ ha]
    · exact M_frame E i3 rfl
    · exact H_frame E i3 rfl
    · exact Kd_frame E d1 i1 i2 i3 rfl rfl
    · exact Cd_frame E i3 rfl rfl
  | ackStale q m hm ht hnl hlt =>
    have hterm := le_upd s.term q m.term ht
    have hmok := i1.msgOk m hm
    have hci := commitIn_of d1 i3 q m.term hmok.1 ht
    apply Inv3.mk'
    · intro q' t k ha
      rcases acked_of_cons (s := s) rfl ha with ⟨e1, e2, hk⟩ | ha'
      · subst e1; subst e2
        left; exact take_of_take hci.2 hk
      · obtain ⟨_, _, h⟩ := K_old E i1 i2 i3 (hterm _) ha'
        exact h
    · exact V_frame E i1 i2 i3 rfl (fun _ _ _ _ => rfl)
    · exact B_frame E d1 i1 i3 rfl
    · exact Q_frame E i3 rfl
    · exact C_frame E i3 hterm rfl rfl
    · exact M_frame E i3 rfl
    · exact H_frame E i3 rfl
    · exact Kd_frame E d1 i1 i2 i3 rfl rfl
    · exact Cd_frame E i3 rfl rfl
  | restore q m hm ht hnl hn hc hgt hno =>
    have hterm := le_upd s.term q m.term ht
    have hmok := i1.msgOk m hm
    apply Inv3.mk'
    · intro q' t k ha
      dsimp only
      rcases acked_of_cons (s := s) rfl ha with ⟨e1, e2, hk⟩ | ha'
      · subst e1; subst e2
        left; rw [upd_same]; unfold pre; rw [List.take_take, Nat.min_eq_left hk]
      · obtain ⟨hkl, _, h⟩ := K_old E i1 i2 i3 (hterm _) ha'
        rcases h with h | h
        · by_cases hq : q' = q
          · subst hq
            rw [upd_same]
            by_cases hhas : (s.tlog m.term).take k = pre s t k
            · by_cases hki : k ≤ m.prev
              · left; rw [List.take_take, Nat.min_eq_left hki]; exact hhas
              · exfalso; apply hno
                have heq : (s.log q').take k = (s.tlog m.term).take k := by rw [h, hhas]
                have hlen : k ≤ (s.log q').length := by
                  have := congrArg List.length h
                  rw [pre_length hkl, List.length_take] at this; omega
                refine ⟨by omega, ?_⟩
                rw [← termAt_take (l := s.log q') (k := k) (by omega), heq, termAt_take (by omega)]
            · right
              have hle := (acked_len i1 ha').2.1
              have hne : t ≠ m.term := by intro e; subst e; exact hhas rfl
              exact ⟨m.term, hmok.1, by omega,
                by show m.term ≤ upd s.term q' m.term q'; rw [upd_same]; exact Nat.le_refl _, hhas⟩
          · rw [upd_other _ _ _ _ hq]; exact Or.inl h
        · exact Or.inr h
    · exact V_frame E i1 i2 i3 rfl (fun _ _ _ _ => rfl)
    · exact B_frame E d1 i1 i3 rfl
    · exact Q_frame E i3 rfl
    · intro a
      by_cases ha : a = q
      · subst ha
        unfold CPa; dsimp only; simp only [upd_same]
        rcases i3.M m hm with h0 | ⟨t, k, g, htle, hqa, hck, hlog⟩
        · exfalso; omega
        · right
          refine ⟨t, k, g, htle, QAcked.fwd E hqa, by omega, ?_⟩
          show ((s.tlog m.term).take m.prev).take m.prev = (pre s t k).take m.prev
          rw [List.take_take, Nat.min_self, ← hc]; exact hlog
      · apply C_old E i3 (hterm _) (by show upd s.commit q _ a = _; rw [upd_other _ _ _ _ ha])
        show (upd s.log q ((s.tlog m.term).take m.prev) a).take (s.commit a) = _
        rw [upd_other _ _ _ _ ha]
    · exact M_frame E i3 rfl
    · exact H_frame E i3 rfl
    · exact Kd_frame E d1 i1 i2 i3 rfl rfl
    · exact Cd_frame E i3 rfl rfl
  | sendHb c q cm k hr hcm hk hcmk =>
    have hterm : ∀ q, s.term q ≤ s.term q := fun _ => Nat.le_refl _
    apply Inv3.mk'
    · exact K_frame E i1 i2 i3 hterm rfl rfl
    · exact V_frame E i1 i2 i3 rfl (fun _ _ _ _ => rfl)
    · exact B_frame E d1 i1 i3 rfl
    · exact Q_frame E i3 rfl
    · exact C_frame E i3 hterm rfl rfl
    · exact M_frame E i3 rfl
    · intro h hh
      dsimp only at hh
      rcases List.mem_cons.mp hh with e | hh
      · subst e
        rcases i3.C c with h0 | ⟨t, k1, g, ht, hq, hck, hlog⟩
        · left; show cm = 0; omega
        · right
          refine ⟨⟨c, i1.leadEl c hr⟩, ⟨k, hk, hcmk⟩, t, k1, g, ht, hq, by show cm ≤ k1; omega, ?_⟩
          show (s.tlog (s.term c)).take cm = (pre s t k1).take cm
          rw [← i1.leadLog c hr]
          exact take_of_take hlog hcm
      · exact H_old E i3 hh
    · exact Kd_frame E d1 i1 i2 i3 rfl rfl
    · exact Cd_frame E i3 rfl rfl
  | recvHb q h hh hto ht hnl =>
    have hterm := le_upd s.term q h.term ht
    apply Inv3.mk'
    · exact K_frame E i1 i2 i3 hterm rfl rfl
    · exact V_frame E i1 i2 i3 rfl (fun _ _ _ _ => rfl)
    · exact B_frame E d1 i1 i3 rfl
    · exact Q_frame E i3 rfl
    · intro a
      by_cases ha : a = q
      · subst ha
        by_cases hnew : h.commit ≤ s.commit a
        · have hm' : max (s.commit a) h.commit = s.commit a := Nat.max_eq_left hnew
          exact C_old E i3 (hterm _) (by show upd s.commit a _ a = _; rw [upd_same, hm']) rfl
        · have hm' : max (s.commit a) h.commit = h.commit := by omega
          unfold CPa; dsimp only; simp only [upd_same]; rw [hm']
          rcases i3.H h hh with h0 | ⟨hel, ⟨k', hak, hck'⟩, t, k, g, htle, hqa, hck, hlog⟩
          · exfalso; omega
          · right
            refine ⟨t, k, g, htle, QAcked.fwd E hqa, hck, ?_⟩
            rw [hto] at hak
            rcases i3.K a h.term k' (sacked_acked d1 hak) with hK | ⟨u, _, h1, h2, _⟩
            · show (s.log a).take h.commit = (pre s t k).take h.commit
              rw [← hlog]; exact take_of_take hK hck'
            · exfalso; omega
      · exact C_old E i3 (hterm _) (by show upd s.commit q _ a = _; rw [upd_other _ _ _ _ ha]) rfl
    · exact M_frame E i3 rfl
    · exact H_frame E i3 rfl
    · exact Kd_frame E d1 i1 i2 i3 rfl rfl
    · exact Cd_frame E i3 rfl rfl
  | commitLeader c k Q hr hk1 hk hterm hQ hack =>
    have hterm' : ∀ q, s.term q ≤ s.term q := fun _ => Nat.le_refl _
    apply Inv3.mk'
    · exact K_frame E i1 i2 i3 hterm' rfl rfl
    · exact V_frame E i1 i2 i3 rfl (fun _ _ _ _ => rfl)
    · exact B_frame E d1 i1 i3 rfl
    · exact Q_frame E i3 rfl
    · intro a
      by_cases ha : a = c
      · subst ha
        by_cases hmax : k ≤ s.commit a
        · have hm : max (s.commit a) k = s.commit a := Nat.max_eq_left hmax
          apply C_old E i3 (hterm' _) (by show upd s.commit a _ a = _; rw [upd_same, hm]) rfl
        · right
          have hL := i1.leadLog a hr
          have hm : max (s.commit a) k = k := by omega
          refine ⟨s.term a, k, ⟨hk1, by rw [← hL]; exact hk, ?_⟩, Nat.le_refl _, ⟨Q, hQ, hack⟩, ?_, ?_⟩
          · show termAt (s.tlog (s.term a)) k = s.term a
            rw [← hL, termAt_pos hk1 hk]; exact hterm
          · show upd s.commit a _ a ≤ k; rw [upd_same]; omega
          · show (s.log a).take (upd s.commit a _ a) = (pre s (s.term a) k).take (upd s.commit a _ a)
            unfold pre; rw [← hL, upd_same, hm, List.take_take]; simp
      · apply C_old E i3 (hterm' _) (by show upd s.commit c _ a = _; rw [upd_other _ _ _ _ ha]) rfl
    · exact M_frame E i3 rfl
    · exact H_frame E i3 rfl
    · exact Kd_frame E d1 i1 i2 i3 rfl rfl
    · exact Cd_frame E i3 rfl rfl
  | bump j t ht =>
    have hterm := le_upd s.term j t (Nat.le_of_lt ht)
    apply Inv3.mk'
    · exact K_frame E i1 i2 i3 hterm rfl rfl
    · exact V_frame E i1 i2 i3 rfl (fun _ _ _ _ => rfl)
    · exact B_frame E d1 i1 i3 rfl
    · exact Q_frame E i3 rfl
    · exact C_frame E i3 hterm rfl rfl
    · exact M_frame E i3 rfl
    · exact H_frame E i3 rfl
    · exact Kd_frame E d1 i1 i2 i3 rfl rfl
    · exact Cd_frame E i3 rfl rfl
  | restart j =>
    have hterm : ∀ q, s.term q ≤ s.term q := fun _ => Nat.le_refl _
    apply Inv3.mk'
    · exact K_frame E i1 i2 i3 hterm rfl rfl
    · exact V_frame E i1 i2 i3 rfl (fun _ _ _ _ => rfl)
    · exact B_frame E d1 i1 i3 rfl
    · exact Q_frame E i3 rfl
    · exact C_frame E i3 hterm rfl rfl
    · exact M_frame E i3 rfl
    · exact H_frame E i3 rfl
    · exact Kd_frame E d1 i1 i2 i3 rfl rfl
    · exact Cd_frame E i3 rfl rfl

  | flush j =>
    have hterm : ∀ q, s.term q ≤ s.term q := fun _ => Nat.le_refl _
    apply Inv3.mk'
    · exact K_frame E i1 i2 i3 hterm rfl rfl
    · exact V_frame E i1 i2 i3 rfl (fun _ _ _ _ => rfl)
    · exact B_frame E d1 i1 i3 rfl
    · exact Q_frame E i3 rfl
    · exact C_frame E i3 hterm rfl rfl
    · exact M_frame E i3 rfl
    · exact H_frame E i3 rfl
    · intro q t k ha
      dsimp only
      obtain ⟨k', hk, hm⟩ := ha
      dsimp only at hm
      rcases List.mem_append.mp hm with hm | hm
      · rw [List.mem_filter] at hm
        have e : q = j := by simpa using hm.2
        subst e
        rw [upd_same]
        rcases i3.K q t k ⟨k', hk, hm.1⟩ with h | ⟨u, hu, h1, h2, h3⟩
        · exact Or.inl h
        · exact Or.inr ⟨u, hu, h1, by show u ≤ upd s.dterm q (s.term q) q; rw [upd_same]; exact h2, h3⟩
      · have ha' : sacked s q t k := ⟨k', hk, hm⟩
        by_cases e : q = j
        · subst e
          rw [upd_same]
          rcases i3.K q t k (sacked_acked d1 ha') with h | ⟨u, hu, h1, h2, h3⟩
          · exact Or.inl h
          · exact Or.inr ⟨u, hu, h1, by show u ≤ upd s.dterm q (s.term q) q; rw [upd_same]; exact h2, h3⟩
        · rw [upd_other _ _ _ _ e]
          obtain ⟨_, _, h⟩ := Kd_old E d1 i1 i2 i3 ha'
          exact h
    · intro a
      by_cases e : a = j
      · subst e
        unfold CdPa; dsimp only; simp only [upd_same]
        rcases i3.C a with h | ⟨t, k, g, ht, hq, hck, hlog⟩
        · exact Or.inl h
        · exact Or.inr ⟨t, k, g, ht, QAcked.fwd E hq, hck, hlog⟩
      · exact Cd_old E i3 (by show upd s.dcommit j _ a = _; rw [upd_other _ _ _ _ e])
          (by show upd s.dlog j _ a = _; rw [upd_other _ _ _ _ e])
  | crash j =>
    apply Inv3.mk'
    · intro q t k ha
      dsimp only
      obtain ⟨k', hk, hm⟩ := ha
      dsimp only at hm
      rw [List.mem_filter] at hm
      by_cases e : q = j
      · subst e
        rw [upd_same]
        have hs : (q, t, k') ∈ s.sacks := by simpa using hm.2
        rcases i3.Kd q t k ⟨k', hk, hs⟩ with h | ⟨u, hu, h1, h2, h3⟩
        · exact Or.inl h
        · exact Or.inr ⟨u, hu, h1, by show u ≤ upd s.term q (s.dterm q) q; rw [upd_same]; exact h2, h3⟩
      · rw [upd_other _ _ _ _ e]
        rcases i3.K q t k ⟨k', hk, hm.1⟩ with h | ⟨u, hu, h1, h2, h3⟩
        · exact Or.inl h
        · exact Or.inr ⟨u, hu, h1,
            by show u ≤ upd s.term j (s.dterm j) q; rw [upd_other _ _ _ _ e]; exact h2, h3⟩
    · intro q u c t k hv htu ha hg
      dsimp only at hv
      have hv' := (List.mem_filter.mp hv).1
      have ha' : acked s q t k := by
        obtain ⟨k', hk, hm⟩ := ha
        exact ⟨k', hk, (List.mem_filter.mp hm).1⟩
      exact i3.V q u c t k hv' htu ha' hg
    · exact B_frame E d1 i1 i3 rfl
    · exact Q_frame E i3 rfl
    · intro a
      by_cases e : a = j
      · subst e
        unfold CPa; dsimp only; simp only [upd_same]
        exact i3.Cd a
      · unfold CPa; dsimp only; simp only [upd_other _ _ _ _ e]
        exact i3.C a
    · exact M_frame E i3 rfl
    · exact H_frame E i3 rfl
    · exact Kd_frame E d1 i1 i2 i3 rfl rfl
    · exact Cd_frame E i3 rfl rfl

#print axioms inv3_step
end Z.RaftAbs
