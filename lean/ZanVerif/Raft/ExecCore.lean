/-
Core-only part of the run-time refinement certificate for C01-C03: the EXECUTABLE checker `apply`
for single actions of the abstract raft with crashes (`RaftAbs.Step`), and `run`, its fold over an
action list.  This module imports nothing outside Lean core (RaftAbs and below are core-only), so
the native driver (Driver/Raft.lean) links exactly the function whose soundness is proved in
RaftExec.lean (`apply_sound`, `run_sound`, `accepted_run_safe`) - there is no second definition.
-/
import ZanVerif.Raft.RaftAbs
namespace Z.RaftAbs
open Z.LogMatch

inductive Action
  | campaign (c t : Nat)
  | grant (q t c : Nat)
  | becomeLeader (c t : Nat) (Q : List Nat)
  | propose (c d : Nat)
  | sendApp (c prev n cm : Nat)
  | recvApp (q : Nat) (m : AppMsg)
  | ackStale (q : Nat) (m : AppMsg)
  | restore (q : Nat) (m : AppMsg)
  | sendHb (c q cm k : Nat)
  | recvHb (q : Nat) (h : Hb)
  | commitLeader (c k : Nat) (Q : List Nat)
  | bump (j t : Nat)
  | restart (j : Nat)
  | flush (j : Nat)
  | crash (j : Nat)

instance (a b : Log) : Decidable (UpToDate a b) := by unfold UpToDate; exact inferInstance
instance (vs Q : List Nat) : Decidable (IsQuorum vs Q) := by unfold IsQuorum; exact inferInstance

/-- decidable form of `sacked` -/
def sackedD (s : St) (q t k : Nat) : Prop := ∃ x ∈ s.sacks, x.1 = q ∧ x.2.1 = t ∧ k ≤ x.2.2
instance (s : St) (q t k : Nat) : Decidable (sackedD s q t k) := by unfold sackedD; exact inferInstance

/-- decidable form of "q has not voted for anybody else in t" -/
def noOtherVote (s : St) (q t c : Nat) : Prop := ∀ x ∈ s.voted, x.1 = q → x.2.1 = t → x.2.2 = c
instance (s : St) (q t c : Nat) : Decidable (noOtherVote s q t c) := by unfold noOtherVote; exact inferInstance

variable (vs : List Nat)

def apply (s : St) : Action → Option St
  | .campaign c t =>
    if s.term c < t then some { s with
        term := upd s.term c t
        role := upd s.role c Role.candidate
        camp := (c, t) :: s.camp
        candLog := updP s.candLog (c, t) (s.log c) } else none
  | .grant q t c =>
    if (c, t) ∈ s.scamp ∧ s.term q ≤ t ∧ q ≠ c ∧ UpToDate (s.candLog (c, t)) (s.log q) ∧
        noOtherVote s q t c ∧ (q, t) ∉ s.camp then some { s with
        term := upd s.term q t
        role := if s.term q < t then upd s.role q Role.follower else s.role
        voted := (q, t, c) :: s.voted } else none
  | .becomeLeader c t Q =>
    if s.role c = Role.candidate ∧ s.term c = t ∧ (c, t) ∈ s.scamp ∧ IsQuorum vs Q ∧
        (∀ q ∈ Q, q = c ∨ (q, t, c) ∈ s.svoted) then some { s with
        role := upd s.role c Role.leader
        log := upd s.log c (s.log c ++ [⟨t, 0⟩])
        tlog := upd s.tlog t (s.log c ++ [⟨t, 0⟩])
        elected := (c, t) :: s.elected
        acks := (c, t, (s.log c).length + 1) :: s.acks } else none
  | .propose c d =>
    if s.role c = Role.leader then some { s with
        log := upd s.log c (s.log c ++ [⟨s.term c, d⟩])
        tlog := upd s.tlog (s.term c) (s.log c ++ [⟨s.term c, d⟩])
        acks := (c, s.term c, (s.log c).length + 1) :: s.acks } else none
  | .sendApp c prev n cm =>
    if s.role c = Role.leader ∧ prev + n ≤ (s.log c).length ∧ cm ≤ s.commit c then some { s with
        msgs := ⟨s.term c, prev, n, ((s.log c).drop prev).take n, cm⟩ :: s.msgs } else none
  | .recvApp q m =>
    if m ∈ s.msgs ∧ s.term q ≤ m.term ∧ (s.role q = Role.leader → s.term q < m.term) ∧
        m.prev ≤ (s.log q).length ∧ termAt (s.log q) m.prev = termAt (s.tlog m.term) m.prev then
      some { s with
        term := upd s.term q m.term
        role := upd s.role q Role.follower
        log := upd s.log q (maybeAppend (s.log q) m.prev m.ents)
        commit := upd s.commit q (max (s.commit q) (min m.commit (m.prev + m.n)))
        acks := (q, m.term, m.prev + m.n) :: s.acks } else none
  | .ackStale q m =>
    if m ∈ s.msgs ∧ s.term q ≤ m.term ∧ (s.role q = Role.leader → s.term q < m.term) ∧
        m.prev < s.commit q then some { s with
        term := upd s.term q m.term
        role := upd s.role q Role.follower
        acks := (q, m.term, s.commit q) :: s.acks } else none
  | .restore q m =>
    if m ∈ s.msgs ∧ s.term q ≤ m.term ∧ (s.role q = Role.leader → s.term q < m.term) ∧
        m.n = 0 ∧ m.commit = m.prev ∧ s.commit q < m.prev ∧
        ¬ (m.prev ≤ (s.log q).length ∧ termAt (s.log q) m.prev = termAt (s.tlog m.term) m.prev) then
      some { s with
        term := upd s.term q m.term
        role := upd s.role q Role.follower
        log := upd s.log q ((s.tlog m.term).take m.prev)
        commit := upd s.commit q m.prev
        acks := (q, m.term, m.prev) :: s.acks } else none
  | .sendHb c q cm k =>
    if s.role c = Role.leader ∧ cm ≤ s.commit c ∧ sackedD s q (s.term c) k ∧ cm ≤ k then
      some { s with hbs := ⟨s.term c, q, cm⟩ :: s.hbs } else none
  | .recvHb q h =>
    if h ∈ s.hbs ∧ h.to = q ∧ s.term q ≤ h.term ∧ (s.role q = Role.leader → s.term q < h.term) then
      some { s with
        term := upd s.term q h.term
        role := upd s.role q Role.follower
        commit := upd s.commit q (max (s.commit q) h.commit) } else none
  | .commitLeader c k Q =>
    if s.role c = Role.leader ∧ 1 ≤ k ∧ k ≤ (s.log c).length ∧ termAt (s.log c) k = s.term c ∧
        IsQuorum vs Q ∧ (∀ q ∈ Q, sackedD s q (s.term c) k) then
      some { s with commit := upd s.commit c (max (s.commit c) k) } else none
  | .bump j t =>
    if s.term j < t then some { s with
        term := upd s.term j t
        role := upd s.role j Role.follower } else none
  | .restart j => some { s with role := upd s.role j Role.follower }
  | .flush j => some { s with
        dterm := upd s.dterm j (s.term j)
        dlog := upd s.dlog j (s.log j)
        dcommit := upd s.dcommit j (s.commit j)
        scamp := s.camp.filter (fun x => x.1 = j) ++ s.scamp
        svoted := s.voted.filter (fun x => x.1 = j) ++ s.svoted
        sacks := s.acks.filter (fun x => x.1 = j) ++ s.sacks }
  | .crash j => some { s with
        term := upd s.term j (s.dterm j)
        role := upd s.role j Role.follower
        log := upd s.log j (s.dlog j)
        commit := upd s.commit j (s.dcommit j)
        camp := s.camp.filter (fun x => decide (x.1 ≠ j) || decide (x ∈ s.scamp))
        voted := s.voted.filter (fun x => decide (x.1 ≠ j) || decide (x ∈ s.svoted))
        acks := s.acks.filter (fun x => decide (x.1 ≠ j) || decide (x ∈ s.sacks)) }

/-- Whom node `j` has voted for in term `t` according to a (campaign list, vote list) pair of an abstract
    state: itself if it campaigned in `t` (becomeCandidate sets Vote := id), and the candidate of every
    recorded grant. `votesIn s.camp s.voted j (s.term j)` is what the certificate driver compares with the
    volatile `Vote` of the real node, `votesIn s.scamp s.svoted j (s.dterm j)` what it compares with the
    vote in the HardState read back from the real storage object (Driver/Raft.lean `cmpNode`). In reachable
    states all members are equal (`Props/C01.lean: C01_vote_of_term_unique`); a term in which the node never
    voted or campaigned gives `[]`, whatever older or newer terms hold. -/
def votesIn (camp : List (Nat × Nat)) (voted : List (Nat × Nat × Nat)) (j t : Nat) : List Nat :=
  (if (j, t) ∈ camp then [j] else []) ++
    (voted.filter (fun x => x.1 == j && x.2.1 == t)).map (fun x => x.2.2)

/-- a real `Vote` field (0 = none) says the same as a `votesIn` list -/
def voteAgrees (l : List Nat) (v : Nat) : Bool :=
  if v = 0 then l.isEmpty else !l.isEmpty && l.all (· == v)

def run (s : St) : List Action → Option St
  | [] => some s
  | a :: as => match apply vs s a with
    | some s' => run s' as
    | none => none

end Z.RaftAbs
