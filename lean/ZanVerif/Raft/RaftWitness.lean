/-
Scratch prototype for C03: non-vacuity of the crash model.  A concrete run: campaign, flush, vote,
flush, become leader, flush, replicate; the follower CRASHES before flushing (loses the entry and its
unsent ack), accepts the entry again, flushes; the leader commits on sent acks and then CRASHES.
-/
import ZanVerif.Raft.RaftCrashSafety
namespace Z.RaftAbs
open Z.LogMatch

theorem witness : ∃ s s', Reach [1, 2, 3] s ∧ s.commit 1 = 1 ∧ Steps [1, 2, 3] s s' ∧
    s'.role 1 = Role.follower ∧ s'.log 1 = [⟨1, 0⟩] ∧ s'.log 2 = [⟨1, 0⟩] := by
  have r0 : Reach [1, 2, 3] init := Reach.init
  have r1 := Reach.step r0 (Step.campaign init 1 1 (by decide))
  have r2 := Reach.step r1 (Step.flush _ 1)
  have r3 := Reach.step r2 (Step.grant _ 2 1 1 (by decide) (by decide) (by decide)
    (by unfold UpToDate; decide) (by intro c' h; cases h) (by decide))
  have r4 := Reach.step r3 (Step.flush _ 2)
  have r5 := Reach.step r4 (Step.becomeLeader _ 1 1 [1, 2] (by decide) (by decide) (by decide)
    (by unfold IsQuorum; decide) (by decide))
  have r6 := Reach.step r5 (Step.flush _ 1)
  have r7 := Reach.step r6 (Step.sendApp _ 1 0 1 0 (by decide) (by decide) (by decide))
  have r8 := Reach.step r7 (Step.recvApp _ 2 ⟨1, 0, 1, [⟨1, 0⟩], 0⟩ (by decide) (by decide) (by decide)
    (by decide) (by decide))
  -- the follower crashes before its flush: entry and ack are gone
  have r9 := Reach.step r8 (Step.crash _ 2)
  have r10 := Reach.step r9 (Step.recvApp _ 2 ⟨1, 0, 1, [⟨1, 0⟩], 0⟩ (by decide) (by decide) (by decide)
    (by decide) (by decide))
  have r11 := Reach.step r10 (Step.flush _ 2)
  have r12 := Reach.step r11 (Step.commitLeader _ 1 1 [1, 2] (by decide) (by decide) (by decide) (by decide)
    (by unfold IsQuorum; decide)
    (by
      intro q hq
      simp only [List.mem_cons, List.not_mem_nil, or_false] at hq
      rcases hq with rfl | rfl
      · exact ⟨1, by decide, by decide⟩
      · exact ⟨1, by decide, by decide⟩))
  -- the leader crashes right after committing
  exact ⟨_, _, r12, by decide, Steps.tail (Steps.refl _) (Step.crash _ 1), by decide, by decide, by decide⟩

/-- the crash really loses something: after the follower's crash its log is empty again and its
    computed-but-unsent ack is gone -/
theorem witness_loss : ∃ s, Reach [1, 2, 3] s ∧ s.log 2 = [] ∧ (2, 1, 1) ∉ s.acks ∧ s.log 1 = [⟨1, 0⟩] := by
  have r0 : Reach [1, 2, 3] init := Reach.init
  have r1 := Reach.step r0 (Step.campaign init 1 1 (by decide))
  have r2 := Reach.step r1 (Step.flush _ 1)
  have r3 := Reach.step r2 (Step.grant _ 2 1 1 (by decide) (by decide) (by decide)
    (by unfold UpToDate; decide) (by intro c' h; cases h) (by decide))
  have r4 := Reach.step r3 (Step.flush _ 2)
  have r5 := Reach.step r4 (Step.becomeLeader _ 1 1 [1, 2] (by decide) (by decide) (by decide)
    (by unfold IsQuorum; decide) (by decide))
  have r6 := Reach.step r5 (Step.flush _ 1)
  have r7 := Reach.step r6 (Step.sendApp _ 1 0 1 0 (by decide) (by decide) (by decide))
  have r8 := Reach.step r7 (Step.recvApp _ 2 ⟨1, 0, 1, [⟨1, 0⟩], 0⟩ (by decide) (by decide) (by decide)
    (by decide) (by decide))
  have r9 := Reach.step r8 (Step.crash _ 2)
  exact ⟨_, r9, by decide, by decide, by decide⟩

#print axioms witness
end Z.RaftAbs
