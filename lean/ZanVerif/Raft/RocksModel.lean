/-
  Executable model of the INDEX BOOKKEEPING of raft/rocksdb_storage.go (`RocksStorage`, the storage
  ZanRedisDB uses in production for raft entries): the entry DB as a list sorted by index (one key per
  entry index; it may be sparse), the snapshot meta, and the two caches `firstIndex` / `lastIndex`
  (0 = unknown; `FirstIndex()` / `LastIndex()` fill them, so every read returns a new state).
  Mirrors: firstIndexCached, FirstIndex, LastIndex, seekEntry (forward / reverse), Term, Entries,
  allEntries (incl. its one-entry fast path that returns a ZERO entry for a missing key), addEntries
  (truncate compacted prefix, write, cache last, delete the tail > laste that was in the DB BEFORE the
  batch), deleteUntil, Compact, CreateSnapshot, ApplySnapshot, reset / NewRocksStorage.
  Not modelled: the 1000-entry intermediate commits of writeEnts (atomicity only: batches here are < 1000),
  DeleteFilesInRange (an optimisation), engine errors, HardState.  Core only.
-/
import ZanVerif.Raft.LogModel
namespace Z.LogModel

structure RStorage where
  snapIndex : Nat
  snapTerm : Nat
  db : List Entry          -- sorted by `index`, at most one entry per index
  cFirst : Nat             -- ms.firstIndex (cache, 0 = unknown)
  cLast : Nat              -- ms.lastIndex (cache, 0 = unknown)
  deriving DecidableEq, Repr

namespace RStorage

/-- `batch.Put(entryKey(e.Index), e)` -/
def dbPut (e : Entry) : List Entry → List Entry
  | [] => [e]
  | x :: xs =>
    if e.index < x.index then e :: x :: xs
    else if e.index = x.index then e :: xs
    else x :: dbPut e xs

def dbPutAll (es : List Entry) (db : List Entry) : List Entry := es.foldl (fun d e => dbPut e d) db

/-- seekEntry(_, i, forward): the first entry with index ≥ i -/
def seekGE (db : List Entry) (i : Nat) : Option Entry := db.find? (fun x => i ≤ x.index)

/-- seekEntry(_, MaxUint64, reverse): the last entry -/
def seekLast (db : List Entry) : Option Entry := db.getLast?

def get (db : List Entry) (i : Nat) : Option Entry := db.find? (fun x => x.index == i)

/-- `NewRocksStorage` on an empty DB: `reset([zero entry])` -/
def new : RStorage := ⟨0, 0, [⟨0, 0, 0, 0⟩], 0, 0⟩

def firstIndexCached (s : RStorage) : Nat :=
  if s.snapIndex ≠ 0 then s.snapIndex + 1
  else if s.cFirst > 0 then s.cFirst
  else 0

/-- `FirstIndex()`: (new state, result); on errNotFound the Go code returns (1, err) -/
def firstIndex (s : RStorage) : RStorage × Res Nat :=
  let idx := s.firstIndexCached
  if idx > 0 then (s, .ok idx)
  else match seekGE s.db 0 with
    | none => (s, .err .notFound)
    | some e => ({ s with cFirst := e.index + 1 }, .ok (e.index + 1))

def lastIndex (s : RStorage) : RStorage × Res Nat :=
  if s.cLast > 0 then (s, .ok s.cLast)
  else match seekLast s.db with
    | none => (s, .err .notFound)
    | some e => ({ s with cLast := e.index }, .ok e.index)

def term (s : RStorage) (idx : Nat) : RStorage × Res Nat :=
  match s.firstIndex with
  | (s1, .ok first) =>
    if idx < first - 1 then (s1, .err .compacted)
    else match seekGE s1.db idx with
      | none => (s1, .err .unavailable)
      | some e => if idx < e.index then (s1, .err .compacted) else (s1, .ok e.term)
  | (s1, .err e) => (s1, .err e)
  | (s1, .panic p) => (s1, .panic p)

/-- the size loop of `allEntries`: an entry is dropped (and the loop ends) once the running size
    exceeds maxSize, except the first one -/
def takeSize (maxSize : Nat) : Nat → Bool → List Entry → List Entry
  | _, _, [] => []
  | size, nonEmpty, e :: es =>
    let size' := size + e.size
    if size' > maxSize ∧ nonEmpty then [] else e :: takeSize maxSize size' true es

def allEntries (s : RStorage) (lo hi maxSize : Nat) : List Entry :=
  if hi ≥ lo ∧ hi - lo = 1 then
    -- "We only need one entry": a missing key unmarshals to the zero entry
    match get s.db lo with
    | some e => [e]
    | none => [⟨0, 0, 0, 0⟩]
  else takeSize maxSize 0 false (s.db.filter (fun x => decide (lo ≤ x.index) && decide (x.index < hi)))

def entries (s : RStorage) (lo hi maxSize : Nat) : RStorage × Res (List Entry) :=
  match s.firstIndex with
  | (s1, .ok first) =>
    if lo < first then (s1, .err .compacted)
    else match s1.lastIndex with
      | (s2, .ok last) =>
        if hi > last + 1 then (s2, .err .unavailable)
        else (s2, .ok (s2.allEntries lo hi maxSize))
      | (s2, .err e) => (s2, .err e)
      | (s2, .panic p) => (s2, .panic p)
  | (s1, .err e) => (s1, .err e)
  | (s1, .panic p) => (s1, .panic p)

/-- `deleteUntil(batch, until)`: the keys [0, until) -/
def deleteUntil (db : List Entry) (upTo : Nat) : List Entry := db.filter (fun x => !decide (x.index < upTo))

def applySnapshot (s : RStorage) (index term : Nat) : RStorage × Res Unit :=
  if s.snapIndex ≥ index then (s, .err .snapOutOfDate)
  else
    -- batch: Put(entry at the snapshot index), Delete(every key < index found in the DB), Delete(every key > index):
    -- only the snapshot's entry is left, as in MemoryStorage (the entries above the snapshot index stayed in the DB
    -- before the fix listed in DESIGN §0.2)
    ({ s with snapIndex := index, snapTerm := term, cFirst := 0, cLast := 0,
              db := (deleteUntil (dbPut ⟨index, term, 0, 0⟩ s.db) index).filter (fun x => decide (x.index ≤ index)) }, .ok ())

/-- returns the snapshot's (index, term) -/
def createSnapshot (s : RStorage) (i : Nat) : RStorage × Res (Nat × Nat) :=
  match s.firstIndex with
  | (s1, .ok first) =>
    if i < first then (s1, .err .snapOutOfDate)
    else match seekGE s1.db i with
      | none => (s1, .err .notFound)
      | some e =>
        if e.index ≠ i then (s1, .err .notFound)
        else ({ s1 with snapIndex := i, snapTerm := e.term }, .ok (i, e.term))
  | (s1, .err e) => (s1, .err e)
  | (s1, .panic p) => (s1, .panic p)

def compact (s : RStorage) (compactIndex : Nat) : RStorage × Res Unit :=
  -- "we should use seek here, since FirstIndex() will return snapshot index"
  match seekGE s.db 0 with
  | none => (s, .err .notFound)
  | some f =>
    if compactIndex ≤ f.index then (s, .err .compacted)
    else match s.lastIndex with
      | (s1, .ok li) =>
        if compactIndex > li then (s1, .err .compactOob)
        else ({ s1 with cFirst := 0, db := deleteUntil s1.db compactIndex }, .ok ())
      | (s1, .err e) => (s1, .err e)
      | (s1, .panic p) => (s1, .panic p)

def append (s : RStorage) (entries : List Entry) : RStorage × Res Unit :=
  match entries with
  | [] => (s, .ok ())
  | e0 :: _ =>
    match s.firstIndex with
    | (s1, .ok first) =>
      let entryFirst := e0.index
      let entryLast := entryFirst + entries.length - 1
      if entryLast < first then (s1, .ok ())
      else
        let entries := if first > entryFirst then entries.drop (first - entryFirst) else entries
        match s1.lastIndex with
        | (s2, .ok last) =>
          match entries.getLast? with
          | none => (s2, .panic .rtIndex)                 -- entries[len-1] (cannot happen: entryLast ≥ first)
          | some le =>
            let laste := le.index
            -- batch: the puts, then (if laste < last) a delete for every key > laste that is in the DB now
            let db1 := dbPutAll entries s2.db
            let db2 := if laste < last
              then db1.filter (fun x => !(decide (laste + 1 ≤ x.index) && (get s2.db x.index).isSome))
              else db1
            ({ s2 with cLast := laste, db := db2 }, .ok ())
        | (s2, .err e) => (s2, .err e)
        | (s2, .panic p) => (s2, .panic p)
    | (s1, .err e) => (s1, .err e)
    | (s1, .panic p) => (s1, .panic p)

end RStorage
end Z.LogModel
