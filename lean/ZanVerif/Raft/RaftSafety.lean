/-
Scratch prototype for C02: the invariants hold in every reachable state of the abstract raft; Log
Matching, Leader Completeness and State Machine Safety follow.
-/
import ZanVerif.Raft.RaftInv3
import ZanVerif.Raft.RaftInv0Step
namespace Z.RaftAbs
open Z.LogMatch

-- `init` (the initial state) is defined in RaftAbs.lean

theorem pfx_nil (tlog : Nat → Log) : Pfx tlog [] := by
  intro k hk hkl; simp at hkl; omega

theorem inv0_init (vs : List Nat) : Inv0 vs init := by
  constructor <;> intros <;> simp_all [init]

theorem invD1_init : InvD1 init := by
  constructor <;> intros <;> simp_all [init]

theorem invD2_init : InvD2 init := by
  refine ⟨fun _ => pfx_nil _, ?_⟩
  intro q e he; simp [init] at he

theorem inv1_init : Inv1 init := by
  constructor <;> intros <;> simp_all [init]

theorem inv2_init : Inv2 init := by
  refine ⟨fun _ => pfx_nil _, fun _ => pfx_nil _, ?_, ?_, ?_, ?_, fun _ _ => rfl⟩
  · intro c t h; simp [init] at h
  · intro q e he; simp [init] at he
  · intro t e he; simp [init] at he
  · intro c t h; simp [init] at h

theorem inv3_init (vs : List Nat) : Inv3 vs init := by
  refine ⟨?_, ?_, ?_, ?_, fun _ => Or.inl rfl, fun m hm => by simp [init] at hm, fun h hh => by simp [init] at hh, ?_, fun _ => Or.inl rfl⟩
  · intro q t k ⟨k', _, h⟩; simp [init] at h
  · intro q u c t k h; simp [init] at h
  · intro u t k ⟨c, h⟩; simp [init] at h
  · intro u ⟨c, h⟩; simp [init] at h
  · intro q t k ⟨k', _, h⟩; simp [init] at h

variable (vs : List Nat)

inductive Reach : St → Prop
  | init : Reach init
  | step {s s'} : Reach s → Step vs s s' → Reach s'

theorem reach_invD {s : St} (r : Reach vs s) :
    Inv0 vs s ∧ InvD1 s ∧ Inv1 s ∧ Inv2 s ∧ InvD2 s ∧ Inv3 vs s := by
  induction r with
  | init => exact ⟨inv0_init vs, invD1_init, inv1_init, inv2_init, invD2_init, inv3_init vs⟩
  | step _ st ih =>
    obtain ⟨i0, d1, i1, i2, d2, i3⟩ := ih
    exact ⟨inv0_step vs i0 d1 i1 st, invD1_step vs d1 i1 st, inv1_step vs i0 d1 i1 (commitIn_of d1 i3) st,
      inv2_step vs i0 d1 i1 i2 d2 st, invD2_step vs i0 d1 i1 i2 d2 st, inv3_step vs i0 d1 i1 i2 i3 st⟩

theorem reach_inv0 {s : St} (r : Reach vs s) : Inv0 vs s ∧ Inv1 s ∧ Inv2 s ∧ Inv3 vs s :=
  let h := reach_invD vs r
  ⟨h.1, h.2.2.1, h.2.2.2.1, h.2.2.2.2.2⟩

theorem reach_inv {s : St} (r : Reach vs s) : Inv1 s ∧ Inv2 s ∧ Inv3 vs s := (reach_inv0 vs r).2

/-- **Election Safety**: at most one leader per term. -/
theorem election_safety {s : St} (r : Reach vs s) (c c' t : Nat)
    (h1 : (c, t) ∈ s.elected) (h2 : (c', t) ∈ s.elected) : c = c' :=
  (reach_inv0 vs r).2.1.elUniq c c' t h1 h2

theorem one_leader_per_term {s : St} (r : Reach vs s) (c c' : Nat)
    (h1 : s.role c = Role.leader) (h2 : s.role c' = Role.leader) (ht : s.term c = s.term c') : c = c' := by
  have i1 := (reach_inv0 vs r).2.1
  exact i1.elUniq c c' (s.term c) (i1.leadEl c h1) (ht ▸ i1.leadEl c' h2)

/-- **Log Matching**: two logs with the same term at the same index agree up to that index. -/
theorem log_matching_reach {s : St} (r : Reach vs s) (a b k : Nat) (hk : 1 ≤ k)
    (ha : k ≤ (s.log a).length) (hb : k ≤ (s.log b).length)
    (ht : ((s.log a)[k - 1]'(by omega)).term = ((s.log b)[k - 1]'(by omega)).term) :
    (s.log a).take k = (s.log b).take k :=
  log_matching s.tlog ((reach_inv vs r).2.1.pfxLog a) ((reach_inv vs r).2.1.pfxLog b) k hk ha hb ht

/-- **Leader Completeness**: a record acknowledged by a quorum in term t (at an index holding a term-t
    entry, i.e. committable by the current-term rule) is in the log of every leader of a later term. -/
theorem leader_completeness {s : St} (r : Reach vs s) (t k u c : Nat) (hg : Good s t k)
    (hq : QAcked vs s t k) (htu : t < u) (hu : s.role c = Role.leader) (hc : s.term c = u) :
    (s.log c).take k = (s.tlog t).take k := by
  obtain ⟨i1, _, i3⟩ := reach_inv vs r
  have d1 := (reach_invD vs r).2.1
  have hel : isElected s u := ⟨c, hc ▸ i1.leadEl c hu⟩
  rw [i1.leadLog c hu, hc]
  exact has_of_qacked d1 i3 hel htu hg hq

theorem covered {s : St} (d1 : InvD1 s) (i1 : Inv1 s) (i3 : Inv3 vs s) {t1 k1 t2 k2 : Nat} (hle : t1 ≤ t2)
    (g1 : Good s t1 k1) (q1 : QAcked vs s t1 k1) (g2 : Good s t2 k2) (q2 : QAcked vs s t2 k2)
    {c : Nat} (hc : c ≤ k1) : (pre s t1 k1).take c = (s.tlog t2).take c := by
  by_cases e : t1 = t2
  · subst e; unfold pre; rw [List.take_take, Nat.min_eq_left hc]
  · obtain ⟨Q, hQ, hq⟩ := q2
    obtain ⟨q, hqQ⟩ := quorum_nonempty hQ
    have hel := (acked_len i1 (sacked_acked d1 (hq q hqQ))).2.2
    rw [← has_of_qacked d1 i3 hel (by omega) g1 q1, List.take_take, Nat.min_eq_left hc]

/-- **State Machine Safety**: the committed prefixes of any two nodes agree (so no two nodes ever
    apply different entries at the same index), in every reachable state, for every schedule. -/
theorem state_machine_safety {s : St} (r : Reach vs s) (a b : Nat) :
    (s.log a).take (min (s.commit a) (s.commit b)) = (s.log b).take (min (s.commit a) (s.commit b)) := by
  obtain ⟨i1, _, i3⟩ := reach_inv vs r
  have d1 := (reach_invD vs r).2.1
  rcases i3.C a with h | ⟨t1, k1, g1, _, q1, hc1, hl1⟩
  · rw [h]; simp
  rcases i3.C b with h | ⟨t2, k2, g2, _, q2, hc2, hl2⟩
  · rw [h]; simp
  have key : ∀ u, (s.log a).take (s.commit a) = (s.tlog u).take (s.commit a) →
      (s.log b).take (s.commit b) = (s.tlog u).take (s.commit b) →
      (s.log a).take (min (s.commit a) (s.commit b)) = (s.log b).take (min (s.commit a) (s.commit b)) := by
    intro u h1 h2
    rw [take_of_take h1 (Nat.min_le_left _ _), take_of_take h2 (Nat.min_le_right _ _)]
  rcases Nat.le_total t1 t2 with hle | hle
  · apply key t2
    · rw [hl1]; exact covered vs d1 i1 i3 hle g1 q1 g2 q2 hc1
    · rw [hl2]; exact covered vs d1 i1 i3 (Nat.le_refl _) g2 q2 g2 q2 hc2
  · apply key t1
    · rw [hl1]; exact covered vs d1 i1 i3 (Nat.le_refl _) g1 q1 g1 q1 hc1
    · rw [hl2]; exact covered vs d1 i1 i3 hle g2 q2 g1 q1 hc2

#print axioms election_safety
#print axioms one_leader_per_term
#print axioms log_matching_reach
#print axioms leader_completeness
#print axioms state_machine_safety
end Z.RaftAbs
