/-
Scratch prototype for C02 (ingredient K): after accepting an append cut out of the leader's ghost log L,
a follower that held the prefix P (k entries) still holds it - or L itself does not contain P.
-/
import ZanVerif.Raft.LogMatch
namespace Z.LogMatch

/-- where findConflict stops, the follower has no entry or one with a different term -/
theorem matchLen_stop (l : Log) : ∀ (pos : Nat) (es : List Entry), matchLen l pos es < es.length →
    l[pos + matchLen l pos es]? = none ∨
    ∃ x e, l[pos + matchLen l pos es]? = some x ∧ es[matchLen l pos es]? = some e ∧ x.term ≠ e.term := by
  intro pos es
  induction es generalizing pos with
  | nil => intro h; simp [matchLen] at h
  | cons e es ih =>
    intro h
    simp only [matchLen] at h ⊢
    split
    · rename_i x hx
      split
      · rename_i hterm
        simp only [hx, hterm, ↓reduceIte, List.length_cons] at h
        have := ih (pos + 1) (by omega)
        have e1 : pos + (1 + matchLen l (pos + 1) es) = pos + 1 + matchLen l (pos + 1) es := by omega
        rw [e1]
        rcases this with h1 | ⟨x', e', h1, h2, h3⟩
        · exact Or.inl h1
        · refine Or.inr ⟨x', e', h1, ?_, h3⟩
          rw [Nat.add_comm 1, List.getElem?_cons_succ]; exact h2
      · rename_i hterm
        exact Or.inr ⟨x, e, by simpa using hx, by simp, hterm⟩
    · rename_i hnone
      exact Or.inl (by simpa using hnone)

variable (tlog : Nat → Log)

theorem accept_keeps_or_lacks {l L : Log} (hl : Pfx tlog l) (hL : Pfx tlog L)
    (prev n : Nat) (ents : List Entry)
    (hprev : prev ≤ l.length) (hprevL : prev + n ≤ L.length)
    (hents : ents = (L.drop prev).take n)
    (hmatch : termAt l prev = termAt L prev)
    (P : Log) (k : Nat) (hPk : P.length = k) (hlP : l.take k = P) :
    (maybeAppend l prev ents).take k = P ∨ L.take k ≠ P := by
  have hacc := (accept tlog hl hL prev n ents hprev hprevL hents hmatch).2
  have hlk : k ≤ l.length := by
    have := congrArg List.length hlP
    simp only [List.length_take] at this; omega
  by_cases hkn : k ≤ prev + n
  · -- the prefix lies inside the part now equal to L
    by_cases hLP : L.take k = P
    · left
      have : (maybeAppend l prev ents).take k = ((maybeAppend l prev ents).take (prev + n)).take k := by
        rw [List.take_take, Nat.min_eq_left hkn]
      rw [this, hacc, List.take_take, Nat.min_eq_left hkn]; exact hLP
    · exact Or.inr hLP
  · -- the prefix reaches beyond the message
    have hlenE : ents.length = n := by
      rw [hents, List.length_take, List.length_drop]; omega
    unfold maybeAppend
    simp only []
    split
    · exact Or.inl hlP
    · rename_i hpart
      right
      -- conflict position p = prev + b + 1 ≤ prev + n < k
      have hb1 := matchLen_le l prev ents
      have hstop := matchLen_stop l prev ents (by omega)
      generalize matchLen l prev ents = b at hb1 hstop hpart
      rw [hlenE] at hb1 hpart
      have hbn : b < n := by omega
      rcases hstop with hnone | ⟨x, e, h1, h2, h3⟩
      · -- impossible: l is longer than k > prev + b
        have : prev + b < l.length := by omega
        rw [List.getElem?_eq_getElem this] at hnone; cases hnone
      · intro hLP
        -- both l and L agree with P at position prev + b, but their terms differ
        have hx : P[prev + b]? = some x := by
          rw [← hlP, List.getElem?_take_of_lt (by omega)]; exact h1
        have he : P[prev + b]? = some e := by
          rw [← hLP, List.getElem?_take_of_lt (by omega)]
          rw [hents, List.getElem?_take_of_lt hbn, List.getElem?_drop] at h2
          exact h2
        rw [hx] at he
        exact h3 (by cases he; rfl)

#print axioms accept_keeps_or_lacks
end Z.LogMatch
