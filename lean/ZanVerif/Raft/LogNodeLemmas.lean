/-
  The node driver model (`Z.LogModel.NodeBk`: newReady / StepNode / Advance of raft/node.go over the
  executable log model) refines the four-field abstraction of ZanVerif/Raft/Handout.lean
  (applied, committed, firstIndex, pending snapshot), so `Z.Handout.cycle` — hand-out contiguity, Advance
  never panics — applies to it.
-/
import ZanVerif.Raft.LogLemmas
import ZanVerif.Raft.LogNode
import ZanVerif.Raft.Handout
namespace Z.LogModel
open Z.Handout (St Inv offOf cntOf)

/-- the four fields of the hand-out abstraction -/
def absN (l : RaftLog) : St :=
  ⟨l.applied, l.committed, l.firstIndex, l.unstable.snapshot.map (·.1)⟩

theorem Contig.getLast? {s : Nat} {es : List Entry} (h : Contig s es) :
    (es = [] → es.getLast? = none) ∧ (es ≠ [] → ∃ e, es.getLast? = some e ∧ e.index = s + es.length - 1) := by
  refine ⟨fun h0 => by rw [h0]; rfl, fun hne => ?_⟩
  have hlen : 0 < es.length := List.length_pos_iff.mpr hne
  have hg : es[es.length - 1]? = some (es[es.length - 1]'(by omega)) := List.getElem?_eq_getElem (by omega)
  refine ⟨_, by rw [List.getLast?_eq_getElem?]; exact hg, ?_⟩
  have := h _ _ hg; omega

/-- `newReady` on a well-formed log never panics; its committed entries are a prefix of
    max(applied+1, firstIndex) .. committed: `n` of them, `n ≥ 1` iff asked for and available -/
theorem newReady_ok (b : NodeBk) {l : RaftLog} (w : WfLog l) (more : Bool) :
    ∃ rd n, b.newReady l more = .ok rd ∧ rd.entries = l.unstable.entries ∧ rd.snapshot = l.unstable.snapshot ∧
      rd.hard = (if b.prevHard = some l.committed then none else some l.committed) ∧
      rd.committed.length = n ∧ Contig (max (l.applied + 1) l.firstIndex) rd.committed ∧
      max (l.applied + 1) l.firstIndex + n ≤ l.committed + 1 ∧
      (more = false → n = 0) ∧ (more = true → (1 ≤ n ↔ l.committed + 1 > max (l.applied + 1) l.firstIndex)) ∧
      (∀ k e, rd.committed[k]? = some e → (fullLog l)[max (l.applied + 1) l.firstIndex + k - l.firstIndex]? = some e) := by
  have hcl := w.committedLe
  have hfl := w.firstLe
  have hal := w.appliedLe
  cases more with
  | false =>
    have hnr : b.newReady l false = .ok (Ready.mk l.unstable.entries [] l.unstable.snapshot false
        (if b.prevHard = some l.committed then none else some l.committed)) := by
      unfold NodeBk.newReady; simp only [Bool.false_eq_true, ↓reduceIte]; rfl
    refine ⟨_, 0, hnr, rfl, rfl, rfl, rfl, Contig.nil _, by omega, fun _ => rfl, ?_, ?_⟩
    · intro h; cases h
    · intro k e h; simp at h
  | true =>
    obtain ⟨n, e1, e2, e3, _⟩ := nextEnts_ok w
    have hrl := range_length w (a := max (l.applied + 1) l.firstIndex) (b := l.committed + 1)
      (Nat.le_max_right _ _) (by omega)
    have hlen : ((range l (max (l.applied + 1) l.firstIndex) (l.committed + 1)).take n).length = n := by
      rw [List.length_take, hrl]; omega
    have hnr : b.newReady l true = .ok (Ready.mk l.unstable.entries
        ((range l (max (l.applied + 1) l.firstIndex) (l.committed + 1)).take n)
        l.unstable.snapshot
        (match ((range l (max (l.applied + 1) l.firstIndex) (l.committed + 1)).take n).getLast? with
          | some e => l.hasMoreNextEnts e.index
          | none => false)
        (if b.prevHard = some l.committed then none else some l.committed)) := by
      unfold NodeBk.newReady; simp only [↓reduceIte]; rw [e1]; rfl
    refine ⟨_, n, hnr, rfl, rfl, rfl, hlen, (range_contig w _ _ (Nat.le_max_right _ _)).take n, by omega, ?_, ?_, ?_⟩
    · intro h; cases h
    · intro _
      refine ⟨fun h => by omega, fun h => e3 ?_⟩
      unfold RaftLog.hasNextEnts; simp only [decide_eq_true_eq]; exact h
    · intro k e h
      simp only [] at h
      rw [List.getElem?_take] at h
      split at h
      · unfold range at h
        rw [List.getElem?_take] at h
        split at h
        · rw [List.getElem?_drop] at h
          have e : max (l.applied + 1) l.firstIndex + k - l.firstIndex =
              max (l.applied + 1) l.firstIndex - l.firstIndex + k := by omega
          rw [e]; exact h
        · cases h
      · cases h

/-- the model's `appliedCursor` of such a Ready -/
theorem appliedCursor_eq {rd : Ready} {off n : Nat} (hc : Contig off rd.committed) (hl : rd.committed.length = n) :
    NodeBk.appliedCursor rd = (if n > 0 then off + n - 1 else match rd.snapshot with | some (i, _) => i | none => 0) := by
  obtain ⟨g1, g2⟩ := hc.getLast?
  unfold NodeBk.appliedCursor
  by_cases h0 : n = 0
  · have : rd.committed = [] := List.eq_nil_of_length_eq_zero (by omega)
    rw [g1 this, if_neg (by omega)]
    rfl
  · have hne : rd.committed ≠ [] := by intro h; rw [h] at hl; simp at hl; omega
    obtain ⟨e, he, hi⟩ := g2 hne
    rw [he, if_pos (by omega)]
    simp only []; omega

/-- `stableTo` needs only "a pending snapshot lies below the offset" to be panic-free; it never touches
    the pointers, the storage or the pending snapshot -/
theorem stableTo_weak (l : RaftLog)
    (h : ∀ si st, l.unstable.snapshot = some (si, st) → l.unstable.entries = [] → si < l.unstable.offset) (i t : Nat) :
    ∃ u, l.stableTo i t = .ok { l with unstable := u } ∧ u.snapshot = l.unstable.snapshot := by
  unfold RaftLog.stableTo Unstable.stableTo
  rw [Unstable.maybeTerm_eq _ _ h]
  cases l.unstable.maybeTermP i with
  | none => exact ⟨l.unstable, rfl, rfl⟩
  | some gt =>
    simp only []
    by_cases hc : gt = t ∧ i ≥ l.unstable.offset
    · rw [if_pos hc]; exact ⟨_, rfl, rfl⟩
    · rw [if_neg hc]; exact ⟨l.unstable, rfl, rfl⟩

/-! ### refinement of the four-field abstraction -/

theorem absN_off (l : RaftLog) : offOf (absN l) = max (l.applied + 1) l.firstIndex := rfl

/-- one Ready of the model IS `Z.Handout.newReady` of the abstraction, for a suitable entry limit ≥ 1 -/
theorem newReady_refines (b : NodeBk) {l : RaftLog} (w : WfLog l) (more : Bool) :
    ∃ rd limit, 1 ≤ limit ∧ b.newReady l more = .ok rd ∧ rd.entries = l.unstable.entries ∧
      rd.snapshot = l.unstable.snapshot ∧
      Contig (offOf (absN l)) rd.committed ∧ rd.committed.length = cntOf (absN l) more limit ∧
      NodeBk.appliedCursor rd = Z.Handout.appliedCursor (Z.Handout.newReady (absN l) more limit) ∧
      (∀ k e, rd.committed[k]? = some e → (fullLog l)[offOf (absN l) + k - l.firstIndex]? = some e) := by
  obtain ⟨rd, n, e1, e2, e3, _, e5, e6, e7, e8, e9, e10⟩ := newReady_ok b w more
  have hcnt : n = cntOf (absN l) more (max n 1) := by
    unfold cntOf
    rw [absN_off]
    show n = if more = true ∧ l.committed + 1 > max (l.applied + 1) l.firstIndex then
      min (l.committed + 1 - max (l.applied + 1) l.firstIndex) (max n 1) else 0
    cases more with
    | false => rw [if_neg (by simp)]; exact e8 rfl
    | true =>
      by_cases h : l.committed + 1 > max (l.applied + 1) l.firstIndex
      · rw [if_pos ⟨rfl, h⟩]
        have := (e9 rfl).mpr h; omega
      · rw [if_neg (fun hh => h hh.2)]
        have := (e9 rfl).mp; omega
  refine ⟨rd, max n 1, by omega, e1, e2, e3, e6, by rw [e5]; exact hcnt, ?_, e10⟩
  rw [appliedCursor_eq e6 e5, Z.Handout.ready_eq]
  unfold Z.Handout.appliedCursor
  simp only []
  rw [← hcnt, absN_off, e3]
  split
  · rfl
  · show _ = match (l.unstable.snapshot.map (·.1)) with | some i => i | none => 0
    cases l.unstable.snapshot with
    | none => rfl
    | some p => rfl

/-- `Advance` of the model IS `Z.Handout.advance` of the abstraction (same panic condition, same effect on
    applied / committed / firstIndex / pending snapshot) provided that between the Ready and the Advance
    only the storage changed and its first index is where the log's first index is (the application
    applied the Ready's snapshot, if any, and did not compact in between) -/
theorem advance_refines (b : NodeBk) {l l2 : RaftLog} (w : WfLog l) {rd : Ready} {n : Nat}
    (hs : rd.snapshot = l.unstable.snapshot) (hc : Contig (offOf (absN l)) rd.committed) (hl : rd.committed.length = n)
    (hu : l2.unstable = l.unstable) (hcm : l2.committed = l.committed) (hap : l2.applied = l.applied)
    (hst : l2.storage.dummy.index + 1 = l.firstIndex)
    (hpos : ∀ si st, l.unstable.snapshot = some (si, st) → si ≠ 0) :
    (Z.Handout.advance (absN l) ⟨(absN l).snap, offOf (absN l), n⟩ = none → b.advance l2 rd = .panic .applied) ∧
    (∀ s', Z.Handout.advance (absN l) ⟨(absN l).snap, offOf (absN l), n⟩ = some s' →
      ∃ b' l3, b.advance l2 rd = .ok (b', l3) ∧ absN l3 = s' ∧ b'.needAdvance = false ∧
        l3.storage = l2.storage ∧ l3.unstable.snapshot = none) := by
  -- the cursor
  have hcur : NodeBk.appliedCursor rd =
      Z.Handout.appliedCursor ⟨(absN l).snap, offOf (absN l), n⟩ := by
    rw [appliedCursor_eq hc hl]
    unfold Z.Handout.appliedCursor
    simp only []
    split
    · rfl
    · rw [hs]
      show _ = match (l.unstable.snapshot.map (·.1)) with | some i => i | none => 0
      cases l.unstable.snapshot with
      | none => rfl
      | some p => rfl
  generalize hcv : Z.Handout.appliedCursor ⟨(absN l).snap, offOf (absN l), n⟩ = c at hcur
  -- the snapshot index recorded by Advance
  have hps : ∀ si st, l.unstable.snapshot = some (si, st) → (NodeBk.advancePrev b rd).prevSnapi = si := by
    intro si st h
    have hne := hpos si st h
    unfold NodeBk.advancePrev NodeBk.snapIsEmpty
    rw [hs, h]
    simp only []
    have : (si == 0) = false := by simp [hne]
    rw [this]
    simp only [Bool.false_eq_true, ↓reduceIte]
  have hsl : ∀ si st, l2.unstable.snapshot = some (si, st) → l2.unstable.entries = [] → si < l2.unstable.offset := by
    intro si st h _; rw [hu] at h ⊢; exact w.snapLt h
  -- what is left after appliedTo: stableTo, stableSnapTo
  have tail : ∀ (l1 : RaftLog), l1.storage = l2.storage → l1.unstable = l2.unstable → l1.committed = l.committed →
      ∃ b' l3, (match (if (NodeBk.advancePrev b rd).havePrevLastUnstablei
            then l1.stableTo (NodeBk.advancePrev b rd).prevLastUnstablei (NodeBk.advancePrev b rd).prevLastUnstablet
            else Res.ok l1) with
          | .panic p => Res.panic p
          | .err e => Res.err e
          | .ok l2' => Res.ok ({ NodeBk.advancePrev b rd with havePrevLastUnstablei := false, needAdvance := false },
              l2'.stableSnapTo (NodeBk.advancePrev b rd).prevSnapi)) = .ok (b', l3) ∧
        l3.applied = l1.applied ∧ l3.committed = l.committed ∧ l3.firstIndex = l.firstIndex ∧
        l3.unstable.snapshot = none ∧ b'.needAdvance = false ∧ l3.storage = l2.storage := by
    intro l1 h1 h2 h3
    have hsl1 : ∀ si st, l1.unstable.snapshot = some (si, st) → l1.unstable.entries = [] → si < l1.unstable.offset := by
      rw [h2]; exact hsl
    -- both branches leave the pointers, the storage and the pending snapshot alone
    have mid : ∃ u, (if (NodeBk.advancePrev b rd).havePrevLastUnstablei
            then l1.stableTo (NodeBk.advancePrev b rd).prevLastUnstablei (NodeBk.advancePrev b rd).prevLastUnstablet
            else Res.ok l1) = .ok { l1 with unstable := u } ∧ u.snapshot = l1.unstable.snapshot := by
      split
      · exact stableTo_weak l1 hsl1 _ _
      · exact ⟨l1.unstable, rfl, rfl⟩
    obtain ⟨u, hm, hus⟩ := mid
    rw [hm]
    simp only []
    refine ⟨_, _, rfl, ?_⟩
    have husn : u.snapshot = l.unstable.snapshot := by rw [hus, h2, hu]
    cases hsn : l.unstable.snapshot with
    | none =>
      have hun : u.snapshot = none := by rw [husn, hsn]
      have hss : (RaftLog.stableSnapTo { l1 with unstable := u } (NodeBk.advancePrev b rd).prevSnapi) =
          { l1 with unstable := u } := by
        apply (stableSnapTo_cases _ _).2; exact Or.inl hun
      rw [hss]
      refine ⟨rfl, h3, ?_, hun, rfl, h1⟩
      rw [RaftLog.firstIndex_none (l := { l1 with unstable := u }) hun]
      show l1.storage.firstIndex = _
      rw [h1]; exact hst
    | some p =>
      obtain ⟨si, st⟩ := p
      have hun : u.snapshot = some (si, st) := by rw [husn, hsn]
      have hss : (RaftLog.stableSnapTo { l1 with unstable := u } (NodeBk.advancePrev b rd).prevSnapi) =
          { l1 with unstable := { u with snapshot := none } } := by
        apply (stableSnapTo_cases _ _).1 si st hun
        exact (hps si st hsn).symm
      rw [hss]
      refine ⟨rfl, h3, ?_, rfl, rfl, h1⟩
      rw [RaftLog.firstIndex_none (l := { l1 with unstable := { u with snapshot := none } }) rfl]
      show l1.storage.firstIndex = _
      rw [h1]; exact hst
  -- the abstract side
  have habs : ∀ (a' : Nat), (⟨a', l.committed, l.firstIndex,
      if (Z.Handout.Ready.snapshot ⟨(absN l).snap, offOf (absN l), n⟩).isSome then none else (absN l).snap⟩ : St) =
      ⟨a', l.committed, l.firstIndex, none⟩ := by
    intro a'
    show (⟨a', l.committed, l.firstIndex, if ((absN l).snap).isSome then none else (absN l).snap⟩ : St) = _
    cases h : (absN l).snap <;> simp
  unfold Z.Handout.advance
  rw [hcv]
  simp only []
  unfold NodeBk.advance
  simp only []
  rw [hcur]
  by_cases h0 : c = 0
  · rw [if_pos h0]
    refine ⟨(fun h => nomatch h), fun s' h => ?_⟩
    injection h with h
    rw [if_neg (by omega)]
    simp only []
    obtain ⟨b', l3, t1, t2, t3, t4, t5, t6, t7⟩ := tail l2 rfl rfl hcm
    refine ⟨b', l3, t1, ?_, t6, t7, t5⟩
    rw [← h]
    show (⟨l3.applied, l3.committed, l3.firstIndex, l3.unstable.snapshot.map (·.1)⟩ : St) = _
    rw [t2, t3, t4, t5, hap]
    exact (habs l.applied).symm
  · rw [if_neg h0, if_pos h0]
    obtain ⟨_, a2, a3⟩ := appliedTo_cases l2 c
    by_cases hr : (absN l).committed < c ∨ c < (absN l).applied
    · rw [if_pos hr]
      refine ⟨fun _ => ?_, (fun s' h => nomatch h)⟩
      have hr' : l2.committed < c ∨ c < l2.applied := by rw [hcm, hap]; exact hr
      rw [a2 h0 hr']
    · rw [if_neg hr]
      refine ⟨(fun h => nomatch h), fun s' h => ?_⟩
      injection h with h
      have hr1 : l2.applied ≤ c := by rw [hap]; have : ¬ c < l.applied := fun hh => hr (Or.inr hh); omega
      have hr2 : c ≤ l2.committed := by rw [hcm]; have : ¬ l.committed < c := fun hh => hr (Or.inl hh); omega
      rw [a3 h0 hr1 hr2]
      simp only []
      obtain ⟨b', l3, t1, t2, t3, t4, t5, t6, t7⟩ := tail { l2 with applied := c } rfl rfl hcm
      refine ⟨b', l3, t1, ?_, t6, t7, t5⟩
      rw [← h]
      show (⟨l3.applied, l3.committed, l3.firstIndex, l3.unstable.snapshot.map (·.1)⟩ : St) = _
      rw [t2, t3, t4, t5]
      exact (habs c).symm

end Z.LogModel
