/-
  Executable model of the node driver's log-related bookkeeping in raft/node.go of this fork, over the
  log model `Z.LogModel.RaftLog`:
    `RestartNode` (`lastSteppedIndex = max(applied+1, firstIndex)`, `prevState`), `newReady`,
    `Ready.appliedCursor`, `Ready.containsUpdates`, `StepNode`'s `needAdvance` / `lastSteppedIndex`
    bookkeeping and its "index not continued" diagnostic, `Advance` (`appliedTo(appliedCursor)`,
    `stableTo(prevLastUnstablei, prevLastUnstablet)`, `stableSnapTo(prevSnapi)`).
  Scope: a node whose queues are empty (no message, tick, proposal, conf change), so Term / Vote / SoftState
  are constant and — Term being ≥ 1 — the Ready's HardState is non-empty exactly when the commit index
  differs from the previous hard state or there was no previous hard state.  Core only.
-/
import ZanVerif.Raft.LogModel
namespace Z.LogModel

/-- the log-related part of `Ready` -/
structure Ready where
  entries : List Entry            -- Ready.Entries = unstableEntries()
  committed : List Entry          -- Ready.CommittedEntries
  snapshot : Option (Nat × Nat)   -- (Index, Term) of Ready.Snapshot.Metadata when unstable.snapshot != nil
  more : Bool                     -- MoreCommittedEntries
  hard : Option Nat               -- HardState.Commit when the HardState is not empty
  deriving DecidableEq, Repr

/-- the log-related part of `node` + `prevState` (the raftLog itself is passed separately) -/
structure NodeBk where
  havePrevLastUnstablei : Bool
  prevLastUnstablei : Nat
  prevLastUnstablet : Nat
  prevSnapi : Nat
  prevHard : Option Nat           -- prevHardSt.Commit, none = emptyState
  needAdvance : Bool
  lastSteppedIndex : Nat
  deriving DecidableEq, Repr

inductive NodePanic where
  | loadState                     -- raft.loadState: "state.commit %d is out of range [%d, %d]"
  deriving DecidableEq, Repr

namespace NodeBk

/-- `RestartNode` over a storage whose hard state is {Term 1, Commit commit}: `newRaft` = `newLog` +
    `loadState` (none = its range panic), then `lastSteppedIndex = max(applied+1, firstIndex)` -/
def restart (storage : Storage) (maxNext commit : Nat) : Option (NodeBk × RaftLog) :=
  let l := RaftLog.newLog storage maxNext
  if commit < l.committed ∨ commit > l.lastIndex then none
  else
    let l := { l with committed := commit }
    some ({ havePrevLastUnstablei := false, prevLastUnstablei := 0, prevLastUnstablet := 0, prevSnapi := 0,
            prevHard := none, needAdvance := false, lastSteppedIndex := max (l.applied + 1) l.firstIndex }, l)

/-- `newReady(r, prevSoftSt, prevHardSt, moreEntriesToApply)`, log-related fields -/
def newReady (b : NodeBk) (l : RaftLog) (moreEntriesToApply : Bool) : Res Ready :=
  let ce : Res (List Entry) := if moreEntriesToApply then l.nextEnts else .ok []
  match ce with
  | .panic p => .panic p
  | .err e => .err e
  | .ok ces =>
    let more := match ces.getLast? with
      | some e => l.hasMoreNextEnts e.index
      | none => false
    .ok { entries := l.unstableEntries, committed := ces, snapshot := l.unstable.snapshot, more := more,
          hard := if b.prevHard = some l.committed then none else some l.committed }

/-- `IsEmptySnap(rd.Snapshot)` -/
def snapIsEmpty (rd : Ready) : Bool :=
  match rd.snapshot with
  | some (i, _) => i == 0
  | none => true

/-- `Ready.appliedCursor()` -/
def appliedCursor (rd : Ready) : Nat :=
  match rd.committed.getLast? with
  | some e => e.index
  | none =>
    match rd.snapshot with
    | some (i, _) => i
    | none => 0

/-- the log-related disjuncts of `Ready.containsUpdates()` -/
def containsUpdates (rd : Ready) : Bool :=
  rd.hard.isSome || !snapIsEmpty rd || rd.entries.length > 0 || rd.committed.length > 0

/-- `true` = StepNode logs its "index not continued" error line for this Ready -/
def notContinued (b : NodeBk) (rd : Ready) : Bool :=
  match rd.committed with
  | e :: _ => b.lastSteppedIndex ≠ 0 && e.index > b.lastSteppedIndex + 1
  | [] => false

/-- `StepNode(moreEntriesToApply, busySnap)` with empty queues: `none` = `(Ready{}, false)` -/
def stepNode (b : NodeBk) (l : RaftLog) (moreEntriesToApply : Bool) : Res (NodeBk × Option Ready) :=
  if b.needAdvance then .ok (b, none)
  else match b.newReady l moreEntriesToApply with
    | .panic p => .panic p
    | .err e => .err e
    | .ok rd =>
      if containsUpdates rd then
        let stepIndex0 := if snapIsEmpty rd then 0 else (match rd.snapshot with | some (i, _) => i | none => 0)
        let stepIndex := match rd.committed.getLast? with
          | some e => e.index
          | none => stepIndex0
        .ok ({ b with needAdvance := true, lastSteppedIndex := stepIndex }, some rd)
      else .ok (b, none)

/-- the `prevState` updates at the head of `Advance(rd)` -/
def advancePrev (b : NodeBk) (rd : Ready) : NodeBk :=
  let b1 : NodeBk := match rd.entries.getLast? with
    | some e => { b with prevLastUnstablei := e.index, prevLastUnstablet := e.term, havePrevLastUnstablei := true }
    | none => b
  let b2 : NodeBk := match rd.hard with
    | some c => { b1 with prevHard := some c }
    | none => b1
  if snapIsEmpty rd then b2 else
    (match rd.snapshot with | some (i, _) => { b2 with prevSnapi := i } | none => b2)

/-- `Advance(rd)` -/
def advance (b : NodeBk) (l : RaftLog) (rd : Ready) : Res (NodeBk × RaftLog) :=
  let b3 := advancePrev b rd
  let appliedI := appliedCursor rd
  let l1 : Res RaftLog := if appliedI ≠ 0 then l.appliedTo appliedI else .ok l
  match l1 with
  | .panic p => .panic p
  | .err e => .err e
  | .ok l1 =>
    let l2 : Res RaftLog :=
      if b3.havePrevLastUnstablei then l1.stableTo b3.prevLastUnstablei b3.prevLastUnstablet else .ok l1
    match l2 with
    | .panic p => .panic p
    | .err e => .err e
    | .ok l2 =>
      .ok ({ b3 with havePrevLastUnstablei := false, needAdvance := false }, l2.stableSnapTo b3.prevSnapi)

end NodeBk
end Z.LogModel
