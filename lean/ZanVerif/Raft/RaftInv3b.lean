/-
Scratch prototype for C02: frame lemmas per component of Inv3.
-/
import ZanVerif.Raft.RaftInv3a
namespace Z.RaftAbs
open Z.LogMatch

def KP (s : St) : Prop := ∀ q t k, acked s q t k → (s.log q).take k = pre s t k ∨ WitB s q t k
def VP (s : St) : Prop := ∀ q u c t k, (q, u, c) ∈ s.voted → t < u → acked s q t k → Good s t k →
        (s.candLog (c, u)).take k = pre s t k ∨ Wit s t k
def BP (vs : List Nat) (s : St) : Prop :=
  ∀ u t k, isElected s u → t < u → Good s t k → lacks s u t k → Blocked vs s t k
def QP (vs : List Nat) (s : St) : Prop := ∀ u, isElected s u → ∃ Q, IsQuorum vs Q ∧ ∀ q ∈ Q, u ≤ s.dterm q
def CPa (vs : List Nat) (s : St) (a : Nat) : Prop :=
  s.commit a = 0 ∨ ∃ t k, Good s t k ∧ t ≤ s.term a ∧ QAcked vs s t k ∧ s.commit a ≤ k ∧
        (s.log a).take (s.commit a) = (pre s t k).take (s.commit a)

def MPm (vs : List Nat) (s : St) (m : AppMsg) : Prop :=
  m.commit = 0 ∨ ∃ t k, Good s t k ∧ t ≤ m.term ∧ QAcked vs s t k ∧ m.commit ≤ k ∧
        (s.tlog m.term).take m.commit = (pre s t k).take m.commit

def HPh (vs : List Nat) (s : St) (h : Hb) : Prop :=
  h.commit = 0 ∨ (isElected s h.term ∧ (∃ k', sacked s h.to h.term k' ∧ h.commit ≤ k') ∧
        ∃ t k, Good s t k ∧ t ≤ h.term ∧ QAcked vs s t k ∧ h.commit ≤ k ∧
        (s.tlog h.term).take h.commit = (pre s t k).take h.commit)

def KdP (s : St) : Prop := ∀ q t k, sacked s q t k → (s.dlog q).take k = pre s t k ∨ WitBd s q t k
def CdPa (vs : List Nat) (s : St) (a : Nat) : Prop :=
  s.dcommit a = 0 ∨ ∃ t k, Good s t k ∧ t ≤ s.dterm a ∧ QAcked vs s t k ∧ s.dcommit a ≤ k ∧
        (s.dlog a).take (s.dcommit a) = (pre s t k).take (s.dcommit a)

variable {vs : List Nat}

theorem Inv3.mk' {s : St} (k : KP s) (v : VP s) (b : BP vs s) (q : QP vs s) (c : ∀ a, CPa vs s a)
    (m : ∀ m ∈ s.msgs, MPm vs s m) (h : ∀ h ∈ s.hbs, HPh vs s h) (kd : KdP s) (cd : ∀ a, CdPa vs s a) :
    Inv3 vs s := ⟨k, v, b, q, c, m, h, kd, cd⟩

theorem Kd_frame {s s' : St} (E : Ext s s') (d1 : InvD1 s) (i1 : Inv1 s) (i2 : Inv2 s) (i3 : Inv3 vs s)
    (hs : s'.sacks = s.sacks) (hd : s'.dlog = s.dlog) : KdP s' := by
  intro q t k ha
  have ha' : sacked s q t k := by unfold sacked at *; rw [hs] at ha; exact ha
  obtain ⟨_, hp, h⟩ := Kd_old E d1 i1 i2 i3 ha'
  rw [hd, hp]; exact h

theorem Cd_frame {s s' : St} (E : Ext s s') (i3 : Inv3 vs s) (hc : s'.dcommit = s.dcommit)
    (hd : s'.dlog = s.dlog) (a : Nat) : CdPa vs s' a :=
  Cd_old E i3 (by rw [hc]) (by rw [hd])

theorem H_frame {s s' : St} (E : Ext s s') (i3 : Inv3 vs s) (hhbs : s'.hbs = s.hbs) :
    ∀ h ∈ s'.hbs, HPh vs s' h := by
  intro h hh; rw [hhbs] at hh; exact H_old E i3 hh

theorem M_frame {s s' : St} (E : Ext s s') (i3 : Inv3 vs s) (hmsgs : s'.msgs = s.msgs) :
    ∀ m ∈ s'.msgs, MPm vs s' m := by
  intro m hm; rw [hmsgs] at hm; exact M_old E i3 hm

theorem K_frame {s s' : St} (E : Ext s s') (i1 : Inv1 s) (i2 : Inv2 s) (i3 : Inv3 vs s)
    (hterm : ∀ q, s.term q ≤ s'.term q)
    (hacks : s'.acks = s.acks) (hlog : s'.log = s.log) : KP s' := by
  intro q t k ha
  have ha' := (acked_same hacks).mp ha
  obtain ⟨_, hp, h⟩ := K_old E i1 i2 i3 (hterm q) ha'
  rw [hlog, hp]; exact h

theorem V_frame {s s' : St} (E : Ext s s') (i1 : Inv1 s) (i2 : Inv2 s) (i3 : Inv3 vs s)
    (hvoted : s'.voted = s.voted)
    (hcand : ∀ q u c, (q, u, c) ∈ s.voted → s'.candLog (c, u) = s.candLog (c, u)) : VP s' := by
  intro q u c t k hv htu ha hg
  rw [hvoted] at hv
  obtain ⟨_, hp, h⟩ := V_old E i1 i2 i3 hv htu ha hg
  rw [hcand q u c hv, hp]; exact h

theorem B_frame {s s' : St} (E : Ext s s') (d1 : InvD1 s) (i1 : Inv1 s) (i3 : Inv3 vs s)
    (hel : s'.elected = s.elected) : BP vs s' := by
  intro u t k hu htu hg hl
  have hu' : isElected s u := by unfold isElected at *; rw [hel] at hu; exact hu
  exact B_old E d1 i1 i3 hu' htu hg hl

theorem Q_frame {s s' : St} (E : Ext s s') (i3 : Inv3 vs s)
    (hel : s'.elected = s.elected) : QP vs s' := by
  intro u hu
  have hu' : isElected s u := by unfold isElected at *; rw [hel] at hu; exact hu
  exact elQ_old E i3 hu'

theorem commit_le_len {s : St} (i3 : Inv3 vs s) (a : Nat) : s.commit a ≤ (s.log a).length := by
  rcases i3.C a with h | ⟨t, k, g, _, _, hck, hlog⟩
  · omega
  · have := congrArg List.length hlog
    have h2 := g.2.1
    simp only [pre, List.length_take] at this
    omega

theorem C_frame {s s' : St} (E : Ext s s') (i3 : Inv3 vs s) (hterm : ∀ q, s.term q ≤ s'.term q)
    (hc : s'.commit = s.commit)
    (hlog : s'.log = s.log) (a : Nat) : CPa vs s' a :=
  C_old E i3 (hterm a) (by rw [hc]) (by rw [hlog])

/-- the leader-side steps: one node appends to its own log, which is the ghost log of its term -/
theorem K_append {s s' : St} (E : Ext s s') (i1 : Inv1 s) (i2 : Inv2 s) (i3 : Inv3 vs s)
    (hterm : ∀ q, s.term q ≤ s'.term q)
    {c tn kn : Nat} {x : Log} (hlog : s'.log = upd s.log c (s.log c ++ x))
    (hacks : s'.acks = (c, tn, kn) :: s.acks) (htl : s'.tlog tn = s.log c ++ x) : KP s' := by
  intro q t k ha
  rcases acked_of_cons hacks ha with ⟨rfl, rfl, _⟩ | ha'
  · left; unfold pre; rw [hlog, upd_same, htl]
  · obtain ⟨g, hp, h⟩ := K_old E i1 i2 i3 (hterm q) ha'
    rcases h with h | h
    · left
      rw [hp, hlog]
      by_cases hq : q = c
      · subst hq
        rw [upd_same]
        have hk : k ≤ (s.log q).length := by
          have := congrArg List.length h
          rw [pre_length g, List.length_take] at this; omega
        rw [List.take_append_of_le_length hk]; exact h
      · rw [upd_other _ _ _ _ hq]; exact h
    · exact Or.inr h

theorem C_append {s s' : St} (E : Ext s s') (i3 : Inv3 vs s) (hterm : ∀ q, s.term q ≤ s'.term q)
    {c : Nat} {x : Log} (hlog : s'.log = upd s.log c (s.log c ++ x))
    (hc : s'.commit = s.commit) (a : Nat) : CPa vs s' a := by
  apply C_old E i3 (hterm a) (by rw [hc])
  rw [hlog]
  by_cases ha : a = c
  · subst ha
    rw [upd_same, List.take_append_of_le_length (commit_le_len i3 a)]
  · rw [upd_other _ _ _ _ ha]

end Z.RaftAbs
