/-
Scratch prototype: the election bookkeeping invariants are inductive.
-/
import ZanVerif.Raft.RaftInv1
namespace Z.RaftAbs
open Z.LogMatch

variable {vs : List Nat}

/-- steps that leave votes, campaigns, elections, roles and terms alone -/
theorem inv0_same {s s' : St} (i0 : Inv0 vs s) (h1 : s'.voted = s.voted) (h2 : s'.camp = s.camp)
    (h3 : s'.elected = s.elected) (h4 : s'.role = s.role) (h5 : s'.term = s.term)
    (h6 : s'.scamp = s.scamp) (h7 : s'.svoted = s.svoted) : Inv0 vs s' := by
  refine ⟨?_, ?_, ?_, ?_, ?_⟩
  · rw [h1]; exact i0.votedFun
  · rw [h1, h2]; exact i0.selfVote
  · rw [h6, h3]; exact i0.elScamp
  · rw [h7, h3]; exact i0.electedQ
  · rw [h3, h4, h5]; exact i0.candNE

/-- steps that make one node a follower (possibly in a new term) -/
theorem inv0_follow {s s' : St} (i0 : Inv0 vs s) {q t : Nat} (h1 : s'.voted = s.voted) (h2 : s'.camp = s.camp)
    (h3 : s'.elected = s.elected) (h4 : s'.role = upd s.role q Role.follower)
    (h5 : s'.term = upd s.term q t)
    (h6 : s'.scamp = s.scamp) (h7 : s'.svoted = s.svoted) : Inv0 vs s' := by
  refine ⟨?_, ?_, ?_, ?_, ?_⟩
  · rw [h1]; exact i0.votedFun
  · rw [h1, h2]; exact i0.selfVote
  · rw [h6, h3]; exact i0.elScamp
  · rw [h7, h3]; exact i0.electedQ
  · rw [h3, h4, h5]
    intro c hr
    by_cases h : c = q
    · subst h; simp at hr
    · rw [upd_other _ _ _ _ h] at hr ⊢; exact i0.candNE c hr

variable (vs)

theorem inv0_step {s s' : St} (i0 : Inv0 vs s) (d1 : InvD1 s) (i1 : Inv1 s) (st : Step vs s s') : Inv0 vs s' := by
  cases st with
  | campaign c t ht =>
    refine ⟨i0.votedFun, ?_, ?_, i0.electedQ, ?_⟩
    · intro q t' c' hv hc
      dsimp only at hv hc
      rcases List.mem_cons.mp hc with e | hc
      · cases e
        have := (i1.votedOk c t c' hv).1; omega
      · exact i0.selfVote q t' c' hv hc
    · exact i0.elScamp
    · intro c' hr
      dsimp only at hr ⊢
      by_cases h : c' = c
      · subst h
        rw [upd_same]
        intro hel
        have := i1.elTerm c' t hel; omega
      · rw [upd_other _ _ _ _ h] at hr ⊢; exact i0.candNE c' hr
  | grant q t c hc ht hq hup hvote hself =>
    refine ⟨?_, ?_, i0.elScamp, i0.electedQ, ?_⟩
    · intro q' t' c1 c2 h1 h2
      dsimp only at h1 h2
      rcases List.mem_cons.mp h1 with e1 | h1 <;> rcases List.mem_cons.mp h2 with e2 | h2
      · cases e1; cases e2; rfl
      · cases e1; exact (hvote c2 h2).symm
      · cases e2; exact hvote c1 h1
      · exact i0.votedFun q' t' c1 c2 h1 h2
    · intro q' t' c' hv
      dsimp only at hv ⊢
      rcases List.mem_cons.mp hv with e | hv
      · cases e; exact hself
      · exact i0.selfVote q' t' c' hv
    · intro c' hr
      dsimp only at hr ⊢
      by_cases hlt : s.term q < t
      · simp only [hlt, ↓reduceIte] at hr
        by_cases h : c' = q
        · subst h; simp at hr
        · rw [upd_other _ _ _ _ h] at hr ⊢; exact i0.candNE c' hr
      · simp only [hlt, ↓reduceIte] at hr
        by_cases h : c' = q
        · subst h
          have : s.term c' = t := by omega
          rw [upd_same, ← this]; exact i0.candNE c' hr
        · rw [upd_other _ _ _ _ h]; exact i0.candNE c' hr
  | becomeLeader c t Q hr ht hsc hQ hv =>
    refine ⟨i0.votedFun, i0.selfVote, ?_, ?_, ?_⟩
    · intro c' t' hel
      dsimp only at hel ⊢
      rcases List.mem_cons.mp hel with e | hel
      · cases e; exact hsc
      · exact i0.elScamp c' t' hel
    · intro c' t' hel
      dsimp only at hel ⊢
      rcases List.mem_cons.mp hel with e | hel
      · cases e; exact ⟨Q, hQ, hv⟩
      · exact i0.electedQ c' t' hel
    · intro c' hr'
      dsimp only at hr' ⊢
      by_cases h : c' = c
      · subst h; simp at hr'
      · rw [upd_other _ _ _ _ h] at hr'
        intro hel
        rcases List.mem_cons.mp hel with e | hel
        · exact h (Prod.mk.inj e).1
        · exact i0.candNE c' hr' hel
  | propose c d hr => exact inv0_same i0 rfl rfl rfl rfl rfl rfl rfl
  | sendApp c prev n cm hr hb hcm => exact inv0_same i0 rfl rfl rfl rfl rfl rfl rfl
  | recvApp q m hm ht hnl hprev hmatch => exact inv0_follow i0 rfl rfl rfl rfl rfl rfl rfl
  | ackStale q m hm ht hnl hlt => exact inv0_follow i0 rfl rfl rfl rfl rfl rfl rfl
  | restore q m hm ht hnl hn hc hgt hno => exact inv0_follow i0 rfl rfl rfl rfl rfl rfl rfl
  | sendHb c q cm k hr hcm hk hcmk => exact inv0_same i0 rfl rfl rfl rfl rfl rfl rfl
  | recvHb q h hh hto ht hnl => exact inv0_follow i0 rfl rfl rfl rfl rfl rfl rfl
  | commitLeader c k Q hr hk1 hk hterm hQ hack => exact inv0_same i0 rfl rfl rfl rfl rfl rfl rfl
  | bump j t ht => exact inv0_follow i0 rfl rfl rfl rfl rfl rfl rfl
  | restart j =>
    refine ⟨i0.votedFun, i0.selfVote, i0.elScamp, i0.electedQ, ?_⟩
    intro c hr
    dsimp only at hr ⊢
    by_cases h : c = j
    · subst h; simp at hr
    · rw [upd_other _ _ _ _ h] at hr; exact i0.candNE c hr
  | flush j =>
    refine ⟨i0.votedFun, i0.selfVote, ?_, ?_, i0.candNE⟩
    · intro c t h; exact List.mem_append_right _ (i0.elScamp c t h)
    · intro c t hel
      obtain ⟨Q, hQ, hv⟩ := i0.electedQ c t hel
      refine ⟨Q, hQ, fun x hx => ?_⟩
      rcases hv x hx with e | h
      · exact Or.inl e
      · exact Or.inr (List.mem_append_right _ h)
  | crash j =>
    refine ⟨?_, ?_, i0.elScamp, i0.electedQ, ?_⟩
    · intro q t c c' h1 h2
      exact i0.votedFun q t c c' (List.mem_filter.mp h1).1 (List.mem_filter.mp h2).1
    · intro q t c h1 h2
      exact i0.selfVote q t c (List.mem_filter.mp h1).1 (List.mem_filter.mp h2).1
    · intro c hr
      dsimp only at hr ⊢
      by_cases h : c = j
      · subst h; simp at hr
      · rw [upd_other _ _ _ _ h] at hr ⊢; exact i0.candNE c hr

/-! ### durable bookkeeping -/

theorem invD1_mono {s s' : St} (d : InvD1 s) (h1 : s'.dterm = s.dterm) (h2 : s'.scamp = s.scamp)
    (h3 : s'.svoted = s.svoted) (h4 : s'.sacks = s.sacks) (ht : ∀ q, s.term q ≤ s'.term q)
    (hc : ∀ x ∈ s.camp, x ∈ s'.camp) (hv : ∀ x ∈ s.voted, x ∈ s'.voted)
    (ha : ∀ x ∈ s.acks, x ∈ s'.acks) : InvD1 s' := by
  refine ⟨?_, ?_, ?_, ?_, ?_, ?_, ?_⟩
  · intro q; rw [h1]; exact Nat.le_trans (d.dtermLe q) (ht q)
  · rw [h1, h2]; exact d.scampOk
  · rw [h1, h3]; exact d.svotedOk
  · rw [h1, h4]; exact d.sackOk
  · rw [h2]; intro x hx; exact hc x (d.scSub x hx)
  · rw [h3]; intro x hx; exact hv x (d.svSub x hx)
  · rw [h4]; intro x hx; exact ha x (d.saSub x hx)

theorem invD1_step {s s' : St} (d : InvD1 s) (i1 : Inv1 s) (st : Step vs s s') : InvD1 s' := by
  have id : ∀ {α} (l : List α), ∀ x ∈ l, x ∈ l := fun _ _ h => h
  have le : ∀ q, s.term q ≤ s.term q := fun _ => Nat.le_refl _
  cases st with
  | campaign c t ht =>
    exact invD1_mono d rfl rfl rfl rfl (le_upd s.term c t (Nat.le_of_lt ht))
      (fun x hx => List.mem_cons_of_mem _ hx) (id _) (id _)
  | grant q t c hc ht hq hup hvote hself =>
    exact invD1_mono d rfl rfl rfl rfl (le_upd s.term q t ht) (id _)
      (fun x hx => List.mem_cons_of_mem _ hx) (id _)
  | becomeLeader c t Q hr ht hsc hQ hv =>
    exact invD1_mono d rfl rfl rfl rfl le (id _) (id _) (fun x hx => List.mem_cons_of_mem _ hx)
  | propose c d' hr =>
    exact invD1_mono d rfl rfl rfl rfl le (id _) (id _) (fun x hx => List.mem_cons_of_mem _ hx)
  | sendApp c prev n cm hr hb hcm => exact invD1_mono d rfl rfl rfl rfl le (id _) (id _) (id _)
  | recvApp q m hm ht hnl hprev hmatch =>
    exact invD1_mono d rfl rfl rfl rfl (le_upd s.term q m.term ht) (id _) (id _)
      (fun x hx => List.mem_cons_of_mem _ hx)
  | ackStale q m hm ht hnl hlt =>
    exact invD1_mono d rfl rfl rfl rfl (le_upd s.term q m.term ht) (id _) (id _)
      (fun x hx => List.mem_cons_of_mem _ hx)
  | restore q m hm ht hnl hn hc hgt hno =>
    exact invD1_mono d rfl rfl rfl rfl (le_upd s.term q m.term ht) (id _) (id _)
      (fun x hx => List.mem_cons_of_mem _ hx)
  | sendHb c q cm k hr hcm hk hcmk => exact invD1_mono d rfl rfl rfl rfl le (id _) (id _) (id _)
  | recvHb q h hh hto ht hnl =>
    exact invD1_mono d rfl rfl rfl rfl (le_upd s.term q h.term ht) (id _) (id _) (id _)
  | commitLeader c k Q hr hk1 hk hterm hQ hack =>
    exact invD1_mono d rfl rfl rfl rfl le (id _) (id _) (id _)
  | bump j t ht =>
    exact invD1_mono d rfl rfl rfl rfl (le_upd s.term j t (Nat.le_of_lt ht)) (id _) (id _) (id _)
  | restart j => exact invD1_mono d rfl rfl rfl rfl le (id _) (id _) (id _)
  | flush j =>
    have hd : ∀ q, s.dterm q ≤ upd s.dterm j (s.term j) q := le_upd s.dterm j (s.term j) (d.dtermLe j)
    refine ⟨?_, ?_, ?_, ?_, ?_, ?_, ?_⟩
    · intro q
      dsimp only
      by_cases h : q = j
      · subst h; simp
      · rw [upd_other _ _ _ _ h]; exact d.dtermLe q
    · intro c t h
      dsimp only at h ⊢
      rcases List.mem_append.mp h with h | h
      · rw [List.mem_filter] at h
        have e : c = j := by simpa using h.2
        subst e; rw [upd_same]; exact i1.campTerm c t h.1
      · exact Nat.le_trans (d.scampOk c t h) (hd c)
    · intro q t c h
      dsimp only at h ⊢
      rcases List.mem_append.mp h with h | h
      · rw [List.mem_filter] at h
        have e : q = j := by simpa using h.2
        subst e; rw [upd_same]; exact (i1.votedOk q t c h.1).1
      · exact Nat.le_trans (d.svotedOk q t c h) (hd q)
    · intro q t k h
      dsimp only at h ⊢
      rcases List.mem_append.mp h with h | h
      · rw [List.mem_filter] at h
        have e : q = j := by simpa using h.2
        subst e; rw [upd_same]; exact (i1.ackOk q t k h.1).1
      · exact Nat.le_trans (d.sackOk q t k h) (hd q)
    · intro x h
      rcases List.mem_append.mp h with h | h
      · exact (List.mem_filter.mp h).1
      · exact d.scSub x h
    · intro x h
      rcases List.mem_append.mp h with h | h
      · exact (List.mem_filter.mp h).1
      · exact d.svSub x h
    · intro x h
      rcases List.mem_append.mp h with h | h
      · exact (List.mem_filter.mp h).1
      · exact d.saSub x h
  | crash j =>
    refine ⟨?_, d.scampOk, d.svotedOk, d.sackOk, ?_, ?_, ?_⟩
    · intro q
      dsimp only
      by_cases h : q = j
      · subst h; simp
      · rw [upd_other _ _ _ _ h]; exact d.dtermLe q
    · intro x h
      exact List.mem_filter.mpr ⟨d.scSub x h, by simp [h]⟩
    · intro x h
      exact List.mem_filter.mpr ⟨d.svSub x h, by simp [h]⟩
    · intro x h
      exact List.mem_filter.mpr ⟨d.saSub x h, by simp [h]⟩

end Z.RaftAbs
