/-
Scratch prototype for C02: layer 1 invariants (bookkeeping of terms, elections, candidates, votes,
acks, messages, leader log = ghost log).
-/
import ZanVerif.Raft.RaftInv0
namespace Z.RaftAbs
open Z.LogMatch

structure Inv1 (s : St) : Prop where
  leadEl : ∀ c, s.role c = Role.leader → (c, s.term c) ∈ s.elected
  elTerm : ∀ c t, (c, t) ∈ s.elected → t ≤ s.term c
  elUniq : ∀ c c' t, (c, t) ∈ s.elected → (c', t) ∈ s.elected → c = c'
  candOk : ∀ c, s.role c = Role.candidate → (c, s.term c) ∈ s.camp ∧ s.candLog (c, s.term c) = s.log c
  campTerm : ∀ c t, (c, t) ∈ s.camp → t ≤ s.term c
  votedOk : ∀ q t c, (q, t, c) ∈ s.voted → t ≤ s.term q ∧ (c, t) ∈ s.scamp
  ackOk : ∀ q t k, (q, t, k) ∈ s.acks → t ≤ s.term q ∧ isElected s t ∧ k ≤ (s.tlog t).length
  msgOk : ∀ m ∈ s.msgs, isElected s m.term ∧ m.prev + m.n ≤ (s.tlog m.term).length ∧
            m.ents = ((s.tlog m.term).drop m.prev).take m.n
  leadLog : ∀ c, s.role c = Role.leader → s.log c = s.tlog (s.term c)

/-- what a node has committed lies in the ghost log of every elected term it can still follow
    (a consequence of the layer-3 invariants; layer 1 needs it for the stale-append ack) -/
def CommitIn (s : St) : Prop :=
  ∀ q u, isElected s u → s.term q ≤ u →
    s.commit q ≤ (s.tlog u).length ∧ (s.log q).take (s.commit q) = (s.tlog u).take (s.commit q)

theorem drop_take_append {α} (L x : List α) (p n : Nat) (h : p + n ≤ L.length) :
    ((L ++ x).drop p).take n = (L.drop p).take n := by
  rw [List.drop_append_of_le_length (by omega), List.take_append_of_le_length (by simp; omega)]

theorem le_upd (f : Nat → Nat) (j t : Nat) (h : f j ≤ t) (x : Nat) : f x ≤ upd f j t x := by
  by_cases hx : x = j
  · subst hx; simpa using h
  · simp [upd_other _ _ _ _ hx]

variable (vs : List Nat)

theorem inv1_step {s s' : St} (i0 : Inv0 vs s) (d1 : InvD1 s) (inv : Inv1 s) (hci : CommitIn s) (st : Step vs s s') : Inv1 s' := by
  cases st with
  | campaign c t ht =>
    constructor
    · intro c' hr
      by_cases h : c' = c
      · subst h; simp at hr
      · simp only [upd_other _ _ _ _ h] at hr ⊢; exact inv.leadEl c' hr
    · intro c' t' h
      have := inv.elTerm c' t' h
      by_cases hc : c' = c
      · subst hc; simp only [upd_same]; omega
      · simp only [upd_other _ _ _ _ hc]; exact this
    · exact inv.elUniq
    · intro c' hr
      by_cases h : c' = c
      · subst h; simp [updP]
      · simp only [upd_other _ _ _ _ h] at hr ⊢
        have := inv.candOk c' hr
        refine ⟨List.mem_cons_of_mem _ this.1, ?_⟩
        have hne : (c', s.term c') ≠ (c, t) := fun e => h (Prod.mk.inj e).1
        simp only [updP, hne, ↓reduceIte]; exact this.2
    · intro c' t' h
      simp only [List.mem_cons, Prod.mk.injEq] at h
      rcases h with ⟨rfl, rfl⟩ | h
      · simp
      · have := inv.campTerm c' t' h
        by_cases hc : c' = c
        · subst hc; simp only [upd_same]; omega
        · simp only [upd_other _ _ _ _ hc]; exact this
    · intro q t' c' h
      have := inv.votedOk q t' c' h
      refine ⟨?_, this.2⟩
      by_cases hc : q = c
      · subst hc; simp only [upd_same]; omega
      · simp only [upd_other _ _ _ _ hc]; exact this.1
    · intro q t' k h
      have := inv.ackOk q t' k h
      refine ⟨?_, this.2⟩
      by_cases hc : q = c
      · subst hc; simp only [upd_same]; omega
      · simp only [upd_other _ _ _ _ hc]; exact this.1
    · exact inv.msgOk
    · intro c' hr
      by_cases h : c' = c
      · subst h; simp at hr
      · simp only [upd_other _ _ _ _ h] at hr ⊢; exact inv.leadLog c' hr
  | grant q t c hc ht hq hup hvote hself =>
    have hmono := le_upd s.term q t ht
    have hrole : ∀ x, (if s.term q < t then upd s.role q Role.follower else s.role) x = s.role x ∨
        (x = q ∧ s.term q < t ∧ (if s.term q < t then upd s.role q Role.follower else s.role) x = Role.follower) := by
      intro x
      by_cases hlt : s.term q < t
      · by_cases hx : x = q
        · subst hx; exact Or.inr ⟨rfl, hlt, by simp [hlt]⟩
        · exact Or.inl (by simp [hlt, upd_other _ _ _ _ hx])
      · exact Or.inl (by simp [hlt])
    have hterm_same : ∀ x, (if s.term q < t then upd s.role q Role.follower else s.role) x ≠ Role.follower →
        upd s.term q t x = s.term x ∨ (if s.term q < t then upd s.role q Role.follower else s.role) x = s.role x ∧ x = q ∧ s.term q = t := by
      intro x hne
      rcases hrole x with h | ⟨_, _, h⟩
      · by_cases hx : x = q
        · subst hx
          by_cases hlt : s.term x < t
          · simp [hlt] at hne
          · exact Or.inr ⟨h, rfl, by omega⟩
        · exact Or.inl (upd_other _ _ _ _ hx)
      · exact absurd h hne
    constructor
    · intro c' hr
      dsimp only at hr ⊢
      rcases hrole c' with h | ⟨_, _, h⟩
      · rw [h] at hr
        have hx := hterm_same c' (by rw [h, hr]; intro e; cases e)
        rcases hx with hx | ⟨_, rfl, he⟩
        · simp only [hx]; exact inv.leadEl c' hr
        · simp only [upd_same, ← he]; exact inv.leadEl c' hr
      · rw [h] at hr; cases hr
    · intro c' t' h; exact Nat.le_trans (inv.elTerm c' t' h) (hmono c')
    · exact inv.elUniq
    · intro c' hr
      dsimp only at hr ⊢
      rcases hrole c' with h | ⟨_, _, h⟩
      · rw [h] at hr
        have hx := hterm_same c' (by rw [h, hr]; intro e; cases e)
        rcases hx with hx | ⟨_, rfl, he⟩
        · simp only [hx]; exact inv.candOk c' hr
        · simp only [upd_same, ← he]; exact inv.candOk c' hr
      · rw [h] at hr; cases hr
    · intro c' t' h; exact Nat.le_trans (inv.campTerm c' t' h) (hmono c')
    · intro q' t' c' h
      simp only [List.mem_cons, Prod.mk.injEq] at h
      rcases h with ⟨rfl, rfl, rfl⟩ | h
      · exact ⟨by simp, hc⟩
      · have := inv.votedOk q' t' c' h
        exact ⟨Nat.le_trans this.1 (hmono q'), this.2⟩
    · intro q' t' k h
      have := inv.ackOk q' t' k h
      exact ⟨Nat.le_trans this.1 (hmono q'), this.2⟩
    · exact inv.msgOk
    · intro c' hr
      dsimp only at hr ⊢
      rcases hrole c' with h | ⟨_, _, h⟩
      · rw [h] at hr
        have hx := hterm_same c' (by rw [h, hr]; intro e; cases e)
        rcases hx with hx | ⟨_, rfl, he⟩
        · simp only [hx]; exact inv.leadLog c' hr
        · simp only [upd_same, ← he]; exact inv.leadLog c' hr
      · rw [h] at hr; cases hr
  | becomeLeader c t Q hr ht hsc hQ hv =>
    have fresh := fresh_of i0 d1 hr ht (ht ▸ (inv.candOk c hr).1) hQ hv
    have hel : ∀ t', isElected s t' → t' ≠ t := by
      intro t' ⟨c', h⟩ e; subst e; exact fresh c' h
    have hel' : ∀ t', isElected s t' → isElected { s with
        role := upd s.role c Role.leader
        log := upd s.log c (s.log c ++ [⟨t, 0⟩])
        tlog := upd s.tlog t (s.log c ++ [⟨t, 0⟩])
        elected := (c, t) :: s.elected
        acks := (c, t, (s.log c).length + 1) :: s.acks } t' := by
      intro t' ⟨c', h⟩; exact ⟨c', List.mem_cons_of_mem _ h⟩
    constructor
    · intro c' hr'
      dsimp only at hr' ⊢
      by_cases h : c' = c
      · subst h; rw [ht]; exact List.mem_cons_self
      · rw [upd_other _ _ _ _ h] at hr'; exact List.mem_cons_of_mem _ (inv.leadEl c' hr')
    · intro c' t' h
      dsimp only at h ⊢
      rcases List.mem_cons.mp h with e | h
      · cases e; omega
      · exact inv.elTerm c' t' h
    · intro c1 c2 t' h1 h2
      dsimp only at h1 h2
      rcases List.mem_cons.mp h1 with e1 | h1 <;> rcases List.mem_cons.mp h2 with e2 | h2
      · cases e1; cases e2; rfl
      · cases e1; exact absurd h2 (fresh c2)
      · cases e2; exact absurd h1 (fresh c1)
      · exact inv.elUniq c1 c2 t' h1 h2
    · intro c' hr'
      dsimp only at hr' ⊢
      by_cases h : c' = c
      · subst h; simp at hr'
      · rw [upd_other _ _ _ _ h] at hr' ⊢; exact inv.candOk c' hr'
    · exact inv.campTerm
    · exact inv.votedOk
    · intro q' t' k h
      dsimp only at h ⊢
      rcases List.mem_cons.mp h with e | h
      · cases e
        refine ⟨by omega, ⟨c, List.mem_cons_self⟩, ?_⟩
        simp
      · have := inv.ackOk q' t' k h
        refine ⟨this.1, hel' t' this.2.1, ?_⟩
        rw [upd_other _ _ _ _ (hel t' this.2.1)]; exact this.2.2
    · intro m hm
      have := inv.msgOk m hm
      dsimp only at hm ⊢
      refine ⟨hel' _ this.1, ?_⟩
      rw [upd_other _ _ _ _ (hel _ this.1)]; exact this.2
    · intro c' hr'
      dsimp only at hr' ⊢
      by_cases h : c' = c
      · subst h; simp [ht]
      · rw [upd_other _ _ _ _ h] at hr' ⊢
        have hne : s.term c' ≠ t := by
          intro e; exact fresh c' (e ▸ inv.leadEl c' hr')
        rw [upd_other _ _ _ _ hne]; exact inv.leadLog c' hr'
  | propose c d hr =>
    have hL := inv.leadLog c hr
    have hlen : ∀ t', (s.tlog t').length ≤ (upd s.tlog (s.term c) (s.log c ++ [⟨s.term c, d⟩]) t').length := by
      intro t'
      by_cases h : t' = s.term c
      · subst h; simp [hL]
      · rw [upd_other _ _ _ _ h]; exact Nat.le_refl _
    constructor
    · exact inv.leadEl
    · exact inv.elTerm
    · exact inv.elUniq
    · intro c' hr'
      dsimp only at hr' ⊢
      have h : c' ≠ c := by intro e; subst e; rw [hr] at hr'; cases hr'
      rw [upd_other _ _ _ _ h]; exact inv.candOk c' hr'
    · exact inv.campTerm
    · exact inv.votedOk
    · intro q' t' k h
      dsimp only at h ⊢
      rcases List.mem_cons.mp h with e | h
      · cases e
        refine ⟨Nat.le_refl _, ⟨c, inv.leadEl c hr⟩, ?_⟩
        simp
      · have := inv.ackOk q' t' k h
        exact ⟨this.1, this.2.1, Nat.le_trans this.2.2 (hlen t')⟩
    · intro m hm
      have := inv.msgOk m hm
      dsimp only at hm ⊢
      refine ⟨this.1, Nat.le_trans this.2.1 (hlen _), ?_⟩
      by_cases h : m.term = s.term c
      · have h2 := this.2
        rw [h, ← hL] at h2
        rw [h, upd_same, drop_take_append _ _ _ _ h2.1]; exact h2.2
      · rw [upd_other _ _ _ _ h]; exact this.2.2
    · intro c' hr'
      dsimp only at hr' ⊢
      by_cases h : c' = c
      · subst h; simp
      · rw [upd_other _ _ _ _ h]
        have hne : s.term c' ≠ s.term c := by
          intro e
          have h1 := inv.leadEl c' hr'
          rw [e] at h1
          exact h (inv.elUniq c' c _ h1 (inv.leadEl c hr))
        rw [upd_other _ _ _ _ hne]; exact inv.leadLog c' hr'
  | sendApp c prev n cm hr hb hcm =>
    refine ⟨inv.leadEl, inv.elTerm, inv.elUniq, inv.candOk, inv.campTerm, inv.votedOk, inv.ackOk, ?_, inv.leadLog⟩
    intro m hm
    dsimp only at hm
    rcases List.mem_cons.mp hm with e | hm
    · subst e
      dsimp only
      rw [← inv.leadLog c hr]
      exact ⟨⟨c, inv.leadEl c hr⟩, hb, rfl⟩
    · exact inv.msgOk m hm
  | recvApp q m hm ht hnl hprev hmatch =>
    have hmono := le_upd s.term q m.term ht
    have hmok := inv.msgOk m hm
    constructor
    · intro c' hr'
      dsimp only at hr' ⊢
      by_cases h : c' = q
      · subst h; simp at hr'
      · rw [upd_other _ _ _ _ h] at hr' ⊢; exact inv.leadEl c' hr'
    · intro c' t' h; exact Nat.le_trans (inv.elTerm c' t' h) (hmono c')
    · exact inv.elUniq
    · intro c' hr'
      dsimp only at hr' ⊢
      by_cases h : c' = q
      · subst h; simp at hr'
      · rw [upd_other _ _ _ _ h] at hr' ⊢; rw [upd_other _ _ _ _ h]; exact inv.candOk c' hr'
    · intro c' t' h; exact Nat.le_trans (inv.campTerm c' t' h) (hmono c')
    · intro q' t' c' h
      have := inv.votedOk q' t' c' h
      exact ⟨Nat.le_trans this.1 (hmono q'), this.2⟩
    · intro q' t' k h
      dsimp only at h ⊢
      rcases List.mem_cons.mp h with e | h
      · cases e
        exact ⟨by simp, hmok.1, hmok.2.1⟩
      · have := inv.ackOk q' t' k h
        exact ⟨Nat.le_trans this.1 (hmono q'), this.2⟩
    · exact inv.msgOk
    · intro c' hr'
      dsimp only at hr' ⊢
      by_cases h : c' = q
      · subst h; simp at hr'
      · rw [upd_other _ _ _ _ h] at hr' ⊢; rw [upd_other _ _ _ _ h]; exact inv.leadLog c' hr'
  | ackStale q m hm ht hnl hlt =>
    have hmono := le_upd s.term q m.term ht
    have hmok := inv.msgOk m hm
    constructor
    · intro c' hr'
      dsimp only at hr' ⊢
      by_cases h : c' = q
      · subst h; simp at hr'
      · rw [upd_other _ _ _ _ h] at hr' ⊢; exact inv.leadEl c' hr'
    · intro c' t' h; exact Nat.le_trans (inv.elTerm c' t' h) (hmono c')
    · exact inv.elUniq
    · intro c' hr'
      dsimp only at hr' ⊢
      by_cases h : c' = q
      · subst h; simp at hr'
      · rw [upd_other _ _ _ _ h] at hr' ⊢; exact inv.candOk c' hr'
    · intro c' t' h; exact Nat.le_trans (inv.campTerm c' t' h) (hmono c')
    · intro q' t' c' h
      have := inv.votedOk q' t' c' h
      exact ⟨Nat.le_trans this.1 (hmono q'), this.2⟩
    · intro q' t' k h
      dsimp only at h ⊢
      rcases List.mem_cons.mp h with e | h
      · cases e
        exact ⟨by simp, hmok.1, (hci q m.term hmok.1 ht).1⟩
      · have := inv.ackOk q' t' k h
        exact ⟨Nat.le_trans this.1 (hmono q'), this.2⟩
    · exact inv.msgOk
    · intro c' hr'
      dsimp only at hr' ⊢
      by_cases h : c' = q
      · subst h; simp at hr'
      · rw [upd_other _ _ _ _ h] at hr' ⊢; exact inv.leadLog c' hr'
  | restore q m hm ht hnl hn hc hgt hno =>
    have hmono := le_upd s.term q m.term ht
    have hmok := inv.msgOk m hm
    constructor
    · intro c' hr'
      dsimp only at hr' ⊢
      by_cases h : c' = q
      · subst h; simp at hr'
      · rw [upd_other _ _ _ _ h] at hr' ⊢; exact inv.leadEl c' hr'
    · intro c' t' h; exact Nat.le_trans (inv.elTerm c' t' h) (hmono c')
    · exact inv.elUniq
    · intro c' hr'
      dsimp only at hr' ⊢
      by_cases h : c' = q
      · subst h; simp at hr'
      · rw [upd_other _ _ _ _ h] at hr' ⊢; rw [upd_other _ _ _ _ h]; exact inv.candOk c' hr'
    · intro c' t' h; exact Nat.le_trans (inv.campTerm c' t' h) (hmono c')
    · intro q' t' c' h
      have := inv.votedOk q' t' c' h
      exact ⟨Nat.le_trans this.1 (hmono q'), this.2⟩
    · intro q' t' k h
      dsimp only at h ⊢
      rcases List.mem_cons.mp h with e | h
      · cases e
        exact ⟨by simp, hmok.1, by have := hmok.2.1; omega⟩
      · have := inv.ackOk q' t' k h
        exact ⟨Nat.le_trans this.1 (hmono q'), this.2⟩
    · exact inv.msgOk
    · intro c' hr'
      dsimp only at hr' ⊢
      by_cases h : c' = q
      · subst h; simp at hr'
      · rw [upd_other _ _ _ _ h] at hr' ⊢; rw [upd_other _ _ _ _ h]; exact inv.leadLog c' hr'
  | sendHb c q cm k hr hcm hk hcmk =>
    exact ⟨inv.leadEl, inv.elTerm, inv.elUniq, inv.candOk, inv.campTerm, inv.votedOk, inv.ackOk, inv.msgOk, inv.leadLog⟩
  | recvHb q h hh hto ht hnl =>
    have hmono := le_upd s.term q h.term ht
    constructor
    · intro c' hr'
      dsimp only at hr' ⊢
      by_cases h : c' = q
      · subst h; simp at hr'
      · rw [upd_other _ _ _ _ h] at hr' ⊢; exact inv.leadEl c' hr'
    · intro c' t' h; exact Nat.le_trans (inv.elTerm c' t' h) (hmono c')
    · exact inv.elUniq
    · intro c' hr'
      dsimp only at hr' ⊢
      by_cases h : c' = q
      · subst h; simp at hr'
      · rw [upd_other _ _ _ _ h] at hr' ⊢; exact inv.candOk c' hr'
    · intro c' t' h; exact Nat.le_trans (inv.campTerm c' t' h) (hmono c')
    · intro q' t' c' h
      have := inv.votedOk q' t' c' h
      exact ⟨Nat.le_trans this.1 (hmono q'), this.2⟩
    · intro q' t' k h
      have := inv.ackOk q' t' k h
      exact ⟨Nat.le_trans this.1 (hmono q'), this.2⟩
    · exact inv.msgOk
    · intro c' hr'
      dsimp only at hr' ⊢
      by_cases h : c' = q
      · subst h; simp at hr'
      · rw [upd_other _ _ _ _ h] at hr' ⊢; exact inv.leadLog c' hr'
  | commitLeader c k Q hr hk1 hk hterm hQ hack =>
    exact ⟨inv.leadEl, inv.elTerm, inv.elUniq, inv.candOk, inv.campTerm, inv.votedOk, inv.ackOk, inv.msgOk, inv.leadLog⟩
  | bump j t ht =>
    have hmono := le_upd s.term j t (Nat.le_of_lt ht)
    constructor
    · intro c' hr
      by_cases h : c' = j
      · subst h; simp at hr
      · simp only [upd_other _ _ _ _ h] at hr ⊢; exact inv.leadEl c' hr
    · intro c' t' h; exact Nat.le_trans (inv.elTerm c' t' h) (hmono c')
    · exact inv.elUniq
    · intro c' hr
      by_cases h : c' = j
      · subst h; simp at hr
      · simp only [upd_other _ _ _ _ h] at hr ⊢; exact inv.candOk c' hr
    · intro c' t' h; exact Nat.le_trans (inv.campTerm c' t' h) (hmono c')
    · intro q' t' c' h
      have := inv.votedOk q' t' c' h
      exact ⟨Nat.le_trans this.1 (hmono q'), this.2⟩
    · intro q' t' k h
      have := inv.ackOk q' t' k h
      exact ⟨Nat.le_trans this.1 (hmono q'), this.2⟩
    · exact inv.msgOk
    · intro c' hr
      by_cases h : c' = j
      · subst h; simp at hr
      · simp only [upd_other _ _ _ _ h] at hr ⊢; exact inv.leadLog c' hr
  | restart j =>
    constructor
    · intro c' hr
      by_cases h : c' = j
      · subst h; simp at hr
      · simp only [upd_other _ _ _ _ h] at hr; exact inv.leadEl c' hr
    · exact inv.elTerm
    · exact inv.elUniq
    · intro c' hr
      by_cases h : c' = j
      · subst h; simp at hr
      · simp only [upd_other _ _ _ _ h] at hr; exact inv.candOk c' hr
    · exact inv.campTerm
    · exact inv.votedOk
    · exact inv.ackOk
    · exact inv.msgOk
    · intro c' hr
      by_cases h : c' = j
      · subst h; simp at hr
      · simp only [upd_other _ _ _ _ h] at hr; exact inv.leadLog c' hr
  | flush j =>
    refine ⟨inv.leadEl, inv.elTerm, inv.elUniq, inv.candOk, inv.campTerm, ?_, inv.ackOk, inv.msgOk, inv.leadLog⟩
    intro q t c h
    have := inv.votedOk q t c h
    exact ⟨this.1, List.mem_append_right _ this.2⟩
  | crash j =>
    constructor
    · intro c' hr'
      dsimp only at hr' ⊢
      by_cases h : c' = j
      · subst h; simp at hr'
      · rw [upd_other _ _ _ _ h] at hr' ⊢; exact inv.leadEl c' hr'
    · intro c' t' h
      dsimp only at h ⊢
      by_cases hc : c' = j
      · subst hc; rw [upd_same]; exact d1.scampOk _ _ (i0.elScamp _ _ h)
      · rw [upd_other _ _ _ _ hc]; exact inv.elTerm c' t' h
    · exact inv.elUniq
    · intro c' hr'
      dsimp only at hr' ⊢
      by_cases h : c' = j
      · subst h; simp at hr'
      · rw [upd_other _ _ _ _ h] at hr' ⊢; rw [upd_other _ _ _ _ h]
        have := inv.candOk c' hr'
        refine ⟨?_, this.2⟩
        rw [List.mem_filter]; exact ⟨this.1, by simp [h]⟩
    · intro c' t' h
      dsimp only at h ⊢
      rw [List.mem_filter] at h
      by_cases hc : c' = j
      · subst hc; rw [upd_same]
        have : (c', t') ∈ s.scamp := by simpa using h.2
        exact d1.scampOk _ _ this
      · rw [upd_other _ _ _ _ hc]; exact inv.campTerm c' t' h.1
    · intro q t c h
      dsimp only at h ⊢
      rw [List.mem_filter] at h
      have := inv.votedOk q t c h.1
      refine ⟨?_, this.2⟩
      by_cases hq : q = j
      · subst hq; rw [upd_same]
        have : (q, t, c) ∈ s.svoted := by simpa using h.2
        exact d1.svotedOk _ _ _ this
      · rw [upd_other _ _ _ _ hq]; exact this.1
    · intro q t k h
      dsimp only at h ⊢
      rw [List.mem_filter] at h
      have := inv.ackOk q t k h.1
      refine ⟨?_, this.2⟩
      by_cases hq : q = j
      · subst hq; rw [upd_same]
        have : (q, t, k) ∈ s.sacks := by simpa using h.2
        exact d1.sackOk _ _ _ this
      · rw [upd_other _ _ _ _ hq]; exact this.1
    · exact inv.msgOk
    · intro c' hr'
      dsimp only at hr' ⊢
      by_cases h : c' = j
      · subst h; simp at hr'
      · rw [upd_other _ _ _ _ h] at hr' ⊢; rw [upd_other _ _ _ _ h]; exact inv.leadLog c' hr'

end Z.RaftAbs
#print axioms Z.RaftAbs.inv1_step
