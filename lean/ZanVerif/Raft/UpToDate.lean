/-
Scratch prototype for C02 (ingredient V): if a voter's log contains a prefix P = (tlog t).take k that
ends in a term-t entry, and the candidate's log is at least as up-to-date (raft's isUpToDate), then the
candidate's log contains P - or the ghost log of the candidate's last term (a term > t) lacks P.
-/
import ZanVerif.Raft.LogMatch
namespace Z.LogMatch

def lastTerm (l : Log) : Nat := termAt l l.length

/-- terms are non-decreasing along a log -/
def Mono (l : Log) : Prop :=
  ∀ i j (hij : i ≤ j) (hj : j < l.length), (l[i]'(by omega)).term ≤ (l[j]'hj).term

variable (tlog : Nat → Log)

theorem lastTerm_pos {l : Log} (h : 1 ≤ l.length) : lastTerm l = (l[l.length - 1]'(by omega)).term :=
  termAt_pos h (Nat.le_refl _)

/-- a non-empty log that satisfies Pfx is a prefix of the ghost log of its last term -/
theorem Pfx.whole {l : Log} (h : Pfx tlog l) (hl : 1 ≤ l.length) :
    l = (tlog (lastTerm l)).take l.length := by
  have := h l.length hl (Nat.le_refl _)
  rw [List.take_length] at this
  rw [lastTerm_pos hl]; exact this

theorem uptodate_contains {cand q : Log} {t k : Nat}
    (hc : Pfx tlog cand) (hq : Pfx tlog q) (hmq : Mono q)
    (hle : ∀ e ∈ tlog t, e.term ≤ t)
    (hk : 1 ≤ k) (hkt : k ≤ (tlog t).length) (hterm : ((tlog t)[k - 1]'(by omega)).term = t)
    (hqP : q.take k = (tlog t).take k)
    (hup : lastTerm q < lastTerm cand ∨ (lastTerm cand = lastTerm q ∧ q.length ≤ cand.length)) :
    cand.take k = (tlog t).take k ∨
      (t < lastTerm cand ∧ (tlog (lastTerm cand)).take k ≠ (tlog t).take k) := by
  -- the voter's log has at least k entries and its last term is ≥ t
  have hqk : k ≤ q.length := by
    have := congrArg List.length hqP
    simp only [List.length_take] at this; omega
  have hq1 : 1 ≤ q.length := by omega
  have hqkt : (q[k - 1]'(by omega)).term = t := by
    have e1 : (q.take k)[k - 1]'(by simp [List.length_take]; omega) = q[k - 1]'(by omega) := by
      simp [List.getElem_take]
    have e2 : ((tlog t).take k)[k - 1]'(by simp [List.length_take]; omega) = (tlog t)[k - 1]'(by omega) := by
      simp [List.getElem_take]
    have : (q.take k)[k - 1]'(by simp [List.length_take]; omega) =
        ((tlog t).take k)[k - 1]'(by simp [List.length_take]; omega) := by
      simp only [hqP]
    rw [e1, e2] at this
    rw [this]; exact hterm
  have hqlast : t ≤ lastTerm q := by
    rw [lastTerm_pos hq1, ← hqkt]
    exact hmq (k - 1) (q.length - 1) (by omega) (by omega)
  rcases hup with hgt | ⟨heq, hlen⟩
  · -- candidate's last term is larger
    have hs2 : t < lastTerm cand := by omega
    by_cases hlack : (tlog (lastTerm cand)).take k = (tlog t).take k
    · left
      have hc1 : 1 ≤ cand.length := by
        rcases Nat.eq_zero_or_pos cand.length with h0 | h0
        · have : lastTerm cand = 0 := by simp [lastTerm, termAt, h0]
          omega
        · exact h0
      have hw := Pfx.whole tlog hc hc1
      -- the candidate's log is longer than k: its last entry has a term > t, P's terms are ≤ t
      have hck : k ≤ cand.length := by
        apply Classical.byContradiction; intro hnot
        have hlt : cand.length < k := by omega
        have hidx : cand.length - 1 < ((tlog (lastTerm cand)).take k).length := by
          rw [hlack]; simp [List.length_take]; omega
        have e1 : (cand[cand.length - 1]'(by omega)) =
            ((tlog (lastTerm cand)).take k)[cand.length - 1]'hidx := by
          have : cand = ((tlog (lastTerm cand)).take k).take cand.length := by
            rw [List.take_take, Nat.min_eq_left (by omega)]; exact hw
          conv => lhs; rw [List.getElem_of_eq this (by omega)]
          simp [List.getElem_take]
        have e2 : (((tlog (lastTerm cand)).take k)[cand.length - 1]'hidx) ∈ tlog t := by
          have hmem := List.getElem_mem hidx
          have hmem' : (((tlog (lastTerm cand)).take k)[cand.length - 1]'hidx) ∈ (tlog t).take k := by
            rw [← hlack]; exact hmem
          exact List.mem_of_mem_take hmem'
        have := hle _ e2
        rw [← e1, ← lastTerm_pos hc1] at this
        omega
      rw [hw, List.take_take, Nat.min_eq_left hck]; exact hlack
    · exact Or.inr ⟨hs2, hlack⟩
  · -- same last term, candidate at least as long: both are prefixes of the same ghost log
    left
    have hc1 : 1 ≤ cand.length := by omega
    have hwc := Pfx.whole tlog hc hc1
    have hwq := Pfx.whole tlog hq hq1
    rw [heq] at hwc
    have : cand.take q.length = q := by
      rw [hwc, List.take_take, Nat.min_eq_left hlen]; exact hwq.symm
    calc cand.take k = (cand.take q.length).take k := by rw [List.take_take, Nat.min_eq_left hqk]
      _ = q.take k := by rw [this]
      _ = (tlog t).take k := hqP

#print axioms uptodate_contains
end Z.LogMatch
