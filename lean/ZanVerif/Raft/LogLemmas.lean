/-
  Lemmas about the executable log model `Z.LogModel` (LogModel.lean): the well-formedness invariant
  `WfLog`, the abstraction `fullLog` (the entries the log holds at firstIndex .. lastIndex), and what
  every function computes on well-formed logs.  The property theorems built from these are in
  ZanVerif/Props/C02Log.lean.
-/
import ZanVerif.Raft.LogModel
import ZanVerif.Raft.LogMatch
namespace Z.LogModel
open Z.LogMatch (matchLen termAt)

/-! ### definitions -/

/-- the `Index` fields agree with the positions: `es[k].index = start + k` -/
def Contig (start : Nat) (es : List Entry) : Prop :=
  ∀ k e, es[k]? = some e → e.index = start + k

/-- term of the dummy position `firstIndex - 1` -/
def dummyTerm (l : RaftLog) : Nat :=
  match l.unstable.snapshot with
  | some (_, t) => t
  | none => l.storage.dummy.term

/-- the entries the log holds at `firstIndex .. lastIndex`: the storage part below `unstable.offset`,
    then the unstable entries -/
def fullLog (l : RaftLog) : List Entry :=
  sub l.storage.all (l.firstIndex - l.storage.dummy.index) (l.unstable.offset - l.storage.dummy.index)
    ++ l.unstable.entries

/-- well-formed log: offsets consistent -/
structure WfLog (l : RaftLog) : Prop where
  stContig : Contig l.storage.dummy.index l.storage.all
  unContig : Contig l.unstable.offset l.unstable.entries
  /-- the storage covers everything between firstIndex and unstable.offset (overlap rule: the storage
      may be longer, its tail from `offset` on is stale unless there are no unstable entries) -/
  cover : match l.unstable.snapshot with
    | none => l.storage.firstIndex ≤ l.unstable.offset ∧ l.unstable.offset ≤ l.storage.lastIndex + 1 ∧
        (l.unstable.entries = [] → l.unstable.offset = l.storage.lastIndex + 1)
    | some (si, _) => si + 1 ≤ l.unstable.offset ∧
        (si + 1 < l.unstable.offset → l.storage.dummy.index ≤ si ∧ l.unstable.offset ≤ l.storage.lastIndex + 1) ∧
        (l.unstable.entries = [] → l.unstable.offset = si + 1)
  appliedLe : l.applied ≤ l.committed
  committedLe : l.committed ≤ l.lastIndex
  firstLe : l.firstIndex ≤ l.committed + 1

/-- pure twin of `RaftLog.term` on well-formed logs -/
def termW (l : RaftLog) (i : Nat) : Nat :=
  if i + 1 < l.firstIndex ∨ i > l.lastIndex then 0
  else if i + 1 = l.firstIndex then dummyTerm l
  else match (fullLog l)[i - l.firstIndex]? with
    | some e => e.term
    | none => 0

/-! ### lists -/

theorem sub_length (xs : List Entry) (a b : Nat) (h : b ≤ xs.length) : (sub xs a b).length = b - a := by
  unfold sub; simp [List.length_take, List.length_drop]; omega

theorem sub_getElem? (xs : List Entry) (a b k : Nat) :
    (sub xs a b)[k]? = if k < b - a then xs[a + k]? else none := by
  unfold sub
  rw [List.getElem?_take]
  split
  · rw [List.getElem?_drop]
  · rfl

theorem Contig.nil (s : Nat) : Contig s [] := by intro k e h; simp at h

theorem Contig.append {s : Nat} {xs ys : List Entry} (hx : Contig s xs) (hy : Contig (s + xs.length) ys) :
    Contig s (xs ++ ys) := by
  intro k e h
  by_cases hk : k < xs.length
  · rw [List.getElem?_append_left hk] at h; exact hx k e h
  · rw [List.getElem?_append_right (by omega)] at h
    have := hy _ e h; omega

theorem Contig.take {s : Nat} {xs : List Entry} (hx : Contig s xs) (n : Nat) : Contig s (xs.take n) := by
  intro k e h
  rw [List.getElem?_take] at h
  split at h
  · exact hx k e h
  · simp at h

theorem Contig.drop {s : Nat} {xs : List Entry} (hx : Contig s xs) (n : Nat) : Contig (s + n) (xs.drop n) := by
  intro k e h
  rw [List.getElem?_drop] at h
  have := hx _ e h; omega

theorem Contig.sub {s : Nat} {xs : List Entry} (hx : Contig s xs) (a b : Nat) : Contig (s + a) (sub xs a b) :=
  (hx.drop a).take _

theorem Contig.tail {s : Nat} {x : Entry} {xs : List Entry} (h : Contig s (x :: xs)) : Contig (s + 1) xs := by
  intro k e hk
  have := h (k + 1) e (by simpa using hk); omega

theorem Contig.head {s : Nat} {x : Entry} {xs : List Entry} (h : Contig s (x :: xs)) : x.index = s := by
  have := h 0 x (by simp); omega

/-! ### limitSize -/

theorem limitAux_prefix (m : Nat) : ∀ (sz : Nat) (es : List Entry), ∃ n, limitAux m sz es = es.take n := by
  intro sz es
  induction es generalizing sz with
  | nil => exact ⟨0, by simp [limitAux]⟩
  | cons e es ih =>
    unfold limitAux
    split
    · exact ⟨0, by simp⟩
    · obtain ⟨n, hn⟩ := ih (sz + e.size)
      exact ⟨n + 1, by simp [hn]⟩

/-- `limitSize` returns a prefix, non-empty when the input is -/
theorem limitSize_prefix (es : List Entry) (m : Nat) :
    ∃ n, limitSize es m = es.take n ∧ (es ≠ [] → 1 ≤ n) ∧ n ≤ es.length := by
  cases es with
  | nil => exact ⟨0, by simp [limitSize]⟩
  | cons e es =>
    obtain ⟨n, hn⟩ := limitAux_prefix m e.size es
    refine ⟨min (n + 1) (es.length + 1), ?_, by intro _; omega, by simp; omega⟩
    show e :: limitAux m e.size es = _
    rw [hn]
    by_cases h : n ≤ es.length
    · rw [Nat.min_eq_left (by omega)]; simp
    · rw [Nat.min_eq_right (by omega)]
      simp only [List.take_succ_cons]
      rw [List.take_of_length_le (by omega), List.take_of_length_le (by omega)]

theorem limitSize_length_le (es : List Entry) (m : Nat) : (limitSize es m).length ≤ es.length := by
  obtain ⟨n, h, _, _⟩ := limitSize_prefix es m
  rw [h, List.length_take]; omega

/-- no limit reached: everything is returned -/
theorem limitAux_all (m : Nat) : ∀ (sz : Nat) (es : List Entry),
    sz + (es.map Entry.size).sum ≤ m → limitAux m sz es = es := by
  intro sz es
  induction es generalizing sz with
  | nil => intro _; simp [limitAux]
  | cons e es ih =>
    intro h
    simp only [List.map_cons, List.sum_cons] at h
    unfold limitAux
    rw [if_neg (by omega), ih (sz + e.size) (by omega)]

theorem limitSize_all (es : List Entry) (m : Nat) (h : (es.map Entry.size).sum ≤ m) : limitSize es m = es := by
  cases es with
  | nil => simp [limitSize]
  | cons e es =>
    simp only [List.map_cons, List.sum_cons] at h
    show e :: limitAux m e.size es = _
    rw [limitAux_all m e.size es h]

/-! ### storage: basic facts -/

namespace Storage

theorem all_length (s : Storage) : s.all.length = s.rest.length + 1 := by simp [all]

theorem lastIndex_eq (s : Storage) : s.lastIndex = s.dummy.index + s.rest.length := by
  simp [lastIndex, all]

theorem all_zero (s : Storage) : s.all[0]? = some s.dummy := by simp [all]

/-- `Term(i)` on a covered index -/
theorem term_covered (s : Storage) (i : Nat) (h1 : s.dummy.index ≤ i) (h2 : i ≤ s.lastIndex) :
    ∃ e, s.all[i - s.dummy.index]? = some e ∧ s.term i = .ok e.term := by
  have hl := s.lastIndex_eq
  have ha := s.all_length
  have hlt : i - s.dummy.index < s.all.length := by omega
  refine ⟨s.all[i - s.dummy.index], by simp [hlt], ?_⟩
  unfold term
  simp only []
  rw [if_neg (by omega), if_neg (by omega)]
  simp [hlt]

theorem term_compacted (s : Storage) (i : Nat) (h : i < s.dummy.index) : s.term i = .err .compacted := by
  unfold term; simp [h]

theorem term_unavailable (s : Storage) (i : Nat) (h : s.lastIndex < i) : s.term i = .err .unavailable := by
  have hl := s.lastIndex_eq
  have ha := s.all_length
  unfold term
  simp only []
  rw [if_neg (by omega), if_pos (by omega)]

end Storage

/-! ### unstable: `maybeTerm` never hits the Go index panic on well-formed states -/

/-- pure twin of `unstable.maybeTerm` -/
def Unstable.maybeTermP (u : Unstable) (i : Nat) : Option Nat :=
  if i < u.offset then
    match u.snapshot with
    | none => none
    | some (si, st) => if si = i then some st else none
  else match u.entries[i - u.offset]? with
    | some e => some e.term
    | none => none

theorem Unstable.maybeTerm_eq (u : Unstable) (i : Nat)
    (h : ∀ si st, u.snapshot = some (si, st) → u.entries = [] → si < u.offset) :
    u.maybeTerm i = .ok (u.maybeTermP i) := by
  unfold maybeTerm maybeTermP
  by_cases hi : i < u.offset
  · simp only [hi, ↓reduceIte]
    cases hs : u.snapshot with
    | none => rfl
    | some p =>
      obtain ⟨si, st⟩ := p
      by_cases hsi : si = i <;> simp [hsi]
  · simp only [hi, ↓reduceIte]
    unfold maybeLastIndex
    by_cases hl : u.entries.length ≠ 0
    · rw [if_pos hl]
      by_cases hgt : i > u.offset + u.entries.length - 1
      · simp only [hgt, ↓reduceIte]
        have : u.entries[i - u.offset]? = none := by
          apply List.getElem?_eq_none; omega
        rw [this]
      · simp only [hgt, ↓reduceIte]
        have hlt : i - u.offset < u.entries.length := by omega
        have : u.entries[i - u.offset]? = some (u.entries[i - u.offset]) := by simp [hlt]
        rw [this]
    · rw [if_neg hl]
      have hnil : u.entries = [] := by
        cases he : u.entries with
        | nil => rfl
        | cons a b => rw [he] at hl; simp at hl
      have hnone : u.entries[i - u.offset]? = none := by rw [hnil]; simp
      rw [hnone]
      cases hs : u.snapshot with
      | none => rfl
      | some p =>
        obtain ⟨si, st⟩ := p
        have := h si st hs hnil
        show (if i > si then Res.ok none else _) = _
        rw [if_pos (by omega)]

/-! ### raftLog: first / last index, the shape of `fullLog` -/

namespace RaftLog

theorem firstIndex_none {l : RaftLog} (h : l.unstable.snapshot = none) : l.firstIndex = l.storage.firstIndex := by
  simp [firstIndex, Unstable.maybeFirstIndex, h]

theorem firstIndex_some {l : RaftLog} {si st : Nat} (h : l.unstable.snapshot = some (si, st)) :
    l.firstIndex = si + 1 := by
  simp [firstIndex, Unstable.maybeFirstIndex, h]

theorem lastIndex_cons {l : RaftLog} (h : l.unstable.entries ≠ []) :
    l.lastIndex = l.unstable.offset + l.unstable.entries.length - 1 := by
  have : l.unstable.entries.length ≠ 0 := by
    intro h0; exact h (List.eq_nil_of_length_eq_zero h0)
  simp [lastIndex, Unstable.maybeLastIndex, this]

theorem lastIndex_nil_none {l : RaftLog} (h : l.unstable.entries = []) (hs : l.unstable.snapshot = none) :
    l.lastIndex = l.storage.lastIndex := by
  simp [lastIndex, Unstable.maybeLastIndex, h, hs]

theorem lastIndex_nil_some {l : RaftLog} {si st : Nat} (h : l.unstable.entries = [])
    (hs : l.unstable.snapshot = some (si, st)) : l.lastIndex = si := by
  simp [lastIndex, Unstable.maybeLastIndex, h, hs]

end RaftLog

namespace WfLog
variable {l : RaftLog}

theorem snapLt (w : WfLog l) {si st : Nat} (h : l.unstable.snapshot = some (si, st)) : si < l.unstable.offset := by
  have := w.cover; rw [h] at this; simp only at this; omega

/-- `lastIndex + 1 = unstable.offset + len(unstable.entries)` -/
theorem last_succ (w : WfLog l) : l.lastIndex + 1 = l.unstable.offset + l.unstable.entries.length := by
  by_cases he : l.unstable.entries = []
  · have c := w.cover
    cases hs : l.unstable.snapshot with
    | none =>
      rw [hs] at c; simp only at c
      have := c.2.2 he
      rw [RaftLog.lastIndex_nil_none he hs, he]; simp; omega
    | some p =>
      obtain ⟨si, st⟩ := p
      rw [hs] at c; simp only at c
      have := c.2.2 he
      rw [RaftLog.lastIndex_nil_some he hs, he]; simp; omega
  · rw [RaftLog.lastIndex_cons he]
    have : l.unstable.entries.length ≠ 0 := by
      intro h0; exact he (List.eq_nil_of_length_eq_zero h0)
    omega

theorem first_le_off (w : WfLog l) : l.firstIndex ≤ l.unstable.offset := by
  have c := w.cover
  cases hs : l.unstable.snapshot with
  | none => rw [hs] at c; simp only at c; rw [RaftLog.firstIndex_none hs]; omega
  | some p =>
    obtain ⟨si, st⟩ := p
    rw [hs] at c; simp only at c; rw [RaftLog.firstIndex_some hs]; omega

theorem first_pos (_w : WfLog l) : 1 ≤ l.firstIndex := by
  cases hs : l.unstable.snapshot with
  | none => rw [RaftLog.firstIndex_none hs]; simp [Storage.firstIndex]
  | some p => obtain ⟨si, st⟩ := p; rw [RaftLog.firstIndex_some hs]; omega

/-- below `offset` the storage holds the entries: its dummy lies below firstIndex and it reaches offset-1 -/
theorem storage_covers (w : WfLog l) (h : l.firstIndex < l.unstable.offset) :
    l.storage.dummy.index + 1 ≤ l.firstIndex ∧ l.unstable.offset ≤ l.storage.lastIndex + 1 := by
  have c := w.cover
  cases hs : l.unstable.snapshot with
  | none =>
    rw [hs] at c; simp only at c
    rw [RaftLog.firstIndex_none hs]; simp [Storage.firstIndex]; omega
  | some p =>
    obtain ⟨si, st⟩ := p
    rw [hs] at c; simp only at c
    rw [RaftLog.firstIndex_some hs] at h ⊢
    have := c.2.1 h; omega

theorem first_le_last_succ (w : WfLog l) : l.firstIndex ≤ l.lastIndex + 1 := by
  have := w.firstLe; have := w.committedLe; omega

/-- length of the stable part of `fullLog` -/
theorem stable_part_length (w : WfLog l) :
    (sub l.storage.all (l.firstIndex - l.storage.dummy.index) (l.unstable.offset - l.storage.dummy.index)).length
      = l.unstable.offset - l.firstIndex := by
  by_cases h : l.firstIndex < l.unstable.offset
  · have := w.storage_covers h
    have hl := l.storage.lastIndex_eq
    have ha := l.storage.all_length
    rw [sub_length _ _ _ (by omega)]; omega
  · have := w.first_le_off
    have e : l.firstIndex = l.unstable.offset := by omega
    unfold sub; rw [e]; simp

theorem fullLog_length (w : WfLog l) : (fullLog l).length = l.lastIndex + 1 - l.firstIndex := by
  unfold fullLog
  rw [List.length_append, w.stable_part_length]
  have := w.last_succ; have := w.first_le_off; omega

theorem fullLog_get_stable (w : WfLog l) {i : Nat} (h1 : l.firstIndex ≤ i) (h2 : i < l.unstable.offset) :
    (fullLog l)[i - l.firstIndex]? = l.storage.all[i - l.storage.dummy.index]? := by
  have hc := w.storage_covers (by omega)
  unfold fullLog
  rw [List.getElem?_append_left (by rw [w.stable_part_length]; omega), sub_getElem?, if_pos (by omega)]
  congr 1; omega

theorem fullLog_get_unstable (w : WfLog l) {i : Nat} (h : l.unstable.offset ≤ i) :
    (fullLog l)[i - l.firstIndex]? = l.unstable.entries[i - l.unstable.offset]? := by
  have := w.first_le_off
  unfold fullLog
  rw [List.getElem?_append_right (by rw [w.stable_part_length]; omega), w.stable_part_length]
  congr 1; omega

theorem fullLog_contig (w : WfLog l) : Contig l.firstIndex (fullLog l) := by
  unfold fullLog
  apply Contig.append
  · by_cases h : l.firstIndex < l.unstable.offset
    · have hc := w.storage_covers h
      have := w.stContig.sub (l.firstIndex - l.storage.dummy.index) (l.unstable.offset - l.storage.dummy.index)
      have e : l.storage.dummy.index + (l.firstIndex - l.storage.dummy.index) = l.firstIndex := by omega
      rw [e] at this; exact this
    · have := w.first_le_off
      have e : l.firstIndex = l.unstable.offset := by omega
      unfold sub; rw [e]; simp; exact Contig.nil _
  · rw [w.stable_part_length]
    have := w.first_le_off
    have e : l.firstIndex + (l.unstable.offset - l.firstIndex) = l.unstable.offset := by omega
    rw [e]; exact w.unContig

/-- every index in firstIndex .. lastIndex holds an entry -/
theorem fullLog_get (w : WfLog l) {i : Nat} (h1 : l.firstIndex ≤ i) (h2 : i ≤ l.lastIndex) :
    ∃ e, (fullLog l)[i - l.firstIndex]? = some e ∧ e.index = i := by
  have hlen := w.fullLog_length
  have hlt : i - l.firstIndex < (fullLog l).length := by omega
  refine ⟨(fullLog l)[i - l.firstIndex]'hlt, List.getElem?_eq_getElem hlt, ?_⟩
  have := w.fullLog_contig (i - l.firstIndex) _ (List.getElem?_eq_getElem hlt)
  omega

end WfLog

/-! ### `term`, `matchTerm`, `lastTerm`, `findConflict` on well-formed logs -/

theorem term_eq {l : RaftLog} (w : WfLog l) (i : Nat) : l.term i = .ok (termW l i) := by
  have hfp := w.first_pos
  unfold RaftLog.term termW
  simp only []
  by_cases hout : i < l.firstIndex - 1 ∨ i > l.lastIndex
  · rw [if_pos hout, if_pos (by omega)]
  · rw [if_neg hout, if_neg (by omega)]
    rw [Unstable.maybeTerm_eq _ _ (fun si st hs _ => w.snapLt hs)]
    by_cases hd : i + 1 = l.firstIndex
    · rw [if_pos hd]
      -- the dummy position
      have hoff := w.first_le_off
      unfold Unstable.maybeTermP dummyTerm
      rw [if_pos (by omega)]
      cases hs : l.unstable.snapshot with
      | none =>
        simp only []
        have hf := RaftLog.firstIndex_none hs
        simp only [Storage.firstIndex] at hf
        obtain ⟨e, he1, he2⟩ := l.storage.term_covered i (by omega) (by have := l.storage.lastIndex_eq; omega)
        rw [he2]
        have : i - l.storage.dummy.index = 0 := by omega
        rw [this, Storage.all_zero] at he1
        cases he1; rfl
      | some p =>
        obtain ⟨si, st⟩ := p
        have hf := RaftLog.firstIndex_some hs
        simp only []
        rw [if_pos (by omega)]
    · rw [if_neg hd]
      have h1 : l.firstIndex ≤ i := by omega
      have h2 : i ≤ l.lastIndex := by omega
      obtain ⟨e, he, _⟩ := w.fullLog_get h1 h2
      rw [he]
      by_cases hu : i < l.unstable.offset
      · -- stable part
        have hnone : l.unstable.maybeTermP i = none := by
          unfold Unstable.maybeTermP
          rw [if_pos hu]
          cases hs : l.unstable.snapshot with
          | none => rfl
          | some p =>
            obtain ⟨si, st⟩ := p
            have hf := RaftLog.firstIndex_some hs
            simp only []
            rw [if_neg (by omega)]
        rw [hnone]
        simp only []
        have hc := w.storage_covers (by omega)
        obtain ⟨e', he1, he2⟩ := l.storage.term_covered i (by omega) (by omega)
        rw [he2]
        rw [w.fullLog_get_stable h1 hu, he1] at he
        cases he; rfl
      · have hu' : l.unstable.offset ≤ i := by omega
        rw [w.fullLog_get_unstable hu'] at he
        unfold Unstable.maybeTermP
        rw [if_neg hu, he]

theorem matchTerm_eq {l : RaftLog} (w : WfLog l) (i t : Nat) : l.matchTerm i t = .ok (termW l i == t) := by
  unfold RaftLog.matchTerm; rw [term_eq w]

theorem lastTerm_eq {l : RaftLog} (w : WfLog l) : l.lastTerm = .ok (termW l l.lastIndex) := by
  unfold RaftLog.lastTerm; rw [term_eq w]

/-- pure twin of `findConflict` -/
def findConflictP (l : RaftLog) : List Entry → Nat
  | [] => 0
  | ne :: es => if termW l ne.index = ne.term then findConflictP l es else ne.index

theorem findConflict_eq {l : RaftLog} (w : WfLog l) (ents : List Entry) :
    l.findConflict ents = .ok (findConflictP l ents) := by
  induction ents with
  | nil => rfl
  | cons ne es ih =>
    unfold RaftLog.findConflict findConflictP
    rw [matchTerm_eq w]
    by_cases h : termW l ne.index = ne.term
    · have : (termW l ne.index == ne.term) = true := by simp [h]
      rw [this]; simp only []; rw [if_pos h]; exact ih
    · have : (termW l ne.index == ne.term) = false := by simp [h]
      rw [this]; simp only []; rw [if_neg h, term_eq w]
      simp [RaftLog.zeroTermOnErrCompacted]

/-! ### `findConflict` is the abstract `matchLen` -/

/-- the abstract entry (term, payload identity) of `Z.LogMatch` -/
def absE (e : Entry) : Z.LogMatch.Entry := ⟨e.term, e.data⟩

theorem termW_in_range {l : RaftLog} (_w : WfLog l) {i : Nat} {e : Entry} (h1 : l.firstIndex ≤ i)
    (h2 : i ≤ l.lastIndex) (he : (fullLog l)[i - l.firstIndex]? = some e) : termW l i = e.term := by
  unfold termW
  rw [if_neg (by omega), if_neg (by omega), he]

theorem termW_out {l : RaftLog} {i : Nat} (h : i > l.lastIndex) : termW l i = 0 := by
  unfold termW; rw [if_pos (Or.inr h)]

theorem termW_dummy {l : RaftLog} (w : WfLog l) {i : Nat} (h : i + 1 = l.firstIndex) : termW l i = dummyTerm l := by
  have := w.first_le_last_succ
  unfold termW; rw [if_neg (by omega), if_pos h]

/-- number of leading entries of `ents` (placed at index `start`, …) the log already holds -/
def matched (l : RaftLog) (start : Nat) (ents : List Entry) : Nat :=
  matchLen ((fullLog l).map absE) (start - l.firstIndex) (ents.map absE)

theorem findConflictP_spec {l : RaftLog} (w : WfLog l) : ∀ (ents : List Entry) (start : Nat),
    Contig start ents → l.firstIndex ≤ start → (∀ e ∈ ents, e.term ≠ 0) →
    findConflictP l ents = (if matched l start ents = ents.length then 0 else start + matched l start ents) := by
  intro ents
  induction ents with
  | nil => intro start _ _ _; simp [findConflictP, matched, matchLen]
  | cons ne es ih =>
    intro start hc hs ht
    have hidx : ne.index = start := hc.head
    have ih' := ih (start + 1) hc.tail (by omega) (fun e he => ht e (List.mem_cons_of_mem _ he))
    unfold findConflictP
    rw [hidx]
    unfold matched at ih' ⊢
    simp only [List.map_cons, matchLen, List.length_cons]
    by_cases hin : start ≤ l.lastIndex
    · obtain ⟨e, he, _⟩ := w.fullLog_get hs hin
      rw [termW_in_range w hs hin he]
      have hmap : (List.map absE (fullLog l))[start - l.firstIndex]? = some (absE e) := by
        rw [List.getElem?_map, he]; rfl
      rw [hmap]
      have hpos : start + 1 - l.firstIndex = start - l.firstIndex + 1 := by omega
      rw [hpos] at ih'
      generalize matchLen (List.map absE (fullLog l)) (start - l.firstIndex + 1) (List.map absE es) = m at ih' ⊢
      by_cases heq : e.term = ne.term
      · have hterm : (absE e).term = (absE ne).term := heq
        rw [if_pos heq]
        simp only [hterm, if_true]
        rw [ih']
        split <;> split <;> omega
      · have hterm : ¬ (absE e).term = (absE ne).term := heq
        rw [if_neg heq]
        simp only [hterm, if_false]
        simp
    · rw [termW_out (by omega)]
      have hne : (0 : Nat) ≠ ne.term := fun h => ht ne (List.mem_cons_self) h.symm
      rw [if_neg hne]
      have hnone : (List.map absE (fullLog l))[start - l.firstIndex]? = none := by
        apply List.getElem?_eq_none
        rw [List.length_map, w.fullLog_length]; omega
      rw [hnone]; simp

theorem matched_le (l : RaftLog) (start : Nat) (ents : List Entry) : matched l start ents ≤ ents.length := by
  have := Z.LogMatch.matchLen_le ((fullLog l).map absE) (start - l.firstIndex) (ents.map absE)
  simpa [matched] using this

theorem matched_bound {l : RaftLog} (w : WfLog l) (start : Nat) (ents : List Entry)
    (h1 : l.firstIndex ≤ start) (h2 : start ≤ l.lastIndex + 1) :
    start + matched l start ents ≤ l.lastIndex + 1 := by
  have := Z.LogMatch.matchLen_bound ((fullLog l).map absE) (start - l.firstIndex) (ents.map absE)
    (by rw [List.length_map, w.fullLog_length]; omega)
  rw [List.length_map, w.fullLog_length] at this
  unfold matched; omega

/-! ### `truncateAndAppend`: the three cases (and the slice panic) -/

theorem truncateAndAppend_cases (u : Unstable) (e0 : Entry) (es : List Entry) :
    (e0.index = u.offset + u.entries.length →
      u.truncateAndAppend (e0 :: es) = .ok { u with entries := u.entries ++ e0 :: es }) ∧
    (e0.index ≠ u.offset + u.entries.length → e0.index ≤ u.offset →
      u.truncateAndAppend (e0 :: es) = .ok { u with offset := e0.index, entries := e0 :: es }) ∧
    (u.offset < e0.index → e0.index < u.offset + u.entries.length →
      u.truncateAndAppend (e0 :: es) = .ok { u with entries := u.entries.take (e0.index - u.offset) ++ e0 :: es }) ∧
    (u.offset + u.entries.length < e0.index → u.truncateAndAppend (e0 :: es) = .panic .usliceOob) := by
  refine ⟨?_, ?_, ?_, ?_⟩
  · intro h; unfold Unstable.truncateAndAppend; simp only []; rw [if_pos h]
  · intro h1 h2; unfold Unstable.truncateAndAppend; simp only []; rw [if_neg h1, if_pos h2]
  · intro h1 h2
    unfold Unstable.truncateAndAppend; simp only []
    rw [if_neg (by omega), if_neg (by omega)]
    unfold Unstable.slice
    simp only []
    rw [if_neg (by omega), if_neg (by omega)]
    simp [sub]
  · intro h
    unfold Unstable.truncateAndAppend; simp only []
    rw [if_neg (by omega), if_neg (by omega)]
    unfold Unstable.slice
    simp only []
    rw [if_neg (by omega), if_pos (by omega)]

/-! ### `commitTo`, `appliedTo` -/

theorem commitTo_cases (l : RaftLog) (c : Nat) :
    (c ≤ l.committed → l.commitTo c = .ok l) ∧
    (l.committed < c → c ≤ l.lastIndex → l.commitTo c = .ok { l with committed := c }) ∧
    (l.committed < c → l.lastIndex < c → l.commitTo c = .panic .tocommit) := by
  refine ⟨?_, ?_, ?_⟩
  · intro h; unfold RaftLog.commitTo; rw [if_neg (by omega)]
  · intro h1 h2; unfold RaftLog.commitTo; rw [if_pos h1, if_neg (by omega)]
  · intro h1 h2; unfold RaftLog.commitTo; rw [if_pos h1, if_pos h2]

theorem appliedTo_cases (l : RaftLog) (i : Nat) :
    (i = 0 → l.appliedTo i = .ok l) ∧
    (i ≠ 0 → (l.committed < i ∨ i < l.applied) → l.appliedTo i = .panic .applied) ∧
    (i ≠ 0 → l.applied ≤ i → i ≤ l.committed → l.appliedTo i = .ok { l with applied := i }) := by
  refine ⟨?_, ?_, ?_⟩
  · intro h; unfold RaftLog.appliedTo; rw [if_pos h]
  · intro h1 h2; unfold RaftLog.appliedTo; rw [if_neg h1, if_pos h2]
  · intro h1 h2 h3; unfold RaftLog.appliedTo; rw [if_neg h1, if_neg (by omega)]

/-- changing only `committed` (upwards, within the log) keeps a log well-formed -/
theorem WfLog.setCommitted {l : RaftLog} (w : WfLog l) (c : Nat) (h1 : l.committed ≤ c) (h2 : c ≤ l.lastIndex) :
    WfLog { l with committed := c } := by
  refine ⟨w.stContig, w.unContig, w.cover, ?_, ?_, ?_⟩
  · show l.applied ≤ c; have := w.appliedLe; omega
  · show c ≤ RaftLog.lastIndex { l with committed := c }; exact h2
  · show RaftLog.firstIndex { l with committed := c } ≤ c + 1
    have := w.firstLe
    show l.firstIndex ≤ c + 1; omega

theorem WfLog.setApplied {l : RaftLog} (w : WfLog l) (a : Nat) (h : a ≤ l.committed) :
    WfLog { l with applied := a } :=
  ⟨w.stContig, w.unContig, w.cover, h, w.committedLe, w.firstLe⟩

/-! ### replacing the unstable tail: `append` -/

theorem firstIndex_congr {l l' : RaftLog} (h1 : l'.storage = l.storage)
    (h2 : l'.unstable.snapshot = l.unstable.snapshot) : l'.firstIndex = l.firstIndex := by
  unfold RaftLog.firstIndex Unstable.maybeFirstIndex; rw [h1, h2]

/-- the log with its unstable part replaced by `es'` placed at `off'` -/
def withTail (l : RaftLog) (off' : Nat) (es' : List Entry) : RaftLog :=
  { l with unstable := { l.unstable with offset := off', entries := es' } }

theorem withTail_firstIndex (l : RaftLog) (off' : Nat) (es' : List Entry) :
    (withTail l off' es').firstIndex = l.firstIndex := firstIndex_congr rfl rfl

theorem withTail_lastIndex (l : RaftLog) (off' : Nat) (es' : List Entry) (hne : es' ≠ []) :
    (withTail l off' es').lastIndex = off' + es'.length - 1 :=
  RaftLog.lastIndex_cons (l := withTail l off' es') hne

theorem withTail_fullLog {l : RaftLog} (w : WfLog l) (off' : Nat) (es' : List Entry)
    (hlo : l.firstIndex ≤ off') (hhi : off' ≤ l.unstable.offset) :
    fullLog (withTail l off' es') = (fullLog l).take (off' - l.firstIndex) ++ es' := by
  have hk : l.firstIndex < off' → l.storage.dummy.index + 1 ≤ l.firstIndex :=
    fun h => (w.storage_covers (by omega)).1
  unfold fullLog
  rw [withTail_firstIndex]
  show sub l.storage.all (l.firstIndex - l.storage.dummy.index) (off' - l.storage.dummy.index) ++ es' = _
  rw [List.take_append_of_le_length (by rw [w.stable_part_length]; omega)]
  congr 1
  unfold sub
  rw [List.take_take]
  congr 1
  by_cases h : l.firstIndex < off'
  · have := hk h; omega
  · omega

theorem withTail_wf {l : RaftLog} (w : WfLog l) (off' : Nat) (es' : List Entry) (hne : es' ≠ [])
    (hcontig : Contig off' es') (hlo : l.firstIndex ≤ off') (hhi : off' ≤ l.unstable.offset)
    (hcm : l.committed < off' + es'.length) : WfLog (withTail l off' es') := by
  refine ⟨w.stContig, hcontig, ?_, w.appliedLe, ?_, ?_⟩
  · have c := w.cover
    show match l.unstable.snapshot with | none => _ | some (si, _) => _
    cases hs : l.unstable.snapshot with
    | none =>
      rw [hs] at c; simp only at c
      have hf := RaftLog.firstIndex_none hs
      refine ⟨?_, ?_, fun h => absurd h hne⟩
      · show l.storage.firstIndex ≤ off'; omega
      · show off' ≤ l.storage.lastIndex + 1; omega
    | some p =>
      obtain ⟨si, st⟩ := p
      rw [hs] at c; simp only at c
      have hf := RaftLog.firstIndex_some hs
      refine ⟨?_, ?_, fun h => absurd h hne⟩
      · show si + 1 ≤ off'; omega
      · intro h
        show l.storage.dummy.index ≤ si ∧ off' ≤ l.storage.lastIndex + 1
        have := c.2.1 (by show si + 1 < l.unstable.offset; have : si + 1 < off' := h; omega)
        omega
  · show l.committed ≤ (withTail l off' es').lastIndex
    rw [withTail_lastIndex l off' es' hne]; omega
  · show (withTail l off' es').firstIndex ≤ l.committed + 1
    rw [withTail_firstIndex]; exact w.firstLe

/-- `append` of a contiguous non-empty batch that starts above `committed` and not beyond
    `lastIndex + 1`: the log up to the batch's first index is kept, the batch replaces the rest -/
theorem append_ok {l : RaftLog} (w : WfLog l) (e0 : Entry) (es : List Entry)
    (hc : Contig e0.index (e0 :: es)) (h1 : l.committed < e0.index) (h2 : e0.index ≤ l.lastIndex + 1) :
    ∃ l', l.append (e0 :: es) = .ok (l', e0.index + es.length) ∧
      l'.storage = l.storage ∧ l'.committed = l.committed ∧ l'.applied = l.applied ∧
      l'.maxNextEntsSize = l.maxNextEntsSize ∧ l'.unstable.snapshot = l.unstable.snapshot ∧
      l'.firstIndex = l.firstIndex ∧ l'.lastIndex = e0.index + es.length ∧
      fullLog l' = (fullLog l).take (e0.index - l.firstIndex) ++ e0 :: es ∧ WfLog l' := by
  have hls := w.last_succ
  have hfo := w.first_le_off
  have hfl := w.firstLe
  obtain ⟨c1, c2, c3, _⟩ := truncateAndAppend_cases l.unstable e0 es
  have hguard : ¬ (e0.index ≠ 0 ∧ e0.index - 1 < l.committed) := by omega
  have hsl := w.stable_part_length
  have hS : (fullLog l).take (l.unstable.offset - l.firstIndex) =
      sub l.storage.all (l.firstIndex - l.storage.dummy.index) (l.unstable.offset - l.storage.dummy.index) := by
    unfold fullLog; exact List.take_left' hsl
  -- the three non-panicking cases produce `withTail l off' es'`
  have key : ∀ (off' : Nat) (es' : List Entry), es' ≠ [] →
      l.unstable.truncateAndAppend (e0 :: es) = .ok { l.unstable with offset := off', entries := es' } →
      Contig off' es' → l.firstIndex ≤ off' → off' ≤ l.unstable.offset →
      off' + es'.length = e0.index + es.length + 1 →
      (fullLog l).take (off' - l.firstIndex) ++ es' = (fullLog l).take (e0.index - l.firstIndex) ++ e0 :: es →
      ∃ l', l.append (e0 :: es) = .ok (l', e0.index + es.length) ∧
        l'.storage = l.storage ∧ l'.committed = l.committed ∧ l'.applied = l.applied ∧
        l'.maxNextEntsSize = l.maxNextEntsSize ∧ l'.unstable.snapshot = l.unstable.snapshot ∧
        l'.firstIndex = l.firstIndex ∧ l'.lastIndex = e0.index + es.length ∧
        fullLog l' = (fullLog l).take (e0.index - l.firstIndex) ++ e0 :: es ∧ WfLog l' := by
    intro off' es' hne htr hct hlo hhi hlen hfull
    refine ⟨withTail l off' es', ?_, rfl, rfl, rfl, rfl, rfl, withTail_firstIndex _ _ _, ?_, ?_, ?_⟩
    · unfold RaftLog.append
      simp only []
      rw [if_neg hguard, htr]
      simp only []
      have : (withTail l off' es').lastIndex = e0.index + es.length := by
        rw [withTail_lastIndex l off' es' hne]; omega
      show Res.ok (withTail l off' es', (withTail l off' es').lastIndex) = _
      rw [this]
    · rw [withTail_lastIndex l off' es' hne]; omega
    · rw [withTail_fullLog w off' es' hlo hhi, hfull]
    · exact withTail_wf w off' es' hne hct hlo hhi (by omega)
  by_cases hA : e0.index = l.unstable.offset + l.unstable.entries.length
  · -- directly append
    refine key l.unstable.offset (l.unstable.entries ++ e0 :: es) (by simp) (c1 hA) ?_ hfo (Nat.le_refl _) ?_ ?_
    · exact w.unContig.append (by rw [← hA]; exact hc)
    · simp; omega
    · have hlen := w.fullLog_length
      rw [hS, List.take_of_length_le (by omega)]
      unfold fullLog; simp
  · by_cases hB : e0.index ≤ l.unstable.offset
    · -- replace the unstable entries
      exact key e0.index (e0 :: es) (by simp) (c2 hA hB) hc (by omega) hB
        (by simp only [List.length_cons]; omega) rfl
    · -- truncate, then append
      have hlt : e0.index < l.unstable.offset + l.unstable.entries.length := by omega
      refine key l.unstable.offset (l.unstable.entries.take (e0.index - l.unstable.offset) ++ e0 :: es) (by simp)
        (c3 (by omega) hlt) ?_ hfo (Nat.le_refl _) ?_ ?_
      · apply (w.unContig.take _).append
        rw [List.length_take, Nat.min_eq_left (by omega)]
        have : l.unstable.offset + (e0.index - l.unstable.offset) = e0.index := by omega
        rw [this]; exact hc
      · simp [List.length_take]; omega
      · have hF : (fullLog l).take (e0.index - l.firstIndex) =
            sub l.storage.all (l.firstIndex - l.storage.dummy.index) (l.unstable.offset - l.storage.dummy.index) ++
              l.unstable.entries.take (e0.index - l.unstable.offset) := by
          unfold fullLog
          rw [List.take_append, hsl, List.take_of_length_le (by rw [hsl]; omega)]
          congr 2; omega
        rw [hS, hF]; simp

theorem append_panic_after (l : RaftLog) (e0 : Entry) (es : List Entry) (h0 : e0.index ≠ 0)
    (h : e0.index ≤ l.committed) : l.append (e0 :: es) = .panic .after := by
  unfold RaftLog.append; simp only []; rw [if_pos ⟨h0, by omega⟩]

theorem append_panic_oob {l : RaftLog} (w : WfLog l) (e0 : Entry) (es : List Entry)
    (h : l.lastIndex + 1 < e0.index) : l.append (e0 :: es) = .panic .usliceOob := by
  have hls := w.last_succ
  have := w.committedLe
  obtain ⟨_, _, _, c4⟩ := truncateAndAppend_cases l.unstable e0 es
  unfold RaftLog.append; simp only []
  rw [if_neg (by omega), c4 (by omega)]

/-! ### `commitTo` on well-formed logs -/

theorem commitTo_ok {l : RaftLog} (w : WfLog l) (c : Nat) (h : c ≤ l.lastIndex) :
    ∃ l', l.commitTo c = .ok l' ∧ l'.storage = l.storage ∧ l'.unstable = l.unstable ∧ l'.applied = l.applied ∧
      l'.maxNextEntsSize = l.maxNextEntsSize ∧ l'.committed = max l.committed c ∧ WfLog l' := by
  obtain ⟨c1, c2, _⟩ := commitTo_cases l c
  by_cases hc : c ≤ l.committed
  · exact ⟨l, c1 hc, rfl, rfl, rfl, rfl, by omega, w⟩
  · exact ⟨{ l with committed := c }, c2 (by omega) h, rfl, rfl, rfl, rfl, by show c = _; omega,
      w.setCommitted c (by omega) h⟩

theorem fullLog_congr {l l' : RaftLog} (h1 : l'.storage = l.storage) (h2 : l'.unstable = l.unstable) :
    fullLog l' = fullLog l := by
  unfold fullLog
  rw [firstIndex_congr h1 (by rw [h2]), h1, h2]

theorem lastIndex_congr {l l' : RaftLog} (h1 : l'.storage = l.storage) (h2 : l'.unstable = l.unstable) :
    l'.lastIndex = l.lastIndex := by
  unfold RaftLog.lastIndex; rw [h1, h2]

/-! ### `maybeAppend` -/

theorem maybeAppend_reject {l : RaftLog} (w : WfLog l) (index logTerm cm : Nat) (ents : List Entry)
    (h : termW l index ≠ logTerm) : l.maybeAppend index logTerm cm ents = .ok (l, none) := by
  unfold RaftLog.maybeAppend
  rw [matchTerm_eq w]
  have : (termW l index == logTerm) = false := by simp [h]
  rw [this]

theorem maybeAppend_accept {l : RaftLog} (w : WfLog l) (index logTerm cm : Nat) (ents : List Entry)
    (hm : termW l index = logTerm) (h1 : l.firstIndex ≤ index + 1) (h2 : index ≤ l.lastIndex)
    (hc : Contig (index + 1) ents) (ht : ∀ e ∈ ents, e.term ≠ 0) :
    (matched l (index + 1) ents < ents.length → index + 1 + matched l (index + 1) ents ≤ l.committed →
      l.maybeAppend index logTerm cm ents = .panic .conflict) ∧
    (¬ (matched l (index + 1) ents < ents.length ∧ index + 1 + matched l (index + 1) ents ≤ l.committed) →
      ∃ l', l.maybeAppend index logTerm cm ents = .ok (l', some (index + ents.length)) ∧
        l'.storage = l.storage ∧ l'.applied = l.applied ∧ l'.unstable.snapshot = l.unstable.snapshot ∧
        l'.maxNextEntsSize = l.maxNextEntsSize ∧
        l'.firstIndex = l.firstIndex ∧
        l'.lastIndex = (if matched l (index + 1) ents = ents.length then l.lastIndex else index + ents.length) ∧
        l'.committed = max l.committed (min cm (index + ents.length)) ∧
        fullLog l' = (if matched l (index + 1) ents = ents.length then fullLog l
          else (fullLog l).take (index + 1 - l.firstIndex + matched l (index + 1) ents)
            ++ ents.drop (matched l (index + 1) ents)) ∧
        WfLog l') := by
  have hmle := matched_le l (index + 1) ents
  have hmb := matched_bound w (index + 1) ents h1 (by omega)
  have hfc := findConflictP_spec w ents (index + 1) hc h1 ht
  have hmt : (termW l index == logTerm) = true := by simp [hm]
  generalize matched l (index + 1) ents = m at *
  refine ⟨?_, ?_⟩
  · intro hlt hle
    unfold RaftLog.maybeAppend
    rw [matchTerm_eq w, hmt]
    simp only []
    rw [findConflict_eq w, hfc, if_neg (by omega)]
    simp only []
    rw [if_neg (by omega), if_pos hle]
  · intro hno
    by_cases hall : m = ents.length
    · -- everything is already in the log
      obtain ⟨l', e1, e2, e3, e4, e5, e6, e7⟩ := commitTo_ok w (min cm (index + ents.length)) (by omega)
      refine ⟨l', ?_, e2, e4, by rw [e3], e5, firstIndex_congr e2 (by rw [e3]), ?_, e6, ?_, e7⟩
      · unfold RaftLog.maybeAppend
        rw [matchTerm_eq w, hmt]
        simp only []
        rw [findConflict_eq w, hfc, if_pos hall]
        simp only [↓reduceIte]
        rw [e1]
      · rw [lastIndex_congr e2 e3, if_pos hall]
      · rw [if_pos hall]; exact fullLog_congr e2 e3
    · -- truncate at the first conflict / append the new entries
      have hlt : m < ents.length := by omega
      have hgt : l.committed < index + 1 + m := by omega
      -- the batch handed to `append`
      cases hd : ents.drop m with
      | nil => have := congrArg List.length hd; simp at this; omega
      | cons e0 es =>
        have hcd : Contig (index + 1 + m) (e0 :: es) := by rw [← hd]; exact hc.drop m
        have hidx : e0.index = index + 1 + m := hcd.head
        have hlen : es.length + 1 + m = ents.length := by
          have := congrArg List.length hd; simp at this; omega
        obtain ⟨l1, a1, a2, a3, a4, a5, a6, a7, a8, a9, a10⟩ :=
          append_ok w e0 es (by rw [hidx]; exact hcd) (by omega) (by omega)
        obtain ⟨l', e1, e2, e3, e4, e5, e6, e7⟩ := commitTo_ok a10 (min cm (index + ents.length)) (by omega)
        refine ⟨l', ?_, by rw [e2, a2], by rw [e4, a4], by rw [e3, a6], by rw [e5, a5],
          by rw [firstIndex_congr e2 (by rw [e3]), a7], ?_, by rw [e6, a3], ?_, e7⟩
        · unfold RaftLog.maybeAppend
          rw [matchTerm_eq w, hmt]
          simp only []
          rw [findConflict_eq w, hfc, if_neg hall]
          simp only []
          rw [if_neg (by omega), if_neg (by omega), if_neg (by omega)]
          have : index + 1 + m - (index + 1) = m := by omega
          rw [this, hd, a1]
          simp only []
          rw [e1]
        · rw [lastIndex_congr e2 e3, a8, if_neg hall]; omega
        · rw [if_neg hall, fullLog_congr e2 e3, a9, hidx]
          congr 2; omega

/-! ### the abstraction: the concrete log is the suffix above the snapshot index of a whole log -/

/-- `l` represents the whole log `L` (1-based, no compaction): above its dummy index it is `fullLog l`,
    and the dummy (snapshot) term is the term `L` has there -/
structure Abs (l : RaftLog) (L : Z.LogMatch.Log) : Prop where
  base_le : l.firstIndex - 1 ≤ L.length
  suffix : L.drop (l.firstIndex - 1) = (fullLog l).map absE
  baseTerm : termAt L (l.firstIndex - 1) = dummyTerm l

theorem Abs.length {l : RaftLog} {L : Z.LogMatch.Log} (w : WfLog l) (a : Abs l L) : L.length = l.lastIndex := by
  have h := congrArg List.length a.suffix
  rw [List.length_drop, List.length_map, w.fullLog_length] at h
  have := a.base_le; have := w.first_pos; have := w.first_le_last_succ
  omega

theorem Abs.get {l : RaftLog} {L : Z.LogMatch.Log} (w : WfLog l) (a : Abs l L) {i : Nat}
    (h1 : l.firstIndex ≤ i) : L[i - 1]? = ((fullLog l).map absE)[i - l.firstIndex]? := by
  have := w.first_pos
  rw [← a.suffix, List.getElem?_drop]
  congr 1; omega

/-- the concrete `term(i)` is the abstract `termAt` on the represented range -/
theorem Abs.termAt_eq {l : RaftLog} {L : Z.LogMatch.Log} (w : WfLog l) (a : Abs l L) {i : Nat}
    (h1 : l.firstIndex ≤ i + 1) (h2 : i ≤ l.lastIndex) : termAt L i = termW l i := by
  have hfp := w.first_pos
  by_cases hd : i + 1 = l.firstIndex
  · rw [termW_dummy w hd]
    have : i = l.firstIndex - 1 := by omega
    rw [this]; exact a.baseTerm
  · have h1' : l.firstIndex ≤ i := by omega
    obtain ⟨e, he, _⟩ := w.fullLog_get h1' h2
    rw [termW_in_range w h1' h2 he]
    unfold termAt
    rw [if_neg (by omega), a.get w h1', List.getElem?_map, he]
    rfl

theorem matchLen_shift (L : Z.LogMatch.Log) (b : Nat) : ∀ (E : List Z.LogMatch.Entry) (p : Nat),
    matchLen L (b + p) E = matchLen (L.drop b) p E := by
  intro E
  induction E with
  | nil => intro p; simp [matchLen]
  | cons e es ih =>
    intro p
    simp only [matchLen]
    rw [List.getElem?_drop]
    have := ih (p + 1)
    rw [← Nat.add_assoc] at this
    rw [this]

theorem Abs.matched_eq {l : RaftLog} {L : Z.LogMatch.Log} (w : WfLog l) (a : Abs l L) (index : Nat)
    (ents : List Entry) (h1 : l.firstIndex ≤ index + 1) :
    matchLen L index (ents.map absE) = matched l (index + 1) ents := by
  have hfp := w.first_pos
  have e : index = (l.firstIndex - 1) + (index + 1 - l.firstIndex) := by omega
  unfold matched
  rw [← a.suffix, ← matchLen_shift, ← e]

theorem dummyTerm_congr {l l' : RaftLog} (h1 : l'.storage = l.storage)
    (h2 : l'.unstable.snapshot = l.unstable.snapshot) : dummyTerm l' = dummyTerm l := by
  unfold dummyTerm; rw [h1, h2]

/-- **refinement of `maybeAppend`**: whatever whole log `L` the concrete log represents, after an
    accepted `maybeAppend` it represents `Z.LogMatch.maybeAppend L index ents` -/
theorem Abs.maybeAppend {l l' : RaftLog} {L : Z.LogMatch.Log} (w : WfLog l) (a : Abs l L) (index : Nat)
    (ents : List Entry) (h1 : l.firstIndex ≤ index + 1) (h2 : index ≤ l.lastIndex)
    (hs : l'.storage = l.storage) (hsn : l'.unstable.snapshot = l.unstable.snapshot)
    (hf : fullLog l' = (if matched l (index + 1) ents = ents.length then fullLog l
          else (fullLog l).take (index + 1 - l.firstIndex + matched l (index + 1) ents)
            ++ ents.drop (matched l (index + 1) ents))) :
    Abs l' (Z.LogMatch.maybeAppend L index (ents.map absE)) := by
  have hfp := w.first_pos
  have hfi : l'.firstIndex = l.firstIndex := firstIndex_congr hs hsn
  have hdt : dummyTerm l' = dummyTerm l := dummyTerm_congr hs hsn
  have hm := a.matched_eq w index ents h1
  have hlen := a.length w
  unfold Z.LogMatch.maybeAppend
  simp only []
  rw [hm, List.length_map]
  by_cases hall : matched l (index + 1) ents = ents.length
  · rw [if_pos hall]
    rw [if_pos hall] at hf
    exact ⟨by rw [hfi]; exact a.base_le, by rw [hfi, hf]; exact a.suffix, by rw [hfi, hdt]; exact a.baseTerm⟩
  · rw [if_neg hall]
    rw [if_neg hall] at hf
    generalize matched l (index + 1) ents = m at *
    have hb := a.base_le
    have hlt : (l.firstIndex - 1) ≤ (L.take (index + m)).length := by
      rw [List.length_take]; omega
    refine ⟨?_, ?_, ?_⟩
    · rw [hfi, List.length_append]; omega
    · rw [hfi, hf, List.drop_append_of_le_length hlt, List.map_append, List.map_take, List.map_drop, ← a.suffix,
        List.drop_take]
      congr 2; omega
    · rw [hfi, hdt, ← a.baseTerm]
      unfold termAt
      by_cases h0 : l.firstIndex - 1 = 0
      · rw [if_pos h0, if_pos h0]
      · rw [if_neg h0, if_neg h0]
        rw [List.getElem?_append_left (by omega), List.getElem?_take, if_pos (by omega)]

/-! ### `restore`, `newLog` -/

theorem restore_wf {l : RaftLog} (w : WfLog l) (i t : Nat) (h : l.applied ≤ i) :
    WfLog (l.restore i t) ∧ fullLog (l.restore i t) = [] ∧ (l.restore i t).firstIndex = i + 1 ∧
    (l.restore i t).lastIndex = i ∧ (l.restore i t).committed = i ∧ (l.restore i t).applied = l.applied ∧
    dummyTerm (l.restore i t) = t := by
  have hfi : (l.restore i t).firstIndex = i + 1 := RaftLog.firstIndex_some (l := l.restore i t) rfl
  have hli : (l.restore i t).lastIndex = i := RaftLog.lastIndex_nil_some (l := l.restore i t) rfl rfl
  refine ⟨⟨w.stContig, Contig.nil _, ?_, h, ?_, ?_⟩, ?_, hfi, hli, rfl, rfl, rfl⟩
  · show (i + 1 ≤ i + 1) ∧ (i + 1 < i + 1 → _) ∧ (_ → i + 1 = i + 1)
    exact ⟨Nat.le_refl _, fun h => absurd h (Nat.lt_irrefl _), fun _ => rfl⟩
  · rw [hli]; exact Nat.le_refl _
  · rw [hfi]; exact Nat.le_refl _
  · unfold fullLog; rw [hfi]
    show sub l.storage.all (i + 1 - l.storage.dummy.index) (i + 1 - l.storage.dummy.index) ++ [] = []
    simp [sub]

theorem newLog_wf (s : Storage) (m : Nat) (h : Contig s.dummy.index s.all) :
    WfLog (RaftLog.newLog s m) ∧ fullLog (RaftLog.newLog s m) = s.rest ∧
    (RaftLog.newLog s m).committed = s.dummy.index ∧ (RaftLog.newLog s m).applied = s.dummy.index ∧
    (RaftLog.newLog s m).firstIndex = s.dummy.index + 1 ∧ (RaftLog.newLog s m).lastIndex = s.lastIndex := by
  have hl := s.lastIndex_eq
  have hfi : (RaftLog.newLog s m).firstIndex = s.dummy.index + 1 :=
    RaftLog.firstIndex_none (l := RaftLog.newLog s m) rfl
  have hli : (RaftLog.newLog s m).lastIndex = s.lastIndex :=
    RaftLog.lastIndex_nil_none (l := RaftLog.newLog s m) rfl rfl
  have hc : (RaftLog.newLog s m).committed = s.dummy.index := by simp [RaftLog.newLog, Storage.firstIndex]
  have ha : (RaftLog.newLog s m).applied = s.dummy.index := by simp [RaftLog.newLog, Storage.firstIndex]
  refine ⟨⟨h, Contig.nil _, ?_, by rw [hc, ha]; exact Nat.le_refl _, by rw [hc, hli]; omega, by rw [hfi, hc]; exact Nat.le_refl _⟩,
    ?_, hc, ha, hfi, hli⟩
  · show s.firstIndex ≤ s.lastIndex + 1 ∧ s.lastIndex + 1 ≤ s.lastIndex + 1 ∧ (_ → s.lastIndex + 1 = s.lastIndex + 1)
    exact ⟨by simp [Storage.firstIndex]; omega, Nat.le_refl _, fun _ => rfl⟩
  · unfold fullLog; rw [hfi]
    show sub s.all (s.dummy.index + 1 - s.dummy.index) (s.lastIndex + 1 - s.dummy.index) ++ [] = s.rest
    have e1 : s.dummy.index + 1 - s.dummy.index = 1 := by omega
    have e2 : s.lastIndex + 1 - s.dummy.index = s.rest.length + 1 := by omega
    rw [e1, e2]; simp [sub, Storage.all]

/-! ### `stableTo`, `stableSnapTo` -/

/-- what `stableTo(i, t)` does: it moves the offset only when `i` is an unstable entry's index and
    that entry has term `t` -/
theorem stableTo_cases {l : RaftLog} (w : WfLog l) (i t : Nat) :
    (∀ e, l.unstable.offset ≤ i → l.unstable.entries[i - l.unstable.offset]? = some e → e.term = t →
      l.stableTo i t = .ok { l with unstable := { l.unstable with
        entries := l.unstable.entries.drop (i + 1 - l.unstable.offset), offset := i + 1 } }) ∧
    ((i < l.unstable.offset ∨ l.unstable.entries[i - l.unstable.offset]? = none ∨
        ∃ e, l.unstable.entries[i - l.unstable.offset]? = some e ∧ e.term ≠ t) → l.stableTo i t = .ok l) := by
  have hmt := Unstable.maybeTerm_eq l.unstable i (fun si st hs _ => w.snapLt hs)
  refine ⟨?_, ?_⟩
  · intro e h1 h2 h3
    unfold RaftLog.stableTo Unstable.stableTo
    rw [hmt]
    unfold Unstable.maybeTermP
    rw [if_neg (by omega), h2]
    simp only []
    rw [if_pos ⟨h3, h1⟩]
  · intro h
    unfold RaftLog.stableTo Unstable.stableTo
    rw [hmt]
    unfold Unstable.maybeTermP
    by_cases hlt : i < l.unstable.offset
    · rw [if_pos hlt]
      cases hs : l.unstable.snapshot with
      | none => rfl
      | some p =>
        obtain ⟨si, st⟩ := p
        by_cases hsi : si = i
        · simp only [hsi, ↓reduceIte]
          rw [if_neg (by omega)]
        · simp only [hsi, ↓reduceIte]
    · rw [if_neg hlt]
      rcases h with h | h | ⟨e, h, hne⟩
      · exact absurd h hlt
      · rw [h]
      · rw [h]; simp only []
        rw [if_neg (fun hh => hne hh.1)]

/-- the application wrote the unstable entries `offset .. i` (and nothing after them) to the storage -/
def Persisted (l : RaftLog) (i : Nat) : Prop :=
  l.storage.lastIndex = i ∧ l.storage.dummy.index < l.unstable.offset ∧
  (∀ j, l.unstable.offset ≤ j → j ≤ i →
    l.storage.all[j - l.storage.dummy.index]? = l.unstable.entries[j - l.unstable.offset]?) ∧
  (∀ si st, l.unstable.snapshot = some (si, st) → l.storage.dummy.index ≤ si)

theorem stableTo_wf {l : RaftLog} (w : WfLog l) (i : Nat) (h1 : l.unstable.offset ≤ i) (h2 : i ≤ l.lastIndex)
    (hp : Persisted l i) (hs : l.unstable.snapshot = none ∨ i < l.lastIndex) :
    let l' : RaftLog := { l with unstable := { l.unstable with
        entries := l.unstable.entries.drop (i + 1 - l.unstable.offset), offset := i + 1 } }
    WfLog l' ∧ fullLog l' = fullLog l ∧ l'.firstIndex = l.firstIndex ∧ l'.lastIndex = l.lastIndex := by
  intro l'
  obtain ⟨p1, p2, p3, p4⟩ := hp
  have hls := w.last_succ
  have hfo := w.first_le_off
  have hfi : l'.firstIndex = l.firstIndex := firstIndex_congr rfl rfl
  have hdl : (l.unstable.entries.drop (i + 1 - l.unstable.offset)).length =
      l.unstable.entries.length - (i + 1 - l.unstable.offset) := List.length_drop
  have hli : l'.lastIndex = l.lastIndex := by
    by_cases hnil : l.unstable.entries.drop (i + 1 - l.unstable.offset) = []
    · have hlen : l.unstable.entries.length ≤ i + 1 - l.unstable.offset := by
        rw [hnil] at hdl; simp at hdl; omega
      rcases hs with hs | hs
      · rw [RaftLog.lastIndex_nil_none (l := l') hnil hs]
        show l.storage.lastIndex = _; omega
      · omega
    · rw [RaftLog.lastIndex_cons (l := l') hnil]
      show i + 1 + (l.unstable.entries.drop (i + 1 - l.unstable.offset)).length - 1 = _
      rw [hdl]
      have : l.unstable.entries.length - (i + 1 - l.unstable.offset) ≠ 0 := by
        intro h0; apply hnil; apply List.eq_nil_of_length_eq_zero; rw [hdl]; exact h0
      omega
  have hfd : l.storage.dummy.index + 1 ≤ l.firstIndex := by
    cases hsn : l.unstable.snapshot with
    | none => rw [RaftLog.firstIndex_none hsn]; simp [Storage.firstIndex]
    | some p => obtain ⟨si, st⟩ := p; rw [RaftLog.firstIndex_some hsn]; have := p4 si st hsn; omega
  refine ⟨⟨w.stContig, ?_, ?_, w.appliedLe, ?_, ?_⟩, ?_, hfi, hli⟩
  · have := w.unContig.drop (i + 1 - l.unstable.offset)
    have e : l.unstable.offset + (i + 1 - l.unstable.offset) = i + 1 := by omega
    rw [e] at this; exact this
  · show match l.unstable.snapshot with | none => _ | some (si, _) => _
    cases hsn : l.unstable.snapshot with
    | none =>
      show l.storage.firstIndex ≤ i + 1 ∧ i + 1 ≤ l.storage.lastIndex + 1 ∧ (_ → i + 1 = l.storage.lastIndex + 1)
      refine ⟨by simp [Storage.firstIndex]; omega, by omega, fun _ => by omega⟩
    | some p =>
      obtain ⟨si, st⟩ := p
      have := w.snapLt hsn
      have := p4 si st hsn
      show si + 1 ≤ i + 1 ∧ (si + 1 < i + 1 → l.storage.dummy.index ≤ si ∧ i + 1 ≤ l.storage.lastIndex + 1) ∧
        (l.unstable.entries.drop (i + 1 - l.unstable.offset) = [] → i + 1 = si + 1)
      refine ⟨by omega, fun _ => ⟨by omega, by omega⟩, ?_⟩
      intro hnil
      rcases hs with hs | hs
      · rw [hsn] at hs; cases hs
      · rw [hnil] at hdl; simp at hdl; omega
  · rw [hli]; exact w.committedLe
  · rw [hfi]; exact w.firstLe
  · -- the storage part grew by exactly the entries that left the unstable part
    have key : sub l.storage.all (l.firstIndex - l.storage.dummy.index) (i + 1 - l.storage.dummy.index) =
        sub l.storage.all (l.firstIndex - l.storage.dummy.index) (l.unstable.offset - l.storage.dummy.index) ++
          l.unstable.entries.take (i + 1 - l.unstable.offset) := by
      apply List.ext_getElem?
      intro k
      rw [sub_getElem?]
      by_cases hk : k < l.unstable.offset - l.firstIndex
      · rw [List.getElem?_append_left (by rw [w.stable_part_length]; exact hk), sub_getElem?,
          if_pos (by omega), if_pos (by omega)]
      · rw [List.getElem?_append_right (by rw [w.stable_part_length]; omega), w.stable_part_length,
          List.getElem?_take]
        by_cases hk2 : k < i + 1 - l.firstIndex
        · rw [if_pos (by omega), if_pos (by omega)]
          have := p3 (l.firstIndex + k) (by omega) (by omega)
          have e1 : l.firstIndex - l.storage.dummy.index + k = l.firstIndex + k - l.storage.dummy.index := by omega
          have e2 : k - (l.unstable.offset - l.firstIndex) = l.firstIndex + k - l.unstable.offset := by omega
          rw [e1, e2]; exact this
        · rw [if_neg (by omega), if_neg (by omega)]
    unfold fullLog
    rw [hfi]
    show sub l.storage.all (l.firstIndex - l.storage.dummy.index) (i + 1 - l.storage.dummy.index) ++
      l.unstable.entries.drop (i + 1 - l.unstable.offset) = _
    rw [key, List.append_assoc, List.take_append_drop]

theorem stableSnapTo_cases (l : RaftLog) (i : Nat) :
    (∀ si st, l.unstable.snapshot = some (si, st) → si = i →
      l.stableSnapTo i = { l with unstable := { l.unstable with snapshot := none } }) ∧
    ((l.unstable.snapshot = none ∨ ∃ si st, l.unstable.snapshot = some (si, st) ∧ si ≠ i) → l.stableSnapTo i = l) := by
  refine ⟨?_, ?_⟩
  · intro si st hs he
    unfold RaftLog.stableSnapTo Unstable.stableSnapTo
    rw [hs]; simp only []; rw [if_pos he]
  · intro h
    unfold RaftLog.stableSnapTo Unstable.stableSnapTo
    rcases h with h | ⟨si, st, h, hne⟩
    · rw [h]
    · rw [h]; simp only []; rw [if_neg hne]

/-- dropping the pending snapshot once the storage has applied it -/
theorem stableSnapTo_wf {l : RaftLog} (w : WfLog l) {si st : Nat} (hs : l.unstable.snapshot = some (si, st))
    (hd : l.storage.dummy.index = si) (ht : l.storage.dummy.term = st)
    (hcov : l.unstable.offset ≤ l.storage.lastIndex + 1)
    (hnil : l.unstable.entries = [] → l.unstable.offset = l.storage.lastIndex + 1) :
    let l' : RaftLog := { l with unstable := { l.unstable with snapshot := none } }
    WfLog l' ∧ fullLog l' = fullLog l ∧ l'.firstIndex = l.firstIndex ∧ l'.lastIndex = l.lastIndex ∧
      dummyTerm l' = dummyTerm l := by
  intro l'
  have hfi0 := RaftLog.firstIndex_some hs
  have hfi : l'.firstIndex = l.firstIndex := by
    rw [RaftLog.firstIndex_none (l := l') rfl, hfi0]
    show l.storage.firstIndex = _; simp [Storage.firstIndex]; omega
  have hls := w.last_succ
  have hli : l'.lastIndex = l.lastIndex := by
    by_cases hn : l.unstable.entries = []
    · rw [RaftLog.lastIndex_nil_none (l := l') hn rfl, RaftLog.lastIndex_nil_some hn hs]
      show l.storage.lastIndex = si
      have := hnil hn
      have c := w.cover; rw [hs] at c; simp only at c
      have := c.2.2 hn
      omega
    · rw [RaftLog.lastIndex_cons (l := l') hn, RaftLog.lastIndex_cons hn]
  have := w.snapLt hs
  refine ⟨⟨w.stContig, w.unContig, ?_, w.appliedLe, by rw [hli]; exact w.committedLe, by rw [hfi]; exact w.firstLe⟩,
    ?_, hfi, hli, ?_⟩
  · show l.storage.firstIndex ≤ l.unstable.offset ∧ l.unstable.offset ≤ l.storage.lastIndex + 1 ∧
      (l.unstable.entries = [] → l.unstable.offset = l.storage.lastIndex + 1)
    exact ⟨by simp [Storage.firstIndex]; omega, hcov, hnil⟩
  · unfold fullLog; rw [hfi]
  · unfold dummyTerm; rw [hs]; exact ht

/-! ### `slice`, `nextEnts` -/

/-- the entries at indexes `a .. b-1` -/
def range (l : RaftLog) (a b : Nat) : List Entry := ((fullLog l).drop (a - l.firstIndex)).take (b - a)

theorem WfLog.fullLog_getElem? {l : RaftLog} (w : WfLog l) (k : Nat) :
    (fullLog l)[k]? = if l.firstIndex + k < l.unstable.offset
      then l.storage.all[l.firstIndex + k - l.storage.dummy.index]?
      else l.unstable.entries[l.firstIndex + k - l.unstable.offset]? := by
  have e : k = l.firstIndex + k - l.firstIndex := by omega
  split
  · rename_i h
    have := w.fullLog_get_stable (i := l.firstIndex + k) (by omega) h
    rw [← e] at this; exact this
  · rename_i h
    have := w.fullLog_get_unstable (i := l.firstIndex + k) (by omega)
    rw [← e] at this; exact this

theorem range_length {l : RaftLog} (w : WfLog l) {a b : Nat} (h1 : l.firstIndex ≤ a) (h2 : b ≤ l.lastIndex + 1) :
    (range l a b).length = b - a := by
  unfold range
  rw [List.length_take, List.length_drop, w.fullLog_length]; omega

theorem range_stable {l : RaftLog} (w : WfLog l) {a b : Nat} (h1 : l.firstIndex ≤ a) (h2 : a < b)
    (h3 : b ≤ l.unstable.offset) :
    sub l.storage.all (a - l.storage.dummy.index) (b - l.storage.dummy.index) = range l a b := by
  have hc := w.storage_covers (by omega)
  apply List.ext_getElem?
  intro k
  unfold range
  rw [sub_getElem?, List.getElem?_take, List.getElem?_drop, w.fullLog_getElem?]
  by_cases hk : k < b - a
  · rw [if_pos (by omega), if_pos hk, if_pos (by omega)]
    congr 1; omega
  · rw [if_neg (by omega), if_neg hk]

theorem range_unstable {l : RaftLog} (w : WfLog l) {a b : Nat} (h1 : l.unstable.offset ≤ a) (h2 : a ≤ b) :
    sub l.unstable.entries (a - l.unstable.offset) (b - l.unstable.offset) = range l a b := by
  have := w.first_le_off
  apply List.ext_getElem?
  intro k
  unfold range
  rw [sub_getElem?, List.getElem?_take, List.getElem?_drop, w.fullLog_getElem?]
  by_cases hk : k < b - a
  · rw [if_pos (by omega), if_pos hk, if_neg (by omega)]
    congr 1; omega
  · rw [if_neg (by omega), if_neg hk]

theorem range_split (l : RaftLog) {a m b : Nat} (h0 : l.firstIndex ≤ a) (h1 : a ≤ m) (h2 : m ≤ b) :
    range l a m ++ range l m b = range l a b := by
  unfold range
  have e1 : m - l.firstIndex = (a - l.firstIndex) + (m - a) := by omega
  have e2 : b - a = (m - a) + (b - m) := by omega
  rw [e1, e2, ← List.drop_drop, List.take_add]

theorem range_take (l : RaftLog) (a b n : Nat) (h : n ≤ b - a) :
    (range l a b).take n = ((fullLog l).drop (a - l.firstIndex)).take n := by
  unfold range; rw [List.take_take, Nat.min_eq_left h]

theorem range_contig {l : RaftLog} (w : WfLog l) (a b : Nat) (h : l.firstIndex ≤ a) : Contig a (range l a b) := by
  unfold range
  have := (w.fullLog_contig.drop (a - l.firstIndex)).take (b - a)
  have e : l.firstIndex + (a - l.firstIndex) = a := by omega
  rw [e] at this; exact this

/-- `slice(lo, hi, maxSize)` with firstIndex ≤ lo ≤ hi ≤ lastIndex+1 returns a prefix of the entries
    lo .. hi-1 — at least one if lo < hi, all of them if their total size fits `maxSize` -/
theorem slice_ok {l : RaftLog} (w : WfLog l) (lo hi m : Nat) (h1 : l.firstIndex ≤ lo) (h2 : lo ≤ hi)
    (h3 : hi ≤ l.lastIndex + 1) :
    ∃ n, l.slice lo hi m = .ok ((range l lo hi).take n) ∧ n ≤ hi - lo ∧ (lo < hi → 1 ≤ n) ∧
      (((range l lo hi).map Entry.size).sum ≤ m → n = hi - lo) := by
  have hls := w.last_succ
  have hfo := w.first_le_off
  have hmc : l.mustCheckOutOfBounds lo hi = .ok () := by
    unfold RaftLog.mustCheckOutOfBounds
    rw [if_neg (by omega)]; simp only []; rw [if_neg (by omega), if_neg (by omega)]
  unfold RaftLog.slice
  rw [hmc]
  simp only []
  by_cases heq : lo = hi
  · rw [if_pos heq]
    exact ⟨0, by simp, by omega, by omega, fun _ => by omega⟩
  · rw [if_neg heq]
    have hlt : lo < hi := by omega
    have hrl := range_length w h1 h3
    -- the final `limitSize` over the whole range
    have fin : ∃ n, (Res.ok (limitSize (range l lo hi) m) : Res (List Entry)) = .ok ((range l lo hi).take n) ∧
        n ≤ hi - lo ∧ (lo < hi → 1 ≤ n) ∧ (((range l lo hi).map Entry.size).sum ≤ m → n = hi - lo) := by
      obtain ⟨n, e, hn1, hn2⟩ := limitSize_prefix (range l lo hi) m
      by_cases hfit : ((range l lo hi).map Entry.size).sum ≤ m
      · refine ⟨hi - lo, ?_, Nat.le_refl _, fun _ => by omega, fun _ => rfl⟩
        rw [limitSize_all _ _ hfit, List.take_of_length_le (by omega)]
      · refine ⟨n, by rw [e], by omega, fun _ => hn1 (by intro h; rw [h] at hrl; simp at hrl; omega),
          fun h => absurd h hfit⟩
    by_cases hst : lo < l.unstable.offset
    · rw [if_pos hst]
      have hc := w.storage_covers (by omega)
      have hl := l.storage.lastIndex_eq
      have ha := l.storage.all_length
      -- Storage.entries on a covered range
      have hent : l.storage.entries lo (min hi l.unstable.offset) m =
          .ok (limitSize (range l lo (min hi l.unstable.offset)) m) := by
        unfold Storage.entries
        simp only []
        rw [if_neg (by omega), if_neg (by omega), if_neg (by omega), if_neg (by omega),
          range_stable w h1 (by omega) (Nat.min_le_right _ _)]
      rw [hent]
      simp only []
      have hrl' := range_length w (a := lo) (b := min hi l.unstable.offset) h1 (by omega)
      obtain ⟨n1, e1, hn1, hn2⟩ := limitSize_prefix (range l lo (min hi l.unstable.offset)) m
      have hne : range l lo (min hi l.unstable.offset) ≠ [] := by
        intro h; rw [h] at hrl'; simp at hrl'; omega
      have hsplit := range_split l (a := lo) (m := min hi l.unstable.offset) (b := hi) h1 (by omega) (Nat.min_le_left _ _)
      by_cases hshort : (limitSize (range l lo (min hi l.unstable.offset)) m).length < min hi l.unstable.offset - lo
      · -- the size limit was reached inside the stored part
        rw [if_pos hshort]
        rw [e1, List.length_take] at hshort
        refine ⟨n1, ?_, by omega, fun _ => hn1 hne, ?_⟩
        · rw [e1, ← hsplit, List.take_append_of_le_length (by omega)]
        · intro hfit
          exfalso
          have : ((range l lo (min hi l.unstable.offset)).map Entry.size).sum ≤ m := by
            rw [← hsplit, List.map_append, List.sum_append] at hfit; omega
          rw [limitSize_all _ _ this] at e1
          have := congrArg List.length e1
          rw [List.length_take] at this; omega
      · rw [if_neg hshort]
        have hfull : limitSize (range l lo (min hi l.unstable.offset)) m = range l lo (min hi l.unstable.offset) := by
          rw [e1, List.length_take] at hshort
          rw [e1, List.take_of_length_le (by omega)]
        rw [hfull]
        unfold RaftLog.sliceTail
        simp only []
        by_cases hun : hi > l.unstable.offset
        · rw [if_pos hun]
          have hus : l.unstable.slice (max lo l.unstable.offset) hi = .ok (range l l.unstable.offset hi) := by
            unfold Unstable.slice
            rw [if_neg (by omega)]; simp only []; rw [if_neg (by omega)]
            have : max lo l.unstable.offset = l.unstable.offset := by omega
            rw [this, range_unstable w (Nat.le_refl _) (by omega)]
          rw [hus]
          simp only []
          have : min hi l.unstable.offset = l.unstable.offset := by omega
          rw [this] at hsplit ⊢
          rw [hsplit]; exact fin
        · rw [if_neg hun]
          have : min hi l.unstable.offset = hi := by omega
          rw [this]; exact fin
    · rw [if_neg hst]
      unfold RaftLog.sliceTail
      simp only []
      rw [if_pos (by omega)]
      have hus : l.unstable.slice (max lo l.unstable.offset) hi = .ok (range l lo hi) := by
        unfold Unstable.slice
        rw [if_neg (by omega)]; simp only []; rw [if_neg (by omega)]
        have : max lo l.unstable.offset = lo := by omega
        rw [this, range_unstable w (by omega) h2]
      rw [hus]
      simp only [List.nil_append]
      exact fin

/-- `nextEnts()` never panics on a well-formed log and returns a prefix of the entries
    max(applied+1, firstIndex) .. committed — non-empty iff `hasNextEnts` -/
theorem nextEnts_ok {l : RaftLog} (w : WfLog l) :
    ∃ n, l.nextEnts = .ok ((range l (max (l.applied + 1) l.firstIndex) (l.committed + 1)).take n) ∧
      n ≤ l.committed + 1 - max (l.applied + 1) l.firstIndex ∧
      (l.hasNextEnts = true → 1 ≤ n) ∧
      (((range l (max (l.applied + 1) l.firstIndex) (l.committed + 1)).map Entry.size).sum ≤ l.maxNextEntsSize →
        n = l.committed + 1 - max (l.applied + 1) l.firstIndex) := by
  have := w.committedLe
  unfold RaftLog.nextEnts RaftLog.hasNextEnts
  simp only []
  by_cases h : l.committed + 1 > max (l.applied + 1) l.firstIndex
  · rw [if_pos h]
    obtain ⟨n, e, hn1, hn2, hn3⟩ := slice_ok w (max (l.applied + 1) l.firstIndex) (l.committed + 1) l.maxNextEntsSize
      (Nat.le_max_right _ _) (by omega) (by omega)
    rw [e]
    exact ⟨n, rfl, hn1, fun _ => hn2 (by omega), hn3⟩
  · rw [if_neg h]
    refine ⟨0, by simp, by omega, ?_, fun _ => by omega⟩
    intro hh; simp at hh; omega

/-! ### MemoryStorage: what the four mutators do (C03: storage specs) -/

namespace Storage

/-- `Append`: the compacted prefix of the batch is dropped, the storage is cut at the batch's first
    (remaining) index and the batch is written there; a batch entirely below firstIndex changes nothing;
    a batch that would leave a gap panics -/
theorem append_spec (s : Storage) (hs : Contig s.dummy.index s.all) (e0 : Entry) (es : List Entry)
    (hc : Contig e0.index (e0 :: es)) :
    (e0.index + es.length < s.firstIndex → s.append (e0 :: es) = .ok s) ∧
    (s.lastIndex + 1 < e0.index → s.append (e0 :: es) = .panic .stMissing) ∧
    (s.firstIndex ≤ e0.index + es.length → e0.index ≤ s.lastIndex + 1 →
      ∃ s', s.append (e0 :: es) = .ok s' ∧ s'.snapIndex = s.snapIndex ∧ s'.snapTerm = s.snapTerm ∧
        s'.dummy = s.dummy ∧
        s'.all = s.all.take (max e0.index s.firstIndex - s.dummy.index) ++ (e0 :: es).drop (s.firstIndex - e0.index) ∧
        Contig s'.dummy.index s'.all ∧ s'.lastIndex = e0.index + es.length) := by
  have hl := s.lastIndex_eq
  have ha := s.all_length
  have hfi : s.firstIndex = s.dummy.index + 1 := rfl
  -- the batch after "truncate compacted entries"
  have htr : (if s.firstIndex > e0.index then (e0 :: es).drop (s.firstIndex - e0.index) else e0 :: es) =
      (e0 :: es).drop (s.firstIndex - e0.index) := by
    split
    · rfl
    · have : s.firstIndex - e0.index = 0 := by omega
      rw [this]; rfl
  refine ⟨?_, ?_, ?_⟩
  · intro h
    unfold append
    simp only [List.length_cons]
    rw [if_pos (by omega)]
  · intro h
    unfold append
    simp only [List.length_cons]
    rw [if_neg (by omega), htr]
    have : s.firstIndex - e0.index = 0 := by omega
    rw [this]
    simp only [List.drop_zero]
    rw [if_neg (by omega), if_neg (by omega), if_neg (by omega)]
  · intro h1 h2
    cases hd : (e0 :: es).drop (s.firstIndex - e0.index) with
    | nil => have := congrArg List.length hd; simp at this; omega
    | cons f0 fs =>
      have hcd : Contig (e0.index + (s.firstIndex - e0.index)) (f0 :: fs) := by rw [← hd]; exact hc.drop _
      have hf0 : f0.index = max e0.index s.firstIndex := by have := hcd.head; omega
      have hflen : fs.length + 1 + (s.firstIndex - e0.index) = es.length + 1 := by
        have := congrArg List.length hd; simp at this; omega
      have hoff : 1 ≤ f0.index - s.dummy.index := by omega
      have htake : s.all.take (f0.index - s.dummy.index) = s.dummy :: s.rest.take (f0.index - s.dummy.index - 1) := by
        have : f0.index - s.dummy.index = (f0.index - s.dummy.index - 1) + 1 := by omega
        rw [this]; simp [all]
      by_cases hgt : s.all.length > f0.index - s.dummy.index
      · refine ⟨{ s with rest := s.rest.take (f0.index - s.dummy.index - 1) ++ f0 :: fs }, ?_, rfl, rfl, rfl, ?_, ?_, ?_⟩
        · unfold append
          simp only [List.length_cons]
          rw [if_neg (by omega), htr, hd]
          simp only []
          rw [if_neg (by omega), if_pos hgt, htake]
          rfl
        · rw [← hf0, htake]; rfl
        · show Contig s.dummy.index (s.dummy :: (s.rest.take (f0.index - s.dummy.index - 1) ++ f0 :: fs))
          have : s.dummy :: (s.rest.take (f0.index - s.dummy.index - 1) ++ f0 :: fs) =
              s.all.take (f0.index - s.dummy.index) ++ f0 :: fs := by rw [htake]; rfl
          rw [this]
          apply (hs.take _).append
          rw [List.length_take, Nat.min_eq_left (by omega)]
          have : s.dummy.index + (f0.index - s.dummy.index) = e0.index + (s.firstIndex - e0.index) := by omega
          rw [this]; exact hcd
        · simp [lastIndex, all, List.length_take]; omega
      · have heq : s.all.length = f0.index - s.dummy.index := by omega
        refine ⟨{ s with rest := s.rest ++ f0 :: fs }, ?_, rfl, rfl, rfl, ?_, ?_, ?_⟩
        · unfold append
          simp only [List.length_cons]
          rw [if_neg (by omega), htr, hd]
          simp only []
          rw [if_neg (by omega), if_neg hgt, if_pos heq]
        · rw [← hf0, ← heq, List.take_length]; rfl
        · show Contig s.dummy.index (s.dummy :: (s.rest ++ f0 :: fs))
          have : s.dummy :: (s.rest ++ f0 :: fs) = s.all ++ f0 :: fs := rfl
          rw [this]
          apply hs.append
          have : s.dummy.index + s.all.length = e0.index + (s.firstIndex - e0.index) := by omega
          rw [this]; exact hcd
        · simp [lastIndex, all]; omega

/-- `Compact(ci)`: ErrCompacted at or below the dummy, a panic beyond the last index, otherwise the entry
    at `ci` becomes the dummy (index and term only) and everything after it is kept -/
theorem compact_spec (s : Storage) (hs : Contig s.dummy.index s.all) (ci : Nat) :
    (ci ≤ s.dummy.index → s.compact ci = .err .compacted) ∧
    (s.lastIndex < ci → s.compact ci = .panic .stCompactOob) ∧
    (s.dummy.index < ci → ci ≤ s.lastIndex →
      ∃ e, s.all[ci - s.dummy.index]? = some e ∧
        s.compact ci = .ok { s with dummy := ⟨ci, e.term, 0, 0⟩, rest := s.all.drop (ci - s.dummy.index + 1) } ∧
        Contig ci (⟨ci, e.term, 0, 0⟩ :: s.all.drop (ci - s.dummy.index + 1))) := by
  have hl := s.lastIndex_eq
  have ha := s.all_length
  refine ⟨?_, ?_, ?_⟩
  · intro h; unfold compact; simp only []; rw [if_pos h]
  · intro h; unfold compact; simp only []; rw [if_neg (by omega), if_pos h]
  · intro h1 h2
    have hlt : ci - s.dummy.index < s.all.length := by omega
    have hget : s.all[ci - s.dummy.index]? = some (s.all[ci - s.dummy.index]'hlt) := List.getElem?_eq_getElem hlt
    have hidx := hs _ _ hget
    refine ⟨_, hget, ?_, ?_⟩
    · unfold compact; simp only []; rw [if_neg (by omega), if_neg (by omega), hget]
      simp only []
      congr 2
      congr 1; omega
    · intro k e hk
      cases k with
      | zero => simp at hk; rw [← hk]; rfl
      | succ k =>
        simp only [List.getElem?_cons_succ, List.getElem?_drop] at hk
        have := hs _ _ hk; omega

theorem createSnapshot_spec (s : Storage) (i : Nat) :
    (i ≤ s.snapIndex → s.createSnapshot i = .err .snapOutOfDate) ∧
    (s.snapIndex < i → s.lastIndex < i → s.createSnapshot i = .panic .stSnapOob) ∧
    (s.snapIndex < i → i ≤ s.lastIndex → i < s.dummy.index → s.createSnapshot i = .panic .rtIndex) ∧
    (s.snapIndex < i → i ≤ s.lastIndex → s.dummy.index ≤ i →
      ∃ e, s.all[i - s.dummy.index]? = some e ∧
        s.createSnapshot i = .ok ({ s with snapIndex := i, snapTerm := e.term }, i, e.term)) := by
  have hl := s.lastIndex_eq
  have ha := s.all_length
  refine ⟨?_, ?_, ?_, ?_⟩
  · intro h; unfold createSnapshot; rw [if_pos h]
  · intro h1 h2; unfold createSnapshot; rw [if_neg (by omega)]; simp only []; rw [if_pos h2]
  · intro h1 h2 h3; unfold createSnapshot; rw [if_neg (by omega)]; simp only []; rw [if_neg (by omega), if_pos h3]
  · intro h1 h2 h3
    have hlt : i - s.dummy.index < s.all.length := by omega
    have hget : s.all[i - s.dummy.index]? = some (s.all[i - s.dummy.index]'hlt) := List.getElem?_eq_getElem hlt
    refine ⟨_, hget, ?_⟩
    unfold createSnapshot; rw [if_neg (by omega)]; simp only []
    rw [if_neg (by omega), if_neg (by omega), hget]

theorem applySnapshot_spec (s : Storage) (i t : Nat) :
    (i ≤ s.snapIndex → s.applySnapshot i t = .err .snapOutOfDate) ∧
    (s.snapIndex < i → s.applySnapshot i t = .ok ⟨i, t, ⟨i, t, 0, 0⟩, []⟩) := by
  refine ⟨?_, ?_⟩
  · intro h; unfold applySnapshot; rw [if_pos (by omega)]
  · intro h; unfold applySnapshot; rw [if_neg (by omega)]

end Storage

/-! ### `maybeCommit` -/

theorem maybeCommit_cases {l : RaftLog} (w : WfLog l) (maxIndex term : Nat) :
    (¬ (maxIndex > l.committed ∧ termW l maxIndex = term) → l.maybeCommit maxIndex term = .ok (l, false)) ∧
    (maxIndex > l.committed → termW l maxIndex = term → maxIndex ≤ l.lastIndex →
      l.maybeCommit maxIndex term = .ok ({ l with committed := maxIndex }, true)) ∧
    (maxIndex > l.committed → termW l maxIndex = term → l.lastIndex < maxIndex →
      l.maybeCommit maxIndex term = .panic .tocommit) := by
  obtain ⟨_, c2, c3⟩ := commitTo_cases l maxIndex
  refine ⟨?_, ?_, ?_⟩
  · intro h
    unfold RaftLog.maybeCommit
    by_cases hgt : maxIndex > l.committed
    · rw [if_pos hgt, term_eq w]; simp only [RaftLog.zeroTermOnErrCompacted]
      rw [if_neg (fun hh => h ⟨hgt, hh⟩)]
    · rw [if_neg hgt]
  · intro h1 h2 h3
    unfold RaftLog.maybeCommit
    rw [if_pos h1, term_eq w]; simp only [RaftLog.zeroTermOnErrCompacted]
    rw [if_pos h2, c2 (by omega) h3]
  · intro h1 h2 h3
    unfold RaftLog.maybeCommit
    rw [if_pos h1, term_eq w]; simp only [RaftLog.zeroTermOnErrCompacted]
    rw [if_pos h2, c3 (by omega) h3]

/-! ### the application's side: persisting unstable entries, compaction, snapshots -/

theorem firstIndex_congr' {l l' : RaftLog} (h1 : l'.storage.dummy = l.storage.dummy)
    (h2 : l'.unstable.snapshot = l.unstable.snapshot) : l'.firstIndex = l.firstIndex := by
  unfold RaftLog.firstIndex Unstable.maybeFirstIndex Storage.firstIndex; rw [h1, h2]

/-- the application appends the first `n ≥ 1` unstable entries to the storage (what it does with
    `Ready.Entries`): the log is unchanged and `stableTo` may follow -/
theorem persist_wf {l : RaftLog} (w : WfLog l) (n : Nat) (hn1 : 1 ≤ n) (hn2 : n ≤ l.unstable.entries.length)
    (hcov : l.storage.dummy.index < l.unstable.offset ∧ l.unstable.offset ≤ l.storage.lastIndex + 1) :
    ∃ s', l.storage.append (l.unstable.entries.take n) = .ok s' ∧
      WfLog { l with storage := s' } ∧ fullLog { l with storage := s' } = fullLog l ∧
      RaftLog.firstIndex { l with storage := s' } = l.firstIndex ∧
      RaftLog.lastIndex { l with storage := s' } = l.lastIndex ∧
      s'.dummy = l.storage.dummy ∧ s'.lastIndex = l.unstable.offset + n - 1 ∧
      (∀ j, l.unstable.offset ≤ j → j ≤ l.unstable.offset + n - 1 →
        s'.all[j - s'.dummy.index]? = l.unstable.entries[j - l.unstable.offset]?) := by
  obtain ⟨hcov1, hcov2⟩ := hcov
  have hl := l.storage.lastIndex_eq
  have ha := l.storage.all_length
  have hsf : l.storage.firstIndex = l.storage.dummy.index + 1 := rfl
  cases ht : l.unstable.entries.take n with
  | nil =>
    have := congrArg List.length ht
    rw [List.length_take] at this; simp only [List.length_nil] at this; omega
  | cons e0 es =>
    have hct : Contig l.unstable.offset (e0 :: es) := by rw [← ht]; exact w.unContig.take n
    have he0 : e0.index = l.unstable.offset := by have := hct.head; omega
    have hlen : es.length + 1 = n := by
      have := congrArg List.length ht
      rw [List.length_take] at this; simp only [List.length_cons] at this; omega
    obtain ⟨_, _, c3⟩ := l.storage.append_spec w.stContig e0 es (by rw [he0]; exact hct)
    obtain ⟨s', a1, a2, a3, a4, a5, a6, a7⟩ := c3 (by rw [hsf, he0]; omega) (by rw [he0]; omega)
    have hmax : max e0.index l.storage.firstIndex - l.storage.dummy.index =
        l.unstable.offset - l.storage.dummy.index := by omega
    have hdrop : l.storage.firstIndex - e0.index = 0 := by omega
    rw [hmax, hdrop, List.drop_zero] at a5
    have hfi : RaftLog.firstIndex { l with storage := s' } = l.firstIndex :=
      firstIndex_congr' (l := l) (l' := { l with storage := s' }) a4 rfl
    have hne : l.unstable.entries ≠ [] := by
      intro h; rw [h] at hn2; simp at hn2; omega
    have hli : RaftLog.lastIndex { l with storage := s' } = l.lastIndex := by
      rw [RaftLog.lastIndex_cons (l := { l with storage := s' }) hne, RaftLog.lastIndex_cons hne]
    have htl : (l.storage.all.take (l.unstable.offset - l.storage.dummy.index)).length =
        l.unstable.offset - l.storage.dummy.index := by
      rw [List.length_take]; omega
    have hget : ∀ k, k < l.unstable.offset - l.storage.dummy.index → s'.all[k]? = l.storage.all[k]? := by
      intro k hk
      rw [a5, List.getElem?_append_left (by omega), List.getElem?_take, if_pos hk]
    refine ⟨s', a1, ⟨?_, w.unContig, ?_, w.appliedLe, by rw [hli]; exact w.committedLe,
      by rw [hfi]; exact w.firstLe⟩, ?_, hfi, hli, a4, by rw [a7, he0]; omega, ?_⟩
    · show Contig s'.dummy.index s'.all; exact a6
    · have c := w.cover
      show match l.unstable.snapshot with | none => _ | some (si, _) => _
      cases hs : l.unstable.snapshot with
      | none =>
        rw [hs] at c; simp only at c
        show s'.firstIndex ≤ l.unstable.offset ∧ l.unstable.offset ≤ s'.lastIndex + 1 ∧
          (l.unstable.entries = [] → l.unstable.offset = s'.lastIndex + 1)
        refine ⟨by show s'.dummy.index + 1 ≤ _; rw [a4]; omega, by rw [a7, he0]; omega, fun h => absurd h hne⟩
      | some p =>
        obtain ⟨si, st⟩ := p
        rw [hs] at c; simp only at c
        show si + 1 ≤ l.unstable.offset ∧
          (si + 1 < l.unstable.offset → s'.dummy.index ≤ si ∧ l.unstable.offset ≤ s'.lastIndex + 1) ∧
          (l.unstable.entries = [] → l.unstable.offset = si + 1)
        refine ⟨c.1, fun h => ⟨by rw [a4]; exact (c.2.1 h).1, by rw [a7, he0]; omega⟩, fun h => absurd h hne⟩
    · unfold fullLog
      rw [hfi]
      show sub s'.all (l.firstIndex - s'.dummy.index) (l.unstable.offset - s'.dummy.index) ++ l.unstable.entries = _
      rw [a4]
      congr 1
      apply List.ext_getElem?
      intro k
      rw [sub_getElem?, sub_getElem?]
      split
      · rw [hget _ (by omega)]
      · rfl
    · intro j h1 h2
      rw [a4, a5, List.getElem?_append_right (by omega), htl, ← ht, List.getElem?_take]
      have e : j - l.storage.dummy.index - (l.unstable.offset - l.storage.dummy.index) = j - l.unstable.offset := by omega
      rw [e, if_pos (by omega)]

/-- the application compacts the storage up to an applied, stable index: the log loses exactly the
    entries up to that index (a pending snapshot keeps deciding firstIndex) -/
theorem compact_wf {l : RaftLog} (w : WfLog l) (ci : Nat) (h1 : l.storage.dummy.index < ci) (h2 : ci ≤ l.applied)
    (h3 : ci < l.unstable.offset) (h4 : ci ≤ l.storage.lastIndex)
    (h5 : ∀ si st, l.unstable.snapshot = some (si, st) → ci ≤ si) :
    ∃ s', l.storage.compact ci = .ok s' ∧ WfLog { l with storage := s' } ∧
      RaftLog.lastIndex { l with storage := s' } = l.lastIndex ∧
      RaftLog.firstIndex { l with storage := s' } = max l.firstIndex (ci + 1) ∧
      fullLog { l with storage := s' } = (fullLog l).drop (max l.firstIndex (ci + 1) - l.firstIndex) ∧
      dummyTerm { l with storage := s' } = termW l (max l.firstIndex (ci + 1) - 1) := by
  have hl := l.storage.lastIndex_eq
  have ha := l.storage.all_length
  obtain ⟨_, _, c3⟩ := l.storage.compact_spec w.stContig ci
  obtain ⟨e, hg, hc, hcontig⟩ := c3 h1 h4
  let s' : Storage := { l.storage with dummy := ⟨ci, e.term, 0, 0⟩, rest := l.storage.all.drop (ci - l.storage.dummy.index + 1) }
  have hall : s'.all = ⟨ci, e.term, 0, 0⟩ :: l.storage.all.drop (ci - l.storage.dummy.index + 1) := rfl
  have hsl : s'.lastIndex = l.storage.lastIndex := by
    rw [Storage.lastIndex_eq]
    show ci + (l.storage.all.drop (ci - l.storage.dummy.index + 1)).length = _
    rw [List.length_drop]; omega
  have hgetS : ∀ j, ci < j → s'.all[j - ci]? = l.storage.all[j - l.storage.dummy.index]? := by
    intro j hj
    have : j - ci = (j - ci - 1) + 1 := by omega
    rw [hall, this, List.getElem?_cons_succ, List.getElem?_drop]
    congr 1; omega
  have hfi : RaftLog.firstIndex { l with storage := s' } = max l.firstIndex (ci + 1) := by
    cases hs : l.unstable.snapshot with
    | none =>
      rw [RaftLog.firstIndex_none (l := { l with storage := s' }) hs, RaftLog.firstIndex_none hs]
      show ci + 1 = max (l.storage.dummy.index + 1) (ci + 1); omega
    | some p =>
      obtain ⟨si, st⟩ := p
      rw [RaftLog.firstIndex_some (l := { l with storage := s' }) hs, RaftLog.firstIndex_some hs]
      have := h5 si st hs; omega
  have hli : RaftLog.lastIndex { l with storage := s' } = l.lastIndex := by
    simp only [RaftLog.lastIndex, hsl]
  have hfl := w.firstLe
  have hal := w.appliedLe
  have w' : WfLog { l with storage := s' } := by
    refine ⟨hcontig, w.unContig, ?_, w.appliedLe, by rw [hli]; exact w.committedLe,
      by rw [hfi]; show max l.firstIndex (ci + 1) ≤ l.committed + 1; omega⟩
    have c := w.cover
    show match l.unstable.snapshot with | none => _ | some (si, _) => _
    cases hs : l.unstable.snapshot with
    | none =>
      rw [hs] at c; simp only at c
      show ci + 1 ≤ l.unstable.offset ∧ l.unstable.offset ≤ s'.lastIndex + 1 ∧
        (l.unstable.entries = [] → l.unstable.offset = s'.lastIndex + 1)
      rw [hsl]; exact ⟨by omega, c.2.1, c.2.2⟩
    | some p =>
      obtain ⟨si, st⟩ := p
      rw [hs] at c; simp only at c
      show si + 1 ≤ l.unstable.offset ∧ (si + 1 < l.unstable.offset → ci ≤ si ∧ l.unstable.offset ≤ s'.lastIndex + 1) ∧
        (l.unstable.entries = [] → l.unstable.offset = si + 1)
      rw [hsl]; exact ⟨c.1, fun h => ⟨h5 si st hs, (c.2.1 h).2⟩, c.2.2⟩
  refine ⟨s', hc, w', hli, hfi, ?_, ?_⟩
  · apply List.ext_getElem?
    intro k
    rw [w'.fullLog_getElem?, List.getElem?_drop, w.fullLog_getElem?, hfi]
    have e1 : l.firstIndex + (max l.firstIndex (ci + 1) - l.firstIndex + k) = max l.firstIndex (ci + 1) + k := by omega
    rw [e1]
    show (if _ < l.unstable.offset then s'.all[_ - ci]? else _) = _
    split
    · rw [hgetS _ (by omega)]
    · rfl
  · have hls := w.last_succ
    cases hs : l.unstable.snapshot with
    | none =>
      have hf := RaftLog.firstIndex_none hs
      have hf' : l.firstIndex = l.storage.dummy.index + 1 := hf
      have hm : max l.firstIndex (ci + 1) - 1 = ci := by omega
      rw [hm]
      have hd : dummyTerm { l with storage := s' } = e.term := by
        unfold dummyTerm; show (match l.unstable.snapshot with | some (_, t) => t | none => s'.dummy.term) = _
        rw [hs]
      rw [hd]
      have hge : (fullLog l)[ci - l.firstIndex]? = some e := by
        rw [w.fullLog_get_stable (by omega) h3]; exact hg
      rw [termW_in_range w (by omega) (by omega) hge]
    | some p =>
      obtain ⟨si, st⟩ := p
      have hf := RaftLog.firstIndex_some hs
      have := h5 si st hs
      have hm : max l.firstIndex (ci + 1) - 1 = si := by omega
      rw [hm, termW_dummy w (by omega)]
      unfold dummyTerm
      show (match l.unstable.snapshot with | some (_, t) => t | none => s'.dummy.term) = _
      rw [hs]

/-- the application applies the pending snapshot to the storage (before any `stableTo`) -/
theorem applySnapshot_wf {l : RaftLog} (w : WfLog l) {si st : Nat} (hs : l.unstable.snapshot = some (si, st))
    (hoff : l.unstable.offset = si + 1) (hold : l.storage.snapIndex < si) :
    l.storage.applySnapshot si st = .ok ⟨si, st, ⟨si, st, 0, 0⟩, []⟩ ∧
    WfLog { l with storage := ⟨si, st, ⟨si, st, 0, 0⟩, []⟩ } ∧
    fullLog { l with storage := ⟨si, st, ⟨si, st, 0, 0⟩, []⟩ } = fullLog l ∧
    RaftLog.firstIndex { l with storage := ⟨si, st, ⟨si, st, 0, 0⟩, []⟩ } = l.firstIndex ∧
    RaftLog.lastIndex { l with storage := ⟨si, st, ⟨si, st, 0, 0⟩, []⟩ } = l.lastIndex := by
  have hfi0 := RaftLog.firstIndex_some hs
  have hfi : RaftLog.firstIndex { l with storage := ⟨si, st, ⟨si, st, 0, 0⟩, []⟩ } = l.firstIndex := by
    rw [RaftLog.firstIndex_some (l := { l with storage := ⟨si, st, ⟨si, st, 0, 0⟩, []⟩ }) hs, hfi0]
  have hli : RaftLog.lastIndex { l with storage := ⟨si, st, ⟨si, st, 0, 0⟩, []⟩ } = l.lastIndex := by
    by_cases hn : l.unstable.entries = []
    · rw [RaftLog.lastIndex_nil_some (l := { l with storage := ⟨si, st, ⟨si, st, 0, 0⟩, []⟩ }) hn hs,
        RaftLog.lastIndex_nil_some hn hs]
    · rw [RaftLog.lastIndex_cons (l := { l with storage := ⟨si, st, ⟨si, st, 0, 0⟩, []⟩ }) hn,
        RaftLog.lastIndex_cons hn]
  have c := w.cover
  rw [hs] at c; simp only at c
  refine ⟨(l.storage.applySnapshot_spec si st).2 hold, ⟨?_, w.unContig, ?_, w.appliedLe,
    by rw [hli]; exact w.committedLe, by rw [hfi]; exact w.firstLe⟩, ?_, hfi, hli⟩
  · intro k e hk
    cases k with
    | zero => simp [Storage.all] at hk; rw [← hk]; rfl
    | succ k => simp [Storage.all] at hk
  · show match l.unstable.snapshot with | none => _ | some (si, _) => _
    rw [hs]
    show si + 1 ≤ l.unstable.offset ∧ (si + 1 < l.unstable.offset → _) ∧ (_ → l.unstable.offset = si + 1)
    exact ⟨by omega, fun h => by omega, fun _ => hoff⟩
  · unfold fullLog
    rw [hfi, hfi0, hoff]
    simp [sub]

/-! ### the executable check `wfB` decides `WfLog` -/

theorem contigB_iff : ∀ (es : List Entry) (s : Nat), contigB s es = true ↔ Contig s es := by
  intro es
  induction es with
  | nil => intro s; simp [contigB, Contig.nil]
  | cons e es ih =>
    intro s
    simp only [contigB, Bool.and_eq_true, beq_iff_eq, ih]
    constructor
    · rintro ⟨h1, h2⟩ k x hk
      cases k with
      | zero => simp at hk; rw [← hk]; omega
      | succ k => have := h2 k x (by simpa using hk); omega
    · intro h; exact ⟨h.head, h.tail⟩

theorem wfB_iff (l : RaftLog) : wfB l = true ↔ WfLog l := by
  unfold wfB
  simp only [Bool.and_eq_true, decide_eq_true_eq, contigB_iff]
  constructor
  · rintro ⟨⟨⟨⟨⟨h1, h2⟩, h3⟩, h4⟩, h5⟩, h6⟩
    refine ⟨h1, h2, ?_, h4, h5, h6⟩
    cases hs : l.unstable.snapshot with
    | none =>
      rw [hs] at h3
      simp only [Bool.and_eq_true, decide_eq_true_eq, Bool.or_eq_true, Bool.not_eq_true', beq_iff_eq,
        List.isEmpty_eq_false_iff] at h3
      refine ⟨h3.1.1, h3.1.2, fun hn => ?_⟩
      rcases h3.2 with h | h
      · exact absurd hn h
      · exact h
    | some p =>
      obtain ⟨si, st⟩ := p
      rw [hs] at h3
      simp only [Bool.and_eq_true, decide_eq_true_eq, Bool.or_eq_true, Bool.not_eq_true', beq_iff_eq,
        List.isEmpty_eq_false_iff, decide_eq_false_iff_not] at h3
      refine ⟨h3.1.1, fun hlt => ?_, fun hn => ?_⟩
      · rcases h3.1.2 with h | h
        · exact absurd hlt h
        · exact h
      · rcases h3.2 with h | h
        · exact absurd hn h
        · exact h
  · intro w
    refine ⟨⟨⟨⟨⟨w.stContig, w.unContig⟩, ?_⟩, w.appliedLe⟩, w.committedLe⟩, w.firstLe⟩
    have c := w.cover
    cases hs : l.unstable.snapshot with
    | none =>
      rw [hs] at c
      simp only [Bool.and_eq_true, decide_eq_true_eq, Bool.or_eq_true, Bool.not_eq_true', beq_iff_eq,
        List.isEmpty_eq_false_iff]
      refine ⟨⟨c.1, c.2.1⟩, ?_⟩
      by_cases hn : l.unstable.entries = []
      · exact Or.inr (c.2.2 hn)
      · exact Or.inl hn
    | some p =>
      obtain ⟨si, st⟩ := p
      rw [hs] at c
      simp only [Bool.and_eq_true, decide_eq_true_eq, Bool.or_eq_true, Bool.not_eq_true', beq_iff_eq,
        List.isEmpty_eq_false_iff, decide_eq_false_iff_not]
      refine ⟨⟨c.1, ?_⟩, ?_⟩
      · by_cases hlt : si + 1 < l.unstable.offset
        · exact Or.inr (c.2.1 hlt)
        · exact Or.inl hlt
      · by_cases hn : l.unstable.entries = []
        · exact Or.inr (c.2.2 hn)
        · exact Or.inl hn

/-! ### the abstraction is kept by the operations that do not change the represented log -/

theorem Abs.congr {l l' : RaftLog} {L : Z.LogMatch.Log} (a : Abs l L) (h1 : fullLog l' = fullLog l)
    (h2 : l'.firstIndex = l.firstIndex) (h3 : dummyTerm l' = dummyTerm l) : Abs l' L :=
  ⟨by rw [h2]; exact a.base_le, by rw [h2, h1]; exact a.suffix, by rw [h2, h3]; exact a.baseTerm⟩

theorem dummyTerm_congr' {l l' : RaftLog} (h1 : l'.storage.dummy = l.storage.dummy)
    (h2 : l'.unstable.snapshot = l.unstable.snapshot) : dummyTerm l' = dummyTerm l := by
  unfold dummyTerm; rw [h1, h2]

/-- `append`: the represented whole log is cut before the batch's first index and continued with the batch -/
theorem Abs.append {l l' : RaftLog} {L : Z.LogMatch.Log} (w : WfLog l) (a : Abs l L) (e0 : Entry) (es : List Entry)
    (h1 : l.committed < e0.index) (h2 : e0.index ≤ l.lastIndex + 1)
    (hs : l'.storage = l.storage) (hsn : l'.unstable.snapshot = l.unstable.snapshot)
    (hf : fullLog l' = (fullLog l).take (e0.index - l.firstIndex) ++ e0 :: es) :
    Abs l' (L.take (e0.index - 1) ++ (e0 :: es).map absE) := by
  have hfp := w.first_pos
  have hfl := w.firstLe
  have hfi : l'.firstIndex = l.firstIndex := firstIndex_congr hs hsn
  have hdt : dummyTerm l' = dummyTerm l := dummyTerm_congr hs hsn
  have hlen := a.length w
  have hb := a.base_le
  have hlt : (l.firstIndex - 1) ≤ (L.take (e0.index - 1)).length := by rw [List.length_take]; omega
  refine ⟨?_, ?_, ?_⟩
  · rw [hfi, List.length_append]; omega
  · rw [hfi, hf, List.drop_append_of_le_length hlt, List.map_append, List.map_take, ← a.suffix, List.drop_take]
    congr 2; omega
  · rw [hfi, hdt, ← a.baseTerm]
    unfold termAt
    by_cases h0 : l.firstIndex - 1 = 0
    · rw [if_pos h0, if_pos h0]
    · rw [if_neg h0, if_neg h0]
      rw [List.getElem?_append_left (by omega), List.getElem?_take, if_pos (by omega)]

/-- compaction keeps the represented whole log (the base moves up) -/
theorem Abs.compact {l l' : RaftLog} {L : Z.LogMatch.Log} (w : WfLog l) (a : Abs l L) (f' : Nat)
    (h1 : l.firstIndex ≤ f') (h2 : f' ≤ l.lastIndex + 1)
    (hfi : l'.firstIndex = f') (hf : fullLog l' = (fullLog l).drop (f' - l.firstIndex))
    (hd : dummyTerm l' = termW l (f' - 1)) : Abs l' L := by
  have hfp := w.first_pos
  have hlen := a.length w
  refine ⟨by rw [hfi]; omega, ?_, ?_⟩
  · rw [hfi, hf, List.map_drop, ← a.suffix, List.drop_drop]
    congr 1; omega
  · rw [hfi, hd]; exact a.termAt_eq w (by omega) (by omega)

/-- after `restore(i, t)` the log represents any whole log of length i whose last term is t -/
theorem Abs.restore {l : RaftLog} (w : WfLog l) (i t : Nat) (h : l.applied ≤ i) (L' : Z.LogMatch.Log)
    (h1 : L'.length = i) (h2 : termAt L' i = t) : Abs (l.restore i t) L' := by
  obtain ⟨_, r2, r3, _, _, _, r7⟩ := restore_wf w i t h
  refine ⟨by rw [r3]; omega, ?_, by rw [r3, r7]; exact h2⟩
  rw [r3, r2]
  show L'.drop i = []
  rw [← h1]; exact List.drop_length

end Z.LogModel
