import ZanVerif.Raft.Elect
import Batteries.Data.List.Perm
namespace Z.Elect

theorem inter_of_card {α} [DecidableEq α] (u s t : List α) (hs : s.Nodup) (ht : t.Nodup)
    (hsu : ∀ x ∈ s, x ∈ u) (htu : ∀ x ∈ t, x ∈ u) (h : u.length < s.length + t.length) :
    ∃ x, x ∈ s ∧ x ∈ t := by
  apply Classical.byContradiction; intro hne
  simp only [not_exists, not_and] at hne
  have hd : (s ++ t).Nodup := by
    rw [List.nodup_append]; exact ⟨hs, ht, fun a ha b hb hab => hne a ha (hab ▸ hb)⟩
  have hsub : (s ++ t).Subperm u := by
    apply List.subperm_of_subset hd
    intro x hx; rcases List.mem_append.mp hx with h | h
    · exact hsu x h
    · exact htu x h
  have := hsub.length_le
  simp at this; omega

inductive Reach (vs : List Nat) : St → Prop
  | init : Reach vs init
  | step {s s'} : Reach vs s → Step vs s s' → Reach vs s'

theorem reach_inv (vs : List Nat) (h0 : 0 ∉ vs) {s} (r : Reach vs s) : Inv vs s := by
  induction r with
  | init => exact inv_init vs
  | step _ st ih => exact inv_step vs h0 ih st

/-- Election safety: at most one leader per term, for every reachable state (any schedule of
    timeouts, deliveries of any message ever sent — duplicates, reordering, loss —, restarts). -/
theorem election_safety (vs : List Nat) (h0 : 0 ∉ vs) {s} (r : Reach vs s)
    (c c' t : Nat) (h1 : (c, t) ∈ s.elected) (h2 : (c', t) ∈ s.elected) : c = c' := by
  have inv := reach_inv vs h0 r
  obtain ⟨S, hS, hSv, hSq⟩ := inv.electedQ c t h1
  obtain ⟨S', hS', hSv', hSq'⟩ := inv.electedQ c' t h2
  have hlen : vs.length < S.length + S'.length := by
    unfold quorum at hSq hSq'; omega
  obtain ⟨j, hj, hj'⟩ := inter_of_card vs S S' hS hS' (fun x hx => (hSv x hx).1) (fun x hx => (hSv' x hx).1) hlen
  exact inv.votedFun j t c c' (hSv j hj).2 (hSv' j hj').2

#print axioms election_safety

end Z.Elect
