/-
Scratch prototype: abstract vote protocol (fixed voter set), election safety by inductive invariant.
-/
namespace Z.Elect

inductive Role | follower | candidate | leader
  deriving DecidableEq, Repr

inductive Msg
  | reqVote (term cand : Nat)
  | voteResp (term frm to : Nat) (granted : Bool)
  deriving DecidableEq, Repr

structure St where
  term    : Nat → Nat
  vote    : Nat → Nat           -- 0 = none; node ids are > 0
  role    : Nat → Role
  granted : Nat → List Nat
  msgs    : List Msg
  voted   : List (Nat × Nat × Nat)   -- ghost: (voter, term, candidate)
  elected : List (Nat × Nat)         -- ghost: (leader, term)

def upd {α} (f : Nat → α) (i : Nat) (v : α) : Nat → α := fun j => if j = i then v else f j

@[simp] theorem upd_same {α} (f : Nat → α) (i : Nat) (v : α) : upd f i v i = v := by simp [upd]
theorem upd_other {α} (f : Nat → α) (i j : Nat) (v : α) (h : j ≠ i) : upd f i v j = f j := by simp [upd, h]

def quorum (n : Nat) : Nat := n / 2 + 1

variable (vs : List Nat)

/-- one protocol step; `vs` = voters (fixed) -/
inductive Step : St → St → Prop
  | timeout (s : St) (i : Nat) (hi : i ∈ vs) (hr : s.role i ≠ Role.leader) :
      Step s { s with
        term := upd s.term i (s.term i + 1)
        vote := upd s.vote i i
        role := upd s.role i Role.candidate
        granted := upd s.granted i [i]
        msgs := Msg.reqVote (s.term i + 1) i :: s.msgs
        voted := (i, s.term i + 1, i) :: s.voted }
  | bumpTerm (s : St) (i t : Nat) (ht : s.term i < t) :   -- any message with a higher term (or ignored: no step)
      Step s { s with
        term := upd s.term i t
        vote := upd s.vote i 0
        role := upd s.role i Role.follower
        granted := upd s.granted i [] }
  | grant (s : St) (j t c : Nat) (hj : j ∈ vs) (hm : Msg.reqVote t c ∈ s.msgs)
      (ht : t = s.term j) (hv : s.vote j = 0 ∨ s.vote j = c) :
      Step s { s with
        vote := upd s.vote j c
        msgs := Msg.voteResp t j c true :: s.msgs
        voted := (j, t, c) :: s.voted }
  | reject (s : St) (j t c : Nat) :
      Step s { s with msgs := Msg.voteResp t j c false :: s.msgs }
  | recvGrant (s : St) (c t j : Nat) (hj : j ∈ vs) (hm : Msg.voteResp t j c true ∈ s.msgs)
      (ht : t = s.term c) (hr : s.role c = Role.candidate) (hn : j ∉ s.granted c) :
      Step s { s with granted := upd s.granted c (j :: s.granted c) }
  | becomeLeader (s : St) (c : Nat) (hr : s.role c = Role.candidate)
      (hq : quorum vs.length ≤ (s.granted c).length) :
      Step s { s with
        role := upd s.role c Role.leader
        elected := (c, s.term c) :: s.elected }
  | restart (s : St) (i : Nat) :
      Step s { s with
        role := upd s.role i Role.follower
        granted := upd s.granted i [] }

structure Inv (s : St) : Prop where
  /-- a recorded vote binds the voter: its term is ≥ and, within that term, its vote is that candidate -/
  votedBind : ∀ j t c, (j, t, c) ∈ s.voted → t ≤ s.term j ∧ (s.term j = t → s.vote j = c)
  votedPos  : ∀ j t c, (j, t, c) ∈ s.voted → c ≠ 0
  votedFun  : ∀ j t c c', (j, t, c) ∈ s.voted → (j, t, c') ∈ s.voted → c = c'
  respVoted : ∀ t j c, Msg.voteResp t j c true ∈ s.msgs → (j, t, c) ∈ s.voted
  grantedOk : ∀ c, s.role c ≠ Role.follower → ∀ j ∈ s.granted c, j ∈ vs ∧ (j, s.term c, c) ∈ s.voted
  grantedNd : ∀ c, (s.granted c).Nodup
  reqIn     : ∀ t c, Msg.reqVote t c ∈ s.msgs → c ∈ vs
  electedQ  : ∀ c t, (c, t) ∈ s.elected →
      ∃ S : List Nat, S.Nodup ∧ (∀ j ∈ S, j ∈ vs ∧ (j, t, c) ∈ s.voted) ∧ quorum vs.length ≤ S.length

def init : St :=
  { term := fun _ => 0, vote := fun _ => 0, role := fun _ => Role.follower, granted := fun _ => [],
    msgs := [], voted := [], elected := [] }

theorem inv_init : Inv vs init := by
  constructor <;> simp [init]


theorem inv_step (h0 : 0 ∉ vs) {s s' : St} (inv : Inv vs s) (st : Step vs s s') : Inv vs s' := by
  cases st with
  | timeout i hi hr =>
    have hi0 : i ≠ 0 := fun h => h0 (h ▸ hi)
    constructor
    · intro j t c hm
      simp only [List.mem_cons, Prod.mk.injEq] at hm
      rcases hm with ⟨rfl, rfl, rfl⟩ | hm
      · simp
      · have := inv.votedBind j t c hm
        by_cases hji : j = i
        · subst hji; simp only [upd_same]; constructor <;> omega
        · simp only [upd_other _ _ _ _ hji]; exact this
    · intro j t c hm
      simp only [List.mem_cons, Prod.mk.injEq] at hm
      rcases hm with ⟨rfl, rfl, rfl⟩ | hm
      · exact hi0
      · exact inv.votedPos j t c hm
    · intro j t c c' h1 h2
      simp only [List.mem_cons, Prod.mk.injEq] at h1 h2
      rcases h1 with ⟨rfl, rfl, rfl⟩ | h1 <;> rcases h2 with ⟨h2a, h2b, h2c⟩ | h2
      · exact h2c.symm
      · have := (inv.votedBind _ _ _ h2).1; omega
      · subst h2a h2b h2c
        have := (inv.votedBind _ _ _ h1).1; omega
      · exact inv.votedFun j t c c' h1 h2
    · intro t j c hm
      simp only [List.mem_cons, reduceCtorEq, false_or] at hm
      exact List.mem_cons_of_mem _ (inv.respVoted t j c hm)
    · intro c hrc j hj
      by_cases hci : c = i
      · subst hci
        simp only [upd_same, List.mem_singleton] at hj ⊢
        subst hj
        exact ⟨hi, List.mem_cons_self⟩
      · simp only [upd_other _ _ _ _ hci] at hj hrc ⊢
        have := inv.grantedOk c hrc j hj
        exact ⟨this.1, List.mem_cons_of_mem _ this.2⟩
    · intro c
      by_cases hci : c = i
      · subst hci; simp
      · simp only [upd_other _ _ _ _ hci]; exact inv.grantedNd c
    · intro t c hm
      simp only [List.mem_cons, Msg.reqVote.injEq] at hm
      rcases hm with ⟨_, rfl⟩ | hm
      · exact hi
      · exact inv.reqIn t c hm
    · intro c t hm
      obtain ⟨S, hS, hS2, hS3⟩ := inv.electedQ c t hm
      exact ⟨S, hS, fun j hj => ⟨(hS2 j hj).1, List.mem_cons_of_mem _ (hS2 j hj).2⟩, hS3⟩
  | bumpTerm i t ht =>
    constructor
    · intro j t' c hm
      have := inv.votedBind j t' c hm
      by_cases hji : j = i
      · subst hji; simp only [upd_same]; constructor <;> omega
      · simp only [upd_other _ _ _ _ hji]; exact this
    · exact inv.votedPos
    · exact inv.votedFun
    · exact inv.respVoted
    · intro c hrc j hj
      by_cases hci : c = i
      · subst hci; simp at hrc
      · simp only [upd_other _ _ _ _ hci] at hj hrc ⊢
        exact inv.grantedOk c hrc j hj
    · intro c
      by_cases hci : c = i
      · subst hci; simp
      · simp only [upd_other _ _ _ _ hci]; exact inv.grantedNd c
    · exact inv.reqIn
    · exact inv.electedQ
  | grant j t c hj hm ht hv =>
    have hc0 : c ≠ 0 := fun h => h0 (h ▸ inv.reqIn t c hm)
    have key : ∀ c'', (j, t, c'') ∈ s.voted → c'' = c := by
      intro c'' h
      have hb := (inv.votedBind j t c'' h).2 ht.symm
      have hp := inv.votedPos j t c'' h
      rcases hv with hv | hv <;> omega
    constructor
    · intro j' t' c' hm'
      simp only [List.mem_cons, Prod.mk.injEq] at hm'
      rcases hm' with ⟨rfl, rfl, rfl⟩ | hm'
      · simp [ht]
      · have := inv.votedBind j' t' c' hm'
        by_cases hji : j' = j
        · subst hji
          simp only [upd_same]
          refine ⟨this.1, fun e => ?_⟩
          have : t' = t := by omega
          subst this
          exact (key c' hm').symm
        · simp only [upd_other _ _ _ _ hji]; exact this
    · intro j' t' c' hm'
      simp only [List.mem_cons, Prod.mk.injEq] at hm'
      rcases hm' with ⟨rfl, rfl, rfl⟩ | hm'
      · exact hc0
      · exact inv.votedPos j' t' c' hm'
    · intro j' t' c1 c2 h1 h2
      simp only [List.mem_cons, Prod.mk.injEq] at h1 h2
      rcases h1 with ⟨rfl, rfl, rfl⟩ | h1 <;> rcases h2 with ⟨h2a, h2b, h2c⟩ | h2
      · exact h2c.symm
      · exact (key c2 h2).symm
      · subst h2a h2b h2c; exact key c1 h1
      · exact inv.votedFun j' t' c1 c2 h1 h2
    · intro t' j' c' hm'
      simp only [List.mem_cons, Msg.voteResp.injEq, and_true] at hm'
      rcases hm' with ⟨rfl, rfl, rfl⟩ | hm'
      · exact List.mem_cons_self
      · exact List.mem_cons_of_mem _ (inv.respVoted t' j' c' hm')
    · intro c' hrc j' hj'
      have := inv.grantedOk c' hrc j' hj'
      exact ⟨this.1, List.mem_cons_of_mem _ this.2⟩
    · exact inv.grantedNd
    · intro t' c' hm'
      simp only [List.mem_cons, reduceCtorEq, false_or] at hm'
      exact inv.reqIn t' c' hm'
    · intro c' t' hm'
      obtain ⟨S, hS, hS2, hS3⟩ := inv.electedQ c' t' hm'
      exact ⟨S, hS, fun j hj => ⟨(hS2 j hj).1, List.mem_cons_of_mem _ (hS2 j hj).2⟩, hS3⟩
  | reject j t c =>
    constructor
    · exact inv.votedBind
    · exact inv.votedPos
    · exact inv.votedFun
    · intro t' j' c' hm'
      simp only [List.mem_cons, Msg.voteResp.injEq, Bool.true_eq_false, and_false, false_or] at hm'
      exact inv.respVoted t' j' c' hm'
    · exact inv.grantedOk
    · exact inv.grantedNd
    · intro t' c' hm'
      simp only [List.mem_cons, reduceCtorEq, false_or] at hm'
      exact inv.reqIn t' c' hm'
    · exact inv.electedQ
  | recvGrant c t j hj hm ht hr hn =>
    constructor
    · exact inv.votedBind
    · exact inv.votedPos
    · exact inv.votedFun
    · exact inv.respVoted
    · intro c' hrc j' hj'
      by_cases hci : c' = c
      · subst hci
        simp only [upd_same, List.mem_cons] at hj'
        rcases hj' with rfl | hj'
        · exact ⟨hj, ht ▸ inv.respVoted t j' c' hm⟩
        · exact inv.grantedOk c' hrc j' hj'
      · simp only [upd_other _ _ _ _ hci] at hj' ⊢
        exact inv.grantedOk c' hrc j' hj'
    · intro c'
      by_cases hci : c' = c
      · subst hci; simp only [upd_same]; exact List.nodup_cons.mpr ⟨hn, inv.grantedNd c'⟩
      · simp only [upd_other _ _ _ _ hci]; exact inv.grantedNd c'
    · exact inv.reqIn
    · exact inv.electedQ
  | becomeLeader c hr hq =>
    constructor
    · exact inv.votedBind
    · exact inv.votedPos
    · exact inv.votedFun
    · exact inv.respVoted
    · intro c' hrc j' hj'
      have hrc' : s.role c' ≠ Role.follower := by
        by_cases hci : c' = c
        · subst hci; simp [hr]
        · simpa [upd_other _ _ _ _ hci] using hrc
      exact inv.grantedOk c' hrc' j' hj'
    · exact inv.grantedNd
    · exact inv.reqIn
    · intro c' t' hm'
      simp only [List.mem_cons, Prod.mk.injEq] at hm'
      rcases hm' with ⟨rfl, rfl⟩ | hm'
      · exact ⟨s.granted c', inv.grantedNd c', fun j hj => inv.grantedOk c' (by simp [hr]) j hj, hq⟩
      · exact inv.electedQ c' t' hm'
  | restart i =>
    constructor
    · exact inv.votedBind
    · exact inv.votedPos
    · exact inv.votedFun
    · exact inv.respVoted
    · intro c hrc j hj
      by_cases hci : c = i
      · subst hci; simp at hrc
      · simp only [upd_other _ _ _ _ hci] at hj hrc ⊢
        exact inv.grantedOk c hrc j hj
    · intro c
      by_cases hci : c = i
      · subst hci; simp
      · simp only [upd_other _ _ _ _ hci]; exact inv.grantedNd c
    · exact inv.reqIn
    · exact inv.electedQ

end Z.Elect
