/-
Scratch prototype for C02: layer 3 invariants (K, V, B, quorum of an elected term, C) and the generic
"old facts survive" lemmas that hold for every ghost-extending step.
-/
import ZanVerif.Raft.RaftExt
namespace Z.RaftAbs
open Z.LogMatch

theorem take_of_take {α} {l m : List α} {k k' : Nat} (h : l.take k' = m.take k') (hk : k ≤ k') :
    l.take k = m.take k := by
  have := congrArg (List.take k) h
  rw [List.take_take, List.take_take, Nat.min_eq_left hk] at this
  exact this

structure Inv3 (vs : List Nat) (s : St) : Prop where
  K : ∀ q t k, acked s q t k → (s.log q).take k = pre s t k ∨ WitB s q t k
  V : ∀ q u c t k, (q, u, c) ∈ s.voted → t < u → acked s q t k → Good s t k →
        (s.candLog (c, u)).take k = pre s t k ∨ Wit s t k
  B : ∀ u t k, isElected s u → t < u → Good s t k → lacks s u t k → Blocked vs s t k
  elQ : ∀ u, isElected s u → ∃ Q, IsQuorum vs Q ∧ ∀ q ∈ Q, u ≤ s.dterm q
  C : ∀ a, s.commit a = 0 ∨ ∃ t k, Good s t k ∧ t ≤ s.term a ∧ QAcked vs s t k ∧ s.commit a ≤ k ∧
        (s.log a).take (s.commit a) = (pre s t k).take (s.commit a)
  M : ∀ m ∈ s.msgs, m.commit = 0 ∨ ∃ t k, Good s t k ∧ t ≤ m.term ∧ QAcked vs s t k ∧ m.commit ≤ k ∧
        (s.tlog m.term).take m.commit = (pre s t k).take m.commit
  H : ∀ h ∈ s.hbs, h.commit = 0 ∨ (isElected s h.term ∧ (∃ k', sacked s h.to h.term k' ∧ h.commit ≤ k') ∧
        ∃ t k, Good s t k ∧ t ≤ h.term ∧ QAcked vs s t k ∧ h.commit ≤ k ∧
        (s.tlog h.term).take h.commit = (pre s t k).take h.commit)
  Kd : ∀ q t k, sacked s q t k → (s.dlog q).take k = pre s t k ∨ WitBd s q t k
  Cd : ∀ a, s.dcommit a = 0 ∨ ∃ t k, Good s t k ∧ t ≤ s.dterm a ∧ QAcked vs s t k ∧ s.dcommit a ≤ k ∧
        (s.dlog a).take (s.dcommit a) = (pre s t k).take (s.dcommit a)

theorem acked_of_cons {s s' : St} {q0 t0 k0 : Nat} (h : s'.acks = (q0, t0, k0) :: s.acks) {q t k : Nat}
    (ha : acked s' q t k) : (q = q0 ∧ t = t0 ∧ k ≤ k0) ∨ acked s q t k := by
  obtain ⟨k', hk, hm⟩ := ha
  rw [h] at hm
  rcases List.mem_cons.mp hm with e | hm
  · cases e; exact Or.inl ⟨rfl, rfl, hk⟩
  · exact Or.inr ⟨k', hk, hm⟩

theorem acked_same {s s' : St} (h : s'.acks = s.acks) {q t k : Nat} : acked s' q t k ↔ acked s q t k := by
  unfold acked; rw [h]

theorem acked_len {s : St} (i1 : Inv1 s) {q t k : Nat} (ha : acked s q t k) :
    k ≤ (s.tlog t).length ∧ t ≤ s.term q ∧ isElected s t := by
  obtain ⟨k', hk, hm⟩ := ha
  have := i1.ackOk q t k' hm
  exact ⟨by omega, this.1, this.2.1⟩

theorem sacked_acked {s : St} (d1 : InvD1 s) {q t k : Nat} (h : sacked s q t k) : acked s q t k := by
  obtain ⟨k', hk, hm⟩ := h
  exact ⟨k', hk, d1.saSub _ hm⟩

/-- a non-empty log that satisfies Pfx ends in an elected term -/
theorem elected_lastTerm {s : St} (i2 : Inv2 s) {l : Log} (h : Pfx s.tlog l) (hl : 1 ≤ l.length) :
    isElected s (lastTerm l) := by
  apply Classical.byContradiction
  intro hne
  have he := i2.tlogEmpty _ hne
  have := Pfx.whole s.tlog h hl
  rw [he] at this
  simp at this
  rw [this] at hl; simp at hl

variable {vs : List Nat}

theorem K_old {s s' : St} (E : Ext s s') (i1 : Inv1 s) (i2 : Inv2 s) (i3 : Inv3 vs s) {q t k : Nat}
    (hq : s.term q ≤ s'.term q) (ha : acked s q t k) :
    k ≤ (s.tlog t).length ∧ pre s' t k = pre s t k ∧ ((s.log q).take k = pre s t k ∨ WitB s' q t k) := by
  have hk := (acked_len i1 ha).1
  refine ⟨hk, pre_ext E hk, ?_⟩
  rcases i3.K q t k ha with h | h
  · exact Or.inl h
  · exact Or.inr (WitB.fwd E i2 hq hk h)

theorem Kd_old {s s' : St} (E : Ext s s') (d1 : InvD1 s) (i1 : Inv1 s) (i2 : Inv2 s) (i3 : Inv3 vs s)
    {q t k : Nat} (ha : sacked s q t k) :
    k ≤ (s.tlog t).length ∧ pre s' t k = pre s t k ∧ ((s.dlog q).take k = pre s t k ∨ WitBd s' q t k) := by
  have hk := (acked_len i1 (sacked_acked d1 ha)).1
  refine ⟨hk, pre_ext E hk, ?_⟩
  rcases i3.Kd q t k ha with h | h
  · exact Or.inl h
  · exact Or.inr (WitBd.fwd E i2 hk h)

theorem V_old {s s' : St} (E : Ext s s') (i1 : Inv1 s) (i2 : Inv2 s) (i3 : Inv3 vs s) {q u c t k : Nat}
    (hv : (q, u, c) ∈ s.voted) (htu : t < u) (ha : acked s' q t k) (hg : Good s' t k) :
    Good s t k ∧ pre s' t k = pre s t k ∧ ((s.candLog (c, u)).take k = pre s t k ∨ Wit s' t k) := by
  have hterm := (i1.votedOk q u c hv).1
  have ha' := acked.back E ha (by omega)
  have hk := (acked_len i1 ha').1
  have g := Good.back E hg hk
  refine ⟨g, pre_ext E hk, ?_⟩
  rcases i3.V q u c t k hv htu ha' g with h | h
  · exact Or.inl h
  · exact Or.inr (Wit.fwd E i2 hk h)

theorem B_old {s s' : St} (E : Ext s s') (d1 : InvD1 s) (i1 : Inv1 s) (i3 : Inv3 vs s) {u t k : Nat}
    (hu : isElected s u) (htu : t < u) (hg : Good s' t k) (hl : lacks s' u t k) : Blocked vs s' t k := by
  by_cases hk : k ≤ (s.tlog t).length
  · exact Blocked.fwd E d1.dtermLe (i3.B u t k hu htu (Good.back E hg hk) (lacks.back E hk hl))
  · obtain ⟨Q, hQ, hq⟩ := i3.elQ u hu
    refine ⟨Q, hQ, fun q hqQ => ?_⟩
    have h1 := hq q hqQ
    refine ⟨Nat.lt_of_lt_of_le (Nat.lt_of_lt_of_le htu h1) (E.dtermMono q), fun ha => ?_⟩
    have h2 := d1.dtermLe q
    have ha' := acked.back E ha (by omega)
    exact hk (acked_len i1 ha').1

theorem elQ_old {s s' : St} (E : Ext s s') (i3 : Inv3 vs s) {u : Nat} (hu : isElected s u) :
    ∃ Q, IsQuorum vs Q ∧ ∀ q ∈ Q, u ≤ s'.dterm q := by
  obtain ⟨Q, hQ, hq⟩ := i3.elQ u hu
  exact ⟨Q, hQ, fun q hqQ => Nat.le_trans (hq q hqQ) (E.dtermMono q)⟩

theorem C_old {s s' : St} (E : Ext s s') (i3 : Inv3 vs s) {a : Nat} (hta : s.term a ≤ s'.term a)
    (hc : s'.commit a = s.commit a)
    (hl : (s'.log a).take (s.commit a) = (s.log a).take (s.commit a)) :
    s'.commit a = 0 ∨ ∃ t k, Good s' t k ∧ t ≤ s'.term a ∧ QAcked vs s' t k ∧ s'.commit a ≤ k ∧
        (s'.log a).take (s'.commit a) = (pre s' t k).take (s'.commit a) := by
  rcases i3.C a with h | ⟨t, k, g, ht, hq, hck, hlog⟩
  · exact Or.inl (by rw [hc]; exact h)
  · refine Or.inr ⟨t, k, Good.fwd E g, Nat.le_trans ht hta, QAcked.fwd E hq, by rw [hc]; exact hck, ?_⟩
    rw [hc, hl, pre_ext E g.2.1]; exact hlog

theorem Cd_old {s s' : St} (E : Ext s s') (i3 : Inv3 vs s) {a : Nat}
    (hc : s'.dcommit a = s.dcommit a) (hl : s'.dlog a = s.dlog a) :
    s'.dcommit a = 0 ∨ ∃ t k, Good s' t k ∧ t ≤ s'.dterm a ∧ QAcked vs s' t k ∧ s'.dcommit a ≤ k ∧
        (s'.dlog a).take (s'.dcommit a) = (pre s' t k).take (s'.dcommit a) := by
  rcases i3.Cd a with h | ⟨t, k, g, ht, hq, hck, hlog⟩
  · exact Or.inl (by rw [hc]; exact h)
  · refine Or.inr ⟨t, k, Good.fwd E g, Nat.le_trans ht (E.dtermMono a), QAcked.fwd E hq, by rw [hc]; exact hck, ?_⟩
    rw [hc, hl, pre_ext E g.2.1]; exact hlog

theorem M_old {s s' : St} (E : Ext s s') (i3 : Inv3 vs s) {m : AppMsg} (hm : m ∈ s.msgs) :
    m.commit = 0 ∨ ∃ t k, Good s' t k ∧ t ≤ m.term ∧ QAcked vs s' t k ∧ m.commit ≤ k ∧
        (s'.tlog m.term).take m.commit = (pre s' t k).take m.commit := by
  rcases i3.M m hm with h | ⟨t, k, g, ht, hq, hck, hlog⟩
  · exact Or.inl h
  · refine Or.inr ⟨t, k, Good.fwd E g, ht, QAcked.fwd E hq, hck, ?_⟩
    obtain ⟨x, hx, _⟩ := E.tlogExt m.term
    have hlen : m.commit ≤ (s.tlog m.term).length := by
      have := congrArg List.length hlog
      have h2 := g.2.1
      simp only [pre, List.length_take] at this
      omega
    rw [pre_ext E g.2.1, hx, List.take_append_of_le_length hlen]; exact hlog

theorem H_old {s s' : St} (E : Ext s s') (i3 : Inv3 vs s) {h : Hb} (hh : h ∈ s.hbs) :
    h.commit = 0 ∨ (isElected s' h.term ∧ (∃ k', sacked s' h.to h.term k' ∧ h.commit ≤ k') ∧
        ∃ t k, Good s' t k ∧ t ≤ h.term ∧ QAcked vs s' t k ∧ h.commit ≤ k ∧
        (s'.tlog h.term).take h.commit = (pre s' t k).take h.commit) := by
  rcases i3.H h hh with h0 | ⟨hel, ⟨k', hak, hck'⟩, t, k, g, ht, hq, hck, hlog⟩
  · exact Or.inl h0
  · refine Or.inr ⟨E.elExt _ hel, ⟨k', sacked.fwd E hak, hck'⟩, t, k, Good.fwd E g, ht, QAcked.fwd E hq, hck, ?_⟩
    obtain ⟨x, hx, _⟩ := E.tlogExt h.term
    have hlen : h.commit ≤ (s.tlog h.term).length := by
      have := congrArg List.length hlog
      have h2 := g.2.1
      simp only [pre, List.length_take] at this
      omega
    rw [pre_ext E g.2.1, hx, List.take_append_of_le_length hlen]; exact hlog

/-- a record acknowledged by a quorum is contained in the ghost log of every later elected term -/
theorem has_of_qacked {s : St} (d1 : InvD1 s) (i3 : Inv3 vs s) {u t k : Nat} (hu : isElected s u) (htu : t < u)
    (hg : Good s t k) (hq : QAcked vs s t k) : (s.tlog u).take k = pre s t k := by
  apply Classical.byContradiction
  intro hne
  obtain ⟨Q1, hQ1, h1⟩ := i3.B u t k hu htu hg hne
  obtain ⟨Q2, hQ2, h2⟩ := hq
  obtain ⟨x, hx1, hx2⟩ := quorum_inter hQ1 hQ2
  exact (h1 x hx1).2 (sacked_acked d1 (h2 x hx2))

theorem quorum_nonempty {vs Q : List Nat} (h : IsQuorum vs Q) : ∃ q, q ∈ Q := by
  have := h.2.2
  unfold quorum at this
  cases Q with
  | nil => simp at this
  | cons q _ => exact ⟨q, List.mem_cons_self⟩

/-- what a node has committed is in the ghost log of every elected term it can still follow -/
theorem commitIn_of {s : St} (d1 : InvD1 s) (i3 : Inv3 vs s) : CommitIn s := by
  intro q u hu hle
  rcases i3.C q with h | ⟨t, k, g, ht, hq, hck, hlog⟩
  · rw [h]; simp
  · have hhas : (s.tlog u).take k = pre s t k := by
      by_cases e : t = u
      · subst e; rfl
      · exact has_of_qacked d1 i3 hu (by omega) g hq
    have heq : (s.log q).take (s.commit q) = (s.tlog u).take (s.commit q) := by
      rw [hlog, ← hhas, List.take_take, Nat.min_eq_left hck]
    refine ⟨?_, heq⟩
    have := congrArg List.length hhas
    have h2 := g.2.1
    simp only [pre, List.length_take] at this
    omega

end Z.RaftAbs
