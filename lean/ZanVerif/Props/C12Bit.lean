/-
  C12 — keys never interfere, for the two type bytes of the BITMAP family (`BitmapType` segment keys, `BitmapMetaType`
  meta keys; `Z.BitExec.segK` / `metaK` over the byte-for-byte codec `Z.Codec`, constants regenerated in `Gen.Consts`):
  segment keys are injective in (table, versioned key, index) and so are the versioned key parts in the user key; meta keys
  are injective in (table, key); a bitmap key never equals a key of another type (every tuple of `Z.Props.C12.Tuple`) nor a
  key of the other bitmap type byte; inside one generation the segment keys are ordered by their index, below the stop key
  of the generation, the index is read back from the key; and a segment key inside the iterator range of a generation
  (BITCOUNT, BITCLEAR) belongs to that generation — whatever the bytes of the names.
-/
import ZanVerif.Data.BitRead
import ZanVerif.Props.C12

namespace Z.Props.C12Bit
open Z.BitExec
open Z.Codec (inI64 verKey)

/-- segment keys are injective in (table, versioned key part, index) -/
theorem C12Bit_segment_key_injective {t t' v v' : Bytes} {i i' : Int} (ht : t.length < 65536) (ht' : t'.length < 65536)
    (hi : inI64 i) (hi' : inI64 i') (h : segK t v i = segK t' v' i') : t = t' ∧ v = v' ∧ i = i' := segK_inj ht ht' hi hi' h

/-- the versioned key part determines the user key (both layouts) and, under the value-header layout, the generation -/
theorem C12Bit_versioned_key_injective (pol : Pol) {k k' : Bytes} {v v' : Int} (h : vkey pol k v = vkey pol k' v') : k = k' :=
  vkey_inj_key pol h

theorem C12Bit_generation_injective {k k' : Bytes} {v v' : Int} (hv : inI64 v) (hv' : inI64 v')
    (h : vkey .compact k v = vkey .compact k' v') : k = k' ∧ v = v' := Z.Props.C12.C12_verkey_injective k k' v v' hv hv' h

/-- meta keys (and the legacy string keys of the same name) are injective in (table, key) for table names without ':' -/
theorem C12Bit_meta_key_injective {t t' k k' : Bytes} (hc : Gen.cTableStartSep ∉ t) (hc' : Gen.cTableStartSep ∉ t') :
    (metaK t k = metaK t' k' → t = t' ∧ k = k') ∧ (strK t k = strK t' k' → t = t' ∧ k = k') :=
  ⟨metaK_inj hc hc', strK_inj hc hc'⟩

/-- the two bitmap type bytes are apart from each other and from the string of the same name -/
theorem C12Bit_bitmap_types_apart (t v : Bytes) (i : Int) (t' k : Bytes) :
    segK t v i ≠ metaK t' k ∧ segK t v i ≠ strK t' k ∧ metaK t k ≠ strK t' k :=
  ⟨segK_ne_metaK _ _ _ _ _, segK_ne_strK _ _ _ _ _, metaK_ne_strK _ _ _ _⟩

theorem C12Bit_aux_head (u : Z.Props.C12.Tuple) (hu : Z.Props.C12.Wf u) :
    (Z.Props.C12.encode u).head? ≠ some Gen.cBitmapType ∧ (Z.Props.C12.encode u).head? ≠ some Gen.cBitmapMetaType := by
  cases u with
  | kv k => constructor <;> (simp only [Z.Props.C12.encode, Z.Codec.kvKey, List.head?_cons]; decide)
  | size t k =>
    simp only [Z.Props.C12.encode, Z.Codec.metaKey, List.head?_cons]
    rcases hu with e | e | e | e <;> subst e <;> constructor <;> decide
  | sub dt t k s =>
    simp only [Z.Props.C12.encode, Z.Codec.collSubKey, Z.Props.C12.nonKV_prefix (Z.Props.C12.coll_ne_kv hu.1), List.cons_append, List.head?_cons]
    rcases hu.1 with e | e | e <;> subst e <;> constructor <;> decide
  | list t k q =>
    simp only [Z.Props.C12.encode, Z.Codec.listKey, Z.Props.C12.nonKV_prefix Z.Props.C12.list_ne_kv, List.cons_append, List.head?_cons]
    constructor <;> decide

/-- **no key of another type is a bitmap key**: every well-formed tuple of the other families (string, the four size / meta
    keys, hash / set / zset sub-keys, list elements) encodes to a key different from every segment key and every bitmap meta key -/
theorem C12Bit_other_types_apart (u : Z.Props.C12.Tuple) (hu : Z.Props.C12.Wf u) (t v : Bytes) (i : Int) (t' k : Bytes) :
    Z.Props.C12.encode u ≠ segK t v i ∧ Z.Props.C12.encode u ≠ metaK t' k := by
  obtain ⟨h1, h2⟩ := C12Bit_aux_head u hu
  exact ⟨fun e => h1 (e ▸ segK_head _ _ _), fun e => h2 (e ▸ metaK_head _ _)⟩

/-- inside one generation the segment keys are ordered by the index, all below the generation's stop key, and the index is
    what the decoder reads from the key's tail -/
theorem C12Bit_segments_ordered (t v : Bytes) {i j : Int} (hi : inI64 i) (hj : inI64 j) :
    (segK t v i < segK t v j ↔ i < j) ∧ segK t v i < stopK t v ∧ idxOf (segK t v i) = i :=
  ⟨segK_lt t v hi hj, segK_lt_stopK t v i, idxOf_segK t v hi⟩

/-- **iterator range isolation**: a segment key (of ANY table / key / generation) that lies in `[segK t v i0, stopK t v)` is a
    segment of exactly that table, key and generation, with index ≥ i0 -/
theorem C12Bit_range_isolated {t v t' v' : Bytes} {i0 i' : Int} (ht : t.length < 65536) (ht' : t'.length < 65536)
    (hi0 : inI64 i0) (hi' : inI64 i') (hlo : segK t v i0 ≤ segK t' v' i') (hhi : segK t' v' i' < stopK t v) :
    t' = t ∧ v' = v ∧ i0 ≤ i' := segK_in_range ht ht' hi0 hi' hlo hhi

/-! non-vacuity: adversarial names (a key that is a prefix of another, ':' and 0x00 / 0xff inside names) -/
example : segK [0x74] [0x62] 1024 ≠ segK [0x74] [0x62, 0x3a] 0 ∧ segK [0x74] [0x62, 0] 0 ≠ segK [0x74, 0x62] [0] 0 ∧
    segK [0x74] (vkey .compact [0x62] 5) 1024 < segK [0x74] (vkey .compact [0x62] 5) 2048 ∧
    segK [0x74] (vkey .compact [0x62] 5) 2048 < stopK [0x74] (vkey .compact [0x62] 5) ∧
    stopK [0x74] (vkey .compact [0x62] 5) < segK [0x74] (vkey .compact [0x62] 6) 0 ∧
    idxOf (segK [0x74] (vkey .compact [0x62, 0xff] (-3)) 536870400) = 536870400 := by decide
example : Z.Props.C12.encode (.kv [0x74, 0x3a, 0x62]) ≠ segK [0x74] [0x62] 0 :=
  (C12Bit_other_types_apart (.kv [0x74, 0x3a, 0x62]) trivial [0x74] [0x62] 0 [0x74] [0x62]).1
example : ¬ (segK [0x74] [0x62] 0 ≤ segK [0x74] [0x62, 0x3a] 0 ∧ segK [0x74] [0x62, 0x3a] 0 < stopK [0x74] [0x62]) := by decide

end Z.Props.C12Bit
