/-
  C01 — at most one raft leader per term; learners never lead.
  Election Safety of the abstract raft with crashes (`Z.RaftAbs`, arbitrary fixed voter list, every
  schedule of campaigns, grants, message duplication / reordering / loss, restarts and crashes at any
  point, votes counted only when their response left the voter's node after the persist), a second
  proof at message level (`Z.Elect`), and the facts that tie the preconditions to raft/raft.go:
  `canVote` and the quorum size are REGENERATED. Learners = nodes outside the voter list: a leader is
  always a voter. The run-time refinement certificate of C02 covers this property too (a vote granted
  twice in a term, to an out-of-date candidate, or a leader without a quorum of sent votes is a
  rejected action).
  Dynamic membership (add / remove / promote) is NOT covered by the theorems: `C01_full_dynamic`.
-/
import ZanVerif.Raft.RaftExec
import ZanVerif.Raft.ElectSafety
import ZanVerif.Gen.Raft

namespace Z.Props.C01
open Z.RaftAbs

/-- **Election Safety**: in every reachable state, two nodes elected in the same term are the same node -/
theorem C01_election_safety_partial (vs : List Nat) {s : St} (r : Reach vs s) (c c' t : Nat)
    (h1 : (c, t) ∈ s.elected) (h2 : (c', t) ∈ s.elected) : c = c' := election_safety vs r c c' t h1 h2

/-- two nodes acting as leader in the same term are the same node -/
theorem C01_one_leader_per_term (vs : List Nat) {s : St} (r : Reach vs s) (c c' : Nat)
    (h1 : s.role c = Role.leader) (h2 : s.role c' = Role.leader) (ht : s.term c = s.term c') : c = c' :=
  one_leader_per_term vs r c c' h1 h2 ht

/-- a vote is granted only when the regenerated `canVote` disjunction allows it: within a term a node
    that has voted for somebody else and sees no pre-vote for a future term cannot vote -/
theorem C01_canVote_blocks_second_vote (vote other lead : Int) (term : Int) (h : vote ≠ other) (hv : vote ≠ 0) :
    Gen.canVote vote other lead 0 false term term = false := by
  unfold Gen.canVote
  have h1 : (vote == other) = false := by simp [h]
  have h2 : (vote == 0) = false := by simp [hv]
  simp [h1, h2]

/-- a pre-vote can only be granted "in the future" for a strictly larger term -/
theorem C01_prevote_needs_higher_term (vote other lead mTerm rTerm : Int) (h : vote ≠ other) (hv : vote ≠ 0)
    (hc : Gen.canVote vote other lead 0 true mTerm rTerm = true) : rTerm < mTerm := by
  unfold Gen.canVote at hc
  have h1 : (vote == other) = false := by simp [h]
  have h2 : (vote == 0) = false := by simp [hv]
  simpa [h1, h2] using hc

/-- quorums of the regenerated size intersect: two duplicate-free sub-lists of the voters, each of
    `len/2+1` members, share a member — for every group size -/
theorem C01_quorum_overlap (vs S S' : List Nat) (hS : S.Nodup) (hS' : S'.Nodup)
    (hv : ∀ x ∈ S, x ∈ vs) (hv' : ∀ x ∈ S', x ∈ vs)
    (hq : Gen.quorum vs.length ≤ S.length) (hq' : Gen.quorum vs.length ≤ S'.length) :
    ∃ j, j ∈ S ∧ j ∈ S' := by
  have e : Gen.quorum vs.length = ((vs.length / 2 + 1 : Nat) : Int) := by
    unfold Gen.quorum
    rw [Int.tdiv_eq_ediv_of_nonneg (by omega)]
    push_cast; rfl
  rw [e] at hq hq'
  have hlen : vs.length < S.length + S'.length := by omega
  exact Z.Elect.inter_of_card vs S S' hS hS' hv hv' hlen

/-- second, message-level proof (vote requests and responses as messages of a monotone history) -/
theorem C01_election_safety_message_level (vs : List Nat) (h0 : 0 ∉ vs) {s} (r : Z.Elect.Reach vs s)
    (c c' t : Nat) (h1 : (c, t) ∈ s.elected) (h2 : (c', t) ∈ s.elected) : c = c' :=
  Z.Elect.election_safety vs h0 r c c' t h1 h2

end Z.Props.C01
