/-
  C01 — at most one raft leader per term; learners never lead.
  Election Safety of the abstract raft with crashes (`Z.RaftAbs`, arbitrary fixed voter list, every
  schedule of campaigns, grants, message duplication / reordering / loss, restarts and crashes at any
  point, votes counted only when their response left the voter's node after the persist), a second
  proof at message level (`Z.Elect`), and the facts that tie the preconditions to raft/raft.go:
  `canVote` and the quorum size are REGENERATED. Learners = nodes outside the voter list: a leader is
  always a voter. The run-time refinement certificate of C02 covers this property too (a vote granted
  twice in a term, to an out-of-date candidate, or a leader without a quorum of sent votes is a
  rejected action).
  Dynamic membership (add / remove / promote) is NOT covered by the theorems: `C01_full_dynamic`.
-/
import ZanVerif.Raft.RaftExec
import ZanVerif.Raft.ElectSafety
import ZanVerif.Gen.Raft

namespace Z.Props.C01
open Z.RaftAbs

/-- **Election Safety**: in every reachable state, two nodes elected in the same term are the same node -/
theorem C01_election_safety_partial (vs : List Nat) {s : St} (r : Reach vs s) (c c' t : Nat)
    (h1 : (c, t) ∈ s.elected) (h2 : (c', t) ∈ s.elected) : c = c' := election_safety vs r c c' t h1 h2

/-- two nodes acting as leader in the same term are the same node -/
theorem C01_one_leader_per_term (vs : List Nat) {s : St} (r : Reach vs s) (c c' : Nat)
    (h1 : s.role c = Role.leader) (h2 : s.role c' = Role.leader) (ht : s.term c = s.term c') : c = c' :=
  one_leader_per_term vs r c c' h1 h2 ht

/-- a vote is granted only when the regenerated `canVote` disjunction allows it: within a term a node
    that has voted for somebody else and sees no pre-vote for a future term cannot vote -/
theorem C01_canVote_blocks_second_vote (vote other lead : Int) (term : Int) (h : vote ≠ other) (hv : vote ≠ 0) :
    Gen.canVote vote other lead 0 false term term = false := by
  unfold Gen.canVote
  have h1 : (vote == other) = false := by simp [h]
  have h2 : (vote == 0) = false := by simp [hv]
  simp [h1, h2]

/-- a pre-vote can only be granted "in the future" for a strictly larger term -/
theorem C01_prevote_needs_higher_term (vote other lead mTerm rTerm : Int) (h : vote ≠ other) (hv : vote ≠ 0)
    (hc : Gen.canVote vote other lead 0 true mTerm rTerm = true) : rTerm < mTerm := by
  unfold Gen.canVote at hc
  have h1 : (vote == other) = false := by simp [h]
  have h2 : (vote == 0) = false := by simp [hv]
  simpa [h1, h2] using hc

/-- quorums of the regenerated size intersect: two duplicate-free sub-lists of the voters, each of
    `len/2+1` members, share a member — for every group size -/
theorem C01_quorum_overlap (vs S S' : List Nat) (hS : S.Nodup) (hS' : S'.Nodup)
    (hv : ∀ x ∈ S, x ∈ vs) (hv' : ∀ x ∈ S', x ∈ vs)
    (hq : Gen.quorum vs.length ≤ S.length) (hq' : Gen.quorum vs.length ≤ S'.length) :
    ∃ j, j ∈ S ∧ j ∈ S' := by
  have e : Gen.quorum vs.length = ((vs.length / 2 + 1 : Nat) : Int) := by
    unfold Gen.quorum
    rw [Int.tdiv_eq_ediv_of_nonneg (by omega)]
    push_cast; rfl
  rw [e] at hq hq'
  have hlen : vs.length < S.length + S'.length := by omega
  exact Z.Elect.inter_of_card vs S S' hS hS' hv hv' hlen

/-- The vote the certificate compares with the real node's `Vote` is well defined: in every reachable
    state all members of `votesIn camp voted j t` (the node itself if it campaigned in `t`, the candidates
    of its recorded grants of `t`) are equal - a node votes for at most one candidate per term. -/
theorem C01_vote_of_term_unique (vs : List Nat) {s : St} (r : Reach vs s) (j t x y : Nat)
    (hx : x ∈ votesIn s.camp s.voted j t) (hy : y ∈ votesIn s.camp s.voted j t) : x = y := by
  have i0 := (reach_inv0 vs r).1
  have key : ∀ z, z ∈ votesIn s.camp s.voted j t →
      (z = j ∧ (j, t) ∈ s.camp) ∨ (j, t, z) ∈ s.voted := by
    intro z hz
    unfold votesIn at hz
    rcases List.mem_append.mp hz with h | h
    · by_cases hc : (j, t) ∈ s.camp
      · simp [hc] at h; exact Or.inl ⟨h, hc⟩
      · simp [hc] at h
    · obtain ⟨⟨q, u, c⟩, hm, rfl⟩ := List.mem_map.mp h
      have hf := List.mem_filter.mp hm
      have : q = j ∧ u = t := by simpa using hf.2
      exact Or.inr (this.1 ▸ this.2 ▸ hf.1)
  rcases key x hx with ⟨rfl, hc⟩ | hvx <;> rcases key y hy with ⟨rfl, hc'⟩ | hvy
  · rfl
  · exact absurd hc (i0.selfVote _ _ _ hvy)
  · exact absurd hc' (i0.selfVote _ _ _ hvx)
  · exact i0.votedFun j t x y hvx hvy

/-- what the certificate compares with the vote in the real storage object (the flushed campaigns and
    grants) is part of the volatile record of the same term: a durable vote is a vote, so it is unique too -/
theorem C01_durable_vote_is_vote (vs : List Nat) {s : St} (r : Reach vs s) (j t x : Nat)
    (hx : x ∈ votesIn s.scamp s.svoted j t) : x ∈ votesIn s.camp s.voted j t := by
  have d1 := (reach_invD vs r).2.1
  unfold votesIn at hx ⊢
  rcases List.mem_append.mp hx with h | h
  · by_cases hc : (j, t) ∈ s.scamp
    · simp [hc] at h
      have := d1.scSub _ hc
      simp [this, h]
    · simp [hc] at h
  · obtain ⟨e, hm, rfl⟩ := List.mem_map.mp h
    have hf := List.mem_filter.mp hm
    exact List.mem_append.mpr (Or.inr (List.mem_map.mpr ⟨e, List.mem_filter.mpr ⟨d1.svSub _ hf.1, hf.2⟩, rfl⟩))

/-- non-trivial instance: node 2 grants candidate 1 in term 1 and flushes - the run is accepted (hence reachable),
    the compared lists are `[1]` (volatile and durable), and a second grant of term 1 is rejected -/
example : (run [1, 2, 3] init [.campaign 1 1, .flush 1, .campaign 3 1, .flush 3, .grant 2 1 1, .flush 2]).map
    (fun s => (votesIn s.camp s.voted 2 (s.term 2), votesIn s.scamp s.svoted 2 (s.dterm 2), votesIn s.camp s.voted 3 (s.term 3)))
    = some ([1], [1], [3]) := by decide
example : (run [1, 2, 3] init [.campaign 1 1, .flush 1, .campaign 3 1, .flush 3, .grant 2 1 1, .flush 2, .grant 2 1 3]).isSome
    = false := by decide
example : voteAgrees [1] 1 = true ∧ voteAgrees [1] 0 = false ∧ voteAgrees [] 1 = false ∧ voteAgrees [] 0 = true := by decide

/-- second, message-level proof (vote requests and responses as messages of a monotone history) -/
theorem C01_election_safety_message_level (vs : List Nat) (h0 : 0 ∉ vs) {s} (r : Z.Elect.Reach vs s)
    (c c' t : Nat) (h1 : (c, t) ∈ s.elected) (h2 : (c', t) ∈ s.elected) : c = c' :=
  Z.Elect.election_safety vs h0 r c c' t h1 h2

end Z.Props.C01
