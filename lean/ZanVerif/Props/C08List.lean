/-
  C08 — commands behave like redis on per-type keyspaces (LIST family, local-deletion layout).
  Refinement of the executable storage-level list model `Z.ListExec` (the functions the `datacorelist`
  correspondence runs against a real KVNode, with the real key codec) to the plain redis list `key ↦ List value`
  (`Z.ListRef.abs`: the elements head … tail): every modelled command answers what the specification answers
  (LLEN, LINDEX with negative indexes, LRANGE with negative / out-of-range indexes, LKEYEXIST; replies of LPUSH / RPUSH /
  LPOP / RPOP / LSET incl. `listindex` / LTRIM / LCLEAR), every write commutes with the abstraction and leaves the
  other lists alone, an error reply leaves the store unchanged, the repair branches of the code are dead under the
  invariant, and the leader-side `preCheckListLength` answers locally only on an empty list.
  For every codec satisfying `Z.ListInv.Enc`; the real codec satisfies it on admitted keys (`Z.ListReal.realEnc`).
  Code-level deviations from redis that the model reproduces: LRANGE answers `batchsize` above MAX_BATCH_NUM elements;
  LPUSH / RPUSH answer `listseq` when the sequence window (about 2^61 on either side) is exhausted.
-/
import ZanVerif.Data.ListRef
import ZanVerif.Data.ListReal

namespace Z.Props.C08
open Z.Ref Z.Coll Z.ListExec Z.ListInv Z.ListRef

variable {κ : Type}

/-- LPUSH a b c puts c b a in front, RPUSH appends; reply = new length; other lists untouched -/
theorem C08_list_lpush_refines (E : Enc κ) {m : List KV} (inv : Inv E m) (ts : Int) (k : κ) (atTail : Bool) (args : List Bytes)
    {r : Int} (hr : (lpush E.toEncFns m ts k atTail args).2 = .ok r) :
    abs E (lpush E.toEncFns m ts k atTail args).1 k = specPush atTail (abs E m k) args ∧
    r = ((specPush atTail (abs E m k) args).length : Int) ∧
    ∀ k', k' ≠ k → abs E (lpush E.toEncFns m ts k atTail args).1 k' = abs E m k' := lpush_refines E inv ts k atTail args hr

/-- a push error (`batchsize`, `listseq`) changes nothing -/
theorem C08_list_lpush_error (E : Enc κ) {m : List KV} {ts : Int} {k : κ} {atTail : Bool} {args : List Bytes} {e : String}
    (h : (lpush E.toEncFns m ts k atTail args).2 = .error e) : (lpush E.toEncFns m ts k atTail args).1 = m := lpush_error E h

/-- the repair branch of push (target key occupied / lSetMeta error → fixListKey) is dead under the invariant:
    inside the batch limit and the sequence window the push answers a length -/
theorem C08_list_lpush_ok (E : Enc κ) {m : List KV} (inv : Inv E m) (ts : Int) (k : κ) (atTail : Bool) (args : List Bytes)
    (hlen : args.length ≤ maxBatch)
    (hwin : minSeq < pushSeq atTail (lmeta E.toEncFns m k).1 (lmeta E.toEncFns m k).2.1 (lmeta E.toEncFns m k).2.2 ((args.length : Int) - 1) ∧
      pushSeq atTail (lmeta E.toEncFns m k).1 (lmeta E.toEncFns m k).2.1 (lmeta E.toEncFns m k).2.2 ((args.length : Int) - 1) < maxSeq) :
    ∃ r, (lpush E.toEncFns m ts k atTail args).2 = .ok r := lpush_ok E inv ts k atTail args hlen hwin

/-- LPOP / RPOP: the reply is the first / last element (nil on an empty list), the list loses it -/
theorem C08_list_lpop_refines (E : Enc κ) {m : List KV} (inv : Inv E m) (ts : Int) (k : κ) (atTail : Bool) :
    (lpop E.toEncFns m ts k atTail).2 = .ok (specPop atTail (abs E m k)).1 ∧
    abs E (lpop E.toEncFns m ts k atTail).1 k = (specPop atTail (abs E m k)).2 ∧
    ∀ k', k' ≠ k → abs E (lpop E.toEncFns m ts k atTail).1 k' = abs E m k' := lpop_refines E inv ts k atTail

/-- LSET: `listindex` exactly when the specification has no such index (store unchanged); else the element is replaced -/
theorem C08_list_lset_refines (E : Enc κ) {m : List KV} (inv : Inv E m) (ts : Int) (k : κ) (index : Int) (v : Bytes) :
    match specSet (abs E m k) index v with
    | none => lset E.toEncFns m ts k index v = (m, .error "listindex")
    | some l' => (lset E.toEncFns m ts k index v).2 = .ok () ∧ abs E (lset E.toEncFns m ts k index v).1 k = l' ∧
        ∀ k', k' ≠ k → abs E (lset E.toEncFns m ts k index v).1 k' = abs E m k' := lset_refines E inv ts k index v

/-- LTRIM: the list becomes what LRANGE start stop answers; reply OK -/
theorem C08_list_ltrim_refines (E : Enc κ) {m : List KV} (inv : Inv E m) (ts : Int) (k : κ) (start stop : Int) :
    (ltrim E.toEncFns m ts k start stop).2 = .ok () ∧
    abs E (ltrim E.toEncFns m ts k start stop).1 k = specRange (abs E m k) start stop ∧
    ∀ k', k' ≠ k → abs E (ltrim E.toEncFns m ts k start stop).1 k' = abs E m k' := ltrim_refines E inv ts k start stop

/-- LCLEAR: reply 1 iff the list had elements; afterwards it is empty -/
theorem C08_list_lclear_refines (E : Enc κ) {m : List KV} (inv : Inv E m) (k : κ) :
    (lclear E.toEncFns m k).2 = (if abs E m k = [] then 0 else 1) ∧ abs E (lclear E.toEncFns m k).1 k = [] ∧
    ∀ k', k' ≠ k → abs E (lclear E.toEncFns m k).1 k' = abs E m k' := lclear_refines E inv k

/-- the reads answer the abstraction: LLEN, LINDEX, LRANGE, LKEYEXIST -/
theorem C08_list_reads_refine (E : Enc κ) {m : List KV} (inv : Inv E m) (k : κ) :
    llen E.toEncFns m k = (abs E m k).length ∧
    (∀ i, lindex E.toEncFns m k i = specIndex (abs E m k) i) ∧
    (∀ a b, lrange E.toEncFns m k a b =
      if (specRange (abs E m k) a b).length > maxBatch then .error "batchsize" else .ok (specRange (abs E m k) a b)) ∧
    lkeyexist E.toEncFns m k = (if abs E m k = [] then 0 else 1) :=
  ⟨llen_refines E inv k, fun i => lindex_refines E inv k i, fun a b => lrange_refines E inv k a b, lkeyexist_refines E inv k⟩

/-- `preCheckListLength` (LPOP / RPOP / LTRIM answered by the leader with nil / OK): the list is empty, so the
    specification answers nil and trimming changes nothing -/
theorem C08_list_precheck_sound (E : Enc κ) {m : List KV} (inv : Inv E m) (k : κ) (h : emptyPre E.toEncFns m k = true) :
    abs E m k = [] ∧ (∀ atTail, specPop atTail (abs E m k) = (none, [])) ∧ (∀ a b, specRange (abs E m k) a b = []) := by
  have h0 := emptyPre_sound E inv k h
  rw [h0]
  refine ⟨rfl, fun atTail => by cases atTail <;> rfl, fun a b => ?_⟩
  simp [specRange, normStart]

/-- the specification's LRANGE 0 -1 is the whole list -/
theorem C08_list_spec_range_all (l : List Bytes) : specRange l 0 (-1) = l := specRange_all l

/-- the REAL list key codec satisfies every abstract codec fact on admitted keys, for sequence numbers in the
    regenerated window: `lEncodeListKey` is injective in the key and order preserving (hence injective) in the sequence
    number, never a meta key; the key space of a list (= the keys with its prefix) is convex and disjoint from the
    other lists' and from the meta keys; head / tail survive `encodeListMeta` -/
theorem C08_list_real_codec_facts (k k' : Z.CollReal.InKey) (s s' h t ts : Int) (x : Bytes)
    (hs : okSeq s) (hs' : okSeq s') :
    (realFns.elemK k.pair s = realFns.elemK k'.pair s' → k = k') ∧
    (realFns.elemK k.pair s < realFns.elemK k.pair s' ↔ s < s') ∧
    (realFns.elemK k.pair s = realFns.elemK k.pair s' → s = s') ∧
    (realFns.metaK k.pair = realFns.metaK k'.pair → k = k') ∧
    (realFns.metaK k.pair ≠ realFns.elemK k'.pair s) ∧
    (realFns.elemK k.pair s ≤ x → x ≤ realFns.elemK k.pair s' → Z.ListReal.pfx k <+: x) ∧
    (Z.ListReal.pfx k <+: realFns.elemK k'.pair s → k' = k) ∧
    (¬ Z.ListReal.pfx k <+: realFns.metaK k'.pair) ∧
    (okSeq h → realFns.headOf (realFns.encMeta h t ts) = h) ∧ (okSeq t → realFns.tailOf (realFns.encMeta h t ts) = t) :=
  ⟨Z.ListReal.elem_key k s k' s', Z.ListReal.elem_lt k s s' hs hs', elem_seq Z.ListReal.realEnc k hs hs',
   Z.ListReal.meta_inj k k', Z.ListReal.meta_ne_elem k k' s, Z.ListReal.between k s s' x, Z.ListReal.in_other k k' s,
   Z.ListReal.meta_out k k', Z.ListReal.head_rt h t ts, Z.ListReal.tail_rt h t ts⟩

/-- the functions of the real instance are literally the functions the `datacorelist` driver runs -/
theorem C08_list_exec_is_model (m : List KV) (ts : Int) (k : Z.CollReal.InKey) (atTail : Bool) (args : List Bytes) (i j : Int) (v : Bytes) :
    lpush Z.ListReal.realEnc.toEncFns m ts k atTail args = lpush realFns m ts k.pair atTail args ∧
    lpop Z.ListReal.realEnc.toEncFns m ts k atTail = lpop realFns m ts k.pair atTail ∧
    lset Z.ListReal.realEnc.toEncFns m ts k i v = lset realFns m ts k.pair i v ∧
    ltrim Z.ListReal.realEnc.toEncFns m ts k i j = ltrim realFns m ts k.pair i j ∧
    lclear Z.ListReal.realEnc.toEncFns m k = lclear realFns m k.pair ∧
    llen Z.ListReal.realEnc.toEncFns m k = llen realFns m k.pair ∧
    lindex Z.ListReal.realEnc.toEncFns m k i = lindex realFns m k.pair i ∧
    lrange Z.ListReal.realEnc.toEncFns m k i j = lrange realFns m k.pair i j ∧
    lkeyexist Z.ListReal.realEnc.toEncFns m k = lkeyexist realFns m k.pair ∧
    emptyPre Z.ListReal.realEnc.toEncFns m k = emptyPre realFns m k.pair :=
  ⟨rfl, rfl, rfl, rfl, rfl, rfl, rfl, rfl, rfl, rfl⟩

/-! non-vacuity: concrete runs with the real codec -/
section Example
open Z.CollReal Z.ListReal
def exKeyL8 : InKey := ⟨[116], [108, 58, 120], by decide, by decide, by decide⟩
def exKeyL8b : InKey := ⟨[116, 116], [108], by decide, by decide, by decide⟩
def exCmdsL8 : List (Cmd InKey) :=
  [.push 1 exKeyL8 true [[1], [2]], .pop 2 exKeyL8 false, .pop 3 exKeyL8 true, .push 4 exKeyL8 false [[3], [], [5]],
   .push 5 exKeyL8b true [[9]], .push 6 exKeyL8 true [[6], [7]]]
def exStoreL8 : List KV := run realEnc [] exCmdsL8
theorem C08_list_example_inv : Inv realEnc exStoreL8 := inv_reachable realEnc exCmdsL8

example : abs realEnc exStoreL8 exKeyL8 = [[5], [], [3], [6], [7]] := by rfl
example : (lpush realEnc.toEncFns exStoreL8 9 exKeyL8 false [[1], [2]]).2 = .ok 7 := by rfl
example : abs realEnc (lpush realEnc.toEncFns exStoreL8 9 exKeyL8 false [[1], [2]]).1 exKeyL8 = [[2], [1], [5], [], [3], [6], [7]] :=
  (C08_list_lpush_refines realEnc C08_list_example_inv 9 exKeyL8 false [[1], [2]] (r := 7) (by rfl)).1.trans (by rfl)
example : abs realEnc (lpush realEnc.toEncFns exStoreL8 9 exKeyL8 false [[1], [2]]).1 exKeyL8b = abs realEnc exStoreL8 exKeyL8b :=
  (C08_list_lpush_refines realEnc C08_list_example_inv 9 exKeyL8 false [[1], [2]] (r := 7) (by rfl)).2.2 exKeyL8b (by decide)
example : ∃ r, (lpush realEnc.toEncFns exStoreL8 9 exKeyL8 true [[1]]).2 = .ok r := by
  apply C08_list_lpush_ok realEnc C08_list_example_inv 9 exKeyL8 true [[1]] (by decide)
  have h : lmeta realEnc.toEncFns exStoreL8 exKeyL8 = (2305843009213693950, 2305843009213693954, 5) := by rfl
  rw [h]
  simp [pushSeq, minSeq, maxSeq, Gen.cListMinSeq, Gen.cListMaxSeq]
example : (lpop realEnc.toEncFns exStoreL8 9 exKeyL8 true).2 = .ok (some [7]) :=
  (C08_list_lpop_refines realEnc C08_list_example_inv 9 exKeyL8 true).1.trans (by rfl)
example : abs realEnc (lpop realEnc.toEncFns exStoreL8 9 exKeyL8 false).1 exKeyL8 = [[], [3], [6], [7]] :=
  (C08_list_lpop_refines realEnc C08_list_example_inv 9 exKeyL8 false).2.1.trans (by rfl)
example : lset realEnc.toEncFns exStoreL8 9 exKeyL8 5 [1] = (exStoreL8, .error "listindex") := by
  have := C08_list_lset_refines realEnc C08_list_example_inv 9 exKeyL8 5 [1]
  have hs : specSet (abs realEnc exStoreL8 exKeyL8) 5 [1] = none := by rfl
  rw [hs] at this; exact this
example : abs realEnc (lset realEnc.toEncFns exStoreL8 9 exKeyL8 (-5) [1]).1 exKeyL8 = [[1], [], [3], [6], [7]] := by
  have := C08_list_lset_refines realEnc C08_list_example_inv 9 exKeyL8 (-5) [1]
  have hs : specSet (abs realEnc exStoreL8 exKeyL8) (-5) [1] = some [[1], [], [3], [6], [7]] := by rfl
  rw [hs] at this; exact this.2.1
example : abs realEnc (ltrim realEnc.toEncFns exStoreL8 9 exKeyL8 (-3) 100).1 exKeyL8 = [[3], [6], [7]] :=
  (C08_list_ltrim_refines realEnc C08_list_example_inv 9 exKeyL8 (-3) 100).2.1.trans (by rfl)
example : abs realEnc (ltrim realEnc.toEncFns exStoreL8 9 exKeyL8 3 1).1 exKeyL8 = [] :=
  (C08_list_ltrim_refines realEnc C08_list_example_inv 9 exKeyL8 3 1).2.1.trans (by rfl)
example : (lclear realEnc.toEncFns exStoreL8 exKeyL8).2 = 1 := (C08_list_lclear_refines realEnc C08_list_example_inv exKeyL8).1.trans (by rfl)
example : lrange realEnc.toEncFns exStoreL8 exKeyL8 (-100) 1 = .ok [[5], []] :=
  ((C08_list_reads_refine realEnc C08_list_example_inv exKeyL8).2.2.1 (-100) 1).trans (by rfl)
example : lindex realEnc.toEncFns exStoreL8 exKeyL8 (-2) = some [6] :=
  ((C08_list_reads_refine realEnc C08_list_example_inv exKeyL8).2.1 (-2)).trans (by rfl)
example : emptyPre realFns (lclear realFns exStoreL8 exKeyL8.pair).1 exKeyL8.pair = true := by rfl
example : abs realEnc (lclear realEnc.toEncFns exStoreL8 exKeyL8).1 exKeyL8 = [] :=
  (C08_list_precheck_sound realEnc (inv_lclear realEnc C08_list_example_inv exKeyL8) exKeyL8 (by rfl)).1
example : (lpush realEnc.toEncFns exStoreL8 9 exKeyL8 true []).2 = .ok 5 := by rfl
set_option maxRecDepth 100000 in
example : (lpush realEnc.toEncFns exStoreL8 9 exKeyL8 true (List.replicate 5001 [])).1 = exStoreL8 :=
  C08_list_lpush_error realEnc (e := "batchsize") (by rfl)
end Example

end Z.Props.C08
