/-
  C07 — "the reply to every write is a function of the committed log alone": the HyperLogLog write-back cache is flushed
  at replica-local times (Backup for a snapshot, Close at a restart, eviction), so nothing a command answers or leaves
  behind may depend on WHERE flushes fall between the commands.  For PFADD-created keys, DEL and the existence read this is
  proved here over the regenerated reply rule of `kvDel` (`Gen.delReply`, `tools/translate/gen_hlldel.go`; fix aee65e1:
  before it DEL answered 0 for a key that was only in the cache and 1 once it had been flushed).

  Model: a store is (engine key set, dirty cache key set).  `flush` moves the dirty keys into the engine.  The abstraction
  is the logical key set `eng ∪ dirty`; every command's reply and logical effect is a function of it, and `flush` is the
  identity on it — so two replicas that apply the same commands with flushes anywhere in between answer alike.
-/
import ZanVerif.Gen.HllDel

namespace Z.Props.C07HllDel
variable {K : Type} [DecidableEq K]

structure St (K : Type) where
  eng : K → Bool
  dirty : K → Bool

inductive Op (K : Type) where
  | pfadd (k : K)      -- creates / changes the sketch: the item becomes dirty (PFAdd → AddDirtyWrite)
  | del (k : K)        -- kvDel: wb.Delete(key); delPFCache(rawKey); reply by Gen.delReply
  | exist (k : K)      -- a read: the cache is looked at first, then the engine
  | flush              -- replica-local: Backup / Close / eviction of everything

def abs (s : St K) : K → Bool := fun k => s.eng k || s.dirty k

/-- one command on the concrete store: new store and reply (`none` for the flush, which is not a command of the log) -/
def step (s : St K) : Op K → St K × Option Int
  | .pfadd k => ({ s with dirty := fun x => if x = k then true else s.dirty x }, some 1)
  | .del k => ({ eng := fun x => if x = k then false else s.eng x, dirty := fun x => if x = k then false else s.dirty x },
               some (Gen.delReply (s.eng k) (s.dirty k)))
  | .exist k => (s, some (if s.dirty k || s.eng k then 1 else 0))
  | .flush => ({ eng := fun x => s.eng x || s.dirty x, dirty := fun _ => false }, none)

/-- the same command on the logical key set -/
def specStep (m : K → Bool) : Op K → (K → Bool) × Option Int
  | .pfadd k => (fun x => if x = k then true else m x, some 1)
  | .del k => (fun x => if x = k then false else m x, some (if m k then 1 else 0))
  | .exist k => (m, some (if m k then 1 else 0))
  | .flush => (m, none)

def run (s : St K) : List (Op K) → List Int
  | [] => []
  | op :: rest =>
    let (s', r) := step s op
    match r with
    | some v => v :: run s' rest
    | none => run s' rest

def specRun (m : K → Bool) : List (Op K) → List Int
  | [] => []
  | .flush :: rest => specRun m rest
  | op :: rest =>
    let (m', r) := specStep m op
    match r with
    | some v => v :: specRun m' rest
    | none => specRun m' rest

/-- the commands of the log: the list without the replica-local flushes -/
def strip : List (Op K) → List (Op K)
  | [] => []
  | .flush :: rest => strip rest
  | op :: rest => op :: strip rest

theorem step_abs (s : St K) (op : Op K) : abs (step s op).1 = (specStep (abs s) op).1 ∧ (step s op).2 = (specStep (abs s) op).2 := by
  cases op with
  | pfadd k =>
    refine ⟨?_, rfl⟩
    funext x
    simp only [step, specStep, abs]
    by_cases h : x = k <;> simp [h]
  | del k =>
    constructor
    · funext x
      simp only [step, specStep, abs]
      by_cases h : x = k <;> simp [h]
    · simp only [step, specStep, abs, Gen.delReply]
      rcases Bool.eq_false_or_eq_true (s.eng k) with h1 | h1 <;>
        rcases Bool.eq_false_or_eq_true (s.dirty k) with h2 | h2 <;> simp [h1, h2]
  | exist k =>
    refine ⟨rfl, ?_⟩
    simp only [step, specStep, abs]
    rcases Bool.eq_false_or_eq_true (s.eng k) with h1 | h1 <;>
      rcases Bool.eq_false_or_eq_true (s.dirty k) with h2 | h2 <;> simp [h1, h2]
  | flush =>
    refine ⟨?_, rfl⟩
    funext x
    simp [step, specStep, abs]

/-- the replies of a run are those of the logical run -/
theorem run_eq_specRun : ∀ (l : List (Op K)) (s : St K), run s l = specRun (abs s) l := by
  intro l
  induction l with
  | nil => intro s; rfl
  | cons op rest ih =>
    intro s
    have h := step_abs s op
    cases op with
    | flush =>
      simp only [run, specRun, step]
      rw [ih]
      congr 1
      funext x
      simp [abs]
    | pfadd k =>
      simp only [run, specRun]
      rw [ih, h.1]
      rfl
    | del k =>
      simp only [run, specRun]
      rw [ih, h.1]
      have h2 := h.2
      simp only [step, specStep] at h2 ⊢
      injection h2 with h2
      rw [h2]
    | exist k =>
      simp only [run, specRun]
      rw [ih, h.1]
      have h2 := h.2
      simp only [step, specStep] at h2 ⊢
      injection h2 with h2
      rw [h2]

/-- flushes are invisible to the logical run -/
theorem specRun_strip : ∀ (l : List (Op K)) (m : K → Bool), specRun m l = specRun m (strip l) := by
  intro l
  induction l with
  | nil => intro m; rfl
  | cons op rest ih =>
    intro m
    cases op with
    | flush => simp only [specRun, strip]; exact ih m
    | pfadd k => simp only [specRun, strip]; rw [ih]
    | del k => simp only [specRun, strip]; rw [ih]
    | exist k => simp only [specRun, strip]; rw [ih]

/-- **the flush timing of the HyperLogLog cache is invisible**: two replicas holding the same logical keys that apply
    the same commands, with flushes of the write-back cache at ANY points of their own, give the same replies -/
theorem C07_hll_flush_timing_invisible (s₁ s₂ : St K) (l₁ l₂ : List (Op K)) (hs : abs s₁ = abs s₂)
    (hl : strip l₁ = strip l₂) :
    run s₁ l₁ = run s₂ l₂ := by
  rw [run_eq_specRun, run_eq_specRun, hs, specRun_strip l₁, specRun_strip l₂, hl]

/-- the reply rule before aee65e1 (`vok` alone): the witness of the finding — PFADD k; DEL k answers 0, with a flush in
    between 1; with the regenerated rule both answer 1 -/
def delReplyOld (inEngine _cached : Bool) : Int := if inEngine then 1 else 0

theorem C07_hll_del_witness :
    delReplyOld false true = 0 ∧ delReplyOld true false = 1
    ∧ run (K := Nat) ⟨fun _ => false, fun _ => false⟩ [.pfadd 7, .del 7, .exist 7] = [1, 1, 0]
    ∧ run (K := Nat) ⟨fun _ => false, fun _ => false⟩ [.pfadd 7, .flush, .del 7, .flush, .exist 7] = [1, 1, 0] := by
  decide

end Z.Props.C07HllDel
