/-
  C16 — raft messages arrive as sent through the stream codecs.
  (a) message level: the stateful msgappv2 codec (`Z.AppV2G`, `isContinue`/`isSameGroup` regenerated from
      the Go source) round-trips every well-formed run, for any interleaving of groups and heartbeats;
  (b) byte level: the framing of both stream codecs (`Z.Stream`, type bytes and limits regenerated)
      round-trips, and every truncation of a stream yields a prefix of the frames followed by a
      short-read error — never a different frame.
  Protobuf payloads are opaque bytes here (gogo-protobuf is trusted through the differential run).
-/
import ZanVerif.Codec.StreamLemmas
import ZanVerif.Codec.AppV2G

namespace Z.Props.C16
open Z.Stream

/-- message level, msgappv2: decoder output = encoder input for every well-formed run -/
theorem C16_v2_roundtrip (loc rem : Nat) (ms : List Z.AppV2G.Msg) (st : Z.AppV2G.CState)
    (h : Z.AppV2G.WfRun loc rem st ms) :
    Z.AppV2G.decAll loc rem st (Z.AppV2G.encAll st ms) = ms.map some :=
  Z.AppV2G.roundtrip loc rem ms st h

/-- byte level, msgappv2: one frame followed by anything -/
theorem C16_frame_roundtrip (f : FrameB) (hf : FrameOk f) (rest : Bytes) :
    decodeB (encodeB f ++ rest) = .ok f rest := decodeB_encodeB f hf rest

/-- byte level, msgappv2: a whole stream -/
theorem C16_stream_roundtrip (fs : List FrameB) (h : ∀ f ∈ fs, FrameOk f) :
    decodeAllB (fs.length + 1) (encodeAllB fs) = (fs, .eof) := stream_roundtrip fs h

/-- **truncation**, msgappv2: for every frame sequence and EVERY byte offset k, reading the first k bytes
    yields a prefix of the frames, then io.EOF / io.ErrUnexpectedEOF -/
theorem C16_truncation (fs : List FrameB) (k : Nat) (h : ∀ f ∈ fs, FrameOk f) :
    ∃ j, j ≤ fs.length ∧
      (decodeAllB (fs.length + 1) ((encodeAllB fs).take k) = (fs.take j, .eof) ∨
       decodeAllB (fs.length + 1) ((encodeAllB fs).take k) = (fs.take j, .unexpectedEOF)) :=
  stream_truncated fs k (fs.length + 1) h (Nat.lt_succ_self _)

/-- generic message stream: length-prefixed payload within the 512 MB limit round-trips -/
theorem C16_msg_roundtrip (p : Bytes) (hp : p.length ≤ Gen.readBytesLimit) (rest : Bytes) :
    decodeM (encodeM p ++ rest) = .ok p rest := decodeM_encodeM p hp rest

/-- generic message stream: a cut inside a message is a short-read error -/
theorem C16_msg_truncation (p : Bytes) (hp : p.length ≤ Gen.readBytesLimit) (k : Nat)
    (hk : k < (encodeM p).length) : IsCut (decodeM ((encodeM p).take k)) := by
  have hs : p.length < 18446744073709551616 := by
    have : Gen.readBytesLimit < 18446744073709551616 := by decide
    omega
  unfold decodeM encodeM
  rw [readU64_take _ hs]
  by_cases h8 : k < 8
  · simp only [h8, if_true]; exact short_isCut _
  · simp only [h8, if_false]
    rw [if_neg (by omega)]
    have : p.take (k - 8) = (p ++ []).take (k - 8) := by simp
    rw [this, readN_take]
    simp only [encodeM, List.length_append, Z.Codec.be64_length] at hk
    rw [if_pos (by omega)]
    exact short_isCut _

/-! non-vacuity -/
example : FrameOk (.ents [[1, 2], []] 7) := by
  refine ⟨by decide, ?_, by decide⟩
  intro p hp; simp at hp; rcases hp with rfl | rfl <;> simp [Small]
example : decodeB ((encodeB (.ents [[1, 2], []] 7)).take 12) = .unexpectedEOF := by decide
example : decodeB ((encodeB (.ents [[1, 2], []] 7)).take 9) = .eof := by decide   -- a cut at a field boundary reads as io.EOF

end Z.Props.C16
