/-
  C17 — placement: exact replica count, distinct live nodes, DC spread, leader balance, refusal,
  independence of the map iteration order. Property theorems only, all about the EXECUTABLE model
  `Z.Place.place` (= getRebalancedNamespacePartitions of cluster/pdnode_coord/place_driver.go) that the
  differential run compares with the real code line by line. The refusal guards, the ring slot / ring
  step, the name index, the comparators, the balance thresholds and the move budget inside `place` are
  `Gen.*` definitions regenerated from the Go source on every run.

  A node map is a list of (id, dc tag) pairs with pairwise different ids (`ValidNodes`), in any order.
-/
import ZanVerif.Place.ModelV1
import ZanVerif.Place.ModelV2
import ZanVerif.Place.ModelV2Total

namespace Z.Props.C17
open Z.Place List

/-- a Go `map[string]NodeInfo`: pairwise different ids -/
def ValidNodes (nodes : List (String × String)) : Prop := (nodes.map (·.1)).Nodup

instance (nodes : List (String × String)) : Decidable (ValidNodes nodes) := by
  unfold ValidNodes; infer_instance

/-- **shape (v1)**: with enough nodes the ring algorithm answers, with one list per partition, each of
    exactly `replica` names, all of them live nodes -/
theorem C17_v1_shape (ns : String) (parts replica : Nat) (old : List (List String))
    (nodes : List (String × String)) (h : replica ≤ nodes.length) :
    ∃ layout, place .v1 ns parts replica old nodes = .ok layout ∧ layout.length = parts ∧
      ∀ row ∈ layout, row.length = replica ∧ ∀ x ∈ row, x ∈ nodes.map (·.1) := by
  refine ⟨_, place_eq_of_enough .v1 ns parts replica old nodes h, fillV1_length _ _ _ _, ?_⟩
  intro row hrow
  rcases Nat.eq_zero_or_pos (ring nodes).length with h0 | h0
  · -- no nodes at all: replica = 0, every list is empty
    have hr : replica = 0 := by rw [ring_length] at h0; omega
    subst hr
    rw [fillV1_eq] at hrow
    obtain ⟨p, _, rfl⟩ := mem_map.mp hrow
    simp
  · obtain ⟨a, b⟩ := fillV1_row_shape _ _ _ _ h0 row hrow
    exact ⟨a, fun x hx => mem_ring.mp (b x hx)⟩

/-- **distinct (v1)**: `replica ≤ |nodes|` ⇒ the names of every partition are pairwise different -/
theorem C17_v1_distinct (ns : String) (parts replica : Nat) (old : List (List String))
    (nodes : List (String × String)) (hv : ValidNodes nodes) (h : replica ≤ nodes.length)
    (layout : List (List String)) (hl : place .v1 ns parts replica old nodes = .ok layout) :
    ∀ row ∈ layout, row.Nodup := by
  rw [place_eq_of_enough .v1 ns parts replica old nodes h] at hl
  simp only [fillAlg, Outcome.ok.injEq] at hl
  subst hl
  exact fillV1_row_nodup _ _ _ _ (ring_nodup hv) (by rw [ring_length]; exact h)

/-- **DC spread (v1)**: every DC tag holds the same number `m` of nodes and there are at least `replica`
    different tags ⇒ the replicas of every partition carry pairwise different DC tags (also for the
    partitions whose ring slots wrap around) -/
theorem C17_v1_dc_spread (ns : String) (parts replica m : Nat) (old : List (List String))
    (nodes : List (String × String)) (hv : ValidNodes nodes)
    (heven : ∀ x ∈ nodes, (nodes.filter (fun y => y.2 == x.2)).length = m)
    (hd : replica ≤ (dedup (nodes.map (·.2))).length)
    (layout : List (List String)) (hl : place .v1 ns parts replica old nodes = .ok layout) :
    ∀ row ∈ layout, (row.map (fun x => nodes.lookup x)).Nodup := by
  have hdl : (dcList nodes).length = (dedup (nodes.map (·.2))).length := by simp [dcList]
  have hn : replica ≤ nodes.length := by
    have := dedup_length_le (nodes.map (·.2))
    rw [length_map] at this; omega
  rw [place_eq_of_enough .v1 ns parts replica old nodes hn] at hl
  simp only [fillAlg, Outcome.ok.injEq] at hl
  subst hl
  have heven' : ∀ g ∈ getNodeNameList nodes, g.length = m := by
    intro g hg
    rw [getNodeNameList_eq] at hg
    obtain ⟨dc, hdc, rfl⟩ := mem_map.mp hg
    obtain ⟨x, hx, rfl⟩ := mem_dcList.mp hdc
    simp only [dcGroup, length_mergeSort, length_map]
    exact heven x hx
  have hpos := ring_dc_of_pos nodes hv m heven'
  have hlen : (ring nodes).length = (dcList nodes).length * m := by
    show (combine (getNodeNameList nodes)).length = _
    rw [(combine_perm _).length_eq, length_flatten]
    have : (getNodeNameList nodes).map length = replicate (dcList nodes).length m := by
      apply eq_replicate_iff.mpr
      refine ⟨by simp [getNodeNameList_eq], ?_⟩
      intro b hb
      obtain ⟨g, hg, rfl⟩ := mem_map.mp hb
      exact heven' g hg
    rw [this, sum_replicate_nat]
  intro row hrow
  have := fillV1_dc_spread (fun x => (nodes.lookup x).getD "") (selectIndex ns) parts replica (ring nodes)
    (dcList nodes).length m (dcList nodes) (dcList_nodup nodes) rfl hlen hpos (by omega) row hrow
  -- `lookup` is `some` of the tag for every listed name, so Option-valued tags are pairwise different too
  have hmap : row.map (fun x => (nodes.lookup x).getD "") = (row.map (fun x => nodes.lookup x)).map (·.getD "") := by
    rw [map_map]; rfl
  rw [hmap] at this
  exact Pairwise.of_map (·.getD "") (fun a b hab e => hab (by rw [e])) this

/-- **leader balance (v1)**: `k·|nodes|` partitions ⇒ every node is the preferred leader (first name) of
    exactly `k` partitions -/
theorem C17_v1_leader_balance (ns : String) (k replica : Nat) (old : List (List String))
    (nodes : List (String × String)) (hv : ValidNodes nodes) (hr : 0 < replica) (h : replica ≤ nodes.length)
    (layout : List (List String)) (hl : place .v1 ns (k * nodes.length) replica old nodes = .ok layout) :
    ∀ x ∈ nodes.map (·.1), layout.countP (fun row => row.head? == some x) = k := by
  rw [place_eq_of_enough .v1 ns _ replica old nodes h] at hl
  simp only [fillAlg, Outcome.ok.injEq] at hl
  subst hl
  intro x hx
  have := fillV1_leader_balance (selectIndex ns) replica k (ring nodes) (ring_nodup hv) hr
    (by rw [ring_length]; omega) x (mem_ring.mpr hx)
  rw [ring_length] at this
  exact this

/-- **refusal**: fewer live nodes than replicas ⇒ `ErrNodeUnavailable`, for both algorithms and every
    old layout — by the regenerated guard `Gen.refuseNodes` of getRebalancedNamespacePartitions, and
    again by the regenerated guard `Gen.refuseTotal` of getRebalancedPartitionsFromNameList for callers
    that enter there (`addNodeToNamespaceAndWaitReady`) -/
theorem C17_refuses (alg : Alg) (ns : String) (parts replica : Nat) (old : List (List String)) :
    (∀ nodes : List (String × String), nodes.length < replica →
      place alg ns parts replica old nodes = .refused) ∧
    (∀ nameList : List (List String), nameList.flatten.length < replica →
      placeFromNameList alg ns parts replica old nameList = .refused) ∧
    (∀ n r : Nat, Gen.refuseNodes (n : Int) (r : Int) = true ↔ n < r) ∧
    (∀ n r : Nat, Gen.refuseTotal (n : Int) (r : Int) = true ↔ n < r) :=
  ⟨fun nodes h => place_refused_of_few alg ns parts replica old nodes h,
   fun nl h => placeFromNameList_refused_of_few alg ns parts replica old nl h,
   refuseNodes_iff, refuseTotal_iff⟩

/-- and it refuses ONLY then (a guard mutated to `<=` would refuse a feasible request): with enough nodes
    neither algorithm answers `ErrNodeUnavailable` -/
theorem C17_refuses_only_when_short (alg : Alg) (ns : String) (parts replica : Nat) (old : List (List String))
    (nodes : List (String × String)) (h : replica ≤ nodes.length) :
    place alg ns parts replica old nodes ≠ .refused := by
  rw [place_eq_of_enough alg ns parts replica old nodes h]
  cases alg with
  | v1 => simp [fillAlg]
  | v2 =>
    simp only [fillAlg]
    unfold fillV2
    simp only
    intro hc
    -- neither the fill loop nor the balancing loop can produce `refused`
    have hrow : ∀ (pid : Nat) (ol : List String) (r j : Nat) (items : List (Item String)) (acc excl : List String),
        fillRow pid ol r j items acc excl ≠ .refused := by
      intro pid ol r
      induction r with
      | zero => intro j items acc excl; simp [fillRow]
      | succ r ih =>
        intro j items acc excl
        simp only [fillRow]
        split
        · exact ih _ _ _ _
        · split
          · simp
          · exact ih _ _ _ _
    have hall : ∀ (k pid : Nat) (items : List (Item String)) (rows : List (List String)),
        fillAll replica old k pid items rows ≠ .refused := by
      intro k
      induction k with
      | zero => intro pid items rows; simp [fillAll]
      | succ k ih =>
        intro pid items rows
        simp only [fillAll]
        split
        · exact ih _ _ _
        · rename_i hr; exact absurd hr (hrow _ _ _ _ _ _ _)
        · simp
        · simp
    have hmove1 : ∀ s : V2St String, moveIfUnbalanced s ≠ .refused := by
      intro s
      unfold moveIfUnbalanced leaderMove replicaMove
      repeat' split
      all_goals simp
    have hmove : ∀ (k : Nat) (s : V2St String), moveLoop k s ≠ .refused := by
      intro k
      induction k with
      | zero => intro s; simp [moveLoop]
      | succ k ih =>
        intro s
        simp only [moveLoop]
        split
        · simp
        · exact ih _
        · rename_i hr; exact absurd hr (hmove1 s)
        · simp
        · simp
    split at hc
    · rename_i st _
      split at hc
      · cases hc
      · rename_i hr; exact hmove _ _ hr
      · cases hc
      · cases hc
    · rename_i hr; exact hall _ _ _ _ hr
    · cases hc
    · cases hc

/-- **shape + distinct (v2)**: every answer of the incremental algorithm has one list per partition with
    exactly `replica` pairwise different live names — for every old layout whose lists are duplicate-free
    (of ANY length, with any number of dead names, for any number of old partitions) -/
theorem C17_v2_shape_distinct (ns : String) (parts replica : Nat) (old : List (List String))
    (nodes : List (String × String)) (hv : ValidNodes nodes) (hold : ∀ ol ∈ old, ol.Nodup)
    (layout : List (List String)) (hl : place .v2 ns parts replica old nodes = .ok layout) :
    layout.length = parts ∧
      ∀ row ∈ layout, row.length = replica ∧ row.Nodup ∧ ∀ x ∈ row, x ∈ nodes.map (·.1) := by
  rcases Nat.lt_or_ge nodes.length replica with hlt | hge
  · rw [place_refused_of_few .v2 ns parts replica old nodes hlt] at hl; cases hl
  · rw [place_eq_of_enough .v2 ns parts replica old nodes hge] at hl
    simp only [fillAlg] at hl
    obtain ⟨a, b⟩ := fillV2_safe _ _ _ _ _ (ring_nodup hv) hold layout hl
    refine ⟨a, fun row hrow => ?_⟩
    obtain ⟨b1, b2, b3⟩ := b row hrow
    exact ⟨b1, b2, fun x hx => mem_ring.mp (b3 x hx)⟩

/-- **deterministic = independent of the Go map iteration order**: the answer (layout, refusal or panic)
    is the same for every enumeration order of the node map, for both algorithms -/
theorem C17_order_independent (alg : Alg) (ns : String) (parts replica : Nat) (old : List (List String))
    (nodes nodes' : List (String × String)) (h : nodes ~ nodes') :
    place alg ns parts replica old nodes = place alg ns parts replica old nodes' := by
  unfold place
  rw [h.length_eq, getNodeNameList_perm h]

/-- **v2 answers** (no `nil.(loadItem)` panic = §9-F5, no index panic) for EVERY old layout that has no
    more partitions than requested — old ISR lists of any length (mid-migration lists longer than the
    replication factor included), with any number of dead names — whenever `replica ≥ 1` and there are
    enough nodes. (With `C17_v2_shape_distinct`: the answer is a valid layout.) -/
theorem C17_v2_total (ns : String) (parts replica : Nat) (old : List (List String))
    (nodes : List (String × String)) (hv : ValidNodes nodes) (hr0 : 0 < replica) (h : replica ≤ nodes.length)
    (hparts : old.length ≤ parts) :
    ∃ layout, place .v2 ns parts replica old nodes = .ok layout := by
  rw [place_eq_of_enough .v2 ns parts replica old nodes h]
  simp only [fillAlg]
  exact fillV2_total _ _ _ _ _ (ring_nodup hv) hr0 (by rw [ring_length]; exact h) hparts

/-- the full strength the property asks for — *every* previous layout reachable by node loss/addition,
    which includes ISR lists longer than `replica` in mid-migration: the incremental algorithm either
    refuses (exactly when there are fewer live nodes than replicas) or answers with a valid layout (one
    list per partition, exactly `replica` pairwise different live names each). No third outcome: the
    `nil.(loadItem)` panic of §9-F5 is unreachable. -/
theorem C17_v2_total_full (ns : String) (parts replica : Nat) (old : List (List String))
    (nodes : List (String × String)) (hv : ValidNodes nodes) (hr0 : 0 < replica)
    (hold : ∀ ol ∈ old, ol.Nodup) (hparts : old.length ≤ parts) :
    (nodes.length < replica ∧ place .v2 ns parts replica old nodes = .refused) ∨
    (replica ≤ nodes.length ∧ ∃ layout, place .v2 ns parts replica old nodes = .ok layout ∧
      layout.length = parts ∧
      ∀ row ∈ layout, row.length = replica ∧ row.Nodup ∧ ∀ x ∈ row, x ∈ nodes.map (·.1)) := by
  rcases Nat.lt_or_ge nodes.length replica with hlt | hge
  · exact Or.inl ⟨hlt, place_refused_of_few .v2 ns parts replica old nodes hlt⟩
  · obtain ⟨layout, hl⟩ := C17_v2_total ns parts replica old nodes hv hr0 hge hparts
    obtain ⟨a, b⟩ := C17_v2_shape_distinct ns parts replica old nodes hv hold layout hl
    exact Or.inr ⟨hge, layout, hl, a, b⟩

/-- and with no assumption on the old layout at all (not even on its number of partitions or on repeated
    names): the `nil.(loadItem)` panic of §9-F5 — an empty candidate set — is not an outcome of the
    incremental algorithm, for any node map and any `replica ≥ 1` -/
theorem C17_v2_never_empty_candidates (ns : String) (parts replica : Nat) (old : List (List String))
    (nodes : List (String × String)) (hv : ValidNodes nodes) (hr0 : 0 < replica) :
    place .v2 ns parts replica old nodes ≠ .panicEmpty := by
  rcases Nat.lt_or_ge nodes.length replica with hlt | hge
  · rw [place_refused_of_few .v2 ns parts replica old nodes hlt]; simp
  · rw [place_eq_of_enough .v2 ns parts replica old nodes hge]
    simp only [fillAlg]
    exact fillV2_ne_panicEmpty _ _ _ _ _ (ring_nodup hv) hr0 (by rw [ring_length]; exact hge)

/-! ### non-vacuity: the hypotheses instantiated on concrete topologies -/

def ex6 : List (String × String) :=
  [("n1", "dcA"), ("n10", "dcB"), ("n2", "dcA"), ("n7", "dcC"), ("n3", "dcB"), ("n9", "dcC")]

example : ∃ layout, place .v1 "ns" 12 3 [] ex6 = .ok layout ∧ layout.length = 12 ∧
    ∀ row ∈ layout, row.length = 3 ∧ ∀ x ∈ row, x ∈ ex6.map (·.1) :=
  C17_v1_shape "ns" 12 3 [] ex6 (by decide)

example : ValidNodes ex6 := by decide

example (layout : List (List String)) (hl : place .v1 "ns" 12 3 [] ex6 = .ok layout) :
    (∀ row ∈ layout, row.Nodup) ∧ (∀ row ∈ layout, (row.map (fun x => ex6.lookup x)).Nodup) ∧
    (∀ x ∈ ex6.map (·.1), layout.countP (fun row => row.head? == some x) = 2) :=
  ⟨C17_v1_distinct "ns" 12 3 [] ex6 (by decide) (by decide) layout hl,
   C17_v1_dc_spread "ns" 12 3 2 [] ex6 (by decide) (by decide) (by decide) layout hl,
   C17_v1_leader_balance "ns" 2 3 [] ex6 (by decide) (by decide) (by decide) layout hl⟩

example : place .v2 "ns" 4 7 [] ex6 = .refused := (C17_refuses .v2 "ns" 4 7 []).1 ex6 (by decide)

example : ∃ layout, place .v2 "ns" 4 3 [["n1", "gone", "n3"], ["n9", "n2"]] ex6 = .ok layout :=
  C17_v2_total "ns" 4 3 _ ex6 (by decide) (by decide) (by decide) (by decide)

/-- the former witnesses of §9-F5 (old list longer than the replication factor, a dead name among its first
    `replica` positions, every live name in the list) now yield valid placements: the extra old member
    takes the place of the dead one, the live old members keep their positions -/
example : fillV2 0 1 3 [[9, 1, 2, 3]] [1, 2, 3] = .ok [[3, 1, 2]]        -- dead leader
    ∧ fillV2 0 1 3 [[1, 2, 9, 3]] [1, 2, 3] = .ok [[1, 2, 3]]            -- dead follower
    ∧ fillV2 0 1 3 [[1, 9, 2, 3, 8]] [1, 2, 3] = .ok [[1, 3, 2]]         -- two extra members, one dead
    ∧ fillV2 0 1 3 [[9, 1, 2]] [1, 2, 3] = .ok [[3, 1, 2]] := by         -- old list of length `replica`
  refine ⟨by decide, by decide, by decide, by decide⟩

/-- the same on the entry point, on the op line of corpus/C17/place-f5.txt
    (`nodes=A@,B@,C@ old=D,A,B,C`, replica 3): a layout, and a valid one -/
example : (3 ≤ [("A", ""), ("B", ""), ("C", "")].length ∧
    ∃ layout, place .v2 "ns" 1 3 [["D", "A", "B", "C"]] [("A", ""), ("B", ""), ("C", "")] = .ok layout ∧
      layout.length = 1 ∧
      ∀ row ∈ layout, row.length = 3 ∧ row.Nodup ∧ ∀ x ∈ row, x ∈ [("A", ""), ("B", ""), ("C", "")].map (·.1)) :=
  (C17_v2_total_full "ns" 1 3 [["D", "A", "B", "C"]] [("A", ""), ("B", ""), ("C", "")]
    (by decide) (by decide) (by decide) (by decide)).resolve_left (by decide)

example : ∃ layout, place .v2 "ns" 4 3 [["n1", "gone", "n3", "n7"], ["n9", "n2", "n10", "n1", "n3"]] ex6 = .ok layout :=
  C17_v2_total "ns" 4 3 _ ex6 (by decide) (by decide) (by decide) (by decide)

example (layout : List (List String))
    (hl : place .v2 "ns" 4 3 [["n1", "gone", "n3", "n7"], ["n9", "n2"]] ex6 = .ok layout) :
    layout.length = 4 ∧ ∀ row ∈ layout, row.length = 3 ∧ row.Nodup ∧ ∀ x ∈ row, x ∈ ex6.map (·.1) :=
  C17_v2_shape_distinct "ns" 4 3 _ ex6 (by decide) (by decide) layout hl

/-- more old partitions than requested, repeated names, over-long lists: still no empty candidate set -/
example : place .v2 "ns" 1 3 [["n1", "n1", "gone", "n3", "n7"], ["n9", "n2"], []] ex6 ≠ .panicEmpty :=
  C17_v2_never_empty_candidates "ns" 1 3 _ ex6 (by decide) (by decide)

example : place .v2 "ns" 4 3 [] ex6 = place .v2 "ns" 4 3 [] ex6.reverse :=
  C17_order_independent .v2 "ns" 4 3 [] ex6 ex6.reverse (List.reverse_perm ex6).symm

end Z.Props.C17

#print axioms Z.Props.C17.C17_v1_shape
#print axioms Z.Props.C17.C17_v1_distinct
#print axioms Z.Props.C17.C17_v1_dc_spread
#print axioms Z.Props.C17.C17_v1_leader_balance
#print axioms Z.Props.C17.C17_refuses
#print axioms Z.Props.C17.C17_refuses_only_when_short
#print axioms Z.Props.C17.C17_v2_shape_distinct
#print axioms Z.Props.C17.C17_v2_total
#print axioms Z.Props.C17.C17_v2_total_full
#print axioms Z.Props.C17.C17_v2_never_empty_candidates
#print axioms Z.Props.C17.C17_order_independent
