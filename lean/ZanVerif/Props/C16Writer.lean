/-
  C16 — the stream WRITER (rafthttp streamWriter.run): whatever is taken from the writer's channel is handed to the
  encoder, in order; nothing is taken and dropped.  The batching loop of the `case m := <-msgc` arm is modelled statement
  by statement (its statement list and the batch-limit test are REGENERATED / pinned: Gen/StreamWriter.lean):

      for done := false; !done; {
        err = enc.encode(&m); …; batched++; …
        if err != nil { break }
        if batched > streamBufSize/2 { done = true; break }        -- forced flush: NOTHING is taken from the channel
        select { case m = <-msgc: default: done = true }           -- take the next message only to encode it
      }

  `chan` = what is waiting in the channel when the non-blocking receive looks (an adversary may refill it at any time: the
  model takes the list of channel contents as it is at each look — here, conservatively, a fixed queue, which is the worst
  case for "taken but not encoded").  `encOk` = whether the encoder accepts the message (a write error ends the batch;
  the message that failed is reported unreachable by the caller and is NOT counted as delivered).
-/
import ZanVerif.Gen.StreamWriter

namespace Z.Props.C16Writer

structure BatchRes (α : Type) where
  encoded : List α      -- handed to the encoder successfully, in order
  failed : Option α     -- the message whose encode failed (the connection is closed, raft is told)
  left : List α         -- still in the channel
  batched : Nat
  deriving Repr

/-- one run of the batching loop, started with message `m` just received; `fuel` bounds the iterations (one per message) -/
def batch {α : Type} (encOk : α → Bool) (bufSize : Nat) : Nat → α → List α → Nat → List α → BatchRes α
  | 0, m, q, batched, out => ⟨out, none, m :: q, batched⟩          -- unreachable with enough fuel
  | fuel + 1, m, q, batched, out =>
    if encOk m = false then ⟨out, some m, q, batched + 1⟩           -- err != nil: break
    else if Gen.batchFull ((batched + 1 : Nat) : Int) (bufSize : Int) then ⟨out ++ [m], none, q, batched + 1⟩   -- done, nothing taken
    else match q with
      | [] => ⟨out ++ [m], none, [], batched + 1⟩                    -- default: done
      | m' :: q' => batch encOk bufSize fuel m' q' (batched + 1) (out ++ [m])

/-- **nothing is taken and dropped**: what was encoded, the message that failed (if any) and what is still in the channel
    are, in this order, exactly what the loop started with — for every queue, every batch counter, every buffer size and
    every encoder behaviour -/
theorem C16_writer_batch_conserves {α : Type} (encOk : α → Bool) (bufSize : Nat) :
    ∀ (fuel : Nat) (m : α) (q : List α) (batched : Nat) (out : List α), q.length < fuel →
      let r := batch encOk bufSize fuel m q batched out
      r.encoded ++ r.failed.toList ++ r.left = out ++ m :: q := by
  intro fuel
  induction fuel with
  | zero => intro m q batched out h; omega
  | succ fuel ih =>
    intro m q batched out h
    simp only [batch]
    split
    · simp
    · split
      · simp
      · cases q with
        | nil => simp
        | cons m' q' =>
          simp only
          have := ih m' q' (batched + 1) (out ++ [m]) (by simp at h; omega)
          simp only at this
          rw [this]; simp

/-- without write errors every message the loop took is encoded: the encoder's input is a prefix of the queue, the rest is
    still in the channel -/
theorem C16_writer_batch_no_loss {α : Type} (bufSize : Nat) (fuel : Nat) (m : α) (q : List α) (batched : Nat) (h : q.length < fuel) :
    let r := batch (fun _ => true) bufSize fuel m q batched []
    r.failed = none ∧ r.encoded ++ r.left = m :: q := by
  have hc := C16_writer_batch_conserves (fun _ : α => true) bufSize fuel m q batched [] h
  simp only at hc ⊢
  have hf : ∀ (fuel : Nat) (m : α) (q : List α) (b : Nat) (out : List α),
      (batch (fun _ => true) bufSize fuel m q b out).failed = none := by
    intro fuel
    induction fuel with
    | zero => intro m q b out; rfl
    | succ fuel ih =>
      intro m q b out
      simp only [batch]
      split
      · rename_i h; cases h
      · split
        · rfl
        · cases q with
          | nil => rfl
          | cons m' q' => exact ih m' q' (b + 1) (out ++ [m])
  refine ⟨hf _ _ _ _ _, ?_⟩
  rw [hf] at hc
  simpa using hc

/-- the forced flush: a batch never encodes more than streamBufSize/2 + 1 messages beyond its start counter -/
theorem C16_writer_batch_bounded {α : Type} (encOk : α → Bool) (bufSize : Nat) :
    ∀ (fuel : Nat) (m : α) (q : List α) (batched : Nat) (out : List α),
      (batch encOk bufSize fuel m q batched out).encoded.length ≤ out.length + (bufSize / 2 + 1 - batched) ∨
      batched > bufSize / 2 := by
  intro fuel
  induction fuel with
  | zero => intro m q batched out; left; simp [batch]
  | succ fuel ih =>
    intro m q batched out
    by_cases hb : batched > bufSize / 2
    · right; exact hb
    · left
      simp only [batch]
      split
      · simp
      · split
        · simp; omega
        · rename_i hfull
          cases q with
          | nil => simp; omega
          | cons m' q' =>
            simp only
            have hnf : ¬ (batched + 1 > bufSize / 2) := by
              intro hgt
              apply hfull
              unfold Gen.batchFull
              simp only [decide_eq_true_eq]
              have : ((bufSize : Int).tdiv 2) = ((bufSize / 2 : Nat) : Int) := by
                rw [Int.tdiv_eq_ediv_of_nonneg (by omega)]; rfl
              rw [this]; omega
            rcases ih m' q' (batched + 1) (out ++ [m]) with h | h
            · simp at h ⊢; omega
            · exact absurd h hnf

/-- the shape of the seeded change (limit tested in the loop condition, AFTER the receive): the message fetched at the
    boundary is dropped — modelled variant and a concrete witness -/
def batchBad {α : Type} (bufSize : Nat) : Nat → α → List α → Nat → List α → List α × List α
  | 0, m, q, _, out => (out, m :: q)
  | fuel + 1, m, q, batched, out =>
    match q with
    | [] => (out ++ [m], [])
    | m' :: q' => if batched + 1 > bufSize / 2 then (out ++ [m], q') else batchBad bufSize fuel m' q' (batched + 1) (out ++ [m])

theorem C16_writer_late_limit_witness :
    batchBad 4 10 (1 : Nat) [2, 3, 4, 5] 0 [] = ([1, 2, 3], [5]) ∧
    (batch (fun _ => true) 4 10 (1 : Nat) [2, 3, 4, 5] 0 []).encoded = [1, 2, 3] ∧
    (batch (fun _ => true) 4 10 (1 : Nat) [2, 3, 4, 5] 0 []).left = [4, 5] := by decide

example : Gen.batchLoopShape = true := rfl

end Z.Props.C16Writer
