/-
  C07 — applying the same log always yields the same data and replies.
  The batching theorem over the abstract apply-batch model (`Z.Batch`): inside one write batch reads
  see the store as of batch start; for pairwise distinct keys and commands that read only their own
  key, batched application = sequential application (store and replies). The batchable command set is
  regenerated from rockredis/rockredis.go. Determinism w.r.t. clock / engine / replay / grouping of the
  REAL code is judged by the metamorphic shadows of protocol `data`.
-/
import ZanVerif.Data.Batch
import ZanVerif.Gen.Ttl
import ZanVerif.Node.BatchOpLemmas

namespace Z.Props.C07

/-- batch independence: for every command list with pairwise distinct keys, every start store -/
theorem C07_batch_independent {K V R : Type} [DecidableEq K] (cs : List (Z.Batch.Cmd K V R)) (s : Z.Batch.Store K V)
    (h : (cs.map (·.key)).Nodup) : Z.Batch.applyBatched s cs = Z.Batch.applySeq s cs :=
  Z.Batch.batched_eq_seq cs s h

/-- the hypothesis is needed (why the operator cuts a batch at a repeated key): two INCRs of one key -/
theorem C07_repeated_key_witness :
    (Z.Batch.applyBatched (fun _ => none) [Z.Batch.incr, Z.Batch.incr]).2 ≠
    (Z.Batch.applySeq (fun _ => none) [Z.Batch.incr, Z.Batch.incr]).2 := by decide

/-- only commands that answer OK / an error (no value computed from the data) are batchable, and none of
    them is a read-modify-write of a counter or a collection size: the regenerated set is exactly this -/
theorem C07_batchable_set : Gen.batchableCmds = ["del", "hmset", "set", "setex"] := by decide

/-! ### the batch operator of the apply loop (model `Z.BatchOp`, decision function regenerated as `Gen.isBatchable`) -/

open Z.BatchOp in
/-- **one apply event = sequential execution.**  For every committed store and every list of write requests, if each
    request whose name is in the (regenerated) batchable set — and, for DEL, that names one key — is a single-key command
    on its first key, then processing the event with the operator (admission by the regenerated `Gen.isBatchable`, reads
    of admitted requests on the committed store, buffered writes, kept replies, commit before every request that is not
    admitted and at the end) gives the store and the replies of executing the requests one after the other. -/
theorem C07_event_is_sequential {K V R : Type} [DecidableEq K] (run : Req K V R → Option V → Option V × R)
    (s : Z.Batch.Store K V) (reqs : List (Req K V R)) (h : ∀ rq ∈ reqs, Admissible run rq) :
    applyEvent run s reqs = applySeqReqs s reqs := by
  have inv0 : Inv ({ store := s, pend := [], dup := [], out := [] } : St K V R) := closed_inv s []
  have := foldl_spec run reqs _ inv0 h
  simp only [view, commitOpen, Z.Batch.applyBatched, Z.Batch.runBatch, Z.Batch.commit, List.nil_append] at this
  simp only [applyEvent, commitOpen]
  exact this

open Z.BatchOp in
theorem C07_aux_seq_append {K V R : Type} (s : Z.Batch.Store K V) (a b : List (Req K V R)) :
    applySeqReqs s (a ++ b) = ((applySeqReqs (applySeqReqs s a).1 b).1, (applySeqReqs s a).2 ++ (applySeqReqs (applySeqReqs s a).1 b).2) := by
  induction a generalizing s with
  | nil => simp [applySeqReqs]
  | cons c cs ih => simp only [List.cons_append, applySeqReqs]; rw [ih]

open Z.BatchOp in
/-- **the grouping of the log into apply events does not matter**: however the committed entries are cut into events
    (which depends on timing and differs between replicas and between live apply and replay), the data and the replies
    are those of the sequential execution of the log -/
theorem C07_grouping_independent {K V R : Type} [DecidableEq K] (run : Req K V R → Option V → Option V × R)
    (s : Z.Batch.Store K V) (events : List (List (Req K V R))) (h : ∀ ev ∈ events, ∀ rq ∈ ev, Admissible run rq) :
    applyEvents run s events = applySeqReqs s events.flatten := by
  induction events generalizing s with
  | nil => rfl
  | cons ev rest ih =>
    simp only [applyEvents, List.flatten_cons]
    rw [C07_event_is_sequential run s ev (h ev List.mem_cons_self),
      ih _ (fun e he => h e (List.mem_cons_of_mem _ he)), C07_aux_seq_append]

open Z.BatchOp in
/-- two groupings of the same log agree -/
theorem C07_two_groupings_agree {K V R : Type} [DecidableEq K] (run : Req K V R → Option V → Option V × R)
    (s : Z.Batch.Store K V) (e1 e2 : List (List (Req K V R))) (hsame : e1.flatten = e2.flatten)
    (h1 : ∀ ev ∈ e1, ∀ rq ∈ ev, Admissible run rq) (h2 : ∀ ev ∈ e2, ∀ rq ∈ ev, Admissible run rq) :
    applyEvents run s e1 = applyEvents run s e2 := by
  rw [C07_grouping_independent run s e1 h1, C07_grouping_independent run s e2 h2, hsame]

/-- the admission rule as the code states it: a request joins the open batch only if its key is not a key of the batch,
    its command is in the batchable set, and a DEL names one key -/
theorem C07_admission_rule {bs : List String} {name : String} {argc : Nat} {inDup : Bool} {n : Nat}
    (h : Gen.isBatchable bs name argc inDup n = true) :
    inDup = false ∧ bs.contains name = true ∧ (name = "del" → argc ≤ 2) := Z.BatchOp.isBatchable_true h

/-- why a DEL of several keys must not be admitted (only its first key would be recorded): `DEL k0 k1` admitted into
    a batch followed by `SET k1 v NX` differs from the sequential execution -/
def wDel2 : Z.BatchOp.Req Nat Nat Nat :=
  ⟨"del", 3, 0, fun s => (Z.Batch.put (Z.Batch.put s 0 none) 1 none, 2)⟩
def wSetNx : Z.BatchOp.Req Nat Nat Nat :=
  ⟨"set", 4, 1, fun s => match s 1 with | some _ => (s, 0) | none => (Z.Batch.put s 1 (some 9), 1)⟩
/-- non-vacuity of `C07_event_is_sequential` and the reason for the DEL rule: with the real rule the event
    [del k0 k1 ; set k1 9 nx] on a store holding k1 ends with k1 = 9 and replies [2, 1] -/
example : ((Z.BatchOp.applyEvent (fun rq v => match rq.name with
      | "set" => (match v with | some x => (some x, 0) | none => (some 9, 1))
      | _ => (none, 0)) (fun k => if k = 1 then some 5 else none) [wDel2, wSetNx]).1 1,
    (Z.BatchOp.applyEvent (fun rq v => match rq.name with
      | "set" => (match v with | some x => (some x, 0) | none => (some 9, 1))
      | _ => (none, 0)) (fun k => if k = 1 then some 5 else none) [wDel2, wSetNx]).2) = (some 9, [2, 1]) := by decide

end Z.Props.C07
