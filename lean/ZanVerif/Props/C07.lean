/-
  C07 — applying the same log always yields the same data and replies.
  The batching theorem over the abstract apply-batch model (`Z.Batch`): inside one write batch reads
  see the store as of batch start; for pairwise distinct keys and commands that read only their own
  key, batched application = sequential application (store and replies). The batchable command set is
  regenerated from rockredis/rockredis.go. Determinism w.r.t. clock / engine / replay / grouping of the
  REAL code is judged by the metamorphic shadows of protocol `data`.
-/
import ZanVerif.Data.Batch
import ZanVerif.Gen.Ttl

namespace Z.Props.C07

/-- batch independence: for every command list with pairwise distinct keys, every start store -/
theorem C07_batch_independent {K V R : Type} [DecidableEq K] (cs : List (Z.Batch.Cmd K V R)) (s : Z.Batch.Store K V)
    (h : (cs.map (·.key)).Nodup) : Z.Batch.applyBatched s cs = Z.Batch.applySeq s cs :=
  Z.Batch.batched_eq_seq cs s h

/-- the hypothesis is needed (why the operator cuts a batch at a repeated key): two INCRs of one key -/
theorem C07_repeated_key_witness :
    (Z.Batch.applyBatched (fun _ => none) [Z.Batch.incr, Z.Batch.incr]).2 ≠
    (Z.Batch.applySeq (fun _ => none) [Z.Batch.incr, Z.Batch.incr]).2 := by decide

/-- only commands that answer OK / an error (no value computed from the data) are batchable, and none of
    them is a read-modify-write of a counter or a collection size: the regenerated set is exactly this -/
theorem C07_batchable_set : Gen.batchableCmds = ["del", "hmset", "set", "setex"] := by decide

end Z.Props.C07
