/-
  C11 — no client input can crash a replica while the committed entry is applied (shape safety).
  `Gen.cmdTable` is REGENERATED from node/node_cmd_reg.go, node/util.go and the apply handlers
  (node/keys.go, hash.go, list.go, set.go, zset.go, ttl.go, json.go …): per write command the leader-side
  validator as a rejection predicate over the argument count, and the highest `cmd.Args[i]` its apply
  handler touches without a length guard of its own.
  Theorem: for EVERY registered write command and EVERY argument count, if the validator lets the
  command into the log then every constant-index access of the apply handler is in range.
  Everything else of C11 (numeric parses, offsets, error ⇒ no state change, nothing leaks into the next
  command) is judged by the C11 oracles of protocol `data` (mutation fuzz through validation + apply).
-/
import ZanVerif.Gen.CmdTable

namespace Z.Props.C11

/-- the finite table check: every argument count below what the handler needs is rejected -/
def tableOk : Bool :=
  Gen.cmdTable.all (fun e => (List.range e.required).all (fun n => e.reject (n : Int)))

theorem tableOk_true : tableOk = true := by decide

/-- **shape safety**, unbounded in the argument count -/
theorem C11_shape_safe (e : Gen.CmdEntry) (he : e ∈ Gen.cmdTable) (n : Nat) (hacc : e.reject (n : Int) = false) :
    e.required ≤ n := by
  have h := tableOk_true
  unfold tableOk at h
  rw [List.all_eq_true] at h
  have h1 := h e he
  rw [List.all_eq_true] at h1
  by_cases hn : n < e.required
  · have := h1 n (List.mem_range.mpr hn)
    rw [this] at hacc; cases hacc
  · omega

/-- the extractor summarised every registered write command that has an apply handler -/
theorem C11_all_summarised : Gen.unsummarised = [] := by decide

/-- the table is not trivially small -/
theorem C11_table_size : 50 ≤ Gen.cmdTable.length := by decide

/-! non-vacuity: HMSET with 4 arguments is accepted and needs 2; with 5 it is rejected -/
example : (Gen.cmdTable.find? (·.name == "hmset")).map (fun e => (e.reject 4, e.reject 5, e.required)) = some (false, true, 2) := by decide

end Z.Props.C11
