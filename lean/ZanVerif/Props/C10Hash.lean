/-
  C10 — expired data is dead; unexpired data is never removed: the hash type (a versioned collection) under the
  value-header policy, over the EXECUTABLE storage-level model `Z.HashTTLExec` (real key codec incl. the
  memcomparable versioned key; compared line by line with a real KVNode by the `datacorettl` run).
  Generations: a hash whose size meta is absent (never created / HCLEARed) or expired at the log time gets
  `ValueVersion := log timestamp` on its next write; the field keys of older generations stay in the store.
-/
import ZanVerif.Data.HashTTLLemmas

namespace Z.Props.C10Hash
open Z.HashTTLExec Z.Header
open Z.Ref (get put del scan Sorted get_put get_del put_sorted del_sorted mem_scan)
open Z.Codec (be64 toU64 ofU64 inI64 be64_length)
open Z.KVExec (Reply RdRes tooBig stripTs KErr PRes parseInt fmtInt wrap64)

/-- what every reader sees of a freshly renewed hash (`renewed`: size meta of a new generation `ts` with one field, no
    expiry; NO other field key of version `ts` stored): exactly the written field, HLEN = 1, exists, no TTL -/
theorem C10_aux_renewed_reads {m : List KV} (hs : Sorted m) (table k : Bytes) (ok : KeyOk table k)
    {ts : Int} (hi : inI64 ts) (hfresh : ∀ g, get m (fieldK table k ts g) = none) (f v : Bytes) (now : Int) :
    (∀ g, hget (renewed m table k ts f v) now table k g = .ok (if g = f then some v else none)) ∧
    (∃ l, hscan (renewed m table k ts f v) now table k = .ok l ∧ (f, v) ∈ l ∧ ∀ q ∈ l, q = (f, v)) ∧
    hlenAt (renewed m table k ts f v) now table k = .ok 1 ∧
    hkeyexist (renewed m table k ts f v) now table k = .ok 1 ∧
    httl (renewed m table k ts f v) now table k = .ok (-1) := by
  have hmv' := mview_renewed hs table k ts hi f v now
  have hlv : liveVer (renewed m table k ts f v) now table k = .ok (some ⟨0, ts, some (be64 (toU64 1))⟩) := by
    simp [liveVer, hmv', notExist]
  have hget : ∀ g, hget (renewed m table k ts f v) now table k g = .ok (if g = f then some v else none) := by
    intro g
    simp only [hget, hlv]
    rw [renewed_field hs table k ok ts hi f v g]
    by_cases hg : g = f
    · simp [hg, stripTs_append _ _ (be64_length _)]
    · simp [hg, hfresh g]
  have hsc : ∃ l, hscan (renewed m table k ts f v) now table k = .ok l ∧ (f, v) ∈ l ∧ ∀ q ∈ l, q = (f, v) := by
    refine ⟨(scan (renewed m table k ts f v) (startK table k ts) (stopK table k ts)).map
      (fun p => (p.1.drop (startK table k ts).length, stripTs p.2)), by simp only [hscan, hlv], ?_, ?_⟩
    · refine List.mem_map.mpr ⟨(fieldK table k ts f, v ++ be64 (toU64 ts)), ?_, ?_⟩
      · refine mem_scan.mpr ⟨?_, (range_iff table k ts _).mpr ⟨f, rfl⟩⟩
        apply get_mem
        rw [renewed_field hs table k ok ts hi f v f]; simp
      · simp [startK_length, stripTs_append _ _ (be64_length _)]
    · intro q hq
      obtain ⟨p, hp, rfl⟩ := List.mem_map.mp hq
      obtain ⟨hpm, hr⟩ := mem_scan.mp hp
      obtain ⟨g, hg⟩ := (range_iff table k ts p.1).mp hr
      have hgp := mem_get (renewed_sorted hs table k ts f v) hpm
      rw [hg, renewed_field hs table k ok ts hi f v g] at hgp
      by_cases hgf : g = f
      · subst hgf
        simp only [if_true, Option.some.injEq] at hgp
        rw [hg, ← hgp]
        simp [startK_length, stripTs_append _ _ (be64_length _)]
      · rw [if_neg hgf, hfresh g] at hgp; cases hgp
  refine ⟨hget, hsc, ?_, ?_, ?_⟩
  · have : sizeI (some (be64 (toU64 1))) = 1 := sizeI_be64 1 (by decide) (by decide)
    simp only [hlenAt, hmv', this]
    rfl
  · simp only [hkeyexist, hlv]
  · have hm := renewed_meta hs table k ts f v
    unfold httl
    rw [hm]
    simp only [newMeta]
    rw [decode_encFixed 0 ts _ (by decide)]
    simp [ttl]

/-- **no resurrection** (hash).  The hash is dead at log time `ts` (size meta absent — never created or HCLEARed —
    or expired at `ts`), and — the explicit hypothesis — NO field key of version `ts`, the version the new
    generation gets, is stored for it (every stale field key still stored has another version).  Then HSET /
    HSETNX at `ts` answers 1 and afterwards, at every read time: exactly the written field is visible
    (HGET, HGETALL/HKEYS/HVALS), HLEN = 1, the key exists, and it has no TTL. -/
theorem C10_no_resurrection {m : List KV} (hs : Sorted m) (table k : Bytes) (ok : KeyOk table k)
    {ts : Int} (hi : inI64 ts) {h : Hdr} {ex : Bool}
    (hmv : mview m ts table k = .mv h ex) (hdead : notExist h ex = true)
    (hfresh : ∀ g, get m (fieldK table k ts g) = none)
    (f v : Bytes) (hb : tooBig v = false) (nx : Bool) :
    (hset m ts nx table k f v).2 = .int 1 ∧
    ∀ (now : Int),
      (∀ g, hget (hset m ts nx table k f v).1 now table k g = .ok (if g = f then some v else none)) ∧
      (∃ l, hscan (hset m ts nx table k f v).1 now table k = .ok l ∧ (f, v) ∈ l ∧ ∀ q ∈ l, q = (f, v)) ∧
      hlenAt (hset m ts nx table k f v).1 now table k = .ok 1 ∧
      hkeyexist (hset m ts nx table k f v).1 now table k = .ok 1 ∧
      httl (hset m ts nx table k f v).1 now table k = .ok (-1) := by
  rw [hset_dead table k f v ts nx h ex hmv hdead (hfresh f) hb]
  exact ⟨rfl, fun now => C10_aux_renewed_reads hs table k ok hi hfresh f v now⟩

/-- HIncrBy asks `hGetRawFieldValue` to check expiry (REGENERATED: its 4th argument), so the model's "field is missing"
    guard is `notExist` — absent or expired at the log time -/
theorem C10_hincrby_checks_expiry (h : Hdr) (ex : Bool) :
    Gen.hincrCheckExpired = true ∧ Gen.hincrFieldMissing ex h.user.isNone = notExist h ex :=
  ⟨by decide, hincrFieldMissing_eq h ex⟩

/-- **no resurrection, HINCRBY**.  Same hypotheses (the hash is dead at log time `ts`: never created, HCLEARed, or its
    expiry second is ≤ ⌊ts/1e9⌋; no field key of version `ts` stored).  Then `HINCRBY key f d` at `ts` counts the old
    value as 0 WHATEVER the dead generation stores under `f` — the reply is `d` —, and afterwards, at every read time:
    the hash holds exactly the field `f` = the decimal text of `d` (no field of the dead generation comes back),
    HLEN = 1, the key exists, and it has no TTL (the expiry of the dead generation is gone with it). -/
theorem C10_hincrby_no_resurrection {m : List KV} (hs : Sorted m) (table k : Bytes) (ok : KeyOk table k)
    {ts : Int} (hi : inI64 ts) {h : Hdr} {ex : Bool}
    (hmv : mview m ts table k = .mv h ex) (hdead : notExist h ex = true)
    (hfresh : ∀ g, get m (fieldK table k ts g) = none)
    (f : Bytes) (d : Int) (hd : inI64 d) :
    (hincrby m ts table k f d).2 = .int d ∧
    ∀ (now : Int),
      (∀ g, hget (hincrby m ts table k f d).1 now table k g = .ok (if g = f then some (fmtInt d) else none)) ∧
      (∃ l, hscan (hincrby m ts table k f d).1 now table k = .ok l ∧ (f, fmtInt d) ∈ l ∧ ∀ q ∈ l, q = (f, fmtInt d)) ∧
      hlenAt (hincrby m ts table k f d).1 now table k = .ok 1 ∧
      hkeyexist (hincrby m ts table k f d).1 now table k = .ok 1 ∧
      httl (hincrby m ts table k f d).1 now table k = .ok (-1) := by
  rw [hincrby_dead table k f ts d h ex hmv hdead (hfresh f) hd]
  exact ⟨rfl, fun now => C10_aux_renewed_reads hs table k ok hi hfresh f (fmtInt d) now⟩

/-! #### the hypothesis of `C10_no_resurrection` is needed: equal log timestamps, on the executable model -/

def wTable : Bytes := [116]     -- "t"
def wKey : Bytes := [104]       -- "h"
def wTs : Int := 7000000000
/-- HSET h f 1 @wTs -/
def wS1 : List KV := (hset [] wTs false wTable wKey [102] [49]).1
/-- … HCLEAR h @wTs (read clock 1: no expiry involved) -/
def wS2 : List KV := (hclear wS1 1 wTs wTable wKey).1
/-- … HSET h g 2 @wTs: the generation of the re-created hash is `wTs` again -/
def wS3 : List KV := (hset wS2 wTs false wTable wKey [103] [50]).1
/-- the other way to die at one timestamp: HEXPIRE h 0 @wTs (expired at once), then HSET h g 2 @wTs -/
def wS2' : List KV := (hexpire wS1 wTs wTable wKey 0).1
def wS3' : List KV := (hset wS2' wTs false wTable wKey [103] [50]).1

/-- the cleared hash IS dead (HGETALL empty, HLEN 0), its stale field key of version `wTs` is still stored, and the
    re-creation at the SAME log timestamp brings the old field back: HGETALL = {f:1, g:2} while HLEN = 1 -/
theorem C10_equal_ts_witness :
    hscan wS2 1 wTable wKey = .ok [] ∧ hlenAt wS2 1 wTable wKey = .ok 0 ∧
    get wS2 (fieldK wTable wKey wTs [102]) ≠ none ∧
    hscan wS3 1 wTable wKey = .ok [([102], [49]), ([103], [50])] ∧ hlenAt wS3 1 wTable wKey = .ok 1 ∧
    hget wS3 1 wTable wKey [102] = .ok (some [49]) := by decide

/-- the same through expiry: `HEXPIRE h 0` kills the hash at its own timestamp; written again at that timestamp it is
    renewed with the version it already had, and the old field of that version shows again -/
theorem C10_equal_ts_witness_expiry :
    hscan wS2' wTs wTable wKey = .ok [] ∧
    hscan wS3' wTs wTable wKey = .ok [([102], [49]), ([103], [50])] ∧ hlenAt wS3' wTs wTable wKey = .ok 1 := by decide

/-- **dead after expiry** (hash).  The size meta holds an expiry second `e ≠ 0` with `e ≤ ⌊t/1e9⌋`.  Then at every
    `t' ≥ t`: (1) every read answers as for an absent key; (2) HEXPIRE / HPERSIST answer 0 and change nothing; HCLEAR
    answers 0 and changes nothing whatever the replica's own clock `now` shows; (3) HSET / HSETNX — under the
    hypothesis of `C10_no_resurrection` for the new version `t'` — give the reply and the visible content of the same
    command on the store WITHOUT the size meta.  HDEL is outside (witness below). -/
theorem C10_hash_dead_after_expiry_partial {m : List KV} (hs : Sorted m) (table k : Bytes) (ok : KeyOk table k)
    {e : Nat} {ver : Int} {user : Bytes} (hmeta : get m (metaK table k) = some (encFixed e ver ++ user))
    (he : e < 4294967296) (he0 : e ≠ 0) {t t' : Int} (ht : 0 < t) (hexp : (e : Int) ≤ t / 1000000000) (htt : t ≤ t') :
    ((∀ g, hget m t' table k g = .ok none) ∧ hscan m t' table k = .ok [] ∧ hlenAt m t' table k = .ok 0 ∧
      hkeyexist m t' table k = .ok 0 ∧ httl m t' table k = .ok (-1)) ∧
    ((∀ d, hexpire m t' table k d = (m, .int 0)) ∧ hpersist m t' table k = (m, .int 0) ∧
      (∀ now, hclear m now t' table k = (m, .int 0))) ∧
    (inI64 t' → (∀ g, get m (fieldK table k t' g) = none) → ∀ (f v : Bytes) (nx : Bool), tooBig v = false →
      (hset m t' nx table k f v).2 = (hset (del m (metaK table k)) t' nx table k f v).2 ∧
      ∀ now,
        (∀ g, hget (hset m t' nx table k f v).1 now table k g =
              hget (hset (del m (metaK table k)) t' nx table k f v).1 now table k g) ∧
        hlenAt (hset m t' nx table k f v).1 now table k = hlenAt (hset (del m (metaK table k)) t' nx table k f v).1 now table k ∧
        httl (hset m t' nx table k f v).1 now table k = httl (hset (del m (metaK table k)) t' nx table k f v).1 now table k) := by
  have hx : ∀ s, t ≤ s → isExpired ⟨e, ofU64 (toU64 ver), some user⟩ s = true := fun s hs' =>
    (isExpired_iff _ s (by omega)).mpr ⟨he0, by
      have : t / 1000000000 ≤ s / 1000000000 := Int.ediv_le_ediv (by decide) hs'
      show (e : Int) ≤ s / 1000000000
      omega⟩
  have hmv : ∀ s, t ≤ s → mview m s table k = .mv ⟨e, ofU64 (toU64 ver), some user⟩ true := by
    intro s hs'
    unfold mview
    rw [hmeta]
    simp only
    rw [decode_encFixed e ver user he]
    simp only [hx s hs']
  refine ⟨?_, ?_, ?_⟩
  · have hlv : liveVer m t' table k = .ok none := by simp [liveVer, hmv t' htt, notExist]
    refine ⟨fun g => by simp [hget, hlv], by simp [hscan, hlv], by simp [hlenAt, hmv t' htt], by simp [hkeyexist, hlv], ?_⟩
    unfold httl
    rw [hmeta]
    simp only
    rw [decode_encFixed e ver user he]
    simp only
    rw [ttl_dead _ t' (by omega) (Or.inl (hx t' htt))]
  · refine ⟨fun d => by simp [hexpire, hexpireAt, hmv t' htt, notExist], by simp [hpersist, hexpireAt, hmv t' htt, notExist], ?_⟩
    intro now
    simp [hclear, hlenAt, hmv t' htt]
  · intro hi hfresh f v nx hb
    have hsd := del_sorted hs (metaK table k)
    have hmvd : mview (del m (metaK table k)) t' table k = .mv fresh false := by
      unfold mview; rw [get_del m hs]; simp
    have hfreshd : ∀ g, get (del m (metaK table k)) (fieldK table k t' g) = none := by
      intro g
      rw [get_del m hs]
      have : fieldK table k t' g ≠ metaK table k := fun h => meta_ne_field table k k t' g h.symm
      simp [this, hfresh g]
    have A := C10_no_resurrection hs table k ok hi (hmv t' htt) (by simp [notExist]) hfresh f v hb nx
    have B := C10_no_resurrection hsd table k ok hi hmvd (by simp [notExist, fresh]) hfreshd f v hb nx
    refine ⟨by rw [A.1, B.1], fun now => ?_⟩
    obtain ⟨a1, _, a3, _, a5⟩ := A.2 now
    obtain ⟨b1, _, b3, _, b5⟩ := B.2 now
    exact ⟨fun g => by rw [a1 g, b1 g], by rw [a3, b3], by rw [a5, b5]⟩

/-- after `HSET h f 1 @wTs ; HEXPIRE h 1 @wTs` the hash expires at second 8; two seconds later it is dead -/
def wE : List KV := (hexpire wS1 wTs wTable wKey 1).1
def wLate : Int := 10000000000

/-- HDEL on a hash that is expired in log time works on the dead generation and answers what it removed (1); on the
    store without the key it answers 0 — `C10_hash_dead_after_expiry` is FALSE for HDEL (known finding
    C10-removers-see-expired-generation) -/
theorem C10_hash_dead_false_hdel :
    hscan wE wLate wTable wKey = .ok [] ∧
    (hdel wE wLate wTable wKey [[102]]).2 = .int 1 ∧
    (hdel (del wE (metaK wTable wKey)) wLate wTable wKey [[102]]).2 = .int 0 := by decide

/-- HCLEAR decides with the LOG time only (it used `HLen`, i.e. time.Now(), inside the apply path before the fix of
    DESIGN §0.2): its effect and reply are the same for every local clock -/
theorem C10_hclear_clock_independent (m : List KV) (now now' ts : Int) (table k : Bytes) :
    hclear m now ts table k = hclear m now' ts table k := rfl

/-- on the witness of the former finding: expired in log time ⇒ HCLEAR answers 0 and changes nothing, also when the
    local clock is still before the expiry -/
theorem C10_hash_dead_hclear_witness :
    hclear wE wTs wLate wTable wKey = (wE, .int 0) := by decide

/-- a hash that is live at time `t`: size meta with expiry second `e` (0 = none), generation `ver`, size `n > 0` -/
structure LiveHash (m : List KV) (table k : Bytes) (e : Nat) (ver : Int) (n : Int) (t : Int) : Prop where
  stored : get m (metaK table k) = some (encFixed e ver ++ be64 (toU64 n))
  elt : e < 4294967296
  vok : inI64 ver
  npos : 0 < n ∧ n < 9223372036854775808
  alive : Gen.isExpired (e : Int) t = false

theorem C10_aux_mview_live {m : List KV} {table k : Bytes} {e : Nat} {ver n t : Int} (L : LiveHash m table k e ver n t) :
    mview m t table k = .mv ⟨e, ver, some (be64 (toU64 n))⟩ false := by
  unfold mview
  rw [L.stored]
  simp only
  rw [decode_encFixed e ver _ L.elt, ofU64_toU64 L.vok]
  simp only [isExpired, L.alive]

/-- **visible before expiry; TTL value** (hash).  A live hash is read through its own generation `ver`: HGET reads
    the field key of that generation, HLEN is the stored size, the key exists, and HTTL answers the remaining whole
    seconds `e - ⌊t/1e9⌋ > 0` (or -1 without expiry). -/
theorem C10_hash_visible_before_expiry {m : List KV} {table k : Bytes} {e : Nat} {ver n t : Int}
    (L : LiveHash m table k e ver n t) (ht : 0 < t) :
    (∀ g, hget m t table k g = .ok ((get m (fieldK table k ver g)).map stripTs)) ∧
    hlenAt m t table k = .ok n ∧ hkeyexist m t table k = .ok 1 ∧
    httl m t table k = .ok (if e = 0 then -1 else (e : Int) - t / 1000000000) ∧
    (e ≠ 0 → 0 < (e : Int) - t / 1000000000) := by
  have hmv := C10_aux_mview_live L
  have hlv : liveVer m t table k = .ok (some ⟨e, ver, some (be64 (toU64 n))⟩) := by simp [liveVer, hmv, notExist]
  refine ⟨fun g => by simp [hget, hlv], ?_, by simp [hkeyexist, hlv], ?_, ?_⟩
  · simp only [hlenAt, hmv, Bool.false_eq_true, if_false]
    rw [sizeI_be64 n (by have := L.npos.1; omega) L.npos.2]
  · unfold httl
    rw [L.stored]
    simp only
    rw [decode_encFixed e ver _ L.elt]
    simp only
    by_cases he : e = 0
    · simp only [he, if_true]; rw [ttl_dead _ t ht (Or.inr rfl)]
    · simp only [he, if_false]
      rw [(ttl_live ⟨e, _, _⟩ t ht he L.alive).1]
  · intro he
    have := (live_iff e t ht).mp L.alive
    rcases this with h | h
    · exact absurd h he
    · omega

/-- **HEXPIRE / HPERSIST** on a hash that is live at log time `ts`: the expiry second `⌊ts/1e9⌋ + d` is stored exactly
    when it lies in `[0, 2^32 - 2)` — only the size meta changes, generation and size are kept —, an instant from
    `2^32 - 2` on is refused and nothing changes; HPERSIST stores "no expiry". -/
theorem C10_hash_expire_persist {m : List KV} {table k : Bytes} {e : Nat} {ver n ts : Int}
    (L : LiveHash m table k e ver n ts) (hts : 0 < ts) :
    (∀ d, 0 ≤ ts / 1000000000 + d → ts / 1000000000 + d < 4294967294 →
      hexpire m ts table k d =
        (put m (metaK table k) (encFixed (ts / 1000000000 + d).toNat ver ++ be64 (toU64 n)), .int 1)) ∧
    (∀ d, 4294967294 ≤ ts / 1000000000 + d → hexpire m ts table k d = (m, .err .expoverflow)) ∧
    hpersist m ts table k = (put m (metaK table k) (encFixed 0 ver ++ be64 (toU64 n)), .int 1) := by
  have hmv := C10_aux_mview_live L
  have hdiv : Int.tdiv ts 1000000000 = ts / 1000000000 := Int.tdiv_eq_ediv_of_nonneg (by omega)
  have henc : encode ⟨e, ver, some (be64 (toU64 n))⟩ = encFixed e ver ++ be64 (toU64 n) := by simp [encode]
  refine ⟨?_, ?_, ?_⟩
  · intro d h0 h1
    have hno : Gen.expOverflow (d + ts / 1000000000) = false := by
      cases hh : Gen.expOverflow (d + ts / 1000000000) with
      | false => rfl
      | true => have := (expOverflow_iff _).mp hh; omega
    have hu : u32 (d + ts / 1000000000) = (ts / 1000000000 + d).toNat := by unfold u32; omega
    simp only [hexpire, hexpireAt, hmv, notExist, Option.isNone_some, Bool.or_self, Bool.false_eq_true, if_false, henc, hdiv]
    rw [rawExpireAt_encFixed e ver _ _ L.elt, hno]
    simp [hu, ofU64_toU64 L.vok]
  · intro d hov
    have hyes : Gen.expOverflow (d + ts / 1000000000) = true := (expOverflow_iff _).mpr (by omega)
    simp only [hexpire, hexpireAt, hmv, notExist, Option.isNone_some, Bool.or_self, Bool.false_eq_true, if_false, henc, hdiv]
    rw [rawExpireAt_encFixed e ver _ _ L.elt, hyes]
    simp [Z.KVExec.eerr]
  · have hno : Gen.expOverflow 0 = false := by decide
    have hu0 : u32 0 = 0 := by decide
    simp only [hpersist, hexpireAt, hmv, notExist, Option.isNone_some, Bool.or_self, Bool.false_eq_true, if_false, henc]
    rw [rawExpireAt_encFixed e ver _ _ L.elt, hno]
    simp [hu0, ofU64_toU64 L.vok]

/-- `hSetField` on a hash that is live at log time `ts`: it answers an integer, and the size meta afterwards still
    carries the expiry second `e` and the generation `ver` (size + 1 for a new field, untouched for an existing one) -/
theorem C10_aux_hsetField_live {m : List KV} (hs : Sorted m) {table k : Bytes} {e : Nat} {ver n ts : Int}
    (L : LiveHash m table k e ver n ts) (f v : Bytes) (nx : Bool) :
    ∃ n' r, (n' = n ∨ n' = n + 1) ∧ (hsetField m ts nx table k f v).2 = .int r ∧
      get (hsetField m ts nx table k f v).1 (metaK table k) = some (encFixed e ver ++ be64 (toU64 n')) := by
  have hmv := C10_aux_mview_live L
  simp only [hsetField, hmv, prepare, notExist, Option.isNone_some, Bool.or_self, Bool.false_eq_true, if_false]
  cases hg : get m (fieldK table k ver f) with
  | some old =>
    refine ⟨n, 0, Or.inl rfl, ?_, ?_⟩
    · simp only; split <;> rfl
    · simp only
      split
      · exact L.stored
      · rw [get_put m hs]
        have : metaK table k ≠ fieldK table k ver f := meta_ne_field table k k ver f
        simp [this, L.stored]
  | none =>
    refine ⟨n + 1, 1, Or.inr rfl, rfl, ?_⟩
    have hsz : sizeI (some (be64 (toU64 n))) = n := sizeI_be64 n (by have := L.npos.1; omega) L.npos.2
    have hpos : ¬ (n + 1 ≤ 0) := by have := L.npos.1; omega
    simp only [hIncrSize, hsz, hpos, if_false]
    rw [get_put _ (put_sorted hs _ _), get_put m hs]
    have : metaK table k ≠ fieldK table k ver f := meta_ne_field table k k ver f
    simp [this, encode]

/-- **modifying keeps, clearing clears** (hash).  HSET / HSETNX on a hash that is live at log time `ts` keep its expiry
    second `e` and its generation `ver` (the size meta is rewritten with size + 1 for a new field, untouched for an
    overwrite); HCLEAR (read clock also before the expiry) deletes the size meta and nothing else, so the next write
    starts a generation without expiry (`C10_no_resurrection`). -/
theorem C10_hash_modify_keeps_clear_clears {m : List KV} (hs : Sorted m) {table k : Bytes} {e : Nat} {ver n ts : Int}
    (L : LiveHash m table k e ver n ts) :
    (∀ (f v : Bytes) (nx : Bool), tooBig v = false →
      ∃ n', (n' = n ∨ n' = n + 1) ∧
        get (hset m ts nx table k f v).1 (metaK table k) = some (encFixed e ver ++ be64 (toU64 n'))) ∧
    (∀ now, Gen.isExpired (e : Int) now = false → hclear m now ts table k = (del m (metaK table k), .int 1)) := by
  have hmv := C10_aux_mview_live L
  refine ⟨?_, ?_⟩
  · intro f v nx hb
    obtain ⟨n', _, hn', _, hg⟩ := C10_aux_hsetField_live hs L f v nx
    refine ⟨n', hn', ?_⟩
    simp only [hset, hb, Bool.false_eq_true, if_false]
    exact hg
  · intro now hnow
    have L' : LiveHash m table k e ver n now := { L with alive := hnow }
    have hmv' := C10_aux_mview_live L'
    have hsz : sizeI (some (be64 (toU64 n))) = n := sizeI_be64 n (by have := L.npos.1; omega) L.npos.2
    have hn0 : (n == 0) = false := by have := L.npos.1; simp; omega
    simp [hclear, hlenAt, hmv, hsz, hn0, notExist]

/-- **HINCRBY on a live hash keeps generation and expiry**.  On a hash that is live at log time `ts`, HINCRBY works on
    the field key of the LIVE generation `ver` (old value = that field's value without its modification time; missing
    = 0); it either answers an error and leaves the store untouched, or answers an integer and the size meta still
    carries the expiry second `e` and the generation `ver` (size + 1 for a new field): an increment never renews and
    never drops the TTL of unexpired data. -/
theorem C10_hincrby_live_keeps {m : List KV} (hs : Sorted m) {table k : Bytes} {e : Nat} {ver n ts : Int}
    (L : LiveHash m table k e ver n ts) (f : Bytes) (d : Int) :
    hincrby m ts table k f d = hincrFinish m ts table k f d (get m (fieldK table k ver f)) ∧
    ((∃ err, (hincrby m ts table k f d).2 = .err err ∧ (hincrby m ts table k f d).1 = m) ∨
     (∃ r n', (hincrby m ts table k f d).2 = .int r ∧ (n' = n ∨ n' = n + 1) ∧
        get (hincrby m ts table k f d).1 (metaK table k) = some (encFixed e ver ++ be64 (toU64 n')))) := by
  have hmv := C10_aux_mview_live L
  have hl := hincrby_live table k f ts d _ _ hmv (by simp [notExist])
  refine ⟨hl, ?_⟩
  rw [hl]
  unfold hincrFinish
  simp only
  split
  · exact Or.inl ⟨_, rfl, rfl⟩
  · exact Or.inl ⟨_, rfl, rfl⟩
  · rename_i c _
    obtain ⟨n', r, hn', hr, hg⟩ := C10_aux_hsetField_live hs L f (fmtInt (wrap64 (c + d))) Gen.hincrCheckNX
    generalize hsf : hsetField m ts Gen.hincrCheckNX table k f (fmtInt (wrap64 (c + d))) = res at hr hg
    obtain ⟨m', rep⟩ := res
    simp only at hr hg
    subst hr
    exact Or.inr ⟨_, n', rfl, hn', hg⟩

/-- **dead after expiry, HINCRBY**.  The size meta holds an expiry second `e ≠ 0` with `e ≤ ⌊t/1e9⌋`.  Then at every log
    time `t' ≥ t` — under the hypothesis of `C10_no_resurrection` for the new version `t'` — `HINCRBY key f d` answers
    `d` (the expired value of `f` is NOT the base of the increment), exactly as on the store without the size meta, and
    afterwards every reader sees the one field `f = d` of a new generation without TTL. -/
theorem C10_hincrby_dead_after_expiry {m : List KV} (hs : Sorted m) (table k : Bytes) (ok : KeyOk table k)
    {e : Nat} {ver : Int} {user : Bytes} (hmeta : get m (metaK table k) = some (encFixed e ver ++ user))
    (he : e < 4294967296) (he0 : e ≠ 0) {t t' : Int} (ht : 0 < t) (hexp : (e : Int) ≤ t / 1000000000) (htt : t ≤ t')
    (hi : inI64 t') (hfresh : ∀ g, get m (fieldK table k t' g) = none) (f : Bytes) (d : Int) (hd : inI64 d) :
    (hincrby m t' table k f d).2 = .int d ∧
    (hincrby (del m (metaK table k)) t' table k f d).2 = .int d ∧
    ∀ now,
      (∀ g, hget (hincrby m t' table k f d).1 now table k g = .ok (if g = f then some (fmtInt d) else none)) ∧
      hlenAt (hincrby m t' table k f d).1 now table k = .ok 1 ∧
      httl (hincrby m t' table k f d).1 now table k = .ok (-1) := by
  have hx : isExpired ⟨e, ofU64 (toU64 ver), some user⟩ t' = true :=
    (isExpired_iff _ t' (by omega)).mpr ⟨he0, by
      have : t / 1000000000 ≤ t' / 1000000000 := Int.ediv_le_ediv (by decide) htt
      show (e : Int) ≤ t' / 1000000000
      omega⟩
  have hmv : mview m t' table k = .mv ⟨e, ofU64 (toU64 ver), some user⟩ true := by
    unfold mview
    rw [hmeta]
    simp only
    rw [decode_encFixed e ver user he]
    simp only [hx]
  have hsd := del_sorted hs (metaK table k)
  have hmvd : mview (del m (metaK table k)) t' table k = .mv fresh false := by
    unfold mview; rw [get_del m hs]; simp
  have hfreshd : ∀ g, get (del m (metaK table k)) (fieldK table k t' g) = none := by
    intro g
    rw [get_del m hs]
    have : fieldK table k t' g ≠ metaK table k := fun h => meta_ne_field table k k t' g h.symm
    simp [this, hfresh g]
  have A := C10_hincrby_no_resurrection hs table k ok hi hmv (by simp [notExist]) hfresh f d hd
  have B := C10_hincrby_no_resurrection hsd table k ok hi hmvd (by simp [notExist, fresh]) hfreshd f d hd
  refine ⟨A.1, B.1, fun now => ?_⟩
  obtain ⟨a1, _, a3, _, a5⟩ := A.2 now
  exact ⟨a1, a3, a5⟩

/-! #### equal log timestamps and HINCRBY: the fresh-version hypothesis is needed here too -/

/-- on the cleared hash `wS2` (dead; its stale field `f = "1"` of version `wTs` still stored), at the SAME log timestamp:
    `HINCRBY h g 5` answers 5 and re-creates the hash with the version it already had — HGETALL shows the stale field
    again while HLEN = 1; `HINCRBY h f 5` on the stale field itself answers 5 (base 0, correct) but finds the stale field
    key, so no size meta is written: the increment is stored and INVISIBLE (HLEN 0, HGETALL empty).  Same known finding as
    `C10_equal_ts_witness` (generation = log timestamp). -/
theorem C10_equal_ts_witness_hincrby :
    (hincrby wS2 wTs wTable wKey [103] 5).2 = .int 5 ∧
    hscan (hincrby wS2 wTs wTable wKey [103] 5).1 1 wTable wKey = .ok [([102], [49]), ([103], [53])] ∧
    hlenAt (hincrby wS2 wTs wTable wKey [103] 5).1 1 wTable wKey = .ok 1 ∧
    (hincrby wS2 wTs wTable wKey [102] 5).2 = .int 5 ∧
    hscan (hincrby wS2 wTs wTable wKey [102] 5).1 1 wTable wKey = .ok [] ∧
    hlenAt (hincrby wS2 wTs wTable wKey [102] 5).1 1 wTable wKey = .ok 0 := by decide

/-! ### non-vacuity: the hypotheses instantiated on concrete stores of the executable model -/

theorem C10_aux_key_ok : KeyOk wTable wKey := ⟨by decide, by decide⟩
theorem C10_aux_in1 : inI64 wTs := by unfold inI64 wTs; omega
theorem C10_aux_in2 : inI64 7000000001 := by unfold inI64; omega
theorem C10_aux_wS2_eq : wS2 = [(fieldK wTable wKey wTs [102], [49] ++ be64 (toU64 wTs))] := by decide

/-- the cleared hash `wS2`, written again ONE NANOSECOND LATER (version 7000000001 ≠ 7000000000): the stale field
    stays invisible — `C10_no_resurrection` with all hypotheses discharged -/
example : hget (hset wS2 7000000001 false wTable wKey [103] [50]).1 1 wTable wKey [102] = .ok none := by
  have hs : Sorted wS2 := by rw [C10_aux_wS2_eq]; trivial
  have hfresh : ∀ g, get wS2 (fieldK wTable wKey 7000000001 g) = none := by
    intro g
    rw [C10_aux_wS2_eq]
    have hne : fieldK wTable wKey wTs [102] ≠ fieldK wTable wKey 7000000001 g := fun h =>
      absurd (field_inj wTable wKey wTs 7000000001 [102] g C10_aux_key_ok.ht C10_aux_key_ok.hk C10_aux_in1 C10_aux_in2 h).1 (by decide)
    simp [Z.Ref.get, hne]
  have h := C10_no_resurrection hs wTable wKey C10_aux_key_ok (ts := 7000000001) C10_aux_in2 (h := fresh) (ex := false) (by decide) (by decide)
    hfresh [103] [50] (by decide) false
  have := (h.2 1).1 [102]
  simpa using this

/-- the expired hash `wE` at `wLate`: reads answer as for an absent key, HEXPIRE answers 0 -/
example : hlenAt wE wLate wTable wKey = .ok 0 ∧ hexpire wE wLate wTable wKey 5 = (wE, .int 0) := by
  have hs : Sorted wE := by
    have : wE = [(fieldK wTable wKey wTs [102], [49] ++ be64 (toU64 wTs)), (metaK wTable wKey, encFixed 8 wTs ++ be64 (toU64 1))] := by
      decide
    rw [this]; exact ⟨by decide, trivial⟩
  have h := C10_hash_dead_after_expiry_partial hs wTable wKey C10_aux_key_ok (e := 8) (ver := wTs) (user := be64 (toU64 1)) (by decide)
    (by decide) (by decide) (t := wLate) (t' := wLate) (by decide) (by decide) (by decide)
  exact ⟨h.1.2.2.1, h.2.1.1 5⟩

/-- `wS1` is a live hash (no expiry, generation `wTs`, one field) -/
theorem C10_aux_wS1_live : LiveHash wS1 wTable wKey 0 wTs 1 wTs := ⟨by decide, by decide, C10_aux_in1, by decide, by decide⟩

example : hlenAt wS1 wTs wTable wKey = .ok 1 ∧ httl wS1 wTs wTable wKey = .ok (-1) :=
  let h := C10_hash_visible_before_expiry C10_aux_wS1_live (by decide)
  ⟨h.2.1, h.2.2.2.1⟩
example : (hexpire wS1 wTs wTable wKey 3).2 = .int 1 ∧ (hexpire wS1 wTs wTable wKey 5000000000).2 = .err .expoverflow := by
  have h := C10_hash_expire_persist C10_aux_wS1_live (by decide)
  exact ⟨by rw [h.1 3 (by decide) (by decide)], by rw [h.2.1 5000000000 (by decide)]⟩
example : hclear wS1 1 wTs wTable wKey = (del wS1 (metaK wTable wKey), .int 1) :=
  (C10_hash_modify_keeps_clear_clears (by
    have : wS1 = [(fieldK wTable wKey wTs [102], [49] ++ be64 (toU64 wTs)), (metaK wTable wKey, encFixed 0 wTs ++ be64 (toU64 1))] := by
      decide
    rw [this]; exact ⟨by decide, trivial⟩) C10_aux_wS1_live).2 1 (by decide)


/-! #### HINCRBY: the hypotheses instantiated -/

/-- the cleared hash `wS2` still stores `f = "1"` of version `wTs`; `HINCRBY h f 5` ONE NANOSECOND LATER answers 5 (not 6)
    and the new generation holds exactly `f = "5"` — `C10_hincrby_no_resurrection` with all hypotheses discharged -/
example : (hincrby wS2 7000000001 wTable wKey [102] 5).2 = .int 5 ∧
    hget (hincrby wS2 7000000001 wTable wKey [102] 5).1 1 wTable wKey [102] = .ok (some [53]) ∧
    hlenAt (hincrby wS2 7000000001 wTable wKey [102] 5).1 1 wTable wKey = .ok 1 := by
  have hs : Sorted wS2 := by rw [C10_aux_wS2_eq]; trivial
  have hfresh : ∀ g, get wS2 (fieldK wTable wKey 7000000001 g) = none := by
    intro g
    rw [C10_aux_wS2_eq]
    have hne : fieldK wTable wKey wTs [102] ≠ fieldK wTable wKey 7000000001 g := fun h =>
      absurd (field_inj wTable wKey wTs 7000000001 [102] g C10_aux_key_ok.ht C10_aux_key_ok.hk C10_aux_in1 C10_aux_in2 h).1 (by decide)
    simp [Z.Ref.get, hne]
  have h := C10_hincrby_no_resurrection hs wTable wKey C10_aux_key_ok (ts := 7000000001) C10_aux_in2 (h := fresh) (ex := false)
    (by decide) (by decide) hfresh [102] 5 (by unfold inI64; omega)
  have h1 := (h.2 1).1 [102]
  have h5 : fmtInt 5 = [53] := by decide
  rw [if_pos rfl, h5] at h1
  exact ⟨h.1, h1, (h.2 1).2.2.1⟩

theorem C10_aux_wE_eq :
    wE = [(fieldK wTable wKey wTs [102], [49] ++ be64 (toU64 wTs)), (metaK wTable wKey, encFixed 8 wTs ++ be64 (toU64 1))] := by
  decide

/-- the expired hash `wE` (`f = "1"`, expiry second 8) at `wLate` (second 10): `HINCRBY h f 5` answers 5, and the hash is a
    new generation without TTL — `C10_hincrby_dead_after_expiry` with all hypotheses discharged -/
example : (hincrby wE wLate wTable wKey [102] 5).2 = .int 5 ∧
    httl (hincrby wE wLate wTable wKey [102] 5).1 wLate wTable wKey = .ok (-1) := by
  have hs : Sorted wE := by rw [C10_aux_wE_eq]; exact ⟨by decide, trivial⟩
  have hin : inI64 wLate := by unfold inI64 wLate; omega
  have hfresh : ∀ g, get wE (fieldK wTable wKey wLate g) = none := by
    intro g
    rw [C10_aux_wE_eq]
    have hne : fieldK wTable wKey wTs [102] ≠ fieldK wTable wKey wLate g := fun h =>
      absurd (field_inj wTable wKey wTs wLate [102] g C10_aux_key_ok.ht C10_aux_key_ok.hk C10_aux_in1 hin h).1 (by decide)
    have hne2 : metaK wTable wKey ≠ fieldK wTable wKey wLate g := meta_ne_field wTable wKey wKey wLate g
    simp [Z.Ref.get, hne, hne2]
  have h := C10_hincrby_dead_after_expiry hs wTable wKey C10_aux_key_ok (e := 8) (ver := wTs) (user := be64 (toU64 1))
    (by rw [C10_aux_wE_eq]; decide) (by decide) (by decide) (t := wLate) (t' := wLate) (by decide) (by decide) (by decide)
    hin hfresh [102] 5 (by unfold inI64; omega)
  exact ⟨h.1, (h.2.2 wLate).2.2⟩

/-- on the live hash `wS1` (`f = "1"`): `HINCRBY h f 5` reads the live field (answers 6) and keeps generation `wTs`;
    on a live hash whose field is not an integer the answer is an error and the store is untouched -/
example : (hincrby wS1 wTs wTable wKey [102] 5).2 = .int 6 ∧
    hincrby (hset [] wTs false wTable wKey [102] [118]).1 wTs wTable wKey [102] 5 =
      ((hset [] wTs false wTable wKey [102] [118]).1, .err .notint) := by decide

example : hincrby wS1 wTs wTable wKey [102] 5 = hincrFinish wS1 wTs wTable wKey [102] 5 (get wS1 (fieldK wTable wKey wTs [102])) :=
  (C10_hincrby_live_keeps (by
    have : wS1 = [(fieldK wTable wKey wTs [102], [49] ++ be64 (toU64 wTs)), (metaK wTable wKey, encFixed 0 wTs ++ be64 (toU64 1))] := by
      decide
    rw [this]; exact ⟨by decide, trivial⟩) C10_aux_wS1_live [102] 5).1

end Z.Props.C10Hash
