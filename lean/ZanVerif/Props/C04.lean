/-
  C04 — acknowledged writes are totally ordered and never lost.
  Property theorems only.  The statement is about recorded executions of the real 3-replica namespace:
  the driver of protocol `lin` answers "ok" exactly when `Z.LinCert.checkCert` returned true on the
  recorded history, the per-replica apply traces (apply hook) and the offered order (raft index order);
  the theorems say what that acceptance means, for every history, trace set and order.
-/
import ZanVerif.Node.LinCert
import ZanVerif.Node.CrashCert

namespace Z.Props.C04
open Z.Lin Z.LinSpec Z.LinCert

/-- the generic certificate checker is sound for the command specification the harness uses -/
theorem C04_checkLin_sound (H L : List R) (h : checkLin step ([] : Store) H L = true) :
    Lin step ([] : Store) H :=
  checkLin_sound step [] H L h

example : Lin step ([] : Store) exH := C04_checkLin_sound exH exL (by decide)

/-- acceptance of a recorded run: replicas agree on common indexes and never carry one operation at two
    indexes, every replica applies increasing indexes between restores, every applied operation is in the
    order, the order is the raft index order, and the history is linearizable w.r.t. `LinSpec.step` -/
theorem C04_certificate_sound (H : List R) (traces : List (List Ev)) (L : List R)
    (h : checkCert H traces L = true) : Accepted H traces L :=
  checkCert_sound H traces L h

example : Accepted exH exT exL := C04_certificate_sound exH exT exL (by decide)

/-- what linearizability gives for the answered operations: one duplicate-free order containing all of
    them, in which no operation precedes one that had finished before it was invoked, and whose sequential
    replay from the empty store returns every reply that was given (the final dump of every replica is an
    answered `dump` operation invoked after all others: acknowledged writes are in it) -/
theorem C04_acked_totally_ordered_never_lost (H : List R) (h : Lin step ([] : Store) H) :
    ∃ L : List R, (L.map (·.id)).Nodup ∧ (∀ x ∈ H, x.res.isSome → x ∈ L) ∧
      L.Pairwise (fun a b => ¬ finishedBefore b a) ∧ Replay step ([] : Store) L := by
  obtain ⟨L, h1, _, h3, h4, h5⟩ := h
  exact ⟨L, h1, h3, h4, h5⟩

example : ∃ L : List R, (L.map (·.id)).Nodup ∧ (∀ x ∈ exH, x.res.isSome → x ∈ L) ∧
    L.Pairwise (fun a b => ¬ finishedBefore b a) ∧ Replay step ([] : Store) L :=
  C04_acked_totally_ordered_never_lost exH (C04_checkLin_sound exH exL (by decide))

/-- replicas never apply different entries at the same index, in any accepted run -/
theorem C04_replicas_agree (H : List R) (traces : List (List Ev)) (L : List R)
    (h : checkCert H traces L = true) :
    (allApps traces).Pairwise (fun a b => a.index = b.index → a = b) :=
  (checkCert_sound H traces L h).agree.imp (fun hab => hab.1)

example : (allApps exT).Pairwise (fun a b => a.index = b.index → a = b) :=
  C04_replicas_agree exH exT exL (by decide)

/-- the checker does reject: a reply that no order explains, a lost applied operation, diverging
    replicas, a double apply and a final state missing an acknowledged write are all refused -/
theorem C04_checker_rejects :
    checkCert exH exT [exH[1], exH[0], exH[2], exH[3], exH[4]] = false ∧
    checkCert exH exT [exH[0], exH[1], exH[2], exH[4]] = false ∧
    checkCert exH ([.app ⟨6, 2, [1], 0⟩] :: exT) exL = false ∧
    checkCert exH ([.app ⟨6, 2, [2], 0⟩, .app ⟨6, 2, [2], 0⟩] :: exT) exL = false := by decide

/-! ### kill -9 in the middle of a history (protocol `crash`, 3-process runs with `killat`)

One client writes to the leader of a real 3-process group; one replica (the leader or a follower) is killed with
SIGKILL in the middle of the history, the client goes on (with the new leader), the victim comes back; after the group
has settled EVERY replica is dumped.  The driver answers "ok" exactly when `CrashCert.checkCrash` accepts every dump. -/

/-- every replica of an accepted run serves the sequential replay of ONE sub-sequence of the writes in the order
    sent (each write at most once, nothing that was never sent) that contains every acknowledged write, and along it
    every acknowledged reply is the specified one -/
theorem C04_kill9_acked_never_lost (ws : List Z.CrashCert.W) (ds : List Store)
    (h : ∀ d ∈ ds, Z.CrashCert.checkCrash ws d = true) :
    ∀ d ∈ ds, ∃ l : List Z.CrashCert.W, run [] (l.map (·.op)) = d ∧ l.Sublist ws ∧
      (∀ w ∈ ws, w.st = .ack → w ∈ l) :=
  fun d hd => Z.CrashCert.recovered_has_acked (Z.CrashCert.checkCrash_sound ws d (h d hd))

example : ∀ d ∈ [[(0, Val.str 1001), (3, Val.set [4])], [(0, Val.str 1002), (2, Val.list [3]), (3, Val.set [4])]],
    ∃ l : List Z.CrashCert.W, run [] (l.map (·.op)) = d ∧ l.Sublist Z.CrashCert.exW ∧
      (∀ w ∈ Z.CrashCert.exW, w.st = .ack → w ∈ l) :=
  C04_kill9_acked_never_lost _ _ (by decide)

end Z.Props.C04
