/-
  C08 — commands behave like redis on per-type keyspaces (hash slice).
  Refinement of the storage-level hash (`Z.HashInv` over the sorted reference store) to the plain redis
  hash `key → field → value` (`Z.HashRef`): HGET reads the abstraction, HSET / HDEL answer what redis
  answers and commute with the abstraction; the size meta never shows through. Codec abstracted by the
  facts C12 proves. Other types and commands: differential / oracle only (see evidence).
-/
import ZanVerif.Data.HashRef
import ZanVerif.Data.HashReal

namespace Z.Props.C08

theorem C08_hget_refines (E : Z.HashInv.Enc) (m : List Z.Ref.KV) (k f : Z.Ref.Bytes) :
    Z.HashRef.hget E m k f = Z.HashRef.abs E m k f := Z.HashRef.hget_refines E m k f

theorem C08_hset_reply_refines (E : Z.HashInv.Enc) (m : List Z.Ref.KV) (k f : Z.Ref.Bytes) :
    Z.HashRef.hsetReply E m k f = if (Z.HashRef.abs E m k f).isNone then 1 else 0 :=
  Z.HashRef.hset_reply_refines E m k f

theorem C08_abs_hset (E : Z.HashInv.Enc) {m : List Z.Ref.KV} (hs : Z.Ref.Sorted m) (k f v : Z.Ref.Bytes) :
    Z.HashRef.abs E (Z.HashInv.hset E m k f v) = Z.HashRef.specSet (Z.HashRef.abs E m) k f v :=
  Z.HashRef.abs_hset E hs k f v

theorem C08_abs_hdel (E : Z.HashInv.Enc) {m : List Z.Ref.KV} (hs : Z.Ref.Sorted m) (k f : Z.Ref.Bytes) :
    Z.HashRef.abs E (Z.HashInv.hdel E m k f) = Z.HashRef.specDel (Z.HashRef.abs E m) k f :=
  Z.HashRef.abs_hdel E hs k f

end Z.Props.C08

/-! ### tie of the abstract hash model to the executable one and to the real codec -/

namespace Z.Props.C08
open Z.HashExec

/-- the executable functions that the `datacore` correspondence runs against the real store are, for every
    codec `E` satisfying the abstract facts, literally the functions the theorems above talk about -/
theorem C08_exec_is_model (E : Z.HashInv.Enc) :
    hset (ofEnc E) = Z.HashInv.hset E ∧ hdel (ofEnc E) = Z.HashInv.hdel E ∧
    hget (ofEnc E) = Z.HashRef.hget E ∧ hlen (ofEnc E) = Z.HashInv.hlen E ∧
    hsetReply (ofEnc E) = Z.HashRef.hsetReply E ∧ hdelReply (ofEnc E) = Z.HashRef.hdelReply E :=
  ⟨rfl, rfl, rfl, rfl, rfl, rfl⟩

end Z.Props.C08

namespace Z.Props.C08

/-- … and the REAL hash key codec (the encoders of `Z.Codec`, compared byte for byte with rockredis by
    C12's run) satisfies every abstract codec fact for key parts that fit the 2-byte length field -/
theorem C08_real_codec_facts (table k k' f f' x : List UInt8) (hk : k.length < 65536) (hk' : k'.length < 65536) :
    ((Z.HashExec.realFns table).fieldK k f = (Z.HashExec.realFns table).fieldK k' f' → k = k' ∧ f = f') ∧
    ((Z.HashExec.realFns table).metaK k = (Z.HashExec.realFns table).metaK k' → k = k') ∧
    ((Z.HashExec.realFns table).metaK k ≠ (Z.HashExec.realFns table).fieldK k' f) ∧
    (((Z.HashExec.realFns table).start k ≤ x ∧ x < (Z.HashExec.realFns table).stop k) ↔
      ∃ g, x = (Z.HashExec.realFns table).fieldK k g) :=
  ⟨Z.HashReal.field_inj table k f k' f' hk hk', Z.HashReal.meta_inj table k k',
   Z.HashReal.meta_ne_field table k k' f, Z.HashReal.range_iff table k x⟩

end Z.Props.C08
