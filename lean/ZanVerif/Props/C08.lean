/-
  C08 — commands behave like redis on per-type keyspaces (hash slice).
  Refinement of the storage-level hash (`Z.HashInv` over the sorted reference store) to the plain redis
  hash `key → field → value` (`Z.HashRef`): HGET reads the abstraction, HSET / HDEL answer what redis
  answers and commute with the abstraction; the size meta never shows through. Codec abstracted by the
  facts C12 proves. Other types and commands: differential / oracle only (see evidence).
-/
import ZanVerif.Data.HashRef

namespace Z.Props.C08

theorem C08_hget_refines (E : Z.HashInv.Enc) (m : List Z.Ref.KV) (k f : Z.Ref.Bytes) :
    Z.HashRef.hget E m k f = Z.HashRef.abs E m k f := Z.HashRef.hget_refines E m k f

theorem C08_hset_reply_refines (E : Z.HashInv.Enc) (m : List Z.Ref.KV) (k f : Z.Ref.Bytes) :
    Z.HashRef.hsetReply E m k f = if (Z.HashRef.abs E m k f).isNone then 1 else 0 :=
  Z.HashRef.hset_reply_refines E m k f

theorem C08_abs_hset (E : Z.HashInv.Enc) {m : List Z.Ref.KV} (hs : Z.Ref.Sorted m) (k f v : Z.Ref.Bytes) :
    Z.HashRef.abs E (Z.HashInv.hset E m k f v) = Z.HashRef.specSet (Z.HashRef.abs E m) k f v :=
  Z.HashRef.abs_hset E hs k f v

theorem C08_abs_hdel (E : Z.HashInv.Enc) {m : List Z.Ref.KV} (hs : Z.Ref.Sorted m) (k f : Z.Ref.Bytes) :
    Z.HashRef.abs E (Z.HashInv.hdel E m k f) = Z.HashRef.specDel (Z.HashRef.abs E m) k f :=
  Z.HashRef.abs_hdel E hs k f

end Z.Props.C08
