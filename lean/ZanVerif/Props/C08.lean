/-
  C08 — commands behave like redis on per-type keyspaces (hash slice).
  Refinement of the storage-level hash (`Z.HashInv` over the sorted reference store) to the plain redis
  hash `key → field → value` (`Z.HashRef`): HGET reads the abstraction, HSET / HDEL answer what redis
  answers and commute with the abstraction; the size meta never shows through. Codec abstracted by the
  facts C12 proves. HINCRBY (`Z.HashIncr`, mirrors rockredis HIncrBy): under the size invariant it is the
  specification's "field := old + delta, reply the new value, nothing else touched" up to the one stated
  deviation (int64 wrap-around, witness `C08_dev_hincrby_wraps`). Other types: Props/C08KV, C08Set, C08List, C08ZSet.
-/
import ZanVerif.Data.HashRef
import ZanVerif.Data.HashReal
import ZanVerif.Data.HashToy
import ZanVerif.Gen.HIncrShape

namespace Z.Props.C08

theorem C08_hget_refines (E : Z.HashInv.Enc) (m : List Z.Ref.KV) (k f : Z.Ref.Bytes) :
    Z.HashRef.hget E m k f = Z.HashRef.abs E m k f := Z.HashRef.hget_refines E m k f

theorem C08_hset_reply_refines (E : Z.HashInv.Enc) (m : List Z.Ref.KV) (k f : Z.Ref.Bytes) :
    Z.HashRef.hsetReply E m k f = if (Z.HashRef.abs E m k f).isNone then 1 else 0 :=
  Z.HashRef.hset_reply_refines E m k f

theorem C08_abs_hset (E : Z.HashInv.Enc) {m : List Z.Ref.KV} (hs : Z.Ref.Sorted m) (k f v : Z.Ref.Bytes) :
    Z.HashRef.abs E (Z.HashInv.hset E m k f v) = Z.HashRef.specSet (Z.HashRef.abs E m) k f v :=
  Z.HashRef.abs_hset E hs k f v

theorem C08_abs_hdel (E : Z.HashInv.Enc) {m : List Z.Ref.KV} (hs : Z.Ref.Sorted m) (k f : Z.Ref.Bytes) :
    Z.HashRef.abs E (Z.HashInv.hdel E m k f) = Z.HashRef.specDel (Z.HashRef.abs E m) k f :=
  Z.HashRef.abs_hdel E hs k f

end Z.Props.C08

/-! ### tie of the abstract hash model to the executable one and to the real codec -/

namespace Z.Props.C08
open Z.HashExec

/-- the executable functions that the `datacore` correspondence runs against the real store are, for every
    codec `E` satisfying the abstract facts, literally the functions the theorems above talk about -/
theorem C08_exec_is_model (E : Z.HashInv.Enc) :
    hset (ofEnc E) = Z.HashInv.hset E ∧ hdel (ofEnc E) = Z.HashInv.hdel E ∧
    hget (ofEnc E) = Z.HashRef.hget E ∧ hlen (ofEnc E) = Z.HashInv.hlen E ∧
    hsetReply (ofEnc E) = Z.HashRef.hsetReply E ∧ hdelReply (ofEnc E) = Z.HashRef.hdelReply E :=
  ⟨rfl, rfl, rfl, rfl, rfl, rfl⟩

end Z.Props.C08

namespace Z.Props.C08

/-- … and the REAL hash key codec (the encoders of `Z.Codec`, compared byte for byte with rockredis by
    C12's run) satisfies every abstract codec fact for key parts that fit the 2-byte length field -/
theorem C08_real_codec_facts (table k k' f f' x : List UInt8) (hk : k.length < 65536) (hk' : k'.length < 65536) :
    ((Z.HashExec.realFns table).fieldK k f = (Z.HashExec.realFns table).fieldK k' f' → k = k' ∧ f = f') ∧
    ((Z.HashExec.realFns table).metaK k = (Z.HashExec.realFns table).metaK k' → k = k') ∧
    ((Z.HashExec.realFns table).metaK k ≠ (Z.HashExec.realFns table).fieldK k' f) ∧
    (((Z.HashExec.realFns table).start k ≤ x ∧ x < (Z.HashExec.realFns table).stop k) ↔
      ∃ g, x = (Z.HashExec.realFns table).fieldK k g) :=
  ⟨Z.HashReal.field_inj table k f k' f' hk hk', Z.HashReal.meta_inj table k k',
   Z.HashReal.meta_ne_field table k k' f, Z.HashReal.range_iff table k x⟩

end Z.Props.C08

/-! ### HINCRBY -/

namespace Z.Props.C08
open Z.HashIncr

/-- **HINCRBY refines the reference map.**  Under the size invariant (C09) and when the exact sum fits int64: the reply
    and the abstraction after the command are the specification's — a missing field counts as 0, the field becomes the
    decimal text of old + delta and that number is the reply, every other field and key is untouched (`specSet`), and a
    field whose value is not an integer text answers the error and changes nothing. -/
theorem C08_abs_hincrby (E : Z.HashInv.Enc) {m : List Z.Ref.KV} (inv : Z.HashInv.Inv E m) (k f : Z.Ref.Bytes) (d : Int)
    (hw : NoWrap (Z.HashRef.abs E m) k f d) :
    (Z.HashRef.abs E (hincrby E m k f d).1, (hincrby E m k f d).2) = specIncr (Z.HashRef.abs E m) k f d :=
  abs_hincrby E inv k f d hw

/-- every other (key, field) is left alone — unconditionally (wrap-around or error included) -/
theorem C08_hincrby_frame (E : Z.HashInv.Enc) {m : List Z.Ref.KV} (hs : Z.Ref.Sorted m) (k f : Z.Ref.Bytes) (d : Int)
    (k' f' : Z.Ref.Bytes) (hne : ¬ (k' = k ∧ f' = f)) :
    Z.HashRef.abs E (hincrby E m k f d).1 k' f' = Z.HashRef.abs E m k' f' := hincrby_frame E hs k f d k' f' hne

/-- the command as the apply handler runs it on the raw increment argument: an increment text that
    strconv.ParseInt(·, 10, 64) accepts runs HINCRBY with that number; any other answers notint / numrange and leaves the
    store as it was -/
theorem C08_hincrby_cmd (E : Z.HashInv.Enc) (m : List Z.Ref.KV) (k f dtxt : Z.Ref.Bytes) :
    (∀ d, Z.KVExec.parseInt dtxt = .ok d → hincrbyCmd E m k f dtxt = hincrby E m k f d) ∧
    (Z.KVExec.parseInt dtxt = .syntax → hincrbyCmd E m k f dtxt = (m, .err .notint)) ∧
    (Z.KVExec.parseInt dtxt = .range → hincrbyCmd E m k f dtxt = (m, .err .numrange)) := by
  refine ⟨fun d h => hincrbyCmd_ok E m k f dtxt d h, fun h => ?_, fun h => ?_⟩ <;>
    (unfold hincrbyCmd cmdWith; rw [h])

/-- the executable HINCRBY that the `datacore` correspondence runs is, for every codec satisfying the abstract facts,
    literally the function the theorems above talk about -/
theorem C08_exec_hincrby_is_model (E : Z.HashInv.Enc) :
    Z.HashExec.hincrby (Z.HashExec.ofEnc E) = hincrby E ∧ Z.HashExec.hincrbyCmd (Z.HashExec.ofEnc E) = hincrbyCmd E :=
  ⟨rfl, rfl⟩

/-- the model's `parseInt` is `strconv.ParseInt(·, 10, 64)`: base and bit size REGENERATED from `StrInt64`
    (rockredis/util.go) and `localHIncrbyCommand` (node/hash.go); HINCRBY writes with checkNX = false; the sum is the
    plain int64 `n += delta` between the parse block and the one `hSetField` call (Gen/HIncrShape) -/
theorem C08_hincrby_pinned :
    Gen.cStrInt64Base = 10 ∧ Gen.cStrInt64Bits = 64 ∧ Gen.cHIncrDeltaBase = 10 ∧ Gen.cHIncrDeltaBits = 64 ∧
    Gen.hincrCheckNX = false ∧ Gen.hincrParseBeforeWrite = true ∧ Gen.hincrAddWraps = true ∧
    Gen.hincrDeltaParsedFirst = true := by
  decide

def wT : List UInt8 := [116]      -- "t"
def wK : List UInt8 := [104]      -- "h"
def wF : List UInt8 := [102]      -- "f"
/-- HSET h f 9223372036854775807 on the empty store, with the REAL key codec -/
def wMax : List Z.Ref.KV := Z.HashExec.hset (Z.HashExec.realFns wT) [] wK wF (Z.KVExec.fmtInt 9223372036854775807)

/-- DEVIATION (stated, not claimed as redis behaviour): HINCRBY wraps around int64 silently — max + 1 answers min and
    stores "-9223372036854775808" (redis: "increment or decrement would overflow", nothing changed); the specification
    with exact integers says 2^63.  Same as the KV type's INCRBY (`C08_dev_incr_wraps`). -/
theorem C08_dev_hincrby_wraps :
    (Z.HashExec.hincrby (Z.HashExec.realFns wT) wMax wK wF 1).2 = .int (-9223372036854775808) ∧
    Z.HashExec.hget (Z.HashExec.realFns wT) (Z.HashExec.hincrby (Z.HashExec.realFns wT) wMax wK wF 1).1 wK wF =
      some (Z.KVExec.fmtInt (-9223372036854775808)) ∧
    (specIncr (fun k f => Z.HashExec.hget (Z.HashExec.realFns wT) wMax k f) wK wF 1).2 = .int 9223372036854775808 := by
  decide

/-- the integer syntax is Go's, not redis's: "+5", "-0", "007" are integers for HINCRBY (redis: "hash value is not an
    integer"); " 5", "5 ", "0x10", "", "1.5" are not; 2^63 is out of range -/
theorem C08_hincrby_integer_syntax :
    Z.KVExec.parseInt [43, 53] = .ok 5 ∧ Z.KVExec.parseInt [45, 48] = .ok 0 ∧ Z.KVExec.parseInt [48, 48, 55] = .ok 7 ∧
    Z.KVExec.parseInt [32, 53] = .syntax ∧ Z.KVExec.parseInt [53, 32] = .syntax ∧ Z.KVExec.parseInt [48, 120, 49, 48] = .syntax ∧
    Z.KVExec.parseInt [] = .syntax ∧ Z.KVExec.parseInt [49, 46, 53] = .syntax ∧
    Z.KVExec.parseInt (Z.KVExec.fmtInt 9223372036854775808) = .range ∧
    Z.KVExec.parseInt (Z.KVExec.fmtInt (-9223372036854775808)) = .ok (-9223372036854775808) := by decide

/-- the size invariant in `C08_abs_hincrby` is needed — as long as HIncrBy asks `hGetRawFieldValue` to check
    `IsNotExistOrExpired` (regenerated `Gen.hincrCheckExpired`): it then treats a hash WITHOUT size meta as empty, so on a
    store that holds the field `f = "5"` but no size meta (not reachable: C09) it answers 1 where the specification
    answers 6 -/
theorem C08_hincrby_needs_invariant : Gen.hincrCheckExpired = true →
    (hincrby Z.HashToy.toyEnc [(Z.HashToy.toyEnc.fieldK wK wF, [53])] wK wF 1).2 = .int 1 ∧
    (specIncr (Z.HashRef.abs Z.HashToy.toyEnc [(Z.HashToy.toyEnc.fieldK wK wF, [53])]) wK wF 1).2 = .int 6 := by decide

/-! non-vacuity: a codec satisfying the abstract facts exists (`Z.HashToy.toyEnc`), and the hypotheses of
    `C08_abs_hincrby` hold on concrete reachable stores -/

/-- HINCRBY h f 5 on the empty store: reply 5, field "5" -/
example : (Z.HashRef.abs Z.HashToy.toyEnc (hincrby Z.HashToy.toyEnc [] wK wF 5).1 wK wF, (hincrby Z.HashToy.toyEnc [] wK wF 5).2) =
    (some [53], .int 5) := by
  have h := C08_abs_hincrby Z.HashToy.toyEnc (inv_empty Z.HashToy.toyEnc) wK wF 5 (by
    show inI64 5
    unfold inI64; omega)
  have e1 := congrArg (fun p => (p.1 wK wF, p.2)) h
  simp only at e1
  rw [e1]
  decide

/-- … and once more on the store that holds h = {f: "5"} (invariant by `C09_inv_hincrby`): reply 12, field "12" -/
example : (hincrby Z.HashToy.toyEnc (hincrby Z.HashToy.toyEnc [] wK wF 5).1 wK wF 7).2 = .int 12 := by
  have inv1 := inv_hincrby Z.HashToy.toyEnc (inv_empty Z.HashToy.toyEnc) wK wF 5
  have hcur : Z.HashRef.abs Z.HashToy.toyEnc (hincrby Z.HashToy.toyEnc [] wK wF 5).1 wK wF = some [53] := by decide
  have h := C08_abs_hincrby Z.HashToy.toyEnc inv1 wK wF 7 (by
    unfold NoWrap
    rw [hcur]
    intro n hn
    have h5 : Z.KVExec.parseInt [53] = .ok 5 := by decide
    rw [h5] at hn
    cases hn
    unfold inI64; omega)
  have e1 := congrArg Prod.snd h
  simp only at e1
  rw [e1]
  decide

end Z.Props.C08
