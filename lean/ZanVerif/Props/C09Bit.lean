/-
  C09 — counting commands agree with enumerating commands (BITMAP family, both layouts).
  For the executable storage-level bitmap model `Z.BitExec` (the functions the `datacorebit` correspondence runs against a
  real KVNode; every decision expression regenerated in `Gen.Bit`):
  * `bitcountSpec` — BITCOUNT by point lookups — IS the number of offsets of the byte range whose GETBIT is 1, for the
    whole key and for every start / end (negative, beyond the size, crossing segments, start > end), in EVERY store;
  * in every well-formed store (`WF`; `C09Bit_wf_reachable`: every store the model's commands reach) the repaired
    iterator-based BITCOUNT `bitcountFixed` answers exactly that;
  * `BitCountV2` AS THE CODE IS (`bitcount`) does NOT: whenever it answers a number, that number is the prescribed one PLUS
    the set bits of every stored segment behind the segment of `end` (`C09Bit_bitcount_overcount`; right iff there is none,
    `C09Bit_bitcount_right_without_segment_behind`), and it answers no number at all (Go panic, slice bounds) when the first
    wanted byte of the start segment lies behind that segment's stored length (`C09Bit_bitcount_panics`).
    Witnesses on reachable stores: `C09Bit_overcount_witness` (SETBIT k 0 1; SETBIT k 8192 1; BITCOUNT k 0 0 = 2, GETBIT
    shows 1 set bit in byte 0), `C09Bit_panic_witness` (same store, BITCOUNT k 5 1024). The real code shows both
    (oracle `count-enum-mismatch:bitmap:bitcount` and `panic:bitcount:read` of protocol `datacorebit`; known findings).
-/
import ZanVerif.Data.BitSize

namespace Z.Props.C09Bit
open Z.BitExec Z.Header
open Z.Codec (inI64 be64 toU64 ofU64 fromBE)
open Z.Ref (get Sorted)
open Z.Coll (WOp applyW)

/-- the normalised byte range of BITCOUNT: `getRange(start, end, stored size)` -/
def rangeOf (start stop size : Int) : Int × Int := Gen.getRange start stop size

/-- the number of offsets in the bytes `[s, e]` whose GETBIT is 1 (0 for an inverted range) -/
def enumBits (pol : Pol) (m : List KV) (now : Int) (table rk : Bytes) (s e : Int) : Nat :=
  if s > e then 0 else enumCount (fun o => getbit pol m now table rk (o : Int) == .ok 1) s.toNat (e - s + 1).toNat

/-- **C09, every store**: the prescribed BITCOUNT of a live bitmap = the enumeration of GETBIT over the byte range -/
theorem C09Bit_bitcountSpec_eq_enum (pol : Pol) (m : List KV) (now : Int) (table rk : Bytes) (h : Hdr) (ex : Bool) (size : Int)
    (hm : bmeta pol m now table rk = .mk h ex size true) (start stop : Int) :
    bitcountSpec pol m now table rk start stop =
      .ok (enumBits pol m now table rk (rangeOf start stop size).1 (rangeOf start stop size).2 : Nat) := by
  rw [bitcountSpec_eq_enum pol m now table rk h ex size hm start stop]
  unfold enumBits rangeOf
  split <;> rfl

/-- **C09, every well-formed (= reachable) store**: the repaired iterator-based BITCOUNT = the enumeration of GETBIT -/
theorem C09Bit_bitcountFixed_eq_enum (pol : Pol) {m : List KV} (W : WF m) (now : Int) (table rk : Bytes) (ht : table.length < 65536)
    (h : Hdr) (ex : Bool) (size : Int) (hm : bmeta pol m now table rk = .mk h ex size true) (start stop : Int) :
    bitcountFixed pol m now table rk start stop =
      .ok (enumBits pol m now table rk (rangeOf start stop size).1 (rangeOf start stop size).2 : Nat) := by
  rw [bitcountFixed_eq_spec W pol now table rk ht start stop]
  exact C09Bit_bitcountSpec_eq_enum pol m now table rk h ex size hm start stop

/-- **what `BitCountV2` as it is answers**: whenever it answers a number `n`, `n` = the enumeration PLUS the set bits of
    every stored segment of the bitmap that lies behind the segment of `end` -/
theorem C09Bit_bitcount_overcount (pol : Pol) {m : List KV} (W : WF m) (now : Int) (table rk : Bytes) (ht : table.length < 65536)
    (h : Hdr) (ex : Bool) (size : Int) (hm : bmeta pol m now table rk = .mk h ex size true) (start stop : Int) (n : Int)
    (hle : (rangeOf start stop size).1 ≤ (rangeOf start stop size).2)
    (hn : bitcount pol m now table rk start stop = .ok n) :
    n = (enumBits pol m now table rk (rangeOf start stop size).1 (rangeOf start stop size).2 : Nat) +
      ((((countRange pol m table rk h (rangeOf start stop size).1).filter
        (fun p => !decide (idxOf p.1 ≤ Gen.bitCountStopI (rangeOf start stop size).2 * Gen.cBitmapSegBytes))).map (fun p => popcount p.2)).sum : Nat) := by
  obtain ⟨f, hf, hnf⟩ := bitcount_ok_overcount pol m now table rk h ex size hm start stop n hle hn
  rw [C09Bit_bitcountFixed_eq_enum pol W now table rk ht h ex size hm start stop] at hf
  injection hf with hf
  rw [hnf, ← hf]
  rfl

/-- … so it is right whenever it answers a number and no stored segment lies behind the segment of `end` -/
theorem C09Bit_bitcount_right_without_segment_behind (pol : Pol) {m : List KV} (W : WF m) (now : Int) (table rk : Bytes)
    (ht : table.length < 65536) (h : Hdr) (ex : Bool) (size : Int) (hm : bmeta pol m now table rk = .mk h ex size true)
    (start stop : Int) (n : Int) (hle : (rangeOf start stop size).1 ≤ (rangeOf start stop size).2)
    (hn : bitcount pol m now table rk start stop = .ok n)
    (hnone : ∀ p ∈ countRange pol m table rk h (rangeOf start stop size).1,
      idxOf p.1 ≤ Gen.bitCountStopI (rangeOf start stop size).2 * Gen.cBitmapSegBytes) :
    n = (enumBits pol m now table rk (rangeOf start stop size).1 (rangeOf start stop size).2 : Nat) := by
  have := bitcount_ok_eq_fixed pol m now table rk h ex size hm start stop n hle hn hnone
  rw [C09Bit_bitcountFixed_eq_enum pol W now table rk ht h ex size hm start stop] at this
  injection this with this
  exact this.symm

/-- `BitCountV2` as it is answers NO number (Go panic `slice bounds out of range`) as soon as one stored segment of its
    iterator range has an inverted cut: `byteStart = start % 1024` behind `min(len(segment), …)` -/
theorem C09Bit_bitcount_panics (pol : Pol) (m : List KV) (now : Int) (table rk : Bytes) (h : Hdr) (ex : Bool) (size : Int)
    (hm : bmeta pol m now table rk = .mk h ex size true) (start stop : Int)
    (hle : (rangeOf start stop size).1 ≤ (rangeOf start stop size).2)
    (hbad : ∃ p ∈ countRange pol m table rk h (rangeOf start stop size).1,
      (cutOf (rangeOf start stop size).1 (rangeOf start stop size).2 (idxOf p.1) p.2).1 >
        (cutOf (rangeOf start stop size).1 (rangeOf start stop size).2 (idxOf p.1) p.2).2) :
    ∃ q, bitcount pol m now table rk start stop = .panic q :=
  bitcount_panics pol m now table rk h ex size hm start stop hle hbad

/-- a dead bitmap (absent or expired) without a string under its name counts 0, as the code is and as prescribed -/
theorem C09Bit_bitcount_dead_zero (pol : Pol) (m : List KV) (now : Int) (table rk : Bytes) (h : Hdr) (ex : Bool) (size : Int)
    (hm : bmeta pol m now table rk = .mk h ex size false) (hstr : strGet pol m now table rk = .ok none) (a b : Int) :
    bitcount pol m now table rk a b = .ok 0 ∧ bitcountSpec pol m now table rk a b = .ok 0 :=
  bitcount_dead pol m now table rk h ex size hm hstr a b

/-! ### the size invariant and the whole-key BITCOUNT of the code -/

/-- **the size invariant is established / kept by SETBIT on the key** (no legacy conversion): if the old size covered the
    stored segments of the generation SETBIT writes to — vacuous for a fresh generation —, then afterwards the stored size
    covers every stored segment of the generation a reader sees -/
theorem C09Bit_sizeOK_setbit_self (pol : Pol) {m : List KV} (W : WF m) (ts : Int) (table rk : Bytes) (offset : Nat) (on : Int)
    (ht : table.length < 65536) (hts : inI64 ts) (hv : on = 0 ∨ on = 1) (ho : (offset : Int) ≤ 4294967294)
    (h : Hdr) (ex : Bool) (size0 : Int) (ok : Bool) (hm : bmeta pol m ts table rk = .mk h ex size0 ok)
    (hnc : ok = true ∨ get m (strK table rk) = none)
    (hold : ∀ (j : Nat) (v : Bytes), j < 9007199254740992 →
      get m (segK table (vkey pol rk (wHdr pol h ex ts).ver) (Gen.cBitmapSegBytes * (j : Int))) = some v →
      Gen.cBitmapSegBytes * (j : Int) + v.length ≤ size0) :
    SizeOK pol (setbit pol m ts table rk offset on).1 table rk :=
  SizeOK_setbit_self pol W ts table rk offset on ht hts hv ho h ex size0 ok hm hnc hold

/-- … and kept by SETBIT on every other key -/
theorem C09Bit_sizeOK_setbit_other (pol : Pol) {m : List KV} (hs : Sorted m) (ts : Int) (table rk : Bytes) (offset : Nat) (on : Int)
    (ht : table.length < 65536) (hts : inI64 ts) (hv : on = 0 ∨ on = 1) (ho : (offset : Int) ≤ 4294967294)
    (h : Hdr) (ex : Bool) (size0 : Int) (ok : Bool) (hm : bmeta pol m ts table rk = .mk h ex size0 ok)
    (hnc : ok = true ∨ get m (strK table rk) = none) (hc : Gen.cTableStartSep ∉ table)
    (table' rk' : Bytes) (ht' : table'.length < 65536) (hc' : Gen.cTableStartSep ∉ table') (hne : ¬ (table' = table ∧ rk' = rk))
    (S : SizeOK pol m table' rk') : SizeOK pol (setbit pol m ts table rk offset on).1 table' rk' :=
  SizeOK_setbit_other pol hs ts table rk offset on ht hts hv ho h ex size0 ok hm hnc hc table' rk' ht' hc' hne S

/-- **the whole-key BITCOUNT of `BitCountV2` as it is, is right** under the size invariant: `BITCOUNT key` (= 0 … -1) never
    panics and answers the number of offsets of the whole bitmap whose GETBIT is 1 -/
theorem C09Bit_bitcount_whole_key_right (pol : Pol) {m : List KV} (W : WF m) (now : Int) (table rk : Bytes) (ht : table.length < 65536)
    (h : Hdr) (ex : Bool) (size : Int) (hm : bmeta pol m now table rk = .mk h ex size true) (hsz : 1 ≤ size)
    (S : SizeOK pol m table rk) :
    bitcount pol m now table rk 0 (-1) = .ok (enumBits pol m now table rk 0 (size - 1) : Nat) := by
  have hr : rangeOf 0 (-1) size = (0, size - 1) := by
    unfold rangeOf Gen.getRange
    refine Prod.ext ?_ ?_ <;> simp only <;> (repeat' split) <;> omega
  obtain ⟨n, hn⟩ := bitcount_from_zero_ok pol m now table rk h ex size hm 0 (-1) (by
    have := congrArg Prod.fst hr; exact this)
  have hov := C09Bit_bitcount_overcount pol W now table rk ht h ex size hm 0 (-1) n (by rw [hr]; simp only; omega) hn
  rw [hr] at hov
  simp only at hov
  rw [behind_last_byte_zero pol W table rk ht now h ex size hm S 0 (by omega) (by omega)] at hov
  rw [hn, hov]
  simp

/-! ### the invariant holds in every reachable store -/

/-- the writes of the model: the bitmap commands, and a put / delete of a STRING (any raw bytes) under any name -/
inductive Cmd
  | setbit (ts : Int) (table rk : Bytes) (offset on : Int)
  | bitclear (ts : Int) (table rk : Bytes)
  | bexpire (ts : Int) (table rk : Bytes) (dur : Int)
  | bpersist (ts : Int) (table rk : Bytes)
  | strPut (table rk raw : Bytes)
  | strDel (table rk : Bytes)

def step (pol : Pol) (m : List KV) : Cmd → List KV
  | .setbit ts t k o v => (setbit pol m ts t k o v).1
  | .bitclear ts t k => (bitclear pol m ts t k).1
  | .bexpire ts t k d => (bexpire m ts t k d).1
  | .bpersist ts t k => (bpersist pol m ts t k).1
  | .strPut t k raw => Z.Ref.put m (strK t k) raw
  | .strDel t k => Z.Ref.del m (strK t k)

def run (pol : Pol) (m : List KV) (cs : List Cmd) : List KV := cs.foldl (step pol) m

/-- what the server admits: table names fit the length field; stored strings are far below 2^50 bytes (MaxValueSize) -/
def Admitted : Cmd → Prop
  | .setbit _ t _ _ _ => t.length < 65536
  | .strPut _ _ raw => raw.length < 1125899906842624
  | _ => True

/-- every stored string is shorter than 2^50 bytes -/
def StrSmall (m : List KV) : Prop := ∀ p ∈ m, p.1.head? = some Gen.cKVType → p.2.length < 1125899906842624

theorem C09Bit_aux_mem_applyW : ∀ (wb : List WOp) (m : List KV) (p : KV), p ∈ applyW m wb → p ∈ m ∨ ∃ k v, WOp.put k v ∈ wb ∧ p = (k, v) := by
  intro wb
  induction wb with
  | nil => intro m p hp; exact Or.inl hp
  | cons o t ih =>
    intro m p hp
    have hp' : p ∈ applyW (Z.Coll.applyOp m o) t := hp
    rcases ih _ p hp' with h | ⟨k, v, hkv, he⟩
    · cases o with
      | put k v =>
        rcases Z.Ref.mem_put h with rfl | h
        · exact Or.inr ⟨k, v, List.mem_cons_self, rfl⟩
        · exact Or.inl h
      | del k => exact Or.inl (Z.Ref.mem_del h)
      | delRange a b => exact Or.inl (List.mem_filter.mp h).1
    · exact Or.inr ⟨k, v, List.mem_cons_of_mem _ hkv, he⟩

theorem C09Bit_aux_strSmall_applyW {m : List KV} (S : StrSmall m) (wb : List WOp)
    (h : ∀ k v, WOp.put k v ∈ wb → k.head? ≠ some Gen.cKVType) : StrSmall (applyW m wb) := by
  intro p hp hh
  rcases C09Bit_aux_mem_applyW wb m p hp with hm | ⟨k, v, hkv, rfl⟩
  · exact S p hm hh
  · exact absurd hh (h k v hkv)

theorem C09Bit_aux_seg_not_kv (t v : Bytes) (i : Int) : (segK t v i).head? ≠ some Gen.cKVType := by
  rw [segK_head]; decide
theorem C09Bit_aux_meta_not_kv (t k : Bytes) : (metaK t k).head? ≠ some Gen.cKVType := by
  rw [metaK_head]; decide

theorem C09Bit_aux_strSmall_setbit {m : List KV} (S : StrSmall m) (pol : Pol) (ts : Int) (t k : Bytes) (o v : Int) :
    StrSmall (setbit pol m ts t k o v).1 := by
  unfold setbit
  split
  · exact S
  · split
    · exact S
    · split
      · exact S
      · rename_i h ex size0 ok hm
        split
        · exact S
        · rename_i m1 size1 hc
          have S1 : StrSmall m1 := by
            by_cases hok : ok = true
            · rw [if_pos hok] at hc; cases hc; exact S
            · rw [if_neg hok] at hc
              unfold convert at hc
              split at hc
              · cases hc; exact S
              · split at hc
                · cases hc; exact S
                · simp only at hc
                  split at hc
                  · cases hc
                  · cases hc
                    apply C09Bit_aux_strSmall_applyW S
                    intro k' v' hkv
                    rcases List.mem_append.mp hkv with hkv | hkv
                    · obtain ⟨c, _, hce⟩ := List.mem_map.mp hkv
                      injection hce with h1 _
                      rw [← h1]; exact C09Bit_aux_seg_not_kv _ _ _
                    · simp at hkv
          apply C09Bit_aux_strSmall_applyW S1
          intro k' v' hkv
          simp only [List.mem_cons, List.mem_nil_iff, or_false] at hkv
          rcases hkv with hkv | hkv
          · injection hkv with h1 _; rw [h1]; exact C09Bit_aux_seg_not_kv _ _ _
          · injection hkv with h1 _; rw [h1]; exact C09Bit_aux_meta_not_kv _ _

theorem C09Bit_aux_strSmall_sub {m m' : List KV} (S : StrSmall m) (h : ∀ p ∈ m', p ∈ m ∨ p.1.head? ≠ some Gen.cKVType) : StrSmall m' := by
  intro p hp hh
  rcases h p hp with h1 | h1
  · exact S p h1 hh
  · exact absurd hh h1

theorem C09Bit_aux_strSmall_bexpireAt {m : List KV} (S : StrSmall m) (ts : Int) (t k : Bytes) (when : Int) :
    StrSmall (bexpireAt m ts t k when).1 := by
  unfold bexpireAt
  split
  · exact S
  · split
    · exact S
    · split
      · exact S
      · exact S
      · apply C09Bit_aux_strSmall_sub S
        intro p hp
        rcases Z.Ref.mem_put hp with rfl | hp
        · exact Or.inr (C09Bit_aux_meta_not_kv _ _)
        · exact Or.inl hp

/-- **every command keeps the store well-formed** (and its strings short) -/
theorem C09Bit_step_keeps (pol : Pol) {m : List KV} (W : WF m) (S : StrSmall m) (c : Cmd) (hc : Admitted c) :
    WF (step pol m c) ∧ StrSmall (step pol m c) := by
  cases c with
  | setbit ts t k o v =>
    refine ⟨W.setbit pol ts t k o v hc ?_, C09Bit_aux_strSmall_setbit S pol ts t k o v⟩
    intro raw hg
    exact S _ ((Z.Coll.get_eq_some_iff W.sorted _ _).mp hg) (strK_head _ _)
  | bitclear ts t k =>
    refine ⟨W.bitclear pol ts t k, ?_⟩
    show StrSmall (bitclear pol m ts t k).1
    unfold bitclear
    cases mview pol m ts t k with
    | bad e => exact S
    | mv h ex =>
      simp only
      generalize clearSize h = bm
      by_cases hcl : (ex || bm == 0) = true
      · rw [if_pos hcl]; exact S
      · rw [if_neg hcl]
        cases pol
        · exact C09Bit_aux_strSmall_applyW S _ (by intro k' v' h; simp at h)
        · apply C09Bit_aux_strSmall_applyW S
          intro k' v' h
          rcases List.mem_cons.mp h with h | h
          · cases h
          · split at h
            · simp at h
            · obtain ⟨p, _, hp⟩ := List.mem_map.mp h; cases hp
  | bexpire ts t k d =>
    exact ⟨W.bexpire ts t k d, C09Bit_aux_strSmall_bexpireAt S ts t k _⟩
  | bpersist ts t k =>
    refine ⟨W.bpersist pol ts t k, ?_⟩
    show StrSmall (bpersist pol m ts t k).1
    unfold bpersist
    cases pol with
    | compact => exact C09Bit_aux_strSmall_bexpireAt S ts t k 0
    | «local» =>
      simp only
      split
      · exact S
      · split <;> exact S
  | strPut t k raw =>
    refine ⟨W.put_other _ _ (by rw [strK_head]; decide), ?_⟩
    intro p hp hh
    rcases Z.Ref.mem_put hp with rfl | hp
    · exact hc
    · exact S p hp hh
  | strDel t k =>
    exact ⟨W.del _, fun p hp hh => S p (Z.Ref.mem_del hp) hh⟩

/-- **the invariant holds after EVERY sequence of admitted commands** from the empty store, in both layouts -/
theorem C09Bit_wf_reachable (pol : Pol) (cs : List Cmd) (hc : ∀ c ∈ cs, Admitted c) : WF (run pol [] cs) := by
  have key : ∀ (cs : List Cmd) (m : List KV), WF m → StrSmall m → (∀ c ∈ cs, Admitted c) → WF (run pol m cs) := by
    intro cs
    induction cs with
    | nil => intro m W _ _; exact W
    | cons c t ih =>
      intro m W S hc
      obtain ⟨W', S'⟩ := C09Bit_step_keeps pol W S c (hc c List.mem_cons_self)
      exact ih _ W' S' (fun c' hc' => hc c' (List.mem_cons_of_mem _ hc'))
  exact key cs [] WF.nil (fun p hp => by cases hp) hc

/-! ### witnesses and non-vacuity: concrete runs with the real codec (table "t", key "b") -/
section Example
def wT : Bytes := [116]
def wK : Bytes := [98]
def wTs : Int := 1600000000000000000
/-- SETBIT b 0 1 ; SETBIT b 8192 1 ; SETBIT b 9 1 -/
def wCmds : List Cmd := [.setbit wTs wT wK 0 1, .setbit (wTs + 1) wT wK 8192 1, .setbit (wTs + 2) wT wK 9 1]
def wS (pol : Pol) : List KV := run pol [] wCmds

theorem C09Bit_aux_wS_wf (pol : Pol) : WF (wS pol) :=
  C09Bit_wf_reachable pol wCmds (by intro c hc; simp [wCmds] at hc; rcases hc with rfl | rfl | rfl <;> (show wT.length < 65536; decide))

set_option maxRecDepth 100000 in
theorem C09Bit_aux_wS_meta : bmeta .compact (wS .compact) (wTs + 3) wT wK = .mk ⟨0, wTs, some (metaUser 1025 (wTs + 2))⟩ false 1025 true := by decide

set_option maxRecDepth 100000 in
/-- **witness (C09 violated by `BitCountV2` as it is, overcount)**: after SETBIT b 0 1, SETBIT b 8192 1, SETBIT b 9 1 the
    code answers `BITCOUNT b 0 0 = 2` although GETBIT is 1 at exactly ONE offset of byte 0 (offset 0): it also counts the
    segment that holds offset 8192. The prescribed and the repaired BITCOUNT answer 1; both layouts. -/
theorem C09Bit_overcount_witness (pol : Pol) :
    bitcount pol (wS pol) (wTs + 3) wT wK 0 0 = .ok 2 ∧
    bitcountSpec pol (wS pol) (wTs + 3) wT wK 0 0 = .ok 1 ∧ bitcountFixed pol (wS pol) (wTs + 3) wT wK 0 0 = .ok 1 ∧
    (List.range 8).map (fun o => getbit pol (wS pol) (wTs + 3) wT wK (o : Nat)) = [.ok 1, .ok 0, .ok 0, .ok 0, .ok 0, .ok 0, .ok 0, .ok 0] ∧
    bitcount pol (wS pol) (wTs + 3) wT wK 0 (-1) = .ok 3 ∧ bitcountSpec pol (wS pol) (wTs + 3) wT wK 0 (-1) = .ok 3 := by
  cases pol <;> decide

set_option maxRecDepth 100000 in
/-- **witness (panic)**: on the same store `BITCOUNT b 5 1024` panics in the code (`bmv[5:2]`: segment 0 is 2 bytes long,
    the range starts at its byte 5); prescribed answer: 1 (offset 8192) -/
theorem C09Bit_panic_witness (pol : Pol) :
    bitcount pol (wS pol) (wTs + 3) wT wK 5 1024 = .panic (.sliceBounds 5 2) ∧
    bitcountSpec pol (wS pol) (wTs + 3) wT wK 5 1024 = .ok 1 ∧ bitcountFixed pol (wS pol) (wTs + 3) wT wK 5 1024 = .ok 1 := by
  cases pol <;> decide

set_option maxRecDepth 100000 in
/-- the hypotheses of `C09Bit_bitcountFixed_eq_enum` / `C09Bit_bitcount_overcount` hold on the reachable store above -/
example : bitcountFixed .compact (wS .compact) (wTs + 3) wT wK 0 0 =
    .ok (enumBits .compact (wS .compact) (wTs + 3) wT wK (rangeOf 0 0 1025).1 (rangeOf 0 0 1025).2 : Nat) :=
  C09Bit_bitcountFixed_eq_enum .compact (C09Bit_aux_wS_wf .compact) (wTs + 3) wT wK (by decide) _ _ _ C09Bit_aux_wS_meta 0 0

set_option maxRecDepth 100000 in
example : ((2 : Int)) = (enumBits .compact (wS .compact) (wTs + 3) wT wK (rangeOf 0 0 1025).1 (rangeOf 0 0 1025).2 : Nat) +
      ((((countRange .compact (wS .compact) wT wK ⟨0, wTs, some (metaUser 1025 (wTs + 2))⟩ (rangeOf 0 0 1025).1).filter
        (fun p => !decide (idxOf p.1 ≤ Gen.bitCountStopI (rangeOf 0 0 1025).2 * Gen.cBitmapSegBytes))).map (fun p => popcount p.2)).sum : Nat) :=
  C09Bit_bitcount_overcount .compact (C09Bit_aux_wS_wf .compact) (wTs + 3) wT wK (by decide) _ _ _ C09Bit_aux_wS_meta 0 0 2 (by decide)
    (C09Bit_overcount_witness .compact).1

set_option maxRecDepth 100000 in
example : ∃ q, bitcount .compact (wS .compact) (wTs + 3) wT wK 5 1024 = .panic q :=
  C09Bit_bitcount_panics .compact _ _ wT wK _ _ _ C09Bit_aux_wS_meta 5 1024 (by decide) (by
    refine ⟨(segK wT (vkey .compact wK wTs) 0, [128, 64]), by decide, by decide⟩)

set_option maxRecDepth 100000 in
example : (3 : Int) = (enumBits .compact (wS .compact) (wTs + 3) wT wK (rangeOf 0 (-1) 1025).1 (rangeOf 0 (-1) 1025).2 : Nat) :=
  C09Bit_bitcount_right_without_segment_behind .compact (C09Bit_aux_wS_wf .compact) (wTs + 3) wT wK (by decide) _ _ _
    C09Bit_aux_wS_meta 0 (-1) 3 (by decide) (C09Bit_overcount_witness .compact).2.2.2.2.1 (by decide)

set_option maxRecDepth 100000 in
theorem C09Bit_aux_wS_sizeOK : SizeOK .compact (wS .compact) wT wK := by
  -- three SETBITs on the key: the first starts a fresh generation, the others keep the invariant
  have W0 : WF (run .compact [] []) := WF.nil
  have S1 : SizeOK .compact (setbit .compact [] wTs wT wK ((0 : Nat) : Int) 1).1 wT wK :=
    C09Bit_sizeOK_setbit_self .compact WF.nil wTs wT wK 0 1 (by decide) (by unfold inI64 wTs; omega) (Or.inr rfl) (by decide)
      fresh false 0 false (by decide) (Or.inr rfl) (fun j v _ hg => by cases hg)
  have W1 : WF (setbit .compact [] wTs wT wK ((0 : Nat) : Int) 1).1 := WF.nil.setbit .compact _ wT wK _ _ (by decide) (by intro v h; cases h)
  have S2 : SizeOK .compact (setbit .compact (setbit .compact [] wTs wT wK ((0 : Nat) : Int) 1).1 (wTs + 1) wT wK ((8192 : Nat) : Int) 1).1 wT wK := by
    refine C09Bit_sizeOK_setbit_self .compact W1 (wTs + 1) wT wK 8192 1 (by decide) (by unfold inI64 wTs; omega) (Or.inr rfl) (by decide)
      ⟨0, wTs, some (metaUser 1 wTs)⟩ false 1 true (by decide) (Or.inl rfl) ?_
    intro j v hj hg
    exact S1 (wTs + 1) _ _ _ (show bmeta .compact _ (wTs + 1) wT wK = .mk ⟨0, wTs, some (metaUser 1 wTs)⟩ false 1 true by decide) j v hj hg
  have W2 : WF (setbit .compact (setbit .compact [] wTs wT wK ((0 : Nat) : Int) 1).1 (wTs + 1) wT wK ((8192 : Nat) : Int) 1).1 :=
    W1.setbit .compact _ wT wK _ _ (by decide) (by
      intro v hv
      have : get (setbit .compact [] wTs wT wK ((0 : Nat) : Int) 1).1 (strK wT wK) = none := by decide
      rw [this] at hv; cases hv)
  refine C09Bit_sizeOK_setbit_self .compact W2 (wTs + 2) wT wK 9 1 (by decide) (by unfold inI64 wTs; omega) (Or.inr rfl) (by decide)
      ⟨0, wTs, some (metaUser 1025 (wTs + 1))⟩ false 1025 true (by decide) (Or.inl rfl) ?_
  intro j v hj hg
  exact S2 (wTs + 2) _ _ _ (show bmeta .compact _ (wTs + 2) wT wK = .mk ⟨0, wTs, some (metaUser 1025 (wTs + 1))⟩ false 1025 true by decide) j v hj hg

set_option maxRecDepth 100000 in
/-- the whole-key BITCOUNT of the code on the reachable store above: 3 = the enumeration (`C09Bit_bitcount_whole_key_right`) -/
example : bitcount .compact (wS .compact) (wTs + 3) wT wK 0 (-1) = .ok (enumBits .compact (wS .compact) (wTs + 3) wT wK 0 (1025 - 1) : Nat) :=
  C09Bit_bitcount_whole_key_right .compact (C09Bit_aux_wS_wf .compact) (wTs + 3) wT wK (by decide) _ _ _ C09Bit_aux_wS_meta (by decide)
    C09Bit_aux_wS_sizeOK

example : WF (run .local [] (wCmds ++ [.strPut wT wK [1, 2, 3], .setbit (wTs + 9) wT [99] 5 1, .bitclear (wTs + 10) wT wK])) :=
  C09Bit_wf_reachable .local _ (by
    intro c hc
    simp [wCmds] at hc
    rcases hc with rfl | rfl | rfl | rfl | rfl | rfl <;> first | trivial | (show wT.length < 65536; decide) | (show ([1, 2, 3] : Bytes).length < 1125899906842624; decide))
end Example

end Z.Props.C09Bit
