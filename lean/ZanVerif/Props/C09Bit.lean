/-
  C09 — counting commands agree with enumerating commands (BITMAP family, both layouts).
  For the executable storage-level bitmap model `Z.BitExec` (the functions the `datacorebit` correspondence runs against a
  real KVNode; every decision expression regenerated in `Gen.Bit`, incl. the loop break and the clamp of fix d794a70):
  * `bitcountSpec` — BITCOUNT by point lookups — IS the number of offsets of the byte range whose GETBIT is 1, for the
    whole key and for every start / end (negative, beyond the size, crossing segments, start > end), in EVERY store;
  * `bitcount` — `BitCountV2` as the code is — answers exactly that in every well-formed store (`WF`), i.e. in every store the
    model's commands reach (`C09Bit_bitcount_eq_enum`, `C09Bit_wf_reachable`, `C09Bit_bitcount_eq_enum_reachable`); the model has
    no panic outcome;
  * the size invariant (`SizeOK`) is established by the SETBIT that starts a generation (from size 0) and kept by SETBIT.
  History: before fix d794a70 `BitCountV2` also counted every stored segment behind the segment of `end` and panicked (slice
  bounds) on a start segment stored shorter than the first wanted byte; the witnesses of both (SETBIT k 0 1; SETBIT k 8192 1;
  SETBIT k 9 1; BITCOUNT k 0 0 answered 2; BITCOUNT k 5 1024 panicked) are now regression examples with the right answers
  (`C09Bit_regression_behind_end`, `C09Bit_regression_short_start_segment`) and corpus lines (corpus/C09/datacorebit-*.txt).
-/
import ZanVerif.Data.BitSize

namespace Z.Props.C09Bit
open Z.BitExec Z.Header
open Z.Codec (inI64 be64 toU64 ofU64 fromBE)
open Z.Ref (get Sorted)
open Z.Coll (WOp applyW)

/-- the normalised byte range of BITCOUNT: `getRange(start, end, stored size)` -/
def rangeOf (start stop size : Int) : Int × Int := Gen.getRange start stop size

/-- the number of offsets in the bytes `[s, e]` whose GETBIT is 1 (0 for an inverted range) -/
def enumBits (pol : Pol) (m : List KV) (now : Int) (table rk : Bytes) (s e : Int) : Nat :=
  if s > e then 0 else enumCount (fun o => getbit pol m now table rk (o : Int) == .ok 1) s.toNat (e - s + 1).toNat

/-- **C09, every store**: the prescribed BITCOUNT of a live bitmap = the enumeration of GETBIT over the byte range -/
theorem C09Bit_bitcountSpec_eq_enum (pol : Pol) (m : List KV) (now : Int) (table rk : Bytes) (h : Hdr) (ex : Bool) (size : Int)
    (hm : bmeta pol m now table rk = .mk h ex size true) (start stop : Int) :
    bitcountSpec pol m now table rk start stop =
      .ok (enumBits pol m now table rk (rangeOf start stop size).1 (rangeOf start stop size).2 : Nat) := by
  rw [bitcountSpec_eq_enum pol m now table rk h ex size hm start stop]
  unfold enumBits rangeOf
  split <;> rfl

/-- **C09, every well-formed (= reachable) store**: BITCOUNT as the code computes it (iterator from the start segment, break
    behind the segment of `end`, clamped cuts) = the number of offsets of the byte range whose GETBIT is 1 — whole key and
    every start / end; the outcome is always a number -/
theorem C09Bit_bitcount_eq_enum (pol : Pol) {m : List KV} (W : WF m) (now : Int) (table rk : Bytes) (ht : table.length < 65536)
    (h : Hdr) (ex : Bool) (size : Int) (hm : bmeta pol m now table rk = .mk h ex size true) (start stop : Int) :
    bitcount pol m now table rk start stop =
      .ok (enumBits pol m now table rk (rangeOf start stop size).1 (rangeOf start stop size).2 : Nat) := by
  rw [bitcount_eq_spec W pol now table rk ht start stop]
  exact C09Bit_bitcountSpec_eq_enum pol m now table rk h ex size hm start stop

/-- the code's BITCOUNT is the prescribed one in every well-formed store, live bitmap or not (a dead one falls back to the
    string of the same name in both) -/
theorem C09Bit_bitcount_eq_spec (pol : Pol) {m : List KV} (W : WF m) (now : Int) (table rk : Bytes) (ht : table.length < 65536)
    (start stop : Int) : bitcount pol m now table rk start stop = bitcountSpec pol m now table rk start stop :=
  bitcount_eq_spec W pol now table rk ht start stop

/-- one iteration of the loop: the clamp `if byteStart > byteEnd { byteStart = byteEnd }` makes the cut of EVERY segment a
    valid slice (no inverted bounds: the panic of the code before fix d794a70 has no counterpart) -/
theorem C09Bit_cut_never_inverted (s e idx : Int) (v : Bytes) :
    (if Gen.bitCountInverted (cutOf s e idx v).1 (cutOf s e idx v).2 then (cutOf s e idx v).2 else (cutOf s e idx v).1) ≤ (cutOf s e idx v).2 ∧
    (cutOf s e idx v).2 ≤ v.length := by
  refine ⟨?_, cutOf_end_le s e idx v⟩
  unfold Gen.bitCountInverted
  split
  · exact Nat.le_refl _
  · rename_i h
    simp only [decide_eq_true_eq] at h
    omega

/-- a dead bitmap (absent or expired) without a string under its name counts 0, as the code is and as prescribed -/
theorem C09Bit_bitcount_dead_zero (pol : Pol) (m : List KV) (now : Int) (table rk : Bytes) (h : Hdr) (ex : Bool) (size : Int)
    (hm : bmeta pol m now table rk = .mk h ex size false) (hstr : strGet pol m now table rk = .ok none) (a b : Int) :
    bitcount pol m now table rk a b = .ok 0 ∧ bitcountSpec pol m now table rk a b = .ok 0 :=
  bitcount_dead pol m now table rk h ex size hm hstr a b

/-! ### the size invariant -/

/-- **the size invariant is established / kept by SETBIT on the key** (no legacy conversion): if the size SETBIT starts from
    (`startSize`: the stored size of a live bitmap, 0 for an absent or expired one) covered the stored segments of the
    generation it writes to — vacuous for a fresh generation —, then afterwards the stored size covers every stored segment of
    the generation a reader sees -/
theorem C09Bit_sizeOK_setbit_self (pol : Pol) {m : List KV} (W : WF m) (ts : Int) (table rk : Bytes) (offset : Nat) (on : Int)
    (ht : table.length < 65536) (hts : inI64 ts) (hv : on = 0 ∨ on = 1) (ho : (offset : Int) ≤ 4294967294)
    (h : Hdr) (ex : Bool) (size0 : Int) (ok : Bool) (hm : bmeta pol m ts table rk = .mk h ex size0 ok)
    (hnc : ok = true ∨ get m (strK table rk) = none)
    (hold : ∀ (j : Nat) (v : Bytes), j < 9007199254740992 →
      get m (segK table (vkey pol rk (wHdr pol h ex ts).ver) (Gen.cBitmapSegBytes * (j : Int))) = some v →
      Gen.cBitmapSegBytes * (j : Int) + v.length ≤ startSize size0 ok) :
    SizeOK pol (setbit pol m ts table rk offset on).1 table rk :=
  SizeOK_setbit_self pol W ts table rk offset on ht hts hv ho h ex size0 ok hm hnc hold

/-- … and kept by SETBIT on every other key -/
theorem C09Bit_sizeOK_setbit_other (pol : Pol) {m : List KV} (hs : Sorted m) (ts : Int) (table rk : Bytes) (offset : Nat) (on : Int)
    (ht : table.length < 65536) (hts : inI64 ts) (hv : on = 0 ∨ on = 1) (ho : (offset : Int) ≤ 4294967294)
    (h : Hdr) (ex : Bool) (size0 : Int) (ok : Bool) (hm : bmeta pol m ts table rk = .mk h ex size0 ok)
    (hnc : ok = true ∨ get m (strK table rk) = none) (hc : Gen.cTableStartSep ∉ table)
    (table' rk' : Bytes) (ht' : table'.length < 65536) (hc' : Gen.cTableStartSep ∉ table') (hne : ¬ (table' = table ∧ rk' = rk))
    (S : SizeOK pol m table' rk') : SizeOK pol (setbit pol m ts table rk offset on).1 table' rk' :=
  SizeOK_setbit_other pol hs ts table rk offset on ht hts hv ho h ex size0 ok hm hnc hc table' rk' ht' hc' hne S

/-! ### the invariant holds in every reachable store -/

/-- the writes of the model: the bitmap commands, and a put / delete of a STRING (any raw bytes) under any name -/
inductive Cmd
  | setbit (ts : Int) (table rk : Bytes) (offset on : Int)
  | bitclear (ts : Int) (table rk : Bytes)
  | bexpire (ts : Int) (table rk : Bytes) (dur : Int)
  | bpersist (ts : Int) (table rk : Bytes)
  | strPut (table rk raw : Bytes)
  | strDel (table rk : Bytes)

def step (pol : Pol) (m : List KV) : Cmd → List KV
  | .setbit ts t k o v => (setbit pol m ts t k o v).1
  | .bitclear ts t k => (bitclear pol m ts t k).1
  | .bexpire ts t k d => (bexpire m ts t k d).1
  | .bpersist ts t k => (bpersist pol m ts t k).1
  | .strPut t k raw => Z.Ref.put m (strK t k) raw
  | .strDel t k => Z.Ref.del m (strK t k)

def run (pol : Pol) (m : List KV) (cs : List Cmd) : List KV := cs.foldl (step pol) m

/-- what the server admits: table names fit the length field; stored strings are far below 2^50 bytes (MaxValueSize) -/
def Admitted : Cmd → Prop
  | .setbit _ t _ _ _ => t.length < 65536
  | .strPut _ _ raw => raw.length < 1125899906842624
  | _ => True

/-- every stored string is shorter than 2^50 bytes -/
def StrSmall (m : List KV) : Prop := ∀ p ∈ m, p.1.head? = some Gen.cKVType → p.2.length < 1125899906842624

theorem C09Bit_aux_mem_applyW : ∀ (wb : List WOp) (m : List KV) (p : KV), p ∈ applyW m wb → p ∈ m ∨ ∃ k v, WOp.put k v ∈ wb ∧ p = (k, v) := by
  intro wb
  induction wb with
  | nil => intro m p hp; exact Or.inl hp
  | cons o t ih =>
    intro m p hp
    have hp' : p ∈ applyW (Z.Coll.applyOp m o) t := hp
    rcases ih _ p hp' with h | ⟨k, v, hkv, he⟩
    · cases o with
      | put k v =>
        rcases Z.Ref.mem_put h with rfl | h
        · exact Or.inr ⟨k, v, List.mem_cons_self, rfl⟩
        · exact Or.inl h
      | del k => exact Or.inl (Z.Ref.mem_del h)
      | delRange a b => exact Or.inl (List.mem_filter.mp h).1
    · exact Or.inr ⟨k, v, List.mem_cons_of_mem _ hkv, he⟩

theorem C09Bit_aux_strSmall_applyW {m : List KV} (S : StrSmall m) (wb : List WOp)
    (h : ∀ k v, WOp.put k v ∈ wb → k.head? ≠ some Gen.cKVType) : StrSmall (applyW m wb) := by
  intro p hp hh
  rcases C09Bit_aux_mem_applyW wb m p hp with hm | ⟨k, v, hkv, rfl⟩
  · exact S p hm hh
  · exact absurd hh (h k v hkv)

theorem C09Bit_aux_seg_not_kv (t v : Bytes) (i : Int) : (segK t v i).head? ≠ some Gen.cKVType := by
  rw [segK_head]; decide
theorem C09Bit_aux_meta_not_kv (t k : Bytes) : (metaK t k).head? ≠ some Gen.cKVType := by
  rw [metaK_head]; decide

theorem C09Bit_aux_strSmall_convert {m : List KV} (S : StrSmall m) (t k : Bytes) : StrSmall (convert m t k).1 := by
  unfold convert
  split
  · exact S
  · simp only
    split
    · exact S
    · apply C09Bit_aux_strSmall_applyW S
      intro k' v' hkv
      rcases List.mem_append.mp hkv with hkv | hkv
      · obtain ⟨c, _, hce⟩ := List.mem_map.mp hkv
        injection hce with h1 _
        rw [← h1]; exact C09Bit_aux_seg_not_kv _ _ _
      · simp at hkv

theorem C09Bit_aux_strSmall_setbit {m : List KV} (S : StrSmall m) (pol : Pol) (ts : Int) (t k : Bytes) (o v : Int) :
    StrSmall (setbit pol m ts t k o v).1 := by
  unfold setbit
  split
  · exact S
  · split
    · exact S
    · split
      · exact S
      · rename_i h ex size0 ok hm
        simp only
        have S1 : StrSmall (startOf m t k size0 ok).1 := by
          unfold startOf; split
          · exact S
          · exact C09Bit_aux_strSmall_convert S t k
        apply C09Bit_aux_strSmall_applyW S1
        intro k' v' hkv
        simp only [List.mem_cons, List.mem_nil_iff, or_false] at hkv
        rcases hkv with hkv | hkv
        · injection hkv with h1 _; rw [h1]; exact C09Bit_aux_seg_not_kv _ _ _
        · injection hkv with h1 _; rw [h1]; exact C09Bit_aux_meta_not_kv _ _

theorem C09Bit_aux_strSmall_sub {m m' : List KV} (S : StrSmall m) (h : ∀ p ∈ m', p ∈ m ∨ p.1.head? ≠ some Gen.cKVType) : StrSmall m' := by
  intro p hp hh
  rcases h p hp with h1 | h1
  · exact S p h1 hh
  · exact absurd hh h1

theorem C09Bit_aux_strSmall_bexpireAt {m : List KV} (S : StrSmall m) (ts : Int) (t k : Bytes) (when : Int) :
    StrSmall (bexpireAt m ts t k when).1 := by
  unfold bexpireAt
  split
  · exact S
  · split
    · exact S
    · split
      · exact S
      · exact S
      · apply C09Bit_aux_strSmall_sub S
        intro p hp
        rcases Z.Ref.mem_put hp with rfl | hp
        · exact Or.inr (C09Bit_aux_meta_not_kv _ _)
        · exact Or.inl hp

/-- **every command keeps the store well-formed** (and its strings short) -/
theorem C09Bit_step_keeps (pol : Pol) {m : List KV} (W : WF m) (S : StrSmall m) (c : Cmd) (hc : Admitted c) :
    WF (step pol m c) ∧ StrSmall (step pol m c) := by
  cases c with
  | setbit ts t k o v =>
    refine ⟨W.setbit pol ts t k o v hc ?_, C09Bit_aux_strSmall_setbit S pol ts t k o v⟩
    intro raw hg
    exact S _ ((Z.Coll.get_eq_some_iff W.sorted _ _).mp hg) (strK_head _ _)
  | bitclear ts t k =>
    refine ⟨W.bitclear pol ts t k, ?_⟩
    show StrSmall (bitclear pol m ts t k).1
    unfold bitclear
    cases mview pol m ts t k with
    | bad e => exact S
    | mv h ex =>
      simp only
      generalize clearSize h = bm
      by_cases hcl : (ex || bm == 0) = true
      · rw [if_pos hcl]; exact S
      · rw [if_neg hcl]
        cases pol
        · exact C09Bit_aux_strSmall_applyW S _ (by intro k' v' h; simp at h)
        · apply C09Bit_aux_strSmall_applyW S
          intro k' v' h
          rcases List.mem_cons.mp h with h | h
          · cases h
          · split at h
            · simp at h
            · obtain ⟨p, _, hp⟩ := List.mem_map.mp h; cases hp
  | bexpire ts t k d =>
    exact ⟨W.bexpire ts t k d, C09Bit_aux_strSmall_bexpireAt S ts t k _⟩
  | bpersist ts t k =>
    refine ⟨W.bpersist pol ts t k, ?_⟩
    show StrSmall (bpersist pol m ts t k).1
    unfold bpersist
    cases pol with
    | compact => exact C09Bit_aux_strSmall_bexpireAt S ts t k 0
    | «local» =>
      simp only
      split
      · exact S
      · split <;> exact S
  | strPut t k raw =>
    refine ⟨W.put_other _ _ (by rw [strK_head]; decide), ?_⟩
    intro p hp hh
    rcases Z.Ref.mem_put hp with rfl | hp
    · exact hc
    · exact S p hp hh
  | strDel t k =>
    exact ⟨W.del _, fun p hp hh => S p (Z.Ref.mem_del hp) hh⟩

/-- **the invariant holds after EVERY sequence of admitted commands** from the empty store, in both layouts -/
theorem C09Bit_wf_reachable (pol : Pol) (cs : List Cmd) (hc : ∀ c ∈ cs, Admitted c) : WF (run pol [] cs) := by
  have key : ∀ (cs : List Cmd) (m : List KV), WF m → StrSmall m → (∀ c ∈ cs, Admitted c) → WF (run pol m cs) := by
    intro cs
    induction cs with
    | nil => intro m W _ _; exact W
    | cons c t ih =>
      intro m W S hc
      obtain ⟨W', S'⟩ := C09Bit_step_keeps pol W S c (hc c List.mem_cons_self)
      exact ih _ W' S' (fun c' hc' => hc c' (List.mem_cons_of_mem _ hc'))
  exact key cs [] WF.nil (fun p hp => by cases hp) hc

/-- **C09 for every reachable store**: after any sequence of admitted commands from the empty store, BITCOUNT of a live bitmap
    = the GETBIT enumeration over the byte range, for every start / end -/
theorem C09Bit_bitcount_eq_enum_reachable (pol : Pol) (cs : List Cmd) (hc : ∀ c ∈ cs, Admitted c) (now : Int) (table rk : Bytes)
    (ht : table.length < 65536) (h : Hdr) (ex : Bool) (size : Int)
    (hm : bmeta pol (run pol [] cs) now table rk = .mk h ex size true) (start stop : Int) :
    bitcount pol (run pol [] cs) now table rk start stop =
      .ok (enumBits pol (run pol [] cs) now table rk (rangeOf start stop size).1 (rangeOf start stop size).2 : Nat) :=
  C09Bit_bitcount_eq_enum pol (C09Bit_wf_reachable pol cs hc) now table rk ht h ex size hm start stop

/-! ### regression examples and non-vacuity: concrete runs with the real codec (table "t", key "b") -/
section Example
def wT : Bytes := [116]
def wK : Bytes := [98]
def wTs : Int := 1600000000000000000
/-- SETBIT b 0 1 ; SETBIT b 8192 1 ; SETBIT b 9 1 -/
def wCmds : List Cmd := [.setbit wTs wT wK 0 1, .setbit (wTs + 1) wT wK 8192 1, .setbit (wTs + 2) wT wK 9 1]
def wS (pol : Pol) : List KV := run pol [] wCmds

theorem C09Bit_aux_wS_wf (pol : Pol) : WF (wS pol) :=
  C09Bit_wf_reachable pol wCmds (by intro c hc; simp [wCmds] at hc; rcases hc with rfl | rfl | rfl <;> (show wT.length < 65536; decide))

set_option maxRecDepth 100000 in
theorem C09Bit_aux_wS_meta : bmeta .compact (wS .compact) (wTs + 3) wT wK = .mk ⟨0, wTs, some (metaUser 1025 (wTs + 2))⟩ false 1025 true := by decide

set_option maxRecDepth 100000 in
/-- **regression (defect repaired by d794a70, segments behind `end`)**: after SETBIT b 0 1, SETBIT b 8192 1, SETBIT b 9 1 the code
    answered `BITCOUNT b 0 0 = 2`; now 1 = the one offset of byte 0 whose GETBIT is 1; both layouts -/
theorem C09Bit_regression_behind_end (pol : Pol) :
    bitcount pol (wS pol) (wTs + 3) wT wK 0 0 = .ok 1 ∧ bitcountSpec pol (wS pol) (wTs + 3) wT wK 0 0 = .ok 1 ∧
    (List.range 8).map (fun o => getbit pol (wS pol) (wTs + 3) wT wK (o : Nat)) = [.ok 1, .ok 0, .ok 0, .ok 0, .ok 0, .ok 0, .ok 0, .ok 0] ∧
    bitcount pol (wS pol) (wTs + 3) wT wK 0 (-1) = .ok 3 ∧ bitcount pol (wS pol) (wTs + 3) wT wK 1024 1024 = .ok 1 := by
  cases pol <;> decide

set_option maxRecDepth 100000 in
/-- **regression (defect repaired by d794a70, short start segment)**: on the same store `BITCOUNT b 5 1024` panicked
    (`bmv[5:2]`: segment 0 is 2 bytes long); now 1 (offset 8192), `BITCOUNT b 1023 1024` likewise -/
theorem C09Bit_regression_short_start_segment (pol : Pol) :
    bitcount pol (wS pol) (wTs + 3) wT wK 5 1024 = .ok 1 ∧ bitcount pol (wS pol) (wTs + 3) wT wK 1023 1024 = .ok 1 ∧
    bitcount pol (wS pol) (wTs + 3) wT wK 5 6 = .ok 0 ∧ bitcountSpec pol (wS pol) (wTs + 3) wT wK 5 1024 = .ok 1 := by
  cases pol <;> decide

set_option maxRecDepth 100000 in
/-- the hypotheses of `C09Bit_bitcount_eq_enum` hold on the reachable store above; two of its instances -/
example : bitcount .compact (wS .compact) (wTs + 3) wT wK 0 0 =
    .ok (enumBits .compact (wS .compact) (wTs + 3) wT wK (rangeOf 0 0 1025).1 (rangeOf 0 0 1025).2 : Nat) :=
  C09Bit_bitcount_eq_enum .compact (C09Bit_aux_wS_wf .compact) (wTs + 3) wT wK (by decide) _ _ _ C09Bit_aux_wS_meta 0 0

set_option maxRecDepth 100000 in
example : bitcount .compact (run .compact [] wCmds) (wTs + 3) wT wK 5 1024 =
    .ok (enumBits .compact (run .compact [] wCmds) (wTs + 3) wT wK (rangeOf 5 1024 1025).1 (rangeOf 5 1024 1025).2 : Nat) :=
  C09Bit_bitcount_eq_enum_reachable .compact wCmds
    (by intro c hc; simp [wCmds] at hc; rcases hc with rfl | rfl | rfl <;> (show wT.length < 65536; decide))
    (wTs + 3) wT wK (by decide) _ _ _ C09Bit_aux_wS_meta 5 1024

example : (if Gen.bitCountInverted (cutOf 5 1024 0 [128, 64]).1 (cutOf 5 1024 0 [128, 64]).2 then (cutOf 5 1024 0 [128, 64]).2
    else (cutOf 5 1024 0 [128, 64]).1) = 2 ∧ (cutOf 5 1024 0 [128, 64]) = (5, 2) := by decide

set_option maxRecDepth 100000 in
theorem C09Bit_aux_wS_sizeOK : SizeOK .compact (wS .compact) wT wK := by
  -- three SETBITs on the key: the first starts a fresh generation, the others keep the invariant
  have W0 : WF (run .compact [] []) := WF.nil
  have S1 : SizeOK .compact (setbit .compact [] wTs wT wK ((0 : Nat) : Int) 1).1 wT wK :=
    C09Bit_sizeOK_setbit_self .compact WF.nil wTs wT wK 0 1 (by decide) (by unfold inI64 wTs; omega) (Or.inr rfl) (by decide)
      fresh false 0 false (by decide) (Or.inr rfl) (fun j v _ hg => by cases hg)
  have W1 : WF (setbit .compact [] wTs wT wK ((0 : Nat) : Int) 1).1 := WF.nil.setbit .compact _ wT wK _ _ (by decide) (by intro v h; cases h)
  have S2 : SizeOK .compact (setbit .compact (setbit .compact [] wTs wT wK ((0 : Nat) : Int) 1).1 (wTs + 1) wT wK ((8192 : Nat) : Int) 1).1 wT wK := by
    refine C09Bit_sizeOK_setbit_self .compact W1 (wTs + 1) wT wK 8192 1 (by decide) (by unfold inI64 wTs; omega) (Or.inr rfl) (by decide)
      ⟨0, wTs, some (metaUser 1 wTs)⟩ false 1 true (by decide) (Or.inl rfl) ?_
    intro j v hj hg
    exact S1 (wTs + 1) _ _ _ (show bmeta .compact _ (wTs + 1) wT wK = .mk ⟨0, wTs, some (metaUser 1 wTs)⟩ false 1 true by decide) j v hj hg
  have W2 : WF (setbit .compact (setbit .compact [] wTs wT wK ((0 : Nat) : Int) 1).1 (wTs + 1) wT wK ((8192 : Nat) : Int) 1).1 :=
    W1.setbit .compact _ wT wK _ _ (by decide) (by
      intro v hv
      have : get (setbit .compact [] wTs wT wK ((0 : Nat) : Int) 1).1 (strK wT wK) = none := by decide
      rw [this] at hv; cases hv)
  refine C09Bit_sizeOK_setbit_self .compact W2 (wTs + 2) wT wK 9 1 (by decide) (by unfold inI64 wTs; omega) (Or.inr rfl) (by decide)
      ⟨0, wTs, some (metaUser 1025 (wTs + 1))⟩ false 1025 true (by decide) (Or.inl rfl) ?_
  intro j v hj hg
  exact S2 (wTs + 2) _ _ _ (show bmeta .compact _ (wTs + 2) wT wK = .mk ⟨0, wTs, some (metaUser 1025 (wTs + 1))⟩ false 1025 true by decide) j v hj hg

example : WF (run .local [] (wCmds ++ [.strPut wT wK [1, 2, 3], .setbit (wTs + 9) wT [99] 5 1, .bitclear (wTs + 10) wT wK])) :=
  C09Bit_wf_reachable .local _ (by
    intro c hc
    simp [wCmds] at hc
    rcases hc with rfl | rfl | rfl | rfl | rfl | rfl <;> first | trivial | (show wT.length < 65536; decide) | (show ([1, 2, 3] : Bytes).length < 1125899906842624; decide))
end Example

end Z.Props.C09Bit
