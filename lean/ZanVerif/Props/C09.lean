/-
  C09 — counting commands agree with enumerating commands.
  The size-meta invariant of a hash over the sorted reference store (`Z.HashInv`), with the key codec
  abstracted by exactly the facts C12 proves of the real encoders (field keys injective, meta keys
  injective and never field keys, range exactness): stored size = number of field keys in the
  collection's range, meta present iff non-empty — preserved by HSET and by HINCRBY (`Z.HashIncr`: new field,
  existing field, error; also on the raw increment argument). The equalities on the real store
  (all five types, all enumerating commands) are judged by the `inv` oracle of protocol `data` after
  every apply event.
-/
import ZanVerif.Data.HashInv
import ZanVerif.Data.HashRef
import ZanVerif.Data.HashIncr
import ZanVerif.Data.HashToy

namespace Z.Props.C09

/-- HSET (new field or overwrite) preserves: HLEN = number of stored fields, meta present ⇔ non-empty -/
theorem C09_inv_hset (E : Z.HashInv.Enc) {m : List Z.Ref.KV} (inv : Z.HashInv.Inv E m) (k f v : Z.Ref.Bytes) :
    Z.HashInv.Inv E (Z.HashInv.hset E m k f v) := Z.HashInv.inv_hset E inv k f v

/-- under the invariant, the count reported equals what a range scan of the collection enumerates, and a
    hash "exists" iff it has at least one element -/
theorem C09_hlen_eq_enumeration (E : Z.HashInv.Enc) {m : List Z.Ref.KV} (inv : Z.HashInv.Inv E m) (k : Z.Ref.Bytes) :
    Z.HashInv.hlen E m k = (Z.Ref.scan m (E.start k) (E.stop k)).length ∧
    (Z.Ref.get m (E.metaK k) = none ↔ (Z.Ref.scan m (E.start k) (E.stop k)).length = 0) :=
  ⟨inv.size k, inv.metaIff k⟩


/-- HINCRBY preserves: HLEN = number of stored fields, meta present ⇔ non-empty — whether it creates the field (size
    meta + 1 in the same step), overwrites it (size meta untouched), or answers an error (nothing written) -/
theorem C09_inv_hincrby (E : Z.HashInv.Enc) {m : List Z.Ref.KV} (inv : Z.HashInv.Inv E m) (k f : Z.Ref.Bytes) (d : Int) :
    Z.HashInv.Inv E (Z.HashIncr.hincrby E m k f d).1 := Z.HashIncr.inv_hincrby E inv k f d

/-- … and so does the command on the raw increment argument (ill-formed increments included) -/
theorem C09_inv_hincrby_cmd (E : Z.HashInv.Enc) {m : List Z.Ref.KV} (inv : Z.HashInv.Inv E m) (k f dtxt : Z.Ref.Bytes) :
    Z.HashInv.Inv E (Z.HashIncr.hincrbyCmd E m k f dtxt).1 := Z.HashIncr.inv_hincrbyCmd E inv k f dtxt

/-- the invariant holds in every state reachable from the empty store by HSET and HINCRBY commands -/
inductive HOp
  | hset (k f v : Z.Ref.Bytes)
  | hincrby (k f dtxt : Z.Ref.Bytes)

def applyOp (E : Z.HashInv.Enc) (m : List Z.Ref.KV) : HOp → List Z.Ref.KV
  | .hset k f v => Z.HashInv.hset E m k f v
  | .hincrby k f dtxt => (Z.HashIncr.hincrbyCmd E m k f dtxt).1

theorem C09_inv_reachable_hset_hincrby (E : Z.HashInv.Enc) (ops : List HOp) :
    Z.HashInv.Inv E (ops.foldl (applyOp E) []) := by
  suffices h : ∀ m, Z.HashInv.Inv E m → Z.HashInv.Inv E (ops.foldl (applyOp E) m) from h [] (Z.HashIncr.inv_empty E)
  induction ops with
  | nil => intro m h; exact h
  | cons o t ih =>
    intro m h
    apply ih
    cases o with
    | hset k f v => exact Z.HashInv.inv_hset E h k f v
    | hincrby k f dtxt => exact Z.HashIncr.inv_hincrbyCmd E h k f dtxt

/-- after HINCRBY the reported count is what the enumeration gives -/
theorem C09_hincrby_hlen_eq_enumeration (E : Z.HashInv.Enc) {m : List Z.Ref.KV} (inv : Z.HashInv.Inv E m)
    (k f : Z.Ref.Bytes) (d : Int) (k' : Z.Ref.Bytes) :
    Z.HashInv.hlen E (Z.HashIncr.hincrby E m k f d).1 k' =
      (Z.Ref.scan (Z.HashIncr.hincrby E m k f d).1 (E.start k') (E.stop k')).length :=
  (C09_inv_hincrby E inv k f d).size k'

/-- non-vacuity: with the concrete codec `Z.HashToy.toyEnc`, HINCRBY h f 5 on the empty store creates the field AND the
    size meta (HLEN 1 = one enumerated field); HINCRBY h f x afterwards keeps HLEN 1; an ill-formed increment too -/
example :
    Z.HashInv.hlen Z.HashToy.toyEnc (Z.HashIncr.hincrby Z.HashToy.toyEnc [] [104] [102] 5).1 [104] = 1 ∧
    (Z.Ref.scan (Z.HashIncr.hincrby Z.HashToy.toyEnc [] [104] [102] 5).1 (Z.HashToy.toyEnc.start [104])
      (Z.HashToy.toyEnc.stop [104])).length = 1 ∧
    Z.HashInv.hlen Z.HashToy.toyEnc
      (Z.HashIncr.hincrbyCmd Z.HashToy.toyEnc (Z.HashIncr.hincrby Z.HashToy.toyEnc [] [104] [102] 5).1 [104] [102] [120]).1 [104] = 1 := by
  decide

example : Z.HashInv.Inv Z.HashToy.toyEnc (Z.HashIncr.hincrby Z.HashToy.toyEnc [] [104] [102] 5).1 :=
  C09_inv_hincrby Z.HashToy.toyEnc (Z.HashIncr.inv_empty Z.HashToy.toyEnc) [104] [102] 5

end Z.Props.C09
