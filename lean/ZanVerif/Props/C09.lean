/-
  C09 — counting commands agree with enumerating commands.
  The size-meta invariant of a hash over the sorted reference store (`Z.HashInv`), with the key codec
  abstracted by exactly the facts C12 proves of the real encoders (field keys injective, meta keys
  injective and never field keys, range exactness): stored size = number of field keys in the
  collection's range, meta present iff non-empty — preserved by HSET. The equalities on the real store
  (all five types, all enumerating commands) are judged by the `inv` oracle of protocol `data` after
  every apply event.
-/
import ZanVerif.Data.HashInv
import ZanVerif.Data.HashRef

namespace Z.Props.C09

/-- HSET (new field or overwrite) preserves: HLEN = number of stored fields, meta present ⇔ non-empty -/
theorem C09_inv_hset (E : Z.HashInv.Enc) {m : List Z.Ref.KV} (inv : Z.HashInv.Inv E m) (k f v : Z.Ref.Bytes) :
    Z.HashInv.Inv E (Z.HashInv.hset E m k f v) := Z.HashInv.inv_hset E inv k f v

/-- under the invariant, the count reported equals what a range scan of the collection enumerates, and a
    hash "exists" iff it has at least one element -/
theorem C09_hlen_eq_enumeration (E : Z.HashInv.Enc) {m : List Z.Ref.KV} (inv : Z.HashInv.Inv E m) (k : Z.Ref.Bytes) :
    Z.HashInv.hlen E m k = (Z.Ref.scan m (E.start k) (E.stop k)).length ∧
    (Z.Ref.get m (E.metaK k) = none ↔ (Z.Ref.scan m (E.start k) (E.stop k)).length = 0) :=
  ⟨inv.size k, inv.metaIff k⟩

end Z.Props.C09
