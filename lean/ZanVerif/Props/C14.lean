/-
  C14 — a checkpoint restores exactly the state at its log index; restoring never damages the
  checkpoint; old checkpoints are only discarded when newer restorable ones are recorded.
  (a) file level (`Z.Ckpt`, inode model of restoreFromPath: hard-linked sst files, copied other files):
      the checkpoint directory's view is unchanged by restore and by any later engine activity;
  (b) purge (`Z.Purge`, tied line by line to the real purgeOldCheckpoint): the newest `keep` checkpoints
      are never removed, and nothing with an index at or above the recorded latest snapshot index is
      removed (so the checkpoint of the newest recorded snapshot always survives).
  "restore yields exactly the data as of index i" on the real engines is judged by the `ckpt` oracle
  (logical dump at backup time vs after restore, checksum of the checkpoint directory before/after).
-/
import ZanVerif.Node.PurgeLemmas
import ZanVerif.Node.Ckpt
import ZanVerif.Node.CkptRestore
import ZanVerif.Gen.Restore

namespace Z.Props.C14
open Z.Purge

/-- the newest `keep` checkpoints always remain: the result drops at most `length - keep` of the oldest -/
theorem C14_purge_keeps_newest (keep latest : Nat) (l : List Ck) :
    ∃ r, purge keep latest l = (sortCk l).drop r ∧ r ≤ (sortCk l).length - keep := by
  unfold purge
  simp only
  split
  · exact ⟨_, rfl, removedCount_le keep latest (sortCk l) ((sortCk l).length - keep)⟩
  · exact ⟨0, by simp, Nat.zero_le _⟩

/-- nothing at or above the latest recorded snapshot index is removed, provided indexes do not decrease
    along the (term, index) order (a later term's snapshot has a later index) -/
theorem C14_purge_safe (keep latest : Nat) (l : List Ck)
    (hmono : ∀ (i j : Nat) (ci cj : Ck), i ≤ j → (sortCk l)[i]? = some ci → (sortCk l)[j]? = some cj → (ci.2 : Nat) ≤ (cj.2 : Nat))
    (i : Nat) (c : Ck) (hi : (sortCk l)[i]? = some c)
    (hrem : (sortCk l).length > keep ∧ i < removedCount keep latest (sortCk l) ((sortCk l).length - keep)) :
    c.2 < latest := by
  obtain ⟨_, hlt⟩ := hrem
  obtain ⟨c', h1, h2⟩ := removed_witness keep latest (sortCk l) ((sortCk l).length - keep) (Nat.le_refl _) i hlt
  have e : (sortCk l).length - keep - ((sortCk l).length - keep) + i + keep = i + keep := by omega
  rw [e] at h1
  have := hmono i (i + keep) c c' (by omega) hi h1
  omega

open Z.Ckpt in
/-- file level: restore keeps the checkpoint's view; so does any later engine activity -/
theorem C14_restore_keeps_checkpoint (same : Bytes → Bytes → Bool) (fs : FS) (inv : Inv fs) :
    Inv (restore same fs) ∧ (restore same fs).dirK = fs.dirK ∧
      ∀ n, view (restore same fs) fs.dirK n = view fs fs.dirK n := restore_keeps same fs inv

open Z.Ckpt in
theorem C14_engine_activity_keeps_checkpoint (fs : FS) (inv : Inv fs) (ops : List Op) :
    ∀ n, view (ops.foldl step fs) (ops.foldl step fs).dirK n = view fs fs.dirK n := ops_keep fs inv ops

open Z.Ckpt in
/-- file level, the other direction: **after a restore the engine directory holds exactly the checkpoint's files** — every
    name that is not a LOG file reads the bytes the checkpoint holds under it, a name the checkpoint does not have is
    gone — for every previous content of the engine directory and every answer of the "same sst" heuristic
    (`isSameSSTFile` compares name, size and the last 256 kB only): the hard-link copy replaces whatever is not the
    checkpoint's own inode. The statement structure of `restoreFromPath` and `CopyFileForHardLink` the model follows is
    pinned by the regenerated `Gen.restoreShape` / `Gen.hardLinkCopyReplaces` (a changed order — e.g. listing before
    closing the engine — or another early return breaks the tie). -/
theorem C14_restore_yields_checkpoint_files (same : Bytes → Bytes → Bool) (fs : FS) (inv : Inv fs)
    (hnd : (fs.dirK.map (·.1)).Nodup) (_shape : Gen.restoreShape = true ∧ Gen.hardLinkCopyReplaces = true)
    (n : Name) (hl : isLog n = false) :
    view (restore same fs) (restore same fs).dirD n = view fs fs.dirK n :=
  restore_yields_checkpoint same fs inv hnd n hl

open Z.Ckpt in
/-- non-vacuity: the engine directory holds a DIFFERENT file under the checkpoint's sst name, the heuristic says "same",
    a stale WAL and a stale sst lie around: after the restore every name reads what the checkpoint holds -/
def exFS : FS :=
  { dirD := [("000006.sst", 10), ("000009.log", 11), ("000007.sst", 12), ("LOG", 13)],
    dirK := [("000006.sst", 1), ("MANIFEST-000001", 2), ("CURRENT", 3)],
    content := fun i => if i = 1 then [1, 1] else if i = 2 then [2] else if i = 3 then [3] else if i = 10 then [9, 9] else [7],
    next := 20 }
open Z.Ckpt in
theorem exInv : Inv exFS := by
  refine ⟨?_, ?_, ?_⟩
  · intro x hx; simp [exFS] at hx; rcases hx with rfl | rfl | rfl <;> simp [exFS]
  · intro x hx; simp [exFS] at hx; rcases hx with rfl | rfl | rfl | rfl <;> simp [exFS]
  · intro x hx ⟨y, hy, e⟩
    simp [exFS] at hx hy
    rcases hx with rfl | rfl | rfl | rfl <;> rcases hy with rfl | rfl | rfl <;> simp at e
open Z.Ckpt in
example (n : Name) (hl : isLog n = false) :
    view (restore (fun _ _ => true) exFS) (restore (fun _ _ => true) exFS).dirD n = view exFS exFS.dirK n :=
  C14_restore_yields_checkpoint_files _ exFS exInv (by decide) ⟨rfl, rfl⟩ n hl
example : Gen.restoreShape = true ∧ Gen.hardLinkCopyReplaces = true := ⟨rfl, rfl⟩

/-! ### the write-back cache around checkpoints (HyperLogLog writes are acknowledged while they are still in a cache)

Model: the logical content = the engine's content overridden by the dirty cache entries. `Backup` flushes first (pinned:
`Gen.backupFlushesCacheFirst`), a restore ends in `reOpenEng`, which installs a fresh cache (pinned: `Gen.reopenStartsWithFreshCache`). -/

/-- engine content overridden by the dirty cache -/
def logical {K V : Type} [DecidableEq K] (eng : K → Option V) (dirty : List (K × V)) : K → Option V :=
  fun k => match dirty.find? (·.1 == k) with
    | some p => some p.2
    | none => eng k

/-- flushing writes every dirty entry into the engine, oldest first (the newest value of a key wins, as `find?` reads it) -/
def flush {K V : Type} [DecidableEq K] (eng : K → Option V) (dirty : List (K × V)) : K → Option V :=
  dirty.foldr (fun p e => fun k => if k = p.1 then some p.2 else e k) eng

theorem flush_eq_logical {K V : Type} [DecidableEq K] (eng : K → Option V) (dirty : List (K × V)) :
    flush eng dirty = logical eng dirty := by
  funext k
  induction dirty with
  | nil => rfl
  | cons p t ih =>
    unfold flush logical at *
    simp only [List.foldr_cons, List.find?_cons]
    by_cases h : k = p.1
    · subst h; simp
    · have : (p.1 == k) = false := by simp; exact fun e => h e.symm
      simp only [h, if_false, this]
      exact ih

/-- **the checkpoint holds every acknowledged write**: what `Backup` hands to the checkpoint (the engine after the flush it
    performs first) is the logical content at that moment, dirty cache entries included — for every engine content and cache -/
theorem C14_backup_sees_cached_writes {K V : Type} [DecidableEq K] (eng : K → Option V) (dirty : List (K × V))
    (_pin : Gen.backupFlushesCacheFirst = true) :
    (if Gen.backupFlushesCacheFirst then flush eng dirty else eng) = logical eng dirty := by
  simp only [Gen.backupFlushesCacheFirst, if_true]
  exact flush_eq_logical eng dirty

/-- **after a restore nothing of the previous history survives in the cache**: the logical content is the restored engine's -/
theorem C14_restore_forgets_cache {K V : Type} [DecidableEq K] (restored : K → Option V) (oldDirty : List (K × V))
    (_pin : Gen.reopenStartsWithFreshCache = true) :
    logical restored (if Gen.reopenStartsWithFreshCache then [] else oldDirty) = restored := by
  simp only [Gen.reopenStartsWithFreshCache, if_true]
  rfl

example : logical (fun k => if k = 1 then some 10 else none) [(2, 5), (1, 7)] 1 = some 7 := by decide
example : flush (fun (k : Nat) => if k = 1 then some 10 else none) [(2, 5), (1, 7)] 2 = some 5 := by decide

/-! non-vacuity: 5 checkpoints, keep 2, latest recorded snapshot index 40 -/
example : purge 2 40 [(1, 10), (1, 20), (2, 30), (2, 40), (3, 50)] = [(1, 20), (2, 30), (2, 40), (3, 50)] := by decide

end Z.Props.C14
