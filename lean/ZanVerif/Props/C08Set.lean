/-
  C08 — commands behave like redis on per-type keyspaces (SET family, local-deletion layout).
  Refinement of the executable storage-level set model `Z.SetExec` (the functions the `datacoreset`
  correspondence runs against a real KVNode, with the real key codec) to the plain redis set
  `key ↦ finite set of members`, kept as the strictly increasing list of the members (`Z.SetInv.abs`):
  every modelled command answers what the specification answers, every write commutes with the abstraction and
  leaves the other sets alone, an error reply leaves the store unchanged, and the leader-side pre-checks that answer
  without raft answer what the specification would answer and skip only writes that would change nothing.
  For every codec satisfying `Z.SetInv.Enc`; the real codec satisfies it on admitted keys (`Z.SetReal.realEnc`).
  Code-level deviations from redis that the model reproduces (they are what the code does): SPOP / SRANDMEMBER are
  deterministic (first members in key order), SRANDMEMBER without count answers an ARRAY of one member,
  SMEMBERS / SPOP / SRANDMEMBER answer `batchsize` above MAX_BATCH_NUM members.
-/
import ZanVerif.Data.SetRef
import ZanVerif.Data.SetReal

namespace Z.Props.C08
open Z.Ref Z.Coll Z.SetExec Z.SetInv Z.SetRef

variable {κ : Type} [DecidableEq κ]

/-- SADD: new abstraction = old one with the arguments inserted (other sets untouched); reply = number of members gained -/
theorem C08_set_sadd_refines (E : Enc κ) {m : List KV} (hm : Sorted m) (ts : Int) (k : κ) (args : List Bytes) {n : Nat}
    (h : (sadd E.toEncFns m ts k args).2 = .ok n) :
    (∀ k', abs E (sadd E.toEncFns m ts k args).1 k' = if k' = k then specAdd (abs E m k) args else abs E m k') ∧
    n + (abs E m k).length = (specAdd (abs E m k) args).length := sadd_refines E hm ts k args h

/-- an SADD error (`batchsize`, `subkeylen`) changes nothing -/
theorem C08_set_sadd_error (E : Enc κ) {m : List KV} {ts : Int} {k : κ} {args : List Bytes} {e : String}
    (h : (sadd E.toEncFns m ts k args).2 = .error e) : (sadd E.toEncFns m ts k args).1 = m := sadd_error E h

/-- SREM: new abstraction = old one without the arguments; reply = number of members lost -/
theorem C08_set_srem_refines (E : Enc κ) {m : List KV} (hm : Sorted m) (ts : Int) (k : κ) (args : List Bytes) {n : Nat}
    (h : (srem E.toEncFns m ts k args).2 = .ok n) :
    (∀ k', abs E (srem E.toEncFns m ts k args).1 k' = if k' = k then specRem (abs E m k) args else abs E m k') ∧
    n + (specRem (abs E m k) args).length = (abs E m k).length := srem_refines E hm ts k args h

theorem C08_set_srem_error (E : Enc κ) {m : List KV} {ts : Int} {k : κ} {args : List Bytes} {e : String}
    (h : (srem E.toEncFns m ts k args).2 = .error e) : (srem E.toEncFns m ts k args).1 = m := srem_error E h

/-- SPOP count (1 … MAX_BATCH_NUM): answers the first `count` members in key order and removes exactly those -/
theorem C08_set_spop_refines (E : Enc κ) {m : List KV} (inv : Inv E m) (ts : Int) (k : κ) (count : Int)
    (h1 : 1 ≤ count) (h2 : count ≤ (maxBatch : Int)) :
    (spop E.toEncFns m ts k count).2 = .ok ((abs E m k).take count.toNat) ∧
    ∀ k', abs E (spop E.toEncFns m ts k count).1 k' = if k' = k then (abs E m k).drop count.toNat else abs E m k' :=
  spop_refines E inv ts k count h1 h2

omit [DecidableEq κ] in
/-- SPOP with a count outside 1 … MAX_BATCH_NUM answers an error and changes nothing -/
theorem C08_set_spop_error (E : Enc κ) {m : List KV} (ts : Int) (k : κ) (count : Int) (h : count < 1 ∨ (maxBatch : Int) < count) :
    ∃ e, spop E.toEncFns m ts k count = (m, .error e) := spop_error E ts k count h

/-- SCLEAR: reply 1 iff the set had members; afterwards it has none; other sets untouched -/
theorem C08_set_sclear_refines (E : Enc κ) {m : List KV} (inv : Inv E m) (k : κ) :
    (sclear E.toEncFns m k).2 = (if abs E m k = [] then 0 else 1) ∧
    ∀ k', abs E (sclear E.toEncFns m k).1 k' = if k' = k then [] else abs E m k' := sclear_refines E inv k

/-- the reads answer the abstraction: SCARD, SMEMBERS, SRANDMEMBER count, SISMEMBER, SKEYEXIST -/
theorem C08_set_reads_refine (E : Enc κ) {m : List KV} (inv : Inv E m) (k : κ) :
    scard E.toEncFns m k = (abs E m k).length ∧
    smembers E.toEncFns m k = (if (abs E m k).length ≤ maxBatch then .ok (abs E m k) else .error "batchsize") ∧
    (∀ n : Int, 1 ≤ n → n ≤ (maxBatch : Int) → srandmember E.toEncFns m k n = .ok ((abs E m k).take n.toNat)) ∧
    (∀ a, okSub a = true → sismember E.toEncFns m k a = .ok (if a ∈ abs E m k then 1 else 0)) ∧
    skeyexist E.toEncFns m k = (if abs E m k = [] then 0 else 1) :=
  ⟨scard_refines E inv k, smembers_refines E inv k, fun n h1 h2 => srandmember_refines E inv k n h1 h2,
   fun a ha => sismember_refines E inv k a ha, skeyexist_refines E inv k⟩

/-- the abstraction is a set: strictly increasing, hence duplicate free -/
theorem C08_set_abs_is_set (E : Enc κ) {m : List KV} (hm : Sorted m) (k : κ) :
    (abs E m k).Pairwise (· < ·) ∧ (abs E m k).Nodup := ⟨abs_sorted E hm k, abs_nodup E hm k⟩

/-- leader-side pre-checks (`local:<reply>` status lines): SADD answered locally ⇒ reply 0 and the specification's SADD
    is the identity; SREM answered locally ⇒ reply 0 and the specification's SREM is the identity; SPOP answered
    locally ⇒ the set is empty -/
theorem C08_set_prechecks_sound (E : Enc κ) {m : List KV} (inv : Inv E m) (k : κ) (args : List Bytes) :
    (∀ n, saddPre E.toEncFns m k args = some (.ok n) → n = 0 ∧ specAdd (abs E m k) args = abs E m k) ∧
    (∀ r, sremPre E.toEncFns m k args = some r → r = .ok 0 ∧ specRem (abs E m k) args = abs E m k) ∧
    (spopPre E.toEncFns m k = true → abs E m k = []) :=
  ⟨fun n h => saddPre_sound E inv k args n h, fun r h => sremPre_sound E inv k args r h, fun h => spopPre_sound E inv k h⟩

/-- the specification is the plain set: membership after SADD / SREM -/
theorem C08_set_spec_membership (s args : List Bytes) (x : Bytes) :
    (x ∈ specAdd s args ↔ x ∈ s ∨ x ∈ args) ∧ (x ∈ specRem s args ↔ x ∈ s ∧ x ∉ args) :=
  ⟨mem_specAdd, mem_specRem⟩

/-- the REAL set key codec (the encoders of `Z.Codec`, compared byte for byte with rockredis by C12's run) satisfies
    every abstract codec fact on admitted keys (table without ':', table and key part shorter than 2^16 bytes) -/
theorem C08_set_real_codec_facts (k k' : Z.CollReal.InKey) (a a' x : Bytes) (n : Nat) (ts : Int) :
    (realFns.memK k.pair a = realFns.memK k'.pair a' → k = k' ∧ a = a') ∧
    (realFns.metaK k.pair = realFns.metaK k'.pair → k = k') ∧
    (realFns.metaK k.pair ≠ realFns.memK k'.pair a) ∧
    ((realFns.start k.pair ≤ x ∧ x < realFns.stop k.pair) ↔ ∃ b, x = realFns.memK k.pair b) ∧
    (realFns.memOf k.pair (realFns.memK k.pair a) = a) ∧
    (realFns.memK k.pair a < realFns.memK k.pair a' ↔ a < a') ∧
    (n < 9223372036854775808 → realFns.sizeOf (realFns.encMeta n ts) = n) :=
  ⟨Z.SetReal.mem_inj k a k' a', Z.SetReal.realEnc.meta_inj k k', Z.SetReal.meta_ne_mem k k' a, Z.SetReal.range_iff k x,
   Z.SetReal.memOf_memK k a, Z.SetReal.memK_lt k a a', Z.SetReal.size_rt n ts⟩

/-- the functions of the real instance are literally the functions the `datacoreset` driver runs -/
theorem C08_set_exec_is_model (m : List KV) (ts : Int) (k : Z.CollReal.InKey) (args : List Bytes) (c : Int) (a : Bytes) :
    sadd Z.SetReal.realEnc.toEncFns m ts k args = sadd realFns m ts k.pair args ∧
    srem Z.SetReal.realEnc.toEncFns m ts k args = srem realFns m ts k.pair args ∧
    spop Z.SetReal.realEnc.toEncFns m ts k c = spop realFns m ts k.pair c ∧
    sclear Z.SetReal.realEnc.toEncFns m k = sclear realFns m k.pair ∧
    scard Z.SetReal.realEnc.toEncFns m k = scard realFns m k.pair ∧
    smembers Z.SetReal.realEnc.toEncFns m k = smembers realFns m k.pair ∧
    srandmember Z.SetReal.realEnc.toEncFns m k c = srandmember realFns m k.pair c ∧
    sismember Z.SetReal.realEnc.toEncFns m k a = sismember realFns m k.pair a ∧
    skeyexist Z.SetReal.realEnc.toEncFns m k = skeyexist realFns m k.pair ∧
    saddPre Z.SetReal.realEnc.toEncFns m k args = saddPre realFns m k.pair args ∧
    sremPre Z.SetReal.realEnc.toEncFns m k args = sremPre realFns m k.pair args :=
  ⟨rfl, rfl, rfl, rfl, rfl, rfl, rfl, rfl, rfl, Z.SetReal.saddPre_comap m k args, rfl⟩

/-! non-vacuity: concrete runs with the real codec -/
section Example
open Z.CollReal Z.SetReal
def exKeyS8 : InKey := ⟨[116], [115, 58, 120], by decide, by decide, by decide⟩
def exKeyS8b : InKey := ⟨[116], [115], by decide, by decide, by decide⟩
def exCmdsS8 : List (Cmd InKey) := [.sadd 1 exKeyS8 [[3], [1], [3]], .sadd 2 exKeyS8b [[], [58]], .srem 3 exKeyS8 [[9]]]
def exStoreS8 : List KV := run realEnc [] exCmdsS8
theorem C08_set_example_inv : Inv realEnc exStoreS8 := inv_reachable realEnc exCmdsS8 (by decide)

example : abs realEnc exStoreS8 exKeyS8 = [[1], [3]] := by rfl
example : (sadd realEnc.toEncFns exStoreS8 9 exKeyS8 [[2], [1], [2]]).2 = .ok 1 := by rfl
example : abs realEnc (sadd realEnc.toEncFns exStoreS8 9 exKeyS8 [[2], [1], [2]]).1 exKeyS8 = specAdd [[1], [3]] [[2], [1], [2]] :=
  ((C08_set_sadd_refines realEnc C08_set_example_inv.sorted 9 exKeyS8 [[2], [1], [2]] (n := 1) (by rfl)).1 exKeyS8).trans (by rfl)
example : abs realEnc (sadd realEnc.toEncFns exStoreS8 9 exKeyS8 [[2], [1], [2]]).1 exKeyS8b = abs realEnc exStoreS8 exKeyS8b :=
  ((C08_set_sadd_refines realEnc C08_set_example_inv.sorted 9 exKeyS8 [[2], [1], [2]] (n := 1) (by rfl)).1 exKeyS8b).trans (by rfl)
example : (srem realEnc.toEncFns exStoreS8 9 exKeyS8 [[3], [3], [4]]).2 = .ok 1 := by rfl
example : 1 + (specRem (abs realEnc exStoreS8 exKeyS8) [[3], [3], [4]]).length = (abs realEnc exStoreS8 exKeyS8).length :=
  (C08_set_srem_refines realEnc C08_set_example_inv.sorted 9 exKeyS8 [[3], [3], [4]] (n := 1) (by rfl)).2
example : (spop realEnc.toEncFns exStoreS8 9 exKeyS8 1).2 = .ok [[1]] :=
  (C08_set_spop_refines realEnc C08_set_example_inv 9 exKeyS8 1 (by decide) (by decide)).1
example : ∃ e, spop realEnc.toEncFns exStoreS8 9 exKeyS8 5001 = (exStoreS8, .error e) :=
  C08_set_spop_error realEnc 9 exKeyS8 5001 (Or.inr (by decide))
example : (sclear realEnc.toEncFns exStoreS8 exKeyS8).2 = 1 := (C08_set_sclear_refines realEnc C08_set_example_inv exKeyS8).1
example : smembers realEnc.toEncFns exStoreS8 exKeyS8b = .ok [[], [58]] := by rfl
example : scard realEnc.toEncFns exStoreS8 exKeyS8b = (abs realEnc exStoreS8 exKeyS8b).length :=
  (C08_set_reads_refine realEnc C08_set_example_inv exKeyS8b).1
example : saddPre realFns exStoreS8 exKeyS8.pair [[3], [1]] = some (.ok 0) := by rfl
example : specAdd (abs realEnc exStoreS8 exKeyS8) [[3], [1]] = abs realEnc exStoreS8 exKeyS8 :=
  ((C08_set_prechecks_sound realEnc C08_set_example_inv exKeyS8 [[3], [1]]).1 0 (by rfl)).2
set_option maxRecDepth 100000 in
example : (sadd realFns exStoreS8 9 exKeyS8.pair [List.replicate 10241 0]).2 = .error "subkeylen" := by rfl
set_option maxRecDepth 100000 in
example : (sadd realEnc.toEncFns exStoreS8 9 exKeyS8 [List.replicate 10241 0]).1 = exStoreS8 :=
  C08_set_sadd_error realEnc (e := "subkeylen") (by rfl)
set_option maxRecDepth 100000 in
example : (srem realEnc.toEncFns exStoreS8 9 exKeyS8 [[1], List.replicate 10241 0]).1 = exStoreS8 :=
  C08_set_srem_error realEnc (e := "subkeylen") (by rfl)
example : ([[1], [3]] : List Bytes).Pairwise (· < ·) ∧ ([[1], [3]] : List Bytes).Nodup :=
  C08_set_abs_is_set realEnc C08_set_example_inv.sorted exKeyS8
end Example

end Z.Props.C08
