/-
  C06 — a data node restarted after a crash serves exactly the acknowledged state.
  Property theorems only (minimal set shipped with the protocol `crash`; the ordering model of the
  persist / apply / snapshot path is `ZanVerif/Node/Persist.lean`).
  * certificate side: the driver of protocol `crash` answers "ok" exactly when `CrashCert.checkCrash`
    returned true on the writes a client sent to a real node before it was killed and the dump the node
    served after the restart; the theorems say what acceptance means, for all inputs.
  * model side: recovery is always possible and a running node serves the run of a durable log prefix
    (every interleaving of the sub-steps with crashes at any point), under the ordering obligations the
    model states – in particular "apply only durable entries", which is exactly what §9 F1 is about.
-/
import ZanVerif.Node.CrashCert
import ZanVerif.Node.Persist
import ZanVerif.Gen.WalSync

namespace Z.Props.C06
open Z.LinSpec Z.CrashCert

/-- acceptance of a recorded crash run: the served state is the replay of a prefix of the sent writes
    (error-answered ones optional) with no acknowledged write after it, and the acknowledged replies are
    the specified ones along it -/
theorem C06_crash_certificate_sound (ws : List W) (d : Store) (h : checkCrash ws d = true) :
    Recovered ws d :=
  checkCrash_sound ws d h

example : Recovered exW [(0, .str 1001), (3, .set [4])] := C06_crash_certificate_sound _ _ (by decide)

/-- … hence every acknowledged write is in the replayed sequence, which is a sub-sequence of what was sent
    (nothing that was never proposed) -/
theorem C06_acked_writes_survive (ws : List W) (d : Store) (h : checkCrash ws d = true) :
    ∃ l : List W, run [] (l.map (·.op)) = d ∧ l.Sublist ws ∧ ∀ w ∈ ws, w.st = .ack → w ∈ l :=
  recovered_has_acked (checkCrash_sound ws d h)

example : ∃ l : List W, run [] (l.map (·.op)) = [(0, .str 1001), (3, .set [4])] ∧ l.Sublist exW ∧
    ∀ w ∈ exW, w.st = .ack → w ∈ l := C06_acked_writes_survive _ _ (by decide)

/-- the checker refuses a state that lost an acknowledged write (the shape of §9 F1), a state that is no
    prefix, and a state holding an element that was never sent -/
theorem C06_checker_rejects :
    checkCrash exW [(0, .str 1001)] = false ∧
    checkCrash exW [(0, .str 1000), (3, .set [4])] = false ∧
    checkCrash exW [(0, .str 1001), (3, .set [4, 9])] = false := by decide

section model
open Z.Persist
variable {S C : Type} (ap : S → C → S) (s0 : S)

/-- recovery never gets stuck, whatever the interleaving and the crash point -/
theorem C06_recover_total {s : St S C} (r : Reach ap s0 s) (hd : s.up = false) :
    ∃ s', Step ap s0 s s' ∧ s'.up = true :=
  recover_total ap s0 r hd

/-- a running node serves the run of a prefix of the durable log, every acknowledged index is durable, and
    once the tail is replayed the data is the run of the whole durable log -/
theorem C06_served_state {s : St S C} (r : Reach ap s0 s) (hu : s.up = true) :
    s.data = Z.Persist.run ap s0 (s.log.take s.applied) ∧ (∀ i ∈ s.acked, i ≤ s.log.length) ∧
    (s.applied = s.log.length → s.data = Z.Persist.run ap s0 s.log) :=
  served_state ap s0 r hu

end model

/-- a concrete interleaving: persist 5, apply it, acknowledge index 1, crash with junk in the engine -/
theorem exReach : Z.Persist.Reach (fun (a b : Nat) => a + b) 0
    ⟨[5], 0, false, 0, 99, [], [], [1]⟩ :=
  .step (.step (.step (.step .init (.persist _ 5 rfl)) (.apply _ 5 rfl (Nat.le_refl _) rfl)) (.ack _ 1 rfl (Nat.le_refl _)))
    (.crash _ 99)

example : ∃ s', Z.Persist.Step (fun (a b : Nat) => a + b) 0 ⟨[5], 0, false, 0, 99, [], [], [1]⟩ s' ∧ s'.up = true :=
  C06_recover_total _ _ exReach rfl

example : ∀ i ∈ ([1] : List Nat), i ≤ ([5] : List Nat).length :=
  (C06_served_state (fun (a b : Nat) => a + b) 0
    (Z.Persist.Reach.step exReach (.recoverClean _ rfl rfl rfl)) rfl).2.1

/-! ### the persist-before-publish rule of the raft loop (decision regenerated from node/raft.go shouldWaitWALSync) -/

/-- **nothing unpersisted is handed to the apply loop.**  A Ready carries committed entries ending at (term `tc`, index
    `ic`) and unstable (not yet persisted) entries starting at (term `tu`, index `iu`) of ONE log, whose terms do not
    decrease with the index (`hmono`). If the regenerated test says "no need to wait" then every committed entry of the
    Ready lies strictly below the first unstable one, i.e. is in the WAL already; in the other case processReady persists
    the Ready first (the order of the two statements is pinned by the translator: `Gen.persistPrecedesPublish`). So a
    committed entry is applied — and its write acknowledged — only after it is durable, also when this node alone is
    the quorum. -/
theorem C06_publish_only_persisted (tc ic tu iu : Int) (hmono : iu ≤ ic → tu ≤ tc)
    (h : Gen.shouldWait tc ic tu iu = false) : ic < iu := by
  unfold Gen.shouldWait at h
  simp only [Bool.or_eq_false_iff, decide_eq_false_iff_not, Bool.and_eq_false_iff, beq_eq_false_iff_ne, ne_eq] at h
  obtain ⟨h1, h2⟩ := h
  by_cases hge : iu ≤ ic
  · have := hmono hge
    rcases h2 with h2 | h2
    · omega
    · omega
  · omega

/-- the rule is not vacuous in either direction: a single-voter Ready (committed = unstable entry) waits, a follower's
    Ready whose committed entries are old does not -/
example : Gen.shouldWait 2 7 2 7 = true ∧ Gen.shouldWait 2 5 2 8 = false ∧ Gen.persistPrecedesPublish = true := by decide

/-- and why `≥` matters (the one-entry Ready of a single-voter group): with a strict comparison the Ready (2,7)/(2,7)
    would not wait although its committed entry IS the unstable one -/
example : ¬ ((7 : Int) < 7) := by decide

/-! ### the checkpoint of index i holds exactly the entries up to i (pinned: GetSnapshot waits for the engines' checkpoint call)

The apply loop takes the snapshot of index `i` and, while the engine writes the checkpoint, would go on applying `d` further
entries unless it waits; the checkpoint then holds `i + d` entries although it is named `i`, and a restart restores it and replays the
log from `i + 1`.  With the wait (`Gen.snapshotWaitsForCheckpoint`, regenerated) `d = 0`. State machine: any fold over the log. -/

def runLog {S C : Type} (ap : S → C → S) (s0 : S) (log : List C) : S := log.foldl ap s0

/-- what the node serves after "restore the checkpoint named i, replay the log from i+1", when the checkpoint was written
    while `d` further entries were applied -/
def restoreAndReplay {S C : Type} (ap : S → C → S) (s0 : S) (log : List C) (i d : Nat) : S :=
  runLog ap (runLog ap s0 (log.take (i + d))) (log.drop i)

/-- the number of entries applied while the checkpoint is written: none when the loop waits -/
def appliedMeanwhile (waits : Bool) (d : Nat) : Nat := if waits then 0 else d

/-- **restart from a snapshot = the whole log, once** — for every state machine, log, snapshot index and scheduling of the
    checkpoint writer, given the pinned wait -/
theorem C06_snapshot_restart_applies_once {S C : Type} (ap : S → C → S) (s0 : S) (log : List C) (i d : Nat) :
    restoreAndReplay ap s0 log i (appliedMeanwhile Gen.snapshotWaitsForCheckpoint d) = runLog ap s0 log := by
  unfold restoreAndReplay appliedMeanwhile Gen.snapshotWaitsForCheckpoint runLog
  simp only [if_true, Nat.add_zero]
  rw [← List.foldl_append, List.take_append_drop]

/-- without the wait: one counter increment applied while the checkpoint was written is applied twice after the restart
    (the shape of the repaired defect 2bce29a and of the seeded changes C04-m3 / C04-m5) -/
theorem C06_snapshot_without_wait_witness :
    restoreAndReplay (fun (a b : Nat) => a + b) 0 [1, 1, 1, 1] 2 (appliedMeanwhile false 1) = 5 ∧
    runLog (fun (a b : Nat) => a + b) 0 [1, 1, 1, 1] = 4 := by decide

example : restoreAndReplay (fun (a b : Nat) => a + b) 0 [1, 1, 1, 1] 2 (appliedMeanwhile Gen.snapshotWaitsForCheckpoint 1) = 4 := by decide

end Z.Props.C06
