/-
  C11 — "a command that answers an error has changed nothing", on the executable storage models that are tied line by
  line to the real leader-side validation + apply path (protocols datacorekv / datacoreset / datacorelist / datacorezset;
  datacore / datacorettl for HINCRBY, the one hash write with a data-dependent error; datacorebit for the bitmap commands):
  for every store, key, argument vector and log time, if the reply is an error then the store after the command IS the
  store before it. (On the real code the same statement is judged by the `error-changed-state` oracle of protocol `data`,
  which also commits the shared write batch after the failed command.)
-/
import ZanVerif.Data.KVExec
import ZanVerif.Data.SetExec
import ZanVerif.Data.ListExec
import ZanVerif.Data.ZSetCmd
import ZanVerif.Data.HashExec
import ZanVerif.Data.HashTTLIncrErr
import ZanVerif.Gen.HIncrShape
import ZanVerif.Data.BitInv

namespace Z.Props.C11

/-- closes a goal `(nested ifs / matches).1 = .keep` from the branch facts collected by splitting the hypothesis -/
local macro "kv_close" : tactic =>
  `(tactic| first | (simp_all; done) | (simp_all <;> (repeat' split) <;> first | rfl | (simp_all; done) | omega) | ((repeat' split) <;> first | rfl | (simp_all; done) | omega))

/-! ### KV (value-header layout) -/

open Z.KVExec in
theorem C11_aux_setTail (ts : Int) (v : Bytes) (dur : Int) (c1 c2 : Bool) (e : KErr)
    (h : (if c1 = true then ((Eff.keep, Reply.int 0) : Eff × Reply) else if c2 = true then (Eff.keep, Reply.int 0) else
        match reset ts v dur with
        | .ok raw => (Eff.put raw, Reply.int 1)
        | .err e => (Eff.keep, Reply.err (eerr e))).2 = .err e) :
    (if c1 = true then ((Eff.keep, Reply.int 0) : Eff × Reply) else if c2 = true then (Eff.keep, Reply.int 0) else
        match reset ts v dur with
        | .ok raw => (Eff.put raw, Reply.int 1)
        | .err e => (Eff.keep, Reply.err (eerr e))).1 = .keep := by
  cases c1 <;> cases c2 <;> simp only [Bool.false_eq_true, if_false, if_true] at h ⊢
  cases hr : reset ts v dur with
  | ok raw => rw [hr] at h; cases h
  | err e' => rfl

open Z.KVExec in
theorem C11_aux_setWithOpts (ts : Int) (v : Bytes) (dur : Int) (nx xx : Bool) (V : View) (e : KErr)
    (h : (kvSetWithOpts ts v dur nx xx V).2 = .err e) : (kvSetWithOpts ts v dur nx xx V).1 = .keep := by
  unfold kvSetWithOpts at h ⊢
  by_cases hb : tooBig v = true
  · rw [if_pos hb]
  · rw [if_neg hb] at h ⊢
    cases V with
    | bad raw er => rfl
    | absent => exact C11_aux_setTail ts v dur _ _ e h
    | val raw hd u ex => exact C11_aux_setTail ts v dur _ _ e h

open Z.KVExec in
/-- every single-key KV write of the model: an error reply comes with the `keep` effect -/
theorem C11_kv_cmd_error_keeps (c : KCmd) (ts : Int) (V : View) (e : KErr) (h : (kvCmd c ts V).2 = .err e) :
    (kvCmd c ts V).1 = .keep := by
  cases c with
  | setOpts v dur nx xx =>
    have key := C11_aux_setWithOpts ts v dur nx xx V
    simp only [kvCmd] at h ⊢
    generalize kvSetWithOpts ts v dur nx xx V = r at *
    obtain ⟨eff, rep⟩ := r
    cases rep with
    | int n => by_cases hn : n = 0 <;> simp_all
    | err e' => simp_all
    | _ => simp_all
  | setnx v => exact C11_aux_setWithOpts ts v 0 true false V e h
  | set v => simp only [kvCmd] at h ⊢; (repeat' split at h) <;> kv_close
  | setex dur v => simp only [kvCmd] at h ⊢; (repeat' split at h) <;> kv_close
  | setifeq old new dur => simp only [kvCmd] at h ⊢; (repeat' split at h) <;> kv_close
  | delifeq old => simp only [kvCmd] at h ⊢; (repeat' split at h) <;> kv_close
  | getset v => simp only [kvCmd] at h ⊢; (repeat' split at h) <;> kv_close
  | incrby d => simp only [kvCmd] at h ⊢; (repeat' split at h) <;> kv_close
  | append v => simp only [kvCmd] at h ⊢; (repeat' split at h) <;> kv_close
  | setrange off v => simp only [kvCmd] at h ⊢; (repeat' split at h) <;> kv_close
  | expire dur => simp only [kvCmd] at h ⊢; (repeat' split at h) <;> kv_close
  | persist => simp only [kvCmd] at h ⊢; (repeat' split at h) <;> kv_close
  | del => simp only [kvCmd] at h ⊢; (repeat' split at h) <;> kv_close

open Z.KVExec in
theorem C11_kv_error_no_effect (m : List KV) (ts : Int) (k : Bytes) (c : KCmd) (e : KErr)
    (h : (kvApply m ts k c).2 = .err e) : (kvApply m ts k c).1 = m := by
  simp only [kvApply] at h ⊢
  rw [C11_kv_cmd_error_keeps c ts _ e h]
  rfl

/-! ### set -/

section
variable {κ : Type} (F : Z.SetExec.EncFns κ)
open Z.SetExec

theorem C11_sadd_error_no_effect (m : List Z.Ref.KV) (ts : Int) (k : κ) (args : List Z.Codec.Bytes) (e : String)
    (h : (sadd F m ts k args).2 = .error e) : (sadd F m ts k args).1 = m := by
  unfold sadd at h ⊢
  by_cases h1 : args.length > Z.Coll.maxBatch
  · simp [h1]
  · by_cases h2 : (!(Z.Coll.dedup args).all okSub) = true
    · simp [h1, h2]
    · simp [h1, h2] at h

theorem C11_srem_error_no_effect (m : List Z.Ref.KV) (ts : Int) (k : κ) (args : List Z.Codec.Bytes) (e : String)
    (h : (srem F m ts k args).2 = .error e) : (srem F m ts k args).1 = m := by
  unfold srem at h ⊢
  by_cases h0 : args.isEmpty = true
  · simp [h0]
  · by_cases h1 : args.length > Z.Coll.maxBatch
    · simp [h0, h1]
    · by_cases h2 : (!(Z.Coll.dedup args).all okSub) = true
      · simp [h0, h1, h2]
      · simp [h0, h1, h2] at h
end

/-! ### list -/

section
variable {κ : Type} (F : Z.ListExec.EncFns κ)
open Z.ListExec

theorem C11_lpush_error_no_effect (m : List Z.Ref.KV) (ts : Int) (k : κ) (atTail : Bool) (args : List Z.Codec.Bytes)
    (e : String) (h : (lpush F m ts k atTail args).2 = .error e) : (lpush F m ts k atTail args).1 = m := by
  unfold lpush at h ⊢
  (repeat' split at h) <;> kv_close

theorem C11_lset_error_no_effect (m : List Z.Ref.KV) (ts : Int) (k : κ) (index : Int) (v : Z.Codec.Bytes)
    (e : String) (h : (lset F m ts k index v).2 = .error e) : (lset F m ts k index v).1 = m := by
  unfold lset at h ⊢
  (repeat' split at h) <;> kv_close

theorem C11_ltrim_error_no_effect (m : List Z.Ref.KV) (ts : Int) (k : κ) (a b : Int)
    (e : String) (h : (ltrim F m ts k a b).2 = .error e) : (ltrim F m ts k a b).1 = m := by
  unfold ltrim at h ⊢
  (repeat' split at h) <;> kv_close

theorem C11_lpop_error_no_effect (m : List Z.Ref.KV) (ts : Int) (k : κ) (atTail : Bool)
    (e : String) (h : (lpop F m ts k atTail).2 = .error e) : (lpop F m ts k atTail).1 = m := by
  unfold lpop at h ⊢
  (repeat' split at h) <;> kv_close
end

/-! ### sorted set: the command layer commits the collected write batch only when the command succeeded -/

open Z.ZSetCmd Z.ZSetExec in
theorem C11_zset_intReply_error {α : Type} (f : α → Reply) (hf : ∀ a e, f a ≠ .err e) (m : List Z.Ref.KV)
    (r : Except String (List Op × α)) (e : String) (h : (intReply f m r).2 = .err e) : (intReply f m r).1 = m := by
  unfold intReply commit at h ⊢
  cases r with
  | error e' => rfl
  | ok p => exact absurd h (hf _ _)

open Z.ZSetCmd Z.ZSetExec in
theorem C11_aux_scoreReply_ne_err (a : Nat) (e : String) : scoreReply a ≠ Reply.err e := by
  unfold scoreReply; split <;> simp

open Z.ZSetCmd Z.ZSetExec in
/-- every sorted-set write command of the model (ZADD ZREM ZINCRBY ZREMRANGEBYRANK/SCORE/LEX ZCLEAR), every argument
    vector: an error reply leaves the store as it was -/
theorem C11_zset_error_no_effect (m : List Z.Ref.KV) (ts : Int) (cmd : String) (k : Z.Ref.Bytes) (rest : List Z.Ref.Bytes)
    (e : String) (h : (apply m ts cmd k rest).2 = Reply.err e) : (apply m ts cmd k rest).1 = m := by
  have hi : ∀ (a : Int) (e : String), Reply.int a ≠ Reply.err e := by intro a e h; cases h
  have key : ∀ r, apply m ts cmd k rest = r → r.2 = Reply.err e → r.1 = m := by
    intro r hr
    unfold apply at hr
    (repeat' (first | split at hr | (dsimp only at hr))) <;> subst hr <;> intro h' <;>
      first
      | rfl
      | exact C11_zset_intReply_error _ hi _ _ e h'
      | exact C11_zset_intReply_error _ C11_aux_scoreReply_ne_err _ _ e h'
      | (cases h')
  exact key _ rfl h


/-! ### hash: HINCRBY (the only hash write whose error depends on stored data: old value not an integer / beyond int64;
    ill-formed increment), both storage layouts -/

/-- local-deletion layout (`Z.HashExec`, any codec functions): HINCRBY on the raw increment argument — an error answer
    (increment or stored value: notint / numrange) leaves the store exactly as it was -/
theorem C11_hincrby_error_no_effect (F : Z.HashExec.EncFns) (m : List Z.Ref.KV) (k f dtxt : Z.Ref.Bytes)
    (e : Z.HashIncr.IErr) (h : (Z.HashExec.hincrbyCmd F m k f dtxt).2 = .err e) :
    (Z.HashExec.hincrbyCmd F m k f dtxt).1 = m :=
  Z.HashIncr.cmdWith_error m dtxt _ e (fun d hd => Z.HashIncr.incrWith_error m _ d _ e hd) h

/-- value-header layout (`Z.HashTTLExec`): the same, for every log time — the errors are an ill-formed increment, a
    stored value that is not an integer / out of range, and a size meta that does not decode -/
theorem C11_hincrby_error_no_effect_ttl (m : List Z.Ref.KV) (ts : Int) (table k f dtxt : Z.Ref.Bytes) (e : Z.KVExec.KErr)
    (h : (Z.HashTTLExec.hincrbyCmd m ts table k f dtxt).2 = .err e) :
    (Z.HashTTLExec.hincrbyCmd m ts table k f dtxt).1 = m :=
  Z.HashTTLExec.hincrbyCmd_error_no_effect m ts table k f dtxt e h

/-- the statement order the two theorems rest on is the code's, re-extracted on every run (Gen/HIncrShape): in HIncrBy the
    parse block (whose error returns) precedes `n += delta`, which precedes the only write (`hSetField`), and nothing
    writes before it; localHIncrbyCommand parses the increment and returns its error before HIncrBy is called -/
theorem C11_hincrby_parse_before_write : Gen.hincrParseBeforeWrite = true ∧ Gen.hincrDeltaParsedFirst = true := by decide

/-- non-vacuity: stores of the executable models (real key codec) on which HINCRBY does answer errors -/
example :
    let F := Z.HashExec.realFns [116]
    let m := Z.HashExec.hset F [] [104] [102] [118]                 -- HSET t:h f v
    (Z.HashExec.hincrbyCmd F m [104] [102] [49]).2 = .err .notint ∧  -- HINCRBY t:h f 1: the value is not an integer
    (Z.HashExec.hincrbyCmd F m [104] [103] [120]).2 = .err .notint ∧ -- HINCRBY t:h g x: the increment is not
    (Z.HashExec.hincrbyCmd F m [104] [103] [49]).2 = .int 1 := by decide

example :
    let m := (Z.HashTTLExec.hset [] 7000000000 false [116] [104] [102] (Z.KVExec.fmtInt 9223372036854775808)).1
    (Z.HashTTLExec.hincrbyCmd m 7000000001 [116] [104] [102] [49]).2 = .err .numrange ∧
    (Z.HashTTLExec.hincrbyCmd m 7000000001 [116] [104] [102] [49]).1 = m := by decide

/-! ### bitmap (both layouts): an error answer (value not 0 / 1, offset outside `[0, MaxBitOffsetV2]`, undecodable meta,
    overflowing expiry, PERSIST under local_deletion) leaves the store as it was. Model domain: table name and key part
    non-empty (with an EMPTY key part the real `BitSetV2` converts and deletes a string of that name and THEN answers
    `invalid key size`: finding C11-setbit-empty-keypart, outside the model, still open).
    The model of the bitmap commands has NO panic outcome (`BOut` = value | error class): the apply-path panic
    `bitmap size mismatch` of SETBIT over an expired bitmap + a string of the same name was repaired (fix 0ad0963, `bmSize = 0`
    for an absent / expired bitmap); the size check is still in the code and dead — `C11_setbit_conversion_size_check_dead` —,
    the former witness is the regression example `C11_setbit_expired_over_string`. -/

open Z.BitExec in
theorem C11_setbit_error_no_effect (pol : Pol) (m : List KV) (ts : Int) (table rk : Bytes) (offset on : Int) (e : String)
    (h : (setbit pol m ts table rk offset on).2 = .err e) : (setbit pol m ts table rk offset on).1 = m := by
  unfold setbit at h ⊢
  split
  · rfl
  · split
    · rfl
    · rename_i h1 h2
      rw [if_neg h1, if_neg h2] at h
      cases hb : bmeta pol m ts table rk with
      | err c => rfl
      | mk hd ex size0 ok => rw [hb] at h; simp only at h; cases h

/-- the legacy conversion of `BitSetV2` cannot hit its own `panic("bitmap size mismatch")`: `bmSize` starts from 0 (regenerated
    pin `Gen.bitDeadSizeZero`) and the lengths of the segments the loop writes add up to the length of the string's body -/
theorem C11_setbit_conversion_size_check_dead (body : Z.BitExec.Bytes) :
    (0 : Int) + (((Z.BitExec.chunks (body.length + 1) body 0).map (fun c => c.2.length)).sum : Nat) = (body.length : Int) := by
  rw [Z.BitExec.chunks_total (body.length + 1) body 0 (by omega)]; omega

open Z.BitExec in
theorem C11_bitclear_error_no_effect (pol : Pol) (m : List KV) (ts : Int) (table rk : Bytes) (e : String)
    (h : (bitclear pol m ts table rk).2 = .err e) : (bitclear pol m ts table rk).1 = m := by
  unfold bitclear at h ⊢
  cases hmv : mview pol m ts table rk with
  | bad c => rfl
  | mv hd ex =>
    rw [hmv] at h
    simp only at h ⊢
    generalize clearSize hd = bm at h ⊢
    by_cases hc : (ex || bm == 0) = true
    · rw [if_pos hc]
    · rw [if_neg hc] at h
      cases pol <;> cases h

open Z.BitExec in
theorem C11_bexpire_error_no_effect (m : List KV) (ts : Int) (table rk : Bytes) (dur : Int) (e : String)
    (h : (bexpire m ts table rk dur).2 = .err e) : (bexpire m ts table rk dur).1 = m := by
  unfold bexpire bexpireAt at h ⊢
  cases hmv : mview .compact m ts table rk with
  | bad c => rfl
  | mv hd ex =>
    rw [hmv] at h
    simp only at h ⊢
    split
    · rfl
    · rename_i hne
      rw [if_neg hne] at h
      split
      · rfl
      · rfl
      · rename_i raw' hr
        rw [hr] at h; cases h

open Z.BitExec in
theorem C11_bpersist_error_no_effect (pol : Pol) (m : List KV) (ts : Int) (table rk : Bytes) (e : String)
    (h : (bpersist pol m ts table rk).2 = .err e) : (bpersist pol m ts table rk).1 = m := by
  cases pol with
  | compact =>
    have := C11_bexpire_error_no_effect m ts table rk (0 - Int.tdiv ts 1000000000) e
    unfold bpersist at h ⊢
    unfold bexpire at this
    rw [show 0 - Int.tdiv ts 1000000000 + Int.tdiv ts 1000000000 = 0 by omega] at this
    exact this h
  | «local» =>
    unfold bpersist at h ⊢
    simp only at h ⊢
    split
    · rfl
    · split <;> rfl

section BitExample
open Z.BitExec Z.Header
def bT : Bytes := [116]
def bK : Bytes := [98]
def bTs : Int := 1600000000000000000

set_option maxRecDepth 100000 in
example : (setbit .compact [] bTs bT bK 5 2) = ([], .err "bitvalue") ∧ (setbit .local [] bTs bT bK 4294967295 1) = ([], .err "bitoffset") ∧
    (setbit .compact [] bTs bT bK (-1) 1) = ([], .err "bitoffset") ∧ (setbit .compact [] bTs bT bK 4294967294 1).2 = .ok 0 := by decide

set_option maxRecDepth 100000 in
example : (bexpire (setbit .compact [] bTs bT bK 5 1).1 (bTs + 1) bT bK 4294967294).2 = .err "expoverflow" ∧
    (bpersist .local (setbit .local [] bTs bT bK 5 1).1 (bTs + 1) bT bK).2 = .err "ttlunsupported" := by decide

set_option maxRecDepth 100000 in
/-- **regression (defect repaired by 0ad0963)**: `SETBIT b 5 1 @t; BEXPIRE b 1 @t; SET b "a" @t+2s; SETBIT b 6 1 @t+3s` — the bitmap
    meta is expired with size 1 and a string of the same name exists. Before the fix the legacy conversion added the string's
    length to the expired size and hit `panic("bitmap size mismatch")` in the apply path of every replica; now the command
    answers 0, the string is converted (deleted), and the new generation has the size of the converted body (14 raw bytes: 13
    header + 1) — the store a reader decodes -/
theorem C11_setbit_expired_over_string :
    let s1 := (setbit .compact [] bTs bT bK 5 1).1
    let s2 := (bexpire s1 bTs bT bK 1).1
    let s3 := Z.Ref.put s2 (strK bT bK) (encode ⟨0, 0, some [97]⟩ ++ Z.Codec.be64 (Z.Codec.toU64 (bTs + 2000000000)))
    (bexpire s1 bTs bT bK 1).2 = .ok 1 ∧
    (setbit .compact s3 (bTs + 3000000000) bT bK 6 1).2 = .ok 0 ∧
    Z.Ref.get (setbit .compact s3 (bTs + 3000000000) bT bK 6 1).1 (strK bT bK) = none ∧
    bmeta .compact (setbit .compact s3 (bTs + 3000000000) bT bK 6 1).1 (bTs + 4000000000) bT bK =
      .mk ⟨0, bTs + 3000000000, some (metaUser 14 (bTs + 3000000000))⟩ false 14 true ∧
    getbit .compact (setbit .compact s3 (bTs + 3000000000) bT bK 6 1).1 (bTs + 4000000000) bT bK 6 = .ok 1 := by decide

example : (0 : Int) + (((chunks (([1, 2, 3] : Z.BitExec.Bytes).length + 1) [1, 2, 3] 0).map (fun c => c.2.length)).sum : Nat) =
    (([1, 2, 3] : Z.BitExec.Bytes).length : Int) := C11_setbit_conversion_size_check_dead [1, 2, 3]
end BitExample


end Z.Props.C11
