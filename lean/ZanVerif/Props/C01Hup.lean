/-
  C01 — membership changes: a replica whose member set may be stale does not start an election.

  `raft.hup` (raft/raft.go) refuses to campaign while a committed configuration change is not applied yet: it reads
  the entries applied+1 .. committed from the log and counts the configuration changes among them.  The decision
  expressions are REGENERATED from the source (Gen/Hup.lean: the size limit handed to `raftLog.slice`, the blocking
  test; pinned besides: the scanned range, that `numOfPendingConf` counts entries of type EntryConfChange, that the
  campaign call follows the guarded return, and that `campaign` is reached only through `hup` or from an election
  that passed it).  The log layer is the function-by-function model of C02 (`Z.LogModel`: raftLog.slice over
  storage + unstable, limitSize), so the statement is about what the real `slice` returns — in particular that with
  `noLimit` NOTHING of the range is cut off, however many bytes of ordinary entries precede the configuration change.
  Which entries are configuration changes is a parameter (`conf`): the log model carries index, term and payload size.
-/
import ZanVerif.Raft.LogLemmas
import ZanVerif.Gen.Hup

namespace Z.Props.C01Hup
open Z.LogModel

/-- `hup` up to the campaign decision: `.ok true` = campaigns, `.ok false` = refuses (pending configuration changes, or
    the log is compacted beyond `applied`), panic as the code does on any other error -/
def hupCampaigns (l : RaftLog) (conf : Entry → Bool) : Res Bool :=
  match l.slice (l.applied + 1) (l.committed + 1) Gen.hupLimit with
  | .err .compacted => .ok false
  | .err _ => .panic .otherErr
  | .panic p => .panic p
  | .ok ents => .ok (!(Gen.hupBlocked ((ents.filter conf).length : Int) (l.applied : Int) (l.committed : Int)))

/-- every index of (applied, committed] is the index of an entry of the scanned range -/
theorem range_covers {l : RaftLog} (w : WfLog l) (hfa : l.firstIndex ≤ l.applied + 1) (i : Nat)
    (h1 : l.applied < i) (h2 : i ≤ l.committed) :
    ∃ e ∈ range l (l.applied + 1) (l.committed + 1), e.index = i := by
  have hc := w.committedLe
  have hlen := range_length w (a := l.applied + 1) (b := l.committed + 1) hfa (by omega)
  have hcon := range_contig w (l.applied + 1) (l.committed + 1) hfa
  have hk : i - (l.applied + 1) < (range l (l.applied + 1) (l.committed + 1)).length := by rw [hlen]; omega
  refine ⟨(range l (l.applied + 1) (l.committed + 1))[i - (l.applied + 1)], List.getElem_mem hk, ?_⟩
  have := hcon (i - (l.applied + 1)) _ (List.getElem?_eq_getElem hk)
  rw [this]; omega

/-- **a replica with a committed but unapplied configuration change never campaigns.**  For every well-formed log
    (storage + unstable part, any snapshot position), every applied ≤ committed, whatever the entries weigh (their
    sizes only have to fit Go's uint64 size counter): if `hup` goes on to `campaign`, no entry of (applied, committed]
    is a configuration change — the member set the replica campaigns with is the one of its committed log. -/
theorem C01_no_campaign_with_pending_conf_change {l : RaftLog} (w : WfLog l) (conf : Entry → Bool)
    (hfa : l.firstIndex ≤ l.applied + 1)
    (hfit : ((range l (l.applied + 1) (l.committed + 1)).map Entry.size).sum ≤ 18446744073709551615)
    (h : hupCampaigns l conf = .ok true) :
    ∀ i, l.applied < i → i ≤ l.committed → ∀ e ∈ range l (l.applied + 1) (l.committed + 1), e.index = i → conf e = false := by
  have hc := w.committedLe
  have hal := w.appliedLe
  obtain ⟨n, hs, _, _, hall⟩ := slice_ok w (l.applied + 1) (l.committed + 1) Gen.hupLimit hfa (by omega) (by omega)
  have hn : n = l.committed + 1 - (l.applied + 1) := hall (by unfold Gen.hupLimit; exact hfit)
  have hlen := range_length w (a := l.applied + 1) (b := l.committed + 1) hfa (by omega)
  have htake : (range l (l.applied + 1) (l.committed + 1)).take n = range l (l.applied + 1) (l.committed + 1) :=
    List.take_of_length_le (by omega)
  unfold hupCampaigns at h
  rw [hs, htake] at h
  simp only [Res.ok.injEq, Bool.not_eq_true'] at h
  intro i h1 h2 e he _
  -- the guard is false although committed > applied: the count is 0
  unfold Gen.hupBlocked at h
  have hgt : (l.committed : Int) > (l.applied : Int) := by omega
  simp only [hgt, decide_true, Bool.and_true, bne_eq_false_iff_eq] at h
  have h0 : ((range l (l.applied + 1) (l.committed + 1)).filter conf).length = 0 := by omega
  have hnil := List.length_eq_zero_iff.mp h0
  cases hce : conf e with
  | false => rfl
  | true =>
    have : e ∈ (range l (l.applied + 1) (l.committed + 1)).filter conf := List.mem_filter.mpr ⟨he, hce⟩
    rw [hnil] at this; cases this

/-! non-vacuity: snapshot at 2, storage 3–4, unstable 5–6, applied 3, committed 6; entry 6 as the configuration change
    blocks the campaign, no configuration change lets it through and the theorem's premises hold (kernel evaluation) -/
def exLog : RaftLog :=
  { storage := { snapIndex := 2, snapTerm := 1, dummy := ⟨2, 1, 0, 0⟩, rest := [⟨3, 1, 31, 0⟩, ⟨4, 2, 41, 3⟩] },
    unstable := { snapshot := none, entries := [⟨5, 2, 51, 0⟩, ⟨6, 3, 61, 5⟩], offset := 5 },
    committed := 6, applied := 3, maxNextEntsSize := noLimit }
theorem exWf : WfLog exLog := (wfB_iff _).mp (by decide)
example : hupCampaigns exLog (fun e => e.index == 6) = .ok false := by decide
example : hupCampaigns exLog (fun _ => false) = .ok true := by decide
example : ∀ i, exLog.applied < i → i ≤ exLog.committed →
    ∀ e ∈ range exLog (exLog.applied + 1) (exLog.committed + 1), e.index = i → (fun _ : Entry => false) e = false :=
  C01_no_campaign_with_pending_conf_change exWf (fun _ => false) (by decide) (by decide) (by decide)

/-- and the scan is complete: every index of (applied, committed] is looked at -/
theorem C01_hup_scan_complete {l : RaftLog} (w : WfLog l) (hfa : l.firstIndex ≤ l.applied + 1) (i : Nat)
    (h1 : l.applied < i) (h2 : i ≤ l.committed) :
    ∃ e ∈ range l (l.applied + 1) (l.committed + 1), e.index = i := range_covers w hfa i h1 h2

/-- nothing committed is unapplied: the guard never blocks (the second conjunct of the test) -/
theorem C01_hup_not_blocked_when_applied (n a : Int) : Gen.hupBlocked n a a = false := by
  unfold Gen.hupBlocked; simp

/-- why the limit matters (the shape of the seeded change that scans with a byte limit): `limitSize` with a small
    limit keeps only the first entry, so a configuration change behind one ordinary entry is not counted -/
theorem C01_limited_scan_misses_witness :
    let es : List Entry := [⟨5, 1, 0, 100⟩, ⟨6, 1, 0, 0⟩]
    ((limitSize es 50).filter (fun e => e.index == 6)).length = 0 ∧
    ((limitSize es Gen.hupLimit).filter (fun e => e.index == 6)).length = 1 := by decide

end Z.Props.C01Hup
